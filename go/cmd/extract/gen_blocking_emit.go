package main

import (
	"fmt"
	"go/ast"
	"sort"
	"strconv"
	"strings"
)

// Driver and Lean output of Gen/Blocking.lean (see gen_blocking.go).

func genBlocking(r *repo) string {
	x := newBlCtx(r)
	x.scanAll()
	x.computeRelevant()
	x.lockWalk()
	sk := x.skeletons()

	// runnable kinds = static types of the arguments of every rp.add(…)
	kinds := map[string]bool{}
	for _, f := range x.files {
		ast.Inspect(x.p.files[f], func(n ast.Node) bool {
			if c, ok := n.(*ast.CallExpr); ok && x.isSpawn(c) {
				b := &blBuild{x: x}
				kinds[b.spawnKind(c)] = true
			}
			return true
		})
	}
	for k := range kinds {
		x.spawnable = append(x.spawnable, k)
	}
	sort.Strings(x.spawnable)
	if len(x.spawnable) == 0 {
		fatalf("blocking table: nothing is ever added to the routine pool")
	}

	var graphs []*blGraph
	for pass := 0; pass < 2; pass++ {
		x.final = pass == 1
		graphs = nil
		for _, r := range x.rows {
			r.roles = map[string]bool{}
			r.ctxSeen = map[string]bool{}
		}
		x.litDone = map[*ast.FuncLit]bool{}
		// tasks
		for _, k := range x.spawnable {
			fd := x.funcs[k+".run"]
			if fd == nil || fd.Body == nil {
				fatalf("blocking table: runnable kind %s has no run method", k)
			}
			b := &blBuild{x: x, role: "task", spawns: map[string]bool{}, callbacks: map[string]bool{}}
			// the context parameter of run is what clientRoutinePool.add passes
			for _, f := range fd.Type.Params.List {
				for _, id := range f.Names {
					if src(x.p, f.Type) == "context.Context" {
						x.bindJoin(x.obj(id), x.ctxClass(sk.runArg))
					}
				}
			}
			rets := map[string]*blPoint{}
			retK := func(st blStatus) *blPoint {
				t := "nil"
				if st.fail {
					t = st.text
				}
				if rets[t] == nil {
					rets[t] = &blPoint{ret: t}
				}
				return rets[t]
			}
			entry := b.inlineBody(fd.Body, fd.Type, fd, x.fnName[fd], nil, retK)
			graphs = append(graphs, blCollapse(k, entry, b))
		}
		// the pool's own goroutine body
		wb := &blBuild{x: x, role: "wrapper"}
		ast.Inspect(sk.addLit, func(n ast.Node) bool {
			if n != nil && x.rowOf[n] != nil {
				wb.touch(x.rowOf[n])
			}
			return true
		})
		x.litDone[sk.addLit] = true
		// the goroutine that owns the pool
		sink := func(blStatus) *blPoint { return &blPoint{} }
		rb := &blBuild{x: x, role: "runner", spawns: map[string]bool{}, callbacks: map[string]bool{}}
		fd := x.funcs["Client.run"]
		rb.inlineBody(fd.Body, fd.Type, fd, "Client.run", nil, sink)
		// the API
		var api []string
		for k, d := range x.funcs {
			if strings.HasPrefix(k, "Client.") && ast.IsExported(d.Name.Name) && d.Body != nil {
				api = append(api, k)
			}
		}
		sort.Strings(api)
		for _, k := range api {
			ab := &blBuild{x: x, role: "api", spawns: map[string]bool{}, callbacks: map[string]bool{}}
			d := x.funcs[k]
			ab.inlineBody(d.Body, d.Type, d, k, nil, sink)
		}
	}
	for lit := range x.litRows {
		if !x.litDone[lit] && !x.litInlined(lit) {
			// a literal that only forwards to function values (the OnData… adapters stored in
			// clientTrack.onData) runs where that function value is called: inside a pool task
			onlyCallbacks := true
			var inside []*blRow
			ast.Inspect(lit, func(n ast.Node) bool {
				if n != nil && x.rowOf[n] != nil {
					inside = append(inside, x.rowOf[n])
					if x.rowOf[n].kind != "callback" {
						onlyCallbacks = false
					}
				}
				return true
			})
			if onlyCallbacks {
				for _, r := range inside {
					r.roles["task"] = true
				}
				continue
			}
			x.fail(lit, "function literal with a blocking operation in a position the extractor does not follow")
		}
	}

	var w strings.Builder
	w.WriteString("import Hls.Pool.Table\n\nnamespace Hls.Gen\nopen Hls.Pool\n\n")
	w.WriteString("/-- one row per syntactic potentially blocking operation of client*.go, from the Go AST -/\n")
	w.WriteString("def blockingRows : List Row := [\n")
	for i, r := range x.rows {
		w.WriteString("  " + x.rowTerm(r))
		if i+1 < len(x.rows) {
			w.WriteString(",")
		}
		w.WriteString("\n")
	}
	w.WriteString("]\n\n")
	w.WriteString("/-- blocking graph of every runnable kind (run with all calls inlined) -/\n")
	w.WriteString("def taskGraphs : List TaskGraph := [\n")
	for i, g := range graphs {
		fmt.Fprintf(&w, "  { name := %s, entry := [%s], spawns := [%s], callbacks := [%s], nodes := [\n", strconv.Quote(g.name),
			strings.Join(g.entry, ", "), quoteAll(g.spawns), quoteAll(g.callbacks))
		for j, n := range g.nodes {
			var arms []string
			for _, a := range n.arms {
				arms = append(arms, fmt.Sprintf("{ kind := %s, next := [%s] }", a.kind, strings.Join(a.next, ", ")))
			}
			fmt.Fprintf(&w, "      /- %d: %s %s:%d -/ { row := %d, kind := .%s, rank := %d, arms := [%s] }", j, n.row.fn, n.row.file, n.row.line,
				n.row.id, n.kind, n.rank, strings.Join(arms, ", "))
			if j+1 < len(g.nodes) {
				w.WriteString(",")
			}
			w.WriteString("\n")
		}
		w.WriteString("    ] }")
		if i+1 < len(graphs) {
			w.WriteString(",")
		}
		w.WriteString("\n")
	}
	w.WriteString("]\n\n")
	lst := func(s []string) string { return "[" + strings.Join(s, ", ") + "]" }
	w.WriteString("/-- skeleton of client_routine_pool.go -/\ndef poolSkel : PoolSkel where\n")
	fmt.Fprintf(&w, "  init := %s\n  close := %s\n  errorChan := %s\n  add := %s\n  addGo := %s\n  addSelect := %s\n\n",
		lst(sk.poolInitialize), lst(sk.poolClose), lst(sk.poolErrorChan), lst(sk.poolAdd), lst(sk.poolAddGo), lst(sk.poolAddSelect))
	w.WriteString("/-- skeleton of Client.Start / Close / Wait / run / runInner (client.go) -/\ndef clientSkel : ClientSkel where\n")
	var arms []string
	for _, a := range sk.runInnerArms {
		arms = append(arms, "("+a[0]+", "+a[1]+")")
	}
	fmt.Fprintf(&w, "  start := %s\n  close := %s\n  wait := %s\n  run := %s\n  runInner := %s\n  runInnerArms := %s\n\n",
		lst(sk.start), lst(sk.close), lst(sk.wait), lst(sk.run), lst(sk.runInner), lst(arms))
	w.WriteString("end Hls.Gen\n")
	return w.String()
}

func (x *blCtx) litInlined(lit *ast.FuncLit) bool {
	for _, l := range x.litOfVar {
		if l == lit {
			return true // closure variables are inlined at their call sites; a never-called one has no role and fails the table
		}
	}
	return false
}

func quoteAll(s []string) string {
	var out []string
	for _, t := range s {
		out = append(out, strconv.Quote(t))
	}
	return strings.Join(out, ", ")
}

func (x *blCtx) rowCtx(r *blRow) string {
	if len(r.ctxExprs) == 0 {
		return "none"
	}
	if len(r.ctxSeen) == 1 {
		for c := range r.ctxSeen {
			return c
		}
	}
	return "unknown"
}

func (x *blCtx) rowTerm(r *blRow) string {
	var arms []string
	cls := x.rowCtx(r)
	switch r.kind {
	case "select":
		for _, a := range r.arms {
			if a.isCtx {
				c := cls
				if len(r.ctxExprs) > 1 { // several Done() arms: classify each with the final bindings
					c = x.ctxClassFinal(a.ctxExpr)
				}
				arms = append(arms, ".ctxDone ."+c)
			} else {
				arms = append(arms, a.kind)
			}
		}
	case "recvCtxDone":
		arms = []string{".ctxDone ." + cls}
	case "httpDo", "bodyRead":
		arms = []string{".ok", ".fail"}
		if len(r.ctxExprs) == 1 {
			arms = append(arms, ".ctxDone ."+cls)
		}
	case "queuePull", "queueWaitBelow":
		arms = []string{".ok", ".ctxDone ." + cls}
	default:
		arms = r.outcomes
	}
	capT := "none"
	if r.bufCap != nil {
		capT = "some " + strconv.Itoa(*r.bufCap)
	}
	var roles []string
	for _, ro := range []string{"task", "wrapper", "runner", "api"} {
		if r.roles[ro] {
			roles = append(roles, "."+ro)
		}
	}
	if len(roles) == 0 {
		roles = []string{".unattributed"}
	}
	return fmt.Sprintf("/- %d -/ { file := %s, fn := %s, line := %d, kind := .%s, what := %s, arms := [%s], ctx := .%s, bufCap := %s, sendSites := %d, inLoop := %v, csFree := %v, user := %v, roles := [%s] }",
		r.id, strconv.Quote(r.file), strconv.Quote(r.fn), r.line, r.kind, strconv.Quote(r.what), strings.Join(arms, ", "), cls, capT,
		r.sendSites, r.inLoop, r.csFree, r.user, strings.Join(roles, ", "))
}
