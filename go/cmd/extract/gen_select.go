package main

import (
	"fmt"
	"go/ast"
	"go/token"
	"strconv"
	"strings"
)

// Gen/Select.lean (property C11): everything the segment-selection theorems are
// ABOUT is regenerated from client.go / client_stream_downloader.go:
//
//   * the constants clientLiveInitialDistance / clientLiveMaxDistanceFromEnd,
//   * the index arithmetic of findSegmentWithInvPosition / findSegmentWithID
//     (slices are abstracted to their length; `return segments[E], a, b` becomes
//     `some (E, a, b)` — the model performs the indexing and turns an index out of
//     range into an explicit panic —, `return nil, 0, 0` becomes `none`),
//   * the expressions fillSegmentQueue plugs into them: the inverse start position,
//     the wanted id (`*d.curSegmentID+1`), the "too late" condition, the new current
//     id (`pl.MediaSequence + segPos`), the index compared with for end-of-stream,
//   * the Range header arithmetic of downloadSegment / downloadPreloadHint and the
//     `_HLS_skip` directive of downloadPlaylist.
//
// Any other shape of these functions aborts extraction (the tie is broken).

func init() { registerGen("Select.lean", genSelect) }

// selRewrite returns a copy of e in which sub-expressions are replaced by
// identifiers according to `subst` (keyed by the printed form of the
// sub-expression). This is how `len(segments)`, `*start`, `pl.Endlist` … are
// presented to the integer-expression translator of translate.go.
func selRewrite(e ast.Expr, subst map[string]string) ast.Expr {
	if name, ok := subst[selPrint(e)]; ok {
		return &ast.Ident{Name: name, NamePos: e.Pos()}
	}
	switch x := e.(type) {
	case *ast.ParenExpr:
		return &ast.ParenExpr{X: selRewrite(x.X, subst), Lparen: x.Lparen, Rparen: x.Rparen}
	case *ast.BinaryExpr:
		return &ast.BinaryExpr{X: selRewrite(x.X, subst), Y: selRewrite(x.Y, subst), Op: x.Op, OpPos: x.OpPos}
	case *ast.UnaryExpr:
		return &ast.UnaryExpr{X: selRewrite(x.X, subst), Op: x.Op, OpPos: x.OpPos}
	case *ast.CallExpr:
		var args []ast.Expr
		for _, a := range x.Args {
			args = append(args, selRewrite(a, subst))
		}
		return &ast.CallExpr{Fun: x.Fun, Args: args, Lparen: x.Lparen, Rparen: x.Rparen}
	}
	return e
}

// selPrint is a canonical textual form of the small expression language we meet.
func selPrint(e ast.Expr) string {
	switch x := e.(type) {
	case *ast.Ident:
		return x.Name
	case *ast.BasicLit:
		return x.Value
	case *ast.SelectorExpr:
		return selPrint(x.X) + "." + x.Sel.Name
	case *ast.StarExpr:
		return "*" + selPrint(x.X)
	case *ast.ParenExpr:
		return "(" + selPrint(x.X) + ")"
	case *ast.UnaryExpr:
		return x.Op.String() + selPrint(x.X)
	case *ast.BinaryExpr:
		return selPrint(x.X) + " " + x.Op.String() + " " + selPrint(x.Y)
	case *ast.IndexExpr:
		return selPrint(x.X) + "[" + selPrint(x.Index) + "]"
	case *ast.CallExpr:
		var as []string
		for _, a := range x.Args {
			as = append(as, selPrint(a))
		}
		return selPrint(x.Fun) + "(" + strings.Join(as, ", ") + ")"
	}
	return fmt.Sprintf("<%T>", e)
}

type selGen struct {
	t *tr
	p *pkgSrc
}

func (g *selGen) fail(where string, n ast.Node, msg string) {
	fatalf("%s: %s: unexpected shape: %s", where, g.p.fset.Position(n.Pos()), msg)
}

// finder translates `func f(…, segments []*T, …) (*T, int[, int])` whose body is
//
//	x := e ...
//	if cond { return nil, 0[, 0] }
//	return segments[E], a[, b]
//
// into `def f (intParams… with segments ↦ segmentsLen) : Option (Int × Int [× Int])`.
func (g *selGen) finder(name string) string {
	fd := g.p.mustFunc("", name)
	g.t.where = name
	var params []string
	slice := ""
	for _, f := range fd.Type.Params.List {
		for _, n := range f.Names {
			switch ty := f.Type.(type) {
			case *ast.ArrayType:
				if ty.Len != nil || slice != "" {
					g.fail(name, f, "expected exactly one slice parameter")
				}
				slice = n.Name
				params = append(params, "("+n.Name+"Len : Int)")
			case *ast.Ident:
				if ty.Name != "int" {
					g.fail(name, f, "non-int parameter")
				}
				params = append(params, "("+leanIdent(n.Name)+" : Int)")
			default:
				g.fail(name, f, "parameter type")
			}
		}
	}
	if slice == "" {
		g.fail(name, fd, "no slice parameter")
	}
	nres := 0
	for _, f := range fd.Type.Results.List {
		k := len(f.Names)
		if k == 0 {
			k = 1
		}
		nres += k
	}
	if nres != 2 && nres != 3 {
		g.fail(name, fd, "result arity")
	}
	subst := map[string]string{"len(" + slice + ")": slice + "Len"}
	ex := func(e ast.Expr) string {
		// the slice itself may only be used through len() and one final indexing
		r := selRewrite(e, subst)
		ast.Inspect(r, func(n ast.Node) bool {
			if id, ok := n.(*ast.Ident); ok && id.Name == slice {
				g.fail(name, e, "slice used outside len()/indexing")
			}
			return true
		})
		return g.t.expr(r)
	}
	tuple := func(xs []string) string { return "(" + strings.Join(xs, ", ") + ")" }
	var block func(stmts []ast.Stmt) string
	block = func(stmts []ast.Stmt) string {
		if len(stmts) == 0 {
			g.fail(name, fd, "control reaches end of function")
		}
		switch x := stmts[0].(type) {
		case *ast.AssignStmt:
			if len(x.Lhs) != 1 || len(x.Rhs) != 1 || x.Tok != token.DEFINE {
				g.fail(name, x, "assignment")
			}
			id, ok := x.Lhs[0].(*ast.Ident)
			if !ok {
				g.fail(name, x, "assign target")
			}
			return "let " + leanIdent(id.Name) + " := " + ex(x.Rhs[0]) + "\n  " + block(stmts[1:])
		case *ast.IfStmt:
			if x.Init != nil || x.Else != nil || len(x.Body.List) != 1 {
				g.fail(name, x, "if")
			}
			ret, ok := x.Body.List[0].(*ast.ReturnStmt)
			if !ok || len(ret.Results) != nres {
				g.fail(name, x, "if body must be a return")
			}
			if id, isID := ret.Results[0].(*ast.Ident); !isID || id.Name != "nil" {
				g.fail(name, ret, "early return must return nil")
			}
			for _, r := range ret.Results[1:] {
				if lit, isLit := r.(*ast.BasicLit); !isLit || lit.Value != "0" {
					g.fail(name, ret, "early return must return zero values")
				}
			}
			return "if " + ex(x.Cond) + " then none\n  else\n  " + block(stmts[1:])
		case *ast.ReturnStmt:
			if len(x.Results) != nres || len(stmts) != 1 {
				g.fail(name, x, "final return")
			}
			ix, ok := x.Results[0].(*ast.IndexExpr)
			if !ok {
				g.fail(name, x, "final return must index the slice")
			}
			if id, isID := ix.X.(*ast.Ident); !isID || id.Name != slice {
				g.fail(name, x, "final return must index the slice parameter")
			}
			outs := []string{ex(ix.Index)}
			for _, r := range x.Results[1:] {
				outs = append(outs, ex(r))
			}
			return "some " + tuple(outs)
		}
		g.fail(name, stmts[0], fmt.Sprintf("statement %T", stmts[0]))
		return ""
	}
	ty := "Int × Int"
	if nres == 3 {
		ty = "Int × Int × Int"
	}
	doc := "/-- translated from `" + name + "` (" + g.p.fset.Position(fd.Pos()).String() + ").\n" +
		"    `none` = the `nil` return; `some (i, …)` = `return " + slice + "[i], …` (the caller indexes). -/\n"
	return doc + fmt.Sprintf("def %s %s : Option (%s) :=\n  %s\n\n", name, strings.Join(params, " "), ty, block(fd.Body.List))
}

// flattenAdd turns a left-nested chain a + b + c into [a b c].
func flattenAdd(e ast.Expr) []ast.Expr {
	if b, ok := e.(*ast.BinaryExpr); ok && b.Op == token.ADD {
		return append(flattenAdd(b.X), flattenAdd(b.Y)...)
	}
	if p, ok := e.(*ast.ParenExpr); ok {
		return flattenAdd(p.X)
	}
	return []ast.Expr{e}
}

func selStrLit(e ast.Expr) (string, bool) {
	l, ok := e.(*ast.BasicLit)
	if !ok || l.Kind != token.STRING {
		return "", false
	}
	s, err := strconv.Unquote(l.Value)
	if err != nil {
		return "", false
	}
	return s, true
}

func leanStr(s string) string {
	for _, c := range s {
		if c < 0x20 || c > 0x7e || c == '"' || c == '\\' {
			fatalf("string literal %q outside the plain-ASCII subset", s)
		}
	}
	return "\"" + s + "\""
}

// rangeHeader extracts `req.Header.Add("Range", "bytes="+FormatUint(A,10)+"-"+FormatUint(B,10))`.
func (g *selGen) rangeHeader(fn string, subst map[string]string, prefix string) string {
	fd := g.p.mustFunc("clientStreamDownloader", fn)
	g.t.where = fn
	var call *ast.CallExpr
	n := 0
	ast.Inspect(fd.Body, func(nd ast.Node) bool {
		c, ok := nd.(*ast.CallExpr)
		if !ok {
			return true
		}
		if selPrint(c.Fun) == "req.Header.Add" || selPrint(c.Fun) == "req.Header.Set" {
			if k, isStr := selStrLit(c.Args[0]); isStr && k == "Range" {
				call = c
				n++
			}
		}
		return true
	})
	if n != 1 || len(call.Args) != 2 {
		g.fail(fn, fd, "expected exactly one Range header")
	}
	parts := flattenAdd(call.Args[1])
	if len(parts) != 4 {
		g.fail(fn, call, "Range value must be lit + FormatUint + lit + FormatUint")
	}
	pre, ok1 := selStrLit(parts[0])
	sep, ok2 := selStrLit(parts[2])
	if !ok1 || !ok2 {
		g.fail(fn, call, "Range literals")
	}
	num := func(e ast.Expr) string {
		c, ok := e.(*ast.CallExpr)
		if !ok || selPrint(c.Fun) != "strconv.FormatUint" || len(c.Args) != 2 || selPrint(c.Args[1]) != "10" {
			g.fail(fn, e, "expected strconv.FormatUint(x, 10)")
		}
		return g.t.expr(selRewrite(c.Args[0], subst))
	}
	var b strings.Builder
	b.WriteString("/-- `Range` header of `" + fn + "` (" + g.p.fset.Position(call.Pos()).String() + "): prefix ++ first ++ sep ++ last, uint64 arithmetic -/\n")
	b.WriteString("def " + prefix + "RangePrefix : String := " + leanStr(pre) + "\n")
	b.WriteString("def " + prefix + "RangeSep : String := " + leanStr(sep) + "\n")
	b.WriteString("def " + prefix + "RangeFirst (start : Int) (length : Int) : Int :=\n  " + num(parts[1]) + "\n")
	b.WriteString("def " + prefix + "RangeLast (start : Int) (length : Int) : Int :=\n  " + num(parts[3]) + "\n\n")
	return b.String()
}

func genSelect(r *repo) string {
	p := r.pkgs["."]
	g := &selGen{t: &tr{p: p, consts: p.consts(), callable: map[string]bool{}}, p: p}
	var b strings.Builder
	b.WriteString("set_option linter.unusedVariables false\nnamespace Hls.Gen.Select\n\n")

	// constants
	for _, c := range []string{"clientLiveInitialDistance", "clientLiveMaxDistanceFromEnd"} {
		ci, ok := g.t.consts[c]
		if !ok || ci.expr == nil {
			fatalf("constant %s not found", c)
		}
		g.t.where = c
		b.WriteString("/-- `" + c + "` (client.go) -/\n")
		b.WriteString("def " + c + " : Int := " + g.t.expr(ci.expr) + "\n\n")
	}

	b.WriteString(g.finder("findSegmentWithInvPosition"))
	b.WriteString(g.finder("findSegmentWithID"))

	// fillSegmentQueue: the expressions plugged into the finders
	{
		const fn = "fillSegmentQueue"
		fd := p.mustFunc("clientStreamDownloader", fn)
		g.t.where = fn
		var invCall, idCall *ast.CallExpr
		var lateIf *ast.IfStmt
		var lastCmp *ast.BinaryExpr
		nInv, nID, nLate, nLast := 0, 0, 0, 0
		ast.Inspect(fd.Body, func(nd ast.Node) bool {
			switch x := nd.(type) {
			case *ast.CallExpr:
				switch selPrint(x.Fun) {
				case "findSegmentWithInvPosition":
					invCall = x
					nInv++
				case "findSegmentWithID":
					idCall = x
					nID++
				}
			case *ast.IfStmt:
				if len(x.Body.List) >= 1 {
					if ret, ok := x.Body.List[len(x.Body.List)-1].(*ast.ReturnStmt); ok && len(ret.Results) == 1 {
						if c, isCall := ret.Results[0].(*ast.CallExpr); isCall && selPrint(c.Fun) == "fmt.Errorf" && len(c.Args) == 1 {
							if s, isStr := selStrLit(c.Args[0]); isStr && s == "playback is too late" {
								lateIf = x
								nLate++
							}
						}
					}
				}
			case *ast.BinaryExpr:
				if x.Op == token.EQL && selPrint(x.Y) == "seg" {
					if ix, ok := x.X.(*ast.IndexExpr); ok && selPrint(ix.X) == "pl.Segments" {
						lastCmp = x
						nLast++
					}
				}
			}
			return true
		})
		if nInv != 1 || nID != 1 || nLate != 1 || nLast != 1 {
			fatalf("%s: expected one findSegmentWithInvPosition call, one findSegmentWithID call, one too-late check and one last-segment comparison (found %d/%d/%d/%d)",
				fn, nInv, nID, nLate, nLast)
		}
		if len(invCall.Args) != 2 || selPrint(invCall.Args[0]) != "pl.Segments" {
			g.fail(fn, invCall, "findSegmentWithInvPosition(pl.Segments, …)")
		}
		b.WriteString("/-- second argument of the `findSegmentWithInvPosition` call in `fillSegmentQueue` -/\n")
		b.WriteString("def startInvPos : Int := " + g.t.expr(invCall.Args[1]) + "\n\n")

		if len(idCall.Args) != 3 || selPrint(idCall.Args[0]) != "pl.MediaSequence" || selPrint(idCall.Args[1]) != "pl.Segments" {
			g.fail(fn, idCall, "findSegmentWithID(pl.MediaSequence, pl.Segments, …)")
		}
		b.WriteString("/-- third argument of the `findSegmentWithID` call (`cur` = `*d.curSegmentID`) -/\n")
		b.WriteString("def wantedID (cur : Int) : Int := " +
			g.t.expr(selRewrite(idCall.Args[2], map[string]string{"*d.curSegmentID": "cur"})) + "\n\n")

		if lateIf.Init != nil || lateIf.Else != nil {
			g.fail(fn, lateIf, "too-late if")
		}
		b.WriteString("/-- condition guarding `playback is too late` -/\n")
		b.WriteString("def tooLate (plEndlist : Bool) (invPos : Int) : Bool := " +
			g.t.expr(selRewrite(lateIf.Cond, map[string]string{"pl.Endlist": "plEndlist"})) + "\n\n")

		// v := pl.MediaSequence + segPos ; d.curSegmentID = &v
		found := 0
		for i, st := range fd.Body.List {
			as, ok := st.(*ast.AssignStmt)
			if !ok || i+1 >= len(fd.Body.List) || len(as.Lhs) != 1 || as.Tok != token.DEFINE {
				continue
			}
			nx, ok := fd.Body.List[i+1].(*ast.AssignStmt)
			if !ok || len(nx.Lhs) != 1 || selPrint(nx.Lhs[0]) != "d.curSegmentID" || selPrint(nx.Rhs[0]) != "&"+selPrint(as.Lhs[0]) {
				continue
			}
			found++
			b.WriteString("/-- new value of `d.curSegmentID` -/\n")
			b.WriteString("def newCurID (plMediaSequence : Int) (segPos : Int) : Int := " +
				g.t.expr(selRewrite(as.Rhs[0], map[string]string{"pl.MediaSequence": "plMediaSequence"})) + "\n\n")
		}
		if found != 1 {
			fatalf("%s: expected exactly one `v := …; d.curSegmentID = &v`", fn)
		}
		// every other assignment to d.curSegmentID would escape the model
		nAssign := 0
		ast.Inspect(fd.Body, func(nd ast.Node) bool {
			if as, ok := nd.(*ast.AssignStmt); ok {
				for _, l := range as.Lhs {
					if selPrint(l) == "d.curSegmentID" {
						nAssign++
					}
				}
			}
			return true
		})
		if nAssign != 1 {
			fatalf("%s: d.curSegmentID assigned %d times", fn, nAssign)
		}

		// pl.Endlist && pl.Segments[len(pl.Segments)-1] == seg
		ix := lastCmp.X.(*ast.IndexExpr)
		b.WriteString("/-- index whose element is compared with the chosen segment to detect the end of an ENDLIST playlist -/\n")
		b.WriteString("def lastIndex (segmentsLen : Int) : Int := " +
			g.t.expr(selRewrite(ix.Index, map[string]string{"len(pl.Segments)": "segmentsLen"})) + "\n\n")
	}

	// Range headers
	b.WriteString(g.rangeHeader("downloadSegment", map[string]string{"*start": "start", "*length": "length"}, "seg"))
	b.WriteString(g.rangeHeader("downloadPreloadHint", map[string]string{
		"preloadHint.ByteRangeStart": "start", "*preloadHint.ByteRangeLength": "length",
	}, "hint"))

	// default start of downloadSegment: if start == nil { v := uint64(K); start = &v }
	{
		const fn = "downloadSegment"
		fd := p.mustFunc("clientStreamDownloader", fn)
		g.t.where = fn
		n := 0
		ast.Inspect(fd.Body, func(nd ast.Node) bool {
			is, ok := nd.(*ast.IfStmt)
			if !ok || selPrint(is.Cond) != "start == nil" {
				return true
			}
			if len(is.Body.List) != 2 {
				g.fail(fn, is, "default start")
			}
			as, ok1 := is.Body.List[0].(*ast.AssignStmt)
			as2, ok2 := is.Body.List[1].(*ast.AssignStmt)
			if !ok1 || !ok2 || len(as.Lhs) != 1 || selPrint(as2.Lhs[0]) != "start" || selPrint(as2.Rhs[0]) != "&"+selPrint(as.Lhs[0]) {
				g.fail(fn, is, "default start")
			}
			n++
			b.WriteString("/-- start used by `downloadSegment` when the byte range has a length but no start -/\n")
			b.WriteString("def segRangeDefaultStart : Int := " + g.t.expr(as.Rhs[0]) + "\n\n")
			return true
		})
		if n != 1 {
			fatalf("%s: expected one `if start == nil` default", fn)
		}
	}

	// _HLS_skip directive
	{
		const fn = "downloadPlaylist"
		fd := p.mustFunc("clientStreamDownloader", fn)
		n := 0
		ast.Inspect(fd.Body, func(nd ast.Node) bool {
			c, ok := nd.(*ast.CallExpr)
			if !ok || (selPrint(c.Fun) != "q.Add" && selPrint(c.Fun) != "q.Set") || len(c.Args) != 2 {
				return true
			}
			k, ok1 := selStrLit(c.Args[0])
			v, ok2 := selStrLit(c.Args[1])
			if !ok1 || !ok2 {
				g.fail(fn, c, "query literal")
			}
			n++
			b.WriteString("/-- delivery directive added by `downloadPlaylist(skipUntil = true)` -/\n")
			b.WriteString("def skipKey : String := " + leanStr(k) + "\n")
			b.WriteString("def skipVal : String := " + leanStr(v) + "\n\n")
			return true
		})
		if n != 1 {
			fatalf("%s: expected exactly one query parameter", fn)
		}
	}

	// runLowLatency: what happens when the reloaded playlist carries no preload hint.
	//   repaired (fix-F28):  if pl.PreloadHint == nil { if COND { d.segmentQueue.push(nil); <-ctx.Done(); return … }; return "preload hint disappeared" }
	//   upstream:            if pl.PreloadHint == nil { return "preload hint disappeared" }
	// llEndOfStream = COND (false for the upstream shape): the loop ends the stream instead of failing.
	{
		const fn = "runLowLatency"
		fd := p.mustFunc("clientStreamDownloader", fn)
		g.t.where = fn
		var noHint *ast.IfStmt
		n := 0
		ast.Inspect(fd.Body, func(nd ast.Node) bool {
			if is, ok := nd.(*ast.IfStmt); ok && selPrint(is.Cond) == "pl.PreloadHint == nil" {
				noHint = is
				n++
			}
			return true
		})
		if n != 1 || noHint.Init != nil || noHint.Else != nil {
			fatalf("%s: expected exactly one `if pl.PreloadHint == nil { … }`", fn)
		}
		isErrorf := func(st ast.Stmt, msg string) bool {
			ret, ok := st.(*ast.ReturnStmt)
			if !ok || len(ret.Results) != 1 {
				return false
			}
			c, ok := ret.Results[0].(*ast.CallExpr)
			if !ok || selPrint(c.Fun) != "fmt.Errorf" || len(c.Args) != 1 {
				return false
			}
			s, ok := strLit(c.Args[0])
			return ok && s == msg
		}
		body := noHint.Body.List
		cond := "false"
		switch {
		case len(body) == 1 && isErrorf(body[0], "preload hint disappeared"):
			// upstream shape: no end-of-stream path (defect F28)
		case len(body) == 2 && isErrorf(body[1], "preload hint disappeared"):
			inner, ok := body[0].(*ast.IfStmt)
			if !ok || inner.Init != nil || inner.Else != nil || len(inner.Body.List) != 3 {
				g.fail(fn, body[0], "end-of-stream branch")
			}
			push, ok1 := inner.Body.List[0].(*ast.ExprStmt)
			wait, ok2 := inner.Body.List[1].(*ast.ExprStmt)
			if !ok1 || !ok2 || selPrint(push.X) != "d.segmentQueue.push(nil)" || selPrint(wait.X) != "<-ctx.Done()" ||
				!isErrorf(inner.Body.List[2], "terminated") {
				g.fail(fn, inner, "end-of-stream branch must be push(nil); <-ctx.Done(); return terminated")
			}
			cond = g.t.expr(selRewrite(inner.Cond, map[string]string{"pl.Endlist": "plEndlist"}))
		default:
			g.fail(fn, noHint, "body of the missing-hint branch")
		}
		b.WriteString("/-- `runLowLatency`, reloaded playlist without preload hint: `true` = push the nil end-of-stream marker\n")
		b.WriteString("    and park (ErrClientEOS once every stream ended), `false` = \"preload hint disappeared\" -/\n")
		b.WriteString("def llEndOfStream (plEndlist : Bool) : Bool := " + cond + "\n\n")
	}

	// runTraditional: the order of the three steps of its loop. The next segment must be selected from a playlist
	// that was fetched AFTER the downloader had waited for the queue to drain ("re-fetching the playlist between
	// segments"): reloading before the wait selects from a playlist that is one segment duration old - the
	// request sequence is the same, so a poll-driven harness cannot see it.
	{
		const fn = "runTraditional"
		fd := p.mustFunc("clientStreamDownloader", fn)
		var order []string
		ast.Inspect(fd.Body, func(nd ast.Node) bool {
			if c, ok := nd.(*ast.CallExpr); ok {
				switch selPrint(c.Fun) {
				case "d.fillSegmentQueue":
					order = append(order, "fillSegmentQueue")
				case "d.segmentQueue.waitUntilSizeIsBelow":
					order = append(order, "waitUntilSizeIsBelow")
				case "d.downloadPlaylist":
					order = append(order, "downloadPlaylist")
				}
			}
			return true
		})
		q := make([]string, len(order))
		for i, o := range order {
			q[i] = leanStr(o)
		}
		b.WriteString("/-- `runTraditional`: calls of its loop in source order -/\n")
		b.WriteString("def tradLoopOrder : List String := [" + strings.Join(q, ", ") + "]\n\n")
	}

	b.WriteString("end Hls.Gen.Select\n")
	return b.String()
}
