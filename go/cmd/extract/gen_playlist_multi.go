package main

import (
	"go/ast"
	"go/token"
	"strconv"
	"strings"
)

// Gen/PlaylistMulti.lean: the literal tables of the multivariant playlist code and of
// playlist.go, in SOURCE ORDER:
//   * the first-match dispatch chains (`switch { case strings.HasPrefix(line, "…"): … }`) of
//     Multivariant.Unmarshal and findType,
//   * the `case "KEY":` literals of the attribute switches of each tag,
//   * every string literal of each marshal function (= the emission order of tags / attributes),
//   * bit sizes of the strconv.ParseUint calls, precisions of the strconv.FormatFloat calls,
//   * maxSupportedVersion and the rendition type constants.
// Anything that does not have the expected shape aborts the extraction.

func init() { registerGen("PlaylistMulti.lean", genPlaylistMulti) }

// leanChars renders a Go string as an explicit Lean `List Char` literal.
func leanChars(s string) string {
	if s == "" {
		return "([] : List Char)"
	}
	var parts []string
	for i := 0; i < len(s); i++ {
		c := s[i]
		switch {
		case c == '\'':
			parts = append(parts, `'\''`)
		case c == '\\':
			parts = append(parts, `'\\'`)
		case c == '\n':
			parts = append(parts, `'\n'`)
		case c == '\r':
			parts = append(parts, `'\r'`)
		case c == '\t':
			parts = append(parts, `'\t'`)
		case c >= 0x20 && c < 0x7f:
			parts = append(parts, "'"+string(c)+"'")
		default:
			fatalf("playlist literal %q contains a non-printable byte", s)
		}
	}
	return "[" + strings.Join(parts, ", ") + "]"
}

func strLit(e ast.Expr) (string, bool) {
	bl, ok := e.(*ast.BasicLit)
	if !ok || bl.Kind != token.STRING {
		return "", false
	}
	s, err := strconv.Unquote(bl.Value)
	if err != nil {
		return "", false
	}
	return s, true
}

func isSel(e ast.Expr, pkg, name string) bool {
	se, ok := e.(*ast.SelectorExpr)
	if !ok || se.Sel.Name != name {
		return false
	}
	id, ok := se.X.(*ast.Ident)
	return ok && id.Name == pkg
}

// dispatchCase recognises `strings.HasPrefix(<ident>, "lit")` and `<ident> == "lit"`.
func dispatchCase(e ast.Expr) (lit string, isPrefix bool, ok bool) {
	switch x := e.(type) {
	case *ast.CallExpr:
		if isSel(x.Fun, "strings", "HasPrefix") && len(x.Args) == 2 {
			if _, isId := x.Args[0].(*ast.Ident); isId {
				if s, ok := strLit(x.Args[1]); ok {
					return s, true, true
				}
			}
		}
	case *ast.BinaryExpr:
		if x.Op == token.EQL {
			if _, isId := x.X.(*ast.Ident); isId {
				if s, ok := strLit(x.Y); ok {
					return s, false, true
				}
			}
		}
	}
	return "", false, false
}

// tagSwitches returns the tag-less switch statements (`switch { case cond: }`) inside a function, in source order.
func tagSwitches(fd *ast.FuncDecl) []*ast.SwitchStmt {
	var out []*ast.SwitchStmt
	ast.Inspect(fd.Body, func(n ast.Node) bool {
		if sw, ok := n.(*ast.SwitchStmt); ok && sw.Tag == nil && sw.Init == nil {
			out = append(out, sw)
		}
		return true
	})
	return out
}

type dispatchEntry struct {
	lit      string
	isPrefix bool
	ret      string // findType: type name of the returned composite literal
}

func dispatchChain(where string, sw *ast.SwitchStmt, wantRet bool) []dispatchEntry {
	var out []dispatchEntry
	for _, st := range sw.Body.List {
		cc := st.(*ast.CaseClause)
		if cc.List == nil {
			fatalf("%s: dispatch switch has a default clause", where)
		}
		if len(cc.List) != 1 {
			fatalf("%s: dispatch case with %d expressions", where, len(cc.List))
		}
		lit, isPrefix, ok := dispatchCase(cc.List[0])
		if !ok {
			fatalf("%s: dispatch case is neither strings.HasPrefix(x, \"…\") nor x == \"…\"", where)
		}
		e := dispatchEntry{lit: lit, isPrefix: isPrefix}
		if wantRet {
			// `return &T{}, nil`
			if len(cc.Body) != 1 {
				fatalf("%s: case body is not a single return", where)
			}
			rs, ok := cc.Body[0].(*ast.ReturnStmt)
			if !ok || len(rs.Results) != 2 {
				fatalf("%s: case body is not `return &T{}, nil`", where)
			}
			ue, ok := rs.Results[0].(*ast.UnaryExpr)
			if !ok || ue.Op != token.AND {
				fatalf("%s: case body is not `return &T{}, nil`", where)
			}
			cl, ok := ue.X.(*ast.CompositeLit)
			if !ok {
				fatalf("%s: case body is not `return &T{}, nil`", where)
			}
			e.ret = cl.Type.(*ast.Ident).Name
		}
		out = append(out, e)
	}
	return out
}

// keyLiterals: inside `for key, val := range attrs { … }` either `switch key { case "K": }` or `if key == "K" { }`.
func keyLiterals(where string, fd *ast.FuncDecl) []string {
	var keys []string
	found := false
	ast.Inspect(fd.Body, func(n ast.Node) bool {
		rs, ok := n.(*ast.RangeStmt)
		if !ok {
			return true
		}
		keyId, ok := rs.Key.(*ast.Ident)
		if !ok {
			return true
		}
		if found {
			fatalf("%s: more than one range loop over attributes", where)
		}
		found = true
		if len(rs.Body.List) != 1 {
			fatalf("%s: range body is not a single statement", where)
		}
		switch st := rs.Body.List[0].(type) {
		case *ast.SwitchStmt:
			if id, ok := st.Tag.(*ast.Ident); !ok || id.Name != keyId.Name {
				fatalf("%s: switch is not on the range key", where)
			}
			for _, c := range st.Body.List {
				cc := c.(*ast.CaseClause)
				if cc.List == nil {
					fatalf("%s: key switch has a default clause", where)
				}
				for _, e := range cc.List {
					s, ok := strLit(e)
					if !ok {
						fatalf("%s: key case is not a string literal", where)
					}
					keys = append(keys, s)
				}
			}
		case *ast.IfStmt:
			be, ok := st.Cond.(*ast.BinaryExpr)
			if !ok || be.Op != token.EQL || st.Else != nil {
				fatalf("%s: range body is not `if key == \"K\"`", where)
			}
			if id, ok := be.X.(*ast.Ident); !ok || id.Name != keyId.Name {
				fatalf("%s: if is not on the range key", where)
			}
			s, ok := strLit(be.Y)
			if !ok {
				fatalf("%s: key is not a string literal", where)
			}
			keys = append(keys, s)
		default:
			fatalf("%s: unexpected statement in the range over attributes", where)
		}
		return false
	})
	if !found {
		fatalf("%s: no range loop over attributes", where)
	}
	return keys
}

func stringLiterals(fd *ast.FuncDecl) []string {
	var out []string
	ast.Inspect(fd.Body, func(n ast.Node) bool {
		if s, ok := strLit2(n); ok {
			out = append(out, s)
		}
		return true
	})
	return out
}

func strLit2(n ast.Node) (string, bool) {
	if e, ok := n.(ast.Expr); ok {
		return strLit(e)
	}
	return "", false
}

// callIntArgs collects, in source order, integer literal argument #arg of every call pkg.name(...).
func callIntArgs(where string, fd *ast.FuncDecl, pkg, name string, arg int) []string {
	var out []string
	ast.Inspect(fd.Body, func(n ast.Node) bool {
		ce, ok := n.(*ast.CallExpr)
		if !ok || !isSel(ce.Fun, pkg, name) {
			return true
		}
		if len(ce.Args) <= arg {
			fatalf("%s: %s.%s with too few arguments", where, pkg, name)
		}
		bl, ok := ce.Args[arg].(*ast.BasicLit)
		if !ok || bl.Kind != token.INT {
			fatalf("%s: argument %d of %s.%s is not an integer literal", where, arg, pkg, name)
		}
		out = append(out, bl.Value)
		return true
	})
	return out
}

func leanStrList(ss []string) string {
	var parts []string
	for _, s := range ss {
		parts = append(parts, leanChars(s))
	}
	return "[" + strings.Join(parts, ",\n   ") + "]"
}

func genPlaylistMulti(r *repo) string {
	p := r.pkgs["pkg/playlist"]
	var b strings.Builder
	b.WriteString("namespace Hls.Gen.PlaylistMulti\n\n")

	// constants
	cs := p.consts()
	mv, ok := cs["maxSupportedVersion"]
	if !ok {
		fatalf("maxSupportedVersion not found")
	}
	bl, ok := mv.expr.(*ast.BasicLit)
	if !ok || bl.Kind != token.INT {
		fatalf("maxSupportedVersion is not an integer literal")
	}
	b.WriteString("def maxSupportedVersion : Nat := " + bl.Value + "\n\n")

	var types []string
	for _, n := range []string{"MultivariantRenditionTypeAudio", "MultivariantRenditionTypeVideo",
		"MultivariantRenditionTypeSubtitles", "MultivariantRenditionTypeClosedCaptions"} {
		c, ok := cs[n]
		if !ok {
			fatalf("constant %s not found", n)
		}
		s, ok := strLit(c.expr)
		if !ok {
			fatalf("constant %s is not a string literal", n)
		}
		types = append(types, s)
	}
	b.WriteString("/-- MultivariantRenditionType{Audio,Video,Subtitles,ClosedCaptions} -/\n")
	b.WriteString("def renditionTypes : List (List Char) :=\n  " + leanStrList(types) + "\n\n")

	// Multivariant.Unmarshal dispatch
	{
		fd := p.mustFunc("Multivariant", "Unmarshal")
		sws := tagSwitches(fd)
		if len(sws) != 1 {
			fatalf("Multivariant.Unmarshal: expected exactly one dispatch switch, found %d", len(sws))
		}
		b.WriteString("/-- first-match chain of `Multivariant.Unmarshal` (literal, isPrefix) -/\n")
		b.WriteString("def multivariantDispatch : List (List Char × Bool) :=\n  [")
		for i, e := range dispatchChain("Multivariant.Unmarshal", sws[0], false) {
			if i > 0 {
				b.WriteString(",\n   ")
			}
			b.WriteString("(" + leanChars(e.lit) + ", " + strconv.FormatBool(e.isPrefix) + ")")
		}
		b.WriteString("]\n\n")
		b.WriteString("def multivariantParseUintBits : List Nat := [" + strings.Join(callIntArgs("Multivariant.Unmarshal", fd, "strconv", "ParseUint", 2), ", ") + "]\n\n")
	}

	// findType dispatch
	{
		fd := p.mustFunc("", "findType")
		sws := tagSwitches(fd)
		if len(sws) != 1 {
			fatalf("findType: expected exactly one dispatch switch, found %d", len(sws))
		}
		b.WriteString("/-- first-match chain of `findType` (literal, isPrefix, returned type) -/\n")
		b.WriteString("def findTypeDispatch : List (List Char × Bool × List Char) :=\n  [")
		for i, e := range dispatchChain("findType", sws[0], true) {
			if i > 0 {
				b.WriteString(",\n   ")
			}
			b.WriteString("(" + leanChars(e.lit) + ", " + strconv.FormatBool(e.isPrefix) + ", " + leanChars(e.ret) + ")")
		}
		b.WriteString("]\n\n")
	}

	// attribute key switches and marshal literals per tag
	for _, t := range []struct{ typ, lean string }{
		{"MultivariantStart", "start"}, {"MultivariantVariant", "variant"}, {"MultivariantRendition", "rendition"},
	} {
		un := p.mustFunc(t.typ, "unmarshal")
		ma := p.mustFunc(t.typ, "marshal")
		b.WriteString("/-- `case` literals of the attribute-key switch of `" + t.typ + ".unmarshal`, in source order -/\n")
		b.WriteString("def " + t.lean + "Keys : List (List Char) :=\n  " + leanStrList(keyLiterals(t.typ+".unmarshal", un)) + "\n\n")
		b.WriteString("def " + t.lean + "ParseUintBits : List Nat := [" + strings.Join(callIntArgs(t.typ+".unmarshal", un, "strconv", "ParseUint", 2), ", ") + "]\n\n")
		b.WriteString("/-- every string literal of `" + t.typ + ".marshal`, in source order -/\n")
		b.WriteString("def " + t.lean + "MarshalLits : List (List Char) :=\n  " + leanStrList(stringLiterals(ma)) + "\n\n")
		b.WriteString("def " + t.lean + "FormatFloatPrecs : List Nat := [" + strings.Join(callIntArgs(t.typ+".marshal", ma, "strconv", "FormatFloat", 2), ", ") + "]\n\n")
	}
	{
		ma := p.mustFunc("Multivariant", "Marshal")
		b.WriteString("/-- every string literal of `Multivariant.Marshal`, in source order -/\n")
		b.WriteString("def multivariantMarshalLits : List (List Char) :=\n  " + leanStrList(stringLiterals(ma)) + "\n\n")
	}
	{
		// primitives.SkipHeader: the header literal
		pp := r.pkgs["pkg/playlist/primitives"]
		lits := stringLiterals(pp.mustFunc("", "SkipHeader"))
		if len(lits) < 1 {
			fatalf("SkipHeader: header literal not found")
		}
		b.WriteString("/-- the literal `SkipHeader` compares the first line with -/\n")
		b.WriteString("def headerLit : List Char := " + leanChars(lits[0]) + "\n\n")
	}
	b.WriteString("end Hls.Gen.PlaylistMulti\n")
	return b.String()
}
