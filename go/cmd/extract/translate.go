package main

import (
	"fmt"
	"go/ast"
	"go/token"
	"strconv"
	"strings"
)

// Translation of straight-line integer Go code to Lean `Int` terms.
//
//   /  -> Int.tdiv      %  -> Int.tmod       (Go truncates; Lean's `/` floors)
//   int64(x), time.Duration(x), int(x), uint64(x) -> x     (no overflow: ranges are hypotheses, DESIGN §7)
//   time.Second etc. -> literal nanoseconds
//   x := e / x = e / x++ / x op= e / if c { <assignments> } / if c { return e } / return e
//
// Anything else aborts extraction.

var timeUnits = map[string]int64{
	"Nanosecond": 1, "Microsecond": 1000, "Millisecond": 1000000, "Second": 1000000000,
	"Minute": 60000000000, "Hour": 3600000000000,
}

type tr struct {
	p      *pkgSrc
	consts map[string]constInfo
	// names of Go functions that are translated too (callable)
	callable map[string]bool
	where    string
}

func (t *tr) fail(n ast.Node, msg string) {
	fatalf("%s: %s: outside the translatable subset: %s", t.where, t.p.fset.Position(n.Pos()), msg)
}

func (t *tr) expr(e ast.Expr) string {
	switch x := e.(type) {
	case *ast.ParenExpr:
		return "(" + t.expr(x.X) + ")"
	case *ast.BasicLit:
		if x.Kind == token.INT {
			v, err := strconv.ParseInt(x.Value, 0, 64)
			if err != nil {
				t.fail(e, "int literal")
			}
			return fmt.Sprintf("(%d : Int)", v)
		}
		t.fail(e, "literal "+x.Value)
	case *ast.Ident:
		if x.Name == "true" || x.Name == "false" {
			return x.Name
		}
		if ci, ok := t.consts[x.Name]; ok && ci.expr != nil {
			return t.expr(ci.expr)
		}
		return leanIdent(x.Name)
	case *ast.SelectorExpr:
		if id, ok := x.X.(*ast.Ident); ok && id.Name == "time" {
			if v, ok := timeUnits[x.Sel.Name]; ok {
				return fmt.Sprintf("(%d : Int)", v)
			}
		}
		t.fail(e, "selector")
	case *ast.UnaryExpr:
		switch x.Op {
		case token.SUB:
			return "(-" + t.expr(x.X) + ")"
		case token.NOT:
			return "(!" + t.expr(x.X) + ")"
		}
		t.fail(e, "unary "+x.Op.String())
	case *ast.BinaryExpr:
		a, b := t.expr(x.X), t.expr(x.Y)
		switch x.Op {
		case token.ADD:
			return "(" + a + " + " + b + ")"
		case token.SUB:
			return "(" + a + " - " + b + ")"
		case token.MUL:
			return "(" + a + " * " + b + ")"
		case token.QUO:
			return "(Int.tdiv " + a + " " + b + ")"
		case token.REM:
			return "(Int.tmod " + a + " " + b + ")"
		case token.LSS:
			return "(decide (" + a + " < " + b + "))"
		case token.LEQ:
			return "(decide (" + a + " ≤ " + b + "))"
		case token.GTR:
			return "(decide (" + a + " > " + b + "))"
		case token.GEQ:
			return "(decide (" + a + " ≥ " + b + "))"
		case token.EQL:
			return "(decide (" + a + " = " + b + "))"
		case token.NEQ:
			return "(decide (" + a + " ≠ " + b + "))"
		case token.LAND:
			return "(" + a + " && " + b + ")"
		case token.LOR:
			return "(" + a + " || " + b + ")"
		}
		t.fail(e, "binary "+x.Op.String())
	case *ast.CallExpr:
		// conversions
		switch f := x.Fun.(type) {
		case *ast.Ident:
			switch f.Name {
			case "int64", "int", "uint64", "int32", "uint32":
				if len(x.Args) == 1 {
					return t.expr(x.Args[0])
				}
			}
			if t.callable[f.Name] {
				var as []string
				for _, a := range x.Args {
					as = append(as, t.expr(a))
				}
				return "(" + leanIdent(f.Name) + " " + strings.Join(as, " ") + ")"
			}
		case *ast.SelectorExpr:
			if id, ok := f.X.(*ast.Ident); ok && id.Name == "time" && f.Sel.Name == "Duration" && len(x.Args) == 1 {
				return t.expr(x.Args[0])
			}
		}
		t.fail(e, "call")
	}
	t.fail(e, fmt.Sprintf("expression %T", e))
	return ""
}

func leanIdent(s string) string {
	switch s {
	case "end", "from", "at", "in", "do", "then", "else", "fun", "let", "have", "show", "by", "if", "match", "with":
		return s + "'"
	}
	return s
}

// block translates a statement list into a Lean term; `rest` is what follows.
func (t *tr) block(stmts []ast.Stmt) string {
	if len(stmts) == 0 {
		fatalf("%s: control reaches end of function without return", t.where)
	}
	s := stmts[0]
	rest := stmts[1:]
	switch x := s.(type) {
	case *ast.ReturnStmt:
		if len(x.Results) != 1 {
			t.fail(s, "return arity")
		}
		return t.expr(x.Results[0])
	case *ast.AssignStmt:
		if len(x.Lhs) != 1 || len(x.Rhs) != 1 {
			t.fail(s, "multi-assign")
		}
		id, ok := x.Lhs[0].(*ast.Ident)
		if !ok {
			t.fail(s, "assign target")
		}
		return "let " + leanIdent(id.Name) + " := " + t.assignRhs(x, id) + "\n  " + t.block(rest)
	case *ast.IncDecStmt:
		id, ok := x.X.(*ast.Ident)
		if !ok {
			t.fail(s, "incdec target")
		}
		op := "+"
		if x.Tok == token.DEC {
			op = "-"
		}
		return "let " + leanIdent(id.Name) + " := (" + leanIdent(id.Name) + " " + op + " 1)\n  " + t.block(rest)
	case *ast.IfStmt:
		if x.Init != nil || x.Else != nil {
			t.fail(s, "if with init/else")
		}
		cond := t.expr(x.Cond)
		// early return?
		if n := len(x.Body.List); n > 0 {
			if _, ok := x.Body.List[n-1].(*ast.ReturnStmt); ok {
				return "if " + cond + " then " + t.block(x.Body.List) + "\n  else\n  " + t.block(rest)
			}
		}
		// conditional assignments to already-bound variables: x := if c then x' else x
		out := ""
		for _, bs := range x.Body.List {
			var name, val string
			switch b := bs.(type) {
			case *ast.IncDecStmt:
				id, ok := b.X.(*ast.Ident)
				if !ok {
					t.fail(bs, "incdec target")
				}
				op := "+"
				if b.Tok == token.DEC {
					op = "-"
				}
				name, val = leanIdent(id.Name), "("+leanIdent(id.Name)+" "+op+" 1)"
			case *ast.AssignStmt:
				if len(b.Lhs) != 1 || b.Tok == token.DEFINE {
					t.fail(bs, "assign in if")
				}
				id, ok := b.Lhs[0].(*ast.Ident)
				if !ok {
					t.fail(bs, "assign target")
				}
				name, val = leanIdent(id.Name), t.assignRhs(b, id)
			default:
				t.fail(bs, "statement in if body")
			}
			out += "let " + name + " := if " + cond + " then " + val + " else " + name + "\n  "
		}
		return out + t.block(rest)
	}
	t.fail(s, fmt.Sprintf("statement %T", s))
	return ""
}

func (t *tr) assignRhs(x *ast.AssignStmt, id *ast.Ident) string {
	r := t.expr(x.Rhs[0])
	n := leanIdent(id.Name)
	switch x.Tok {
	case token.DEFINE, token.ASSIGN:
		return r
	case token.ADD_ASSIGN:
		return "(" + n + " + " + r + ")"
	case token.SUB_ASSIGN:
		return "(" + n + " - " + r + ")"
	case token.MUL_ASSIGN:
		return "(" + n + " * " + r + ")"
	case token.QUO_ASSIGN:
		return "(Int.tdiv " + n + " " + r + ")"
	case token.REM_ASSIGN:
		return "(Int.tmod " + n + " " + r + ")"
	}
	t.fail(x, "assign op")
	return ""
}

// funcToLean translates `func name(params) T { straight-line body }`.
func (t *tr) funcToLean(fd *ast.FuncDecl, retBool bool) string {
	t.where = fd.Name.Name
	var params []string
	for _, f := range fd.Type.Params.List {
		for _, n := range f.Names {
			params = append(params, "("+leanIdent(n.Name)+" : Int)")
		}
	}
	ret := "Int"
	if retBool {
		ret = "Bool"
	}
	return fmt.Sprintf("def %s %s : %s :=\n  %s\n", leanIdent(fd.Name.Name), strings.Join(params, " "), ret, t.block(fd.Body.List))
}
