package main

import (
	"fmt"
	"go/ast"
	"go/token"
	"go/types"
	"strconv"
	"strings"
)

// Gen/MvGen.lean (C16): the constants and case lists the multivariant-playlist
// model depends on — isVideo's type-switch case list, the version numbers and
// literals of generateMultivariantPlaylist / populateMultivariantPlaylist, the
// stream id literals of Start, and per case of codecparams.Marshal's type switch
// the string literals it assembles (prefix first).

func init() { registerGen("MvGen.lean", genMvGen) }

func mvStr(e ast.Expr) (string, bool) {
	bl, ok := e.(*ast.BasicLit)
	if !ok || bl.Kind != token.STRING {
		return "", false
	}
	s, err := strconv.Unquote(bl.Value)
	return s, err == nil
}

func mvInt(e ast.Expr) (int64, bool) {
	bl, ok := e.(*ast.BasicLit)
	if !ok || bl.Kind != token.INT {
		return 0, false
	}
	v, err := strconv.ParseInt(bl.Value, 0, 64)
	return v, err == nil
}

// mvTypeName: `*codecs.AV1` -> "AV1"
func mvTypeName(e ast.Expr) (string, bool) {
	st, ok := e.(*ast.StarExpr)
	if !ok {
		return "", false
	}
	se, ok := st.X.(*ast.SelectorExpr)
	if !ok {
		return "", false
	}
	if id, ok := se.X.(*ast.Ident); !ok || id.Name != "codecs" {
		return "", false
	}
	return se.Sel.Name, true
}

func mvLeanStr(s string) string { return strconv.Quote(s) }

func mvLeanStrList(xs []string) string {
	q := make([]string, len(xs))
	for i, x := range xs {
		q[i] = mvLeanStr(x)
	}
	return "[" + strings.Join(q, ", ") + "]"
}

func mvTypeSwitch(fd *ast.FuncDecl) *ast.TypeSwitchStmt {
	var ts *ast.TypeSwitchStmt
	ast.Inspect(fd.Body, func(n ast.Node) bool {
		if t, ok := n.(*ast.TypeSwitchStmt); ok && ts == nil {
			ts = t
			return false
		}
		return true
	})
	return ts
}

// stringLits returns every string literal in n, in source order.
func mvStringLits(n ast.Node) []string {
	var out []string
	ast.Inspect(n, func(n ast.Node) bool {
		if e, ok := n.(ast.Expr); ok {
			if s, ok := mvStr(e); ok {
				out = append(out, s)
			}
		}
		return true
	})
	return out
}

// mvIsZero: the integer literal 0
func mvIsZero(e ast.Expr) bool {
	v, ok := mvInt(e)
	return ok && v == 0
}

// mvConjuncts flattens a chain of `&&` (parentheses removed).
func mvConjuncts(e ast.Expr) []ast.Expr {
	for {
		pe, ok := e.(*ast.ParenExpr)
		if !ok {
			break
		}
		e = pe.X
	}
	if be, ok := e.(*ast.BinaryExpr); ok && be.Op == token.LAND {
		return append(mvConjuncts(be.X), mvConjuncts(be.Y)...)
	}
	return []ast.Expr{e}
}

// mvIsGetDuration: `<v>.getDuration()`
func mvIsGetDuration(e ast.Expr, v string) bool {
	call, ok := e.(*ast.CallExpr)
	if !ok || len(call.Args) != 0 {
		return false
	}
	se, ok := call.Fun.(*ast.SelectorExpr)
	if !ok || se.Sel.Name != "getDuration" {
		return false
	}
	id, ok := se.X.(*ast.Ident)
	return ok && id.Name == v
}

// mvPositive: `x > 0`, `x != 0`, `0 < x`, `0 != x` for an x accepted by isX
func mvPositive(e ast.Expr, isX func(ast.Expr) bool) bool {
	be, ok := e.(*ast.BinaryExpr)
	if !ok {
		return false
	}
	switch {
	case (be.Op == token.GTR || be.Op == token.NEQ) && isX(be.X) && mvIsZero(be.Y):
		return true
	case (be.Op == token.LSS || be.Op == token.NEQ) && mvIsZero(be.X) && isX(be.Y):
		return true
	}
	return false
}

// mvUint64Of: `uint64(<x>)` -> x
func mvUint64Of(e ast.Expr) (ast.Expr, bool) {
	call, ok := e.(*ast.CallExpr)
	if !ok || len(call.Args) != 1 {
		return nil, false
	}
	id, ok := call.Fun.(*ast.Ident)
	if !ok || id.Name != "uint64" {
		return nil, false
	}
	return call.Args[0], true
}

// mvBandwidthGuards recognises bandwidth() with or without each of the two guards of the F13 repair
// and aborts on any other shape.
func mvBandwidthGuards(fd *ast.FuncDecl) (skipsZeroDuration, guardsZeroTotal bool) {
	body := fd.Body.List
	ri := -1
	for i, st := range body {
		if _, ok := st.(*ast.RangeStmt); ok {
			if ri >= 0 {
				fatalf("bandwidth: more than one range loop")
			}
			ri = i
		}
	}
	if ri < 0 {
		fatalf("bandwidth: no range loop over the segments")
	}
	// statements before the loop: `if len(segments) == 0 { return 0, 0 }` and declarations
	for i, st := range body[:ri] {
		switch x := st.(type) {
		case *ast.DeclStmt:
		case *ast.IfStmt:
			if i != 0 || types.ExprString(x.Cond) != "len(segments) == 0" {
				fatalf("bandwidth: unexpected `if %s` before the loop", types.ExprString(x.Cond))
			}
		default:
			fatalf("bandwidth: unexpected statement before the loop")
		}
	}
	rs := body[ri].(*ast.RangeStmt)
	segVar, ok := rs.Value.(*ast.Ident)
	if !ok || len(rs.Body.List) != 1 {
		fatalf("bandwidth: unexpected loop shape")
	}
	is, ok := rs.Body.List[0].(*ast.IfStmt)
	if !ok || is.Else != nil || is.Init == nil {
		fatalf("bandwidth: the loop body is not a single `if _, ok := seg.(*muxerGap); …`")
	}
	if as, ok := is.Init.(*ast.AssignStmt); !ok || len(as.Rhs) != 1 || types.ExprString(as.Rhs[0]) != segVar.Name+".(*muxerGap)" {
		fatalf("bandwidth: the loop's `if` does not test for *muxerGap")
	}
	notGap := false
	for _, c := range mvConjuncts(is.Cond) {
		switch {
		case types.ExprString(c) == "!ok":
			notGap = true
		case mvPositive(c, func(e ast.Expr) bool { return mvIsGetDuration(e, segVar.Name) }):
			skipsZeroDuration = true
		default:
			fatalf("bandwidth: unexpected condition %q in the loop", types.ExprString(c))
		}
	}
	if !notGap {
		fatalf("bandwidth: the loop no longer skips gaps")
	}
	// the per-segment division is by the segment's own duration, inside that `if`
	perSeg := false
	ast.Inspect(is.Body, func(n ast.Node) bool {
		if be, ok := n.(*ast.BinaryExpr); ok && be.Op == token.QUO {
			if x, ok := mvUint64Of(be.Y); ok && mvIsGetDuration(x, segVar.Name) {
				perSeg = true
			} else {
				fatalf("bandwidth: division by %q inside the loop", types.ExprString(be.Y))
			}
		}
		return true
	})
	if !perSeg {
		fatalf("bandwidth: per-segment division not found")
	}
	// after the loop: [guard] ; avg := … / uint64(total) ; return a, b
	rest := body[ri+1:]
	if len(rest) != 2 && len(rest) != 3 {
		fatalf("bandwidth: %d statements after the loop", len(rest))
	}
	asg, ok := rest[len(rest)-2].(*ast.AssignStmt)
	ret, ok2 := rest[len(rest)-1].(*ast.ReturnStmt)
	if !ok || !ok2 || len(asg.Rhs) != 1 || len(ret.Results) != 2 {
		fatalf("bandwidth: unexpected tail")
	}
	quo, ok := asg.Rhs[0].(*ast.BinaryExpr)
	if !ok || quo.Op != token.QUO {
		fatalf("bandwidth: the average is not a division")
	}
	totalX, ok := mvUint64Of(quo.Y)
	total, ok2 := totalX.(*ast.Ident)
	if !ok || !ok2 {
		fatalf("bandwidth: the average is not divided by uint64(<total duration>)")
	}
	if len(rest) == 3 {
		g, ok := rest[0].(*ast.IfStmt)
		if !ok || g.Init != nil || g.Else != nil || len(g.Body.List) != 1 {
			fatalf("bandwidth: unexpected statement between the loop and the average")
		}
		isTotal := func(e ast.Expr) bool { id, ok := e.(*ast.Ident); return ok && id.Name == total.Name }
		c, ok := g.Cond.(*ast.BinaryExpr)
		zero := ok && ((c.Op == token.EQL && isTotal(c.X) && mvIsZero(c.Y)) || (c.Op == token.EQL && mvIsZero(c.X) && isTotal(c.Y)) ||
			(c.Op == token.LEQ && isTotal(c.X) && mvIsZero(c.Y)))
		gr, ok2 := g.Body.List[0].(*ast.ReturnStmt)
		if !zero || !ok2 || len(gr.Results) != 2 || !mvIsZero(gr.Results[1]) ||
			types.ExprString(gr.Results[0]) != types.ExprString(ret.Results[0]) {
			fatalf("bandwidth: the statement before the average is not `if %s == 0 { return %s, 0 }`", total.Name, types.ExprString(ret.Results[0]))
		}
		guardsZeroTotal = true
	}
	return skipsZeroDuration, guardsZeroTotal
}

func genMvGen(r *repo) string {
	p := r.pkgs["."]
	cp := r.pkgs["pkg/codecparams"]
	var b strings.Builder
	b.WriteString("namespace Hls.Gen.MvGen\n\n")

	// --- isVideo: `switch codec.(type) { case A, B, C, D: return true }; return false`
	{
		fd := p.mustFunc("", "isVideo")
		ts := mvTypeSwitch(fd)
		if ts == nil || len(fd.Body.List) != 2 || len(ts.Body.List) != 1 {
			fatalf("isVideo: unexpected shape")
		}
		cc := ts.Body.List[0].(*ast.CaseClause)
		if len(cc.Body) != 1 {
			fatalf("isVideo: unexpected case body")
		}
		ret, ok := cc.Body[0].(*ast.ReturnStmt)
		ret2, ok2 := fd.Body.List[1].(*ast.ReturnStmt)
		if !ok || !ok2 || len(ret.Results) != 1 || len(ret2.Results) != 1 ||
			ret.Results[0].(*ast.Ident).Name != "true" || ret2.Results[0].(*ast.Ident).Name != "false" {
			fatalf("isVideo: unexpected returns")
		}
		var names []string
		for _, e := range cc.List {
			n, ok := mvTypeName(e)
			if !ok {
				fatalf("isVideo: unexpected case type")
			}
			names = append(names, n)
		}
		b.WriteString("/-- case list of `isVideo` (" + p.fset.Position(fd.Pos()).String() + ") -/\n")
		b.WriteString("def isVideoCases : List String := " + mvLeanStrList(names) + "\n\n")
	}

	// --- generateMultivariantPlaylist: Version func literal, IndependentSegments, one variant
	{
		fd := p.mustFunc("Muxer", "generateMultivariantPlaylist")
		var verTS, verOther int64 = -1, -1
		indep := ""
		nVariants := -1
		usesStream0 := false
		ast.Inspect(fd.Body, func(n ast.Node) bool {
			switch x := n.(type) {
			case *ast.KeyValueExpr:
				k, ok := x.Key.(*ast.Ident)
				if !ok {
					return true
				}
				switch k.Name {
				case "Version":
					call, ok := x.Value.(*ast.CallExpr)
					if !ok {
						fatalf("generateMultivariantPlaylist: Version is not a function-literal call")
					}
					fl, ok := call.Fun.(*ast.FuncLit)
					if !ok || len(fl.Body.List) != 2 {
						fatalf("generateMultivariantPlaylist: Version literal shape")
					}
					is, ok := fl.Body.List[0].(*ast.IfStmt)
					rt, ok2 := fl.Body.List[1].(*ast.ReturnStmt)
					if !ok || !ok2 || len(is.Body.List) != 1 {
						fatalf("generateMultivariantPlaylist: Version literal shape")
					}
					cond, ok := is.Cond.(*ast.BinaryExpr)
					if !ok || cond.Op != token.EQL {
						fatalf("generateMultivariantPlaylist: Version condition")
					}
					if id, ok := cond.Y.(*ast.Ident); !ok || id.Name != "MuxerVariantMPEGTS" {
						fatalf("generateMultivariantPlaylist: Version condition is not `== MuxerVariantMPEGTS`")
					}
					v1, ok1 := mvInt(is.Body.List[0].(*ast.ReturnStmt).Results[0])
					v2, ok2 := mvInt(rt.Results[0])
					if !ok1 || !ok2 {
						fatalf("generateMultivariantPlaylist: Version values")
					}
					verTS, verOther = v1, v2
				case "IndependentSegments":
					if id, ok := x.Value.(*ast.Ident); ok {
						indep = id.Name
					}
				case "Variants":
					cl, ok := x.Value.(*ast.CompositeLit)
					if !ok {
						fatalf("generateMultivariantPlaylist: Variants literal")
					}
					nVariants = len(cl.Elts)
				}
			case *ast.CallExpr:
				// bandwidth(m.streams[0].segments)
				if id, ok := x.Fun.(*ast.Ident); ok && id.Name == "bandwidth" && len(x.Args) == 1 {
					if se, ok := x.Args[0].(*ast.SelectorExpr); ok && se.Sel.Name == "segments" {
						if ix, ok := se.X.(*ast.IndexExpr); ok {
							if v, ok := mvInt(ix.Index); ok && v == 0 {
								usesStream0 = true
							}
						}
					}
				}
			}
			return true
		})
		if verTS < 0 || indep == "" || nVariants < 0 {
			fatalf("generateMultivariantPlaylist: facts missing (version %d/%d, independent %q, variants %d)", verTS, verOther, indep, nVariants)
		}
		if !usesStream0 {
			fatalf("generateMultivariantPlaylist: bandwidth() is no longer computed from m.streams[0].segments")
		}
		fmt.Fprintf(&b, "def versionMPEGTS : Nat := %d\ndef versionOther : Nat := %d\n", verTS, verOther)
		fmt.Fprintf(&b, "def independentSegments : Bool := %s\n", indep)
		fmt.Fprintf(&b, "/-- number of elements of the `Variants:` literal -/\ndef variantsLiteralLen : Nat := %d\n\n", nVariants)
	}

	// --- bandwidth(): the two guards of the F13 repair.
	//   for _, seg := range segments { if _, ok := seg.(*muxerGap); !ok [&& seg.getDuration() > 0] { … / uint64(seg.getDuration()) … } }
	//   [if durations == 0 { return int(maxBandwidth), 0 }]
	//   averageBandwidth := … / uint64(durations); return int(maxBandwidth), int(averageBandwidth)
	// Any other shape aborts the extraction.
	{
		fd := p.mustFunc("", "bandwidth")
		skips, guards := mvBandwidthGuards(fd)
		b.WriteString("/-- `bandwidth()` (" + p.fset.Position(fd.Pos()).String() + "): the loop's `if` carries the conjunct `seg.getDuration() > 0` -/\n")
		fmt.Fprintf(&b, "def bandwidthSkipsZeroDuration : Bool := %v\n", skips)
		b.WriteString("/-- `bandwidth()`: `if durations == 0 { return int(maxBandwidth), 0 }` precedes the final division -/\n")
		fmt.Fprintf(&b, "def bandwidthGuardsZeroTotal : Bool := %v\n\n", guards)
	}

	// --- populateMultivariantPlaylist: mv.Audio = "audio", rendition literal
	{
		fd := p.mustFunc("muxerStream", "populateMultivariantPlaylist")
		audioAssign, groupID, rtype := "", "", ""
		autoselect := ""
		ast.Inspect(fd.Body, func(n ast.Node) bool {
			switch x := n.(type) {
			case *ast.AssignStmt:
				if len(x.Lhs) == 1 && len(x.Rhs) == 1 {
					if se, ok := x.Lhs[0].(*ast.SelectorExpr); ok && se.Sel.Name == "Audio" {
						if s, ok := mvStr(x.Rhs[0]); ok {
							audioAssign = s
						}
					}
				}
			case *ast.KeyValueExpr:
				if k, ok := x.Key.(*ast.Ident); ok {
					switch k.Name {
					case "GroupID":
						if s, ok := mvStr(x.Value); ok {
							groupID = s
						}
					case "Autoselect":
						if id, ok := x.Value.(*ast.Ident); ok {
							autoselect = id.Name
						}
					case "Type":
						if se, ok := x.Value.(*ast.SelectorExpr); ok {
							rtype = se.Sel.Name
						}
					}
				}
			}
			return true
		})
		if audioAssign == "" || groupID == "" || autoselect == "" || rtype == "" {
			fatalf("populateMultivariantPlaylist: facts missing")
		}
		b.WriteString("def variantAudioGroup : String := " + mvLeanStr(audioAssign) + "\n")
		b.WriteString("def renditionGroupID : String := " + mvLeanStr(groupID) + "\n")
		b.WriteString("def renditionAutoselect : Bool := " + autoselect + "\n")
		// value of the rendition type constant in pkg/playlist
		pc := r.pkgs["pkg/playlist"].consts()
		ci, ok := pc[rtype]
		if !ok {
			fatalf("populateMultivariantPlaylist: rendition type constant %s not found in pkg/playlist", rtype)
		}
		rtv, ok := mvStr(ci.expr)
		if !ok {
			fatalf("pkg/playlist: %s is not a string constant", rtype)
		}
		b.WriteString("def renditionType : String := " + mvLeanStr(rtv) + "\n\n")
	}

	// --- Start: stream id literals; mediaPlaylistPath suffix
	{
		fd := p.mustFunc("Muxer", "Start")
		lits := mvStringLits(fd.Body)
		has := func(s string) bool {
			for _, l := range lits {
				if l == s {
					return true
				}
			}
			return false
		}
		for _, want := range []string{"video", "audio", "main", "index.m3u8"} {
			if !has(want) {
				fatalf("Start: string literal %q not found", want)
			}
		}
		b.WriteString("def streamIdVideoPrefix : String := \"video\"\n")
		b.WriteString("def streamIdAudioPrefix : String := \"audio\"\n")
		b.WriteString("def streamIdMPEGTS : String := \"main\"\n")
		b.WriteString("def multivariantPath : String := \"index.m3u8\"\n")
		mp := p.mustFunc("", "mediaPlaylistPath")
		ml := mvStringLits(mp.Body)
		if len(ml) != 1 {
			fatalf("mediaPlaylistPath: unexpected shape")
		}
		b.WriteString("def mediaPlaylistSuffix : String := " + mvLeanStr(ml[0]) + "\n\n")
	}

	// --- codecparams.Marshal: per case of the type switch, the string literals it assembles
	{
		fd := cp.mustFunc("", "Marshal")
		ts := mvTypeSwitch(fd)
		if ts == nil {
			fatalf("codecparams.Marshal: no type switch")
		}
		var rows []string
		var names []string
		for _, st := range ts.Body.List {
			cc := st.(*ast.CaseClause)
			if len(cc.List) != 1 {
				fatalf("codecparams.Marshal: case with %d types", len(cc.List))
			}
			n, ok := mvTypeName(cc.List[0])
			if !ok {
				fatalf("codecparams.Marshal: unexpected case type")
			}
			var lits []string
			for _, s := range cc.Body {
				lits = append(lits, mvStringLits(s)...)
			}
			if len(lits) == 0 {
				fatalf("codecparams.Marshal: case %s has no string literal", n)
			}
			names = append(names, n)
			rows = append(rows, "("+mvLeanStr(n)+", "+mvLeanStrList(lits)+")")
		}
		b.WriteString("/-- `codecparams.Marshal`: (case type, string literals of the case in source order; the first is the RFC 6381 prefix) -/\n")
		b.WriteString("def marshalCases : List (String × List String) :=\n  [" + strings.Join(rows, ",\n   ") + "]\n\n")
		b.WriteString("def marshalCaseNames : List String := " + mvLeanStrList(names) + "\n\n")
		// leadingZeros sizes used (second argument literals)
		var sizes []string
		ast.Inspect(fd.Body, func(n ast.Node) bool {
			if c, ok := n.(*ast.CallExpr); ok {
				if id, ok := c.Fun.(*ast.Ident); ok && id.Name == "leadingZeros" && len(c.Args) == 2 {
					if v, ok := mvInt(c.Args[1]); ok {
						sizes = append(sizes, strconv.FormatInt(v, 10))
					} else {
						fatalf("codecparams.Marshal: leadingZeros with a non-literal size")
					}
				}
			}
			return true
		})
		b.WriteString("def leadingZerosSizes : List Nat := [" + strings.Join(sizes, ", ") + "]\n\n")
	}

	b.WriteString("end Hls.Gen.MvGen\n")
	return b.String()
}
