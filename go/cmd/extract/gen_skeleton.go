package main

import (
	"fmt"
	"go/ast"
	"go/token"
	"sort"
	"strings"
)

// Gen/Skeleton.lean: the synchronisation skeleton of the muxer (tie T1 of C06
// concurrent half, C07): for Muxer.Close (+ muxerStream.close), the three wait
// loops of the handlers, the preload-hint closure and the writer's lock frame,
// the ordered list of synchronisation-relevant statements as a Lean term of
// Hls.Conc.SyncStmt (lean/Hls/Conc/Sync.lean). Every returning statement carries
// the set of locks still held on that path (locks taken, minus explicit
// unlocks on the path, minus deferred unlocks).
//
// The walker is a whitelist: a statement it does not recognise is dropped only
// when it contains no synchronisation token, no access to a `closed` flag and
// no control transfer; otherwise extraction aborts.

func init() { registerGen("Skeleton.lean", genSkeleton) }

var httpStatus = map[string]int{
	"StatusOK": 200, "StatusBadRequest": 400, "StatusNotFound": 404, "StatusInternalServerError": 500,
}

type skWalker struct {
	p    *pkgSrc
	name string
	// flag name the receiver's `closed` field maps to
	flag string
	// status of a `return` / `return nil` that writes no header itself (from the caller's nil test); -1 = must be explicit
	nilStatus int
	// status of falling off the end / returning a value
	okStatus int
	out      []string
	held     map[string]bool
	deferred map[string]bool
	// statements of the real part handler (hint only)
	partErrStatus, partOKStatus int
}

func (w *skWalker) fail(n ast.Node, msg string) {
	fatalf("skeleton %s: %s: %s", w.name, w.p.fset.Position(n.Pos()), msg)
}

func (w *skWalker) emit(s string) { w.out = append(w.out, s) }

func (w *skWalker) heldNow(held map[string]bool) string {
	var l []string
	for m := range held {
		if held[m] && !w.deferred[m] {
			l = append(l, "."+m)
		}
	}
	sort.Strings(l)
	return "[" + strings.Join(l, ", ") + "]"
}

// selector chain as a dotted string: s.mutex.Lock -> "s.mutex.Lock"
func selString(e ast.Expr) string {
	switch x := e.(type) {
	case *ast.Ident:
		return x.Name
	case *ast.SelectorExpr:
		return selString(x.X) + "." + x.Sel.Name
	case *ast.IndexExpr:
		return selString(x.X) + "[]"
	case *ast.CallExpr:
		return selString(x.Fun) + "()"
	case *ast.ParenExpr:
		return selString(x.X)
	}
	return "?"
}

// syncCall classifies `X.mutex.Lock()` etc. Returns "" if the call is not a sync op on the muxer mutex / cond.
func syncCall(e ast.Expr) string {
	c, ok := e.(*ast.CallExpr)
	if !ok {
		return ""
	}
	s := selString(c.Fun)
	parts := strings.Split(s, ".")
	if len(parts) != 3 || (parts[0] != "m" && parts[0] != "s") {
		return ""
	}
	switch parts[1] + "." + parts[2] {
	case "mutex.Lock":
		return "lock"
	case "mutex.Unlock":
		return "unlock"
	case "cond.Wait":
		return "wait"
	case "cond.Broadcast":
		return "broadcast"
	case "cond.Signal", "mutex.TryLock", "mutex.RLock", "mutex.RUnlock":
		return "unsupported"
	}
	return ""
}

// hasSyncToken: does the node (not descending into nested function literals unless deep) contain
// anything the skeleton must not lose?
func (w *skWalker) hasSyncToken(n ast.Node) (bad string) {
	ast.Inspect(n, func(x ast.Node) bool {
		if bad != "" {
			return false
		}
		switch y := x.(type) {
		case *ast.FuncLit:
			return false
		case *ast.CallExpr:
			if k := syncCall(y); k != "" {
				bad = "sync call " + selString(y.Fun)
			}
		case *ast.SelectorExpr:
			if y.Sel.Name == "closed" {
				bad = "access to closed flag"
			}
		case *ast.ReturnStmt:
			bad = "return"
		case *ast.BranchStmt:
			bad = y.Tok.String()
		case *ast.GoStmt:
			bad = "go statement"
		}
		return true
	})
	return bad
}

func statusOf(e ast.Expr) (int, bool) {
	if se, ok := e.(*ast.SelectorExpr); ok {
		if id, ok := se.X.(*ast.Ident); ok && id.Name == "http" {
			v, ok := httpStatus[se.Sel.Name]
			return v, ok
		}
	}
	return 0, false
}

// writeHeaderStatus: `w.WriteHeader(http.StatusX)` -> X
func writeHeaderStatus(s ast.Stmt) (int, bool) {
	es, ok := s.(*ast.ExprStmt)
	if !ok {
		return 0, false
	}
	c, ok := es.X.(*ast.CallExpr)
	if !ok || selString(c.Fun) != "w.WriteHeader" || len(c.Args) != 1 {
		return 0, false
	}
	return statusOf(c.Args[0])
}

// retBody analyses the body of an `if … { …; return }`: explicit unlocks, WriteHeader status, trailing return.
// Returns (status, held-after, ok).
func (w *skWalker) retBody(b *ast.BlockStmt) (int, map[string]bool, bool) {
	if len(b.List) == 0 {
		return 0, nil, false
	}
	if _, ok := b.List[len(b.List)-1].(*ast.ReturnStmt); !ok {
		return 0, nil, false
	}
	held := map[string]bool{}
	for k, v := range w.held {
		held[k] = v
	}
	status := w.nilStatus
	for _, s := range b.List[:len(b.List)-1] {
		if st, ok := writeHeaderStatus(s); ok {
			status = st
			continue
		}
		if es, ok := s.(*ast.ExprStmt); ok {
			switch syncCall(es.X) {
			case "unlock":
				if !held["M"] {
					w.fail(s, "Unlock of a mutex that is not held on this path")
				}
				held["M"] = false
				continue
			case "":
			default:
				w.fail(s, "unexpected synchronisation statement before return")
			}
		}
		if bad := w.hasSyncToken(s); bad != "" {
			w.fail(s, "unexpected statement before return: "+bad)
		}
	}
	if status < 0 {
		w.fail(b, "returning path without a status")
	}
	return status, held, true
}

func isBreakBody(b *ast.BlockStmt) bool {
	if len(b.List) != 1 {
		return false
	}
	br, ok := b.List[0].(*ast.BranchStmt)
	return ok && br.Tok == token.BREAK && br.Label == nil
}

func isCallTo(e ast.Expr, suffix string) bool {
	c, ok := e.(*ast.CallExpr)
	return ok && strings.HasSuffix(selString(c.Fun), suffix)
}

// classify the condition of an `if` inside a skeleton.
func (w *skWalker) classify(cond ast.Expr) (kind, arg string) {
	switch c := cond.(type) {
	case *ast.SelectorExpr:
		if c.Sel.Name == "closed" {
			if id, ok := c.X.(*ast.Ident); ok && (id.Name == "s" || id.Name == "m") {
				return "flag", w.flag
			}
		}
	case *ast.CallExpr:
		if isCallTo(c, ".hasContent") {
			return "pred", "hasContent"
		}
	case *ast.BinaryExpr:
		if c.Op == token.NEQ && selString(c.X) == "err" && selString(c.Y) == "nil" {
			return "err", ""
		}
		if c.Op == token.NEQ && selString(c.X) == "h" && selString(c.Y) == "nil" {
			return "hnonnil", ""
		}
		// `s.hasContent() && <condition on (msn, part) that consults hasPart>`: the blocking-reload test
		if c.Op == token.LAND && isCallTo(c.X, ".hasContent") && mentionsCall(c.Y, ".hasPart") && w.hasSyncToken(c.Y) == "" {
			return "pred", "msnReady"
		}
		if c.Op == token.GTR && selString(c.X) == "s.nextPartID" && selString(c.Y) == "capturePartID" {
			return "pred", "partReady"
		}
		if c.Op == token.LOR {
			l, lok := c.X.(*ast.BinaryExpr)
			r, rok := c.Y.(*ast.BinaryExpr)
			if lok && rok && l.Op == token.GTR && r.Op == token.LSS && selString(l.X) == "msnint" && selString(r.X) == "msnint" {
				mentions := func(e ast.Expr) bool {
					found := false
					ast.Inspect(e, func(x ast.Node) bool {
						if se, ok := x.(*ast.SelectorExpr); ok && se.Sel.Name == "nextSegmentID" {
							found = true
						}
						return true
					})
					return found
				}
				if mentions(l.Y) && mentions(r.Y) {
					return "pred", "outOfRange"
				}
			}
		}
	}
	return "", ""
}

func (w *skWalker) walk(stmts []ast.Stmt, inLoop bool) {
	for _, s := range stmts {
		w.stmt(s, inLoop)
	}
}

func (w *skWalker) stmt(s ast.Stmt, inLoop bool) {
	switch x := s.(type) {
	case *ast.ExprStmt:
		switch syncCall(x.X) {
		case "lock":
			if w.held["M"] {
				w.fail(s, "Lock while already held")
			}
			w.held["M"] = true
			w.emit("lock .M")
			return
		case "unlock":
			if !w.held["M"] {
				w.fail(s, "Unlock while not held")
			}
			w.held["M"] = false
			w.emit("unlock .M")
			return
		case "wait":
			if !w.held["M"] || !inLoop {
				w.fail(s, "cond.Wait outside a loop or without the mutex")
			}
			w.emit("condWait")
			return
		case "broadcast":
			w.emit("broadcast")
			return
		case "unsupported":
			w.fail(s, "unsupported synchronisation primitive")
		}
		if c, ok := x.X.(*ast.CallExpr); ok {
			switch selString(c.Fun) {
			case "verifYield": // instrumentation, not code under verification
				return
			case "stream.close":
				w.fail(s, "stream.close() outside `for _, stream := range m.streams`")
			}
		}
	case *ast.DeferStmt:
		if syncCall(x.Call) == "unlock" {
			if !w.held["M"] {
				w.fail(s, "deferred Unlock before Lock")
			}
			w.deferred["M"] = true
			w.emit("deferUnlock .M")
			return
		}
	case *ast.AssignStmt:
		// flag stores
		if len(x.Lhs) == 1 && len(x.Rhs) == 1 {
			if se, ok := x.Lhs[0].(*ast.SelectorExpr); ok && se.Sel.Name == "closed" {
				if id, ok := x.Rhs[0].(*ast.Ident); !ok || id.Name != "true" {
					w.fail(s, "closed flag assigned something other than true")
				}
				w.emit("store ." + w.flag)
				return
			}
		}
		// calls kept as markers
		if len(x.Rhs) == 1 {
			if c, ok := x.Rhs[0].(*ast.CallExpr); ok {
				switch fn := selString(c.Fun); {
				case fn == "m.rotatePartsInner":
					w.needHeld(s, "rotatePartsInner")
					w.emit("atomicRotate .parts")
					return
				case fn == "m.rotateSegmentsInner":
					w.needHeld(s, "rotateSegmentsInner")
					w.emit("atomicRotate .segments")
					return
				case fn == "s.generateMediaPlaylist":
					w.needHeld(s, "generateMediaPlaylist")
					w.emit("call .generate")
					return
				case fn == "m.generateMultivariantPlaylist":
					w.needHeld(s, "generateMultivariantPlaylist")
					w.emit("call .generateMulti")
					return
				case fn == "s.server.getPathHandler":
					w.emit("call .pathLookup")
					return
				}
			}
		}
	case *ast.ForStmt:
		if x.Init == nil && x.Cond == nil && x.Post == nil {
			if inLoop {
				w.fail(s, "nested loop")
			}
			w.emit("loopBegin")
			w.walk(x.Body.List, true)
			w.emit("loopEnd")
			return
		}
	case *ast.RangeStmt:
		if selString(x.X) == "m.streams" {
			// for _, stream := range m.streams { stream.close() }
			if len(x.Body.List) == 1 {
				if es, ok := x.Body.List[0].(*ast.ExprStmt); ok && isCallTo(es.X, "stream.close") {
					w.emit("rangeBegin")
					sub := w.sub("muxerStream.close", "sClosed")
					sub.walkFunc(w.p.mustFunc("muxerStream", "close"))
					w.out = append(w.out, sub.out[:len(sub.out)-1]...) // without its `ret`
					w.emit("rangeEnd")
					return
				}
			}
		}
	case *ast.IfStmt:
		if x.Init == nil && x.Else == nil {
			kind, arg := w.classify(x.Cond)
			switch kind {
			case "flag":
				if st, held, ok := w.retBody(x.Body); ok {
					w.emit(fmt.Sprintf("ifFlagRet .%s %d %s", arg, st, w.heldNow(held)))
					return
				}
				w.fail(s, "closed test whose body does not return")
			case "pred":
				if isBreakBody(x.Body) && inLoop {
					w.emit("ifPredBreak ." + arg)
					return
				}
				if st, held, ok := w.retBody(x.Body); ok {
					w.emit(fmt.Sprintf("ifPredRet .%s %d %s", arg, st, w.heldNow(held)))
					return
				}
				w.fail(s, "predicate test with unexpected body")
			case "err":
				if st, held, ok := w.retBody(x.Body); ok {
					w.emit(fmt.Sprintf("ifErrRet %d %s", st, w.heldNow(held)))
					return
				}
				w.fail(s, "error test whose body does not return")
			case "hnonnil":
				if len(x.Body.List) == 1 {
					if es, ok := x.Body.List[0].(*ast.ExprStmt); ok && isCallTo(es.X, "h") {
						if w.held["M"] {
							w.fail(s, "part handler called with the mutex held")
						}
						w.emit("call .partHandler")
						w.emit(fmt.Sprintf("ifErrRet %d %s", w.partErrStatus, w.heldNow(w.held)))
						w.okStatus = w.partOKStatus
						return
					}
				}
			}
		}
	case *ast.ReturnStmt:
		w.emit(fmt.Sprintf("ret %d %s", w.okStatus, w.heldNow(w.held)))
		return
	}
	if bad := w.hasSyncToken(s); bad != "" {
		w.fail(s, "statement outside the skeleton whitelist contains: "+bad)
	}
	// dropped: no synchronisation content
}

func (w *skWalker) needHeld(n ast.Node, what string) {
	if !w.held["M"] {
		w.fail(n, what+" called without the muxer mutex")
	}
}

func (w *skWalker) sub(name, flag string) *skWalker {
	return &skWalker{p: w.p, name: name, flag: flag, nilStatus: 0, held: map[string]bool{}, deferred: map[string]bool{}}
}

func (w *skWalker) walkBody(b *ast.BlockStmt) {
	w.walk(b.List, false)
	if n := len(b.List); n == 0 || !isReturn(b.List[n-1]) {
		w.emit(fmt.Sprintf("ret %d %s", w.okStatus, w.heldNow(w.held)))
	}
}

func isReturn(s ast.Stmt) bool { _, ok := s.(*ast.ReturnStmt); return ok }

// walkFunc for muxerStream.close: everything after the flag store is cleanup (file removal).
func (w *skWalker) walkFunc(fd *ast.FuncDecl) {
	if w.name == "muxerStream.close" {
		cleanup := false
		for _, s := range fd.Body.List {
			before := len(w.out)
			w.stmt(s, false)
			if len(w.out) == before && !cleanup {
				cleanup = true
				w.emit("call .cleanup")
			}
		}
		w.emit(fmt.Sprintf("ret 0 %s", w.heldNow(w.held)))
		return
	}
	w.walkBody(fd.Body)
}

// waitClosures returns the function literals inside fd that contain a cond.Wait().
func waitClosures(fd *ast.FuncDecl) []*ast.FuncLit {
	var res []*ast.FuncLit
	ast.Inspect(fd.Body, func(n ast.Node) bool {
		fl, ok := n.(*ast.FuncLit)
		if !ok {
			return true
		}
		has := false
		ast.Inspect(fl.Body, func(m ast.Node) bool {
			if inner, ok := m.(*ast.FuncLit); ok && inner != fl {
				return false
			}
			if c, ok := m.(*ast.CallExpr); ok && syncCall(c) == "wait" {
				has = true
			}
			return true
		})
		if has {
			res = append(res, fl)
			return false
		}
		return true
	})
	return res
}

// outerStatuses: given the enclosing block and the closure `x := func() []byte {…}()`, find what the
// caller answers when x is nil / non-nil.
func outerStatuses(w *skWalker, body *ast.BlockStmt, fl *ast.FuncLit) (nilSt, okSt int) {
	nilSt, okSt = -1, -1
	var visit func(list []ast.Stmt) bool
	visit = func(list []ast.Stmt) bool {
		for i, s := range list {
			as, ok := s.(*ast.AssignStmt)
			if ok && len(as.Rhs) == 1 {
				if c, ok := as.Rhs[0].(*ast.CallExpr); ok && c.Fun == ast.Expr(fl) {
					v := selString(as.Lhs[0])
					for _, t := range list[i+1:] {
						if is, ok := t.(*ast.IfStmt); ok {
							if be, ok := is.Cond.(*ast.BinaryExpr); ok && selString(be.X) == v && selString(be.Y) == "nil" {
								for _, u := range is.Body.List {
									if st, ok := writeHeaderStatus(u); ok {
										if be.Op == token.EQL {
											nilSt = st
										} else if be.Op == token.NEQ {
											okSt = st
										}
									}
								}
								continue
							}
						}
						if st, ok := writeHeaderStatus(t); ok {
							okSt = st
						}
					}
					return true
				}
			}
			found := false
			ast.Inspect(s, func(n ast.Node) bool {
				if found {
					return false
				}
				switch b := n.(type) {
				case *ast.FuncLit:
					return false
				case *ast.BlockStmt:
					if visit(b.List) {
						found = true
					}
					return false
				case *ast.CaseClause:
					if visit(b.Body) {
						found = true
					}
					return false
				}
				return true
			})
			if found {
				return true
			}
		}
		return false
	}
	if !visit(body.List) {
		w.fail(fl, "closure is not called as `x := func() … {…}()`")
	}
	if okSt < 0 {
		w.fail(fl, "no success status found after the wait closure")
	}
	return nilSt, okSt
}

func mentionsCall(n ast.Node, suffix string) bool {
	found := false
	ast.Inspect(n, func(x ast.Node) bool {
		if c, ok := x.(*ast.CallExpr); ok && strings.HasSuffix(selString(c.Fun), suffix) {
			found = true
		}
		return true
	})
	return found
}

// paramSections: the writer's parameter-set critical sections (fix-F14a). In muxerSegmenter.writeAV1 / writeVP9 /
// writeH265 / writeH264 the muxer mutex may be taken ONLY in the shape
//
//	s.mutex.Lock()
//	codec.<Field> = <identifier or field selector>      (one or more; `s.pendingParamsChange = true` also allowed)
//	s.mutex.Unlock()
//
// inside one statement list: no call, no Wait/Broadcast, no access to stream / server / segmenter state other than
// pendingParamsChange. Such a section changes nothing the C06/C07 machine models (segments, parts, closed flags,
// the path table, the condition variable): it is a STUTTER step of the writer, so the skeleton does not emit it.
// Anything else in these functions that touches the mutex or the condition variable aborts extraction.
// Returns the number of sync calls (Lock + Unlock) the sections account for.
func paramSections(p *pkgSrc, key string, body *ast.BlockStmt) int {
	accounted := 0
	plainOperand := func(e ast.Expr) bool {
		for {
			switch x := e.(type) {
			case *ast.Ident:
				return x.Name != "s" && x.Name != "m" && x.Name != "track"
			case *ast.SelectorExpr:
				e = x.X
			default:
				return false
			}
		}
	}
	var scan func(list []ast.Stmt)
	scan = func(list []ast.Stmt) {
		in := false
		n := 0
		for _, st := range list {
			es, isExpr := st.(*ast.ExprStmt)
			if isExpr && syncCall(es.X) != "" {
				switch {
				case !in && selString(es.X.(*ast.CallExpr).Fun) == "s.mutex.Lock":
					in, n = true, 0
					accounted++
				case in && selString(es.X.(*ast.CallExpr).Fun) == "s.mutex.Unlock":
					if n == 0 {
						fatalf("skeleton: %s: empty parameter critical section in %s", p.fset.Position(st.Pos()), key)
					}
					in = false
					accounted++
				default:
					fatalf("skeleton: %s: synchronisation site %s in %s is outside the parameter-section shape", p.fset.Position(st.Pos()), src(p, st), key)
				}
				continue
			}
			if !in {
				continue
			}
			as, ok := st.(*ast.AssignStmt)
			if !ok || as.Tok != token.ASSIGN || len(as.Lhs) != 1 || len(as.Rhs) != 1 {
				fatalf("skeleton: %s: only plain assignments may occur inside a parameter critical section of %s: %s", p.fset.Position(st.Pos()), key, src(p, st))
			}
			lhs := selString(as.Lhs[0])
			if !(strings.HasPrefix(lhs, "codec.") && strings.Count(lhs, ".") == 1) && lhs != "s.pendingParamsChange" {
				fatalf("skeleton: %s: parameter critical section of %s assigns %s (only codec.<Field> / s.pendingParamsChange)", p.fset.Position(st.Pos()), key, lhs)
			}
			if id, isID := as.Rhs[0].(*ast.Ident); !(isID && (id.Name == "true" || id.Name == "false")) && !plainOperand(as.Rhs[0]) {
				fatalf("skeleton: %s: parameter critical section of %s: right-hand side %s is not an identifier / field selector", p.fset.Position(st.Pos()), key, src(p, as.Rhs[0]))
			}
			n++
		}
		if in {
			fatalf("skeleton: parameter critical section of %s is not closed in the statement list it was opened in", key)
		}
	}
	ast.Inspect(body, func(n ast.Node) bool {
		switch x := n.(type) {
		case *ast.BlockStmt:
			scan(x.List)
		case *ast.CaseClause:
			scan(x.Body)
		case *ast.CommClause:
			scan(x.Body)
		}
		return true
	})
	return accounted
}

// checkSyncSites: every Lock/Unlock/Wait/Broadcast on the muxer mutex/cond in the package lies in one of
// the functions the skeleton covers (or in a parameter critical section of the segmenter, see paramSections),
// and muxerStream.mutex/cond (and muxerSegmenter.mutex) alias Muxer.mutex/cond.
func checkSyncSites(p *pkgSrc) {
	allowed := map[string]bool{
		"Muxer.Close": true, "Muxer.rotateParts": true, "Muxer.rotateSegments": true,
		"Muxer.handleMultivariantPlaylist": true, "muxerStream.handleMediaPlaylist": true, "muxerStream.rotateParts": true,
	}
	paramFns := map[string]bool{
		"muxerSegmenter.writeAV1": true, "muxerSegmenter.writeVP9": true, "muxerSegmenter.writeH265": true, "muxerSegmenter.writeH264": true,
	}
	aliasMutex, aliasCond, newCond, segmenterMutex := 0, 0, 0, 0
	for fname, f := range p.files {
		if !strings.HasPrefix(fname, "muxer") {
			continue
		}
		for _, d := range f.Decls {
			fd, ok := d.(*ast.FuncDecl)
			if !ok || fd.Body == nil {
				continue
			}
			recv := ""
			if fd.Recv != nil && len(fd.Recv.List) == 1 {
				t := fd.Recv.List[0].Type
				if st, ok := t.(*ast.StarExpr); ok {
					t = st.X
				}
				if id, ok := t.(*ast.Ident); ok {
					recv = id.Name
				}
			}
			key := recv + "." + fd.Name.Name
			paramBudget := 0
			if paramFns[key] {
				paramBudget = paramSections(p, key, fd.Body)
			}
			ast.Inspect(fd.Body, func(n ast.Node) bool {
				switch x := n.(type) {
				case *ast.CallExpr:
					if k := syncCall(x); k != "" && recv != "muxerServer" && !allowed[key] {
						if paramBudget > 0 && (k == "lock" || k == "unlock") {
							paramBudget--
						} else {
							fatalf("skeleton: %s: synchronisation site %s in %s is not covered by the skeleton", p.fset.Position(x.Pos()), selString(x.Fun), key)
						}
					}
					if selString(x.Fun) == "sync.NewCond" && len(x.Args) == 1 && selString(x.Args[0].(*ast.UnaryExpr).X) == "m.mutex" {
						newCond++
					}
				case *ast.CompositeLit:
					lit := selString(x.Type)
					for _, el := range x.Elts {
						kv, ok := el.(*ast.KeyValueExpr)
						if !ok {
							continue
						}
						id, ok := kv.Key.(*ast.Ident)
						if !ok {
							continue
						}
						if id.Name == "mutex" {
							if u, ok := kv.Value.(*ast.UnaryExpr); ok && u.Op == token.AND && selString(u.X) == "m.mutex" {
								if lit == "muxerSegmenter" {
									segmenterMutex++
								} else {
									aliasMutex++
								}
							} else {
								fatalf("skeleton: %s.mutex is not &m.mutex at %s", lit, p.fset.Position(kv.Pos()))
							}
						}
						if id.Name == "cond" {
							if selString(kv.Value) == "m.cond" {
								aliasCond++
							} else {
								fatalf("skeleton: muxerStream.cond is not m.cond at %s", p.fset.Position(kv.Pos()))
							}
						}
					}
				}
				return true
			})
		}
	}
	if aliasMutex == 0 || aliasMutex != aliasCond || newCond != 1 || segmenterMutex > 1 {
		fatalf("skeleton: mutex/cond aliasing facts not found (mutex %d, cond %d, NewCond %d, segmenter %d)", aliasMutex, aliasCond, newCond, segmenterMutex)
	}
}

func genSkeleton(r *repo) string {
	p := r.pkgs["."]
	checkSyncSites(p)
	mk := func(name, flag string) *skWalker {
		return &skWalker{p: p, name: name, flag: flag, nilStatus: 0, held: map[string]bool{}, deferred: map[string]bool{}}
	}
	progs := map[string][]string{}

	// Muxer.Close / muxerStream.close
	{
		w := mk("Muxer.Close", "mClosed")
		w.walkFunc(p.mustFunc("Muxer", "Close"))
		progs["close"] = w.out
		w2 := mk("muxerStream.close", "sClosed")
		w2.walkFunc(p.mustFunc("muxerStream", "close"))
		progs["streamClose"] = w2.out
	}
	// writer frames
	for _, f := range []struct{ key, fn string }{{"rotParts", "rotateParts"}, {"rotSegs", "rotateSegments"}} {
		w := mk("Muxer."+f.fn, "mClosed")
		w.walkFunc(p.mustFunc("Muxer", f.fn))
		progs[f.key] = w.out
	}
	// multivariant handler
	{
		fd := p.mustFunc("Muxer", "handleMultivariantPlaylist")
		cl := waitClosures(fd)
		if len(cl) != 1 {
			fatalf("skeleton: handleMultivariantPlaylist: expected 1 wait closure, found %d", len(cl))
		}
		w := mk("Muxer.handleMultivariantPlaylist", "mClosed")
		w.nilStatus, w.okStatus = outerStatuses(w, fd.Body, cl[0])
		w.walkBody(cl[0].Body)
		progs["multi"] = w.out
	}
	// media playlist handler: two wait closures
	{
		fd := p.mustFunc("muxerStream", "handleMediaPlaylist")
		cl := waitClosures(fd)
		if len(cl) != 2 {
			fatalf("skeleton: handleMediaPlaylist: expected 2 wait closures, found %d", len(cl))
		}
		seen := map[string]bool{}
		for _, fl := range cl {
			key := "mediaPlain"
			if mentionsCall(fl, ".hasPart") {
				key = "mediaBlock"
			}
			if seen[key] {
				fatalf("skeleton: handleMediaPlaylist: two wait closures of kind %s", key)
			}
			seen[key] = true
			w := mk("muxerStream.handleMediaPlaylist/"+key, "sClosed")
			w.nilStatus, w.okStatus = outerStatuses(w, fd.Body, fl)
			w.walkBody(fl.Body)
			progs[key] = w.out
		}
	}
	// preload hint closure + the real part handler it delegates to
	{
		fd := p.mustFunc("muxerStream", "rotateParts")
		cl := waitClosures(fd)
		if len(cl) != 1 {
			fatalf("skeleton: muxerStream.rotateParts: expected 1 wait closure (preload hint), found %d", len(cl))
		}
		w := mk("muxerStream.rotateParts/preloadHint", "sClosed")
		// the real part handler: the function literal that calls part.reader()
		var ph *ast.FuncLit
		ast.Inspect(fd.Body, func(n ast.Node) bool {
			if fl, ok := n.(*ast.FuncLit); ok && fl != cl[0] {
				if mentionsCall(fl, "part.reader") {
					ph = fl
				}
				return false
			}
			return true
		})
		if ph == nil {
			fatalf("skeleton: muxerStream.rotateParts: real part handler not found")
		}
		w.partErrStatus, w.partOKStatus = -1, -1
		for _, s := range ph.Body.List {
			if is, ok := s.(*ast.IfStmt); ok {
				if k, _ := w.classify(is.Cond); k == "err" {
					for _, u := range is.Body.List {
						if st, ok := writeHeaderStatus(u); ok {
							w.partErrStatus = st
						}
					}
				}
			}
			if st, ok := writeHeaderStatus(s); ok {
				w.partOKStatus = st
			}
			if bad := w.hasSyncToken(s); bad != "" && bad != "return" {
				fatalf("skeleton: real part handler contains %s", bad)
			}
		}
		if w.partErrStatus < 0 || w.partOKStatus < 0 {
			fatalf("skeleton: real part handler: statuses not found")
		}
		w.okStatus, w.nilStatus = -1, -1
		w.walkBody(cl[0].Body)
		progs["hint"] = w.out
	}

	var b strings.Builder
	b.WriteString("import Hls.Conc.Sync\n")
	b.WriteString("namespace Hls.Gen\nopen Hls.Conc Hls.Conc.SyncStmt\n\n")
	b.WriteString("/-- sync skeleton of the muxer, regenerated from muxer.go / muxer_stream.go -/\n")
	b.WriteString("def skeleton : Skeleton where\n")
	for _, k := range []string{"close", "streamClose", "multi", "mediaBlock", "mediaPlain", "hint", "rotParts", "rotSegs"} {
		for _, s := range progs[k] {
			if strings.Contains(s, " -1 ") {
				fatalf("skeleton: %s: a returning path has no status", k)
			}
		}
		fmt.Fprintf(&b, "  %s := [%s]\n", k, strings.Join(progs[k], ", "))
	}
	b.WriteString("\nend Hls.Gen\n")
	return b.String()
}
