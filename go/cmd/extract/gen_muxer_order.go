package main

import (
	"fmt"
	"go/ast"
	"strings"
)

// Gen/MuxerOrder.lean: the ORDER in which the rotation functions of muxer_stream.go complete a piece of media
// and make it reachable. The hand-written muxer model finalizes a part / segment before it registers its path and
// before it appends it to the listed parts / segments ("published only when complete": C05 "keeps returning
// identical bytes", C06 "a preload-hint request ... returns the part's bytes"); a request dispatched by
// muxerServer.handle takes only the server's mutex, so a path registered before the bytes are complete would be
// served half-written. Sequential T2 runs cannot see that order; it is pinned here instead
// (lean/Hls/Props/MuxerPins.lean, obligations of C05 and C06).
//
// For each function: the calls whose selector is one of the watched names, in source order, nested function
// literals excluded (handler bodies run later).

func init() { registerGen("MuxerOrder.lean", genMuxerOrder) }

func genMuxerOrder(r *repo) string {
	p := r.pkgs["."]
	watched := map[string]bool{"finalize": true, "registerPath": true, "unregisterPath": true, "close": true,
		"initialize": true, "append": true}
	calls := func(recv, name string) []string {
		fd := p.mustFunc(recv, name)
		var out []string
		ast.Inspect(fd.Body, func(n ast.Node) bool {
			switch x := n.(type) {
			case *ast.FuncLit:
				return false
			case *ast.CallExpr:
				switch f := x.Fun.(type) {
				case *ast.SelectorExpr:
					if watched[f.Sel.Name] {
						out = append(out, f.Sel.Name)
					}
				case *ast.Ident:
					if f.Name == "append" && len(x.Args) > 0 {
						// what is appended to: only the listed parts / segments matter
						if se, ok := x.Args[0].(*ast.SelectorExpr); ok && (se.Sel.Name == "parts" || se.Sel.Name == "segments") {
							out = append(out, "append:"+se.Sel.Name)
						}
					}
				}
			}
			return true
		})
		return out
	}
	var b strings.Builder
	b.WriteString("namespace Hls.Gen.MuxerOrder\n\n")
	for _, f := range [][2]string{{"muxerStream", "rotateParts"}, {"muxerStream", "rotateSegments"}} {
		cs := calls(f[0], f[1])
		q := make([]string, len(cs))
		for i, c := range cs {
			q[i] = fmt.Sprintf("%q", c)
		}
		fmt.Fprintf(&b, "/-- `%s.%s`: watched calls in source order (function literals excluded) -/\ndef %sCalls : List String := [%s]\n\n",
			f[0], f[1], f[1], strings.Join(q, ", "))
	}
	b.WriteString("end Hls.Gen.MuxerOrder\n")
	return b.String()
}
