package main

import (
	"fmt"
	"go/ast"
	"go/token"
	"go/types"
	"sort"
	"strconv"
	"strings"
)

// Gen/Blocking.lean (C12): the table of potentially blocking operations of client*.go, the
// blocking graph of every runnable kind of the routine pool, and the skeletons of
// clientRoutinePool and Client.Start/Close/Wait/run/runInner, as terms of the types in
// lean/Hls/Pool/Table.lean.
//
// go/ast + go/types. The type checker runs with an importer that returns EMPTY packages
// (nothing outside the repository is read; errors are ignored): that is enough to resolve
// fields, methods and local variables of the package's own types, which is all the
// extractor needs. Everything about foreign packages is recognised syntactically
// (`time.After`, `io.ReadAll`, `X.Do(req)`, `sync.Mutex` field types, …).
//
// Files: gen_blocking.go (context, table), gen_blocking_graph.go (inlining CFG builder),
// gen_blocking_skel.go (whitelisted skeletons), gen_blocking_emit.go (Lean output).

func init() { registerGen("Blocking.lean", genBlocking) }

type blFakeImporter struct{}

func (blFakeImporter) Import(path string) (*types.Package, error) {
	parts := strings.Split(path, "/")
	name := parts[len(parts)-1]
	if len(parts) > 1 && len(name) >= 2 && name[0] == 'v' && name[1] >= '0' && name[1] <= '9' {
		name = parts[len(parts)-2]
	}
	name = strings.TrimPrefix(name, "go-")
	p := types.NewPackage(path, name)
	p.MarkComplete()
	return p, nil
}

type blArmInfo struct {
	kind    string   // Lean ArmKind term, ctx class filled in later for ctxDone
	isCtx   bool     // `<-X.Done()`
	ctxExpr ast.Expr // X
	clause  *ast.CommClause
}

type blRow struct {
	id        int
	n         ast.Node
	file, fn  string
	line      int
	kind      string // Lean OpKind constructor
	what      string
	arms      []*blArmInfo // select
	outcomes  []string     // other kinds: Lean ArmKind terms
	ctxExprs  []ast.Expr   // contexts whose class decides cancellability
	ctxSeen   map[string]bool
	bufCap    *int
	sendSites int
	inLoop    bool
	csFree    bool
	user      bool
	mutexKey  string
	chanKey   string
	roles     map[string]bool
	callee    *ast.FuncDecl // compound queue rows
}

type blCtx struct {
	p         *pkgSrc
	info      *types.Info
	files     []string
	funcs     map[string]*ast.FuncDecl // "Recv.name" / "name", whole package
	fnName    map[*ast.FuncDecl]string
	declType  map[token.Pos]string // position of a field / parameter / variable identifier -> its type as written
	rows      []*blRow
	rowOf     map[ast.Node]*blRow
	commSkip  map[ast.Node]bool
	bind      map[types.Object]string // context class of parameters / locals / struct fields (joined over all call paths)
	litOfVar  map[types.Object]*ast.FuncLit
	litRows   map[*ast.FuncLit]bool
	litDone   map[*ast.FuncLit]bool
	readerCbs map[string][]*ast.FuncLit // receiver type -> closures registered with X.reader.On…
	chanCaps  map[string][]int          // "Type.field" -> capacities of every make(chan) assigned to it (-1 = not constant)
	sendCount map[string]int
	mutexBad  map[string]bool
	relevant  map[*ast.FuncDecl]bool
	spawnable []string // runnable kinds passed to rp.add
	consts    map[string]constInfo
	final     bool // second pass: unbound contexts are `unknown`
	diags     []string
}

func (x *blCtx) fail(n ast.Node, format string, a ...any) {
	fatalf("blocking table: %s: %s: %s", x.p.fset.Position(n.Pos()), fmt.Sprintf(format, a...), src(x.p, n))
}

func blRecvName(fd *ast.FuncDecl) string {
	if fd.Recv == nil || len(fd.Recv.List) != 1 {
		return ""
	}
	t := fd.Recv.List[0].Type
	if st, ok := t.(*ast.StarExpr); ok {
		t = st.X
	}
	if id, ok := t.(*ast.Ident); ok {
		return id.Name
	}
	return ""
}

func blRecvIdent(fd *ast.FuncDecl) string {
	if fd.Recv == nil || len(fd.Recv.List) != 1 || len(fd.Recv.List[0].Names) != 1 {
		return ""
	}
	return fd.Recv.List[0].Names[0].Name
}

func blKey(recv, name string) string {
	if recv == "" {
		return name
	}
	return recv + "." + name
}

func newBlCtx(r *repo) *blCtx {
	p := r.pkgs["."]
	x := &blCtx{p: p, funcs: map[string]*ast.FuncDecl{}, fnName: map[*ast.FuncDecl]string{},
		declType: map[token.Pos]string{}, rowOf: map[ast.Node]*blRow{}, commSkip: map[ast.Node]bool{},
		bind: map[types.Object]string{}, litOfVar: map[types.Object]*ast.FuncLit{}, litRows: map[*ast.FuncLit]bool{},
		litDone: map[*ast.FuncLit]bool{}, readerCbs: map[string][]*ast.FuncLit{}, chanCaps: map[string][]int{},
		sendCount: map[string]int{}, mutexBad: map[string]bool{}, relevant: map[*ast.FuncDecl]bool{}, consts: p.consts()}
	var names []string
	for n := range p.files {
		names = append(names, n)
	}
	sort.Strings(names)
	var all []*ast.File
	for _, n := range names {
		all = append(all, p.files[n])
		if strings.HasPrefix(n, "client") {
			x.files = append(x.files, n)
		}
	}
	if len(x.files) == 0 {
		fatalf("blocking table: no client*.go files")
	}
	x.info = &types.Info{Types: map[ast.Expr]types.TypeAndValue{}, Defs: map[*ast.Ident]types.Object{},
		Uses: map[*ast.Ident]types.Object{}, Selections: map[*ast.SelectorExpr]*types.Selection{}}
	conf := types.Config{Importer: blFakeImporter{}, Error: func(error) {}, DisableUnusedImportCheck: true}
	conf.Check("gohlslib", p.fset, all, x.info) // errors about foreign packages are expected and ignored

	for _, n := range names {
		for _, d := range p.files[n].Decls {
			switch d := d.(type) {
			case *ast.FuncDecl:
				k := blKey(blRecvName(d), d.Name.Name)
				x.funcs[k] = d
				x.fnName[d] = k
			}
		}
		ast.Inspect(p.files[n], func(nd ast.Node) bool {
			switch v := nd.(type) {
			case *ast.Field:
				for _, id := range v.Names {
					x.declType[id.Pos()] = src(p, v.Type)
				}
			case *ast.ValueSpec:
				if v.Type != nil {
					for _, id := range v.Names {
						x.declType[id.Pos()] = src(p, v.Type)
					}
				}
			}
			return true
		})
	}
	return x
}

// ------------------------------------------------------------------ small recognisers

func (x *blCtx) obj(id *ast.Ident) types.Object {
	if o := x.info.Uses[id]; o != nil {
		return o
	}
	return x.info.Defs[id]
}

// typeText returns the declared type (as written) of a field selection or identifier.
func (x *blCtx) typeText(e ast.Expr) string {
	switch v := unparen(e).(type) {
	case *ast.Ident:
		if o := x.obj(v); o != nil {
			return x.declType[o.Pos()]
		}
	case *ast.SelectorExpr:
		if s := x.info.Selections[v]; s != nil && s.Kind() == types.FieldVal {
			return x.declType[s.Obj().Pos()]
		}
	}
	return ""
}

// fieldKey returns "Owner.field" for a field selection.
func (x *blCtx) fieldKey(e ast.Expr) string {
	se, ok := unparen(e).(*ast.SelectorExpr)
	if !ok {
		return ""
	}
	s := x.info.Selections[se]
	if s == nil || s.Kind() != types.FieldVal {
		return ""
	}
	return blNamed(s.Recv()) + "." + se.Sel.Name
}

func blNamed(t types.Type) string {
	if pt, ok := t.(*types.Pointer); ok {
		t = pt.Elem()
	}
	if nt, ok := t.(*types.Named); ok {
		return nt.Obj().Name()
	}
	return ""
}

func blPkgCall(e ast.Expr, pkg string, names ...string) bool {
	call, ok := unparen(e).(*ast.CallExpr)
	if !ok {
		return false
	}
	se, ok := call.Fun.(*ast.SelectorExpr)
	if !ok {
		return false
	}
	id, ok := se.X.(*ast.Ident)
	if !ok || id.Name != pkg {
		return false
	}
	for _, n := range names {
		if se.Sel.Name == n {
			return true
		}
	}
	return false
}

// doneCall recognises `X.Done()` and returns X.
func blDoneCall(e ast.Expr) (ast.Expr, bool) {
	call, ok := unparen(e).(*ast.CallExpr)
	if !ok || len(call.Args) != 0 {
		return nil, false
	}
	se, ok := call.Fun.(*ast.SelectorExpr)
	if !ok || se.Sel.Name != "Done" {
		return nil, false
	}
	return se.X, true
}

func blRecvOperand(s ast.Stmt) (ast.Expr, *ast.UnaryExpr) {
	var e ast.Expr
	switch v := s.(type) {
	case *ast.ExprStmt:
		e = v.X
	case *ast.AssignStmt:
		if len(v.Rhs) == 1 {
			e = v.Rhs[0]
		}
	}
	if e == nil {
		return nil, nil
	}
	u, ok := unparen(e).(*ast.UnaryExpr)
	if !ok || u.Op != token.ARROW {
		return nil, nil
	}
	return u.X, u
}

// callees resolves a call to functions of the package ("local"), to a function value
// ("value": callback / closure variable) or to something foreign ("external").
func (x *blCtx) callees(call *ast.CallExpr) ([]*ast.FuncDecl, string) {
	switch f := unparen(call.Fun).(type) {
	case *ast.Ident:
		switch o := x.obj(f).(type) {
		case *types.Func:
			if d := x.funcs[o.Name()]; d != nil {
				return []*ast.FuncDecl{d}, "local"
			}
		case *types.Var:
			return nil, "value"
		}
	case *ast.SelectorExpr:
		s := x.info.Selections[f]
		if s == nil {
			return nil, "external"
		}
		if s.Kind() == types.FieldVal {
			return nil, "value"
		}
		fn, ok := s.Obj().(*types.Func)
		if !ok {
			return nil, "external"
		}
		recv := blNamed(s.Recv())
		if nt := blNamedType(s.Recv()); nt != nil {
			if it, ok := nt.Underlying().(*types.Interface); ok {
				// implementers: package types that declare every method name of the interface
				var out []*ast.FuncDecl
				var tn []string
				for k := range x.funcs {
					if i := strings.Index(k, "."); i > 0 && k[i+1:] == fn.Name() {
						tn = append(tn, k[:i])
					}
				}
				sort.Strings(tn)
				for _, t := range tn {
					okAll := true
					for i := 0; i < it.NumMethods(); i++ {
						if x.funcs[t+"."+it.Method(i).Name()] == nil {
							okAll = false
						}
					}
					d := x.funcs[t+"."+fn.Name()]
					if okAll && d != nil && blParamCount(d) == len(call.Args) {
						out = append(out, d)
					}
				}
				if len(out) == 0 {
					if nt.Obj().Pkg() != nil && nt.Obj().Pkg().Name() == "gohlslib" {
						x.fail(call, "interface method %s.%s has no implementer in the package", recv, fn.Name())
					}
					return nil, "external"
				}
				return out, "local"
			}
		}
		if d := x.funcs[recv+"."+fn.Name()]; d != nil {
			return []*ast.FuncDecl{d}, "local"
		}
	case *ast.FuncLit:
		return nil, "lit"
	}
	return nil, "external"
}

func blNamedType(t types.Type) *types.Named {
	if pt, ok := t.(*types.Pointer); ok {
		t = pt.Elem()
	}
	nt, _ := t.(*types.Named)
	return nt
}

func blParamCount(d *ast.FuncDecl) int {
	n := 0
	for _, f := range d.Type.Params.List {
		if len(f.Names) == 0 {
			n++
		}
		n += len(f.Names)
	}
	return n
}

// ------------------------------------------------------------------ table pre-pass

// classifyCall returns the Lean OpKind of a call that is itself a potentially blocking
// operation ("" otherwise).
func (x *blCtx) classifyCall(call *ast.CallExpr) string {
	if blPkgCall(call, "time", "Sleep") {
		return "timeSleep"
	}
	if blPkgCall(call, "http", "Get", "Post", "Head", "PostForm") {
		return "httpDo"
	}
	if blPkgCall(call, "io", "ReadAll", "Copy", "CopyN", "ReadFull", "ReadAtLeast") || blPkgCall(call, "ioutil", "ReadAll") {
		return "bodyRead"
	}
	se, ok := unparen(call.Fun).(*ast.SelectorExpr)
	if !ok {
		if ds, how := x.callees(call); how == "value" && len(ds) == 0 {
			return x.valueCallKind(call)
		}
		return ""
	}
	tt := x.typeText(se.X)
	switch {
	case se.Sel.Name == "Do" && len(call.Args) == 1 && (strings.HasSuffix(tt, "http.Client") || strings.Contains(strings.ToLower(src(x.p, se.X)), "http")):
		return "httpDo"
	case se.Sel.Name == "Wait" && strings.HasSuffix(tt, "sync.WaitGroup"):
		return "wgWait"
	case se.Sel.Name == "Wait" && strings.HasSuffix(tt, "sync.Cond"):
		return "condWait"
	case (se.Sel.Name == "Lock" || se.Sel.Name == "RLock") && (strings.HasSuffix(tt, "sync.Mutex") || strings.HasSuffix(tt, "sync.RWMutex")):
		return "lock"
	case se.Sel.Name == "Read" && strings.HasSuffix(src(x.p, se.X), ".Body"):
		return "bodyRead"
	}
	ds, how := x.callees(call)
	if how == "value" {
		return x.valueCallKind(call)
	}
	if how == "local" && len(ds) == 1 && blRecvName(ds[0]) == "clientSegmentQueue" {
		switch ds[0].Name.Name {
		case "pull":
			return "queuePull"
		case "waitUntilSizeIsBelow":
			return "queueWaitBelow"
		case "push":
			return "queuePush"
		}
	}
	return ""
}

// valueCallKind: a call through a function value is a callback row, except the two internal
// kinds of function values of the package: context cancel functions and closure variables /
// payload decoders whose literals are visible (those are inlined or checked to be blocking-free).
func (x *blCtx) valueCallKind(call *ast.CallExpr) string {
	switch f := unparen(call.Fun).(type) {
	case *ast.Ident:
		if o := x.obj(f); o != nil && x.litOfVar[o] != nil {
			return ""
		}
	case *ast.SelectorExpr:
		if tt := x.typeText(f); tt == "func()" && strings.HasSuffix(f.Sel.Name, "Cancel") {
			return ""
		}
		if f.Sel.Name == "decodePayload" {
			return ""
		}
	}
	return "callback"
}

func (x *blCtx) isUserCallback(call *ast.CallExpr) bool {
	tt := x.typeText(call.Fun)
	if strings.HasPrefix(tt, "Client") && strings.HasSuffix(tt, "Func") {
		return true
	}
	if se, ok := unparen(call.Fun).(*ast.SelectorExpr); ok {
		return se.Sel.Name == "onData" || ast.IsExported(se.Sel.Name)
	}
	return false
}

func (x *blCtx) newRow(n ast.Node, fn, kind, what string, loop int) *blRow {
	pos := x.p.fset.Position(n.Pos())
	file := pos.Filename
	if i := strings.LastIndex(file, "/"); i >= 0 {
		file = file[i+1:]
	}
	r := &blRow{id: len(x.rows), n: n, file: file, fn: fn, line: pos.Line, kind: kind, what: what,
		inLoop: loop > 0, csFree: true, ctxSeen: map[string]bool{}, roles: map[string]bool{}}
	x.rows = append(x.rows, r)
	x.rowOf[n] = r
	return r
}

// scanFunc creates the rows of one function body (function literals included, as "<fn>$lit").
func (x *blCtx) scanFunc(fd *ast.FuncDecl) {
	type frame struct {
		n ast.Node
	}
	var stack []ast.Node
	fnAt := func() (string, int) {
		name, loops := x.fnName[fd], 0
		for _, s := range stack {
			switch s.(type) {
			case *ast.FuncLit:
				name += "$lit"
				loops = 0
			case *ast.ForStmt, *ast.RangeStmt:
				loops++
			}
		}
		return name, loops
	}
	markLits := func() {
		for _, s := range stack {
			if l, ok := s.(*ast.FuncLit); ok {
				x.litRows[l] = true
			}
		}
	}
	ast.Inspect(fd.Body, func(n ast.Node) bool {
		if n == nil {
			stack = stack[:len(stack)-1]
			return true
		}
		fn, loops := fnAt()
		switch v := n.(type) {
		case *ast.SelectStmt:
			hasDefault := false
			var arms []*blArmInfo
			for _, c := range v.Body.List {
				cc := c.(*ast.CommClause)
				if cc.Comm == nil {
					hasDefault = true
					continue
				}
				a := &blArmInfo{clause: cc}
				if ss, ok := cc.Comm.(*ast.SendStmt); ok {
					x.commSkip[ss] = true
					a.kind = ".send " + strconv.Quote(src(x.p, ss.Chan))
					x.sendCount[x.fieldKey(ss.Chan)]++
				} else if op, u := blRecvOperand(cc.Comm); u != nil {
					x.commSkip[u] = true
					if cx, ok := blDoneCall(op); ok {
						a.isCtx, a.ctxExpr = true, cx
					} else if blPkgCall(op, "time", "After") {
						a.kind = ".timeAfter"
					} else {
						a.kind = ".recv " + strconv.Quote(src(x.p, op))
					}
				} else {
					x.fail(cc, "select case of unknown shape")
				}
				arms = append(arms, a)
			}
			if !hasDefault {
				r := x.newRow(v, fn, "select", "select", loops)
				r.arms = arms
				for _, a := range arms {
					if a.isCtx {
						r.ctxExprs = append(r.ctxExprs, a.ctxExpr)
					}
				}
				markLits()
			}
		case *ast.SendStmt:
			if !x.commSkip[v] {
				r := x.newRow(v, fn, "send", src(x.p, v.Chan), loops)
				r.chanKey = x.fieldKey(v.Chan)
				x.sendCount[r.chanKey]++
				r.outcomes = []string{".send " + strconv.Quote(src(x.p, v.Chan))}
				markLits()
			}
		case *ast.UnaryExpr:
			if v.Op == token.ARROW && !x.commSkip[v] {
				if cx, ok := blDoneCall(v.X); ok {
					r := x.newRow(v, fn, "recvCtxDone", src(x.p, v.X), loops)
					r.ctxExprs = []ast.Expr{cx}
				} else if blPkgCall(v.X, "time", "After", "Tick") {
					r := x.newRow(v, fn, "timeSleep", src(x.p, v.X), loops)
					r.outcomes = []string{".timeAfter"}
				} else {
					r := x.newRow(v, fn, "recv", src(x.p, v.X), loops)
					r.chanKey = x.fieldKey(v.X)
					r.outcomes = []string{".recv " + strconv.Quote(src(x.p, v.X))}
				}
				markLits()
			}
		case *ast.RangeStmt:
			if tv, ok := x.info.Types[v.X]; ok && tv.Type != nil {
				if _, isChan := tv.Type.Underlying().(*types.Chan); isChan {
					r := x.newRow(v, fn, "rangeChan", src(x.p, v.X), loops)
					r.outcomes = []string{".recv " + strconv.Quote(src(x.p, v.X))}
					markLits()
				}
			}
		case *ast.CallExpr:
			if k := x.classifyCall(v); k != "" {
				r := x.newRow(v, fn, k, src(x.p, v.Fun), loops)
				switch k {
				case "lock":
					r.mutexKey = x.fieldKey(v.Fun.(*ast.SelectorExpr).X)
					r.outcomes = []string{".ok"}
				case "callback":
					r.user = x.isUserCallback(v)
					r.outcomes = []string{".ok"}
				case "queuePull", "queueWaitBelow":
					ds, _ := x.callees(v)
					r.callee = ds[0]
					if len(v.Args) == 0 {
						x.fail(v, "queue call without a context argument")
					}
					r.ctxExprs = []ast.Expr{v.Args[0]}
				case "queuePush":
					ds, _ := x.callees(v)
					r.callee = ds[0]
					r.outcomes = []string{".ok"}
				case "timeSleep":
					r.outcomes = []string{".timeAfter"}
				case "wgWait", "condWait":
					r.outcomes = []string{".ok"}
				case "httpDo", "bodyRead":
					if cx := x.requestCtx(fd, v, k); cx != nil {
						r.ctxExprs = []ast.Expr{cx}
					}
				}
				markLits()
			}
			// closures registered with the MPEG-TS reader are called back from reader.Read()
			if se, ok := v.Fun.(*ast.SelectorExpr); ok && strings.HasPrefix(se.Sel.Name, "On") && strings.HasSuffix(src(x.p, se.X), ".reader") {
				for _, a := range v.Args {
					if l, ok := a.(*ast.FuncLit); ok {
						x.readerCbs[blRecvName(fd)] = append(x.readerCbs[blRecvName(fd)], l)
					}
				}
			}
			// make(chan T[, n]) assigned to a field is recorded by the AssignStmt case
		case *ast.AssignStmt:
			for i, rhs := range v.Rhs {
				if i >= len(v.Lhs) {
					break
				}
				if l, ok := rhs.(*ast.FuncLit); ok {
					if id, ok := v.Lhs[i].(*ast.Ident); ok {
						if o := x.obj(id); o != nil {
							x.litOfVar[o] = l
						}
					}
				}
				if c, ok := x.makeChanCap(rhs); ok {
					if k := x.fieldKey(v.Lhs[i]); k != "" {
						x.chanCaps[k] = append(x.chanCaps[k], c)
					}
				}
			}
		case *ast.KeyValueExpr:
			if c, ok := x.makeChanCap(v.Value); ok {
				if id, ok := v.Key.(*ast.Ident); ok {
					if o := x.obj(id); o != nil {
						if fv, ok := o.(*types.Var); ok && fv.IsField() {
							x.chanCaps["?."+id.Name] = append(x.chanCaps["?."+id.Name], c)
						}
					}
				}
			}
		}
		stack = append(stack, n)
		return true
	})
}

// makeChanCap recognises make(chan T) / make(chan T, n) with n an integer literal or a named constant.
func (x *blCtx) makeChanCap(e ast.Expr) (int, bool) {
	call, ok := unparen(e).(*ast.CallExpr)
	if !ok || len(call.Args) == 0 {
		return 0, false
	}
	if id, ok := call.Fun.(*ast.Ident); !ok || id.Name != "make" {
		return 0, false
	}
	if _, ok := call.Args[0].(*ast.ChanType); !ok {
		return 0, false
	}
	if len(call.Args) == 1 {
		return 0, true
	}
	switch a := unparen(call.Args[1]).(type) {
	case *ast.BasicLit:
		if n, err := strconv.Atoi(a.Value); err == nil {
			return n, true
		}
	case *ast.Ident:
		if ci, ok := x.consts[a.Name]; ok {
			if bl, ok := ci.expr.(*ast.BasicLit); ok {
				if n, err := strconv.Atoi(bl.Value); err == nil {
					return n, true
				}
			}
		}
	}
	return -1, true
}

// requestCtx finds the context of the request an httpDo / bodyRead row works on:
// `req, err := http.NewRequestWithContext(CTX, …)` in the same function (for a body read: the
// function must perform exactly one Do, whose response it reads).
func (x *blCtx) requestCtx(fd *ast.FuncDecl, call *ast.CallExpr, kind string) ast.Expr {
	var ctxs []ast.Expr
	noCtx := false
	ast.Inspect(fd.Body, func(n ast.Node) bool {
		if c, ok := n.(*ast.CallExpr); ok {
			if blPkgCall(c, "http", "NewRequestWithContext") && len(c.Args) > 0 {
				ctxs = append(ctxs, c.Args[0])
			}
			if blPkgCall(c, "http", "NewRequest") {
				noCtx = true
			}
		}
		return true
	})
	if noCtx || len(ctxs) != 1 {
		return nil
	}
	return ctxs[0]
}

// scanAll: rows of every function of client*.go in file order, then send-site counts and capacities.
func (x *blCtx) scanAll() {
	// closure variables first (classifyCall needs them)
	for _, f := range x.files {
		ast.Inspect(x.p.files[f], func(n ast.Node) bool {
			if as, ok := n.(*ast.AssignStmt); ok {
				for i, rhs := range as.Rhs {
					if l, ok := rhs.(*ast.FuncLit); ok && i < len(as.Lhs) {
						if id, ok := as.Lhs[i].(*ast.Ident); ok {
							if o := x.obj(id); o != nil {
								x.litOfVar[o] = l
							}
						}
					}
				}
			}
			return true
		})
	}
	for _, f := range x.files {
		for _, d := range x.p.files[f].Decls {
			if fd, ok := d.(*ast.FuncDecl); ok && fd.Body != nil {
				x.scanFunc(fd)
			}
		}
	}
	for _, r := range x.rows {
		if r.kind == "send" || r.kind == "recv" {
			r.sendSites = x.sendCount[r.chanKey]
			caps := x.chanCaps[r.chanKey]
			if len(caps) == 1 && caps[0] >= 0 {
				c := caps[0]
				r.bufCap = &c
			}
		}
	}
}
