package main

import (
	"go/ast"
	"go/token"
	"regexp"
	"strconv"
	"strings"
)

// Whitelisted skeletons of clientRoutinePool.{initialize,close,errorChan,add} and of
// Client.{Start,Close,Wait,run,runInner} (see gen_blocking.go). Every statement of these
// functions must have one of the shapes below; anything else aborts extraction.

type blSkel struct {
	poolInitialize, poolClose, poolErrorChan, poolAdd, poolAddGo []string
	poolAddSelect                                               []string
	start, close, wait, run, runInner                           []string
	runInnerArms                                                [][2]string // arm kind term, body list term
	runArg                                                      ast.Expr    // the context passed to r.run(…)
	addLit                                                      *ast.FuncLit
}

func (x *blCtx) skFail(fd *ast.FuncDecl, s ast.Node, why string) {
	fatalf("blocking skeleton: %s (%s): %s: %s", x.fnName[fd], x.p.fset.Position(s.Pos()), why, src(x.p, s))
}

var (
	blReNewCtx   = regexp.MustCompile(`^R\.(\w+), R\.(\w+) = context\.WithCancel\(context\.(\w+)\(\)\)$`)
	blReMakeChan = regexp.MustCompile(`^R\.(\w+) = make\(chan [^,]+(?:, (\w+))?\)$`)
	blReCancel   = regexp.MustCompile(`^R\.(\w*[cC]ancel)\(\)$`)
	blReClose    = regexp.MustCompile(`^close\(R\.(\w+)\)$`)
	blReRetField = regexp.MustCompile(`^return R\.(\w+)$`)
)

// norm prints a statement with the receiver identifier replaced by R.
func (x *blCtx) norm(fd *ast.FuncDecl, s ast.Node) string {
	t := src(x.p, s)
	if r := blRecvIdent(fd); r != "" {
		t = regexp.MustCompile(`\b`+regexp.QuoteMeta(r)+`\.`).ReplaceAllString(t, "R.")
	}
	return t
}

func (x *blCtx) capOf(fd *ast.FuncDecl, s ast.Node, lit string) int {
	if lit == "" {
		return 0
	}
	if n, err := strconv.Atoi(lit); err == nil {
		return n
	}
	if ci, ok := x.consts[lit]; ok {
		if bl, ok := ci.expr.(*ast.BasicLit); ok {
			if n, err := strconv.Atoi(bl.Value); err == nil {
				return n
			}
		}
	}
	x.skFail(fd, s, "channel capacity is not a constant")
	return 0
}

// common recognises the shapes shared by all skeleton functions.
func (x *blCtx) skCommon(fd *ast.FuncDecl, s ast.Stmt) (string, bool) {
	t := x.norm(fd, s)
	if m := blReNewCtx.FindStringSubmatch(t); m != nil {
		return ".newCtx " + strconv.Quote(m[1]) + " " + strconv.Quote(m[2]) + " " + strconv.Quote(m[3]), true
	}
	if m := blReMakeChan.FindStringSubmatch(t); m != nil {
		return ".makeChan " + strconv.Quote(m[1]) + " " + strconv.Itoa(x.capOf(fd, s, m[2])), true
	}
	if m := blReCancel.FindStringSubmatch(t); m != nil {
		return ".cancel " + strconv.Quote(m[1]), true
	}
	if m := blReClose.FindStringSubmatch(t); m != nil {
		return ".closeChan " + strconv.Quote(m[1]), true
	}
	if m := blReRetField.FindStringSubmatch(t); m != nil {
		return ".returnChan " + strconv.Quote(m[1]), true
	}
	switch t {
	case "R.wg.Add(1)":
		return ".wgAdd", true
	case "R.wg.Wait()":
		return ".wgWait", true
	case "defer R.wg.Done()":
		return ".deferWgDone", true
	case "return nil":
		return ".returnNil", true
	}
	return "", false
}

func (x *blCtx) skList(fd *ast.FuncDecl, list []ast.Stmt, extra func(i int, s ast.Stmt) (string, int)) []string {
	var out []string
	for i := 0; i < len(list); {
		if extra != nil {
			if t, n := extra(i, list[i]); n > 0 {
				if t != "" && !(t == ".defaults" && len(out) > 0 && out[len(out)-1] == ".defaults") {
					out = append(out, t)
				}
				i += n
				continue
			}
		}
		t, ok := x.skCommon(fd, list[i])
		if !ok {
			x.skFail(fd, list[i], "statement shape outside the whitelist")
		}
		out = append(out, t)
		i++
	}
	return out
}

func (x *blCtx) skeletons() *blSkel {
	sk := &blSkel{}
	must := func(k string) *ast.FuncDecl {
		fd := x.funcs[k]
		if fd == nil || fd.Body == nil {
			fatalf("blocking skeleton: function %s not found", k)
		}
		return fd
	}
	// ---- clientRoutinePool
	fd := must("clientRoutinePool.initialize")
	sk.poolInitialize = x.skList(fd, fd.Body.List, nil)
	fd = must("clientRoutinePool.close")
	sk.poolClose = x.skList(fd, fd.Body.List, nil)
	fd = must("clientRoutinePool.errorChan")
	sk.poolErrorChan = x.skList(fd, fd.Body.List, nil)
	fd = must("clientRoutinePool.add")
	addFd := fd
	sk.poolAdd = x.skList(fd, fd.Body.List, func(i int, s ast.Stmt) (string, int) {
		gs, ok := s.(*ast.GoStmt)
		if !ok {
			return "", 0
		}
		lit, ok := gs.Call.Fun.(*ast.FuncLit)
		if !ok || len(gs.Call.Args) != 0 || len(lit.Type.Params.List) != 0 {
			x.skFail(addFd, s, "go statement of unknown shape")
		}
		sk.addLit = lit
		return ".goBody", 1
	})
	if sk.addLit == nil {
		x.skFail(fd, fd.Body, "add starts no goroutine")
	}
	sk.poolAddGo = x.skList(fd, sk.addLit.Body.List, func(i int, s ast.Stmt) (string, int) {
		t := x.norm(addFd, s)
		if as, ok := s.(*ast.AssignStmt); ok && len(as.Rhs) == 1 {
			if call, ok := as.Rhs[0].(*ast.CallExpr); ok && len(call.Args) == 1 && len(as.Lhs) == 1 {
				if se, ok := call.Fun.(*ast.SelectorExpr); ok && se.Sel.Name == "run" && src(x.p, as.Lhs[0]) == "err" {
					sk.runArg = call.Args[0]
					return ".callRun " + strconv.Quote(src(x.p, call.Args[0])), 1
				}
			}
		}
		if is, ok := s.(*ast.IfStmt); ok && is.Init == nil && is.Else == nil && src(x.p, is.Cond) == "err != nil" &&
			len(is.Body.List) == 1 {
			sel, ok := is.Body.List[0].(*ast.SelectStmt)
			if !ok {
				x.skFail(addFd, s, "error hand-over is not a select")
			}
			r := x.rowOf[sel]
			if r == nil {
				x.skFail(addFd, s, "error hand-over select has a default case")
			}
			for _, a := range r.arms {
				if len(a.clause.Body) != 0 {
					x.skFail(addFd, a.clause, "non-empty case body in the error hand-over")
				}
				if a.isCtx {
					sk.poolAddSelect = append(sk.poolAddSelect, ".ctxDone ."+x.ctxClassFinal(a.ctxExpr))
				} else {
					sk.poolAddSelect = append(sk.poolAddSelect, strings.Replace(a.kind, src(x.p, addFd.Recv.List[0].Names[0])+".", "rp.", 1))
				}
			}
			return ".ifErrSelect", 1
		}
		_ = t
		return "", 0
	})
	if sk.runArg == nil {
		x.skFail(fd, fd.Body, "the pool goroutine does not call run")
	}

	// ---- Client
	fd = must("Client.Start")
	startFd := fd
	sk.start = x.skList(fd, fd.Body.List, func(i int, s ast.Stmt) (string, int) {
		t := x.norm(startFd, s)
		if is, ok := s.(*ast.IfStmt); ok && is.Init == nil && is.Else == nil && len(is.Body.List) == 1 {
			// if c.X == nil { c.X = … }
			if be, ok := is.Cond.(*ast.BinaryExpr); ok && be.Op == token.EQL && src(x.p, be.Y) == "nil" {
				if as, ok := is.Body.List[0].(*ast.AssignStmt); ok && len(as.Lhs) == 1 && src(x.p, as.Lhs[0]) == src(x.p, be.X) {
					blocking := false
					ast.Inspect(as, func(n ast.Node) bool {
						if n != nil && x.rowOf[n] != nil && x.rowOf[n].kind != "callback" {
							blocking = true
						}
						return true
					})
					if !blocking {
						return ".defaults", 1
					}
				}
			}
		}
		if t == "var err error" {
			return "", 1
		}
		if strings.HasPrefix(t, "R.playlistURL, err = url.Parse(") && i+1 < len(startFd.Body.List) &&
			x.norm(startFd, startFd.Body.List[i+1]) == "if err != nil {\n\treturn err\n}" {
			return ".parseURL", 2
		}
		if t == "go R.run()" {
			return ".goRun", 1
		}
		return "", 0
	})
	fd = must("Client.Close")
	sk.close = x.skList(fd, fd.Body.List, nil)
	fd = must("Client.Wait")
	sk.wait = x.skList(fd, fd.Body.List, nil)
	fd = must("Client.run")
	runFd := fd
	sk.run = x.skList(fd, fd.Body.List, func(i int, s ast.Stmt) (string, int) {
		t := x.norm(runFd, s)
		if m := regexp.MustCompile(`^R\.(\w+) <- R\.(\w+)\(\)$`).FindStringSubmatch(t); m != nil {
			return ".sendResult " + strconv.Quote(m[1]) + " " + strconv.Quote(m[2]), 1
		}
		if i+1 < len(runFd.Body.List) {
			if m := regexp.MustCompile(`^err := R\.(\w+)\(\)$`).FindStringSubmatch(t); m != nil {
				if m2 := regexp.MustCompile(`^R\.(\w+) <- err$`).FindStringSubmatch(x.norm(runFd, runFd.Body.List[i+1])); m2 != nil {
					return ".sendResult " + strconv.Quote(m2[1]) + " " + strconv.Quote(m[1]), 2
				}
			}
		}
		return "", 0
	})
	fd = must("Client.runInner")
	innerFd := fd
	poolVar := ""
	armBody := func(list []ast.Stmt) string {
		var out []string
		for _, s := range list {
			t := src(x.p, s)
			switch {
			case poolVar != "" && t == poolVar+".close()":
				out = append(out, ".poolClose")
			case t == "return err":
				out = append(out, `.returnErr "err"`)
			case t == `return fmt.Errorf("terminated")`:
				out = append(out, `.returnErr "terminated"`)
			case t == "return nil":
				out = append(out, ".returnNil")
			default:
				x.skFail(innerFd, s, "statement shape outside the whitelist (result select)")
			}
		}
		return "[" + strings.Join(out, ", ") + "]"
	}
	sk.runInner = x.skList(fd, fd.Body.List, func(i int, s ast.Stmt) (string, int) {
		t := x.norm(innerFd, s)
		if m := regexp.MustCompile(`^(\w+) := &clientRoutinePool\{\}$`).FindStringSubmatch(t); m != nil {
			poolVar = m[1]
			return ".newPool", 1
		}
		if poolVar != "" && t == poolVar+".initialize()" {
			return ".poolInitialize", 1
		}
		if strings.HasPrefix(t, "R.primaryDownloader = &clientPrimaryDownloader{") {
			return ".newPrimary", 1
		}
		if t == "R.primaryDownloader.initialize()" {
			return "", 1
		}
		if poolVar != "" {
			if m := regexp.MustCompile(`^` + poolVar + `\.add\(R\.(\w+)\)$`).FindStringSubmatch(t); m != nil {
				return ".poolAdd " + strconv.Quote(m[1]), 1
			}
		}
		if sel, ok := s.(*ast.SelectStmt); ok {
			r := x.rowOf[sel]
			if r == nil {
				x.skFail(innerFd, s, "result select has a default case")
			}
			for _, a := range r.arms {
				k := a.kind
				if a.isCtx {
					k = ".ctxDone ." + x.ctxClassFinal(a.ctxExpr)
				} else if poolVar != "" {
					k = strings.Replace(k, poolVar+".", "rp.", 1)
				}
				sk.runInnerArms = append(sk.runInnerArms, [2]string{k, armBody(a.clause.Body)})
			}
			return ".selectResult", 1
		}
		return "", 0
	})
	return sk
}

// ctxClassFinal classifies with the bindings that are intrinsic (fields of the pool / of Client).
func (x *blCtx) ctxClassFinal(e ast.Expr) string {
	old := x.final
	x.final = true
	defer func() { x.final = old }()
	return x.ctxClass(e)
}
