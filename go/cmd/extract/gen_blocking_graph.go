package main

import (
	"go/ast"
	"go/token"
	"go/types"
	"sort"
	"strconv"
	"strings"
)

// Inlining control-flow builder for the blocking graphs (see gen_blocking.go).
//
// For a root function (the `run` method of a runnable kind, Client.run, an API method, a queue
// method) the statements are walked with every call to a blocking-relevant function of the
// package inlined (there is no recursion; recursion aborts). The result is a graph of POINTS
// with epsilon edges (non-blocking control flow, over-approximated: every branch of an `if` /
// `switch` / loop is possible) and NODES (blocking operations with one edge per arm). The only
// path sensitivity is the one the termination argument needs: the pattern
//
//	x, err := CALL(…)          ok := CALL(…)
//	if err != nil { … }        if !ok { … }
//
// routes the failing returns of the inlined CALL into the `if` body and the others past it
// (the status of a `return` is read off its last result: nil / true, fmt.Errorf / false / ErrX,
// `err` inside `if err != nil`, or a tail call).

type blStatus struct {
	fail bool
	text string // RetK constructor of a failing status
}

var blOK = blStatus{}

type blPoint struct {
	eps  []*blPoint
	node *blNode
	ret  string // RetK constructor ("" = not a return point)
}

type blGArm struct {
	kind   string // Lean ArmKind term
	cancel bool   // `<-X.Done()` of the pool context
	to     *blPoint
	next   []string // Lean Target terms (after epsilon closure)
	nextN  []*blNode
	nextR  []string
}

type blNode struct {
	row   *blRow
	kind  string
	arms  []*blGArm
	idx   int
	rank  int
	state int // 0 new, 1 on stack, 2 done
}

type blK struct{ next, brk, cont *blPoint }

type blFrame struct {
	fd        *ast.FuncDecl
	retK      func(blStatus) *blPoint
	hasStatus bool
	env       map[types.Object]blStatus
}

type blBuild struct {
	x         *blCtx
	role      string
	stack     []string
	spawns    map[string]bool
	callbacks map[string]bool
	rets      map[string]*blPoint
}

func (b *blBuild) pt() *blPoint { return &blPoint{} }

func (b *blBuild) choice(ps ...*blPoint) *blPoint {
	if len(ps) == 1 {
		return ps[0]
	}
	return &blPoint{eps: ps}
}

// ------------------------------------------------------------------ relevance, locks

func (x *blCtx) isSpawn(call *ast.CallExpr) bool {
	ds, how := x.callees(call)
	return how == "local" && len(ds) == 1 && x.fnName[ds[0]] == "clientRoutinePool.add"
}

func (x *blCtx) isReaderRead(call *ast.CallExpr) bool {
	se, ok := call.Fun.(*ast.SelectorExpr)
	return ok && se.Sel.Name == "Read" && strings.HasSuffix(src(x.p, se.X), ".reader")
}

func (x *blCtx) computeRelevant() {
	direct := func(fd *ast.FuncDecl) bool {
		found := false
		ast.Inspect(fd.Body, func(n ast.Node) bool {
			if n == nil || found {
				return false
			}
			if x.rowOf[n] != nil {
				found = true
			}
			if c, ok := n.(*ast.CallExpr); ok && (x.isSpawn(c) || x.isReaderRead(c)) {
				found = true
			}
			return true
		})
		return found
	}
	var fds []*ast.FuncDecl
	for _, f := range x.files {
		for _, d := range x.p.files[f].Decls {
			if fd, ok := d.(*ast.FuncDecl); ok && fd.Body != nil {
				fds = append(fds, fd)
				if direct(fd) {
					x.relevant[fd] = true
				}
			}
		}
	}
	for changed := true; changed; {
		changed = false
		for _, fd := range fds {
			if x.relevant[fd] {
				continue
			}
			ast.Inspect(fd.Body, func(n ast.Node) bool {
				if c, ok := n.(*ast.CallExpr); ok {
					ds, _ := x.callees(c)
					for _, d := range ds {
						if x.relevant[d] {
							x.relevant[fd] = true
							changed = true
						}
					}
				}
				return !x.relevant[fd]
			})
		}
	}
}

// lockWalk marks a mutex bad when a blocking row or a call of a blocking-relevant function
// sits (in textual order) between its Lock and the matching Unlock / the end of the function
// (deferred Unlock) in ANY function.
func (x *blCtx) lockWalk() {
	for _, f := range x.files {
		for _, d := range x.p.files[f].Decls {
			fd, ok := d.(*ast.FuncDecl)
			if !ok || fd.Body == nil {
				continue
			}
			held := map[string]bool{}
			bad := func() {
				for k, h := range held {
					if h {
						x.mutexBad[k] = true
					}
				}
			}
			anyHeld := func() bool {
				for _, h := range held {
					if h {
						return true
					}
				}
				return false
			}
			ast.Inspect(fd.Body, func(n ast.Node) bool {
				switch v := n.(type) {
				case *ast.FuncLit:
					return false
				case *ast.DeferStmt:
					return false
				case *ast.CallExpr:
					if se, ok := v.Fun.(*ast.SelectorExpr); ok {
						tt := x.typeText(se.X)
						if strings.HasSuffix(tt, "sync.Mutex") || strings.HasSuffix(tt, "sync.RWMutex") {
							k := x.fieldKey(se.X)
							switch se.Sel.Name {
							case "Lock", "RLock":
								if anyHeld() {
									bad()
								}
								held[k] = true
							case "Unlock", "RUnlock":
								held[k] = false
							}
							return true
						}
					}
					if anyHeld() {
						if x.rowOf[v] != nil {
							bad()
						}
						ds, _ := x.callees(v)
						for _, d := range ds {
							if x.relevant[d] {
								bad()
							}
						}
					}
				default:
					if n != nil && x.rowOf[n] != nil && anyHeld() {
						bad()
					}
				}
				return true
			})
		}
	}
	for _, r := range x.rows {
		if r.kind == "lock" {
			r.csFree = r.mutexKey != "" && !x.mutexBad[r.mutexKey]
		}
	}
}

// ------------------------------------------------------------------ contexts

func (x *blCtx) bindJoin(o types.Object, cls string) {
	if o == nil || cls == "" {
		return
	}
	if old, ok := x.bind[o]; ok && old != cls {
		x.bind[o] = "unknown"
		return
	}
	x.bind[o] = cls
}

// ctxClass classifies a context expression: "pool", "client", "none", "unknown"
// ("" in the first pass when a binding is not known yet).
func (x *blCtx) ctxClass(e ast.Expr) string {
	unbound := ""
	if x.final {
		unbound = "unknown"
	}
	switch v := unparen(e).(type) {
	case *ast.Ident:
		if o := x.obj(v); o != nil {
			if c, ok := x.bind[o]; ok {
				return c
			}
		}
		return unbound
	case *ast.SelectorExpr:
		s := x.info.Selections[v]
		if s == nil || s.Kind() != types.FieldVal {
			return "unknown"
		}
		owner := blNamed(s.Recv())
		if owner == "clientRoutinePool" && v.Sel.Name == "ctx" {
			return "pool"
		}
		if owner == "Client" && v.Sel.Name == "ctx" {
			return "client"
		}
		if c, ok := x.bind[s.Obj()]; ok {
			return c
		}
		return unbound
	case *ast.CallExpr:
		if blPkgCall(v, "context", "Background", "TODO") {
			return "none"
		}
	}
	return "unknown"
}

func (b *blBuild) touch(r *blRow) {
	r.roles[b.role] = true
	for _, e := range r.ctxExprs {
		if c := b.x.ctxClass(e); c != "" {
			r.ctxSeen[c] = true
		}
	}
}

// bindings made by a statement: `ctx2, cancel := context.With…(ctx, …)`, `T{ctx: ctx}`, `x.ctx = ctx`.
func (b *blBuild) bindings(s ast.Stmt) {
	x := b.x
	ast.Inspect(s, func(n ast.Node) bool {
		switch v := n.(type) {
		case *ast.FuncLit:
			return false
		case *ast.AssignStmt:
			if len(v.Rhs) == 1 && len(v.Lhs) >= 1 {
				if blPkgCall(v.Rhs[0], "context", "WithCancel", "WithTimeout", "WithDeadline", "WithValue", "WithCancelCause", "WithoutCancel") {
					call := unparen(v.Rhs[0]).(*ast.CallExpr)
					cls := "none"
					if len(call.Args) > 0 && !blPkgCall(v.Rhs[0], "context", "WithoutCancel") {
						cls = x.ctxClass(call.Args[0])
					}
					switch l := v.Lhs[0].(type) {
					case *ast.Ident:
						x.bindJoin(x.obj(l), cls)
					case *ast.SelectorExpr:
						if s := x.info.Selections[l]; s != nil && s.Kind() == types.FieldVal {
							x.bindJoin(s.Obj(), cls)
						}
					}
				}
			}
			for i, l := range v.Lhs {
				if se, ok := l.(*ast.SelectorExpr); ok && i < len(v.Rhs) && len(v.Lhs) == len(v.Rhs) {
					if s := x.info.Selections[se]; s != nil && s.Kind() == types.FieldVal && x.declType[s.Obj().Pos()] == "context.Context" {
						x.bindJoin(s.Obj(), x.ctxClass(v.Rhs[i]))
					}
				}
			}
		case *ast.KeyValueExpr:
			if id, ok := v.Key.(*ast.Ident); ok {
				if o := x.obj(id); o != nil {
					if fv, ok := o.(*types.Var); ok && fv.IsField() && x.declType[o.Pos()] == "context.Context" {
						x.bindJoin(o, x.ctxClass(v.Value))
					}
				}
			}
		}
		return true
	})
}

// ------------------------------------------------------------------ events inside expressions

// events lists, in evaluation order, the sub-expressions of n that matter: rows, spawns,
// calls of relevant package functions, calls of closure variables, reader.Read().
func (b *blBuild) events(n ast.Node) []ast.Node {
	var out []ast.Node
	if n == nil {
		return nil
	}
	var walk func(n ast.Node)
	walk = func(n ast.Node) {
		switch v := n.(type) {
		case nil:
			return
		case *ast.FuncLit:
			return
		case *ast.CallExpr:
			walk(v.Fun)
			for _, a := range v.Args {
				walk(a)
			}
			if b.isEvent(v) {
				out = append(out, v)
			}
			return
		case *ast.UnaryExpr:
			walk(v.X)
			if b.x.rowOf[v] != nil {
				out = append(out, v)
			}
			return
		}
		// generic descent in source order
		var kids []ast.Node
		first := true
		ast.Inspect(n, func(c ast.Node) bool {
			if first {
				first = false
				return true
			}
			if c != nil {
				kids = append(kids, c)
			}
			return false
		})
		for _, k := range kids {
			walk(k)
		}
	}
	walk(n)
	return out
}

func (b *blBuild) isEvent(call *ast.CallExpr) bool {
	x := b.x
	if x.rowOf[call] != nil || x.isSpawn(call) || x.isReaderRead(call) {
		return true
	}
	ds, how := x.callees(call)
	if how == "local" {
		for _, d := range ds {
			if x.relevant[d] {
				return true
			}
		}
	}
	if how == "value" {
		if id, ok := unparen(call.Fun).(*ast.Ident); ok {
			if o := x.obj(id); o != nil && x.litOfVar[o] != nil {
				return true
			}
		}
	}
	return false
}

// chain builds events e1 … en in sequence; only the last one may be status-tested.
func (b *blBuild) chain(evs []ast.Node, fr *blFrame, next *blPoint) *blPoint {
	for i := len(evs) - 1; i >= 0; i-- {
		nx := next
		next = b.event(evs[i], fr, false, func(blStatus) *blPoint { return nx })
	}
	return next
}

func (b *blBuild) node(r *blRow, arms ...*blGArm) *blPoint {
	b.touch(r)
	return &blPoint{node: &blNode{row: r, kind: r.kind, arms: arms}}
}

func (b *blBuild) ctxArm(e ast.Expr, to *blPoint) *blGArm {
	c := b.x.ctxClass(e)
	if c == "" {
		c = "unknown"
	}
	return &blGArm{kind: ".ctxDone ." + c, cancel: c == "pool", to: to}
}

// event builds one event; retK gives the continuation for each status of the event
// (tested = the caller distinguishes statuses).
func (b *blBuild) event(n ast.Node, fr *blFrame, tested bool, retK func(blStatus) *blPoint) *blPoint {
	x := b.x
	okP := func() *blPoint { return retK(blOK) }
	if r := x.rowOf[n]; r != nil {
		switch r.kind {
		case "recvCtxDone":
			return b.node(r, b.ctxArm(r.ctxExprs[0], okP()))
		case "recv", "timeSleep", "send", "wgWait", "condWait":
			return b.node(r, &blGArm{kind: r.outcomes[0], to: okP()})
		case "httpDo", "bodyRead":
			arms := []*blGArm{{kind: ".ok", to: okP()}, {kind: ".fail", to: retK(blStatus{true, "io"})}}
			if len(r.ctxExprs) == 1 {
				arms = append(arms, b.ctxArm(r.ctxExprs[0], retK(blStatus{true, "io"})))
			}
			return b.node(r, arms...)
		case "lock":
			b.touch(r)
			if r.csFree {
				return okP() // proved non-blocking in the table: elided from the graph
			}
			return b.node(r, &blGArm{kind: ".ok", to: okP()})
		case "queuePush":
			b.touch(r)
			b.attribute(r.callee, n.(*ast.CallExpr))
			return okP()
		case "queuePull", "queueWaitBelow":
			b.attribute(r.callee, n.(*ast.CallExpr))
			return b.node(r, &blGArm{kind: ".ok", to: okP()}, b.ctxArm(r.ctxExprs[0], retK(blStatus{true, "other"})))
		case "callback":
			b.touch(r)
			b.callbacks[r.what] = true
			if tested {
				return b.node(r, &blGArm{kind: ".ok", to: okP()}, &blGArm{kind: ".fail", to: retK(blStatus{true, "callback"})})
			}
			return okP() // trusted to return (table); result not tested: elided
		}
		x.fail(n, "row kind %s in expression position", r.kind)
	}
	call, ok := n.(*ast.CallExpr)
	if !ok {
		x.fail(n, "unexpected event")
	}
	if x.isSpawn(call) {
		b.spawns[b.spawnKind(call)] = true
		return okP()
	}
	if x.isReaderRead(call) {
		return b.readerRead(call, fr, retK)
	}
	ds, how := x.callees(call)
	if how == "value" {
		id := unparen(call.Fun).(*ast.Ident)
		lit := x.litOfVar[x.obj(id)]
		return b.inlineBody(lit.Body, lit.Type, nil, "$"+id.Name, call, retK)
	}
	var ps []*blPoint
	for _, d := range ds {
		if x.relevant[d] {
			ps = append(ps, b.inlineBody(d.Body, d.Type, d, x.fnName[d], call, retK))
		} else {
			ps = append(ps, okP())
		}
	}
	return b.choice(ps...)
}

func (b *blBuild) spawnKind(call *ast.CallExpr) string {
	if len(call.Args) != 1 {
		b.x.fail(call, "add with %d arguments", len(call.Args))
	}
	tv, ok := b.x.info.Types[call.Args[0]]
	if !ok || blNamed(tv.Type) == "" {
		b.x.fail(call, "cannot type the runnable passed to add")
	}
	return blNamed(tv.Type)
}

// attribute visits a function only to attribute its rows (role, context classes); the graph it
// builds is discarded (queue methods appear in the task graphs as compound nodes).
func (b *blBuild) attribute(d *ast.FuncDecl, call *ast.CallExpr) {
	b.inlineBody(d.Body, d.Type, d, b.x.fnName[d], call, func(blStatus) *blPoint { return b.pt() })
}

func blHasStatus(ft *ast.FuncType, p *pkgSrc) bool {
	if ft.Results == nil || len(ft.Results.List) == 0 {
		return false
	}
	t := src(p, ft.Results.List[len(ft.Results.List)-1].Type)
	return t == "error" || t == "bool"
}

func (b *blBuild) inlineBody(body *ast.BlockStmt, ft *ast.FuncType, fd *ast.FuncDecl, name string, call *ast.CallExpr, retK func(blStatus) *blPoint) *blPoint {
	x := b.x
	for _, s := range b.stack {
		if s == name {
			x.fail(call, "recursion through %s", name)
		}
	}
	// bind context parameters
	if call != nil {
		i := 0
		for _, f := range ft.Params.List {
			names := f.Names
			if len(names) == 0 {
				i++
				continue
			}
			for _, id := range names {
				if src(x.p, f.Type) == "context.Context" && i < len(call.Args) {
					x.bindJoin(x.obj(id), x.ctxClass(call.Args[i]))
				}
				i++
			}
		}
	}
	b.stack = append(b.stack, name)
	defer func() { b.stack = b.stack[:len(b.stack)-1] }()
	fr := &blFrame{fd: fd, retK: retK, hasStatus: blHasStatus(ft, x.p), env: map[types.Object]blStatus{}}
	return b.block(body.List, fr, blK{next: retK(blOK)})
}

// readerRead: `p.reader.Read()` handles ONE demuxed unit: it calls at most one of the closures
// registered with p.reader.On…() and returns its error, or returns nil / its own error.
func (b *blBuild) readerRead(call *ast.CallExpr, fr *blFrame, retK func(blStatus) *blPoint) *blPoint {
	x := b.x
	recv := ""
	if fr.fd != nil {
		recv = blRecvName(fr.fd)
	}
	ps := []*blPoint{retK(blOK), retK(blStatus{true, "other"})}
	for _, lit := range x.readerCbs[recv] {
		x.litDone[lit] = true
		ps = append(ps, b.inlineBody(lit.Body, lit.Type, fr.fd, "$readercb", nil, retK))
	}
	return b.choice(ps...)
}

// ------------------------------------------------------------------ statements

func (b *blBuild) statusVar(s ast.Stmt) (types.Object, ast.Node) {
	as, ok := s.(*ast.AssignStmt)
	if !ok || len(as.Rhs) != 1 || len(as.Lhs) == 0 {
		return nil, nil
	}
	id, ok := as.Lhs[len(as.Lhs)-1].(*ast.Ident)
	if !ok || id.Name == "_" {
		return nil, nil
	}
	switch unparen(as.Rhs[0]).(type) {
	case *ast.CallExpr:
		return b.x.obj(id), unparen(as.Rhs[0])
	}
	return nil, nil
}

// statusTest recognises `if v != nil {…}` / `if !v {…}` (no init) and returns the statement.
func (b *blBuild) statusTest(s ast.Stmt, v types.Object) *ast.IfStmt {
	is, ok := s.(*ast.IfStmt)
	if !ok || is.Init != nil {
		return nil
	}
	switch c := unparen(is.Cond).(type) {
	case *ast.BinaryExpr:
		x, okx := c.X.(*ast.Ident)
		y, oky := c.Y.(*ast.Ident)
		if c.Op == token.NEQ && okx && oky && y.Name == "nil" && b.x.obj(x) == v {
			return is
		}
	case *ast.UnaryExpr:
		if x, ok := c.X.(*ast.Ident); ok && c.Op == token.NOT && b.x.obj(x) == v {
			return is
		}
	}
	return nil
}

func (b *blBuild) block(list []ast.Stmt, fr *blFrame, k blK) *blPoint {
	entries := make([]*blPoint, len(list)+2)
	entries[len(list)] = k.next
	for i := len(list) - 1; i >= 0; i-- {
		kk := blK{next: entries[i+1], brk: k.brk, cont: k.cont}
		if i+1 < len(list) {
			if v, call := b.statusVar(list[i]); v != nil {
				if is := b.statusTest(list[i+1], v); is != nil {
					b.bindings(list[i])
					after := blK{next: entries[i+2], brk: k.brk, cont: k.cont}
					memo := map[blStatus]*blPoint{}
					retK := func(st blStatus) *blPoint {
						if p, ok := memo[st]; ok {
							return p
						}
						var p *blPoint
						if st.fail {
							sub := &blFrame{fd: fr.fd, retK: fr.retK, hasStatus: fr.hasStatus, env: map[types.Object]blStatus{}}
							for o, s := range fr.env {
								sub.env[o] = s
							}
							sub.env[v] = st
							p = b.block(is.Body.List, sub, after)
						} else if is.Else != nil {
							p = b.stmt(is.Else, fr, after)
						} else {
							p = after.next
						}
						memo[st] = p
						return p
					}
					inner := b.events(call)
					var entry *blPoint
					if len(inner) > 0 && inner[len(inner)-1] == call {
						entry = b.event(call, fr, true, retK)
						entry = b.chainBefore(inner[:len(inner)-1], fr, entry)
					} else {
						// a call the graph does not look into (foreign / non-blocking): either outcome
						entry = b.chain(inner, fr, b.choice(retK(blOK), retK(blStatus{true, "other"})))
					}
					entries[i] = entry
					continue
				}
			}
		}
		entries[i] = b.stmt(list[i], fr, kk)
	}
	return entries[0]
}

func (b *blBuild) chainBefore(evs []ast.Node, fr *blFrame, next *blPoint) *blPoint {
	return b.chain(evs, fr, next)
}

func (b *blBuild) stmt(s ast.Stmt, fr *blFrame, k blK) *blPoint {
	x := b.x
	switch v := s.(type) {
	case nil:
		return k.next
	case *ast.ExprStmt:
		return b.chain(b.events(v.X), fr, k.next)
	case *ast.AssignStmt:
		b.bindings(v)
		var evs []ast.Node
		for _, r := range v.Rhs {
			evs = append(evs, b.events(r)...)
		}
		for _, l := range v.Lhs {
			evs = append(evs, b.events(l)...)
		}
		return b.chain(evs, fr, k.next)
	case *ast.DeclStmt:
		b.bindings(v)
		return b.chain(b.events(v.Decl), fr, k.next)
	case *ast.IncDecStmt, *ast.EmptyStmt:
		return k.next
	case *ast.BlockStmt:
		return b.block(v.List, fr, k)
	case *ast.IfStmt:
		if v.Init != nil {
			cp := *v
			cp.Init = nil
			return b.block([]ast.Stmt{v.Init, &cp}, fr, k)
		}
		thenP := b.block(v.Body.List, fr, k)
		elseP := k.next
		if v.Else != nil {
			elseP = b.stmt(v.Else, fr, k)
		}
		return b.chain(b.events(v.Cond), fr, b.choice(thenP, elseP))
	case *ast.ForStmt:
		head := b.pt()
		body := b.block(v.Body.List, fr, blK{next: b.stmt(v.Post, fr, blK{next: head}), brk: k.next, cont: b.stmt(v.Post, fr, blK{next: head})})
		condEntry := body
		if v.Cond != nil {
			condEntry = b.chain(b.events(v.Cond), fr, b.choice(body, k.next))
		}
		head.eps = []*blPoint{condEntry}
		return b.stmt(v.Init, fr, blK{next: head})
	case *ast.RangeStmt:
		head := b.pt()
		body := b.block(v.Body.List, fr, blK{next: head, brk: k.next, cont: head})
		if r := x.rowOf[v]; r != nil {
			head.eps = []*blPoint{b.node(r, &blGArm{kind: r.outcomes[0], to: b.choice(body, k.next)})}
		} else {
			head.eps = []*blPoint{body, k.next}
		}
		return b.chain(b.events(v.X), fr, head)
	case *ast.SwitchStmt, *ast.TypeSwitchStmt:
		var init ast.Stmt
		var tag ast.Node
		var body *ast.BlockStmt
		if sw, ok := v.(*ast.SwitchStmt); ok {
			init, tag, body = sw.Init, sw.Tag, sw.Body
		} else {
			ts := v.(*ast.TypeSwitchStmt)
			init, tag, body = ts.Init, ts.Assign, ts.Body
		}
		var ps []*blPoint
		hasDefault := false
		for _, c := range body.List {
			cc := c.(*ast.CaseClause)
			if cc.List == nil {
				hasDefault = true
			}
			for _, st := range cc.Body {
				if br, ok := st.(*ast.BranchStmt); ok && br.Tok == token.FALLTHROUGH {
					x.fail(st, "fallthrough is outside the supported subset")
				}
			}
			ps = append(ps, b.block(cc.Body, fr, blK{next: k.next, brk: k.next, cont: k.cont}))
		}
		if !hasDefault {
			ps = append(ps, k.next)
		}
		var evs []ast.Node
		if tag != nil {
			evs = b.events(tag)
		}
		return b.stmt(init, fr, blK{next: b.chain(evs, fr, b.choice(ps...))})
	case *ast.SelectStmt:
		kk := blK{next: k.next, brk: k.next, cont: k.cont}
		if r := x.rowOf[v]; r != nil {
			var arms []*blGArm
			for _, a := range r.arms {
				to := b.block(a.clause.Body, fr, kk)
				if a.isCtx {
					arms = append(arms, b.ctxArm(a.ctxExpr, to))
				} else {
					arms = append(arms, &blGArm{kind: a.kind, to: to})
				}
			}
			return b.node(r, arms...)
		}
		var ps []*blPoint // select with default: non-blocking
		for _, c := range v.Body.List {
			ps = append(ps, b.block(c.(*ast.CommClause).Body, fr, kk))
		}
		return b.choice(ps...)
	case *ast.SendStmt:
		r := x.rowOf[v]
		if r == nil {
			x.fail(v, "send without a row")
		}
		evs := append(b.events(v.Chan), b.events(v.Value)...)
		return b.chain(evs, fr, b.node(r, &blGArm{kind: r.outcomes[0], to: k.next}))
	case *ast.ReturnStmt:
		return b.ret(v, fr)
	case *ast.BranchStmt:
		if v.Label != nil {
			x.fail(v, "labelled branch is outside the supported subset")
		}
		switch v.Tok {
		case token.BREAK:
			if k.brk == nil {
				x.fail(v, "break outside loop")
			}
			return k.brk
		case token.CONTINUE:
			if k.cont == nil {
				x.fail(v, "continue outside loop")
			}
			return k.cont
		}
		x.fail(v, "branch statement outside the supported subset")
	case *ast.DeferStmt:
		if se, ok := v.Call.Fun.(*ast.SelectorExpr); ok {
			switch se.Sel.Name {
			case "Unlock", "RUnlock", "Close", "Done":
				return k.next
			}
		}
		x.fail(v, "defer of unknown shape")
	case *ast.GoStmt:
		if b.role == "api" || b.role == "runner" {
			return k.next // `go c.run()` / the pool's own goroutine: described by the skeletons
		}
		x.fail(v, "go statement outside the pool")
	}
	x.fail(s, "statement shape outside the supported subset")
	return nil
}

func (b *blBuild) ret(v *ast.ReturnStmt, fr *blFrame) *blPoint {
	x := b.x
	if len(v.Results) == 0 || !fr.hasStatus {
		var evs []ast.Node
		for _, r := range v.Results {
			evs = append(evs, b.events(r)...)
		}
		return b.chain(evs, fr, fr.retK(blOK))
	}
	var evs []ast.Node
	for _, r := range v.Results[:len(v.Results)-1] {
		evs = append(evs, b.events(r)...)
	}
	last := unparen(v.Results[len(v.Results)-1])
	var final *blPoint
	either := func() *blPoint { return b.choice(fr.retK(blOK), fr.retK(blStatus{true, "other"})) }
	switch e := last.(type) {
	case *ast.Ident:
		switch {
		case e.Name == "nil" || e.Name == "true":
			final = fr.retK(blOK)
		case e.Name == "false":
			final = fr.retK(blStatus{true, "other"})
		case e.Name == "ErrClientEOS":
			final = fr.retK(blStatus{true, "eos"})
		default:
			if st, ok := fr.env[x.obj(e)]; ok {
				final = fr.retK(st)
			} else {
				final = either()
			}
		}
	case *ast.CallExpr:
		if blPkgCall(e, "fmt", "Errorf") || blPkgCall(e, "errors", "New") {
			text := "other"
			if len(e.Args) >= 1 {
				if bl, ok := e.Args[0].(*ast.BasicLit); ok && bl.Value == `"terminated"` {
					text = "terminated"
				}
			}
			final = fr.retK(blStatus{true, text})
		} else {
			inner := b.events(e)
			if len(inner) > 0 && inner[len(inner)-1] == ast.Node(e) {
				final = b.event(e, fr, true, fr.retK) // tail call: statuses pass through
				final = b.chain(inner[:len(inner)-1], fr, final)
			} else {
				final = b.chain(inner, fr, either())
			}
		}
	default:
		x.fail(v, "return status of unknown shape")
	}
	return b.chain(evs, fr, final)
}

// ------------------------------------------------------------------ collapsing

type blGraph struct {
	name      string
	entry     []string
	nodes     []*blNode
	spawns    []string
	callbacks []string
	cyclic    bool
}

func blClosure(p *blPoint, seen map[*blPoint]bool, nodes *[]*blNode, rets map[string]bool) {
	if p == nil || seen[p] {
		return
	}
	seen[p] = true
	if p.node != nil {
		*nodes = append(*nodes, p.node)
		return
	}
	if p.ret != "" {
		rets[p.ret] = true
		return
	}
	for _, e := range p.eps {
		blClosure(e, seen, nodes, rets)
	}
}

var blRetOrder = []string{"nil", "terminated", "eos", "callback", "io", "other"}

func blCollapse(name string, entry *blPoint, b *blBuild) *blGraph {
	g := &blGraph{name: name}
	index := map[*blNode]bool{}
	var queue []*blNode
	targets := func(p *blPoint) ([]*blNode, []string) {
		var ns []*blNode
		rets := map[string]bool{}
		blClosure(p, map[*blPoint]bool{}, &ns, rets)
		var rs []string
		for _, r := range blRetOrder {
			if rets[r] {
				rs = append(rs, r)
			}
		}
		for _, n := range ns {
			if !index[n] {
				index[n] = true
				n.idx = len(g.nodes)
				g.nodes = append(g.nodes, n)
				queue = append(queue, n)
			}
		}
		return ns, rs
	}
	term := func(ns []*blNode, rs []string) []string {
		var out []string
		seen := map[int]bool{}
		var ids []int
		for _, n := range ns {
			if !seen[n.idx] {
				seen[n.idx] = true
				ids = append(ids, n.idx)
			}
		}
		sort.Ints(ids)
		for _, i := range ids {
			out = append(out, ".node "+itoa(i))
		}
		for _, r := range rs {
			out = append(out, ".ret ."+r)
		}
		return out
	}
	ens, ers := targets(entry)
	g.entry = term(ens, ers)
	for len(queue) > 0 {
		n := queue[0]
		queue = queue[1:]
		for _, a := range n.arms {
			a.nextN, a.nextR = targets(a.to)
			a.next = term(a.nextN, a.nextR)
		}
	}
	// rank certificate: longest path along cancel arms (all arms of a node without one)
	var rank func(n *blNode) int
	rank = func(n *blNode) int {
		switch n.state {
		case 2:
			return n.rank
		case 1:
			g.cyclic = true
			return 0
		}
		n.state = 1
		guarded := false
		for _, a := range n.arms {
			if a.cancel {
				guarded = true
			}
		}
		m := 0
		for _, a := range n.arms {
			if guarded && !a.cancel {
				continue
			}
			for _, s := range a.nextN {
				if r := rank(s); r > m {
					m = r
				}
			}
		}
		n.rank = m + 1
		n.state = 2
		return n.rank
	}
	for _, n := range g.nodes {
		rank(n)
	}
	for s := range b.spawns {
		g.spawns = append(g.spawns, s)
	}
	for c := range b.callbacks {
		g.callbacks = append(g.callbacks, c)
	}
	sort.Strings(g.spawns)
	sort.Strings(g.callbacks)
	return g
}

func itoa(i int) string { return strconv.Itoa(i) }
