package main

// Gen/PlaylistMedia.lean (tie T1 for C14 / C15, media playlists):
//
//   - the `switch { case … }` chain of Media.Unmarshal in SOURCE ORDER: how each case tests the
//     line (HasPrefix / == / URI line), its string literal, and whether the case body starts with
//     `line = line[len("<the same literal>"):]`;
//   - the attribute keys every tag type's unmarshal() reacts to, in source order;
//   - every string literal of every tag type's marshal(), in source order;
//   - Media.Marshal as an ordered event list: literals, `x.marshal()` calls, and which field each
//     strconv.FormatInt prints (this is what pins F1 and F2);
//   - maxSupportedVersion, the ParseUint bit sizes per file, the FormatFloat arguments, the two
//     time layouts.
//
// Anything unexpected in the source aborts extraction.

import (
	"fmt"
	"go/ast"
	"go/printer"
	"go/token"
	"sort"
	"strconv"
	"strings"
)

func init() { registerGen("PlaylistMedia.lean", genPlaylistMedia) }

func plmLeanChar(c byte) string {
	switch c {
	case '\'':
		return `'\''`
	case '\\':
		return `'\\'`
	case '\n':
		return `'\n'`
	case '\r':
		return `'\r'`
	case '\t':
		return `'\t'`
	case '"':
		return `'"'`
	}
	if c < 0x20 || c >= 0x7f {
		fatalf("playlist media: non-printable byte %#x in a string literal", c)
	}
	return "'" + string(c) + "'"
}

func plmLeanChars(s string) string {
	if s == "" {
		return "([] : List Char)"
	}
	var cs []string
	for i := 0; i < len(s); i++ {
		cs = append(cs, plmLeanChar(s[i]))
	}
	return "[" + strings.Join(cs, ",") + "]"
}

func plmStrLit(e ast.Expr) (string, bool) {
	bl, ok := e.(*ast.BasicLit)
	if !ok || bl.Kind != token.STRING {
		return "", false
	}
	s, err := strconv.Unquote(bl.Value)
	if err != nil {
		return "", false
	}
	return s, true
}

func plmExprString(p *pkgSrc, e ast.Expr) string {
	var b strings.Builder
	printer.Fprint(&b, p.fset, e)
	return b.String()
}

// isCall reports whether e is pkg.name(args…) and returns the args.
func plmIsSelCall(e ast.Expr, pkg, name string) ([]ast.Expr, bool) {
	c, ok := e.(*ast.CallExpr)
	if !ok {
		return nil, false
	}
	s, ok := c.Fun.(*ast.SelectorExpr)
	if !ok || s.Sel.Name != name {
		return nil, false
	}
	id, ok := s.X.(*ast.Ident)
	if !ok || id.Name != pkg {
		return nil, false
	}
	return c.Args, true
}

func genPlaylistMedia(r *repo) string {
	p := r.pkgs["pkg/playlist"]
	var b strings.Builder
	b.WriteString("namespace Hls.Gen.PlaylistMedia\n\n")
	b.WriteString("inductive Kind where\n  | pfx | eq | uriLine\n  deriving DecidableEq, Repr\n\n")

	// ---- 1. dispatch chain of Media.Unmarshal
	um := p.mustFunc("Media", "Unmarshal")
	var sw *ast.SwitchStmt
	ast.Inspect(um.Body, func(n ast.Node) bool {
		if f, ok := n.(*ast.ForStmt); ok && sw == nil {
			for _, st := range f.Body.List {
				if s, ok := st.(*ast.SwitchStmt); ok && s.Tag == nil {
					sw = s
				}
			}
		}
		return true
	})
	if sw == nil {
		fatalf("playlist media: the tagless switch inside the for loop of Media.Unmarshal was not found")
	}
	b.WriteString("/-- `switch { case … }` of `Media.Unmarshal` (" + plmRelPos(r, p, sw.Pos()) + "): (test, literal, body starts with `line = line[len(literal):]`) -/\n")
	b.WriteString("def dispatch : List (Kind × List Char × Bool) := [\n")
	var rows []string
	for _, cc := range sw.Body.List {
		c := cc.(*ast.CaseClause)
		if len(c.List) != 1 {
			fatalf("playlist media: case with %d expressions (or default) in Media.Unmarshal's switch", len(c.List))
		}
		cond := c.List[0]
		kind, lit := "", ""
		if args, ok := plmIsSelCall(cond, "strings", "HasPrefix"); ok && len(args) == 2 && plmExprString(p, args[0]) == "line" {
			s, ok := plmStrLit(args[1])
			if !ok {
				fatalf("playlist media: HasPrefix with a non-literal prefix")
			}
			kind, lit = "pfx", s
		} else if be, ok := cond.(*ast.BinaryExpr); ok && be.Op == token.EQL && plmExprString(p, be.X) == "line" {
			s, ok := plmStrLit(be.Y)
			if !ok {
				fatalf("playlist media: line == non-literal")
			}
			kind, lit = "eq", s
		} else if plmExprString(p, cond) == "len(line) != 0 && line[0] != '#'" {
			kind, lit = "uriLine", ""
		} else {
			fatalf("playlist media: unexpected case condition %q", plmExprString(p, cond))
		}
		sliced := false
		if len(c.Body) > 0 {
			if as, ok := c.Body[0].(*ast.AssignStmt); ok && len(as.Lhs) == 1 && len(as.Rhs) == 1 && plmExprString(p, as.Lhs[0]) == "line" {
				want := "line[len(" + strconv.Quote(lit) + "):]"
				if plmExprString(p, as.Rhs[0]) == want {
					sliced = true
				} else if strings.HasPrefix(plmExprString(p, as.Rhs[0]), "line[") {
					fatalf("playlist media: case %q slices the line with %s (expected %s)", lit, plmExprString(p, as.Rhs[0]), want)
				}
			}
		}
		rows = append(rows, fmt.Sprintf("  (.%s, %s, %v)", kind, plmLeanChars(lit), sliced))
	}
	b.WriteString(strings.Join(rows, ",\n") + "]\n\n")

	// ---- 2./3. per tag type: attribute keys of unmarshal, string literals of marshal
	types := []string{"MultivariantStart", "MediaServerControl", "MediaPartInf", "MediaMap", "MediaKey", "MediaSkip", "MediaPart", "MediaPreloadHint", "MediaSegment"}
	b.WriteString("/-- attribute keys each `unmarshal` reacts to (`case \"K\":` / `if key == \"K\"`), in source order -/\n")
	b.WriteString("def attrKeys : List (String × List (List Char)) := [\n")
	rows = nil
	for _, tn := range types {
		fd := p.funcDecl(tn, "unmarshal")
		if fd == nil {
			if tn == "MediaSegment" {
				continue
			}
			fatalf("playlist media: %s.unmarshal not found", tn)
		}
		var keys []string
		ast.Inspect(fd.Body, func(n ast.Node) bool {
			switch x := n.(type) {
			case *ast.SwitchStmt:
				if x.Tag != nil && plmExprString(p, x.Tag) == "key" {
					for _, cc := range x.Body.List {
						for _, e := range cc.(*ast.CaseClause).List {
							s, ok := plmStrLit(e)
							if !ok {
								fatalf("playlist media: %s.unmarshal: non-literal attribute key", tn)
							}
							keys = append(keys, s)
						}
					}
				}
			case *ast.BinaryExpr:
				if x.Op == token.EQL && plmExprString(p, x.X) == "key" {
					if s, ok := plmStrLit(x.Y); ok {
						keys = append(keys, s)
					}
				}
			}
			return true
		})
		var ks []string
		for _, k := range keys {
			ks = append(ks, plmLeanChars(k))
		}
		rows = append(rows, fmt.Sprintf("  (%s, [%s])", strconv.Quote(tn), strings.Join(ks, ", ")))
	}
	b.WriteString(strings.Join(rows, ",\n") + "]\n\n")

	b.WriteString("/-- string literals of each `marshal()`, in source order -/\n")
	b.WriteString("def marshalLits : List (String × List (List Char)) := [\n")
	rows = nil
	for _, tn := range types {
		fd := p.mustFunc(tn, "marshal")
		var lits []string
		ast.Inspect(fd.Body, func(n ast.Node) bool {
			if bl, ok := n.(*ast.BasicLit); ok && bl.Kind == token.STRING {
				s, _ := plmStrLit(bl)
				lits = append(lits, plmLeanChars(s))
			}
			return true
		})
		rows = append(rows, fmt.Sprintf("  (%s, [%s])", strconv.Quote(tn), strings.Join(lits, ", ")))
	}
	b.WriteString(strings.Join(rows, ",\n") + "]\n\n")

	// ---- 4. Media.Marshal as an event list
	mm := p.mustFunc("Media", "Marshal")
	b.WriteString("inductive Ev where\n  | lit (s : List Char)      -- a string literal\n  | call (recv : String)     -- `recv.marshal()`\n  | fmtInt (arg : String)    -- `strconv.FormatInt(int64(arg), 10)`\n  | cond (e : String)        -- `if e {` / `for … range e {`\n  deriving DecidableEq, Repr\n\n")
	b.WriteString("/-- `Media.Marshal` (" + plmRelPos(r, p, mm.Pos()) + ") in source order -/\n")
	b.WriteString("def mediaMarshal : List Ev := [\n")
	rows = nil
	var walk func(n ast.Node) bool
	walk = func(n ast.Node) bool {
		switch x := n.(type) {
		case *ast.IfStmt:
			rows = append(rows, "  .cond "+strconv.Quote(plmExprString(p, x.Cond)))
		case *ast.RangeStmt:
			rows = append(rows, "  .cond "+strconv.Quote("range "+plmExprString(p, x.X)))
		case *ast.BasicLit:
			if x.Kind == token.STRING {
				s, _ := plmStrLit(x)
				rows = append(rows, "  .lit "+plmLeanChars(s))
			}
		case *ast.CallExpr:
			if args, ok := plmIsSelCall(x, "strconv", "FormatInt"); ok {
				if len(args) != 2 || plmExprString(p, args[1]) != "10" {
					fatalf("playlist media: FormatInt with unexpected arguments in Media.Marshal")
				}
				a := plmExprString(p, args[0])
				a = strings.TrimSuffix(strings.TrimPrefix(a, "int64("), ")")
				rows = append(rows, "  .fmtInt "+strconv.Quote(a))
				return false
			}
			if s, ok := x.Fun.(*ast.SelectorExpr); ok && s.Sel.Name == "marshal" && len(x.Args) == 0 {
				rows = append(rows, "  .call "+strconv.Quote(plmExprString(p, s.X)))
				return false
			}
		}
		return true
	}
	ast.Inspect(mm.Body, walk)
	b.WriteString(strings.Join(rows, ",\n") + "]\n\n")

	// ---- 5. constants
	consts := p.consts()
	mv, ok := consts["maxSupportedVersion"]
	if !ok {
		fatalf("playlist media: maxSupportedVersion not found")
	}
	b.WriteString("def maxSupportedVersion : Int := " + plmExprString(p, mv.expr) + "\n\n")
	for _, n := range []string{"timeRFC3339Millis", "timeISO8601Millis"} {
		c, ok := consts[n]
		if !ok {
			fatalf("playlist media: %s not found", n)
		}
		s, ok := plmStrLit(c.expr)
		if !ok {
			fatalf("playlist media: %s is not a string literal", n)
		}
		b.WriteString("def " + n + " : List Char := " + plmLeanChars(s) + "\n")
	}
	b.WriteString("\n")

	// ParseUint bit sizes and FormatFloat arguments per file
	prim := r.pkgs["pkg/playlist/primitives"]
	type src struct {
		pk   *pkgSrc
		file string
	}
	var files []src
	for _, f := range []string{"media.go", "media_key.go", "media_map.go", "media_part.go", "media_part_inf.go", "media_preload_hint.go", "media_segment.go", "media_server_control.go", "media_skip.go", "multivariant_start.go"} {
		files = append(files, src{p, f})
	}
	for _, f := range []string{"byterange.go", "duration.go"} {
		files = append(files, src{prim, f})
	}
	var bits, ff []string
	for _, s := range files {
		af, ok := s.pk.files[s.file]
		if !ok {
			fatalf("playlist media: file %s not found", s.file)
		}
		var bs, fs []string
		ast.Inspect(af, func(n ast.Node) bool {
			if args, ok := plmIsSelCall2(n, "strconv", "ParseUint"); ok {
				if len(args) != 3 || plmExprString(s.pk, args[1]) != "10" {
					fatalf("playlist media: ParseUint with unexpected base in %s", s.file)
				}
				bs = append(bs, plmExprString(s.pk, args[2]))
			}
			if args, ok := plmIsSelCall2(n, "strconv", "FormatFloat"); ok {
				if len(args) != 4 {
					fatalf("playlist media: FormatFloat arity in %s", s.file)
				}
				fs = append(fs, strconv.Quote(plmExprString(s.pk, args[1])+","+plmExprString(s.pk, args[2])+","+plmExprString(s.pk, args[3])))
			}
			if args, ok := plmIsSelCall2(n, "strconv", "ParseFloat"); ok {
				if len(args) != 2 || plmExprString(s.pk, args[1]) != "64" {
					fatalf("playlist media: ParseFloat bit size in %s", s.file)
				}
			}
			return true
		})
		if len(bs) > 0 {
			bits = append(bits, fmt.Sprintf("  (%s, [%s])", strconv.Quote(s.file), strings.Join(bs, ", ")))
		}
		if len(fs) > 0 {
			ff = append(ff, fmt.Sprintf("  (%s, [%s])", strconv.Quote(s.file), strings.Join(fs, ", ")))
		}
	}
	sort.Strings(bits)
	sort.Strings(ff)
	b.WriteString("/-- bit sizes of every `strconv.ParseUint(_, 10, bits)` per file -/\n")
	b.WriteString("def parseUintBits : List (String × List Nat) := [\n" + strings.Join(bits, ",\n") + "]\n\n")
	b.WriteString("/-- `fmt,prec,bitSize` of every `strconv.FormatFloat` per file -/\n")
	b.WriteString("def formatFloatArgs : List (String × List String) := [\n" + strings.Join(ff, ",\n") + "]\n\n")
	b.WriteString("end Hls.Gen.PlaylistMedia\n")
	return b.String()
}

// plmRelPos is file:line relative to the repository root (so that the generated text does not depend on where the tree is)
func plmRelPos(r *repo, p *pkgSrc, pos token.Pos) string {
	ps := p.fset.Position(pos)
	return strings.TrimPrefix(strings.TrimPrefix(ps.Filename, r.root), "/") + ":" + strconv.Itoa(ps.Line)
}

func plmIsSelCall2(n ast.Node, pkg, name string) ([]ast.Expr, bool) {
	e, ok := n.(ast.Expr)
	if !ok {
		return nil, false
	}
	return plmIsSelCall(e, pkg, name)
}
