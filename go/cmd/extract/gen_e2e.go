package main

import (
	"fmt"
	"go/ast"
	"go/token"
	"sort"
	"strings"
)

// Gen/E2E.lean (C09): what the composition theorems decide on —
//   - the prefix / exact-match lists of `checkSupport` (client_primary_downloader.go),
//   - per case of codecparams.Marshal the LEFTMOST literal of the string it returns on its success path and
//     whether that literal is the whole string,
//   - the four codec conversion switches of pkg/codecs (ToFMP4, FromFMP4, ToMPEGTS, FromMPEGTS) as tables
//     (case kind, result kind, [(result field, source field)]),
//   - the field lists of the codec structs of pkg/codecs,
//   - fmp4TimeScale's table, the client's MPEG-TS clock rate and the muxer's +10 s base-time offset.
//
// Everything outside the expected shapes aborts extraction.

func init() { registerGen("E2E.lean", genE2E) }

func e2eChars(s string) string {
	var q []string
	for _, c := range s {
		q = append(q, fmt.Sprintf("'%c'", c))
		if c == '\'' || c == '\\' || c < 0x20 || c > 0x7e {
			fatalf("E2E: unexpected character %q in a codec literal", c)
		}
	}
	return "[" + strings.Join(q, ", ") + "]"
}

// leftmost operand of a chain of string concatenations
func e2eLeftmost(e ast.Expr) ast.Expr {
	for {
		switch x := e.(type) {
		case *ast.BinaryExpr:
			if x.Op != token.ADD {
				return e
			}
			e = x.X
		case *ast.ParenExpr:
			e = x.X
		default:
			return e
		}
	}
}

// kind name of `*pkg.CodecXxx` / `*pkg.Xxx` / `*Xxx`
func e2eKind(e ast.Expr) (pkg, name string, ok bool) {
	st, ok := e.(*ast.StarExpr)
	if !ok {
		return "", "", false
	}
	switch x := st.X.(type) {
	case *ast.Ident:
		return "", x.Name, true
	case *ast.SelectorExpr:
		id, ok := x.X.(*ast.Ident)
		if !ok {
			return "", "", false
		}
		return id.Name, strings.TrimPrefix(x.Sel.Name, "Codec"), true
	}
	return "", "", false
}

type e2eRow struct {
	in, out string
	fields  [][2]string // (result field, source field)
}

// e2eConvTable: `switch in := in.(type) { case *A: return &B{F: in.G, …} … }; return nil`
func e2eConvTable(p *pkgSrc, fn string) []e2eRow {
	fd := p.mustFunc("", fn)
	if len(fd.Body.List) != 2 {
		fatalf("%s: expected `switch …; return nil`", fn)
	}
	ts, ok := fd.Body.List[0].(*ast.TypeSwitchStmt)
	ret, ok2 := fd.Body.List[1].(*ast.ReturnStmt)
	if !ok || !ok2 || len(ret.Results) != 1 {
		fatalf("%s: unexpected shape", fn)
	}
	if id, ok := ret.Results[0].(*ast.Ident); !ok || id.Name != "nil" {
		fatalf("%s: final return is not nil", fn)
	}
	as, ok := ts.Assign.(*ast.AssignStmt)
	if !ok || len(as.Lhs) != 1 {
		fatalf("%s: type switch without binding", fn)
	}
	bound := as.Lhs[0].(*ast.Ident).Name
	var rows []e2eRow
	for _, c := range ts.Body.List {
		cc := c.(*ast.CaseClause)
		if len(cc.List) != 1 || len(cc.Body) != 1 {
			fatalf("%s: case with several types / statements", fn)
		}
		_, in, ok := e2eKind(cc.List[0])
		if !ok {
			fatalf("%s: unexpected case type", fn)
		}
		r, ok := cc.Body[0].(*ast.ReturnStmt)
		if !ok || len(r.Results) != 1 {
			fatalf("%s: case %s does not return one value", fn, in)
		}
		ue, ok := r.Results[0].(*ast.UnaryExpr)
		if !ok || ue.Op != token.AND {
			fatalf("%s: case %s does not return &T{…}", fn, in)
		}
		cl, ok := ue.X.(*ast.CompositeLit)
		if !ok {
			fatalf("%s: case %s does not return a composite literal", fn, in)
		}
		_, out, ok := e2eKind(&ast.StarExpr{X: cl.Type})
		if !ok {
			fatalf("%s: case %s: unexpected result type", fn, in)
		}
		row := e2eRow{in: in, out: out}
		for _, el := range cl.Elts {
			kv, ok := el.(*ast.KeyValueExpr)
			if !ok {
				fatalf("%s: case %s: positional field", fn, in)
			}
			k, ok := kv.Key.(*ast.Ident)
			se, ok2 := kv.Value.(*ast.SelectorExpr)
			if !ok || !ok2 {
				fatalf("%s: case %s: field %v is not `F: in.G`", fn, in, kv.Key)
			}
			if x, ok := se.X.(*ast.Ident); !ok || x.Name != bound {
				fatalf("%s: case %s: field value does not read the switch variable", fn, in)
			}
			row.fields = append(row.fields, [2]string{k.Name, se.Sel.Name})
		}
		rows = append(rows, row)
	}
	return rows
}

func e2eRowsLean(name, doc string, rows []e2eRow) string {
	var b strings.Builder
	b.WriteString("/-- " + doc + " -/\n")
	b.WriteString("def " + name + " : List (String × String × List (String × String)) :=\n  [")
	for i, r := range rows {
		if i > 0 {
			b.WriteString(",\n   ")
		}
		var fs []string
		for _, f := range r.fields {
			fs = append(fs, "("+mvLeanStr(f[0])+", "+mvLeanStr(f[1])+")")
		}
		b.WriteString("(" + mvLeanStr(r.in) + ", " + mvLeanStr(r.out) + ", [" + strings.Join(fs, ", ") + "])")
	}
	b.WriteString("]\n\n")
	return b.String()
}

func genE2E(r *repo) string {
	p := r.pkgs["."]
	cp := r.pkgs["pkg/codecparams"]
	cd := r.pkgs["pkg/codecs"]
	var b strings.Builder
	b.WriteString("namespace Hls.Gen.E2E\n\n")

	// --- checkSupport: for _, codec := range codecs { if <conj> { return false } }; return true
	{
		fd := p.mustFunc("", "checkSupport")
		if len(fd.Body.List) != 2 {
			fatalf("checkSupport: unexpected shape")
		}
		rs, ok := fd.Body.List[0].(*ast.RangeStmt)
		ret, ok2 := fd.Body.List[1].(*ast.ReturnStmt)
		if !ok || !ok2 || len(ret.Results) != 1 || len(rs.Body.List) != 1 {
			fatalf("checkSupport: unexpected shape")
		}
		if id, ok := ret.Results[0].(*ast.Ident); !ok || id.Name != "true" {
			fatalf("checkSupport: final return is not true")
		}
		v, ok := rs.Value.(*ast.Ident)
		if !ok {
			fatalf("checkSupport: range without value")
		}
		ifs, ok := rs.Body.List[0].(*ast.IfStmt)
		if !ok || ifs.Init != nil || ifs.Else != nil || len(ifs.Body.List) != 1 {
			fatalf("checkSupport: loop body is not a single if")
		}
		r0, ok := ifs.Body.List[0].(*ast.ReturnStmt)
		if !ok || len(r0.Results) != 1 {
			fatalf("checkSupport: if body is not `return false`")
		}
		if id, ok := r0.Results[0].(*ast.Ident); !ok || id.Name != "false" {
			fatalf("checkSupport: if body is not `return false`")
		}
		var prefixes, exacts []string
		var walk func(e ast.Expr)
		walk = func(e ast.Expr) {
			switch x := e.(type) {
			case *ast.ParenExpr:
				walk(x.X)
			case *ast.BinaryExpr:
				switch x.Op {
				case token.LAND:
					walk(x.X)
					walk(x.Y)
				case token.NEQ:
					id, ok := x.X.(*ast.Ident)
					s, ok2 := mvStr(x.Y)
					if !ok || !ok2 || id.Name != v.Name {
						fatalf("checkSupport: unexpected comparison")
					}
					exacts = append(exacts, s)
				default:
					fatalf("checkSupport: unexpected operator %s", x.Op)
				}
			case *ast.UnaryExpr:
				call, ok := x.X.(*ast.CallExpr)
				if x.Op != token.NOT || !ok || len(call.Args) != 2 {
					fatalf("checkSupport: unexpected conjunct")
				}
				se, ok := call.Fun.(*ast.SelectorExpr)
				if !ok || se.Sel.Name != "HasPrefix" {
					fatalf("checkSupport: conjunct is not !strings.HasPrefix(…)")
				}
				id, ok := call.Args[0].(*ast.Ident)
				s, ok2 := mvStr(call.Args[1])
				if !ok || !ok2 || id.Name != v.Name {
					fatalf("checkSupport: unexpected HasPrefix arguments")
				}
				prefixes = append(prefixes, s)
			default:
				fatalf("checkSupport: unexpected conjunct %T", e)
			}
		}
		walk(ifs.Cond)
		b.WriteString("/-- `checkSupport` (" + p.fset.Position(fd.Pos()).String() + "): a codec string is accepted iff it starts with one of these … -/\n")
		b.WriteString("def checkSupportPrefixes : List String := " + mvLeanStrList(prefixes) + "\n")
		b.WriteString("/-- … or equals one of these; a variant is accepted iff every string of its CODECS list is. -/\n")
		b.WriteString("def checkSupportExact : List String := " + mvLeanStrList(exacts) + "\n")
		var pc, ec []string
		for _, s := range prefixes {
			pc = append(pc, e2eChars(s))
		}
		for _, s := range exacts {
			ec = append(ec, e2eChars(s))
		}
		b.WriteString("/-- the same lists as character lists (what the theorems compute on) -/\n")
		b.WriteString("def checkSupportPrefixChars : List (List Char) := [" + strings.Join(pc, ", ") + "]\n")
		b.WriteString("def checkSupportExactChars : List (List Char) := [" + strings.Join(ec, ", ") + "]\n\n")
	}

	// --- codecparams.Marshal: per case the leftmost literal of the returned string
	{
		fd := cp.mustFunc("", "Marshal")
		ts := mvTypeSwitch(fd)
		if ts == nil {
			fatalf("codecparams.Marshal: no type switch")
		}
		var rows []string
		for _, c := range ts.Body.List {
			cc := c.(*ast.CaseClause)
			if len(cc.List) != 1 {
				fatalf("codecparams.Marshal: case with several types")
			}
			name, ok := mvTypeName(cc.List[0])
			if !ok {
				fatalf("codecparams.Marshal: unexpected case type")
			}
			// every `return <expr>` inside the case; `return v` is resolved through `v := <expr>` / `v += …`
			defs := map[string]ast.Expr{}
			var results []ast.Expr
			ast.Inspect(&ast.BlockStmt{List: cc.Body}, func(n ast.Node) bool {
				switch x := n.(type) {
				case *ast.AssignStmt:
					if x.Tok == token.DEFINE && len(x.Lhs) == 1 && len(x.Rhs) == 1 {
						if id, ok := x.Lhs[0].(*ast.Ident); ok {
							defs[id.Name] = x.Rhs[0]
						}
					}
				case *ast.ReturnStmt:
					if len(x.Results) == 1 {
						results = append(results, x.Results[0])
					}
				}
				return true
			})
			if len(results) != 1 {
				fatalf("codecparams.Marshal: case %s has %d return statements (expected 1)", name, len(results))
			}
			e := results[0]
			whole := false
			if id, ok := e.(*ast.Ident); ok {
				d, ok := defs[id.Name]
				if !ok {
					fatalf("codecparams.Marshal: case %s returns an unknown variable", name)
				}
				e = d
			} else if _, ok := mvStr(e); ok {
				whole = true
			}
			lit, ok := mvStr(e2eLeftmost(e))
			if !ok || lit == "" {
				fatalf("codecparams.Marshal: case %s: the returned string does not start with a literal", name)
			}
			rows = append(rows, fmt.Sprintf("(%s, %s, %s, %v)", mvLeanStr(name), mvLeanStr(lit), e2eChars(lit), whole))
		}
		b.WriteString("/-- `codecparams.Marshal` (" + cp.fset.Position(fd.Pos()).String() + "): per case (kind, leftmost literal of the string returned on the\n    success path, the same as characters, the literal is the WHOLE string). A failed parameter parse returns \"\". -/\n")
		b.WriteString("def marshalShapes : List (String × String × List Char × Bool) :=\n  [" + strings.Join(rows, ",\n   ") + "]\n\n")
	}

	// --- conversion tables
	toF := e2eConvTable(cd, "ToFMP4")
	fromF := e2eConvTable(cd, "FromFMP4")
	toT := e2eConvTable(cd, "ToMPEGTS")
	fromT := e2eConvTable(cd, "FromMPEGTS")
	b.WriteString(e2eRowsLean("toFMP4", "`codecs.ToFMP4`: (codec kind, fmp4 kind, [(fmp4 field, codec field)]); anything else ↦ nil", toF))
	b.WriteString(e2eRowsLean("fromFMP4", "`codecs.FromFMP4`: (fmp4 kind, codec kind, [(codec field, fmp4 field)]); anything else ↦ nil", fromF))
	b.WriteString(e2eRowsLean("toMPEGTS", "`codecs.ToMPEGTS`: (codec kind, mpegts kind, [(mpegts field, codec field)]); anything else ↦ nil", toT))
	b.WriteString(e2eRowsLean("fromMPEGTS", "`codecs.FromMPEGTS`: (mpegts kind, codec kind, [(codec field, mpegts field)]); anything else ↦ nil", fromT))

	// --- codec structs of pkg/codecs
	{
		type st struct {
			name   string
			fields []string
		}
		var sts []st
		var files []string
		for n := range cd.files {
			files = append(files, n)
		}
		sort.Strings(files)
		for _, fn := range files {
			for _, d := range cd.files[fn].Decls {
				gd, ok := d.(*ast.GenDecl)
				if !ok || gd.Tok != token.TYPE {
					continue
				}
				for _, s := range gd.Specs {
					tsp := s.(*ast.TypeSpec)
					stt, ok := tsp.Type.(*ast.StructType)
					if !ok {
						continue
					}
					x := st{name: tsp.Name.Name}
					for _, f := range stt.Fields.List {
						if len(f.Names) == 0 { // embedded: the field is named after the type
							switch t := f.Type.(type) {
							case *ast.SelectorExpr:
								x.fields = append(x.fields, t.Sel.Name)
							case *ast.Ident:
								x.fields = append(x.fields, t.Name)
							default:
								fatalf("pkg/codecs: unexpected embedded field in %s", tsp.Name.Name)
							}
							continue
						}
						for _, n := range f.Names {
							x.fields = append(x.fields, n.Name)
						}
					}
					sts = append(sts, x)
				}
			}
		}
		sort.Slice(sts, func(i, j int) bool { return sts[i].name < sts[j].name })
		var rows []string
		for _, s := range sts {
			rows = append(rows, "("+mvLeanStr(s.name)+", "+mvLeanStrList(s.fields)+")")
		}
		b.WriteString("/-- the struct types of pkg/codecs (every implementation of `codecs.Codec`) with their fields -/\n")
		b.WriteString("def codecStructs : List (String × List String) :=\n  [" + strings.Join(rows, ",\n   ") + "]\n\n")
	}

	// --- fmp4TimeScale: switch with `return uint32(codec.SampleRate)` / `return N`; default `return N`
	{
		fd := p.mustFunc("", "fmp4TimeScale")
		ts := mvTypeSwitch(fd)
		if ts == nil || len(fd.Body.List) != 2 {
			fatalf("fmp4TimeScale: unexpected shape")
		}
		var rows []string
		for _, c := range ts.Body.List {
			cc := c.(*ast.CaseClause)
			if len(cc.List) != 1 || len(cc.Body) != 1 {
				fatalf("fmp4TimeScale: unexpected case")
			}
			name, ok := mvTypeName(cc.List[0])
			ret, ok2 := cc.Body[0].(*ast.ReturnStmt)
			if !ok || !ok2 || len(ret.Results) != 1 {
				fatalf("fmp4TimeScale: unexpected case")
			}
			if v, ok := mvInt(ret.Results[0]); ok {
				rows = append(rows, fmt.Sprintf("(%s, some %d)", mvLeanStr(name), v))
			} else if s, ok := flatten(ret.Results[0]); ok && (s == "uint32(codec.SampleRate)" || strings.Contains(s, "SampleRate")) {
				rows = append(rows, fmt.Sprintf("(%s, none)", mvLeanStr(name)))
			} else if call, ok := ret.Results[0].(*ast.CallExpr); ok && len(call.Args) == 1 {
				if se, ok := call.Args[0].(*ast.SelectorExpr); ok && se.Sel.Name == "SampleRate" {
					rows = append(rows, fmt.Sprintf("(%s, none)", mvLeanStr(name)))
				} else {
					fatalf("fmp4TimeScale: case %s returns something unexpected", name)
				}
			} else {
				fatalf("fmp4TimeScale: case %s returns something unexpected", name)
			}
		}
		ret, ok := fd.Body.List[1].(*ast.ReturnStmt)
		if !ok || len(ret.Results) != 1 {
			fatalf("fmp4TimeScale: no default return")
		}
		def, ok := mvInt(ret.Results[0])
		if !ok {
			fatalf("fmp4TimeScale: default is not a literal")
		}
		b.WriteString("/-- `fmp4TimeScale` (" + p.fset.Position(fd.Pos()).String() + "): per case `some n` = the constant n, `none` = the codec's own sample rate -/\n")
		b.WriteString("def fmp4TimeScaleCases : List (String × Option Nat) := [" + strings.Join(rows, ", ") + "]\n")
		b.WriteString(fmt.Sprintf("def fmp4TimeScaleDefault : Nat := %d\n\n", def))
	}

	// --- the muxer's base-time offset: const fmp4StartDTS = 10 * time.Second
	{
		ci, ok := p.consts()["fmp4StartDTS"]
		if !ok {
			fatalf("constant fmp4StartDTS not found")
		}
		be, ok := ci.expr.(*ast.BinaryExpr)
		if !ok || be.Op != token.MUL {
			fatalf("fmp4StartDTS: unexpected expression")
		}
		n, ok := mvInt(be.X)
		se, ok2 := be.Y.(*ast.SelectorExpr)
		if !ok || !ok2 || se.Sel.Name != "Second" {
			fatalf("fmp4StartDTS: expected N * time.Second")
		}
		b.WriteString("/-- `fmp4StartDTS` in seconds (muxer_segmenter.go) -/\n")
		b.WriteString(fmt.Sprintf("def fmp4StartDTSSeconds : Int := %d\n\n", n))
	}

	// --- client side of the renditions (c09_renditions)
	b.WriteString(e2eClientRenditions(p))

	b.WriteString("end Hls.Gen.E2E\n")
	return b.String()
}

// e2eSel renders `a.b.c` as "a.b.c".
func e2eSel(e ast.Expr) (string, bool) {
	switch x := e.(type) {
	case *ast.Ident:
		return x.Name, true
	case *ast.SelectorExpr:
		a, ok := e2eSel(x.X)
		if !ok {
			return "", false
		}
		return a + "." + x.Sel.Name, true
	}
	return "", false
}

// e2eClientRenditions: how the client turns the EXT-X-MEDIA entries into tracks.
//   - clientStreamProcessorFMP4.run: the fields of the `&Track{…}` literal that are IIFEs of the shape
//     `func() T { if !p.isLeading { return p.rendition.X }; return <zero> }()`  →  (Track field, rendition field)
//   - clientPrimaryDownloader.run: `if leadingPlaylist.Audio != ""`, `getRenditionsByGroup(plt.Renditions,
//     leadingPlaylist.Audio)`, `if pl.URI == nil { continue }`, and the stream literal with `isLeading: false`,
//     `rendition: pl`
//   - getRenditionsByGroup / pickLeadingPlaylist: source pins (the model mirrors them by hand)
func e2eClientRenditions(p *pkgSrc) string {
	var b strings.Builder
	// (a) Track literal
	{
		fd := p.mustFunc("clientStreamProcessorFMP4", "run")
		var lit *ast.CompositeLit
		ast.Inspect(fd.Body, func(n ast.Node) bool {
			if cl, ok := n.(*ast.CompositeLit); ok && lit == nil {
				if id, ok := cl.Type.(*ast.Ident); ok && id.Name == "Track" {
					lit = cl
					return false
				}
			}
			return true
		})
		if lit == nil {
			fatalf("clientStreamProcessorFMP4.run: no Track literal")
		}
		var rows []string
		var plain []string
		for _, el := range lit.Elts {
			kv, ok := el.(*ast.KeyValueExpr)
			if !ok {
				fatalf("clientStreamProcessorFMP4.run: positional field in the Track literal")
			}
			key := kv.Key.(*ast.Ident).Name
			call, ok := kv.Value.(*ast.CallExpr)
			fl, ok2 := (ast.Expr)(nil), false
			if ok {
				fl, ok2 = call.Fun.(*ast.FuncLit)
			}
			if !ok || !ok2 {
				plain = append(plain, key)
				continue
			}
			body := fl.(*ast.FuncLit).Body.List
			if len(call.Args) != 0 || len(body) != 2 {
				fatalf("clientStreamProcessorFMP4.run: Track.%s: unexpected closure", key)
			}
			ifs, ok := body[0].(*ast.IfStmt)
			ret, ok2 := body[1].(*ast.ReturnStmt)
			if !ok || !ok2 || ifs.Init != nil || ifs.Else != nil || len(ifs.Body.List) != 1 || len(ret.Results) != 1 {
				fatalf("clientStreamProcessorFMP4.run: Track.%s: unexpected closure body", key)
			}
			if ue, ok := ifs.Cond.(*ast.UnaryExpr); !ok || ue.Op != token.NOT {
				fatalf("clientStreamProcessorFMP4.run: Track.%s: guard is not !p.isLeading", key)
			} else if s, ok := e2eSel(ue.X); !ok || s != "p.isLeading" {
				fatalf("clientStreamProcessorFMP4.run: Track.%s: guard is not !p.isLeading", key)
			}
			r0, ok := ifs.Body.List[0].(*ast.ReturnStmt)
			if !ok || len(r0.Results) != 1 {
				fatalf("clientStreamProcessorFMP4.run: Track.%s: unexpected guarded statement", key)
			}
			src, ok := e2eSel(r0.Results[0])
			if !ok || !strings.HasPrefix(src, "p.rendition.") {
				fatalf("clientStreamProcessorFMP4.run: Track.%s does not read p.rendition", key)
			}
			zero := ""
			switch z := ret.Results[0].(type) {
			case *ast.BasicLit:
				zero = z.Value
			case *ast.Ident:
				zero = z.Name
			default:
				fatalf("clientStreamProcessorFMP4.run: Track.%s: unexpected default", key)
			}
			if zero != `""` && zero != "false" {
				fatalf("clientStreamProcessorFMP4.run: Track.%s: default %s is not a zero value", key, zero)
			}
			rows = append(rows, "("+mvLeanStr(key)+", "+mvLeanStr(strings.TrimPrefix(src, "p.rendition."))+")")
		}
		b.WriteString("/-- `clientStreamProcessorFMP4.run` (" + p.fset.Position(fd.Pos()).String() + "): fields of the `Track` literal that are copied from\n    `p.rendition` when `!p.isLeading` (zero value otherwise): (Track field, rendition field) -/\n")
		b.WriteString("def clientTrackCopies : List (String × String) := [" + strings.Join(rows, ", ") + "]\n")
		b.WriteString("/-- the other fields of that literal -/\n")
		b.WriteString("def clientTrackPlainFields : List String := " + mvLeanStrList(plain) + "\n\n")
	}
	// (b) clientPrimaryDownloader.run
	{
		fd := p.mustFunc("clientPrimaryDownloader", "run")
		variantField, skipNil := "", ""
		guard := false
		var lits []*ast.CompositeLit
		ast.Inspect(fd.Body, func(n ast.Node) bool {
			switch x := n.(type) {
			case *ast.CallExpr:
				if id, ok := x.Fun.(*ast.Ident); ok && id.Name == "getRenditionsByGroup" && len(x.Args) == 2 {
					a0, _ := e2eSel(x.Args[0])
					a1, ok := e2eSel(x.Args[1])
					if a0 != "plt.Renditions" || !ok || !strings.HasPrefix(a1, "leadingPlaylist.") {
						fatalf("clientPrimaryDownloader.run: unexpected getRenditionsByGroup arguments")
					}
					variantField = strings.TrimPrefix(a1, "leadingPlaylist.")
				}
			case *ast.IfStmt:
				if be, ok := x.Cond.(*ast.BinaryExpr); ok {
					l, _ := e2eSel(be.X)
					if be.Op == token.NEQ && strings.HasPrefix(l, "leadingPlaylist.") {
						if s, ok := mvStr(be.Y); ok && s == "" {
							if variantField != "" && variantField != strings.TrimPrefix(l, "leadingPlaylist.") {
								fatalf("clientPrimaryDownloader.run: guard and lookup use different fields")
							}
							guard = true
						}
					}
					if be.Op == token.EQL && strings.HasPrefix(l, "pl.") {
						if id, ok := be.Y.(*ast.Ident); ok && id.Name == "nil" && len(x.Body.List) == 1 {
							if br, ok := x.Body.List[0].(*ast.BranchStmt); ok && br.Tok == token.CONTINUE {
								skipNil = strings.TrimPrefix(l, "pl.")
							}
						}
					}
				}
			case *ast.CompositeLit:
				if id, ok := x.Type.(*ast.Ident); ok && id.Name == "clientStreamDownloader" {
					lits = append(lits, x)
				}
			}
			return true
		})
		if variantField == "" || !guard || skipNil == "" {
			fatalf("clientPrimaryDownloader.run: rendition loop not found (group field %q, guard %v, nil-skip %q)", variantField, guard, skipNil)
		}
		// stream literals: [media playlist, leading of a multivariant, rendition]
		var shapes []string
		for _, l := range lits {
			lead, rend := "?", "none"
			for _, el := range l.Elts {
				kv := el.(*ast.KeyValueExpr)
				switch kv.Key.(*ast.Ident).Name {
				case "isLeading":
					lead = kv.Value.(*ast.Ident).Name
				case "rendition":
					rend, _ = e2eSel(kv.Value)
				}
			}
			shapes = append(shapes, "("+lead+", "+mvLeanStr(rend)+")")
		}
		b.WriteString("/-- `clientPrimaryDownloader.run` (" + p.fset.Position(fd.Pos()).String() + "): renditions are looked up when the chosen variant's\n    field … is non-empty, by that value -/\n")
		b.WriteString("def clientVariantGroupField : String := " + mvLeanStr(variantField) + "\n")
		b.WriteString("/-- a rendition whose field … is nil is skipped (its data travels in the variant's own playlist) -/\n")
		b.WriteString("def clientRenditionSkipNilField : String := " + mvLeanStr(skipNil) + "\n")
		b.WriteString("/-- the `clientStreamDownloader` literals of `run` in source order: (isLeading, what `rendition:` is set to) -/\n")
		b.WriteString("def clientStreamLiterals : List (Bool × String) := [" + strings.Join(shapes, ", ") + "]\n")
	}
	// (c) getRenditionsByGroup: the compared field; pins
	{
		fd := p.mustFunc("", "getRenditionsByGroup")
		field := ""
		ast.Inspect(fd.Body, func(n ast.Node) bool {
			if be, ok := n.(*ast.BinaryExpr); ok && be.Op == token.EQL {
				l, _ := e2eSel(be.X)
				r, _ := e2eSel(be.Y)
				if strings.HasPrefix(l, "alt.") && r == "groupID" {
					field = strings.TrimPrefix(l, "alt.")
				}
			}
			return true
		})
		if field == "" {
			fatalf("getRenditionsByGroup: comparison `alt.X == groupID` not found")
		}
		b.WriteString("/-- `getRenditionsByGroup`: the rendition field compared with the group id -/\n")
		b.WriteString("def clientRenditionGroupField : String := " + mvLeanStr(field) + "\n")
		h1, _ := pinOf(p.fset, funcNoDoc(fd))
		h2, _ := pinOf(p.fset, funcNoDoc(p.mustFunc("", "pickLeadingPlaylist")))
		b.WriteString("/-- source pins (SHA-256 prefix of the comment-free, white-space-normalised text) of the two helpers the client\n    model `Hls.E2E.Renditions` mirrors by hand -/\n")
		b.WriteString("def clientRenditionPins : List (String × String) := [(\"getRenditionsByGroup\", " + mvLeanStr(h1) + "), (\"pickLeadingPlaylist\", " + mvLeanStr(h2) + ")]\n\n")
	}
	return b.String()
}
