package main

import (
	"go/ast"
	"go/token"
	"strings"
)

// Gen/Arith.lean: the straight-line integer functions of muxer_segmenter.go and
// the part-duration search loop.

func init() { registerGen("Arith.lean", genArith) }

func genArith(r *repo) string {
	p := r.pkgs["."]
	t := &tr{p: p, consts: p.consts(), callable: map[string]bool{}}
	var b strings.Builder
	b.WriteString("namespace Hls.Gen\n\n")
	for _, f := range []struct {
		name string
		bool bool
	}{
		{"multiplyAndDivide", false},
		{"multiplyAndDivide2", false},
		{"durationToTimestamp", false},
		{"timestampToDuration", false},
		{"partDurationIsCompatible", true},
	} {
		fd := p.mustFunc("", f.name)
		b.WriteString("/-- translated from `" + f.name + "` (" + p.fset.Position(fd.Pos()).String() + ") -/\n")
		b.WriteString(t.funcToLean(fd, f.bool))
		b.WriteString("\n")
		t.callable[f.name] = true
	}

	// partDurationIsCompatibleWithAll: `for sd := range m { if !f(pd, sd) { return false } } return true`
	{
		fd := p.mustFunc("", "partDurationIsCompatibleWithAll")
		t.where = fd.Name.Name
		ok := false
		if len(fd.Body.List) == 2 {
			if rs, isRange := fd.Body.List[0].(*ast.RangeStmt); isRange && rs.Value == nil && len(rs.Body.List) == 1 {
				if is, isIf := rs.Body.List[0].(*ast.IfStmt); isIf && len(is.Body.List) == 1 {
					un, isNot := is.Cond.(*ast.UnaryExpr)
					ret, isRet := is.Body.List[0].(*ast.ReturnStmt)
					ret2, isRet2 := fd.Body.List[1].(*ast.ReturnStmt)
					if isNot && un.Op == token.NOT && isRet && isRet2 && len(ret.Results) == 1 && len(ret2.Results) == 1 {
						call, isCall := un.X.(*ast.CallExpr)
						if isCall && t.expr(ret.Results[0]) == "false" && t.expr(ret2.Results[0]) == "true" {
							key := rs.Key.(*ast.Ident).Name
							m := rs.X.(*ast.Ident).Name
							b.WriteString("/-- translated from `partDurationIsCompatibleWithAll` (range over the duration set) -/\n")
							b.WriteString("def partDurationIsCompatibleWithAll (partDuration : Int) (" + m + " : List Int) : Bool :=\n")
							b.WriteString("  " + m + ".all fun " + key + " => " + t.expr(call) + "\n\n")
							ok = true
						}
					}
				}
			}
		}
		if !ok {
			fatalf("partDurationIsCompatibleWithAll: unexpected shape")
		}
	}

	// findCompatiblePartDuration: i := min; for ; i < BOUND; i += STEP { if P(i, set) { break } }; return i
	{
		fd := p.mustFunc("", "findCompatiblePartDuration")
		t.where = fd.Name.Name
		ok := false
		if len(fd.Body.List) == 3 {
			as, isAs := fd.Body.List[0].(*ast.AssignStmt)
			fs, isFor := fd.Body.List[1].(*ast.ForStmt)
			rt, isRet := fd.Body.List[2].(*ast.ReturnStmt)
			if isAs && isFor && isRet && fs.Init == nil && fs.Cond != nil && fs.Post != nil && len(fs.Body.List) == 1 {
				cond, isBin := fs.Cond.(*ast.BinaryExpr)
				post, isPost := fs.Post.(*ast.AssignStmt)
				is, isIf := fs.Body.List[0].(*ast.IfStmt)
				if isBin && cond.Op == token.LSS && isPost && post.Tok == token.ADD_ASSIGN && isIf && len(is.Body.List) == 1 {
					if br, isBr := is.Body.List[0].(*ast.BranchStmt); isBr && br.Tok == token.BREAK {
						iv := as.Lhs[0].(*ast.Ident).Name
						if id, isID := rt.Results[0].(*ast.Ident); isID && id.Name == iv && cond.X.(*ast.Ident).Name == iv {
							call := is.Cond.(*ast.CallExpr)
							_ = call
							b.WriteString("def findBound : Int := " + t.expr(cond.Y) + "\n")
							b.WriteString("def findStep : Int := " + t.expr(post.Rhs[0]) + "\n\n")
							b.WriteString("/-- the `for` loop of `findCompatiblePartDuration`, fuel-bounded -/\n")
							b.WriteString("def findLoop (sampleDurations : List Int) : Nat → Int → Int\n")
							b.WriteString("  | 0, i => i\n")
							b.WriteString("  | fuel+1, i =>\n")
							b.WriteString("    if i < findBound then\n")
							b.WriteString("      if partDurationIsCompatibleWithAll i sampleDurations then i\n")
							b.WriteString("      else findLoop sampleDurations fuel (i + findStep)\n")
							b.WriteString("    else i\n\n")
							b.WriteString("/-- fuel that is always sufficient: one iteration per grid point below the bound -/\n")
							b.WriteString("def findFuel (minPartDuration : Int) : Nat := (Int.tdiv (findBound - minPartDuration) findStep).toNat + 2\n\n")
							b.WriteString("def findCompatiblePartDuration (minPartDuration : Int) (sampleDurations : List Int) : Int :=\n")
							b.WriteString("  findLoop sampleDurations (findFuel minPartDuration) (" + t.expr(as.Rhs[0]) + ")\n\n")
							ok = true
						}
					}
				}
			}
		}
		if !ok {
			fatalf("findCompatiblePartDuration: unexpected shape")
		}
	}
	b.WriteString("end Hls.Gen\n")
	return b.String()
}
