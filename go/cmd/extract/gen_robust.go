package main

import (
	"bytes"
	"crypto/sha256"
	"encoding/hex"
	"fmt"
	"go/ast"
	"go/parser"
	"go/printer"
	"go/token"
	"os"
	"path/filepath"
	"regexp"
	"sort"
	"strings"
)

// Gen/Robust.lean (property C13): the facts about the source that the model Hls/Robust/Model.lean follows
// and that the `decide` obligations of Hls/Props/C13.lean are about.
//
//	mediacommon formats/fmp4/codec_*.go, formats/mpegts/codec_*.go   every type implementing fmp4.Codec / mpegts.Codec (+ IsVideo)
//	pkg/codecs/fromto_fmp4.go, fromto_mpegts.go                      case lists of FromFMP4 / ToFMP4 / FromMPEGTS / ToMPEGTS
//	client_track_processor_fmp4.go  initialize                      codec kinds that get a decodePayload; default clause
//	client_stream_processor_fmp4.go run                             ordered, classified statement list (every guard is a step)
//	                                processSegment / initializeTrackProcessors   guards, completion-channel capacity
//	client_stream_processor_mpegts.go initializeReader …            supported kinds, OnData registrations, guards
//	client_stream_downloader.go, client_primary_downloader.go       index / nil guards of the download loops
//	client.go                                                       clientMaxTracksPerStream, clientLive*, clientMaxDTSRTCDiff
//
// A guard that is removed from the source flips a regenerated Bool (or changes the step list); the model follows
// the code that exists, so the panic becomes reachable in the model and `c13_no_panic` / the table obligations fail.
// Any statement shape the classifier does not know aborts extraction.

func init() { registerGen("Robust.lean", genRobust) }

func rbExpr(fset *token.FileSet, n ast.Node) string {
	var buf bytes.Buffer
	cfg := printer.Config{Mode: printer.RawFormat}
	if err := cfg.Fprint(&buf, fset, n); err != nil {
		fatalf("print: %v", err)
	}
	var lines []string
	for _, l := range strings.Split(buf.String(), "\n") {
		if i := strings.Index(l, "//"); i >= 0 {
			l = l[:i]
		}
		lines = append(lines, l)
	}
	return rbStripHooks(strings.TrimSpace(wsRe.ReplaceAllString(strings.Join(lines, " "), " ")))
}

// verif hook call sites (`verifYield("point")`, single added lines, no-ops without the build tag) are instrumentation,
// not the code under verification: they are removed before anything is classified or pinned.
var rbHookRe = regexp.MustCompile(`verifYield\("[^"]*"\) ?`)

func rbStripHooks(s string) string {
	return strings.TrimSpace(wsRe.ReplaceAllString(rbHookRe.ReplaceAllString(s, ""), " "))
}

// rbPin: SHA-256 prefix of the normalised source of a declaration, hook call sites removed
func rbPin(fset *token.FileSet, n ast.Node) (string, string) {
	txt := rbExpr(fset, n)
	h := sha256.Sum256([]byte(txt))
	return hex.EncodeToString(h[:8]), txt
}

// rbBlockExit classifies how a guard body leaves: "return-error", "return-nil", "return", "continue", "break", "".
func rbBlockExit(fset *token.FileSet, b *ast.BlockStmt) string {
	if b == nil || len(b.List) == 0 {
		return ""
	}
	switch s := b.List[len(b.List)-1].(type) {
	case *ast.ReturnStmt:
		if len(s.Results) == 0 {
			return "return"
		}
		last := rbExpr(fset, s.Results[len(s.Results)-1])
		switch {
		case last == "nil":
			// `return nil, 0` style: look at the first result
			return "return-nil"
		case strings.HasPrefix(last, "fmt.Errorf(") || last == "err":
			return "return-error"
		case last == "false":
			return "return-false"
		}
		return "return-value"
	case *ast.BranchStmt:
		return strings.ToLower(s.Tok.String())
	}
	return ""
}

// rbIfGuards lists every `if cond { … exit }` of a function body (recursively, closures included): cond -> exit kind.
func rbIfGuards(fset *token.FileSet, fd *ast.FuncDecl) map[string]string {
	out := map[string]string{}
	ast.Inspect(fd.Body, func(n ast.Node) bool {
		is, ok := n.(*ast.IfStmt)
		if !ok {
			return true
		}
		cond := rbExpr(fset, is.Cond)
		if is.Init != nil {
			cond = rbExpr(fset, is.Init) + "; " + cond
		}
		if ex := rbBlockExit(fset, is.Body); ex != "" {
			out[cond] = ex
		}
		return true
	})
	return out
}

// rbTypeSwitchCases returns, for the k-th type switch (source order) of fd, the tag expression and per clause
// (type names of the case list, "default" for the default clause) together with the clause bodies.
type rbClause struct {
	types []string
	body  []ast.Stmt
}

func rbTypeSwitches(fset *token.FileSet, fd *ast.FuncDecl) (tags []string, clauses [][]rbClause) {
	ast.Inspect(fd.Body, func(n ast.Node) bool {
		ts, ok := n.(*ast.TypeSwitchStmt)
		if !ok {
			return true
		}
		tags = append(tags, rbExpr(fset, ts.Assign))
		var cls []rbClause
		for _, c := range ts.Body.List {
			cc := c.(*ast.CaseClause)
			var cl rbClause
			if cc.List == nil {
				cl.types = []string{"default"}
			}
			for _, e := range cc.List {
				cl.types = append(cl.types, rbExpr(fset, e))
			}
			cl.body = cc.Body
			cls = append(cls, cl)
		}
		clauses = append(clauses, cls)
		return true
	})
	return
}

func rbTrimType(s string, prefixes ...string) string {
	for _, p := range prefixes {
		if strings.HasPrefix(s, p) {
			return strings.TrimPrefix(s, p)
		}
	}
	fatalf("unexpected type expression %q in a type switch (expected one of the prefixes %v)", s, prefixes)
	return ""
}

// mediacommon codec implementations: every struct type of the package with an `isCodec()` method, and the
// constant its `IsVideo()` returns.
func rbCodecImpls(dir string, iface string) (names []string, video map[string]bool) {
	fset := token.NewFileSet()
	ents, err := os.ReadDir(dir)
	if err != nil {
		fatalf("read %s: %v", dir, err)
	}
	video = map[string]bool{}
	isCodec := map[string]bool{}
	hasVideo := map[string]bool{}
	for _, e := range ents {
		n := e.Name()
		if !strings.HasSuffix(n, ".go") || strings.HasSuffix(n, "_test.go") {
			continue
		}
		f, err := parser.ParseFile(fset, filepath.Join(dir, n), nil, 0)
		if err != nil {
			fatalf("parse %s: %v", n, err)
		}
		for _, d := range f.Decls {
			fd, ok := d.(*ast.FuncDecl)
			if !ok || fd.Recv == nil || len(fd.Recv.List) != 1 {
				continue
			}
			t := fd.Recv.List[0].Type
			if st, ok := t.(*ast.StarExpr); ok {
				t = st.X
			}
			id, ok := t.(*ast.Ident)
			if !ok {
				continue
			}
			switch fd.Name.Name {
			case "isCodec":
				isCodec[id.Name] = true
			case "IsVideo":
				if fd.Body == nil || len(fd.Body.List) != 1 {
					fatalf("%s: %s.IsVideo is not a single return", dir, id.Name)
				}
				ret, ok := fd.Body.List[0].(*ast.ReturnStmt)
				if !ok || len(ret.Results) != 1 {
					fatalf("%s: %s.IsVideo is not a single return", dir, id.Name)
				}
				v := rbExpr(fset, ret.Results[0])
				if v != "true" && v != "false" {
					fatalf("%s: %s.IsVideo does not return a constant", dir, id.Name)
				}
				video[id.Name] = v == "true"
				hasVideo[id.Name] = true
			}
		}
	}
	for n := range isCodec {
		if !hasVideo[n] {
			fatalf("%s: type %s has isCodec() but no IsVideo()", dir, n)
		}
		if !strings.HasPrefix(n, "Codec") {
			fatalf("%s: codec implementation %s does not follow the Codec* naming the harness relies on", dir, n)
		}
		names = append(names, n)
	}
	sort.Strings(names)
	if len(names) == 0 {
		fatalf("%s: no implementation of %s found", dir, iface)
	}
	return
}

// rbFromTo extracts the case list of a FromX/ToX conversion: (input type, returned type) per clause; the function
// must end with `return nil`.
func rbFromTo(p *pkgSrc, name string, inPrefix []string, outPrefix []string) [][2]string {
	fd := p.mustFunc("", name)
	tags, cls := rbTypeSwitches(p.fset, fd)
	if len(tags) != 1 {
		fatalf("codecs.%s: expected exactly one type switch", name)
	}
	last, ok := fd.Body.List[len(fd.Body.List)-1].(*ast.ReturnStmt)
	if !ok || len(last.Results) != 1 || rbExpr(p.fset, last.Results[0]) != "nil" {
		fatalf("codecs.%s: does not end with `return nil`", name)
	}
	var out [][2]string
	for _, c := range cls[0] {
		if len(c.types) != 1 || c.types[0] == "default" {
			fatalf("codecs.%s: unexpected case shape %v", name, c.types)
		}
		if len(c.body) != 1 {
			fatalf("codecs.%s: case %s is not a single return", name, c.types[0])
		}
		ret, ok := c.body[0].(*ast.ReturnStmt)
		if !ok || len(ret.Results) != 1 {
			fatalf("codecs.%s: case %s is not a single return", name, c.types[0])
		}
		un, ok := ret.Results[0].(*ast.UnaryExpr)
		if !ok || un.Op != token.AND {
			fatalf("codecs.%s: case %s does not return &T{…}", name, c.types[0])
		}
		cl, ok := un.X.(*ast.CompositeLit)
		if !ok {
			fatalf("codecs.%s: case %s does not return &T{…}", name, c.types[0])
		}
		out = append(out, [2]string{rbTrimType(c.types[0], inPrefix...), rbTrimType("*"+rbExpr(p.fset, cl.Type), outPrefix...)})
	}
	return out
}

func rbPairs(xs [][2]string) string {
	var q []string
	for _, x := range xs {
		q = append(q, fmt.Sprintf("(%q, %q)", x[0], x[1]))
	}
	return strings.Join(q, ", ")
}

func rbBoolPairs(names []string, m map[string]bool) string {
	var q []string
	for _, n := range names {
		q = append(q, fmt.Sprintf("(%q, %v)", n, m[n]))
	}
	return strings.Join(q, ", ")
}

// classification of the top-level statements of clientStreamProcessorFMP4.run
func rbClassifyRun(p *pkgSrc, fd *ast.FuncDecl) []string {
	var steps []string
	fset := p.fset
	for _, s := range fd.Body.List {
		txt := rbExpr(fset, s)
		if txt == "" {
			continue // a verif hook call site
		}
		switch st := s.(type) {
		case *ast.AssignStmt:
			switch {
			case txt == "err := p.init.Unmarshal(bytes.NewReader(p.initFile))":
				steps = append(steps, "unmarshalInit")
			case txt == "p.init.Tracks = supportedTracks":
				steps = append(steps, "assignSupported")
			case txt == "p.leadingTrackID = fmp4PickLeadingTrack(&p.init)":
				steps = append(steps, "pickLeading")
			case txt == "tracks := make([]*Track, len(p.init.Tracks))":
				steps = append(steps, "makeTracks")
			case txt == "p.clientStreamTracks, ok = p.streamDownloader.setTracks(p.ctx, tracks)":
				steps = append(steps, "setTracks")
			default:
				fatalf("clientStreamProcessorFMP4.run: unknown assignment %q", txt)
			}
		case *ast.DeclStmt:
			switch txt {
			case "var supportedTracks []*fmp4.InitTrack":
				steps = append(steps, "declSupported")
			case "var ok bool":
				steps = append(steps, "declOk")
			default:
				fatalf("clientStreamProcessorFMP4.run: unknown declaration %q", txt)
			}
		case *ast.IfStmt:
			cond := rbExpr(fset, st.Cond)
			ex := rbBlockExit(fset, st.Body)
			if st.Else != nil || st.Init != nil {
				fatalf("clientStreamProcessorFMP4.run: if with else/init: %q", txt)
			}
			switch {
			case cond == "err != nil" && ex == "return-error":
				steps = append(steps, "returnOnDecodeError")
			case cond == "!p.isLeading && len(p.init.Tracks) != 1" && ex == "return-error":
				steps = append(steps, "guardRenditionOneTrack")
			case cond == "len(supportedTracks) == 0" && ex == "return-error":
				steps = append(steps, "guardNoSupported")
			case cond == "len(tracks) > clientMaxTracksPerStream" && ex == "return-error":
				steps = append(steps, "guardMaxTracks")
			case cond == "!ok" && ex == "return-error":
				steps = append(steps, "returnOnTerminated")
			default:
				fatalf("clientStreamProcessorFMP4.run: unknown guard `if %s` (%s)", cond, ex)
			}
		case *ast.RangeStmt:
			if rbExpr(fset, st.X) != "p.init.Tracks" {
				fatalf("clientStreamProcessorFMP4.run: range over %s", rbExpr(fset, st.X))
			}
			body := st.Body.List
			switch {
			case len(body) == 1 && func() bool {
				is, ok := body[0].(*ast.IfStmt)
				return ok && rbExpr(fset, is.Cond) == "track.TimeScale == 0" && rbBlockExit(fset, is.Body) == "return-error"
			}():
				steps = append(steps, "guardZeroTimeScale")
			case len(body) == 1 && func() bool {
				is, ok := body[0].(*ast.IfStmt)
				return ok && rbExpr(fset, is.Cond) == "codecs.FromFMP4(track.Codec) != nil" && is.Else == nil && len(is.Body.List) == 1 &&
					rbExpr(fset, is.Body.List[0]) == "supportedTracks = append(supportedTracks, track)"
			}():
				steps = append(steps, "filterSupported")
			case len(body) == 1 && strings.HasPrefix(rbExpr(fset, body[0]), "tracks[i] = &Track{"):
				// the fields of the Track literal that the model mirrors
				lit := rbExpr(fset, body[0])
				for _, need := range []string{"Codec: codecs.FromFMP4(track.Codec)", "ClockRate: int(track.TimeScale)", "return p.rendition.Name", "return p.rendition.Language", "return p.rendition.Default"} {
					if !strings.Contains(lit, need) {
						fatalf("clientStreamProcessorFMP4.run: Track literal no longer contains %q", need)
					}
				}
				if strings.Count(lit, "if !p.isLeading {") != 3 {
					fatalf("clientStreamProcessorFMP4.run: rendition fields are no longer read under `if !p.isLeading` three times")
				}
				steps = append(steps, "buildTracks")
			default:
				fatalf("clientStreamProcessorFMP4.run: unknown loop over p.init.Tracks: %q", txt)
			}
		case *ast.ForStmt:
			if st.Init != nil || st.Cond != nil || st.Post != nil {
				fatalf("clientStreamProcessorFMP4.run: unexpected for loop")
			}
			inner := rbExpr(fset, st.Body)
			for _, need := range []string{"p.segmentQueue.pull(ctx)", "p.processSegment(ctx, seg)"} {
				if !strings.Contains(inner, need) {
					fatalf("clientStreamProcessorFMP4.run: segment loop without %s", need)
				}
			}
			steps = append(steps, "segmentLoop")
		default:
			fatalf("clientStreamProcessorFMP4.run: unknown statement %q", txt)
		}
	}
	return steps
}

func rbIndex(xs []string, x string) int {
	for i, y := range xs {
		if y == x {
			return i
		}
	}
	return -1
}

func rbBefore(xs []string, a, b string) bool {
	i, j := rbIndex(xs, a), rbIndex(xs, b)
	return i >= 0 && j >= 0 && i < j
}

func genRobust(r *repo) string {
	p := r.pkgs["."]
	cp := r.pkgs["pkg/codecs"]
	fset := p.fset
	var b strings.Builder
	b.WriteString("set_option linter.unusedVariables false\n\nnamespace Hls.Gen.Robust\n\n")

	// --- constants -------------------------------------------------------------------------------
	t := &tcTr{p: p, consts: p.consts(), callable: map[string]bool{}}
	for _, c := range []string{"clientMaxTracksPerStream", "clientMPEGTSSampleQueueSize", "clientLiveInitialDistance",
		"clientLiveMaxDistanceFromEnd", "clientMaxDTSRTCDiff"} {
		ci, ok := t.consts[c]
		if !ok {
			fatalf("constant %s not found", c)
		}
		v, ok := t.constVal(ci.expr)
		if !ok {
			fatalf("constant %s: not an integer constant expression", c)
		}
		fmt.Fprintf(&b, "def %s : Int := %d\n", c, v)
	}
	b.WriteString("\n")

	// --- mediacommon codec implementations --------------------------------------------------------
	mc := mediacommonDir(r)
	fnames, fvideo := rbCodecImpls(filepath.Join(mc, "pkg", "formats", "fmp4"), "fmp4.Codec")
	tnames, tvideo := rbCodecImpls(filepath.Join(mc, "pkg", "formats", "mpegts"), "mpegts.Codec")
	strip := func(xs []string) []string {
		var o []string
		for _, x := range xs {
			o = append(o, strings.TrimPrefix(x, "Codec"))
		}
		return o
	}
	stripM := func(m map[string]bool) map[string]bool {
		o := map[string]bool{}
		for k, v := range m {
			o[strings.TrimPrefix(k, "Codec")] = v
		}
		return o
	}
	fmt.Fprintf(&b, "/-- every type of mediacommon `formats/fmp4` implementing `fmp4.Codec` (name without the `Codec` prefix, `IsVideo()`) -/\n")
	fmt.Fprintf(&b, "def fmp4CodecTypes : List (String × Bool) := [%s]\n\n", rbBoolPairs(strip(fnames), stripM(fvideo)))
	fmt.Fprintf(&b, "/-- every type of mediacommon `formats/mpegts` implementing `mpegts.Codec` (name without the `Codec` prefix, `IsVideo()`) -/\n")
	fmt.Fprintf(&b, "def mpegtsCodecTypes : List (String × Bool) := [%s]\n\n", rbBoolPairs(strip(tnames), stripM(tvideo)))

	// --- pkg/codecs conversions -------------------------------------------------------------------
	fromF := rbFromTo(cp, "FromFMP4", []string{"*fmp4.Codec"}, []string{"*"})
	toF := rbFromTo(cp, "ToFMP4", []string{"*"}, []string{"*fmp4.Codec"})
	fromT := rbFromTo(cp, "FromMPEGTS", []string{"*mpegts.Codec"}, []string{"*"})
	toT := rbFromTo(cp, "ToMPEGTS", []string{"*"}, []string{"*mpegts.Codec"})
	fmt.Fprintf(&b, "/-- `codecs.FromFMP4`: (fmp4 codec kind, returned `codecs.*` type); every other kind returns nil -/\ndef fromFMP4Cases : List (String × String) := [%s]\n", rbPairs(fromF))
	fmt.Fprintf(&b, "/-- `codecs.ToFMP4` -/\ndef toFMP4Cases : List (String × String) := [%s]\n", rbPairs(toF))
	fmt.Fprintf(&b, "/-- `codecs.FromMPEGTS`: every other kind returns nil -/\ndef fromMPEGTSCases : List (String × String) := [%s]\n", rbPairs(fromT))
	fmt.Fprintf(&b, "/-- `codecs.ToMPEGTS` -/\ndef toMPEGTSCases : List (String × String) := [%s]\n\n", rbPairs(toT))

	// --- clientTrackProcessorFMP4.initialize --------------------------------------------------------
	{
		fd := p.mustFunc("clientTrackProcessorFMP4", "initialize")
		tags, cls := rbTypeSwitches(fset, fd)
		if len(tags) != 1 || tags[0] != "t.track.track.Codec.(type)" {
			fatalf("clientTrackProcessorFMP4.initialize: expected one type switch on t.track.track.Codec, found %v", tags)
		}
		var kinds []string
		var decoders [][2]string
		defaultErr := false
		for _, c := range cls[0] {
			if len(c.types) == 1 && c.types[0] == "default" {
				// a default clause is accepted only when it returns an error (then unknown codecs never reach `process`)
				if len(c.body) == 1 {
					if ret, ok := c.body[0].(*ast.ReturnStmt); ok && len(ret.Results) == 1 && strings.HasPrefix(rbExpr(fset, ret.Results[0]), "fmt.Errorf(") {
						defaultErr = true
						continue
					}
				}
				fatalf("clientTrackProcessorFMP4.initialize: default clause that does not return an error")
			}
			if len(c.body) != 1 || !strings.HasPrefix(rbExpr(fset, c.body[0]), "t.decodePayload = func(sample *fmp4.PartSample) ([][]byte, error) {") {
				fatalf("clientTrackProcessorFMP4.initialize: case %v does not assign t.decodePayload", c.types)
			}
			body := rbExpr(fset, c.body[0])
			dec := ""
			for _, d := range []string{"GetAV1", "GetH264", "GetH265"} {
				if strings.Contains(body, "return sample."+d+"()") {
					dec = d
				}
			}
			if dec == "" {
				if !strings.Contains(body, "return [][]byte{sample.Payload}, nil") {
					fatalf("clientTrackProcessorFMP4.initialize: case %v: unknown payload decoder: %s", c.types, body)
				}
				dec = "raw"
			}
			for _, ty := range c.types {
				kinds = append(kinds, rbTrimType(ty, "*codecs."))
				decoders = append(decoders, [2]string{rbTrimType(ty, "*codecs."), dec})
			}
		}
		fmt.Fprintf(&b, "/-- `codecs.*` kinds with a `t.decodePayload = …` case in `clientTrackProcessorFMP4.initialize` -/\ndef fmp4DecodePayloadCases : List String := [%s]\n", quoteList(kinds))
		fmt.Fprintf(&b, "/-- … and the mediacommon function each of them decodes a sample with (`raw`: the payload as is) -/\ndef fmp4DecoderOf : List (String × String) := [%s]\n", rbPairs(decoders))
		fmt.Fprintf(&b, "/-- the type switch of `initialize` has a `default:` that returns an error -/\ndef fmp4InitializeDefaultErrors : Bool := %v\n", defaultErr)
		// process: is the call of decodePayload protected by a nil test?
		pg := rbIfGuards(fset, p.mustFunc("clientTrackProcessorFMP4", "process"))
		_, nilChecked := pg["t.decodePayload == nil"]
		fmt.Fprintf(&b, "/-- `process` tests `t.decodePayload == nil` before calling it -/\ndef fmp4ProcessChecksNilDecoder : Bool := %v\n\n", nilChecked)
	}

	// --- clientStreamProcessorFMP4.run -----------------------------------------------------------------
	{
		fd := p.mustFunc("clientStreamProcessorFMP4", "run")
		steps := rbClassifyRun(p, fd)
		fmt.Fprintf(&b, "/-- top-level statements of `clientStreamProcessorFMP4.run`, classified, in source order -/\ndef fmp4RunSteps : List String := [%s]\n", quoteList(steps))
		for _, need := range []string{"unmarshalInit", "returnOnDecodeError", "pickLeading", "makeTracks", "buildTracks", "setTracks", "returnOnTerminated", "segmentLoop"} {
			if rbIndex(steps, need) < 0 {
				fatalf("clientStreamProcessorFMP4.run: step %s not found", need)
			}
		}
		if !(rbBefore(steps, "unmarshalInit", "returnOnDecodeError") && rbBefore(steps, "returnOnDecodeError", "pickLeading") &&
			rbBefore(steps, "pickLeading", "buildTracks") && rbBefore(steps, "buildTracks", "setTracks") && rbBefore(steps, "setTracks", "segmentLoop")) {
			fatalf("clientStreamProcessorFMP4.run: steps are in an order the model does not know: %v", steps)
		}
		zero := rbBefore(steps, "returnOnDecodeError", "guardZeroTimeScale") && rbBefore(steps, "guardZeroTimeScale", "setTracks")
		rend := rbBefore(steps, "returnOnDecodeError", "guardRenditionOneTrack") && rbBefore(steps, "guardRenditionOneTrack", "pickLeading")
		filt := rbBefore(steps, "declSupported", "filterSupported") && rbBefore(steps, "filterSupported", "guardNoSupported") &&
			rbBefore(steps, "guardNoSupported", "assignSupported") && rbBefore(steps, "assignSupported", "pickLeading")
		if !filt && (rbIndex(steps, "filterSupported") >= 0 || rbIndex(steps, "guardNoSupported") >= 0 || rbIndex(steps, "assignSupported") >= 0) {
			fatalf("clientStreamProcessorFMP4.run: partial / reordered unsupported-track filter: %v", steps)
		}
		// the rendition rule is applied to the unfiltered list iff it precedes the filter
		rendBeforeFilter := rend && (!filt || rbBefore(steps, "guardRenditionOneTrack", "filterSupported"))
		maxT := rbBefore(steps, "buildTracks", "guardMaxTracks") && rbBefore(steps, "guardMaxTracks", "setTracks")
		fmt.Fprintf(&b, "/-- `run` rejects an init track with `TimeScale == 0` before tracks are handed over (repair of F9) -/\ndef fmp4GuardZeroTimeScale : Bool := %v\n", zero)
		fmt.Fprintf(&b, "/-- `run` rejects rendition inits that do not have exactly one track -/\ndef fmp4GuardRenditionOneTrack : Bool := %v\n", rend)
		fmt.Fprintf(&b, "/-- … and does so on the unfiltered track list -/\ndef fmp4RenditionRuleBeforeFilter : Bool := %v\n", rendBeforeFilter)
		fmt.Fprintf(&b, "/-- `run` drops init tracks whose codec `FromFMP4` maps to nil and fails when none is left (repair of F8) -/\ndef fmp4FiltersUnsupported : Bool := %v\n", filt)
		fmt.Fprintf(&b, "/-- `run` rejects more than `clientMaxTracksPerStream` tracks -/\ndef fmp4GuardMaxTracks : Bool := %v\n\n", maxT)

		// fmp4PickLeadingTrack: loop over IsVideo then Tracks[0]
		pl := p.mustFunc("", "fmp4PickLeadingTrack")
		txt := rbExpr(fset, pl.Body)
		if !strings.Contains(txt, "if track.Codec.IsVideo() { return track.ID }") || !strings.Contains(txt, "return init.Tracks[0].ID") {
			fatalf("fmp4PickLeadingTrack: unexpected shape: %s", txt)
		}
	}

	// --- clientStreamProcessorFMP4.processSegment / initializeTrackProcessors ------------------------------
	{
		ps := p.mustFunc("clientStreamProcessorFMP4", "processSegment")
		g := rbIfGuards(fset, ps)
		lead := g["leadingPartTrack == nil"] == "return-error"
		dec := g["err != nil"] == "return-error"
		unk := g["!ok"] == "continue"
		txt := rbExpr(fset, ps.Body)
		perSeg := strings.Contains(txt, "p.chPartTrackProcessed = make(chan struct{}, partTrackCount)") &&
			strings.Contains(txt, "if _, ok := p.trackProcessors[partTrack.ID]; ok { partTrackCount++ }") &&
			strings.Contains(txt, "return p.joinTrackProcessors(ctx, partTrackCount)")
		lazyInit := strings.Contains(txt, "if p.trackProcessors == nil { err := p.initializeTrackProcessors(ctx, leadingPartTrack)")
		if !lazyInit {
			fatalf("clientStreamProcessorFMP4.processSegment: track processors are no longer created lazily under `p.trackProcessors == nil`")
		}
		ini := p.mustFunc("clientStreamProcessorFMP4", "initialize")
		capTxt := rbExpr(fset, ini.Body)
		if !strings.Contains(capTxt, "p.chPartTrackProcessed = make(chan struct{}, clientMaxTracksPerStream)") {
			fatalf("clientStreamProcessorFMP4.initialize: completion channel capacity is no longer clientMaxTracksPerStream: %s", capTxt)
		}
		// repair of F15: inside `if leadingPartTrack == nil { … }`, before the error, a segment without any sample is skipped —
		// for every stream (`if partsAreEmpty(parts)`) or for renditions only (`if !p.isLeading && partsAreEmpty(parts)`)
		// … and, refined, only when the body has at least one fragment (`len(parts) != 0 && …`): a body without any `moof`
		// (an empty 200 answer) stays the fatal error
		skipFrag := g["len(parts) != 0 && partsAreEmpty(parts)"] == "return-nil"
		skipAll := g["partsAreEmpty(parts)"] == "return-nil" || skipFrag
		skipRend := g["!p.isLeading && partsAreEmpty(parts)"] == "return-nil"
		if skipAll || skipRend {
			if !strings.Contains(txt, "if leadingPartTrack == nil { if ") || !strings.Contains(txt, "partsAreEmpty(parts) { return nil } return fmt.Errorf(") {
				fatalf("clientStreamProcessorFMP4.processSegment: the empty-segment skip is not the first statement under `leadingPartTrack == nil`")
			}
			pe := p.funcDecl("", "partsAreEmpty")
			want := "{ for _, part := range parts { for _, partTrack := range part.Tracks { if len(partTrack.Samples) != 0 { return false } } } return true }"
			if pe == nil || rbExpr(fset, pe.Body) != want {
				fatalf("partsAreEmpty: missing or not `no part-track has a sample`")
			}
		}
		fmt.Fprintf(&b, "/-- `processSegment` returns an error when no part-track of the leading track is found -/\ndef fmp4GuardNoLeadingData : Bool := %v\n", lead)
		fmt.Fprintf(&b, "/-- … except that a segment / part in which no part-track has a sample is skipped (repair of F15) -/\ndef fmp4SkipsEmptySegments : Bool := %v\n", skipAll || skipRend)
		fmt.Fprintf(&b, "/-- … also on the leading stream (false: renditions only) -/\ndef fmp4SkipsEmptyLeadingToo : Bool := %v\n", skipAll)
		fmt.Fprintf(&b, "/-- … and only when the body has at least one fragment (`len(parts) != 0 &&`): no `moof` at all stays an error -/\ndef fmp4SkipNeedsFragment : Bool := %v\n", skipFrag)
		// … and then a leading stream that reaches its end without ever having created its track processors (= the time
		// origin the other streams wait for) must end with an error instead of `setEnded()`
		endGuard := g["p.isLeading && p.trackProcessors == nil"] == "return-error" &&
			strings.Contains(txt, "if seg == nil { if p.isLeading && p.trackProcessors == nil { return fmt.Errorf(")
		fmt.Fprintf(&b, "/-- at the end of the stream (`seg == nil`) a leading stream without track processors returns an error -/\ndef fmp4LeadingEndNeedsOrigin : Bool := %v\n", endGuard)
		fmt.Fprintf(&b, "/-- `processSegment` returns the error of `parts.Unmarshal` -/\ndef fmp4ReturnsPartsDecodeError : Bool := %v\n", dec)
		fmt.Fprintf(&b, "/-- part-tracks with an id that has no processor are skipped (`if !ok { continue }`) -/\ndef fmp4SkipsUnknownPartTracks : Bool := %v\n", unk)
		fmt.Fprintf(&b, "/-- the completion channel is re-made per segment with one slot per part-track (repair of F17); otherwise its capacity is clientMaxTracksPerStream -/\ndef fmp4CompletionChanPerSegment : Bool := %v\n", perSeg)

		it := p.mustFunc("clientStreamProcessorFMP4", "initializeTrackProcessors")
		itxt := rbExpr(fset, it.Body)
		chk := strings.Contains(itxt, "_, ok = p.client.getLeadingTimeConv().(*clientTimeConvFMP4) if !ok { return fmt.Errorf(")
		idx := strings.Contains(itxt, "for i, track := range p.clientStreamTracks {") && strings.Contains(itxt, "p.trackProcessors[p.init.Tracks[i].ID] = trackProc")
		if !idx {
			fatalf("clientStreamProcessorFMP4.initializeTrackProcessors: processors are no longer keyed by p.init.Tracks[i].ID over p.clientStreamTracks")
		}
		fmt.Fprintf(&b, "/-- a non-leading fMP4 stream checks (comma-ok) that the leading time converter is the fMP4 one -/\ndef fmp4ChecksConvKind : Bool := %v\n", chk)
		lc := p.mustFunc("", "leadingTimeConvFMP4")
		if rbExpr(fset, lc.Body) != "{ return client.getLeadingTimeConv().(*clientTimeConvFMP4) }" {
			fatalf("leadingTimeConvFMP4: unexpected body %s", rbExpr(fset, lc.Body))
		}
		b.WriteString("\n")
	}

	// --- MPEG-TS ---------------------------------------------------------------------------------------------
	{
		fd := p.mustFunc("clientStreamProcessorMPEGTS", "initializeReader")
		tags, cls := rbTypeSwitches(fset, fd)
		if len(tags) != 2 || tags[0] != "track.Codec.(type)" || tags[1] != "track.track.Codec.(type)" {
			fatalf("clientStreamProcessorMPEGTS.initializeReader: expected the two type switches (supported kinds, OnData registration), found %v", tags)
		}
		var sup []string
		for _, c := range cls[0] {
			if len(c.body) != 1 || rbExpr(fset, c.body[0]) != "supportedTracks = append(supportedTracks, track)" {
				fatalf("initializeReader: first type switch: unexpected clause %v", c.types)
			}
			for _, ty := range c.types {
				sup = append(sup, rbTrimType(ty, "*mpegts.Codec"))
			}
		}
		var reg [][2]string
		for _, c := range cls[1] {
			if len(c.types) != 1 || c.types[0] == "default" || len(c.body) != 1 {
				fatalf("initializeReader: second type switch: unexpected clause %v", c.types)
			}
			call := rbExpr(fset, c.body[0])
			if !strings.HasPrefix(call, "p.reader.OnData") || !strings.Contains(call, "return processSample(") {
				fatalf("initializeReader: clause %v does not register a reader call-back that calls processSample", c.types)
			}
			fn := call[len("p.reader."):strings.Index(call, "(")]
			reg = append(reg, [2]string{rbTrimType(c.types[0], "*codecs."), fn})
		}
		g := rbIfGuards(fset, fd)
		fmt.Fprintf(&b, "/-- `mpegts.Codec*` kinds that `initializeReader` keeps (first type switch) -/\ndef mpegtsSupportedKinds : List String := [%s]\n", quoteList(sup))
		fmt.Fprintf(&b, "/-- `codecs.*` kinds for which `initializeReader` registers a reader call-back (second type switch) -/\ndef mpegtsOnDataCases : List (String × String) := [%s]\n", rbPairs(reg))
		fmt.Fprintf(&b, "def mpegtsGuardNoSupported : Bool := %v\n", g["len(supportedTracks) == 0"] == "return-error")
		fmt.Fprintf(&b, "def mpegtsGuardMaxTracks : Bool := %v\n", g["len(tracks) > clientMaxTracksPerStream"] == "return-error")
		fmt.Fprintf(&b, "/-- `processSample`: `if trackProc == nil { return nil }` after the map lookup -/\ndef mpegtsGuardProcNil : Bool := %v\n", g["trackProc == nil"] == "return-nil" || strings.Contains(rbExpr(fset, fd.Body), "if trackProc == nil { trackProc = p.trackProcessors[track.track] if trackProc == nil { return nil } }"))
		txt := rbExpr(fset, fd.Body)
		for _, need := range []string{
			"for i, mpegtsTrack := range supportedTracks { track := p.clientStreamTracks[i]",
			"leadingTrackID := mpegtsPickLeadingTrack(supportedTracks)",
			"Codec: codecs.FromMPEGTS(mpegtsTrack.Codec)",
			"if isLeadingTrack { p.leadingTrackFound = true if p.trackProcessors == nil { err := p.initializeTrackProcessors(ctx, rawDTS)",
		} {
			if !strings.Contains(txt, need) {
				fatalf("initializeReader: shape changed, missing %q", need)
			}
		}
		pl := p.mustFunc("", "mpegtsPickLeadingTrack")
		ptxt := rbExpr(fset, pl.Body)
		lk := ""
		for _, k := range tnames {
			if strings.Contains(ptxt, "if _, ok := track.Codec.(*mpegts."+k+"); ok { return i }") {
				lk = strings.TrimPrefix(k, "Codec")
			}
		}
		if lk == "" || !strings.HasSuffix(ptxt, "return 0 }") {
			fatalf("mpegtsPickLeadingTrack: unexpected shape: %s", ptxt)
		}
		fmt.Fprintf(&b, "/-- kind `mpegtsPickLeadingTrack` looks for (else index 0) -/\ndef mpegtsLeadingKind : String := %q\n", lk)

		ps := p.mustFunc("clientStreamProcessorMPEGTS", "processSegment")
		pg := rbIfGuards(fset, ps)
		fmt.Fprintf(&b, "def mpegtsGuardNoLeadingData : Bool := %v\n", pg["!p.leadingTrackFound"] == "return-error")
		it := p.mustFunc("clientStreamProcessorMPEGTS", "initializeTrackProcessors")
		itxt := rbExpr(fset, it.Body)
		chk := strings.Contains(itxt, "_, ok = p.client.getLeadingTimeConv().(*clientTimeConvMPEGTS) if !ok { return fmt.Errorf(")
		fmt.Fprintf(&b, "/-- a non-leading MPEG-TS stream checks (comma-ok) that the leading time converter is the MPEG-TS one -/\ndef mpegtsChecksConvKind : Bool := %v\n", chk)
		lc := p.mustFunc("", "leadingTimeConvMPEGTS")
		if rbExpr(fset, lc.Body) != "{ return client.getLeadingTimeConv().(*clientTimeConvMPEGTS) }" {
			fatalf("leadingTimeConvMPEGTS: unexpected body")
		}
		ini := p.mustFunc("clientStreamProcessorMPEGTS", "initialize")
		if !strings.Contains(rbExpr(fset, ini.Body), "p.chTrackProcessorDone = make(chan struct{}, clientMaxTracksPerStream)") {
			fatalf("clientStreamProcessorMPEGTS.initialize: completion channel capacity changed")
		}
		b.WriteString("\n")
	}

	// --- clientTrack.handleData -------------------------------------------------------------------------------
	{
		g := rbIfGuards(fset, p.mustFunc("clientTrack", "handleData"))
		fmt.Fprintf(&b, "def handleDataDropsNegativePTS : Bool := %v\n", g["pts < 0"] == "return-nil")
		fmt.Fprintf(&b, "def handleDataCapsDTSRTCDiff : Bool := %v\n\n", g["diff > clientMaxDTSRTCDiff"] == "return-error")
	}

	// --- download loops -------------------------------------------------------------------------------------
	{
		type gd struct{ recv, fn, cond, exit, name string }
		guards := []gd{
			{"", "findSegmentWithInvPosition", "index < 0", "return-value", "invPosNegative"},
			{"", "findSegmentWithID", "index < 0 || index >= len(segments)", "return-value", "idOutOfRange"},
			{"", "dateTimeOfPreloadHint", "len(pl.Segments) == 0", "return-nil", "hintNoSegments"},
			{"", "dateTimeOfPreloadHint", "lastSeg.DateTime == nil", "return-nil", "hintNoDateTime"},
			{"clientStreamDownloader", "fillSegmentQueue", "len(pl.Segments) == 0", "return-error", "vodNoSegments"},
			{"clientStreamDownloader", "fillSegmentQueue", "seg == nil", "return-error", "segNil"},
			{"clientStreamDownloader", "fillSegmentQueue", "!pl.Endlist && invPos > clientLiveMaxDistanceFromEnd", "return-error", "tooLate"},
			{"clientStreamDownloader", "runLowLatency", "pl.PreloadHint == nil", "return-error", "hintDisappeared"},
			{"clientStreamDownloader", "downloadPlaylist", "!ok", "return-error", "streamPlaylistIsMedia"},
			{"clientPrimaryDownloader", "run", "leadingPlaylist == nil", "return-error", "noVariant"},
			{"clientPrimaryDownloader", "run", "audioPlaylists == nil", "return-error", "noGroup"},
			{"clientPrimaryDownloader", "run", "pl.URI == nil", "continue", "renditionWithoutURI"},
			{"clientPrimaryDownloader", "run", "len(tracks) == 0", "return-error", "noTracks"},
		}
		b.WriteString("/-- index / nil guards of the download loops: (name, present in the source) -/\ndef downloaderGuards : List (String × Bool) := [\n")
		for i, g := range guards {
			fd := p.mustFunc(g.recv, g.fn)
			ex, ok := rbIfGuards(fset, fd)[g.cond]
			if g.exit == "return-value" {
				ok = ok && strings.HasPrefix(ex, "return")
			} else {
				ok = ok && ex == g.exit
			}
			sep := ","
			if i == len(guards)-1 {
				sep = ""
			}
			fmt.Fprintf(&b, "  (%q, %v)%s\n", g.name, ok, sep)
		}
		b.WriteString("]\n")
		run := p.mustFunc("clientStreamDownloader", "run")
		rtxt := rbExpr(fset, run.Body)
		ll := strings.Contains(rtxt, "if d.firstPlaylist.ServerControl != nil && d.firstPlaylist.ServerControl.CanBlockReload && d.firstPlaylist.PreloadHint != nil { return d.runLowLatency(ctx) }")
		mp := strings.Contains(rtxt, "if d.firstPlaylist.Map != nil && d.firstPlaylist.Map.URI != \"\" {")
		fmt.Fprintf(&b, "/-- `run` enters the low-latency loop only under `ServerControl != nil && CanBlockReload && PreloadHint != nil` -/\ndef llEntryChecksNil : Bool := %v\n", ll)
		fmt.Fprintf(&b, "/-- `run` selects the fMP4 processor under `Map != nil && Map.URI != \"\"` -/\ndef mapTestChecksNil : Bool := %v\n", mp)
		// every iteration of the two loops starts with a download
		rt := rbExpr(fset, p.mustFunc("clientStreamDownloader", "runTraditional").Body)
		rtOK := strings.Contains(rt, "for { err := d.fillSegmentQueue(ctx, pl) if err != nil { return err } ok := d.segmentQueue.waitUntilSizeIsBelow(ctx, 1) if !ok { return fmt.Errorf(\"terminated\") } pl, err = d.downloadPlaylist(ctx, false) if err != nil { return err } }")
		rl := rbExpr(fset, p.mustFunc("clientStreamDownloader", "runLowLatency").Body)
		rlOK := strings.Contains(rl, "for { byts, err := d.downloadPreloadHint(ctx, pl.PreloadHint) if err != nil { return err }") &&
			strings.Contains(rl, "pl, err = d.downloadPlaylist(ctx, d.firstPlaylist.ServerControl.CanSkipUntil != nil) if err != nil { return err }")
		fmt.Fprintf(&b, "/-- `runTraditional` = for { fillSegmentQueue; waitUntilSizeIsBelow(1); downloadPlaylist } with every error returned -/\ndef traditionalLoopShape : Bool := %v\n", rtOK)
		fmt.Fprintf(&b, "/-- `runLowLatency` = for { downloadPreloadHint; push; downloadPlaylist; hint test } with every error returned -/\ndef lowLatencyLoopShape : Bool := %v\n", rlOK)
		// fix-F28: a reloaded playlist without hint that carries ENDLIST ends the stream (nil marker, wait for Close)
		rlEnd := strings.Contains(rl, "if pl.PreloadHint == nil { if pl.Endlist { d.segmentQueue.push(nil) <-ctx.Done() return fmt.Errorf(\"terminated\") } return fmt.Errorf(\"preload hint disappeared\") }")
		fmt.Fprintf(&b, "/-- `runLowLatency`: `if pl.PreloadHint == nil { if pl.Endlist { push(nil); <-ctx.Done(); return }; return error }` (fix-F28) -/\ndef lowLatencyEndsOnEndlist : Bool := %v\n\n", rlEnd)
	}

	// --- pins of the functions the model mirrors beyond the classified facts -------------------------------------
	type pin struct{ recv, name string }
	pinList := []pin{
		{"", "fmp4PickLeadingTrack"},
		{"", "findFirstPartTrackOfLeadingTrack"},
		{"", "findTimeScaleOfLeadingTrack"},
		{"clientStreamProcessorFMP4", "processSegment"},
		{"clientStreamProcessorFMP4", "joinTrackProcessors"},
		{"clientStreamProcessorFMP4", "onPartTrackProcessed"},
		{"clientStreamProcessorFMP4", "initializeTrackProcessors"},
		{"clientTrackProcessorFMP4", "process"},
		{"clientTrackProcessorFMP4", "run"},
		{"clientTrackProcessorFMP4", "push"},
		{"", "mpegtsPickLeadingTrack"},
		{"clientStreamProcessorMPEGTS", "run"},
		{"clientStreamProcessorMPEGTS", "processSegment"},
		{"clientStreamProcessorMPEGTS", "joinTrackProcessors"},
		{"clientStreamProcessorMPEGTS", "initializeReader"},
		{"clientStreamProcessorMPEGTS", "initializeTrackProcessors"},
		{"clientTrackProcessorMPEGTS", "process"},
		{"clientTrack", "handleData"},
		{"", "findSegmentWithInvPosition"},
		{"", "findSegmentWithID"},
		{"", "dateTimeOfPreloadHint"},
		{"clientStreamDownloader", "run"},
		{"clientStreamDownloader", "runLowLatency"},
		{"clientStreamDownloader", "runTraditional"},
		{"clientStreamDownloader", "downloadPlaylist"},
		{"clientStreamDownloader", "fillSegmentQueue"},
		{"clientStreamDownloader", "setTracks"},
		{"clientStreamDownloader", "setEnded"},
		{"", "downloadPlaylist"},
		{"", "pickLeadingPlaylist"},
		{"", "getRenditionsByGroup"},
		{"clientPrimaryDownloader", "run"},
		{"Client", "setTracks"},
		{"Client", "setLeadingTimeConv"},
		{"Client", "runInner"},
	}
	b.WriteString("/-- SHA-256 prefixes of the comment-free, white-space-normalised source of the functions whose control flow\n    `Hls.Robust.Model` mirrors (the classified facts above cover the guards; the pins cover everything else). -/\n")
	b.WriteString("def pins : List (String × String) := [\n")
	var txts []string
	if p.funcDecl("", "partsAreEmpty") != nil {
		pinList = append(pinList, pin{"", "partsAreEmpty"}) // exists only with the repair of F15
	}
	for i, pn := range pinList {
		fd := p.mustFunc(pn.recv, pn.name)
		h, txt := rbPin(fset, funcNoDoc(fd))
		nm := pn.name
		if pn.recv != "" {
			nm = pn.recv + "." + pn.name
		}
		sep := ","
		if i == len(pinList)-1 {
			sep = ""
		}
		fmt.Fprintf(&b, "  (%q, %q)%s\n", nm, h, sep)
		txts = append(txts, "-- "+nm+": "+txt)
	}
	b.WriteString("]\n\nend Hls.Gen.Robust\n\n")
	b.WriteString("/- normalised sources behind the pins:\n")
	for _, s := range txts {
		b.WriteString(strings.ReplaceAll(s, "-/", "- /") + "\n")
	}
	b.WriteString("-/\n")
	return b.String()
}
