package main

import (
	"bytes"
	"crypto/sha256"
	"encoding/hex"
	"fmt"
	"go/ast"
	"go/parser"
	"go/printer"
	"go/token"
	"os"
	"os/exec"
	"path/filepath"
	"regexp"
	"strconv"
	"strings"
)

// Gen/TimeConv.lean (property C10, candidates F8/F9 of C13): the integer
// arithmetic of the client's time conversion, regenerated from
//
//	client_time_conv_fmp4.go   convert, getNTP (argument of ntpValue.Add), setNTP (field map)
//	client_time_conv_mpegts.go getNTP (argument of ntpValue.Add), convert/initialize (pinned shape)
//	client_track_processor_fmp4.go  process: pts, per-sample NTP offset, dts accumulation
//	client_track.go            handleData: discard condition, DTS duration (pacing input)
//	mediacommon .../mpegts/time_decoder.go  TimeDecoder.Decode (state-passing translation)
//
// plus SHA-256 pins of the control-flow heavy functions the hand-written model
// mirrors (processSample closure, processSegment, initializeTrackProcessors ...):
// a pin that changes means "the model was written for other code" and the
// check reports the broken tie (DESIGN §5).
//
// Helper code below is adapted from translate.go (selector flattening, `&` with
// a 2^k-1 mask, state-passing if/else); translate.go itself is not modified.

func init() { registerGen("TimeConv.lean", genTimeConv) }

// ---------------------------------------------------------------------------------------------
// expression translator with selector flattening

type tcTr struct {
	p      *pkgSrc
	consts map[string]constInfo
	where  string
	// allowed free variables (flattened names); anything else aborts
	allowed map[string]bool
	// callable translated functions (from Gen/Arith)
	callable map[string]bool
	used []string
	// `b ≠ 0` conditions of every division executed by the translated expression (Go panics otherwise)
	divs []string
}

func (t *tcTr) fail(n ast.Node, msg string) {
	fatalf("%s: %s: outside the translatable subset: %s", t.where, t.p.fset.Position(n.Pos()), msg)
}

func flatten(e ast.Expr) (string, bool) {
	switch x := e.(type) {
	case *ast.Ident:
		return x.Name, true
	case *ast.SelectorExpr:
		a, ok := flatten(x.X)
		if !ok {
			return "", false
		}
		return a + "_" + x.Sel.Name, true
	}
	return "", false
}

func (t *tcTr) use(name string, n ast.Node) string {
	if t.allowed != nil && !t.allowed[name] {
		t.fail(n, "variable "+name+" is not one the model passes to this function")
	}
	for _, u := range t.used {
		if u == name {
			return leanIdent(name)
		}
	}
	t.used = append(t.used, name)
	return leanIdent(name)
}

// constant folding of integer constant expressions (literals, named constants, + - * / and time units)
func (t *tcTr) constVal(e ast.Expr) (int64, bool) {
	switch x := e.(type) {
	case *ast.ParenExpr:
		return t.constVal(x.X)
	case *ast.BasicLit:
		if x.Kind == token.INT {
			v, err := strconv.ParseInt(x.Value, 0, 64)
			return v, err == nil
		}
	case *ast.Ident:
		if ci, ok := t.consts[x.Name]; ok && ci.expr != nil {
			return t.constVal(ci.expr)
		}
	case *ast.SelectorExpr:
		if id, ok := x.X.(*ast.Ident); ok && id.Name == "time" {
			if v, ok := timeUnits[x.Sel.Name]; ok {
				return v, true
			}
		}
	case *ast.BinaryExpr:
		a, ok1 := t.constVal(x.X)
		b, ok2 := t.constVal(x.Y)
		if !ok1 || !ok2 {
			return 0, false
		}
		switch x.Op {
		case token.ADD:
			return a + b, true
		case token.SUB:
			return a - b, true
		case token.MUL:
			return a * b, true
		case token.QUO:
			if b != 0 {
				return a / b, true
			}
		}
	}
	return 0, false
}

func (t *tcTr) expr(e ast.Expr) string {
	if v, ok := t.constVal(e); ok {
		return fmt.Sprintf("(%d : Int)", v)
	}
	switch x := e.(type) {
	case *ast.ParenExpr:
		return "(" + t.expr(x.X) + ")"
	case *ast.Ident:
		if x.Name == "true" || x.Name == "false" {
			return x.Name
		}
		return t.use(x.Name, e)
	case *ast.SelectorExpr:
		if n, ok := flatten(x); ok {
			return t.use(n, e)
		}
		t.fail(e, "selector")
	case *ast.UnaryExpr:
		switch x.Op {
		case token.SUB:
			return "(-" + t.expr(x.X) + ")"
		case token.NOT:
			return "(!" + t.expr(x.X) + ")"
		}
		t.fail(e, "unary "+x.Op.String())
	case *ast.BinaryExpr:
		if x.Op == token.AND {
			// x & (2^k - 1) on a two's-complement integer is the Euclidean remainder mod 2^k
			m, ok := t.constVal(x.Y)
			if !ok || m <= 0 || (m+1)&m != 0 {
				t.fail(e, "& with a right operand that is not a constant 2^k-1 mask")
			}
			return fmt.Sprintf("(Int.emod %s (%d : Int))", t.expr(x.X), m+1)
		}
		a, b := t.expr(x.X), t.expr(x.Y)
		switch x.Op {
		case token.ADD:
			return "(" + a + " + " + b + ")"
		case token.SUB:
			return "(" + a + " - " + b + ")"
		case token.MUL:
			return "(" + a + " * " + b + ")"
		case token.QUO:
			t.divs = append(t.divs, "(decide ("+b+" ≠ 0))")
			return "(Int.tdiv " + a + " " + b + ")"
		case token.REM:
			t.divs = append(t.divs, "(decide ("+b+" ≠ 0))")
			return "(Int.tmod " + a + " " + b + ")"
		case token.LSS:
			return "(decide (" + a + " < " + b + "))"
		case token.LEQ:
			return "(decide (" + a + " ≤ " + b + "))"
		case token.GTR:
			return "(decide (" + a + " > " + b + "))"
		case token.GEQ:
			return "(decide (" + a + " ≥ " + b + "))"
		case token.EQL:
			return "(decide (" + a + " = " + b + "))"
		case token.NEQ:
			return "(decide (" + a + " ≠ " + b + "))"
		case token.LAND:
			return "(" + a + " && " + b + ")"
		case token.LOR:
			return "(" + a + " || " + b + ")"
		}
		t.fail(e, "binary "+x.Op.String())
	case *ast.CallExpr:
		switch f := x.Fun.(type) {
		case *ast.Ident:
			switch f.Name {
			case "int64", "int", "uint64", "int32", "uint32":
				if len(x.Args) == 1 {
					return t.expr(x.Args[0])
				}
			}
			if t.callable[f.Name] {
				var as []string
				for _, a := range x.Args {
					as = append(as, t.expr(a))
				}
				t.divs = append(t.divs, "("+leanIdent(f.Name)+"_defined "+strings.Join(as, " ")+")")
				return "(Hls.Gen." + leanIdent(f.Name) + " " + strings.Join(as, " ") + ")"
			}
		case *ast.SelectorExpr:
			if id, ok := f.X.(*ast.Ident); ok && id.Name == "time" && f.Sel.Name == "Duration" && len(x.Args) == 1 {
				return t.expr(x.Args[0])
			}
		}
		t.fail(e, "call")
	}
	t.fail(e, fmt.Sprintf("expression %T", e))
	return ""
}

// exprDef renders `def name (params…) : ty := <expr>`; params is the fixed signature the model
// uses, every free variable of the expression must be one of them.
func (t *tcTr) exprDef(name string, params []string, boolParams map[string]bool, ty string, e ast.Expr, doc string) string {
	t.where = name
	t.allowed = map[string]bool{}
	for _, p := range params {
		t.allowed[p] = true
	}
	t.used = nil
	t.divs = nil
	body := t.expr(e)
	var ps []string
	for _, p := range params {
		pt := "Int"
		if boolParams[p] {
			pt = "Bool"
		}
		ps = append(ps, "("+leanIdent(p)+" : "+pt+")")
	}
	def := "true"
	if len(t.divs) > 0 {
		def = strings.Join(t.divs, " && ")
	}
	return fmt.Sprintf("/-- %s -/\ndef %s %s : %s :=\n  %s\n\n", doc, name, strings.Join(ps, " "), ty, body) +
		fmt.Sprintf("/-- every divisor met while Go evaluates `%s` is non-zero (otherwise: run-time panic, integer divide by zero) -/\ndef %s_defined %s : Bool :=\n  %s\n\n", name, name, strings.Join(ps, " "), def)
}

// arithDefined renders `<f>_defined` for a straight-line function of muxer_segmenter.go: the conjunction of
// `divisor ≠ 0` over every `/`, `%` and translated callee in its body; divisors may mention parameters only.
func (t *tcTr) arithDefined(fd *ast.FuncDecl) string {
	t.where = fd.Name.Name + "_defined"
	t.allowed = map[string]bool{}
	var ps []string
	for _, f := range fd.Type.Params.List {
		for _, n := range f.Names {
			t.allowed[n.Name] = true
			ps = append(ps, "("+leanIdent(n.Name)+" : Int)")
		}
	}
	var conds []string
	ast.Inspect(fd.Body, func(n ast.Node) bool {
		switch x := n.(type) {
		case *ast.BinaryExpr:
			if x.Op == token.QUO || x.Op == token.REM {
				t.divs = nil
				d := t.expr(x.Y)
				conds = append(conds, "(decide ("+d+" ≠ 0))")
				conds = append(conds, t.divs...)
			}
		case *ast.AssignStmt:
			if x.Tok == token.QUO_ASSIGN || x.Tok == token.REM_ASSIGN {
				t.fail(x, "compound division")
			}
		case *ast.CallExpr:
			if id, ok := x.Fun.(*ast.Ident); ok && t.callable[id.Name] {
				var as []string
				for _, a := range x.Args {
					t.divs = nil
					as = append(as, t.expr(a))
				}
				conds = append(conds, "("+leanIdent(id.Name)+"_defined "+strings.Join(as, " ")+")")
				return false
			}
		}
		return true
	})
	def := "true"
	if len(conds) > 0 {
		def = strings.Join(conds, " && ")
	}
	return fmt.Sprintf("/-- `%s` executes no division by zero -/\ndef %s_defined %s : Bool :=\n  %s\n\n", fd.Name.Name, leanIdent(fd.Name.Name), strings.Join(ps, " "), def)
}

// ---------------------------------------------------------------------------------------------
// state-passing translation of a method body with if / if-else and assignments to receiver fields:
//   stmts ; rest  where `if c {A} else {B}`  becomes  if c then ⟦A;rest⟧ else ⟦B;rest⟧
// `return e` becomes the tuple (e, <state fields…>).

func (t *tcTr) stateBlock(stmts []ast.Stmt, state []string, indent string) string {
	if len(stmts) == 0 {
		fatalf("%s: control reaches the end of the function without return", t.where)
	}
	s, rest := stmts[0], stmts[1:]
	switch x := s.(type) {
	case *ast.ReturnStmt:
		if len(x.Results) != 1 {
			t.fail(s, "return arity")
		}
		parts := []string{t.expr(x.Results[0])}
		for _, f := range state {
			parts = append(parts, leanIdent(f))
		}
		return indent + "(" + strings.Join(parts, ", ") + ")"
	case *ast.AssignStmt:
		if len(x.Lhs) != 1 || len(x.Rhs) != 1 {
			t.fail(s, "multi-assign")
		}
		name, ok := flatten(x.Lhs[0])
		if !ok {
			t.fail(s, "assign target")
		}
		r := t.expr(x.Rhs[0])
		n := leanIdent(name)
		var val string
		switch x.Tok {
		case token.DEFINE:
			// a new local: allowed to be used afterwards
			t.allowed[name] = true
			val = r
		case token.ASSIGN:
			val = r
			t.use(name, s)
		case token.ADD_ASSIGN:
			val = "(" + t.use(name, s) + " + " + r + ")"
		case token.SUB_ASSIGN:
			val = "(" + t.use(name, s) + " - " + r + ")"
		default:
			t.fail(s, "assign op "+x.Tok.String())
		}
		return indent + "let " + n + " := " + val + "\n" + t.stateBlock(rest, state, indent)
	case *ast.IfStmt:
		if x.Init != nil {
			t.fail(s, "if with init")
		}
		cond := t.expr(x.Cond)
		thenB := append(append([]ast.Stmt{}, x.Body.List...), rest...)
		var elseB []ast.Stmt
		switch e := x.Else.(type) {
		case nil:
			elseB = rest
		case *ast.BlockStmt:
			elseB = append(append([]ast.Stmt{}, e.List...), rest...)
		default:
			t.fail(s, "else-if chain")
		}
		// locals defined inside one branch must not leak: snapshot `allowed`
		snap := map[string]bool{}
		for k, v := range t.allowed {
			snap[k] = v
		}
		a := t.stateBlock(thenB, state, indent+"  ")
		t.allowed = map[string]bool{}
		for k, v := range snap {
			t.allowed[k] = v
		}
		b := t.stateBlock(elseB, state, indent+"  ")
		t.allowed = snap
		return indent + "if " + cond + " then\n" + a + "\n" + indent + "else\n" + b
	}
	t.fail(s, fmt.Sprintf("statement %T", s))
	return ""
}

// ---------------------------------------------------------------------------------------------
// source pins

var wsRe = regexp.MustCompile(`\s+`)

// pinOf renders a node without comments, collapses white space, returns (sha256 hex, text).
func pinOf(fset *token.FileSet, n ast.Node) (string, string) {
	var buf bytes.Buffer
	cfg := printer.Config{Mode: printer.RawFormat}
	if err := cfg.Fprint(&buf, fset, n); err != nil {
		fatalf("print: %v", err)
	}
	// strip // comments that the printer may keep inside bodies
	var lines []string
	for _, l := range strings.Split(buf.String(), "\n") {
		if i := strings.Index(l, "//"); i >= 0 {
			l = l[:i]
		}
		lines = append(lines, l)
	}
	txt := strings.TrimSpace(wsRe.ReplaceAllString(strings.Join(lines, " "), " "))
	h := sha256.Sum256([]byte(txt))
	return hex.EncodeToString(h[:8]), txt
}

// stripComments returns a copy of the function declaration without doc (bodies carry no comment nodes in go/ast).
func funcNoDoc(fd *ast.FuncDecl) *ast.FuncDecl {
	c := *fd
	c.Doc = nil
	return &c
}

// ---------------------------------------------------------------------------------------------

func mediacommonDir(r *repo) string {
	gomod, err := os.ReadFile(filepath.Join(r.root, "go.mod"))
	if err != nil {
		fatalf("read go.mod: %v", err)
	}
	m := regexp.MustCompile(`github.com/bluenviron/mediacommon/v2 (v[0-9A-Za-z.\-+]+)`).FindSubmatch(gomod)
	if m == nil {
		fatalf("mediacommon/v2 requirement not found in go.mod")
	}
	cache := os.Getenv("GOMODCACHE")
	if cache == "" {
		if out, err := exec.Command("go", "env", "GOMODCACHE").Output(); err == nil {
			cache = strings.TrimSpace(string(out))
		}
	}
	if cache == "" {
		cache = filepath.Join(os.Getenv("HOME"), "go", "pkg", "mod")
	}
	return filepath.Join(cache, "github.com", "bluenviron", "mediacommon", "v2@"+string(m[1]))
}

// findAddArg finds `v := <recv>.ntpValue.Add(X)` (or entry.ntp.Add(X)) in a statement list and returns X.
func findAddArg(stmts []ast.Stmt, recvPath string) ast.Expr {
	var found ast.Expr
	for _, s := range stmts {
		ast.Inspect(s, func(n ast.Node) bool {
			call, ok := n.(*ast.CallExpr)
			if !ok || len(call.Args) != 1 {
				return true
			}
			sel, ok := call.Fun.(*ast.SelectorExpr)
			if !ok || sel.Sel.Name != "Add" {
				return true
			}
			if p, ok := flatten(sel.X); ok && p == recvPath {
				if found != nil {
					fatalf("more than one %s.Add(...)", recvPath)
				}
				found = call.Args[0]
			}
			return true
		})
	}
	return found
}

func genTimeConv(r *repo) string {
	p := r.pkgs["."]
	consts := p.consts()
	t := &tcTr{p: p, consts: consts, callable: map[string]bool{
		"multiplyAndDivide": true, "multiplyAndDivide2": true, "durationToTimestamp": true, "timestampToDuration": true,
	}}
	var b strings.Builder
	b.WriteString("import Hls.Gen.Arith\nset_option linter.unusedVariables false\n\nnamespace Hls.Gen.TimeConv\n\n")

	// --- constants -------------------------------------------------------------------------
	for _, c := range []string{"clientMaxTracksPerStream", "clientMPEGTSSampleQueueSize", "clientLiveInitialDistance",
		"clientLiveMaxDistanceFromEnd", "clientMaxDTSRTCDiff"} {
		ci, ok := consts[c]
		if !ok {
			fatalf("constant %s not found", c)
		}
		v, ok := t.constVal(ci.expr)
		if !ok {
			fatalf("constant %s: not an integer constant expression", c)
		}
		fmt.Fprintf(&b, "def %s : Int := %d\n", c, v)
	}

	// the MPEG-TS clock rate: the ClockRate literal of the tracks built in initializeReader
	{
		fd := p.mustFunc("clientStreamProcessorMPEGTS", "initializeReader")
		var rates []int64
		ast.Inspect(fd, func(n ast.Node) bool {
			kv, ok := n.(*ast.KeyValueExpr)
			if !ok {
				return true
			}
			if id, ok := kv.Key.(*ast.Ident); ok && id.Name == "ClockRate" {
				v, ok := t.constVal(kv.Value)
				if !ok {
					fatalf("initializeReader: ClockRate is not a constant")
				}
				rates = append(rates, v)
			}
			return true
		})
		if len(rates) != 1 {
			fatalf("initializeReader: expected exactly one ClockRate literal, found %d", len(rates))
		}
		fmt.Fprintf(&b, "/-- `ClockRate:` of every track of an MPEG-TS stream (client_stream_processor_mpegts.go initializeReader) -/\n")
		fmt.Fprintf(&b, "def mpegtsTrackClockRate : Int := %d\n\n", rates[0])
	}

	// --- definedness (no integer division by zero) of the Gen/Arith functions used below -----------
	for _, f := range []string{"multiplyAndDivide", "multiplyAndDivide2", "durationToTimestamp", "timestampToDuration"} {
		b.WriteString(t.arithDefined(p.mustFunc("", f)))
	}

	// --- clientTimeConvFMP4 ------------------------------------------------------------------
	{
		fd := p.mustFunc("clientTimeConvFMP4", "convert")
		if len(fd.Body.List) != 1 {
			fatalf("clientTimeConvFMP4.convert: expected a single return statement")
		}
		ret, ok := fd.Body.List[0].(*ast.ReturnStmt)
		if !ok || len(ret.Results) != 1 {
			fatalf("clientTimeConvFMP4.convert: expected a single return statement")
		}
		b.WriteString(t.exprDef("fmp4Convert",
			[]string{"ts_leadingTimeScale", "ts_leadingBaseTime", "v", "clockRate"}, nil, "Int", ret.Results[0],
			"translated from `clientTimeConvFMP4.convert` ("+p.fset.Position(fd.Pos()).String()+")"))
	}
	{
		fd := p.mustFunc("clientTimeConvFMP4", "getNTP")
		x := findAddArg(fd.Body.List, "ts_ntpValue")
		if x == nil {
			fatalf("clientTimeConvFMP4.getNTP: ts.ntpValue.Add(...) not found")
		}
		b.WriteString(t.exprDef("fmp4NtpOffset",
			[]string{"ts_ntpTimestamp", "ts_ntpClockRate", "timestamp", "clockRate"}, nil, "Int", x,
			"translated from the argument of `ts.ntpValue.Add(…)` in `clientTimeConvFMP4.getNTP` ("+p.fset.Position(fd.Pos()).String()+"), nanoseconds"))
	}
	// --- clientTimeConvMPEGTS ----------------------------------------------------------------
	{
		fd := p.mustFunc("clientTimeConvMPEGTS", "getNTP")
		x := findAddArg(fd.Body.List, "ts_ntpValue")
		if x == nil {
			fatalf("clientTimeConvMPEGTS.getNTP: ts.ntpValue.Add(...) not found")
		}
		b.WriteString(t.exprDef("mpegtsNtpOffset",
			[]string{"ts_ntpTimestamp", "timestamp"}, nil, "Int", x,
			"translated from the argument of `ts.ntpValue.Add(…)` in `clientTimeConvMPEGTS.getNTP` ("+p.fset.Position(fd.Pos()).String()+"), nanoseconds"))
	}
	// --- clientTrackProcessorFMP4.process ------------------------------------------------------
	{
		fd := p.mustFunc("clientTrackProcessorFMP4", "process")
		// shape: dts := entry.dts ; for _, sample := range entry.partTrack.Samples { … } ; onPartTrackProcessed ; return nil
		if len(fd.Body.List) != 4 {
			fatalf("clientTrackProcessorFMP4.process: expected 4 statements, found %d", len(fd.Body.List))
		}
		as, ok := fd.Body.List[0].(*ast.AssignStmt)
		if !ok || len(as.Lhs) != 1 || as.Tok != token.DEFINE {
			fatalf("clientTrackProcessorFMP4.process: first statement is not `dts := …`")
		}
		if id, ok := as.Lhs[0].(*ast.Ident); !ok || id.Name != "dts" {
			fatalf("clientTrackProcessorFMP4.process: first statement does not define dts")
		}
		b.WriteString(t.exprDef("fmp4ProcessInitialDts", []string{"entry_dts"}, nil, "Int", as.Rhs[0],
			"`dts := …` at the top of `clientTrackProcessorFMP4.process`"))
		rs, ok := fd.Body.List[1].(*ast.RangeStmt)
		if !ok {
			fatalf("clientTrackProcessorFMP4.process: second statement is not the range loop")
		}
		if pth, ok := flatten(rs.X); !ok || pth != "entry_partTrack_Samples" {
			fatalf("clientTrackProcessorFMP4.process: loop does not range over entry.partTrack.Samples")
		}
		var ptsE, incE ast.Expr
		for _, s := range rs.Body.List {
			if a, ok := s.(*ast.AssignStmt); ok && len(a.Lhs) == 1 {
				if id, ok := a.Lhs[0].(*ast.Ident); ok {
					if id.Name == "pts" && a.Tok == token.DEFINE {
						ptsE = a.Rhs[0]
					}
					if id.Name == "dts" {
						switch a.Tok {
						case token.ADD_ASSIGN:
							incE = &ast.BinaryExpr{X: ast.NewIdent("dts"), Op: token.ADD, Y: a.Rhs[0]}
						case token.SUB_ASSIGN:
							incE = &ast.BinaryExpr{X: ast.NewIdent("dts"), Op: token.SUB, Y: a.Rhs[0]}
						case token.ASSIGN:
							incE = a.Rhs[0]
						default:
							fatalf("clientTrackProcessorFMP4.process: unexpected update of dts")
						}
					}
				}
			}
		}
		if ptsE == nil || incE == nil {
			fatalf("clientTrackProcessorFMP4.process: `pts := …` or the dts update not found in the loop")
		}
		// the dts update must be the last statement of the loop body (after handleData)
		if a, ok := rs.Body.List[len(rs.Body.List)-1].(*ast.AssignStmt); !ok || func() bool { n, _ := flatten(a.Lhs[0]); return n != "dts" }() {
			fatalf("clientTrackProcessorFMP4.process: the dts update is not the last statement of the loop")
		}
		vars := []string{"dts", "entry_dts", "sample_PTSOffset", "sample_Duration", "t_track_track_ClockRate"}
		b.WriteString(t.exprDef("fmp4SamplePts", vars, nil, "Int", ptsE, "`pts := …` in the sample loop of `clientTrackProcessorFMP4.process`"))
		b.WriteString(t.exprDef("fmp4NextDts", vars, nil, "Int", incE, "the dts update at the end of the sample loop of `clientTrackProcessorFMP4.process`"))
		x := findAddArg(rs.Body.List, "entry_ntp")
		if x == nil {
			fatalf("clientTrackProcessorFMP4.process: entry.ntp.Add(...) not found")
		}
		b.WriteString(t.exprDef("fmp4SampleNtpOffset", vars, nil, "Int", x,
			"argument of `entry.ntp.Add(…)` in the sample loop of `clientTrackProcessorFMP4.process`, nanoseconds"))
	}
	// --- clientTrack.handleData ------------------------------------------------------------------
	{
		fd := p.mustFunc("clientTrack", "handleData")
		is, ok := fd.Body.List[0].(*ast.IfStmt)
		if !ok || is.Init != nil || is.Else != nil || len(is.Body.List) != 1 {
			fatalf("clientTrack.handleData: first statement is not the discard test")
		}
		if ret, ok := is.Body.List[0].(*ast.ReturnStmt); !ok || len(ret.Results) != 1 || func() bool { id, ok := ret.Results[0].(*ast.Ident); return !ok || id.Name != "nil" }() {
			fatalf("clientTrack.handleData: discard branch is not `return nil`")
		}
		b.WriteString(t.exprDef("handleDataDiscard", []string{"pts", "dts"}, nil, "Bool", is.Cond,
			"condition of the first statement of `clientTrack.handleData` (`if … { return nil }`)"))
		var dd ast.Expr
		for _, s := range fd.Body.List {
			if a, ok := s.(*ast.AssignStmt); ok && len(a.Lhs) == 1 {
				if id, ok := a.Lhs[0].(*ast.Ident); ok && id.Name == "dtsDuration" {
					dd = a.Rhs[0]
				}
			}
		}
		if dd == nil {
			fatalf("clientTrack.handleData: dtsDuration not found")
		}
		b.WriteString(t.exprDef("handleDataDtsDuration", []string{"pts", "dts", "t_track_ClockRate"}, nil, "Int", dd,
			"`dtsDuration := …` in `clientTrack.handleData` (input of the real-time pacing; divides by the clock rate)"))
		// the real-time pacing block: `if dtsDuration > elapsed { diff := …; if diff > cap { return error }; select { <-time.After(diff) | <-ctx.Done() } }`
		var pace *ast.IfStmt
		for _, s := range fd.Body.List[1:] {
			if x, ok := s.(*ast.IfStmt); ok && x.Init == nil && x.Else == nil {
				pace = x
				break
			}
		}
		if pace == nil || len(pace.Body.List) != 3 {
			fatalf("clientTrack.handleData: pacing block `if dtsDuration > elapsed { diff; cap test; select }` not found")
		}
		da, ok1 := pace.Body.List[0].(*ast.AssignStmt)
		ci, ok2 := pace.Body.List[1].(*ast.IfStmt)
		sel, ok3 := pace.Body.List[2].(*ast.SelectStmt)
		if !ok1 || !ok2 || !ok3 || len(da.Lhs) != 1 || ci.Init != nil || ci.Else != nil || len(ci.Body.List) != 1 {
			fatalf("clientTrack.handleData: pacing block has an unexpected shape")
		}
		if id, ok := da.Lhs[0].(*ast.Ident); !ok || id.Name != "diff" {
			fatalf("clientTrack.handleData: first statement of the pacing block does not define diff")
		}
		if ret, ok := ci.Body.List[0].(*ast.ReturnStmt); !ok || len(ret.Results) != 1 || func() bool { _, isCall := ret.Results[0].(*ast.CallExpr); return !isCall }() {
			fatalf("clientTrack.handleData: the cap test does not return an error")
		}
		b.WriteString(t.exprDef("handleDataPaceWaits", []string{"dtsDuration", "elapsed"}, nil, "Bool", pace.Cond,
			"condition of the pacing block of `clientTrack.handleData` (the sample is ahead of the real-time clock)"))
		b.WriteString(t.exprDef("handleDataPaceDiff", []string{"dtsDuration", "elapsed"}, nil, "Int", da.Rhs[0],
			"`diff := …` in the pacing block of `clientTrack.handleData`, nanoseconds"))
		b.WriteString(t.exprDef("handleDataPaceTooBig", []string{"diff"}, nil, "Bool", ci.Cond,
			"condition of `return fmt.Errorf(\"difference between DTS and RTC is too big\")` in `clientTrack.handleData`"))
		sleepsDiff, cancels := false, false
		for _, cc := range sel.Body.List {
			c := cc.(*ast.CommClause)
			es, ok := c.Comm.(*ast.ExprStmt)
			if !ok {
				continue
			}
			u, ok := es.X.(*ast.UnaryExpr)
			if !ok || u.Op != token.ARROW {
				continue
			}
			call, ok := u.X.(*ast.CallExpr)
			if !ok {
				continue
			}
			if n, ok := flatten(call.Fun); ok {
				if n == "time_After" || n == "time.After" {
					if id, ok := call.Args[0].(*ast.Ident); ok && id.Name == "diff" && len(c.Body) == 0 {
						sleepsDiff = true
					}
				}
				if (n == "ctx_Done" || n == "ctx.Done") && len(c.Body) == 1 {
					if _, ok := c.Body[0].(*ast.ReturnStmt); ok {
						cancels = true
					}
				}
			}
		}
		fmt.Fprintf(&b, "/-- the pacing `select` of `clientTrack.handleData` sleeps exactly `diff` (`case <-time.After(diff):` with an empty body) -/\ndef handleDataPaceSleepsDiff : Bool := %v\n", sleepsDiff && len(sel.Body.List) == 2)
		fmt.Fprintf(&b, "/-- … and its only other arm is `case <-ctx.Done(): return …` -/\ndef handleDataPaceCancelArm : Bool := %v\n\n", cancels && len(sel.Body.List) == 2)
	}

	// --- mediacommon mpegts.TimeDecoder --------------------------------------------------------
	{
		dir := filepath.Join(mediacommonDir(r), "pkg", "formats", "mpegts")
		fset := token.NewFileSet()
		f, err := parser.ParseFile(fset, filepath.Join(dir, "time_decoder.go"), nil, 0)
		if err != nil {
			fatalf("parse mediacommon time_decoder.go: %v", err)
		}
		mp := &pkgSrc{dir: dir, fset: fset, files: map[string]*ast.File{"time_decoder.go": f}}
		mt := &tcTr{p: mp, consts: mp.consts(), callable: map[string]bool{}}
		for _, c := range []string{"maximum", "negativeThreshold"} {
			ci, ok := mt.consts[c]
			if !ok {
				fatalf("mediacommon mpegts: constant %s not found", c)
			}
			v, ok := mt.constVal(ci.expr)
			if !ok {
				fatalf("mediacommon mpegts: constant %s is not an integer constant", c)
			}
			fmt.Fprintf(&b, "def timeDecoder_%s : Int := %d\n", c, v)
		}
		fd := mp.mustFunc("TimeDecoder", "Decode")
		mt.where = "TimeDecoder.Decode"
		state := []string{"d_initialized", "d_prev", "d_overall"}
		mt.allowed = map[string]bool{"d_initialized": true, "d_prev": true, "d_overall": true, "ts": true}
		body := mt.stateBlock(fd.Body.List, state, "  ")
		b.WriteString("\n/-- state-passing translation of mediacommon `mpegts.TimeDecoder.Decode` (" + fset.Position(fd.Pos()).String() + "):\n")
		b.WriteString("    result = (returned value, initialized, prev, overall) -/\n")
		b.WriteString("def timeDecoderDecode (d_initialized : Bool) (d_prev : Int) (d_overall : Int) (ts : Int) : Int × Bool × Int × Int :=\n")
		b.WriteString(body + "\n\n")
		ifd := mp.mustFunc("TimeDecoder", "Initialize")
		if len(ifd.Body.List) != 0 {
			fatalf("mediacommon TimeDecoder.Initialize is no longer empty")
		}
	}

	// --- pins ------------------------------------------------------------------------------------
	b.WriteString("/-- SHA-256 prefixes (first 8 bytes) of the comment-free, white-space-normalised source of the functions\n")
	b.WriteString("    whose control flow the hand-written model `Hls.Client.Process` mirrors. -/\n")
	b.WriteString("def pins : List (String × String) := [\n")
	type pin struct{ recv, name string }
	pinList := []pin{
		{"clientTimeConvFMP4", "setNTP"},
		{"clientTimeConvFMP4", "getNTP"},
		{"clientTimeConvMPEGTS", "initialize"},
		{"clientTimeConvMPEGTS", "convert"},
		{"clientTimeConvMPEGTS", "setNTP"},
		{"clientTimeConvMPEGTS", "getNTP"},
		{"clientTrackProcessorFMP4", "initialize"},
		{"clientTrackProcessorFMP4", "process"},
		{"clientTrackProcessorMPEGTS", "process"},
		{"clientTrack", "handleData"},
		{"", "fmp4PickLeadingTrack"},
		{"", "findFirstPartTrackOfLeadingTrack"},
		{"", "findTimeScaleOfLeadingTrack"},
		{"clientStreamProcessorFMP4", "run"},
		{"clientStreamProcessorFMP4", "processSegment"},
		{"clientStreamProcessorFMP4", "initializeTrackProcessors"},
		{"", "mpegtsPickLeadingTrack"},
		{"clientStreamProcessorMPEGTS", "processSegment"},
		{"clientStreamProcessorMPEGTS", "initializeReader"},
		{"clientStreamProcessorMPEGTS", "initializeTrackProcessors"},
		{"Client", "setLeadingTimeConv"},
	}
	var txts []string
	for i, pn := range pinList {
		fd := p.mustFunc(pn.recv, pn.name)
		h, txt := pinOf(p.fset, funcNoDoc(fd))
		nm := pn.name
		if pn.recv != "" {
			nm = pn.recv + "." + pn.name
		}
		sep := ","
		if i == len(pinList)-1 {
			sep = ""
		}
		fmt.Fprintf(&b, "  (%q, %q)%s\n", nm, h, sep)
		txts = append(txts, "-- "+nm+": "+txt)
	}
	b.WriteString("]\n\n")
	// codecs whose fMP4 payloads the client can decode = the cases of the type switch in
	// clientTrackProcessorFMP4.initialize, and the cases of codecs.FromFMP4 (F8: every kind FromFMP4 returns must be decodable,
	// every other kind must not reach `process`).
	{
		fd := p.mustFunc("clientTrackProcessorFMP4", "initialize")
		var kinds []string
		ast.Inspect(fd, func(n ast.Node) bool {
			ts, ok := n.(*ast.TypeSwitchStmt)
			if !ok {
				return true
			}
			for _, c := range ts.Body.List {
				cc := c.(*ast.CaseClause)
				for _, e := range cc.List {
					if st, ok := e.(*ast.StarExpr); ok {
						if sel, ok := st.X.(*ast.SelectorExpr); ok {
							kinds = append(kinds, sel.Sel.Name)
						}
					}
				}
			}
			return false
		})
		fmt.Fprintf(&b, "/-- codec kinds with a `decodePayload` case in `clientTrackProcessorFMP4.initialize` -/\ndef fmp4DecodableKinds : List String := [%s]\n\n", quoteList(kinds))
		cp := r.pkgs["pkg/codecs"]
		ffd := cp.mustFunc("", "FromFMP4")
		var from []string
		ast.Inspect(ffd, func(n ast.Node) bool {
			ts, ok := n.(*ast.TypeSwitchStmt)
			if !ok {
				return true
			}
			for _, c := range ts.Body.List {
				cc := c.(*ast.CaseClause)
				if len(cc.List) != 1 || len(cc.Body) != 1 {
					fatalf("codecs.FromFMP4: unexpected case shape")
				}
				ret, ok := cc.Body[0].(*ast.ReturnStmt)
				if !ok || len(ret.Results) != 1 {
					fatalf("codecs.FromFMP4: case does not return")
				}
				un, ok := ret.Results[0].(*ast.UnaryExpr)
				if !ok || un.Op != token.AND {
					fatalf("codecs.FromFMP4: case does not return &T{…}")
				}
				cl, ok := un.X.(*ast.CompositeLit)
				if !ok {
					fatalf("codecs.FromFMP4: case does not return &T{…}")
				}
				from = append(from, cl.Type.(*ast.Ident).Name)
			}
			return false
		})
		fmt.Fprintf(&b, "/-- codec kinds `codecs.FromFMP4` can return (anything else maps to nil) -/\ndef fromFMP4Kinds : List String := [%s]\n\n", quoteList(from))
	}
	// guards that repair F8 / F9 (absent on the original tree). The model follows the code that exists.
	{
		run := p.mustFunc("clientStreamProcessorFMP4", "run")
		_, txt := pinOf(p.fset, run.Body)
		rejectsZero := regexp.MustCompile(`TimeScale == 0`).MatchString(txt)
		skipsNil := regexp.MustCompile(`FromFMP4\(track\.Codec\) != nil`).MatchString(txt) &&
			regexp.MustCompile(`p\.init\.Tracks = `).MatchString(txt)
		fmt.Fprintf(&b, "/-- `clientStreamProcessorFMP4.run` rejects an init track with `TimeScale == 0` (repair of F9) -/\ndef fmp4RejectsZeroTimeScale : Bool := %v\n", rejectsZero)
		fmt.Fprintf(&b, "/-- `clientStreamProcessorFMP4.run` does not expose init tracks whose codec `FromFMP4` maps to nil (repair of F8) -/\ndef fmp4SkipsUnsupportedTracks : Bool := %v\n\n", skipsNil)
	}
	b.WriteString("end Hls.Gen.TimeConv\n\n")
	b.WriteString("/- normalised sources behind the pins (for the reader of a broken pin):\n")
	for _, s := range txts {
		b.WriteString(strings.ReplaceAll(s, "-/", "- /") + "\n")
	}
	b.WriteString("-/\n")
	return b.String()
}

func quoteList(xs []string) string {
	var q []string
	for _, x := range xs {
		q = append(q, strconv.Quote(x))
	}
	return strings.Join(q, ", ")
}
