package main

import (
	"fmt"
	"go/ast"
	"go/importer"
	"go/parser"
	"go/token"
	"go/types"
	"os"
	"path/filepath"
	"sort"
	"strings"
)

// Gen/Accesses.lean (C08): one row per syntactic access to a field of the muxer's
// shared objects, with the locks syntactically held at that point and the role(s)
// of the goroutine that can execute it.
//
//	row  = (function, field, kind R|W|A(ddress taken)|I(nitialised in the composite literal of a fresh object),
//	        locks held: M = the muxer mutex (Muxer.mutex; muxerStream.mutex is a pointer to it — checked),
//	                    S = muxerServer.mutex (r|w), F = fileDisk.mutex (since fix-F14b),
//	        role: init (reachable from Muxer.Start), writer (Muxer.Write*), handler (Muxer.Handle and every
//	              function registered with registerPath), close (Muxer.Close))
//
// Type information comes from go/types (source importer, offline); field selections are
// resolved through info.Selections, so promoted fields and aliases of the receiver name
// do not matter. There is NO alias analysis on objects: a row says "this function touches
// field f of SOME object of that type".
//
// Locks: a forward scan of every function body tracks Lock/Unlock/RLock/RUnlock/defer
// Unlock on the known mutex fields; branches must agree on the lock state where they join,
// loop bodies must preserve it. The lock set at function entry is the intersection over
// all call sites (per role) of what is held there — so a function only ever called inside
// a critical section inherits the lock. Function literals invoked on the spot are scanned
// in line; function literals / method values passed to registerPath become handler roots
// that start with no lock. Interface calls are resolved by method name over the types of
// the parsed packages (class-hierarchy analysis); calls through muxerStream.generateMediaPlaylist
// through the method values assigned to it. Anything the scanner does not understand aborts.

func init() { registerGen("Accesses.lean", genAccesses) }

const accModPath = "github.com/bluenviron/gohlslib/v2"

// struct types whose fields are tracked, per package (relative dir)
var accTracked = map[string][]string{
	".": {"Muxer", "muxerStream", "muxerSegmentFMP4", "muxerSegmentMPEGTS", "muxerGap", "muxerPart",
		"muxerTrack", "muxerSegmenter", "muxerServer", "Track"},
	"pkg/storage": {"fileDisk", "partDisk", "fileRAM", "partRAM"},
	"pkg/codecs":  {"H264", "H265", "AV1", "VP9", "MPEG4Audio", "Opus"},
}

// mutex fields → lock name. muxerStream.mutex / muxerSegmenter.mutex are pointers: every literal of these
// structs must initialise them with &m.mutex (checked below).
var accLockOf = map[string]string{
	"Muxer.mutex":          "M",
	"muxerStream.mutex":    "M",
	"muxerSegmenter.mutex": "M", // since fix-F14a (absent on older trees: the write* rows then hold no lock)
	"muxerServer.mutex":    "S",
	"fileDisk.mutex":       "F",
}

// user callbacks (called, never resolved)
var accCallbackFields = map[string]bool{"muxerStream.onEncodeError": true, "Muxer.OnEncodeError": true}

// methods of EXTERNAL struct types called on a tracked field that holds the struct BY VALUE
// (the field is the object): what the call does to the field.
var accValueMethods = map[string]byte{
	"partRAM.buffer.Bytes": 'R',
}

type accPkg struct {
	rel   string
	name  string
	fset  *token.FileSet
	files []*ast.File
	info  *types.Info
	pkg   *types.Package
}

type accLocks map[string]int // lock -> 1 (read mode) | 2 (exclusive)

func (l accLocks) clone() accLocks {
	c := accLocks{}
	for k, v := range l {
		c[k] = v
	}
	return c
}

func (l accLocks) equal(o accLocks) bool {
	if len(l) != len(o) {
		return false
	}
	for k, v := range l {
		if o[k] != v {
			return false
		}
	}
	return true
}

func (l accLocks) String() string {
	var ks []string
	for k, v := range l {
		ks = append(ks, fmt.Sprintf("%s%d", k, v))
	}
	sort.Strings(ks)
	return strings.Join(ks, ",")
}

// meet = what is held on both paths (weaker mode wins)
func accMeet(a, b accLocks) accLocks {
	out := accLocks{}
	for k, v := range a {
		if w, ok := b[k]; ok {
			if w < v {
				v = w
			}
			out[k] = v
		}
	}
	return out
}

func accJoin(a, b accLocks) accLocks { // union, stronger mode wins
	out := a.clone()
	for k, v := range b {
		if out[k] < v {
			out[k] = v
		}
	}
	return out
}

type accRow struct {
	field string
	kind  byte
	locks accLocks
	pos   token.Pos
}

type accCall struct {
	callees []string
	locks   accLocks
	pos     token.Pos
}

type accFunc struct {
	key   string
	p     *accPkg
	body  *ast.BlockStmt
	rows  []accRow
	calls []accCall
}

type accX struct {
	repo     string
	fset     *token.FileSet
	pkgs     map[string]*accPkg // rel -> package
	byPath   map[string]*accPkg // import path -> package
	fieldAt  map[string]string  // position of field declaration -> "Type.field"
	fieldTyp map[string]types.Type
	structOf map[string]bool     // "pkgname.Type" tracked
	funcs    map[string]*accFunc // key -> function
	order    []string            // keys in discovery order
	methods  map[string][]string // method name -> keys of concrete methods (all parsed packages)
	typeMeth map[string][]string // "pkgrel:Type" -> method keys
	handlers []string            // handler roots (closures and method values given to registerPath)
	fnFields map[string][]string // function-typed tracked field -> keys assigned to it
}

func (x *accX) fail(p *accPkg, n ast.Node, format string, a ...any) {
	fatalf("accesses: %s: %s", x.fset.Position(n.Pos()), fmt.Sprintf(format, a...))
}

func genAccesses(r *repo) string {
	x := &accX{repo: r.root, fset: token.NewFileSet(), pkgs: map[string]*accPkg{}, byPath: map[string]*accPkg{},
		fieldAt: map[string]string{}, fieldTyp: map[string]types.Type{}, structOf: map[string]bool{},
		funcs: map[string]*accFunc{}, methods: map[string][]string{}, typeMeth: map[string][]string{},
		fnFields: map[string][]string{}}
	x.load()
	x.collectFields()
	x.collectFuncs()
	x.checkStreamMutexAlias()
	x.collectFnFieldAssignments()
	// scan what is reachable from the roots (client code of the root package is never entered);
	// handler closures are discovered while scanning
	var work []string
	for _, key := range x.order {
		if key == "Muxer.Start" || key == "Muxer.Close" || key == "Muxer.Handle" ||
			(strings.HasPrefix(key, "Muxer.Write") && ast.IsExported(strings.TrimPrefix(key, "Muxer."))) {
			work = append(work, key)
		}
	}
	scanned := map[string]bool{}
	nh := 0
	for len(work) > 0 {
		key := work[len(work)-1]
		work = work[:len(work)-1]
		if scanned[key] {
			continue
		}
		scanned[key] = true
		f := x.funcs[key]
		if f == nil {
			fatalf("accesses: unknown function %s", key)
		}
		if f.body == nil {
			continue
		}
		x.scanFunc(f)
		for _, c := range f.calls {
			work = append(work, c.callees...)
		}
		work = append(work, x.handlers[nh:]...)
		nh = len(x.handlers)
	}
	return x.emit()
}

// ------------------------------------------------------------------ loading

func (x *accX) load() {
	wd, _ := os.Getwd()
	abs, err := filepath.Abs(x.repo)
	if err != nil {
		fatalf("accesses: %v", err)
	}
	if err := os.Chdir(abs); err != nil {
		fatalf("accesses: chdir %s: %v", abs, err)
	}
	defer os.Chdir(wd) //nolint:errcheck
	imp := importer.ForCompiler(x.fset, "source", nil)
	for _, rel := range []string{"pkg/codecs", "pkg/codecparams", "pkg/storage", "."} {
		dir := filepath.Join(abs, rel)
		ents, err := os.ReadDir(dir)
		if err != nil {
			fatalf("accesses: %v", err)
		}
		p := &accPkg{rel: rel, fset: x.fset}
		for _, e := range ents {
			n := e.Name()
			if e.IsDir() || !strings.HasSuffix(n, ".go") || strings.HasSuffix(n, "_test.go") {
				continue
			}
			// instrumentation files: only the no-op variant is part of the code under verification
			if strings.HasPrefix(n, "verif_") && n != "verif_off.go" {
				continue
			}
			f, err := parser.ParseFile(x.fset, filepath.Join(dir, n), nil, 0)
			if err != nil {
				fatalf("accesses: parse: %v", err)
			}
			p.files = append(p.files, f)
		}
		if len(p.files) == 0 {
			fatalf("accesses: no Go files in %s", dir)
		}
		p.name = p.files[0].Name.Name
		p.info = &types.Info{
			Types:      map[ast.Expr]types.TypeAndValue{},
			Defs:       map[*ast.Ident]types.Object{},
			Uses:       map[*ast.Ident]types.Object{},
			Selections: map[*ast.SelectorExpr]*types.Selection{},
		}
		path := accModPath
		if rel != "." {
			path += "/" + rel
		}
		conf := types.Config{Importer: imp, Error: func(err error) { fatalf("accesses: type-check %s: %v", rel, err) }}
		pkg, err := conf.Check(path, x.fset, p.files, p.info)
		if err != nil {
			fatalf("accesses: type-check %s: %v", rel, err)
		}
		p.pkg = pkg
		x.pkgs[rel] = p
		x.byPath[path] = p
	}
}

func (x *accX) posKey(pos token.Pos) string {
	p := x.fset.Position(pos)
	return fmt.Sprintf("%s:%d:%d", p.Filename, p.Line, p.Column)
}

func (x *accX) collectFields() {
	for rel, names := range accTracked {
		p := x.pkgs[rel]
		for _, n := range names {
			obj := p.pkg.Scope().Lookup(n)
			if obj == nil {
				fatalf("accesses: tracked type %s not found in %s", n, rel)
			}
			st, ok := obj.Type().Underlying().(*types.Struct)
			if !ok {
				fatalf("accesses: %s is not a struct", n)
			}
			x.structOf[p.name+"."+n] = true
			for i := 0; i < st.NumFields(); i++ {
				f := st.Field(i)
				key := n + "." + f.Name()
				x.fieldAt[x.posKey(f.Pos())] = key
				x.fieldTyp[key] = f.Type()
			}
		}
	}
}

func recvTypeName(fd *ast.FuncDecl) string {
	if fd.Recv == nil || len(fd.Recv.List) != 1 {
		return ""
	}
	t := fd.Recv.List[0].Type
	if st, ok := t.(*ast.StarExpr); ok {
		t = st.X
	}
	if id, ok := t.(*ast.Ident); ok {
		return id.Name
	}
	return "?"
}

func (x *accX) funcKey(p *accPkg, recv, name string) string {
	k := name
	if recv != "" {
		k = recv + "." + name
	}
	if p.rel != "." && (recv == "" || p.rel != "pkg/storage") {
		k = p.name + "." + k
	}
	return k
}

func (x *accX) collectFuncs() {
	var rels []string
	for rel := range x.pkgs {
		rels = append(rels, rel)
	}
	sort.Strings(rels)
	for _, rel := range rels {
		p := x.pkgs[rel]
		for _, f := range p.files {
			for _, d := range f.Decls {
				fd, ok := d.(*ast.FuncDecl)
				if !ok {
					continue
				}
				recv := recvTypeName(fd)
				key := x.funcKey(p, recv, fd.Name.Name)
				if _, dup := x.funcs[key]; dup {
					fatalf("accesses: duplicate function key %s", key)
				}
				x.funcs[key] = &accFunc{key: key, p: p, body: fd.Body}
				x.order = append(x.order, key)
				if recv != "" {
					x.methods[fd.Name.Name] = append(x.methods[fd.Name.Name], key)
					x.typeMeth[rel+":"+recv] = append(x.typeMeth[rel+":"+recv], key)
				}
			}
		}
	}
}

// every composite literal of muxerStream must set mutex: &<Muxer>.mutex
func (x *accX) checkStreamMutexAlias() {
	p := x.pkgs["."]
	found := 0
	for _, f := range p.files {
		ast.Inspect(f, func(n ast.Node) bool {
			cl, ok := n.(*ast.CompositeLit)
			if !ok {
				return true
			}
			tn := x.trackedStructName(p, p.info.TypeOf(cl))
			if tn != "muxerStream" && tn != "muxerSegmenter" {
				return true
			}
			if _, has := x.fieldTyp[tn+".mutex"]; !has {
				return true
			}
			okLit := false
			for _, e := range cl.Elts {
				kv, ok := e.(*ast.KeyValueExpr)
				if !ok {
					continue
				}
				if id, ok := kv.Key.(*ast.Ident); ok && id.Name == "mutex" {
					if u, ok := kv.Value.(*ast.UnaryExpr); ok && u.Op == token.AND {
						if se, ok := u.X.(*ast.SelectorExpr); ok {
							if fk, _ := x.fieldOfSel(p, se); fk == "Muxer.mutex" {
								okLit = true
							}
						}
					}
				}
			}
			if !okLit {
				x.fail(p, cl, "%s literal does not set mutex: &m.mutex (the lock alias M is no longer justified)", tn)
			}
			if tn == "muxerStream" {
				found++
			}
			return true
		})
	}
	if found == 0 {
		fatalf("accesses: no muxerStream literal found")
	}
	// and nobody else assigns the field
	for _, f := range p.files {
		ast.Inspect(f, func(n ast.Node) bool {
			as, ok := n.(*ast.AssignStmt)
			if !ok {
				return true
			}
			for _, l := range as.Lhs {
				if se, ok := l.(*ast.SelectorExpr); ok {
					if fk, _ := x.fieldOfSel(p, se); accLockOf[fk] != "" {
						x.fail(p, as, "assignment to a lock field")
					}
				}
			}
			return true
		})
	}
}

// assignments `x.f = <method value>` for function-typed tracked fields
func (x *accX) collectFnFieldAssignments() {
	for _, p := range x.pkgs {
		for _, f := range p.files {
			ast.Inspect(f, func(n ast.Node) bool {
				as, ok := n.(*ast.AssignStmt)
				if !ok || len(as.Lhs) != len(as.Rhs) {
					return true
				}
				for i, l := range as.Lhs {
					se, ok := l.(*ast.SelectorExpr)
					if !ok {
						continue
					}
					fk, _ := x.fieldOfSel(p, se)
					if fk == "" {
						continue
					}
					if _, isFn := x.fieldTyp[fk].Underlying().(*types.Signature); !isFn || accCallbackFields[fk] {
						continue
					}
					key := x.methodValueKey(p, as.Rhs[i])
					if key == "" {
						x.fail(p, as, "function-typed field %s assigned something that is not a method value", fk)
					}
					x.fnFields[fk] = append(x.fnFields[fk], key)
				}
				return true
			})
		}
	}
}

// ------------------------------------------------------------------ type helpers

func (x *accX) namedOf(t types.Type) *types.Named {
	for {
		switch tt := t.(type) {
		case *types.Pointer:
			t = tt.Elem()
		case *types.Named:
			return tt
		default:
			return nil
		}
	}
}

// trackedStructName returns the tracked struct's name ("" if t is not (a pointer to) a tracked struct).
func (x *accX) trackedStructName(p *accPkg, t types.Type) string {
	n := x.namedOf(t)
	if n == nil || n.Obj().Pkg() == nil {
		return ""
	}
	if _, ok := n.Underlying().(*types.Struct); !ok {
		return ""
	}
	if x.structOf[n.Obj().Pkg().Name()+"."+n.Obj().Name()] && strings.HasPrefix(n.Obj().Pkg().Path(), accModPath) {
		return n.Obj().Name()
	}
	return ""
}

// fieldOfSel: the tracked field a selector denotes (last element of the selection path) and
// the embedded tracked fields traversed implicitly.
func (x *accX) fieldOfSel(p *accPkg, se *ast.SelectorExpr) (string, []string) {
	sel := p.info.Selections[se]
	if sel == nil || sel.Kind() != types.FieldVal {
		return "", nil
	}
	var via []string
	t := sel.Recv()
	idx := sel.Index()
	last := ""
	for i, k := range idx {
		n := x.namedOf(t)
		var st *types.Struct
		if n != nil {
			st, _ = n.Underlying().(*types.Struct)
		} else if pt, ok := t.(*types.Pointer); ok {
			st, _ = pt.Elem().Underlying().(*types.Struct)
		} else {
			st, _ = t.Underlying().(*types.Struct)
		}
		if st == nil {
			return "", nil
		}
		f := st.Field(k)
		key := x.fieldAt[x.posKey(f.Pos())]
		if i < len(idx)-1 {
			if key != "" {
				via = append(via, key)
			}
		} else {
			last = key
		}
		t = f.Type()
	}
	return last, via
}

func isSyncType(t types.Type) bool {
	for {
		if pt, ok := t.(*types.Pointer); ok {
			t = pt.Elem()
			continue
		}
		break
	}
	n, ok := t.(*types.Named)
	return ok && n.Obj().Pkg() != nil && n.Obj().Pkg().Path() == "sync"
}

func (x *accX) ownPkg(pkg *types.Package) *accPkg {
	if pkg == nil {
		return nil
	}
	return x.byPath[pkg.Path()]
}

// keyOfFuncObj maps a *types.Func of one of the parsed packages to its function key.
func (x *accX) keyOfFuncObj(fn *types.Func) string {
	op := x.ownPkg(fn.Pkg())
	if op == nil {
		return ""
	}
	recv := ""
	if sig, ok := fn.Type().(*types.Signature); ok && sig.Recv() != nil {
		n := x.namedOf(sig.Recv().Type())
		if n == nil {
			return "" // interface method
		}
		if _, isIface := n.Underlying().(*types.Interface); isIface {
			return ""
		}
		recv = n.Obj().Name()
	}
	key := x.funcKey(op, recv, fn.Name())
	if _, ok := x.funcs[key]; !ok {
		return ""
	}
	return key
}

// methodValueKey: key of the method denoted by `recv.method` used as a value.
func (x *accX) methodValueKey(p *accPkg, e ast.Expr) string {
	se, ok := e.(*ast.SelectorExpr)
	if !ok {
		return ""
	}
	sel := p.info.Selections[se]
	if sel == nil || sel.Kind() != types.MethodVal {
		return ""
	}
	fn, ok := sel.Obj().(*types.Func)
	if !ok {
		return ""
	}
	return x.keyOfFuncObj(fn)
}

// ------------------------------------------------------------------ the scanner

type accScan struct {
	x        *accX
	f        *accFunc
	p        *accPkg
	held     accLocks
	deferred []accLocks // stack (one frame per function literal scanned in line)
	returns  [][]accLocks
	breaks   []accLocks // lock state at entry of the enclosing breakable statements
	nlit     int
	probe    bool // scanning a function literal that must not touch anything tracked
	touched  bool
}

func (x *accX) scanFunc(f *accFunc) {
	s := &accScan{x: x, f: f, p: f.p, held: accLocks{}}
	s.deferred = []accLocks{{}}
	s.returns = [][]accLocks{nil}
	s.block(f.body.List)
}

func (s *accScan) fail(n ast.Node, format string, a ...any) {
	s.x.fail(s.p, n, "%s: %s", s.f.key, fmt.Sprintf(format, a...))
}

func (s *accScan) row(field string, kind byte, pos token.Pos) {
	if isSyncType(s.x.fieldTyp[field]) {
		return // mutexes and condition variables are synchronisation objects, not data
	}
	if s.probe {
		s.touched = true
		return
	}
	s.f.rows = append(s.f.rows, accRow{field: field, kind: kind, locks: s.held.clone(), pos: pos})
}

func (s *accScan) call(callees []string, pos token.Pos) {
	if len(callees) == 0 {
		return
	}
	if s.probe {
		s.touched = true
		return
	}
	s.f.calls = append(s.f.calls, accCall{callees: callees, locks: s.held.clone(), pos: pos})
}

// block scans a statement list; returns true when control cannot fall out of its end.
func (s *accScan) block(list []ast.Stmt) bool {
	for i, st := range list {
		if s.stmt(st) {
			_ = i
			return true
		}
	}
	return false
}

// lockOp recognises X.Lock() / X.Unlock() / X.RLock() / X.RUnlock() on a known mutex field.
func (s *accScan) lockOp(e ast.Expr) (lock string, op string, ok bool) {
	call, isCall := e.(*ast.CallExpr)
	if !isCall {
		return "", "", false
	}
	se, isSel := call.Fun.(*ast.SelectorExpr)
	if !isSel {
		return "", "", false
	}
	sel := s.p.info.Selections[se]
	if sel == nil || sel.Kind() != types.MethodVal {
		return "", "", false
	}
	fn := sel.Obj().(*types.Func)
	if fn.Pkg() == nil || fn.Pkg().Path() != "sync" {
		return "", "", false
	}
	rn := s.x.namedOf(sel.Recv())
	if rn == nil || (rn.Obj().Name() != "Mutex" && rn.Obj().Name() != "RWMutex") {
		return "", "", false
	}
	switch fn.Name() {
	case "Lock", "Unlock", "RLock", "RUnlock":
	default:
		s.fail(e, "unsupported mutex operation %s", fn.Name())
	}
	xs, isSel2 := se.X.(*ast.SelectorExpr)
	if !isSel2 {
		s.fail(e, "lock operation on something that is not a known mutex field")
	}
	fk, _ := s.x.fieldOfSel(s.p, xs)
	name := accLockOf[fk]
	if name == "" {
		s.fail(e, "lock operation on unknown mutex %q", fk)
	}
	s.expr(xs.X, 'R')
	return name, fn.Name(), true
}

func (s *accScan) applyLock(n ast.Node, lock, op string) {
	switch op {
	case "Lock":
		if s.held[lock] != 0 {
			s.fail(n, "%s locked twice", lock)
		}
		s.held[lock] = 2
	case "RLock":
		if s.held[lock] != 0 {
			s.fail(n, "%s locked twice", lock)
		}
		s.held[lock] = 1
	case "Unlock", "RUnlock":
		want := 2
		if op == "RUnlock" {
			want = 1
		}
		if s.held[lock] != want {
			s.fail(n, "%s of %s which is not held in that mode here", op, lock)
		}
		if s.deferred[len(s.deferred)-1][lock] != 0 {
			s.fail(n, "explicit unlock of %s whose unlock is deferred", lock)
		}
		delete(s.held, lock)
	}
}

func (s *accScan) joinStates(n ast.Node, states []accLocks) {
	if len(states) == 0 {
		return
	}
	for _, st := range states[1:] {
		if !st.equal(states[0]) {
			s.fail(n, "branches join with different lock states {%s} vs {%s}", states[0], st)
		}
	}
	s.held = states[0].clone()
}

func (s *accScan) stmt(st ast.Stmt) (terminated bool) {
	switch n := st.(type) {
	case nil, *ast.EmptyStmt:
		return false
	case *ast.ExprStmt:
		if lock, op, ok := s.lockOp(n.X); ok {
			s.applyLock(n, lock, op)
			return false
		}
		s.expr(n.X, 'R')
		if call, ok := n.X.(*ast.CallExpr); ok {
			if id, ok := call.Fun.(*ast.Ident); ok && id.Name == "panic" {
				return true
			}
		}
		return false
	case *ast.AssignStmt:
		for i, r := range n.Rhs {
			// x.f = recv.method  (collected by collectFnFieldAssignments)
			if len(n.Lhs) == len(n.Rhs) && s.x.methodValueKey(s.p, r) != "" {
				if lse, ok := n.Lhs[i].(*ast.SelectorExpr); ok {
					if fk, _ := s.x.fieldOfSel(s.p, lse); fk != "" && len(s.x.fnFields[fk]) > 0 {
						s.expr(r.(*ast.SelectorExpr).X, 'R')
						continue
					}
				}
			}
			s.expr(r, 'R')
		}
		for _, l := range n.Lhs {
			if n.Tok == token.DEFINE {
				if _, ok := l.(*ast.Ident); !ok {
					s.fail(n, "unsupported := target")
				}
				continue
			}
			if n.Tok == token.ASSIGN {
				s.expr(l, 'W')
			} else {
				s.expr(l, 'R')
				s.expr(l, 'W')
			}
		}
		return false
	case *ast.IncDecStmt:
		s.expr(n.X, 'R')
		s.expr(n.X, 'W')
		return false
	case *ast.DeclStmt:
		gd, ok := n.Decl.(*ast.GenDecl)
		if !ok {
			s.fail(n, "unsupported declaration")
		}
		for _, sp := range gd.Specs {
			if vs, ok := sp.(*ast.ValueSpec); ok {
				for _, v := range vs.Values {
					s.expr(v, 'R')
				}
			}
		}
		return false
	case *ast.ReturnStmt:
		for _, r := range n.Results {
			s.expr(r, 'R')
		}
		top := len(s.returns) - 1
		s.returns[top] = append(s.returns[top], s.held.clone())
		return true
	case *ast.BlockStmt:
		return s.block(n.List)
	case *ast.IfStmt:
		if n.Init != nil {
			s.stmt(n.Init)
		}
		s.expr(n.Cond, 'R')
		entry := s.held.clone()
		var outs []accLocks
		if !s.block(n.Body.List) {
			outs = append(outs, s.held.clone())
		}
		s.held = entry.clone()
		if n.Else != nil {
			if !s.stmt(n.Else) {
				outs = append(outs, s.held.clone())
			}
		} else {
			outs = append(outs, entry.clone())
		}
		if len(outs) == 0 {
			return true
		}
		s.joinStates(n, outs)
		return false
	case *ast.ForStmt:
		if n.Init != nil {
			s.stmt(n.Init)
		}
		if n.Cond != nil {
			s.expr(n.Cond, 'R')
		}
		entry := s.held.clone()
		s.breaks = append(s.breaks, entry)
		if !s.block(n.Body.List) {
			if n.Post != nil {
				s.stmt(n.Post)
			}
			if !s.held.equal(entry) {
				s.fail(n, "loop body changes the lock state {%s} -> {%s}", entry, s.held)
			}
		}
		s.breaks = s.breaks[:len(s.breaks)-1]
		s.held = entry.clone()
		// `for { … }` without condition is left only through break (same state, checked) or return
		return false
	case *ast.RangeStmt:
		s.expr(n.X, 'R')
		for _, kv := range []ast.Expr{n.Key, n.Value} {
			if kv == nil {
				continue
			}
			if _, ok := kv.(*ast.Ident); !ok {
				s.fail(n, "unsupported range target")
			}
		}
		entry := s.held.clone()
		s.breaks = append(s.breaks, entry)
		if !s.block(n.Body.List) && !s.held.equal(entry) {
			s.fail(n, "loop body changes the lock state")
		}
		s.breaks = s.breaks[:len(s.breaks)-1]
		s.held = entry.clone()
		return false
	case *ast.SwitchStmt:
		if n.Init != nil {
			s.stmt(n.Init)
		}
		if n.Tag != nil {
			s.expr(n.Tag, 'R')
		}
		return s.clauses(n, n.Body.List)
	case *ast.TypeSwitchStmt:
		if n.Init != nil {
			s.stmt(n.Init)
		}
		switch a := n.Assign.(type) {
		case *ast.ExprStmt:
			s.expr(a.X, 'R')
		case *ast.AssignStmt:
			for _, r := range a.Rhs {
				s.expr(r, 'R')
			}
		}
		return s.clauses(n, n.Body.List)
	case *ast.DeferStmt:
		if lock, op, ok := s.lockOp(n.Call); ok {
			if op != "Unlock" && op != "RUnlock" {
				s.fail(n, "deferred %s", op)
			}
			want := 2
			if op == "RUnlock" {
				want = 1
			}
			if s.held[lock] != want {
				s.fail(n, "deferred %s of %s which is not held in that mode", op, lock)
			}
			s.deferred[len(s.deferred)-1][lock] = want
			return false
		}
		s.expr(n.Call, 'R')
		return false
	case *ast.BranchStmt:
		if n.Label != nil || (n.Tok != token.BREAK && n.Tok != token.CONTINUE) {
			s.fail(n, "unsupported branch statement")
		}
		if len(s.breaks) == 0 {
			s.fail(n, "break/continue outside a loop or switch")
		}
		if !s.held.equal(s.breaks[len(s.breaks)-1]) {
			s.fail(n, "break/continue with a lock state different from the statement's entry")
		}
		return true
	}
	s.fail(st, "unsupported statement %T", st)
	return false
}

func (s *accScan) clauses(n ast.Node, list []ast.Stmt) bool {
	entry := s.held.clone()
	var outs []accLocks
	hasDefault := false
	s.breaks = append(s.breaks, entry)
	for _, c := range list {
		cc := c.(*ast.CaseClause)
		if cc.List == nil {
			hasDefault = true
		}
		s.held = entry.clone()
		for _, e := range cc.List {
			if tv, ok := s.p.info.Types[e]; ok && tv.IsType() {
				continue
			}
			s.expr(e, 'R')
		}
		if !s.block(cc.Body) {
			outs = append(outs, s.held.clone())
		} else if len(cc.Body) > 0 {
			// a clause ending in break/continue leaves with the entry state (checked there); return ends the function
			if _, isBr := cc.Body[len(cc.Body)-1].(*ast.BranchStmt); isBr {
				outs = append(outs, entry.clone())
			}
		}
	}
	s.breaks = s.breaks[:len(s.breaks)-1]
	if !hasDefault {
		outs = append(outs, entry.clone())
	}
	if len(outs) == 0 {
		return true
	}
	s.joinStates(n, outs)
	return false
}

// inlineLit scans a function literal that is invoked where it is written.
func (s *accScan) inlineLit(fl *ast.FuncLit) {
	s.deferred = append(s.deferred, accLocks{})
	s.returns = append(s.returns, nil)
	savedBreaks := s.breaks
	s.breaks = nil
	var outs []accLocks
	if !s.block(fl.Body.List) {
		outs = append(outs, s.held.clone())
	}
	outs = append(outs, s.returns[len(s.returns)-1]...)
	def := s.deferred[len(s.deferred)-1]
	s.deferred = s.deferred[:len(s.deferred)-1]
	s.returns = s.returns[:len(s.returns)-1]
	s.breaks = savedBreaks
	if len(outs) == 0 {
		s.fail(fl, "function literal never returns")
	}
	s.joinStates(fl, outs)
	for l := range def {
		delete(s.held, l)
	}
}

// probeLit: a function literal that is stored/passed somewhere we do not follow must not touch tracked state.
func (s *accScan) probeLit(fl *ast.FuncLit) {
	sub := &accScan{x: s.x, f: s.f, p: s.p, held: accLocks{}, probe: true}
	sub.deferred = []accLocks{{}}
	sub.returns = [][]accLocks{nil}
	sub.block(fl.Body.List)
	if sub.touched {
		s.fail(fl, "function literal that is neither invoked in place nor registered as a handler touches tracked state")
	}
}

// registerHandler: argument of registerPath → a handler root.
func (s *accScan) registerHandler(arg ast.Expr) {
	switch a := arg.(type) {
	case *ast.FuncLit:
		s.nlit++
		key := fmt.Sprintf("%s.h%d", s.f.key, s.nlit)
		nf := &accFunc{key: key, p: s.p, body: a.Body}
		s.x.funcs[key] = nf
		s.x.order = append(s.x.order, key)
		s.x.handlers = append(s.x.handlers, key)
	default:
		key := s.x.methodValueKey(s.p, arg)
		if key == "" {
			s.fail(arg, "registerPath argument is neither a function literal nor a method value")
		}
		if se, ok := arg.(*ast.SelectorExpr); ok {
			s.expr(se.X, 'R')
		}
		s.x.handlers = append(s.x.handlers, key)
	}
}

func isBuiltin(p *accPkg, id *ast.Ident) bool {
	_, ok := p.info.Uses[id].(*types.Builtin)
	return ok
}

// expr walks an expression. mode: 'R' read, 'W' written, 'A' address taken.
func (s *accScan) expr(e ast.Expr, mode byte) {
	switch n := e.(type) {
	case nil:
		return
	case *ast.Ident, *ast.BasicLit:
		return
	case *ast.ParenExpr:
		s.expr(n.X, mode)
	case *ast.SelectorExpr:
		sel := s.p.info.Selections[n]
		if sel == nil { // qualified identifier
			return
		}
		switch sel.Kind() {
		case types.FieldVal:
			fk, via := s.x.fieldOfSel(s.p, n)
			for _, v := range via {
				s.row(v, 'R', n.Pos())
			}
			if fk != "" {
				s.row(fk, mode, n.Sel.Pos())
			}
			// writing a component of a struct held by value writes the holder
			inner := byte('R')
			if mode != 'R' {
				if _, isPtr := s.p.info.TypeOf(n.X).Underlying().(*types.Pointer); !isPtr {
					if _, isSel := n.X.(*ast.SelectorExpr); isSel {
						inner = mode
					}
				}
			}
			s.expr(n.X, inner)
		default:
			s.fail(n, "method value used outside registerPath / generateMediaPlaylist assignment")
		}
	case *ast.StarExpr:
		s.expr(n.X, 'R')
	case *ast.UnaryExpr:
		if n.Op == token.AND {
			switch o := n.X.(type) {
			case *ast.CompositeLit:
				s.expr(o, 'R')
			case *ast.SelectorExpr:
				s.expr(o, 'A')
			case *ast.Ident:
			default:
				s.fail(n, "unsupported address-of operand")
			}
			return
		}
		if n.Op == token.ARROW {
			s.fail(n, "channel receive")
		}
		s.expr(n.X, 'R')
	case *ast.BinaryExpr:
		s.expr(n.X, 'R')
		s.expr(n.Y, 'R')
	case *ast.IndexExpr:
		// element write = write to what the field holds (map insert, slice element)
		s.expr(n.X, mode)
		s.expr(n.Index, 'R')
	case *ast.SliceExpr:
		s.expr(n.X, 'R')
		s.expr(n.Low, 'R')
		s.expr(n.High, 'R')
		s.expr(n.Max, 'R')
	case *ast.TypeAssertExpr:
		s.expr(n.X, 'R')
	case *ast.KeyValueExpr:
		s.expr(n.Value, 'R')
	case *ast.CompositeLit:
		s.composite(n)
	case *ast.FuncLit:
		s.probeLit(n)
	case *ast.CallExpr:
		s.callExpr(n)
	case *ast.ArrayType, *ast.MapType, *ast.FuncType, *ast.InterfaceType, *ast.StructType, *ast.ChanType:
		return
	default:
		s.fail(e, "unsupported expression %T", e)
	}
}

func (s *accScan) composite(n *ast.CompositeLit) {
	t := s.p.info.TypeOf(n)
	name := s.x.trackedStructName(s.p, t)
	if name != "" {
		for _, el := range n.Elts {
			kv, ok := el.(*ast.KeyValueExpr)
			if !ok {
				s.fail(n, "unkeyed literal of tracked struct %s", name)
			}
			id, ok := kv.Key.(*ast.Ident)
			if !ok {
				s.fail(n, "unsupported key in literal of %s", name)
			}
			s.row(name+"."+id.Name, 'I', kv.Pos())
			s.expr(kv.Value, 'R')
		}
		return
	}
	for _, el := range n.Elts {
		if kv, ok := el.(*ast.KeyValueExpr); ok {
			if _, isStruct := t.Underlying().(*types.Struct); !isStruct {
				s.expr(kv.Key, 'R')
			}
			s.expr(kv.Value, 'R')
		} else {
			s.expr(el, 'R')
		}
	}
	// an object of one of the parsed packages that escapes to code we do not follow
	// (io.Copy, mediacommon writers): its methods may be called later, without any lock
	if nm := s.x.namedOf(t); nm != nil {
		if op := s.x.ownPkg(nm.Obj().Pkg()); op != nil {
			if _, isStruct := nm.Underlying().(*types.Struct); isStruct {
				if ms := s.x.typeMeth[op.rel+":"+nm.Obj().Name()]; len(ms) > 0 && !s.probe {
					s.f.calls = append(s.f.calls, accCall{callees: ms, locks: accLocks{}, pos: n.Pos()})
				}
			}
		}
	}
}

func (s *accScan) args(list []ast.Expr) {
	for _, a := range list {
		s.expr(a, 'R')
	}
}

func (s *accScan) callExpr(n *ast.CallExpr) {
	if _, _, ok := s.lockOp(n); ok {
		s.fail(n, "lock operation in expression position")
	}
	// conversion
	if tv, ok := s.p.info.Types[n.Fun]; ok && tv.IsType() {
		s.args(n.Args)
		return
	}
	switch fun := n.Fun.(type) {
	case *ast.ParenExpr:
		s.fail(n, "unsupported call form")
	case *ast.FuncLit:
		s.args(n.Args)
		s.inlineLit(fun)
		return
	case *ast.Ident:
		if isBuiltin(s.p, fun) {
			switch fun.Name {
			case "delete":
				s.expr(n.Args[0], 'W')
				s.args(n.Args[1:])
			case "len", "cap", "append", "make", "new", "copy", "panic", "min", "max":
				if fun.Name == "copy" {
					s.expr(n.Args[0], 'W')
					s.args(n.Args[1:])
				} else {
					s.args(n.Args)
				}
			default:
				s.fail(n, "unsupported builtin %s", fun.Name)
			}
			return
		}
		switch obj := s.p.info.Uses[fun].(type) {
		case *types.Func:
			s.args(n.Args)
			if key := s.x.keyOfFuncObj(obj); key != "" {
				s.call([]string{key}, n.Pos())
			} else if s.x.ownPkg(obj.Pkg()) != nil {
				s.fail(n, "call of %s: function not found", obj.Name())
			}
			return
		case *types.Var:
			// a local function value: only handler values taken from the path table are understood
			if s.isHandlerFunc(obj.Type()) {
				if len(s.held) != 0 {
					s.fail(n, "registered handler invoked while holding {%s}", s.held)
				}
				s.args(n.Args)
				return
			}
			s.fail(n, "call through function value %s", fun.Name)
		}
		s.fail(n, "unsupported callee %s", fun.Name)
	case *ast.SelectorExpr:
		sel := s.p.info.Selections[fun]
		if sel == nil {
			// pkg.Func
			s.args(n.Args)
			if fn, ok := s.p.info.Uses[fun.Sel].(*types.Func); ok {
				if key := s.x.keyOfFuncObj(fn); key != "" {
					s.call([]string{key}, n.Pos())
				} else if s.x.ownPkg(fn.Pkg()) != nil {
					s.fail(n, "call of %s.%s: function not found", fn.Pkg().Name(), fn.Name())
				}
			}
			return
		}
		switch sel.Kind() {
		case types.FieldVal:
			// call through a function-typed field
			fk, _ := s.x.fieldOfSel(s.p, fun)
			s.expr(fun, 'R')
			s.args(n.Args)
			if fk == "" {
				s.fail(n, "call through a function-typed field of an untracked struct")
			}
			if accCallbackFields[fk] {
				return
			}
			keys := s.x.fnFields[fk]
			if len(keys) == 0 {
				s.fail(n, "call through %s: no assignment of a method value found", fk)
			}
			s.call(keys, n.Pos())
			return
		case types.MethodVal:
			fn := sel.Obj().(*types.Func)
			if fn.Name() == "registerPath" && s.x.keyOfFuncObj(fn) == "muxerServer.registerPath" {
				if len(n.Args) != 2 {
					s.fail(n, "registerPath arity")
				}
				s.expr(fun.X, 'R')
				s.expr(n.Args[0], 'R')
				s.registerHandler(n.Args[1])
				s.call([]string{"muxerServer.registerPath"}, n.Pos())
				return
			}
			s.args(n.Args)
			if key := s.x.keyOfFuncObj(fn); key != "" {
				s.expr(fun.X, 'R')
				s.call([]string{key}, n.Pos())
				return
			}
			if op := s.x.ownPkg(fn.Pkg()); op != nil {
				// interface of one of the parsed packages: every concrete method of that name
				rn := s.x.namedOf(sel.Recv())
				if rn == nil {
					s.fail(n, "unresolvable method call")
				}
				if _, isIface := rn.Underlying().(*types.Interface); !isIface {
					s.fail(n, "method %s of %s not found", fn.Name(), rn.Obj().Name())
				}
				s.expr(fun.X, 'R')
				keys := s.x.implementers(rn, fn.Name())
				if len(keys) == 0 {
					s.fail(n, "no implementation of %s.%s found", rn.Obj().Name(), fn.Name())
				}
				s.call(keys, n.Pos())
				return
			}
			// method of an external type
			if fn.Pkg() != nil && fn.Pkg().Path() == "sync" {
				// sync.Cond: Wait keeps the (syntactic) lock state, Broadcast/Signal do not touch data
				if xs, ok := fun.X.(*ast.SelectorExpr); ok {
					s.expr(xs.X, 'R')
				}
				return
			}
			if xs, ok := fun.X.(*ast.SelectorExpr); ok {
				if fk, _ := s.x.fieldOfSel(s.p, xs); fk != "" {
					ft := s.x.fieldTyp[fk]
					_, isPtr := ft.Underlying().(*types.Pointer)
					_, isIface := ft.Underlying().(*types.Interface)
					if !isPtr && !isIface {
						if _, isStruct := ft.Underlying().(*types.Struct); isStruct {
							k, ok := accValueMethods[fk+"."+fn.Name()]
							if !ok {
								s.fail(n, "method %s called on struct-valued field %s: effect unknown", fn.Name(), fk)
							}
							s.expr(xs, k)
							return
						}
					}
				}
			}
			s.expr(fun.X, 'R')
			return
		}
	}
	s.fail(n, "unsupported call")
}

func (s *accScan) isHandlerFunc(t types.Type) bool {
	n, ok := t.(*types.Named)
	return ok && n.Obj().Pkg() != nil && n.Obj().Pkg().Path() == "net/http" && n.Obj().Name() == "HandlerFunc"
}

// implementers: concrete methods `name` of the named types (in the parsed packages) that implement the
// interface: every interface method present with the identical signature (compared as fully qualified
// strings, because the interface and the concrete type may come from two type-checking runs).
func (x *accX) implementers(iface *types.Named, name string) []string {
	it := iface.Underlying().(*types.Interface)
	sigOf := func(f *types.Func) string { // parameter and result types, names ignored
		sig := f.Type().(*types.Signature)
		var b strings.Builder
		for i := 0; i < sig.Params().Len(); i++ {
			b.WriteString(types.TypeString(sig.Params().At(i).Type(), nil) + ",")
		}
		if sig.Variadic() {
			b.WriteString("...")
		}
		b.WriteString("->")
		for i := 0; i < sig.Results().Len(); i++ {
			b.WriteString(types.TypeString(sig.Results().At(i).Type(), nil) + ",")
		}
		return b.String()
	}
	var out []string
	var rels []string
	for rel := range x.pkgs {
		rels = append(rels, rel)
	}
	sort.Strings(rels)
	for _, rel := range rels {
		p := x.pkgs[rel]
		names := p.pkg.Scope().Names()
		for _, tn := range names {
			obj, ok := p.pkg.Scope().Lookup(tn).(*types.TypeName)
			if !ok {
				continue
			}
			named, ok := obj.Type().(*types.Named)
			if !ok {
				continue
			}
			if _, isIface := named.Underlying().(*types.Interface); isIface {
				continue
			}
			ms := types.NewMethodSet(types.NewPointer(named))
			have := map[string]*types.Func{}
			for i := 0; i < ms.Len(); i++ {
				if f, ok := ms.At(i).Obj().(*types.Func); ok {
					have[f.Name()] = f
				}
			}
			all := true
			for i := 0; i < it.NumMethods(); i++ {
				m := it.Method(i)
				if h := have[m.Name()]; h == nil || sigOf(h) != sigOf(m) {
					all = false
				}
			}
			if !all || have[name] == nil {
				continue
			}
			key := x.keyOfFuncObj(have[name])
			if key == "" {
				fatalf("accesses: method %s of %s has no body in the parsed packages", name, tn)
			}
			out = append(out, key)
		}
	}
	return out
}

// ------------------------------------------------------------------ roles, entry lock sets, output

type accCtx struct{ fn, role string }

func (x *accX) emit() string {
	roots := map[string][]string{}
	for key := range x.funcs {
		switch {
		case key == "Muxer.Start":
			roots["init"] = append(roots["init"], key)
		case key == "Muxer.Close":
			roots["close"] = append(roots["close"], key)
		case key == "Muxer.Handle":
			roots["handler"] = append(roots["handler"], key)
		case strings.HasPrefix(key, "Muxer.Write") && ast.IsExported(strings.TrimPrefix(key, "Muxer.")):
			roots["writer"] = append(roots["writer"], key)
		}
	}
	seenH := map[string]bool{}
	for _, h := range x.handlers {
		if !seenH[h] {
			seenH[h] = true
			roots["handler"] = append(roots["handler"], h)
		}
	}
	for _, r := range []string{"init", "writer", "handler", "close"} {
		if len(roots[r]) == 0 {
			fatalf("accesses: no root for role %s", r)
		}
		sort.Strings(roots[r])
	}
	if len(roots["writer"]) < 6 {
		fatalf("accesses: expected the six Write* methods, found %v", roots["writer"])
	}

	// reachability per role
	reach := map[accCtx]bool{}
	for role, rs := range roots {
		var stack []string
		for _, r := range rs {
			reach[accCtx{r, role}] = true
			stack = append(stack, r)
		}
		for len(stack) > 0 {
			k := stack[len(stack)-1]
			stack = stack[:len(stack)-1]
			for _, c := range x.funcs[k].calls {
				for _, cal := range c.callees {
					if !reach[accCtx{cal, role}] {
						reach[accCtx{cal, role}] = true
						stack = append(stack, cal)
					}
				}
			}
		}
	}
	// entry lock sets: greatest fixpoint of  entry(f,r) = ⊓ over call sites in (g,r) of entry(g,r) ⊔ heldAt(site)
	top := accLocks{"M": 2, "S": 2, "F": 2}
	entry := map[accCtx]accLocks{}
	isRoot := map[accCtx]bool{}
	for role, rs := range roots {
		for _, r := range rs {
			isRoot[accCtx{r, role}] = true
		}
	}
	for c := range reach {
		if isRoot[c] {
			entry[c] = accLocks{}
		} else {
			entry[c] = top.clone()
		}
	}
	for changed := true; changed; {
		changed = false
		for c := range reach {
			base := entry[c]
			for _, site := range x.funcs[c.fn].calls {
				at := accJoin(base, site.locks)
				for _, cal := range site.callees {
					cc := accCtx{cal, c.role}
					if isRoot[cc] {
						continue
					}
					m := accMeet(entry[cc], at)
					if !m.equal(entry[cc]) {
						entry[cc] = m
						changed = true
					}
				}
			}
		}
	}

	// rows
	type outRow struct {
		fn, field string
		kind      byte
		locks     accLocks
		role      string
	}
	var rows []outRow
	fnSet := map[string]bool{}
	fieldSet := map[string]bool{}
	for k := range x.fieldTyp {
		if !isSyncType(x.fieldTyp[k]) {
			fieldSet[k] = true
		}
	}
	var ctxs []accCtx
	for c := range reach {
		ctxs = append(ctxs, c)
	}
	roleOrd := map[string]int{"init": 0, "writer": 1, "handler": 2, "close": 3}
	sort.Slice(ctxs, func(i, j int) bool {
		if ctxs[i].fn != ctxs[j].fn {
			return ctxs[i].fn < ctxs[j].fn
		}
		return roleOrd[ctxs[i].role] < roleOrd[ctxs[j].role]
	})
	for _, c := range ctxs {
		fnSet[c.fn] = true
		seen := map[string]bool{}
		for _, r := range x.funcs[c.fn].rows {
			locks := accJoin(entry[c], r.locks)
			id := fmt.Sprintf("%s|%c|%s", r.field, r.kind, locks)
			if seen[id] {
				continue
			}
			seen[id] = true
			rows = append(rows, outRow{c.fn, r.field, r.kind, locks, c.role})
		}
	}
	if len(rows) < 100 {
		fatalf("accesses: implausibly small table (%d rows)", len(rows))
	}

	lean := func(s string) string {
		return strings.NewReplacer(".", "_", "$", "_").Replace(s)
	}
	var fns, fields []string
	for k := range fnSet {
		fns = append(fns, k)
	}
	for k := range fieldSet {
		fields = append(fields, k)
	}
	sort.Strings(fns)
	sort.Strings(fields)

	var b strings.Builder
	b.WriteString("import Hls.Race.Lockset\n\nnamespace Hls.Gen\nopen Hls.Race\n\n")
	b.WriteString("/-- functions of muxer*.go, pkg/storage, pkg/codecs, pkg/codecparams reachable from Muxer.Start / Write* / Handle /\n    a registered handler / Close (`X_hN` = N-th function literal passed to registerPath inside X) -/\n")
	b.WriteString("inductive AccFn\n")
	for _, f := range fns {
		fmt.Fprintf(&b, "  | %s\n", lean(f))
	}
	b.WriteString("  deriving DecidableEq, Repr\n\n")
	b.WriteString("/-- data fields of the tracked structs (mutexes and condition variables are not data) -/\ninductive AccField\n")
	for _, f := range fields {
		fmt.Fprintf(&b, "  | %s\n", lean(f))
	}
	b.WriteString("  deriving DecidableEq, Repr\n\n")
	lockTerm := func(l accLocks) string {
		var parts []string
		for _, k := range []string{"M", "S", "F"} {
			switch l[k] {
			case 1:
				parts = append(parts, "(."+k+", .shared)")
			case 2:
				parts = append(parts, "(."+k+", .excl)")
			}
		}
		return "[" + strings.Join(parts, ", ") + "]"
	}
	kindTerm := map[byte]string{'R': ".r", 'W': ".w", 'A': ".addr", 'I': ".lit"}
	b.WriteString("/-- one row per syntactic access (function, field, kind, locks held, role) -/\n")
	b.WriteString("def accesses : List (Access AccFn AccField) := [\n")
	for i, r := range rows {
		sep := ","
		if i == len(rows)-1 {
			sep = ""
		}
		fmt.Fprintf(&b, "  ⟨.%s, .%s, %s, %s, .%s⟩%s\n", lean(r.fn), lean(r.field), kindTerm[r.kind], lockTerm(r.locks), r.role, sep)
	}
	b.WriteString("]\n\n")
	b.WriteString("/-- the handler roots: Muxer.Handle and everything passed to registerPath -/\n")
	b.WriteString("def handlerRoots : List AccFn := [")
	for i, h := range roots["handler"] {
		if i > 0 {
			b.WriteString(", ")
		}
		b.WriteString("." + lean(h))
	}
	b.WriteString("]\n\n")
	// call sites of registerPath / unregisterPath with the locks held there (publication points)
	b.WriteString("/-- (caller, role, locks held at the call) of every call of muxerServer.registerPath / unregisterPath -/\n")
	b.WriteString("def pathTableCalls : List (AccFn × Role × List (Lock × Mode)) := [\n")
	var pcs []string
	for _, c := range ctxs {
		for _, site := range x.funcs[c.fn].calls {
			for _, cal := range site.callees {
				if cal == "muxerServer.registerPath" || cal == "muxerServer.unregisterPath" {
					pcs = append(pcs, fmt.Sprintf("  (.%s, .%s, %s)", lean(c.fn), c.role, lockTerm(accJoin(entry[c], site.locks))))
				}
			}
		}
	}
	b.WriteString(strings.Join(pcs, ",\n"))
	b.WriteString("\n]\n\nend Hls.Gen\n")
	return b.String()
}
