package main

import (
	"fmt"
	"os"
	"path/filepath"
	"regexp"
	"strings"
)

// Gen/MuxerConsts.lean: the numeric constants the hand-written muxer model (lean/Hls/Muxer/Model.lean) uses,
// read from the Go source by exact textual patterns (each must match exactly once, otherwise extraction
// aborts). lean/Hls/Props/MuxerPins.lean pins the model's constants to these by `decide`, so that a changed
// constant breaks a proof obligation of every muxer property (in addition to the T2 difference).

func init() { registerGen("MuxerConsts.lean", genMuxerConsts) }

func genMuxerConsts(r *repo) string {
	read := func(name string) string {
		b, err := os.ReadFile(filepath.Join(r.root, name))
		if err != nil {
			fatalf("muxer consts: %v", err)
		}
		return string(b)
	}
	muxer := read("muxer.go")
	stream := read("muxer_stream.go")
	segmenter := read("muxer_segmenter.go")
	one := func(src, file, pat string) []string {
		re := regexp.MustCompile(pat)
		m := re.FindAllStringSubmatch(src, -1)
		if len(m) != 1 {
			fatalf("muxer consts: pattern %q matches %d times in %s (expected exactly once)", pat, len(m), file)
		}
		return m[0]
	}
	n := func(src, file, pat string) string { return one(src, file, pat)[1] }
	count := func(src, file, pat string, want int) string {
		re := regexp.MustCompile(pat)
		m := re.FindAllStringSubmatch(src, -1)
		if len(m) != want {
			fatalf("muxer consts: pattern %q matches %d times in %s (expected %d)", pat, len(m), file, want)
		}
		v := m[0][1]
		for _, x := range m {
			if x[1] != v {
				fatalf("muxer consts: pattern %q has different values in %s", pat, file)
			}
		}
		return v
	}
	var b strings.Builder
	b.WriteString("namespace Hls.Gen.Muxer\n\n")
	def := func(name, val, comment string) {
		fmt.Fprintf(&b, "/-- %s -/\ndef %s : Nat := %s\n\n", comment, name, val)
	}
	def("fmp4StartDTSSeconds", n(muxer, "muxer.go", `fmp4StartDTS\s*=\s*(\d+) \* time\.Second`), "`fmp4StartDTS = N * time.Second` (muxer.go)")
	def("mpegtsSegmentMinAUCount", n(muxer, "muxer.go", `mpegtsSegmentMinAUCount\s*=\s*(\d+)`), "`mpegtsSegmentMinAUCount` (muxer.go)")
	def("defaultSegmentCount", n(muxer, "muxer.go", `if m\.SegmentCount == 0 \{\s*m\.SegmentCount = (\d+)`), "default `SegmentCount`")
	def("defaultSegmentMinDurSeconds", n(muxer, "muxer.go", `if m\.SegmentMinDuration == 0 \{\s*m\.SegmentMinDuration = (\d+) \* time\.Second`), "default `SegmentMinDuration` (s)")
	def("defaultPartMinDurMs", n(muxer, "muxer.go", `if m\.PartMinDuration == 0 \{\s*m\.PartMinDuration = (\d+) \* time\.Millisecond`), "default `PartMinDuration` (ms)")
	sz := one(muxer, "muxer.go", `if m\.SegmentMaxSize == 0 \{\s*m\.SegmentMaxSize = (\d+) \* (\d+) \* (\d+)`)
	def("defaultSegmentMaxSize", sz[1]+" * "+sz[2]+" * "+sz[3], "default `SegmentMaxSize`")
	def("minSegmentCountLL", n(muxer, "muxer.go", `case MuxerVariantLowLatency:\s*if m\.SegmentCount < (\d+)`), "minimum `SegmentCount`, Low-Latency")
	def("minSegmentCount", n(muxer, "muxer.go", `default:\s*if m\.SegmentCount < (\d+)`), "minimum `SegmentCount`, other variants")
	def("llFirstSegmentID", n(muxer, "muxer.go", `if m\.Variant == MuxerVariantLowLatency \{\s*nextSegmentID = (\d+)`), "first segment id of a Low-Latency stream")
	def("llGapCount", n(stream, "muxer_stream.go", `for i := 0; i < (\d+); i\+\+ \{\s*s\.segments = append\(s\.segments, &muxerGap`), "number of initial gap entries")
	def("hasContentFMP4", n(stream, "muxer_stream.go", `if s\.variant == MuxerVariantFMP4 \{\s*return len\(s\.segments\) >= (\d+)`), "`hasContent`: segments needed in the fMP4 variant")
	def("hasContentOther", n(stream, "muxer_stream.go", `return len\(s\.segments\) >= (\d+)\n\}`), "`hasContent`: segments needed otherwise")
	def("partsWindow", count(stream, "muxer_stream.go", `\(len\(s\.segments\)\s*-\s*i\) <= (\d+)`, 2), "date-times and parts are listed for the last N segments (two sites)")
	hb := one(stream, "muxer_stream.go", `partHoldBack := \(s\.partTargetDuration \* (\d+)\) / (\d+)`)
	def("holdBackNum", hb[1], "PART-HOLD-BACK = PART-TARGET * num / den")
	def("holdBackDen", hb[2], "")
	def("skipFactor", n(stream, "muxer_stream.go", `skipBoundary := time\.Duration\(s\.targetDuration\) \* (\d+) \* time\.Second`), "CAN-SKIP-UNTIL = TARGETDURATION * N s")
	def("versionMPEGTS", n(stream, "muxer_stream.go", `pl := &playlist\.Media\{\s*Version:\s*(\d+),\s*AllowCache`), "playlist version, MPEG-TS")
	def("versionFMP4", n(stream, "muxer_stream.go", `pl := &playlist\.Media\{\s*Version:\s*(\d+),\s*TargetDuration`), "playlist version, fMP4 variants")
	def("msnAhead", n(stream, "muxer_stream.go", `msnint > \(s\.nextSegmentID\+(\d+)\)`), "`_HLS_msn` may be at most nextSegmentID + N")
	def("aacSamplesPerAU", "1024", "mpeg4audio.SamplesPerAccessUnit (mediacommon constant)")
	_ = segmenter
	b.WriteString("end Hls.Gen.Muxer\n")
	return b.String()
}
