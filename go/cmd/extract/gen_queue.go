package main

import (
	"bytes"
	"fmt"
	"go/ast"
	"go/printer"
	"go/token"
	"strings"
)

// Gen/QueueSkeleton.lean (C20): the ordered synchronisation-relevant statements of
// clientSegmentQueue.{push,waitUntilSizeIsBelow,pull} and the queue-relevant
// statements of their callers, as a term of Hls.Queue.Skel (lean/Hls/Queue/Skeleton.lean).
//
// go/ast only. The walker is a whitelist: every statement of the three queue
// methods must be one of the shapes below, and every access to q.queue / every
// close of a channel must sit lexically between q.mutex.Lock() and
// q.mutex.Unlock(); anything else aborts extraction (the tie is broken and the
// check reports it). What is deliberately NOT forced is the position of the reads
// of q.didPush / q.didPull relative to the Unlock: both placements are emitted
// faithfully (captureChanLocked / readChanUnlocked) because that is what the
// proofs of C20 depend on.

func init() { registerGen("QueueSkeleton.lean", genQueueSkeleton) }

func src(p *pkgSrc, n ast.Node) string {
	var b bytes.Buffer
	printer.Fprint(&b, p.fset, n)
	return b.String()
}

// ---------------------------------------------------------------- queue methods

type qwalk struct {
	p        *pkgSrc
	fn       string
	recv     string            // receiver identifier ("q")
	held     bool              // q.mutex lexically held
	out      []string          // Lean constructors
	captured map[string]string // local channel variable -> field it was read from
	wasEmpty string            // name of the `queueWasEmpty` local
	nParam   string            // name of the int parameter (waitUntilSizeIsBelow)
}

func (w *qwalk) fail(n ast.Node, format string, a ...any) {
	fatalf("queue skeleton: %s (%s): %s: %s", w.fn, w.p.fset.Position(n.Pos()), fmt.Sprintf(format, a...), src(w.p, n))
}

func (w *qwalk) emit(s string) { w.out = append(w.out, s) }

// isField reports whether e is `<recv>.<name>`.
func (w *qwalk) isField(e ast.Expr, name string) bool {
	se, ok := e.(*ast.SelectorExpr)
	if !ok || se.Sel.Name != name {
		return false
	}
	id, ok := se.X.(*ast.Ident)
	return ok && id.Name == w.recv
}

func (w *qwalk) chanField(e ast.Expr) (string, bool) {
	for _, c := range []string{"didPush", "didPull"} {
		if w.isField(e, c) {
			return c, true
		}
	}
	return "", false
}

// mutexCall recognises q.mutex.Lock() / q.mutex.Unlock().
func (w *qwalk) mutexCall(e ast.Expr) (string, bool) {
	call, ok := e.(*ast.CallExpr)
	if !ok || len(call.Args) != 0 {
		return "", false
	}
	se, ok := call.Fun.(*ast.SelectorExpr)
	if !ok || !w.isField(se.X, "mutex") {
		return "", false
	}
	return se.Sel.Name, true
}

func unparen(e ast.Expr) ast.Expr {
	for {
		p, ok := e.(*ast.ParenExpr)
		if !ok {
			return e
		}
		e = p.X
	}
}

// lenQueueCmp recognises `len(q.queue) <op> <rhs>`.
func (w *qwalk) lenQueueCmp(e ast.Expr) (token.Token, ast.Expr, bool) {
	be, ok := unparen(e).(*ast.BinaryExpr)
	if !ok {
		return 0, nil, false
	}
	call, ok := be.X.(*ast.CallExpr)
	if !ok || len(call.Args) != 1 {
		return 0, nil, false
	}
	if id, ok := call.Fun.(*ast.Ident); !ok || id.Name != "len" {
		return 0, nil, false
	}
	if !w.isField(call.Args[0], "queue") {
		return 0, nil, false
	}
	return be.Op, be.Y, true
}

func isIntLit(e ast.Expr, v string) bool {
	bl, ok := e.(*ast.BasicLit)
	return ok && bl.Kind == token.INT && bl.Value == v
}

// closeReplace recognises `close(q.c)` at list[i] followed by `q.c = make(chan struct{})`.
func (w *qwalk) closeReplace(list []ast.Stmt, i int) (string, bool) {
	es, ok := list[i].(*ast.ExprStmt)
	if !ok {
		return "", false
	}
	call, ok := es.X.(*ast.CallExpr)
	if !ok || len(call.Args) != 1 {
		return "", false
	}
	if id, ok := call.Fun.(*ast.Ident); !ok || id.Name != "close" {
		return "", false
	}
	c, ok := w.chanField(call.Args[0])
	if !ok {
		w.fail(list[i], "close of something that is not q.didPush/q.didPull")
	}
	if i+1 >= len(list) {
		w.fail(list[i], "close without replacement")
	}
	as, ok := list[i+1].(*ast.AssignStmt)
	if !ok || as.Tok != token.ASSIGN || len(as.Lhs) != 1 || len(as.Rhs) != 1 || !w.isField(as.Lhs[0], c) ||
		src(w.p, as.Rhs[0]) != "make(chan struct{})" {
		w.fail(list[i+1], "close(q.%s) is not followed by q.%s = make(chan struct{})", c, c)
	}
	if !w.held {
		w.fail(list[i], "channel closed and replaced without holding q.mutex")
	}
	return c, true
}

func (w *qwalk) stmts(list []ast.Stmt) {
	for i := 0; i < len(list); i++ {
		st := list[i]
		if c, ok := w.closeReplace(list, i); ok {
			w.emit(".closeReplace ." + c)
			i++
			continue
		}
		switch s := st.(type) {
		case *ast.ExprStmt:
			if m, ok := w.mutexCall(s.X); ok {
				switch m {
				case "Lock":
					if w.held {
						w.fail(s, "Lock while already holding q.mutex")
					}
					w.held = true
					w.emit(".lock")
				case "Unlock":
					if !w.held {
						w.fail(s, "Unlock without holding q.mutex")
					}
					w.held = false
					w.emit(".unlock")
				default:
					w.fail(s, "unexpected mutex method")
				}
				continue
			}
			if call, ok := s.X.(*ast.CallExpr); ok {
				if id, ok := call.Fun.(*ast.Ident); ok && id.Name == "verifYield" {
					continue // instrumentation (no-op without build tag verif)
				}
			}
			w.fail(s, "statement outside the whitelisted shapes")

		case *ast.DeclStmt:
			// `var seg *segmentData`
			gd, ok := s.Decl.(*ast.GenDecl)
			if !ok || gd.Tok != token.VAR {
				w.fail(s, "unexpected declaration")
			}
			for _, sp := range gd.Specs {
				if len(sp.(*ast.ValueSpec).Values) != 0 {
					w.fail(s, "declaration with initialiser")
				}
			}

		case *ast.AssignStmt:
			switch {
			// queueWasEmpty := (len(q.queue) == 0)
			case s.Tok == token.DEFINE && len(s.Lhs) == 1 && len(s.Rhs) == 1 && func() bool {
				op, rhs, ok := w.lenQueueCmp(s.Rhs[0])
				return ok && op == token.EQL && isIntLit(rhs, "0")
			}():
				if !w.held {
					w.fail(s, "q.queue read without holding q.mutex")
				}
				w.wasEmpty = s.Lhs[0].(*ast.Ident).Name
				w.emit(".checkEmpty")

			// q.queue = append(q.queue, seg)
			case s.Tok == token.ASSIGN && len(s.Lhs) == 1 && len(s.Rhs) == 1 && w.isField(s.Lhs[0], "queue"):
				call, ok := s.Rhs[0].(*ast.CallExpr)
				if !ok || len(call.Args) != 2 || !w.isField(call.Args[0], "queue") {
					w.fail(s, "assignment to q.queue that is not an append of one element")
				}
				if id, ok := call.Fun.(*ast.Ident); !ok || id.Name != "append" {
					w.fail(s, "assignment to q.queue that is not an append")
				}
				if !w.held {
					w.fail(s, "q.queue written without holding q.mutex")
				}
				w.emit(".append")

			// didPush := q.didPush
			case s.Tok == token.DEFINE && len(s.Lhs) == 1 && len(s.Rhs) == 1 && func() bool {
				_, ok := w.chanField(s.Rhs[0])
				return ok
			}():
				c, _ := w.chanField(s.Rhs[0])
				w.captured[s.Lhs[0].(*ast.Ident).Name] = c
				if w.held {
					w.emit(".captureChanLocked ." + c)
				} else {
					w.emit(".readChanUnlocked ." + c)
				}

			// seg, q.queue = q.queue[0], q.queue[1:]
			case s.Tok == token.ASSIGN && len(s.Lhs) == 2 && len(s.Rhs) == 2 && w.isField(s.Lhs[1], "queue"):
				if src(w.p, s.Rhs[0]) != w.recv+".queue[0]" || src(w.p, s.Rhs[1]) != w.recv+".queue[1:]" {
					w.fail(s, "unexpected pop shape")
				}
				if !w.held {
					w.fail(s, "q.queue popped without holding q.mutex")
				}
				w.emit(".popFront")

			default:
				w.fail(s, "assignment outside the whitelisted shapes")
			}

		case *ast.IfStmt:
			// if queueWasEmpty { close(q.c); q.c = make(chan struct{}) }
			id, ok := s.Cond.(*ast.Ident)
			if !ok || w.wasEmpty == "" || id.Name != w.wasEmpty || s.Else != nil || s.Init != nil || len(s.Body.List) != 2 {
				w.fail(s, "if statement outside the whitelisted shapes")
			}
			c, ok := w.closeReplace(s.Body.List, 0)
			if !ok {
				w.fail(s, "if queueWasEmpty body is not close+replace")
			}
			w.emit(".closeReplaceIfWasEmpty ." + c)

		case *ast.ForStmt:
			if s.Init != nil || s.Post != nil || s.Cond == nil {
				w.fail(s, "loop outside the whitelisted shapes")
			}
			op, rhs, ok := w.lenQueueCmp(s.Cond)
			if !ok {
				w.fail(s, "loop condition is not a comparison of len(q.queue)")
			}
			if !w.held {
				w.fail(s, "loop condition reads q.queue without holding q.mutex")
			}
			switch {
			case op == token.GTR && w.nParam != "" && src(w.p, rhs) == w.nParam:
				w.emit(".loopBegin .lenGtN")
			case op == token.EQL && isIntLit(rhs, "0"):
				w.emit(".loopBegin .lenEqZero")
			default:
				w.fail(s, "unexpected loop condition")
			}
			w.stmts(s.Body.List)
			if !w.held {
				w.fail(s, "loop body ends without holding q.mutex (the condition would be re-evaluated unlocked)")
			}
			w.emit(".loopEnd")

		case *ast.SelectStmt:
			if len(s.Body.List) != 2 {
				w.fail(s, "select with other than two cases")
			}
			var ch string
			sawChan, sawCtx := false, false
			for _, cc := range s.Body.List {
				cl := cc.(*ast.CommClause)
				es, ok := cl.Comm.(*ast.ExprStmt)
				if !ok {
					w.fail(s, "select case is not a plain receive")
				}
				ue, ok := es.X.(*ast.UnaryExpr)
				if !ok || ue.Op != token.ARROW {
					w.fail(s, "select case is not a receive")
				}
				if src(w.p, ue.X) == "ctx.Done()" {
					if len(cl.Body) != 1 {
						w.fail(s, "ctx.Done() arm does not just return")
					}
					if _, ok := cl.Body[0].(*ast.ReturnStmt); !ok {
						w.fail(s, "ctx.Done() arm does not return")
					}
					sawCtx = true
					continue
				}
				if len(cl.Body) != 0 {
					w.fail(s, "channel arm has a body")
				}
				if id, ok := ue.X.(*ast.Ident); ok {
					c, ok := w.captured[id.Name]
					if !ok {
						w.fail(s, "receive from an unknown channel variable")
					}
					ch = c
				} else if c, ok := w.chanField(ue.X); ok {
					// the channel field is evaluated when the select is entered
					if w.held {
						w.emit(".captureChanLocked ." + c)
					} else {
						w.emit(".readChanUnlocked ." + c)
					}
					ch = c
				} else {
					w.fail(s, "receive from something that is not a queue channel")
				}
				sawChan = true
			}
			if !sawChan || !sawCtx {
				w.fail(s, "select must have one channel arm and one ctx.Done() arm")
			}
			if w.held {
				w.fail(s, "blocking select while holding q.mutex")
			}
			w.emit(".recvOrCancel ." + ch)

		case *ast.ReturnStmt:
			if w.held {
				w.fail(s, "return while holding q.mutex")
			}
			w.emit(".ret")

		default:
			w.fail(st, "statement outside the whitelisted shapes")
		}
	}
}

func queueMethod(p *pkgSrc, name string) []string {
	fd := p.mustFunc("clientSegmentQueue", name)
	w := &qwalk{p: p, fn: name, captured: map[string]string{}}
	if len(fd.Recv.List[0].Names) != 1 {
		fatalf("queue skeleton: %s: unnamed receiver", name)
	}
	w.recv = fd.Recv.List[0].Names[0].Name
	for _, f := range fd.Type.Params.List {
		if id, ok := f.Type.(*ast.Ident); ok && id.Name == "int" && len(f.Names) == 1 {
			w.nParam = f.Names[0].Name
		}
	}
	w.stmts(fd.Body.List)
	if w.held {
		fatalf("queue skeleton: %s ends while holding q.mutex", name)
	}
	if n := len(fd.Body.List); n == 0 || func() bool { _, ok := fd.Body.List[n-1].(*ast.ReturnStmt); return !ok }() {
		w.emit(".ret") // implicit return at the end of the body
	}
	return w.out
}

// ---------------------------------------------------------------- callers

type cwalk struct {
	p   *pkgSrc
	fn  string
	out []string
}

func (w *cwalk) fail(n ast.Node, format string, a ...any) {
	fatalf("queue callers: %s (%s): %s: %s", w.fn, w.p.fset.Position(n.Pos()), fmt.Sprintf(format, a...), src(w.p, n))
}

// classify returns the CallStmt constructor for a call expression ("" = irrelevant).
func (w *cwalk) classify(call *ast.CallExpr) string {
	se, ok := call.Fun.(*ast.SelectorExpr)
	if !ok {
		return ""
	}
	firstIsCtx := len(call.Args) > 0 && src(w.p, call.Args[0]) == "ctx"
	if inner, ok := se.X.(*ast.SelectorExpr); ok && inner.Sel.Name == "segmentQueue" {
		switch se.Sel.Name {
		case "push":
			if len(call.Args) != 1 {
				w.fail(call, "push with other than one argument")
			}
			if id, ok := call.Args[0].(*ast.Ident); ok && id.Name == "nil" {
				return ".callPushNil"
			}
			return ".callPush"
		case "waitUntilSizeIsBelow":
			if len(call.Args) != 2 || !firstIsCtx {
				w.fail(call, "unexpected arguments")
			}
			bl, ok := call.Args[1].(*ast.BasicLit)
			if !ok || bl.Kind != token.INT {
				w.fail(call, "threshold is not an integer literal")
			}
			return ".callWaitBelow " + bl.Value
		case "pull":
			if len(call.Args) != 1 || !firstIsCtx {
				w.fail(call, "unexpected arguments")
			}
			return ".callPull"
		case "initialize":
			return ""
		default:
			w.fail(call, "unknown queue method")
		}
	}
	if _, ok := se.X.(*ast.Ident); ok {
		switch {
		case se.Sel.Name == "fillSegmentQueue" && firstIsCtx:
			return ".callFill"
		case strings.HasPrefix(se.Sel.Name, "download") && firstIsCtx:
			return ".download"
		case se.Sel.Name == "processSegment" && firstIsCtx:
			return ".callProcess"
		}
	}
	return ""
}

func (w *cwalk) callsIn(n ast.Node) []string {
	var out []string
	ast.Inspect(n, func(x ast.Node) bool {
		if _, ok := x.(*ast.FuncLit); ok {
			return false
		}
		if call, ok := x.(*ast.CallExpr); ok {
			if c := w.classify(call); c != "" {
				out = append(out, c)
			}
		}
		return true
	})
	return out
}

func isCtxWait(p *pkgSrc, st ast.Stmt) bool {
	es, ok := st.(*ast.ExprStmt)
	if !ok {
		return false
	}
	ue, ok := es.X.(*ast.UnaryExpr)
	return ok && ue.Op == token.ARROW && src(p, ue.X) == "ctx.Done()"
}

// relevant: does the subtree contain a classified call or a `<-ctx.Done()` statement?
func (w *cwalk) relevant(n ast.Node) bool {
	if len(w.callsIn(n)) > 0 {
		return true
	}
	found := false
	ast.Inspect(n, func(x ast.Node) bool {
		if st, ok := x.(ast.Stmt); ok && isCtxWait(w.p, st) {
			found = true
		}
		return !found
	})
	return found
}

// returnsIfNot checks that `next` is `if !<v> { return … }`.
func (w *cwalk) returnsIfNot(next ast.Stmt, v string) bool {
	is, ok := next.(*ast.IfStmt)
	if !ok || is.Else != nil || len(is.Body.List) != 1 {
		return false
	}
	if _, ok := is.Body.List[0].(*ast.ReturnStmt); !ok {
		return false
	}
	return src(w.p, is.Cond) == "!"+v
}

func (w *cwalk) stmts(list []ast.Stmt, top bool) {
	for i, st := range list {
		switch s := st.(type) {
		case *ast.ForStmt:
			if !w.relevant(s.Body) {
				continue
			}
			if s.Cond != nil || s.Init != nil || s.Post != nil {
				w.fail(s, "queue call inside a conditional loop")
			}
			w.out = append(w.out, ".loopBegin")
			w.stmts(s.Body.List, false)
			w.out = append(w.out, ".loopEnd")
		case *ast.IfStmt:
			if !w.relevant(s.Body) && (s.Else == nil || !w.relevant(s.Else)) {
				if s.Init != nil && len(w.callsIn(s.Init)) > 0 {
					w.fail(s, "queue call in an if-initialiser")
				}
				// a `continue` / `break` / `goto` here would let the loop skip queue calls that follow
				// (e.g. the throttle `waitUntilSizeIsBelow`): the extracted sequence would no longer be the program
				if !top {
					ast.Inspect(s, func(x ast.Node) bool {
						if _, ok := x.(*ast.FuncLit); ok {
							return false
						}
						if b, ok := x.(*ast.BranchStmt); ok {
							w.fail(b, "branch statement inside a loop that drives the segment queue")
						}
						return true
					})
				}
				continue // e.g. `if err != nil { return err }`
			}
			if s.Else != nil || s.Init != nil {
				w.fail(s, "queue call under an if with else/init")
			}
			cond := src(w.p, s.Cond)
			switch {
			case strings.Contains(cond, "Endlist"):
				w.out = append(w.out, ".ifLastBegin")
			case cond == "seg == nil":
				w.out = append(w.out, ".ifNilBegin")
			case cond == "pl.PreloadHint == nil" && strings.HasSuffix(w.fn, ".runLowLatency"):
				// fix-F28: `if pl.PreloadHint == nil { if pl.Endlist { push(nil); <-ctx.Done(); return }; return }`
				// — the same end-of-stream sentinel as in fillSegmentQueue; skeleton_shape pins the exact body
				w.out = append(w.out, ".ifNoHintBegin")
			default:
				w.fail(s, "queue call under an unexpected condition")
			}
			w.stmts(s.Body.List, true)
			w.out = append(w.out, ".ifEnd")
		case *ast.ReturnStmt:
			if top {
				w.out = append(w.out, ".ret")
			}
		case *ast.AssignStmt, *ast.ExprStmt:
			if isCtxWait(w.p, st) {
				w.out = append(w.out, ".ctxWait")
				continue
			}
			calls := w.callsIn(st)
			if len(calls) > 1 {
				w.fail(st, "more than one queue-relevant call in one statement")
			}
			if len(calls) == 0 {
				continue
			}
			c := calls[0]
			if c == ".callPull" || strings.HasPrefix(c, ".callWaitBelow") {
				// the ok result must be tested immediately: `if !ok { return … }`
				as, isAs := st.(*ast.AssignStmt)
				if !isAs || i+1 >= len(list) {
					w.fail(st, "result of a cancellable queue call is not checked")
				}
				okVar := as.Lhs[len(as.Lhs)-1].(*ast.Ident).Name
				if !w.returnsIfNot(list[i+1], okVar) {
					w.fail(st, "result of a cancellable queue call is not followed by `if !%s { return }`", okVar)
				}
			}
			w.out = append(w.out, c)
		case *ast.DeclStmt, *ast.DeferStmt, *ast.SwitchStmt, *ast.TypeSwitchStmt, *ast.RangeStmt, *ast.BlockStmt, *ast.GoStmt, *ast.SelectStmt, *ast.IncDecStmt:
			if w.relevant(st) {
				w.fail(st, "queue call inside an unsupported statement")
			}
		default:
			if w.relevant(st) {
				w.fail(st, "queue call inside an unsupported statement")
			}
		}
	}
}

func callerSkeleton(p *pkgSrc, recv, name string) []string {
	fd := p.mustFunc(recv, name)
	w := &cwalk{p: p, fn: recv + "." + name}
	w.stmts(fd.Body.List, true)
	return w.out
}

// processNilHead: the first statement of processSegment must be `if seg == nil { …; <-ctx.Done(); return … }`.
func processNilHead(p *pkgSrc, recv string) []string {
	fd := p.mustFunc(recv, "processSegment")
	w := &cwalk{p: p, fn: recv + ".processSegment"}
	if len(fd.Body.List) == 0 {
		fatalf("queue callers: %s.processSegment: empty body", recv)
	}
	is, ok := fd.Body.List[0].(*ast.IfStmt)
	if !ok {
		w.fail(fd.Body.List[0], "first statement is not the nil test")
	}
	w.stmts([]ast.Stmt{is}, true)
	return w.out
}

func leanList(xs []string) string { return "[" + strings.Join(xs, ", ") + "]" }

func genQueueSkeleton(r *repo) string {
	p := r.pkgs["."]
	push := queueMethod(p, "push")
	wait := queueMethod(p, "waitUntilSizeIsBelow")
	pull := queueMethod(p, "pull")

	runTrad := callerSkeleton(p, "clientStreamDownloader", "runTraditional")
	fill := callerSkeleton(p, "clientStreamDownloader", "fillSegmentQueue")
	runLL := callerSkeleton(p, "clientStreamDownloader", "runLowLatency")
	procF := callerSkeleton(p, "clientStreamProcessorFMP4", "run")
	procM := callerSkeleton(p, "clientStreamProcessorMPEGTS", "run")
	if leanList(procF) != leanList(procM) {
		fatalf("queue callers: the fMP4 and MPEG-TS processor loops differ: %v vs %v", procF, procM)
	}
	nilF := processNilHead(p, "clientStreamProcessorFMP4")
	nilM := processNilHead(p, "clientStreamProcessorMPEGTS")
	if leanList(nilF) != leanList(nilM) {
		fatalf("queue callers: the fMP4 and MPEG-TS nil-segment handling differ: %v vs %v", nilF, nilM)
	}

	// the queue must not be used anywhere else
	for fname, f := range p.files {
		for _, d := range f.Decls {
			fd, ok := d.(*ast.FuncDecl)
			if !ok || fd.Body == nil {
				continue
			}
			known := map[string]bool{"runTraditional": true, "fillSegmentQueue": true, "runLowLatency": true, "run": true}
			ast.Inspect(fd.Body, func(x ast.Node) bool {
				call, ok := x.(*ast.CallExpr)
				if !ok {
					return true
				}
				se, ok := call.Fun.(*ast.SelectorExpr)
				if !ok {
					return true
				}
				if inner, ok := se.X.(*ast.SelectorExpr); ok && inner.Sel.Name == "segmentQueue" && se.Sel.Name != "initialize" {
					if !known[fd.Name.Name] {
						fatalf("queue callers: unexpected use of the segment queue in %s (%s)", fd.Name.Name, fname)
					}
				}
				return true
			})
		}
	}

	arg := ""
	for _, c := range runTrad {
		if strings.HasPrefix(c, ".callWaitBelow ") {
			if arg != "" {
				fatalf("queue callers: runTraditional calls waitUntilSizeIsBelow more than once")
			}
			arg = strings.TrimPrefix(c, ".callWaitBelow ")
		}
	}
	if arg == "" {
		fatalf("queue callers: runTraditional does not call waitUntilSizeIsBelow")
	}

	var b strings.Builder
	b.WriteString("import Hls.Queue.Skeleton\n\nnamespace Hls.Gen\nopen Hls.Queue\n\n")
	b.WriteString("/-- sync skeleton of client_segment_queue.go and of the queue's callers, from the Go AST -/\n")
	b.WriteString("def queueSkeleton : Skel where\n")
	b.WriteString("  push := " + leanList(push) + "\n")
	b.WriteString("  waitBelow := " + leanList(wait) + "\n")
	b.WriteString("  pull := " + leanList(pull) + "\n")
	b.WriteString("  runTraditional := " + leanList(runTrad) + "\n")
	b.WriteString("  fillSegmentQueue := " + leanList(fill) + "\n")
	b.WriteString("  runLowLatency := " + leanList(runLL) + "\n")
	b.WriteString("  processorLoop := " + leanList(procF) + "\n")
	b.WriteString("  processNil := " + leanList(nilF) + "\n\n")
	b.WriteString("/-- the constant `runTraditional` passes to `waitUntilSizeIsBelow` -/\n")
	b.WriteString("def waitBelowArg : Nat := " + arg + "\n\n")
	b.WriteString("end Hls.Gen\n")
	return b.String()
}
