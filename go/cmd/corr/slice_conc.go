package main

// Correspondence / schedule-forcing slice `conc` (C06 concurrent half, C07).
//
// A case is a SCENARIO: a real Muxer (LL / fMP4 / MPEG-TS, RAM or Directory), real
// http handlers driven through httptest recorders in goroutines, a writer, Close —
// interleaved in an order that the op lines force through the verifYield points:
//
//	start v=ll|fmp4|ts dir=0|1 tr=v|va
//	w f=i|p rot=none|part|seg [hold=1]     one video frame (+ one AAC unit with tr=va); hold=1: stop the writer between Unlock and Broadcast
//	wrel                                   release the held writer
//	req id=N k=multi|plain|block|hint s=<stream> [msn= part= tgt=] [hid=]   start a request; runs until it returns or parks
//	close [hold=before|after]              Muxer.Close, optionally stopped before / after its Broadcast
//	crel [hold=after]                      release the held Close (optionally up to the next yield point)
//	st                                     print the state of every request
//	end                                    final state, TryLock probe, directory listing
//
// Every op runs to quiescence: after an op that broadcasts, every request that was
// parked has either returned or reached its `cond.Wait()` again. "Parked" is
// observed through the muxer.wait yield points (called with the mutex held, directly
// before cond.Wait) followed by a TryLock barrier; "blocked" = neither returned
// nor parked within the deadline.
//
// The Lean driver (lean/Drv/Conc.lean) executes the same ops on the interleaving
// machine whose thread programs are the REGENERATED skeleton. The direct oracle
// evaluates the texts of C07 and C06 on the observations of the real code only.

import (
	"fmt"
	"math/rand"
	"net/http"
	"net/http/httptest"
	"net/url"
	"os"
	"sort"
	"strconv"
	"strings"
	"sync"
	"sync/atomic"
	"time"

	"github.com/bluenviron/gohlslib/v2"
	"github.com/bluenviron/gohlslib/v2/pkg/codecs"
	"github.com/bluenviron/mediacommon/v2/pkg/codecs/mpeg4audio"
)

func init() { register(concSlice{}) }

type concSlice struct{}

func (concSlice) Name() string { return "conc" }

// baseline profile without POC (from /repo/muxer_test.go)
var concSPS = []byte{
	0x67, 0x42, 0xc0, 0x28, 0xd9, 0x00, 0x78, 0x02,
	0x27, 0xe5, 0x84, 0x00, 0x00, 0x03, 0x00, 0x04,
	0x00, 0x00, 0x03, 0x00, 0xf0, 0x3c, 0x60, 0xc9,
	0x20,
}

const (
	concFrameTicks = 18000 // 200 ms at 90 kHz
)

// concDeadline is how long an op waits before it reports `blocked` / `unsettled`. In a passing
// run no op ever waits that long (every op ends on an event), so the value only matters for
// robustness against a loaded machine (generous in `gen` mode) and for the length of failing
// runs (shorter when a single case is replayed by the shrinker).
var concDeadline = func() time.Duration {
	if len(os.Args) > 1 && os.Args[1] == "replay" {
		return 800 * time.Millisecond
	}
	return 4 * time.Second
}()

// concStuckCases counts cases in which something did not come back within the deadline. Such
// cases are failures already; to keep a failing run short the rest of a stuck case, and every
// case after the third stuck one, runs with a short deadline (the run is red by then; a
// too short deadline can only add spurious `blocked` observations to an already failing run).
var concStuckCases atomic.Int64

func (r *concRunner) deadline() time.Duration {
	switch {
	case r.stuck:
		return 40 * time.Millisecond
	case concStuckCases.Load() >= 8:
		return 25 * time.Millisecond
	case concStuckCases.Load() >= 3:
		return 100 * time.Millisecond
	}
	return concDeadline
}

func (r *concRunner) setStuck() {
	if !r.stuck {
		r.stuck = true
		concStuckCases.Add(1)
	}
}

var concTime0 = time.Date(2010, 1, 1, 1, 1, 1, 0, time.UTC)

// ---------------------------------------------------------------------------------------------
// runner

type concReq struct {
	id      int
	kind    string
	sid     int
	msn     int
	part    int
	hid     int
	hasPart bool
	done    bool
	status  int
	body    string
	// bookkeeping for the oracle
	afterClose   bool // issued after Close had returned
	pendingClose bool // pending (parked) when Close returned
	blockedAtReq bool
}

type concRunner struct {
	m       *gohlslib.Muxer
	variant string
	dir     string
	vtrack  *gohlslib.Track
	atrack  *gohlslib.Track
	frame   int

	mu       sync.Mutex // protects reqs' done/status, hold settings
	reqs     []*concReq
	arrivals atomic.Int64

	holdPoint   string // yield point at which the closer / writer is to be held
	arrived     chan string
	release     chan struct{}
	closeDone   chan struct{}
	writeDone   chan error
	closeHeld   bool
	closeAt     string // start | before | after | done
	writerHeld  bool
	writerStuck bool
	closed      bool // Close has returned
	closeCalled bool
	stuck       bool // some goroutine did not come back (only in failing runs)
	oracle      []string
}

func (concSlice) NewRunner() Runner { return &concRunner{} }

func (r *concRunner) hook(point string) {
	if point == "muxer.wait" { // before every cond.Wait() of a handler, mutex held
		r.arrivals.Add(1)
		return
	}
	r.mu.Lock()
	hp := r.holdPoint
	r.mu.Unlock()
	if hp != "" && point == hp {
		r.arrived <- point
		<-r.release
	}
}

func (r *concRunner) setHold(p string) {
	r.mu.Lock()
	r.holdPoint = p
	r.mu.Unlock()
}

func concKV(ws []string, k string) string {
	for _, w := range ws {
		if strings.HasPrefix(w, k+"=") {
			return w[len(k)+1:]
		}
	}
	return ""
}

func concAtoi(s string) int { v, _ := strconv.Atoi(s); return v }

func (r *concRunner) waitUntil(cond func() bool) bool {
	dl := time.Now().Add(r.deadline())
	for i := 0; ; i++ {
		if cond() {
			return true
		}
		if time.Now().After(dl) {
			return false
		}
		if i < 200 {
			time.Sleep(5 * time.Microsecond)
		} else {
			time.Sleep(100 * time.Microsecond)
		}
	}
}

// barrier: the muxer mutex can be taken, i.e. every goroutine that passed a wait:* point has parked.
func (r *concRunner) barrier() bool {
	return r.waitUntil(func() bool { return gohlslib.VerifMuxerTryLock(r.m) })
}

func (r *concRunner) parkedReqs() []*concReq {
	r.mu.Lock()
	defer r.mu.Unlock()
	var l []*concReq
	for _, q := range r.reqs {
		if !q.done && !q.blockedAtReq {
			l = append(l, q)
		}
	}
	return l
}

func (r *concRunner) doneCount(l []*concReq) int {
	r.mu.Lock()
	defer r.mu.Unlock()
	n := 0
	for _, q := range l {
		if q.done {
			n++
		}
	}
	return n
}

// settle: after a broadcast, every request in `woken` returns or re-parks.
func (r *concRunner) settle(woken []*concReq, base int64) bool {
	ok := r.waitUntil(func() bool {
		return int64(r.doneCount(woken))+(r.arrivals.Load()-base) >= int64(len(woken))
	})
	if !ok {
		return false
	}
	return r.barrier()
}

func (r *concRunner) reqState(q *concReq) string {
	r.mu.Lock()
	defer r.mu.Unlock()
	if q.done {
		return fmt.Sprintf("%d=done:%d", q.id, q.status)
	}
	if q.blockedAtReq {
		return fmt.Sprintf("%d=blocked", q.id)
	}
	return fmt.Sprintf("%d=parked", q.id)
}

func (r *concRunner) states() string {
	var l []string
	for _, q := range r.reqs {
		l = append(l, r.reqState(q))
	}
	if len(l) == 0 {
		return "-"
	}
	return strings.Join(l, " ")
}

func (r *concRunner) counters() string {
	if !r.barrier() {
		return "locked"
	}
	ns, np, _, _ := gohlslib.VerifMuxerStreamCounters(r.m, 0)
	if r.variant == "ts" {
		return fmt.Sprintf("ns=%d", ns)
	}
	return fmt.Sprintf("ns=%d np=%d", ns, np)
}

func (r *concRunner) Step(line string) []string {
	ws := strings.Fields(line)
	if len(ws) == 0 {
		return nil
	}
	switch ws[0] {
	case "start":
		return r.start(ws)
	case "w":
		return r.write(ws)
	case "wrel":
		return r.wrel()
	case "req":
		return r.req(ws)
	case "close":
		return r.doClose(ws)
	case "crel":
		return r.crel(ws)
	case "st":
		return []string{"st " + r.states()}
	case "end":
		return r.end()
	}
	return []string{"bad-op"}
}

func (r *concRunner) start(ws []string) []string {
	r.variant = concKV(ws, "v")
	r.vtrack = &gohlslib.Track{Codec: &codecs.H264{SPS: concSPS, PPS: []byte{0x08}}, ClockRate: 90000}
	tracks := []*gohlslib.Track{r.vtrack}
	if concKV(ws, "tr") == "va" {
		r.atrack = &gohlslib.Track{
			Codec:     &codecs.MPEG4Audio{Config: mpeg4audio.Config{Type: 2, SampleRate: 44100, ChannelCount: 2}},
			ClockRate: 44100,
		}
		tracks = append(tracks, r.atrack)
	}
	m := &gohlslib.Muxer{
		SegmentCount:       7,
		SegmentMinDuration: 1 * time.Second,
		PartMinDuration:    200 * time.Millisecond,
		Tracks:             tracks,
		OnEncodeError:      func(error) {},
	}
	switch r.variant {
	case "ll":
		m.Variant = gohlslib.MuxerVariantLowLatency
	case "fmp4":
		m.Variant = gohlslib.MuxerVariantFMP4
	default:
		m.Variant = gohlslib.MuxerVariantMPEGTS
	}
	if concKV(ws, "dir") == "1" {
		d, err := os.MkdirTemp("", "verif-conc-")
		if err != nil {
			return []string{"start err:mkdir"}
		}
		r.dir = d
		m.Directory = d
	}
	if err := m.Start(); err != nil {
		return []string{"start err:" + err.Error()}
	}
	r.m = m
	r.arrived = make(chan string, 4)
	r.release = make(chan struct{})
	gohlslib.VerifSetYieldHook(r.hook)
	return []string{fmt.Sprintf("start streams=%d", gohlslib.VerifMuxerStreamCount(m))}
}

func (r *concRunner) writeFrame(idr bool) error {
	n := r.frame
	r.frame++
	var au [][]byte
	if idr {
		au = [][]byte{concSPS, {8}, {5}}
	} else {
		au = [][]byte{{1}}
	}
	ntp := concTime0.Add(time.Duration(n) * 200 * time.Millisecond)
	err := r.m.WriteH264(r.vtrack, ntp, int64(n)*concFrameTicks, au)
	if err != nil {
		return err
	}
	if r.atrack != nil {
		return r.m.WriteMPEG4Audio(r.atrack, ntp, int64(n)*8820, [][]byte{{1, 2, 3, 4}})
	}
	return nil
}

func (r *concRunner) write(ws []string) []string {
	if r.m == nil || r.writerHeld {
		return []string{"bad-op"}
	}
	if r.writerStuck { // an earlier Write* call never came back: the single writer cannot call again
		return []string{"w blocked"}
	}
	idr := concKV(ws, "f") == "i"
	hold := concKV(ws, "hold") == "1"
	woken := r.parkedReqs()
	base := r.arrivals.Load()
	if hold {
		r.setHold("rot:beforeBroadcast")
	}
	r.writeDone = make(chan error, 1)
	go func() {
		defer func() {
			if e := recover(); e != nil {
				r.writeDone <- fmt.Errorf("panic: %v", e)
			}
		}()
		r.writeDone <- r.writeFrame(idr)
	}()
	select {
	case <-r.arrived:
		r.writerHeld = true
		return []string{"w held"}
	case err := <-r.writeDone:
		r.setHold("")
		if err != nil {
			return []string{"w err"}
		}
		rot := concKV(ws, "rot")
		if rot != "none" && !r.settle(woken, base) {
			r.setStuck()
			return []string{"w unsettled " + r.counters()}
		}
		return []string{"w " + r.counters()}
	case <-time.After(r.deadline()):
		r.setStuck()
		r.writerStuck = true
		r.setHold("")
		return []string{"w blocked"}
	}
}

func (r *concRunner) wrel() []string {
	if !r.writerHeld {
		return []string{"bad-op"}
	}
	woken := r.parkedReqs()
	base := r.arrivals.Load()
	r.setHold("")
	r.writerHeld = false
	r.release <- struct{}{}
	select {
	case err := <-r.writeDone:
		if err != nil {
			return []string{"w err"}
		}
	case <-time.After(r.deadline()):
		r.setStuck()
		r.writerStuck = true
		return []string{"w blocked"}
	}
	if !r.settle(woken, base) {
		r.setStuck()
		return []string{"w unsettled " + r.counters()}
	}
	return []string{"w " + r.counters()}
}

func (r *concRunner) req(ws []string) []string {
	if r.m == nil {
		return []string{"bad-op"}
	}
	q := &concReq{id: concAtoi(concKV(ws, "id")), kind: concKV(ws, "k"), sid: concAtoi(concKV(ws, "s")),
		msn: concAtoi(concKV(ws, "msn")), part: concAtoi(concKV(ws, "part")), hid: concAtoi(concKV(ws, "hid")),
		hasPart: concKV(ws, "part") != ""}
	if q.sid >= gohlslib.VerifMuxerStreamCount(r.m) {
		return []string{"bad-op"}
	}
	if q.kind == "hint" && gohlslib.VerifMuxerTryLock(r.m) {
		// only the currently advertised preload hint is a valid target (anything else is either the
		// real part handler or an unknown path); keeps shrunk scenarios meaningful
		_, np, _, _ := gohlslib.VerifMuxerStreamCounters(r.m, q.sid)
		if r.variant != "ll" || np == 0 || uint64(q.hid) != np {
			return []string{"bad-op"}
		}
	}
	var pq string
	switch q.kind {
	case "multi":
		pq = "index.m3u8"
	case "plain":
		pq = gohlslib.VerifMuxerMediaPlaylistPath(r.m, q.sid)
	case "block":
		pq = gohlslib.VerifMuxerMediaPlaylistPath(r.m, q.sid) + "?_HLS_msn=" + concKV(ws, "msn")
		if p := concKV(ws, "part"); p != "" {
			pq += "&_HLS_part=" + p
		}
	case "hint":
		pq = gohlslib.VerifMuxerPartPath(r.m, q.sid, uint64(q.hid))
	default:
		return []string{"bad-op"}
	}
	r.mu.Lock()
	q.afterClose = r.closed
	r.reqs = append(r.reqs, q)
	r.mu.Unlock()
	base := r.arrivals.Load()
	u, _ := url.Parse("http://localhost/" + pq)
	go func() {
		rec := httptest.NewRecorder()
		r.m.Handle(rec, &http.Request{Method: "GET", URL: u})
		r.mu.Lock()
		q.done, q.status, q.body = true, rec.Code, rec.Body.String()
		r.mu.Unlock()
	}()
	ok := r.waitUntil(func() bool {
		r.mu.Lock()
		d := q.done
		r.mu.Unlock()
		return d || r.arrivals.Load() > base
	})
	if !ok {
		r.mu.Lock()
		q.blockedAtReq = true
		r.mu.Unlock()
		r.setStuck()
		return []string{fmt.Sprintf("req %d blocked", q.id)}
	}
	r.mu.Lock()
	d, st := q.done, q.status
	r.mu.Unlock()
	if d {
		r.checkAnswer(q)
		return []string{fmt.Sprintf("req %d done:%d", q.id, st)}
	}
	// parked: make sure it is inside cond.Wait. The barrier cannot succeed while a held
	// closer/writer is outside its critical section? It can: hold points are outside the mutex.
	if !r.barrier() {
		r.setStuck()
		return []string{fmt.Sprintf("req %d parked-nobarrier", q.id)}
	}
	return []string{fmt.Sprintf("req %d parked", q.id)}
}

func (r *concRunner) doClose(ws []string) []string {
	if r.m == nil || r.closeCalled {
		return []string{"bad-op"}
	}
	r.closeCalled = true
	hold := concKV(ws, "hold")
	if hold != "" {
		r.setHold("close:" + hold + "Broadcast")
	}
	r.closeDone = make(chan struct{})
	r.closeAt = "start"
	woken, base := r.parkedReqs(), r.arrivals.Load()
	go func() { r.m.Close(); close(r.closeDone) }()
	return r.closeProgress(woken, base)
}

// closeProgress waits until Close is held at its next yield point or has returned. A leg that
// crosses the Broadcast wakes every parked request; the op ends when all of them have returned
// or parked again.
func (r *concRunner) closeProgress(woken []*concReq, base int64) []string {
	from := r.closeAt
	finish := func(to string) bool {
		r.closeAt = to
		crosses := from != "after" && to != "before"
		if crosses {
			return r.settle(woken, base)
		}
		return r.barrier()
	}
	select {
	case p := <-r.arrived:
		r.closeHeld = true
		to := "after"
		if p == "close:beforeBroadcast" {
			to = "before"
		}
		if !finish(to) {
			r.setStuck()
			return []string{"close held unsettled"}
		}
		return []string{"close held"}
	case <-r.closeDone:
		r.setHold("")
		r.closeHeld = false
		settled := finish("done")
		r.mu.Lock()
		r.closed = true
		for _, q := range r.reqs {
			if !q.done {
				q.pendingClose = true
			}
		}
		r.mu.Unlock()
		if !settled {
			r.setStuck()
			return []string{"close done unsettled"}
		}
		return []string{"close done"}
	case <-time.After(r.deadline()):
		r.setStuck()
		r.setHold("")
		return []string{"close blocked"}
	}
}

func (r *concRunner) crel(ws []string) []string {
	if !r.closeHeld {
		return []string{"bad-op"}
	}
	hold := concKV(ws, "hold")
	if hold != "" {
		r.setHold("close:" + hold + "Broadcast")
	} else {
		r.setHold("")
	}
	r.closeHeld = false
	woken, base := r.parkedReqs(), r.arrivals.Load()
	r.release <- struct{}{}
	return r.closeProgress(woken, base)
}

func (r *concRunner) end() []string {
	if r.m == nil {
		return []string{"end -"}
	}
	// a held closer/writer is released so that nothing leaks in passing runs
	lock := "held"
	if r.barrier() {
		lock = "free"
	}
	dir := "na"
	if r.closed && r.dir != "" {
		ents, err := os.ReadDir(r.dir)
		switch {
		case err != nil:
			dir = "err"
		case len(ents) == 0:
			dir = "empty"
		default:
			dir = fmt.Sprintf("files:%d", len(ents))
		}
	}
	// ---- direct oracle, C07 (written from the property text) ----
	r.mu.Lock()
	if r.closed {
		for _, q := range r.reqs {
			switch {
			case q.pendingClose && !q.done:
				r.oracle = append(r.oracle, fmt.Sprintf("C07: request %d (%s) was pending when Close returned and has not completed within the deadline", q.id, q.kind))
			case q.pendingClose && q.done && q.status == 200:
				r.oracle = append(r.oracle, fmt.Sprintf("C07: request %d (%s) was blocked when Close returned and completed with status 200", q.id, q.kind))
			case q.afterClose && !q.done:
				r.oracle = append(r.oracle, fmt.Sprintf("C07: request %d (%s) issued after Close returned has not completed within the deadline", q.id, q.kind))
			}
		}
		if lock != "free" {
			r.oracle = append(r.oracle, "C07: muxer mutex still held after Close returned and all requests settled")
		}
		if dir != "na" && dir != "empty" {
			r.oracle = append(r.oracle, "C07: Directory not empty after Close: "+dir)
		}
	} else if r.closeCalled && !r.closeHeld {
		r.oracle = append(r.oracle, "C07: Close did not return within the deadline")
	}
	r.mu.Unlock()
	// ---- direct oracle, C06 (no lost wake-up): a parked request whose target is published ----
	if !r.closeCalled && lock == "free" && !r.writerHeld {
		for _, q := range r.parkedReqs() {
			if r.published(q) {
				r.oracle = append(r.oracle, fmt.Sprintf("C06: request %d (%s) is still blocked although what it waits for is published and the writer is idle", q.id, q.kind))
			}
		}
	}
	return []string{fmt.Sprintf("end lock=%s dir=%s %s", lock, dir, r.states())}
}

// published: is what the request waits for available now (from the exported counters only)?
func (r *concRunner) published(q *concReq) bool {
	ns, np, hc, open := gohlslib.VerifMuxerStreamCounters(r.m, q.sid)
	switch q.kind {
	case "multi":
		_, _, hc0, _ := gohlslib.VerifMuxerStreamCounters(r.m, 0)
		return hc0
	case "plain":
		return hc
	case "hint":
		return np > uint64(q.hid)
	case "block":
		if !q.hasPart {
			return hc && uint64(q.msn) < ns // the complete segment is listed
		}
		// only the unambiguous case: a part index of the open segment
		return hc && uint64(q.msn) == ns && q.part < open
	}
	return false
}

// checkAnswer: C06 safety, evaluated on the response itself: a 200 answer to a blocking
// request for part P of the open segment lists that part; a 200 answer of the hint is non-empty.
func (r *concRunner) checkAnswer(q *concReq) {
	r.mu.Lock()
	defer r.mu.Unlock()
	if q.status != 200 {
		return
	}
	switch q.kind {
	case "hint":
		if len(q.body) == 0 {
			r.oracle = append(r.oracle, fmt.Sprintf("C06: preload hint request %d answered 200 with an empty body", q.id))
		}
	case "multi", "plain", "block":
		if !strings.HasPrefix(q.body, "#EXTM3U") {
			r.oracle = append(r.oracle, fmt.Sprintf("C06: request %d answered 200 without a playlist", q.id))
		}
	}
}

func (r *concRunner) Oracle() []string { return r.oracle }

func (r *concRunner) Close() {
	if r.m != nil {
		// release anything still held, close the muxer if the scenario did not (bounded)
		r.setHold("")
		if r.closeHeld || r.writerHeld {
			select {
			case r.release <- struct{}{}:
			case <-time.After(50 * time.Millisecond):
			}
		}
		if !r.closeCalled && !r.stuck {
			done := make(chan struct{})
			go func() { r.m.Close(); close(done) }()
			select {
			case <-done:
			case <-time.After(r.deadline()):
			}
		}
		gohlslib.VerifSetYieldHook(nil)
	}
	if r.dir != "" {
		os.RemoveAll(r.dir)
	}
}

// ---------------------------------------------------------------------------------------------
// generator: simulates the counters of the muxer for the fixed frame pattern so that the op lines
// carry what the model needs (`rot=`, `tgt=`) — a wrong prediction shows up as a correspondence diff.

type concSim struct {
	variant   string
	frames    int
	started   bool // a segment is open
	segStart  int  // frame index at which the open segment started
	partStart int
	ns, np    int
	// LL: part counts of complete real segments still listed (id -> parts), ids of listed segments
	segParts  map[int]int
	listed    []int // ids of listed real segments (gaps not included)
	gaps      int
	openParts int
}

func newConcSim(v string) *concSim {
	s := &concSim{variant: v, segParts: map[int]int{}}
	if v == "ll" {
		s.ns = 7
	}
	return s
}

// frame advances the simulation by one video frame and returns the rotation it causes.
func (s *concSim) frame(idr bool) string {
	n := s.frames
	s.frames++
	if s.variant == "ts" {
		if !s.started {
			s.started, s.segStart = true, n
			return "none"
		}
		if idr && n-s.segStart >= 5 {
			s.rotSeg(n)
			return "seg"
		}
		return "none"
	}
	// fMP4 variants: one sample of look-ahead
	if n == 0 {
		return "none"
	}
	if !s.started {
		s.started, s.segStart, s.partStart = true, n-1, n-1
	}
	if idr && n-s.segStart >= 5 {
		s.rotSeg(n)
		return "seg"
	}
	if s.variant == "ll" && n-s.partStart >= 1 {
		s.np++
		s.openParts++
		s.partStart = n
		return "part"
	}
	return "none"
}

func (s *concSim) rotSeg(n int) {
	if s.variant != "ts" {
		s.np++
		s.openParts++
	}
	if s.variant == "ll" && len(s.listed) == 0 && s.gaps == 0 {
		s.gaps = 7
	}
	s.segParts[s.ns] = s.openParts
	s.listed = append(s.listed, s.ns)
	if s.gaps+len(s.listed) > 7 {
		if s.gaps > 0 {
			s.gaps--
		} else {
			s.listed = s.listed[1:]
		}
	}
	s.ns++
	s.openParts = 0
	s.segStart, s.partStart = n, n
}

func (s *concSim) hasContent() bool {
	n := s.gaps + len(s.listed)
	if s.variant == "fmp4" {
		return n >= 2
	}
	return n >= 1
}

// hasPart mirrors muxerStream.hasPart (roll-over to part 0 of the following segment, which may
// be the open one).
func (s *concSim) hasPart(msn, part int) bool {
	if msn == s.ns {
		return part < s.openParts
	}
	for _, id := range s.listed {
		if id == msn {
			if part >= s.segParts[id] {
				msn++
				part = 0
				continue
			}
			return true
		}
	}
	if msn == s.ns {
		return part < s.openParts
	}
	return false
}

// ready mirrors the blocking-reload test of handleMediaPlaylist: with _HLS_part the part must be
// published, without it the whole segment must be complete.
func (s *concSim) ready(msn, part int) bool {
	if !s.hasContent() {
		return false
	}
	if part < 0 {
		return msn < s.ns
	}
	return s.hasPart(msn, part)
}

type concPendingBlock struct {
	opIdx     int
	msn, part int
}

func (concSlice) Gen(rng *rand.Rand, i int, tier string) ([]string, []string) {
	variant := []string{"ll", "ll", "ll", "fmp4", "ts"}[rng.Intn(5)]
	tr := []string{"v", "va"}[rng.Intn(2)]
	dir := rng.Intn(3) == 0
	nStreams := 1
	if tr == "va" && variant != "ts" {
		nStreams = 2
	}
	sim := newConcSim(variant)
	var ops []string
	tags := []string{"v:" + variant, "tr:" + tr}
	if dir {
		tags = append(tags, "dir")
	}
	ops = append(ops, fmt.Sprintf("start v=%s dir=%d tr=%s", variant, concB2i(dir), tr))
	var blocks []concPendingBlock
	nextID := 1
	writerHeld := false

	write := func(hold bool) {
		idr := sim.frames == 0 || (sim.started && sim.frames-sim.segStart >= 5 && rng.Intn(3) > 0) || rng.Intn(12) == 0
		rot := sim.frame(idr)
		// resolve targets of pending blocking requests
		if sim.variant == "ll" {
			for k := range blocks {
				b := &blocks[k]
				if b.opIdx >= 0 && sim.ready(b.msn, b.part) {
					ops[b.opIdx] = strings.Replace(ops[b.opIdx], "tgt=?", fmt.Sprintf("tgt=%d", sim.np), 1)
					b.opIdx = -1
				}
			}
		}
		f := "p"
		if idr {
			f = "i"
		}
		l := fmt.Sprintf("w f=%s rot=%s", f, rot)
		if hold && rot != "none" {
			l += " hold=1"
			writerHeld = true
			tags = append(tags, "writer-held")
		}
		ops = append(ops, l)
	}
	release := func() {
		if writerHeld {
			ops = append(ops, "wrel")
			writerHeld = false
		}
	}
	request := func() {
		kinds := []string{"multi", "plain"}
		if variant == "ll" {
			kinds = append(kinds, "block", "block", "hint", "hint")
		}
		k := kinds[rng.Intn(len(kinds))]
		sid := rng.Intn(nStreams)
		id := nextID
		nextID++
		switch k {
		case "hint":
			if sim.np == 0 {
				k = "plain"
			}
		}
		tags = append(tags, "req:"+k)
		switch k {
		case "multi":
			ops = append(ops, fmt.Sprintf("req id=%d k=multi s=0", id))
		case "plain":
			ops = append(ops, fmt.Sprintf("req id=%d k=plain s=%d", id, sid))
		case "hint":
			ops = append(ops, fmt.Sprintf("req id=%d k=hint s=%d hid=%d", id, sid, sim.np))
		case "block":
			var msn, part int
			switch c := rng.Intn(10); {
			case c < 5: // a part of the open segment, present or up to 2 ahead
				msn, part = sim.ns, rng.Intn(sim.openParts+3)
				tags = append(tags, "block:open")
			case c < 6: // first part of the next segment
				msn, part = sim.ns+1, 0
				tags = append(tags, "block:next")
			case c < 7: // a complete segment
				msn, part = sim.ns-1, 0
				tags = append(tags, "block:complete")
			case c < 8: // far future
				msn, part = sim.ns+2+rng.Intn(3), rng.Intn(2)
				tags = append(tags, "block:future")
			case c < 9: // expired
				msn, part = sim.ns-7-rng.Intn(3), 0
				if msn < 0 {
					msn = 0
				}
				tags = append(tags, "block:expired")
			default: // whole segment (no part)
				msn, part = sim.ns, -1
				tags = append(tags, "block:msn-only")
			}
			ps := ""
			if part >= 0 {
				ps = fmt.Sprintf(" part=%d", part)
			}
			l := fmt.Sprintf("req id=%d k=block s=%d msn=%d%s tgt=?", id, sid, msn, ps)
			if sim.ready(msn, part) {
				l = strings.Replace(l, "tgt=?", fmt.Sprintf("tgt=%d", sim.np), 1)
				ops = append(ops, l)
			} else {
				ops = append(ops, l)
				blocks = append(blocks, concPendingBlock{opIdx: len(ops) - 1, msn: msn, part: part})
			}
		}
	}

	// phase 1: life before Close
	pre := []int{0, 0, 1, 2, 3, 6, 7, 8, 13, 20}[rng.Intn(10)]
	for k := 0; k < pre; k++ {
		write(false)
	}
	switch {
	case pre == 0:
		tags = append(tags, "close:before-data")
	case sim.openParts > 0:
		tags = append(tags, "at:mid-segment")
	default:
		tags = append(tags, "at:segment-start")
	}
	rounds := 1 + rng.Intn(3)
	for k := 0; k < rounds; k++ {
		for j := rng.Intn(3); j > 0; j-- {
			request()
		}
		for j := rng.Intn(4); j > 0; j-- {
			h := rng.Intn(4) == 0
			write(h)
			if writerHeld {
				for j2 := rng.Intn(3); j2 > 0; j2-- {
					request()
				}
				release()
			}
		}
		if rng.Intn(3) == 0 {
			ops = append(ops, "st")
		}
	}
	// phase 2: Close (most cases), with requests interleaved at its yield points
	if rng.Intn(6) > 0 {
		for j := rng.Intn(3); j > 0; j-- {
			request()
		}
		switch rng.Intn(4) {
		case 0:
			ops = append(ops, "close")
			tags = append(tags, "close:plain")
		case 1:
			ops = append(ops, "close hold=before")
			for j := rng.Intn(3); j > 0; j-- {
				request()
			}
			ops = append(ops, "crel")
			tags = append(tags, "close:hold-before")
		case 2:
			ops = append(ops, "close hold=after")
			for j := rng.Intn(3); j > 0; j-- {
				request()
			}
			ops = append(ops, "crel")
			tags = append(tags, "close:hold-after")
		default:
			ops = append(ops, "close hold=before")
			for j := rng.Intn(2); j > 0; j-- {
				request()
			}
			ops = append(ops, "crel hold=after")
			for j := rng.Intn(2); j > 0; j-- {
				request()
			}
			ops = append(ops, "crel")
			tags = append(tags, "close:hold-both")
		}
		for j := rng.Intn(3); j > 0; j-- {
			request()
			tags = append(tags, "late-request")
		}
	} else {
		tags = append(tags, "no-close")
	}
	ops = append(ops, "end")
	for k := range ops {
		ops[k] = strings.Replace(ops[k], "tgt=?", "tgt=999999", 1)
	}
	sort.Strings(tags)
	return ops, dedupStrings(tags)
}

func dedupStrings(l []string) []string {
	var out []string
	for i, s := range l {
		if i == 0 || s != l[i-1] {
			out = append(out, s)
		}
	}
	return out
}

func concB2i(b bool) int {
	if b {
		return 1
	}
	return 0
}

// Corpus: the two schedules found by the model's bounded search for the unchanged tree
// (Hls/Conc/Legacy.lean: f4Trace, f5Trace) and their neighbours.
func (concSlice) Corpus() [][]string {
	return [][]string{
		// F4: preload-hint request after Close, then any other request / TryLock
		{"start v=ll dir=0 tr=v", "w f=i rot=none", "w f=p rot=part", "w f=p rot=part", "close", "req id=1 k=hint s=0 hid=2", "req id=2 k=plain s=0", "end"},
		// F4 with a hint request pending across Close
		{"start v=ll dir=0 tr=v", "w f=i rot=none", "w f=p rot=part", "req id=1 k=hint s=0 hid=1", "close", "req id=2 k=multi s=0", "end"},
		// F5: request parked, Close held after its Broadcast, request re-checks and parks again
		{"start v=ll dir=0 tr=v", "req id=1 k=plain s=0", "close hold=after", "crel", "end"},
		{"start v=fmp4 dir=1 tr=va", "w f=i rot=none", "w f=p rot=none", "req id=1 k=plain s=1", "req id=2 k=multi s=0", "close hold=after", "st", "crel", "req id=3 k=plain s=0", "end"},
		{"start v=ts dir=1 tr=v", "req id=1 k=plain s=0", "req id=2 k=multi s=0", "close hold=before", "req id=3 k=plain s=0", "crel hold=after", "st", "crel", "end"},
		// blocking reload across rotations, writer held between Unlock and Broadcast
		{"start v=ll dir=0 tr=v", "w f=i rot=none", "w f=p rot=part", "w f=p rot=part", "w f=p rot=part", "w f=p rot=part", "w f=p rot=part", "w f=i rot=seg",
			"req id=1 k=block s=0 msn=8 part=1 tgt=8", "req id=2 k=hint s=0 hid=6", "w f=p rot=part hold=1", "st", "req id=3 k=hint s=0 hid=6", "wrel", "w f=p rot=part", "st", "end"},
	}
}
