package main

import (
	"fmt"
	"math/rand"
	"os"
	"strings"
)

// `process` slice (property C13): structure-aware generated and mutated content served to the REAL gohlslib.Client
// in a child process; the Lean model (driver drv_process) predicts the outcome from the decoded views.
// Files: robust_case.go (protocol), robust_build.go (valid content for every codec), robust_view.go (decoded views),
// robust_mut.go (mutations), robust_gen.go (generator), robust_run.go (server, child process, observation).

type processSlice struct{}

func init() {
	// hidden sub-command: this process is the child that runs the client (cmd/corr/main.go is not ours to edit)
	if len(os.Args) >= 2 && os.Args[1] == "process-child" {
		rbChildMain()
	}
	register(processSlice{})
}

func (processSlice) Name() string { return "process" }

type processRunner struct {
	lines  []string
	oracle []string
}

func (processSlice) NewRunner() Runner           { return &processRunner{} }
func (r *processRunner) Close()                   {}
func (r *processRunner) Oracle() []string         { return r.oracle }
func (r *processRunner) fail(f string, a ...any) { r.oracle = append(r.oracle, "C13: "+fmt.Sprintf(f, a...)) }

// rbCanon: the observation lines both sides print for a case, from the raw result of the real client.
func rbCanon(c *rbCase, raw *rbRaw, crash string) []string {
	if crash != "" {
		if strings.HasPrefix(crash, "upstream-panic:") {
			return []string{"end upstream"}
		}
		if i := strings.Index(crash, "@"); i >= 0 {
			crash = crash[:i]
		}
		return []string{"end " + crash}
	}
	if raw.end == "timeout" && !c.pace && raw.close == "ok" && raw.leak == 0 {
		return []string{"end ok"} // asleep in the real-time pacing, woken by Close
	}
	switch {
	case raw.end == "timeout" && raw.close == "hang":
		return []string{"end close-hang"}
	case raw.end == "timeout":
		return []string{"end timeout"}
	case raw.leak > 0:
		return []string{"end leak"}
	}
	switch c.cmp {
	case "robust":
		return []string{"end ok"}
	case "class":
		if raw.end == "eos" {
			return []string{"end eos"}
		}
		return []string{"end err"}
	}
	if raw.end != "eos" {
		return []string{"end " + raw.end}
	}
	return []string{
		"tracks " + rbJoin(raw.tracks, ","),
		"deliv " + rbJoinInts(raw.deliv),
		"decerr " + fmt.Sprint(raw.decErr),
		"reqs " + fmt.Sprint(raw.reqs),
		"end eos",
	}
}

func (r *processRunner) Step(line string) []string {
	op, m := tcKV(line)
	if op != "run" {
		r.lines = append(r.lines, line)
		return nil
	}
	lines := r.lines
	r.lines = nil
	n, ok := tcInt(m, "n")
	if !ok || int(n) != len(lines) {
		return []string{"bad-case"}
	}
	c, views, ok := rbParse(lines)
	if !ok {
		return []string{"bad-case"}
	}
	// the view lines must be what the decoders really make of the served bytes
	_, upstream := rbDeriveViews(c)
	if got := c.viewLines(); strings.Join(got, "\n") != strings.Join(views, "\n") {
		for i := range got {
			if i >= len(views) || got[i] != views[i] {
				w := "<none>"
				if i < len(views) {
					w = views[i]
				}
				return []string{"harness-mismatch view line " + fmt.Sprint(i) + ": decoders say `" + got[i] + "`, case says `" + w + "`"}
			}
		}
		return []string{"harness-mismatch view (case has extra view lines)"}
	}
	raw, crash, trace := rbRunInChild(lines)
	where := fmt.Sprintf("fault=%s prim=%s streams=%d", c.fault, c.prim, len(c.streams))
	if crash != "" {
		switch {
		case strings.HasPrefix(crash, "upstream-panic:"):
			r.fail("upstream-panic: %s (%s) — decoding served bytes crashed outside gohlslib: %s", crash, where, rbFirstTraceLines(trace))
		case strings.HasPrefix(crash, "panic:"):
			r.fail("client panicked: %s (%s): %s", crash, where, rbFirstTraceLines(trace))
		case crash == "child-timeout":
			r.fail("client process did not answer within 20 s (%s)", where)
		default:
			return []string{"harness-error " + strings.ReplaceAll(crash, " ", "_")}
		}
		return rbCanon(c, nil, crash)
	}
	if upstream {
		r.fail("upstream-panic: a mediacommon / playlist decoder panicked on the served bytes in the harness, the client survived (%s)", where)
	}
	// direct oracle, from the property text
	if raw.end == "timeout" && (c.pace || raw.close != "ok") {
		r.fail("client wedged or busy-looping: Wait() yielded nothing within the deadline (%s; %d requests; after Close: %s %s)", where, raw.reqs, raw.close, raw.errText)
	}
	if raw.close == "hang" {
		r.fail("Close not honoured: Wait() yields nothing after Close (%s)", where)
	}
	if raw.leak > 0 {
		r.fail("%d goroutine(s) of the library still running after Wait()/Close(), e.g. %s (%s)", raw.leak, raw.leakInfo, where)
	}
	if raw.nilCodec {
		r.fail("a track with a nil Codec was exposed through OnTracks: %v (%s)", raw.tracks, where)
	}
	if raw.reqs > 400 {
		r.fail("busy loop: %d requests for a handful of files (%s)", raw.reqs, where)
	}
	if c.closeAt < 0 {
		if c.must == "err" && raw.end == "eos" {
			r.fail("unusable content (%s) ended with end-of-stream instead of an error from Wait()", where)
		}
		if c.must == "ok" && raw.end != "eos" {
			r.fail("well-formed supported stream ended with %s (%s) (%s)", raw.end, raw.errText, where)
		}
	}
	return rbCanon(c, raw, "")
}

func rbFirstTraceLines(tr string) string {
	var keep []string
	for _, l := range strings.Split(tr, "\n") {
		l = strings.TrimSpace(l)
		if l == "" || strings.HasPrefix(l, "[signal") {
			continue
		}
		if strings.HasPrefix(l, "panic:") || strings.HasPrefix(l, "fatal error:") || strings.Contains(l, "gohlslib") ||
			strings.Contains(l, "mediacommon") || strings.Contains(l, "go-mp4") || strings.Contains(l, "astits") {
			keep = append(keep, l)
		}
		if len(keep) >= 6 {
			break
		}
	}
	return strings.Join(keep, " | ")
}

func (processSlice) Gen(r *rand.Rand, i int, tier string) ([]string, []string) {
	c, tags := rbGenCase(r, i, tier)
	return c.ops(), tags
}
