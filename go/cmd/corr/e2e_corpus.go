package main

import (
	"fmt"
	"strings"
)

// e2e slice: hand-kept cases (always run first). Built by a small deterministic builder so that the op lines stay
// readable: every track writes units of a fixed step in media-time order (ties: lower track index first); the
// video track's first GOP is `preMs` long (written unpaced, see e2e_gen.go), afterwards one GOP = `gop` frames.

type c9CorpusTrack struct {
	codec      string
	rate, sr   int
	name, lang string
	def        bool
	step       int64 // ticks
	gop        int   // video: frames per GOP after the first
	burst      int   // audio: units written together, late (1 = regular)
	reorder    bool  // video (h264 / h265): frame-reordering pattern of e2e_bf.go; `step` = ticks per frame slot
	aus        int   // AAC: access units per WriteMPEG4Audio call (0/1 = one); the step is then per AU (1024 ticks)
}

func c9BuildCase(variant string, segMinNs, partMinNs int64, segCount int, tracks []c9CorpusTrack, baseSec float64, preMs, spanMs int,
	clients func(skip, n int) (at []int, pl []string)) []string {
	type st struct {
		next  int64
		count int
		since int
	}
	sts := make([]st, len(tracks))
	for i, t := range tracks {
		sts[i].next = int64(baseSec * float64(t.rate))
		sts[i].since = -1
	}
	lead := 0
	hasVideo := false
	for i, t := range tracks {
		if isVideoCodec(t.codec) {
			lead, hasVideo = i, true
			break
		}
	}
	preEnd := baseSec + float64(preMs)/1000
	end := preEnd + float64(spanMs)/1000
	// frame reordering: the video track follows a plan (H264: first GOP stretched + two catch-up GOPs unpaced;
	// H265: unscaled GOPs, a hole after the first one)
	var plan []c9BfFrame
	if hasVideo && tracks[lead].reorder {
		t := tracks[lead]
		var slots, gaps []int64
		pre := 3
		if t.codec == "h265" {
			pre = 1
			gaps = []int64{30000}
			for g := 0; g < 2+spanMs*90/int(c9BfSlots(t.codec)*3000); g++ {
				slots = append(slots, 3000)
			}
		} else {
			slots = append(slots, 9000)
			for g := 0; g < 4+spanMs*90/int(c9BfSlots(t.codec)*t.step); g++ {
				slots = append(slots, t.step)
			}
		}
		fr, ok := c9BfPlan(t.codec, sts[lead].next, slots, gaps)
		if !ok {
			panic("corpus: reordering plan rejected")
		}
		plan = fr
		sts[lead].next = fr[0].dts
		preEnd = float64(fr[pre*bfPatternLen(t.codec)].dts) / 90000
		end = preEnd + float64(spanMs)/1000
	}
	var ws []string
	pay := 0
	skip := -1
	for guard := 0; guard < 20000; guard++ {
		best, bestT := -1, 0.0
		for i, t := range tracks {
			b := t.burst
			if b < 1 {
				b = 1
			}
			tt := float64(sts[i].next+int64(b-1)*t.step) / float64(t.rate)
			if best < 0 || tt < bestT {
				best, bestT = i, tt
			}
		}
		if bestT >= end {
			break
		}
		t := tracks[best]
		b := t.burst
		if b < 1 {
			b = 1
		}
		for k := 0; k < b; k++ {
			pts := sts[best].next
			now := float64(pts) / float64(t.rate)
			if skip < 0 && now >= preEnd-1e-9 && (best == lead || !hasVideo) && sts[best].count > 0 {
				skip = len(ws)
			}
			ntp := int64(1600000000000) + c9FloorDiv(pts*1000, int64(t.rate)) - int64(baseSec*1000)
			pay++
			if isVideoCodec(t.codec) && plan != nil {
				f := plan[sts[best].count]
				ra := f.k == 0
				par := 0
				if ra {
					par = 1
				}
				ntp = int64(1600000000000) + c9FloorDiv(f.dts*1000, int64(t.rate)) - int64(baseSec*1000)
				size := mxH264Sizes(variant, bfBuildAUFor(t.codec, par, f.k, pay))
				ws = append(ws, fmt.Sprintf("w t=%d pts=%d dts=%d ntp=%d ra=%s pic=1 par=%d pays=%d sizes=%d fill=0 bf=%d", best, f.pts, f.dts, ntp, b01(ra), par, pay, size, f.k))
				if sts[best].count+1 < len(plan) {
					sts[best].next = plan[sts[best].count+1].dts
				} else {
					sts[best].next = int64(1) << 50
				}
			} else if isVideoCodec(t.codec) {
				ra := false
				switch {
				case sts[best].count == 0:
					ra = true
				case now < preEnd-1e-9:
				case sts[best].since < 0:
					ra, sts[best].since = true, 0
				default:
					sts[best].since++
					ra = sts[best].since%t.gop == 0
				}
				par := 0
				if ra {
					par = 1
				}
				size := c9UnitSize(t.codec, variant, ra, true, par, pay, 2)
				ws = append(ws, fmt.Sprintf("w t=%d pts=%d dts=%d ntp=%d ra=%s pic=1 par=%d pays=%d sizes=%d fill=2", best, pts, pts, ntp, b01(ra), par, pay, size))
				sts[best].next += t.step
			} else {
				nAU := 1
				if t.aus > 1 && sts[best].count > 0 {
					nAU = t.aus
				}
				pays, sizes := fmt.Sprint(pay), "7"
				for k := 1; k < nAU; k++ {
					pay++
					pays += fmt.Sprintf(",%d", pay)
					sizes += ",7"
				}
				op := fmt.Sprintf("w t=%d pts=%d dts=%d ntp=%d ra=1 pic=1 par=0 pays=%s sizes=%s fill=2", best, pts, pts, ntp, pays, sizes)
				if t.codec == "opus" {
					op = fmt.Sprintf("w t=%d pts=%d dts=%d ntp=%d ra=1 pic=1 par=0 pays=%d sizes=%d fill=2 durs=120 tocs=128", best, pts, pts, ntp, pay, 8)
				}
				ws = append(ws, op)
				step := t.step * int64(nAU)
				if !hasVideo && sts[best].count == 0 {
					step += int64(float64(preMs) / 1000 * float64(t.rate))
				}
				sts[best].next += step
			}
			sts[best].count++
		}
	}
	if skip < 0 {
		skip = len(ws)
	}
	at, pl := clients(skip, len(ws))
	var ats []string
	for _, a := range at {
		ats = append(ats, fmt.Sprint(a))
	}
	ops := []string{fmt.Sprintf("start v=%s segcount=%d segmin=%d partmin=%d maxsize=%d dir=0 cl=%d at=%s pl=%s ad=%s skip=%d",
		variant, segCount, segMinNs, partMinNs, 50*1024*1024, len(at), strings.Join(ats, ","), strings.Join(pl, ","), strings.TrimSuffix(strings.Repeat("500,", len(at)), ","), skip)}
	for _, t := range tracks {
		nm, lg := t.name, t.lang
		if nm == "" {
			nm = "-"
		}
		if lg == "" {
			lg = "-"
		}
		line := fmt.Sprintf("track codec=%s rate=%d sr=%d name=%s lang=%s def=%s step=%d", t.codec, t.rate, t.sr, nm, lg, b01(t.def), t.step)
		if t.reorder {
			line += " bf=1"
		}
		ops = append(ops, line)
	}
	ops = append(ops, "begin")
	return append(ops, ws...)
}

func c9Corpus() [][]string {
	mid := func(pls ...string) func(skip, n int) ([]int, []string) {
		return func(skip, n int) ([]int, []string) {
			var at []int
			for i := range pls {
				at = append(at, skip+(n-skip)*(3+i)/10)
			}
			return at, pls
		}
	}
	var out [][]string
	// 1. plain interoperability, one case per variant: H264 + AAC 44.1 kHz (+ Opus in the fMP4 variants)
	va := []c9CorpusTrack{{codec: "h264", rate: 90000, step: 180, gop: 5}, {codec: "aac", rate: 44100, sr: 44100, name: "main", lang: "en", step: 40}}
	vao := append(append([]c9CorpusTrack{}, va...), c9CorpusTrack{codec: "opus", rate: 48000, name: "alt1", lang: "it", def: true, step: 60})
	out = append(out, c9BuildCase("ts", 10000000, 0, 5, va, 12.5, 520, 200, mid("mv", "s0")))
	out = append(out, c9BuildCase("fmp4", 10000000, 0, 5, vao, 12.5, 520, 200, mid("mv", "s0", "s2")))
	out = append(out, c9BuildCase("ll", 10000000, 4000000, 7, vao, 12.5, 520, 200, mid("mv", "s0")))
	// negative start: un-offset base time < 0 (second clause of c09_offset_cancels)
	out = append(out, c9BuildCase("fmp4", 10000000, 0, 5, vao, -7.3, 520, 200, mid("mv")))
	// 2. candidate F10: the muxer's own CODECS strings for AV1 / VP9 are rejected by the client's variant selection
	av1 := []c9CorpusTrack{{codec: "av1", rate: 90000, step: 180, gop: 5}, {codec: "aac", rate: 48000, sr: 48000, step: 40}}
	vp9 := []c9CorpusTrack{{codec: "vp9", rate: 90000, step: 180, gop: 5}}
	out = append(out, c9BuildCase("fmp4", 10000000, 0, 5, av1, 3, 520, 160, mid("mv", "s0")))
	out = append(out, c9BuildCase("ll", 10000000, 4000000, 7, vp9, 3, 520, 160, mid("mv", "s0")))
	// 3. candidate F15: LL-HLS, audio written in late bursts of six 2 ms units; video parts of ~4 ms ⇒ parts of the audio
	// rendition without any sample ⇒ client fatal "could not find data of leading track"
	bursty := []c9CorpusTrack{{codec: "h264", rate: 90000, step: 180, gop: 6}, {codec: "aac", rate: 48000, sr: 48000, step: 96, burst: 6}}
	out = append(out, c9BuildCase("ll", 12000000, 4000000, 7, bursty, 5, 520, 200, mid("mv")))
	// 4. an audio-only muxer with two tracks: the leading one is advertised as a rendition WITHOUT URI
	aa := []c9CorpusTrack{{codec: "aac", rate: 48000, sr: 48000, name: "main", lang: "en", def: true, step: 96}, {codec: "opus", rate: 48000, name: "alt1", lang: "it", step: 60}}
	out = append(out, c9BuildCase("fmp4", 10000000, 0, 5, aa, 2, 520, 200, mid("mv", "s1")))
	// 5. audio-only MPEG-TS (44.1 kHz) that starts below zero and crosses it: both ends of a delivered difference are
	// converted to 90 kHz with truncation towards zero (candidate: more than one tick off)
	a0 := []c9CorpusTrack{{codec: "aac", rate: 44100, sr: 44100, step: 13}}
	out = append(out, c9BuildCase("ts", 10000000, 0, 5, a0, -0.75, 520, 300, func(skip, n int) ([]int, []string) {
		return []int{skip + (n-skip)*6/10}, []string{"mv"}
	}))
	// 6. audio-led fMP4 / LL, AAC 96 kHz, THREE AUs per WriteMPEG4Audio call, segments of four AUs: two of three segments
	// are cut on an AU inside a call, its date-time is the per-AU NTP (ntp + i*1024/sampleRate)
	led := []c9CorpusTrack{{codec: "aac", rate: 96000, sr: 96000, name: "main", lang: "en", step: 1024, aus: 3}}
	out = append(out, c9BuildCase("fmp4", 42665000, 0, 6, led, 7, 520, 600, mid("mv", "s0")))
	out = append(out, c9BuildCase("ll", 42665000, 4000000, 7, led, 7, 520, 600, mid("mv")))
	// 7. video with frame reordering (DTS != PTS), one case per variant: H264 (+ AAC) in MPEG-TS, fMP4 and LL on the
	// compressed axis, H265 (+ Opus) in fMP4 on its own (unscalable) 33 ms grid
	rv := []c9CorpusTrack{{codec: "h264", rate: 90000, step: 180, reorder: true}, {codec: "aac", rate: 44100, sr: 44100, name: "main", lang: "en", step: 40}}
	out = append(out, c9BuildCase("ts", 16000000, 0, 5, rv, 21.5, 0, 250, mid("mv", "s0")))
	out = append(out, c9BuildCase("fmp4", 16000000, 0, 5, rv, 21.5, 0, 250, mid("mv", "s0")))
	out = append(out, c9BuildCase("ll", 16000000, 4000000, 7, rv, 21.5, 0, 250, mid("mv")))
	rv5 := []c9CorpusTrack{{codec: "h265", rate: 90000, step: 3000, reorder: true}, {codec: "opus", rate: 48000, name: "alt1", lang: "it", step: 480}}
	out = append(out, c9BuildCase("fmp4", 200000000, 0, 5, rv5, 4, 0, 1500, func(skip, n int) ([]int, []string) {
		return []int{skip + (n-skip)*5/10}, []string{"mv"}
	}))
	return out
}
