package main

import (
	"bytes"

	"github.com/bluenviron/mediacommon/v2/pkg/codecs/h264"
	"github.com/bluenviron/mediacommon/v2/pkg/formats/fmp4"
	"github.com/bluenviron/mediacommon/v2/pkg/formats/fmp4/seekablebuffer"
	"github.com/bluenviron/mediacommon/v2/pkg/formats/mpegts"
)

// Tiny valid media for the select slice (C11), synthesised with mediacommon's own
// writers exactly as /repo/client_test.go does. Every payload carries ONE H264
// IDR access unit; `k` spaces the units 1 ms apart so that the whole case stays
// far below the 100 ms of media time the client would pace in real time.

var selSPS = []byte{
	0x67, 0x42, 0xc0, 0x28, 0xd9, 0x00, 0x78, 0x02,
	0x27, 0xe5, 0x84, 0x00, 0x00, 0x03, 0x00, 0x04,
	0x00, 0x00, 0x03, 0x00, 0xf0, 0x3c, 0x60, 0xc9,
	0x20,
}

var selPPS = []byte{0x08}

const selTrackID = 1

func selMPEGTSSegment(k int) []byte {
	var buf bytes.Buffer
	tr := &mpegts.Track{Codec: &mpegts.CodecH264{}}
	w := &mpegts.Writer{W: &buf, Tracks: []*mpegts.Track{tr}}
	if err := w.Initialize(); err != nil {
		panic(err)
	}
	ts := int64(90000 + 90*k)
	if err := w.WriteH264(tr, ts, ts, [][]byte{selSPS, selPPS, {5, 1}}); err != nil {
		panic(err)
	}
	return buf.Bytes()
}

func selFMP4Init() []byte {
	var buf seekablebuffer.Buffer
	init := &fmp4.Init{Tracks: []*fmp4.InitTrack{{
		ID:        selTrackID,
		TimeScale: 90000,
		Codec:     &fmp4.CodecH264{SPS: selSPS, PPS: selPPS},
	}}}
	if err := init.Marshal(&buf); err != nil {
		panic(err)
	}
	return buf.Bytes()
}

func selFMP4Part(k int) []byte {
	avcc, err := h264.AVCC([][]byte{selSPS, selPPS, {5, 1}}).Marshal()
	if err != nil {
		panic(err)
	}
	var buf seekablebuffer.Buffer
	part := &fmp4.Part{
		SequenceNumber: uint32(k),
		Tracks: []*fmp4.PartTrack{{
			ID:       selTrackID,
			BaseTime: uint64(90000 + 90*k),
			Samples:  []*fmp4.PartSample{{Duration: 90, Payload: avcc}},
		}},
	}
	if err := part.Marshal(&buf); err != nil {
		panic(err)
	}
	return buf.Bytes()
}
