package main

import (
	"bytes"
	"fmt"
	"math/big"
	"regexp"
	"sort"
	"strconv"
	"strings"
)

// Direct oracle of the muxer slice: the property statements C01–C05, C18 (and the
// sequential clauses of C06) evaluated on what the REAL muxer serves, from the
// harness's own record of what it wrote. Written from the property texts, not
// from the Lean model.

type orcUnit struct {
	pay    int
	dts    int64 // written ticks
	ptsOff int64
	ra     bool
	ntpMs  int64
	par    int // parameter id carried (0 none)
	ok     bool
}

type orcSample struct {
	dur, ptsOff int64
	sync        bool
	pay         int
}

type orcFrag struct {
	seq    int
	tracks map[int]orcFragTrack // fmp4 track id -> content
}

type orcFragTrack struct {
	base    int64
	samples []orcSample
}

type mxOracle struct {
	r       *mxRunner
	fails   []string
	written map[int][]orcUnit // per track
	// history per stream
	prevPl   map[int]*m3uMedia
	firstSeen map[string]string // key -> canonical body when first fetched
	rawFirst  map[string][]byte
	segOrder  map[int][]string // stream -> segment keys in MSN order as first listed
	maxTarget map[int]int
	lastPartTarget map[int]int64
	sizeErr   bool
	anyWriteErr bool
	partSeg     map[string][2]int // part key -> (stream, media sequence number of its segment)
}

func newMxOracle(r *mxRunner) *mxOracle {
	return &mxOracle{r: r, written: map[int][]orcUnit{}, prevPl: map[int]*m3uMedia{}, firstSeen: map[string]string{},
		partSeg: map[string][2]int{}, rawFirst: map[string][]byte{}, segOrder: map[int][]string{}, maxTarget: map[int]int{}, lastPartTarget: map[int]int64{}}
}

func (o *mxOracle) failf(format string, a ...any) {
	if len(o.fails) < 20 {
		o.fails = append(o.fails, fmt.Sprintf(format, a...))
	}
}

func (o *mxOracle) noteWrite(ti int, a map[string]string, err error) {
	t := o.r.tracks[ti]
	pays := intsOf(a["pays"])
	pts, dts := atoi64(a["pts"]), atoi64(a["dts"])
	ra := a["ra"] == "1"
	par := int(atoi64(a["par"]))
	ntp := atoi64(a["ntp"])
	if err != nil {
		o.anyWriteErr = true
		if strings.Contains(err.Error(), "maximum segment size") {
			o.sizeErr = true
		}
	}
	switch t.codec {
	case "aac":
		for i, p := range pays {
			d := pts
			n := ntp
			if o.r.variant != "ts" {
				d = pts + int64(i)*1024*int64(t.rate)/int64(t.sr)
				n = (ntp*1000000 + int64(i)*1024*1000000000/int64(t.sr)) / 1000000
			}
			o.written[ti] = append(o.written[ti], orcUnit{pay: int(p), dts: d, ra: true, ntpMs: n, ok: err == nil})
			if o.r.variant == "ts" {
				break // one PES per call; ids of the other AUs are checked through the unit list
			}
		}
	case "opus":
		durs := intsOf(a["durs"])
		d := pts
		nns := ntp * 1000000
		for i, p := range pays {
			o.written[ti] = append(o.written[ti], orcUnit{pay: int(p), dts: d, ra: true, ntpMs: nns / 1000000, ok: err == nil})
			d += durs[i]
			nns += toDurNs(durs[i], 48000)
		}
	default:
		if a["pic"] == "0" && !ra {
			return
		}
		o.written[ti] = append(o.written[ti], orcUnit{pay: int(pays[0]), dts: dts, ptsOff: pts - dts, ra: ra, ntpMs: ntp, par: par, ok: err == nil})
	}
}

// toDurNs = duration of `ticks` at `rate`, floor for non-negative values (exact big-int arithmetic).
func toDurNs(ticks int64, rate int) int64 {
	v := new(big.Int).Mul(big.NewInt(ticks), big.NewInt(1000000000))
	q := new(big.Int).Quo(v, big.NewInt(int64(rate))) // truncates toward zero like the Go code
	return q.Int64()
}

var partBodyRe = regexp.MustCompile(`#(\d+)\{([^}]*)\}`)
var sampleRe = regexp.MustCompile(`\((-?\d+),(-?\d+),([01]),(-?\d+)\)`)

func parseFrags(body string) []orcFrag {
	var out []orcFrag
	for _, m := range partBodyRe.FindAllStringSubmatch(body, -1) {
		seq, _ := strconv.Atoi(m[1])
		f := orcFrag{seq: seq, tracks: map[int]orcFragTrack{}}
		for _, tr := range strings.Fields(m[2]) {
			// t<id>@<base>:(…)(…)
			at := strings.IndexByte(tr, '@')
			col := strings.IndexByte(tr, ':')
			if at < 0 || col < 0 {
				continue
			}
			id, _ := strconv.Atoi(tr[1:at])
			base := atoi64(tr[at+1 : col])
			ft := orcFragTrack{base: base}
			for _, sm := range sampleRe.FindAllStringSubmatch(tr[col+1:], -1) {
				ft.samples = append(ft.samples, orcSample{dur: atoi64(sm[1]), ptsOff: atoi64(sm[2]), sync: sm[3] == "1", pay: int(atoi64(sm[4]))})
			}
			f.tracks[id] = ft
		}
		out = append(out, f)
	}
	return out
}

func (o *mxOracle) leadingTrack() int {
	for i, t := range o.r.tracks {
		if isVideoCodec(t.codec) {
			return i
		}
	}
	return 0
}

// q10 gives the admissible 10 µs text values of a duration in ns (two at an exact decimal tie).
func q10ok(ns int64, q int64) bool {
	lo := ns / 10000
	rem := ns % 10000
	switch {
	case rem < 5000:
		return q == lo
	case rem > 5000:
		return q == lo+1
	default:
		return q == lo || q == lo+1
	}
}

func (o *mxOracle) checkSnap(pls map[int]*m3uMedia, bodies map[string]string, raws map[string][]byte, files []string) {
	r := o.r
	lead := o.leadingTrack()
	leadStream := lead
	if r.variant == "ts" {
		leadStream = 0
	}
	var sis []int
	for si := range pls {
		sis = append(sis, si)
	}
	sort.Ints(sis)

	listedNow := map[string]bool{}
	for _, si := range sis {
		p := pls[si]
		// ---- C04 single-playlist clauses
		realSegs := 0
		for i, g := range p.segs {
			k := r.canonKey(g.uri)
			msn := p.mediaSeq + i
			if g.gap {
				if k != "gap" {
					o.failf("C04 stream %d: gap segment with URI %q", si, g.uri)
				}
				continue
			}
			realSegs++
			listedNow[k] = true
			if want := fmt.Sprintf("seg%d_%d", si, msn); k != want {
				o.failf("C04 stream %d: segment at media sequence %d has URI %s (number in the URI must equal the MSN)", si, msn, g.uri)
			}
			if len(g.parts) > 0 && len(p.segs)-i > 2 {
				o.failf("C04 stream %d: parts listed under a segment that is not one of the last two", si)
			}
			for _, pt := range g.parts {
				listedNow[r.canonKey(pt.uri)] = true
				o.partSeg[r.canonKey(pt.uri)] = [2]int{si, msn}
			}
		}
		for _, pt := range p.parts {
			listedNow[r.canonKey(pt.uri)] = true
			o.partSeg[r.canonKey(pt.uri)] = [2]int{si, p.mediaSeq + len(p.segs)}
		}
		if p.mapURI != "" {
			listedNow[r.canonKey(p.mapURI)] = true
		}
		if len(p.segs) > r.segCount {
			o.failf("C04/C18 stream %d: %d segments listed, SegmentCount is %d", si, len(p.segs), r.segCount)
		}
		// part numbers increase by exactly one across the stream
		var partNums []int64
		for _, g := range p.segs {
			for _, pt := range g.parts {
				partNums = append(partNums, keyNums(r.canonKey(pt.uri))[1])
			}
		}
		for _, pt := range p.parts {
			partNums = append(partNums, keyNums(r.canonKey(pt.uri))[1])
		}
		for i := 1; i < len(partNums); i++ {
			if partNums[i] != partNums[i-1]+1 {
				o.failf("C04 stream %d: part numbers %d then %d", si, partNums[i-1], partNums[i])
			}
		}
		if r.variant == "ll" {
			if p.hint == "" {
				o.failf("C04 stream %d: no preload hint in a Low-Latency playlist", si)
			} else if len(partNums) > 0 {
				if hn := keyNums(r.canonKey(p.hint))[1]; hn != partNums[len(partNums)-1]+1 {
					o.failf("C04 stream %d: preload hint names part %d, last listed part is %d", si, hn, partNums[len(partNums)-1])
				}
			}
		}
		// ---- C04 history relation with the previous playlist of this stream
		if prev := o.prevPl[si]; prev != nil {
			if p.mediaSeq < prev.mediaSeq {
				o.failf("C04 stream %d: EXT-X-MEDIA-SEQUENCE decreased %d -> %d", si, prev.mediaSeq, p.mediaSeq)
			}
			for i, g := range p.segs {
				msn := p.mediaSeq + i
				j := msn - prev.mediaSeq
				if j >= 0 && j < len(prev.segs) {
					pg := prev.segs[j]
					if pg.uri != g.uri || pg.dur != g.dur || pg.gap != g.gap {
						o.failf("C04 stream %d: media sequence %d changed from (%s,%d,%v) to (%s,%d,%v)", si, msn, pg.uri, pg.dur, pg.gap, g.uri, g.dur, g.gap)
					}
				}
			}
			if prev.mediaSeq+len(prev.segs) > p.mediaSeq+len(p.segs) {
				o.failf("C04 stream %d: segments removed from the tail", si)
			}
			if p.target < prev.target {
				o.failf("C03 stream %d: EXT-X-TARGETDURATION decreased %d -> %d", si, prev.target, p.target)
			}
		}
		o.prevPl[si] = p

		// ---- C03 numeric clauses that need no media
		for _, g := range p.segs {
			rounded := (g.dur + 50000) / 100000
			if int64(p.target) < rounded {
				if g.dur%100000 == 50000 && int64(p.target) == rounded-1 {
					// the text is exactly x.50000: the muxer rounds the nanosecond value (just below x.5 s), a reader rounds the text
					o.failf("C03 F26-extinf-half-rounding stream %d: EXTINF %d (x10us) reads x.50000 and rounds to %d, TARGETDURATION is %d (the nanosecond duration is within 5 us below the half)", si, g.dur, rounded, p.target)
				} else {
					o.failf("C03 stream %d: TARGETDURATION %d < EXTINF %d (x10us) rounded", si, p.target, g.dur)
				}
			}
			for _, pt := range g.parts {
				if pt.dur > p.partTarget {
					o.failf("C03 stream %d: part duration %d > PART-TARGET %d (x10us)", si, pt.dur, p.partTarget)
				}
			}
			if len(g.parts) > 0 && len(p.segs) > 0 {
				sum := int64(0)
				for _, pt := range g.parts {
					sum += pt.dur
				}
				if d := sum - g.dur; d > int64(len(g.parts)) || d < -int64(len(g.parts)) {
					o.failf("C03 stream %d: parts of %s add up to %d, EXTINF is %d (x10us)", si, g.uri, sum, g.dur)
				}
			}
		}
		for _, pt := range p.parts {
			if pt.dur > p.partTarget {
				o.failf("C03 stream %d: open part duration %d > PART-TARGET %d", si, pt.dur, p.partTarget)
			}
		}
		if p.hasSC {
			if p.holdBack < 2*p.partTarget {
				o.failf("C03 stream %d: PART-HOLD-BACK %d < 2 x PART-TARGET %d", si, p.holdBack, p.partTarget)
			}
			if p.skipUntil < 6*int64(p.target)*100000 {
				o.failf("C03 stream %d: CAN-SKIP-UNTIL %d < 6 x TARGETDURATION %d", si, p.skipUntil, p.target)
			}
		}
	}
	// ---- C19: constant leading sample duration ⇒ non-final parts are uniform and within 85–100 % of PART-TARGET
	if r.variant == "ll" && !o.anyWriteErr && o.wellFormed() && r.partMin%1000000 == 0 {
		if d, ok := o.constLeadingDur(lead); ok {
			_ = d
			if p := pls[leadStream]; p != nil {
				var nonFinal []int64
				for _, g := range p.segs {
					for i, pt := range g.parts {
						if i+1 < len(g.parts) {
							nonFinal = append(nonFinal, pt.dur)
						}
					}
				}
				for i, pt := range p.parts { // the open segment: a part is known to be non-final once a later one exists
					if i+1 < len(p.parts) {
						nonFinal = append(nonFinal, pt.dur)
					}
				}
				for _, dur := range nonFinal {
					if dur > p.partTarget {
						o.failf("C19 non-final part of %d (x10us) exceeds PART-TARGET %d", dur, p.partTarget)
					}
					if dur*100 < p.partTarget*85 && dur >= 510 {
						o.failf("C19 non-final part of %d (x10us) is below 85%% of PART-TARGET %d with a constant leading sample duration", dur, p.partTarget)
					}
					if dur != nonFinal[0] && (dur-nonFinal[0] > 1 || nonFinal[0]-dur > 1) {
						o.failf("C19 non-final parts differ in duration: %d vs %d (x10us) with a constant leading sample duration", nonFinal[0], dur)
					}
					if dur*10000+5000 < r.partMin {
						o.failf("C19 non-final part of %d (x10us) is shorter than PartMinDuration %d ns", dur, r.partMin)
					}
				}
			}
		}
	}

	// ---- C04 all streams agree
	if len(sis) > 1 {
		a := pls[sis[0]]
		for _, si := range sis[1:] {
			b := pls[si]
			if a.mediaSeq != b.mediaSeq || len(a.segs) != len(b.segs) || a.target != b.target {
				o.failf("C04 streams %d and %d disagree: MSN %d/%d, %d/%d segments, target %d/%d", sis[0], si, a.mediaSeq, b.mediaSeq, len(a.segs), len(b.segs), a.target, b.target)
				continue
			}
			for i := range a.segs {
				if a.segs[i].dur != b.segs[i].dur || a.segs[i].gap != b.segs[i].gap {
					o.failf("C04 streams %d and %d disagree on the duration/gap flag of media sequence %d", sis[0], si, a.mediaSeq+i)
				}
			}
		}
	}

	// ---- C05: listed URIs are fetchable, immutable; unlisted ones return nothing
	for k, body := range bodies {
		if listedNow[k] {
			if body == "none" || strings.HasPrefix(body, "status=") || (strings.HasPrefix(body, "undecodable") && !o.anyWriteErr) {
				o.failf("C05 %s is listed but fetching it gives %q", k, body)
				continue
			}
			if first, ok := o.firstSeen[k]; ok {
				if !strings.HasPrefix(k, "init") && !bytes.Equal(o.rawFirst[k], raws[k]) {
					o.failf("C05 %s changed while listed:\n  first %s\n  now   %s", k, first, body)
				}
			} else {
				o.firstSeen[k] = body
				o.rawFirst[k] = raws[k]
			}
		} else if _, everListed := o.firstSeen[k]; everListed || true {
			// not listed (any more): must not return media bytes – unless it is a part of the window the
			// playlist no longer itemises (parts are listed only under the last two segments) or the init
			if strings.HasPrefix(k, "seg") && body != "none" {
				o.failf("C05/C18 %s has left the playlist but still returns %s", k, trunc(body))
			}
			// a part goes with its segment: once that segment has left the window its URI must not resolve
			if ps, ok := o.partSeg[k]; ok && strings.HasPrefix(k, "part") {
				if cur := pls[ps[0]]; cur != nil && ps[1] < cur.mediaSeq && body != "none" {
					o.failf("C05/C18 %s belonged to media sequence %d, which has left the playlist (now starting at %d), but it still returns %s", k, ps[1], cur.mediaSeq, trunc(body))
				}
			}
		}
	}
	// a segment's bytes are the concatenation of its parts' bytes; fragment sequence number = part number
	for _, si := range sis {
		p := pls[si]
		for _, g := range p.segs {
			if len(g.parts) == 0 {
				continue
			}
			var cat []byte
			for _, pt := range g.parts {
				k := r.canonKey(pt.uri)
				cat = append(cat, raws[k]...)
				for _, f := range parseFrags(bodies[k]) {
					if int64(f.seq) != keyNums(k)[1] {
						o.failf("C05 %s: fragment sequence number %d", k, f.seq)
					}
				}
			}
			if sk := r.canonKey(g.uri); !bytes.Equal(cat, raws[sk]) {
				o.failf("C05 %s: segment bytes (%d) are not the concatenation of its parts' bytes (%d)", sk, len(raws[sk]), len(cat))
			}
		}
	}

	// ---- C18: files on disk = listed real segments + the open one per stream
	if r.dir != "" {
		want := map[string]bool{}
		for _, si := range sis {
			p := pls[si]
			for i, g := range p.segs {
				if !g.gap {
					want[fmt.Sprintf("seg%d_%d", si, p.mediaSeq+i)] = true
				}
			}
			want[fmt.Sprintf("seg%d_%d", si, p.mediaSeq+len(p.segs))] = true
		}
		if len(sis) == r.streamCount() {
			for _, f := range files {
				if !want[f] {
					o.failf("C18 file %s exists in Directory but its segment is neither listed nor open", f)
				}
			}
			if len(files) != len(want) {
				o.failf("C18 %d files in Directory, expected %d (listed segments + open ones)", len(files), len(want))
			}
		}
	}

	// ---- C01/C02/C03 media-level clauses; they quantify over write sequences in which every call succeeded
	if o.anyWriteErr || !o.wellFormed() {
		return
	}
	if r.variant != "ts" {
		for _, si := range sis {
			o.checkMediaFMP4(si, pls[si], bodies, si == leadStream)
		}
	} else if p := pls[0]; p != nil {
		o.checkMediaTS(p, bodies)
	}
}

// wellFormed: per-track non-decreasing DTS, start timestamps not below -10 s (the quantifier of C01–C03).
func (o *mxOracle) wellFormed() bool {
	for ti, w := range o.written {
		if len(w) > 0 && w[0].dts < -10*int64(o.r.tracks[ti].rate) {
			return false
		}
		for i := 1; i < len(w); i++ {
			if w[i].dts < w[i-1].dts {
				return false
			}
		}
	}
	return true
}

// constLeadingDur: do all accepted units of the leading track written so far have the same spacing?
func (o *mxOracle) constLeadingDur(lead int) (int64, bool) {
	w := o.written[lead]
	if len(w) < 3 {
		return 0, false
	}
	d := w[1].dts - w[0].dts
	if d <= 0 {
		return 0, false
	}
	for i := 2; i < len(w); i++ {
		if w[i].dts-w[i-1].dts != d {
			return 0, false
		}
	}
	return d, true
}

func (o *mxOracle) accepted(ti int) []orcUnit {
	var out []orcUnit
	for _, u := range o.written[ti] {
		if u.ok {
			out = append(out, u)
		}
	}
	return out
}

func (o *mxOracle) checkMediaFMP4(si int, p *m3uMedia, bodies map[string]string, isLead bool) {
	r := o.r
	ti := si
	t := r.tracks[ti]
	w := o.written[ti]
	byPay := map[int]int{}
	for i, u := range w {
		byPay[u.pay] = i
	}
	off := int64(10) * int64(t.rate)
	// concatenate the samples of the listed real segments in order
	type pos struct {
		s     orcSample
		dts   int64
		segIx int
		first bool // first sample of its segment
	}
	var all []pos
	var segStartDTS []int64
	var segStartIx []int // index (in p.segs) of the segment each entry of segStartDTS belongs to
	for i, g := range p.segs {
		if g.gap {
			continue
		}
		k := r.canonKey(g.uri)
		frags := parseFrags(bodies[k])
		firstOfSeg := true
		var prevEnd int64 = -1
		for _, f := range frags {
			ft, ok := f.tracks[1]
			if !ok {
				continue
			}
			if prevEnd >= 0 && ft.base != prevEnd {
				o.failf("C01 %s: fragment base time %d does not continue the previous fragment (%d)", k, ft.base, prevEnd)
			}
			d := ft.base
			for _, s := range ft.samples {
				all = append(all, pos{s: s, dts: d, segIx: i, first: firstOfSeg})
				if firstOfSeg {
					segStartDTS = append(segStartDTS, d)
					segStartIx = append(segStartIx, i)
				}
				firstOfSeg = false
				d += s.dur
			}
			prevEnd = d
		}
		for id := range func() map[int]bool {
			m := map[int]bool{}
			for _, f := range frags {
				for id := range f.tracks {
					m[id] = true
				}
			}
			return m
		}() {
			if id != 1 {
				o.failf("C02 %s: fragment declares track id %d, the stream has one track", k, id)
			}
		}
	}
	// every delivered sample is a written unit, in writing order, contiguous, with the written timing + offset
	prevIx := -1
	for n, q := range all {
		ix, ok := byPay[q.s.pay]
		if !ok {
			o.failf("C01 stream %d: decoded unit with payload id %d was never written", si, q.s.pay)
			return
		}
		u := w[ix]
		if prevIx >= 0 {
			// the next accepted unit after prevIx
			nx := prevIx + 1
			for nx < len(w) && !w[nx].ok {
				nx++
			}
			if ix != nx && all[n-1].segIx == q.segIx {
				o.failf("C01 stream %d: unit %d follows unit %d inside one segment, but %d unit(s) written in between are missing", si, u.pay, w[prevIx].pay, ix-prevIx-1)
			} else if ix <= prevIx {
				o.failf("C01 stream %d: unit %d delivered after unit %d (writing order violated / duplicate)", si, u.pay, w[prevIx].pay)
			}
		}
		prevIx = ix
		if q.dts != u.dts+off {
			o.failf("C01 stream %d unit %d: decode time %d, written %d + offset %d", si, u.pay, q.dts, u.dts, off)
		}
		if q.s.ptsOff != u.ptsOff {
			o.failf("C01 stream %d unit %d: presentation offset %d, written %d", si, u.pay, q.s.ptsOff, u.ptsOff)
		}
		if q.s.sync != u.ra {
			o.failf("C01 stream %d unit %d: sync flag %v, written random-access %v", si, u.pay, q.s.sync, u.ra)
		}
		if n+1 < len(all) && all[n+1].segIx == q.segIx {
			if q.s.dur != all[n+1].dts-q.dts {
				o.failf("C01 stream %d unit %d: duration %d but the next unit is %d ticks later", si, u.pay, q.s.dur, all[n+1].dts-q.dts)
			}
		}
		if q.first && isLead && !q.s.sync {
			o.failf("C02 stream %d: segment %d begins with non-random-access unit %d", si, p.mediaSeq+q.segIx, u.pay)
		}
	}
	if !isLead {
		return
	}
	// ---- C03: EXTINF = span between first units of consecutive segments; PDT = ntp of first unit
	realIx := 0
	var realSegs []m3uSeg
	var realMSN []int
	for i, g := range p.segs {
		if !g.gap {
			realSegs = append(realSegs, g)
			realMSN = append(realMSN, p.mediaSeq+i)
		}
	}
	_ = realIx
	for i := 0; i+1 < len(realSegs) && i+1 < len(segStartDTS); i++ {
		span := toDurNs(segStartDTS[i+1], t.rate) - toDurNs(segStartDTS[i], t.rate)
		if !q10ok(span, realSegs[i].dur) {
			o.failf("C03 stream %d: EXTINF of media sequence %d is %d (x10us), the segment spans %d ns", si, realMSN[i], realSegs[i].dur, span)
		}
		// C02: a cut happens only when due
		if span < r.segMin {
			// must be a parameter change at the first unit of segment i+1
			changed := false
			for _, q := range all {
				if q.segIx >= 0 && q.first && q.dts == segStartDTS[i+1] && q.segIx == segStartIx[i+1] {
					if ix, ok := byPay[q.s.pay]; ok {
						changed = o.paramChangedAt(ti, ix)
					}
				}
			}
			if !changed {
				o.failf("C02 stream %d: media sequence %d is %d ns long, shorter than SegmentMinDuration %d, and no parameter change explains the cut", si, realMSN[i], span, r.segMin)
			}
		}
	}
	// never skipped when due: inside a segment no random-access unit at distance >= segMin from the segment start
	for n, q := range all {
		if q.first || n == 0 {
			continue
		}
		var start int64
		cnt := 0
		for i, g := range p.segs {
			if g.gap {
				continue
			}
			if i == q.segIx {
				start = segStartDTS[cnt]
			}
			cnt++
		}
		if q.s.sync && toDurNs(q.dts, t.rate)-toDurNs(start, t.rate) >= r.segMin {
			o.failf("C02 stream %d: random-access unit %d is %d ns into media sequence %d (>= SegmentMinDuration %d) but no segment was started there", si, q.s.pay, toDurNs(q.dts, t.rate)-toDurNs(start, t.rate), p.mediaSeq+q.segIx, r.segMin)
		}
	}
	// ---- C02: once the first complete segment encoded with changed parameters is listed and no further change is
	// pending, the init served carries the new parameters (and always declares exactly the stream's one track)
	if isVideoCodec(t.codec) && len(realSegs) > 0 && len(segStartDTS) == len(realSegs) {
		if ib, ok := bodies[fmt.Sprintf("init%d", si)]; ok && strings.HasPrefix(ib, "init ") {
			f := strings.Fields(ib)
			if len(f) != 2 {
				o.failf("C02 stream %d: init declares %d tracks, the stream has 1", si, len(f)-1)
			} else if tr := strings.Split(f[1], ":"); len(tr) == 3 {
				if tr[0] != "1" || tr[1] != "90000" {
					o.failf("C02 stream %d: init declares track id %s / timescale %s, expected 1 / 90000", si, tr[0], tr[1])
				}
				// parameters in force at the first unit of the last listed segment, and at the end of what was written
				parAt := func(ix int) int {
					cur := 1
					for i := 0; i <= ix && i < len(w); i++ {
						if w[i].par != 0 {
							cur = w[i].par
						}
					}
					return cur
				}
				lastStart := -1
				for _, q := range all {
					if q.first && q.dts == segStartDTS[len(segStartDTS)-1] && q.segIx == segStartIx[len(segStartIx)-1] {
						if ix, ok := byPay[q.s.pay]; ok {
							lastStart = ix
						}
					}
				}
				changedAfter := false // a change after the last listed segment began (also one that was changed back)
				for i := lastStart + 1; lastStart >= 0 && i < len(w); i++ {
					if w[i].par != 0 && w[i].par != parAt(i-1) {
						changedAfter = true
					}
				}
				if lastStart >= 0 && !changedAfter {
					// no change after the last listed segment began; was there one before (a forced cut)?
					if got, _ := strconv.Atoi(tr[2]); got != parAt(lastStart) && o.everChanged(ti, lastStart) {
						o.failf("C02 stream %d: the last listed segment is encoded with parameter set %d and no change is pending, but the init served carries parameter set %d", si, parAt(lastStart), got)
					}
				}
			}
		}
	}
	for i, g := range realSegs {
		if g.pdt >= 0 && i < len(segStartDTS) {
			for _, q := range all {
				if q.first && q.dts == segStartDTS[i] && q.segIx == segStartIx[i] {
					if ix, ok := byPay[q.s.pay]; ok && w[ix].ntpMs != g.pdt {
						o.failf("C03 stream %d: PROGRAM-DATE-TIME of media sequence %d is %d ms, the first unit was written with %d ms", si, realMSN[i], g.pdt, w[ix].ntpMs)
					}
					break
				}
			}
		}
	}
}

// paramChangedAt: did the unit at index ix (or a unit since the previous random-access unit) carry
// parameter sets different from the ones in force before?
func (o *mxOracle) paramChangedAt(ti int, ix int) bool {
	w := o.written[ti]
	cur := 1
	pending := false
	for i := 0; i <= ix; i++ {
		u := w[i]
		if u.par != 0 && u.par != cur {
			cur = u.par
			pending = true
		}
		if i == ix {
			return pending && u.ra
		}
		if u.ra && pending {
			pending = false
		}
	}
	return false
}

var tsUnitRe = regexp.MustCompile(`\((\d+),(\d+),(\d+),([0-9+\-]+)\)`)

func (o *mxOracle) checkMediaTS(p *m3uMedia, bodies map[string]string) {
	r := o.r
	lead := o.leadingTrack()
	prevIx := map[int]int{}
	leadUnits := make([][]int, len(p.segs)) // per listed segment: indices (into written[lead]) of its leading-track units
	defer func() { o.checkDueTS(p, lead, leadUnits) }()
	for i, g := range p.segs {
		k := r.canonKey(g.uri)
		body := bodies[k]
		firstLead := true
		for _, m := range tsUnitRe.FindAllStringSubmatch(body, -1) {
			ti, _ := strconv.Atoi(m[1])
			pts, dts := atoi64(m[2]), atoi64(m[3])
			pay, _ := strconv.Atoi(strings.Split(m[4], "+")[0])
			w := o.written[ti]
			ix := -1
			for j, u := range w {
				if u.pay == pay {
					ix = j
				}
			}
			if ix < 0 {
				o.failf("C01 %s: decoded unit with payload id %d was never written", k, pay)
				continue
			}
			u := w[ix]
			rate := int64(r.tracks[ti].rate)
			want := new(big.Int).Mul(big.NewInt(u.dts), big.NewInt(90000))
			want.Quo(want, big.NewInt(rate))
			wd := ((want.Int64() % two33) + two33) % two33
			if dts != wd {
				o.failf("C01 %s unit %d: DTS %d, written %d ticks at %d Hz = %d at 90 kHz", k, pay, dts, u.dts, rate, wd)
			}
			wantP := new(big.Int).Mul(big.NewInt(u.dts+u.ptsOff), big.NewInt(90000))
			wantP.Quo(wantP, big.NewInt(rate))
			if wp := ((wantP.Int64() % two33) + two33) % two33; pts != wp {
				o.failf("C01 %s unit %d: PTS %d, expected %d", k, pay, pts, wp)
			}
			if pi, ok := prevIx[ti]; ok && ix <= pi {
				o.failf("C01 %s: unit %d delivered out of writing order", k, pay)
			}
			prevIx[ti] = ix
			if ti == lead {
				leadUnits[i] = append(leadUnits[i], ix)
			}
			if ti == lead && firstLead {
				firstLead = false
				if isVideoCodec(r.tracks[ti].codec) && !u.ra {
					o.failf("C02 media sequence %d begins with non-random-access unit %d", p.mediaSeq+i, pay)
				}
				if g.pdt >= 0 && g.pdt != u.ntpMs {
					o.failf("C03 PROGRAM-DATE-TIME of media sequence %d is %d ms, first unit written with %d ms", p.mediaSeq+i, g.pdt, u.ntpMs)
				}
			}
		}
	}
}

// checkDelta: a _HLS_skip response is the full playlist of the same instant minus its first
// SKIPPED-SEGMENTS segments and the MAP (C06).
func (o *mxOracle) checkDelta(si int, full, delta *m3uMedia) {
	if !delta.hasSkip {
		o.failf("C06 stream %d: _HLS_skip=YES response carries no EXT-X-SKIP", si)
		return
	}
	if delta.mapURI != "" {
		o.failf("C06 stream %d: delta update still carries EXT-X-MAP", si)
	}
	if delta.mediaSeq != full.mediaSeq || delta.target != full.target || len(delta.segs)+delta.skipped != len(full.segs) {
		o.failf("C06 stream %d: delta update (skipped %d + %d listed) does not cover the full playlist (%d)", si, delta.skipped, len(delta.segs), len(full.segs))
		return
	}
	for i, g := range delta.segs {
		f := full.segs[delta.skipped+i]
		if f.uri != g.uri || f.dur != g.dur || f.gap != g.gap || len(f.parts) != len(g.parts) {
			o.failf("C06 stream %d: delta update differs from the full playlist at media sequence %d", si, full.mediaSeq+delta.skipped+i)
		}
	}
	// skipped segments must be older than the skip boundary: the remaining ones cover less than CAN-SKIP-UNTIL … at least
	if len(delta.parts) != len(full.parts) || delta.hint != full.hint {
		o.failf("C06 stream %d: delta update differs in open parts / preload hint", si)
	}
	for _, g := range delta.segs {
		if strings.Contains(g.uri, "_HLS_") {
			o.failf("C06 stream %d: _HLS_ directive copied into URI %s", si, g.uri)
		}
	}
}

// noteReq: the sequential clauses of C06 on one blocking-reload request.
func (o *mxOracle) noteReq(si int, a map[string]string, outcome string, p *m3uMedia) {
	msnS, partS := a["msn"], a["part"]
	msn, errM := strconv.ParseUint(msnS, 10, 64)
	part, errP := strconv.ParseUint(partS, 10, 64)
	if (msnS != "-" && errM != nil) || (partS != "-" && errP != nil) {
		if outcome != "400" {
			o.failf("C06 stream %d: unparsable _HLS_msn/_HLS_part (%s,%s) answered %s, expected 400", si, msnS, partS, outcome)
		}
		return
	}
	if msnS == "-" && partS != "-" {
		if outcome != "400" {
			o.failf("C06 stream %d: _HLS_part without _HLS_msn answered %s, expected 400", si, outcome)
		}
		return
	}
	if msnS == "-" {
		return
	}
	prev := o.prevPl[si]
	if outcome == "200" && p != nil {
		// the response must contain segment msn complete, or part `part` of it (with roll-over)
		skipped := 0
		if p.hasSkip {
			skipped = p.skipped
		}
		last := p.mediaSeq + skipped + len(p.segs) - 1 // last complete segment
		ok := false
		switch {
		case int(msn) <= last && partS == "-":
			ok = true
		case int(msn) <= last:
			ok = true // a complete segment contains all its parts (roll-over lands in a later or the open segment: checked below)
			idx := int(msn) - p.mediaSeq - skipped
			if idx >= 0 && idx < len(p.segs) && len(p.segs)-idx <= 2 && !p.segs[idx].gap {
				if int(part) >= len(p.segs[idx].parts) {
					// roll-over: part 0 of msn+1 must be there
					if idx+1 < len(p.segs) {
						ok = true
					} else {
						ok = len(p.parts) > 0
					}
				}
			}
		case int(msn) == last+1:
			ok = partS != "-" && int(part) < len(p.parts)
		}
		if !ok && partS == "-" && int(msn) == last+1 {
			o.failf("C06 msn-only-early stream %d: request _HLS_msn=%s without _HLS_part answered before segment %s is complete (last complete %d, %d open parts)", si, msnS, msnS, last, len(p.parts))
		} else if !ok {
			o.failf("C06 stream %d: request (msn=%s,part=%s) answered with a playlist that does not contain it (last complete %d, %d open parts)", si, msnS, partS, last, len(p.parts))
		}
		for _, g := range p.segs {
			if strings.Contains(g.uri, "_HLS_") {
				o.failf("C06 stream %d: _HLS_ directive copied into URI %s", si, g.uri)
			}
		}
		return
	}
	if prev == nil {
		return
	}
	last := prev.mediaSeq + len(prev.segs) - 1
	if outcome == "400" {
		// allowed only: more than two past the last complete segment, or expired
		if int64(msn) <= int64(last)+2 && int64(msn) > int64(prev.mediaSeq) {
			o.failf("C06 stream %d: request msn=%s part=%s rejected with 400 although the playlist covers %d..%d (open %d)", si, msnS, partS, prev.mediaSeq, last, last+1)
		}
	}
	if outcome == "wait" {
		if int64(msn) <= int64(last) && int64(msn) > int64(prev.mediaSeq) {
			idx := int(msn) - prev.mediaSeq
			if idx >= 0 && idx < len(prev.segs) && prev.segs[idx].gap {
				o.failf("C06 gap-msn-blocks stream %d: request for listed gap segment msn=%s blocks (neither answered nor rejected)", si, msnS)
				return
			}
			// complete segment requested: answer must not need more input, unless the part index rolls over
			// into the open segment whose part 0 does not exist yet
			if partS == "-" {
				o.failf("C06 stream %d: request for complete segment msn=%s blocks", si, msnS)
			} else if idx >= 0 && idx < len(prev.segs) && len(prev.segs)-idx <= 2 && int(part) < len(prev.segs[idx].parts) {
				o.failf("C06 stream %d: request for published part (msn=%s,part=%s) blocks", si, msnS, partS)
			} else if idx == len(prev.segs)-1 && len(prev.parts) > 0 {
				o.failf("C06 rollover-open-segment stream %d: request (msn=%s,part=%s) rolls over to part 0 of the open segment, which is published, yet it blocks", si, msnS, partS)
			}
		}
		if int64(msn) == int64(last)+1 && partS != "-" && int(part) < len(prev.parts) {
			o.failf("C06 stream %d: request for published part %s of the open segment blocks", si, partS)
		}
	}
}

// checkDueTS: C02 for MPEG-TS — a segment is started at a leading unit exactly when it is due
// (video: random access and (SegmentMinDuration reached or parameters changed); audio-only: 100 writes and
// SegmentMinDuration reached), never earlier, never skipped.
func (o *mxOracle) checkDueTS(p *m3uMedia, lead int, leadUnits [][]int) {
	r := o.r
	w := o.written[lead]
	rate := r.tracks[lead].rate
	video := isVideoCodec(r.tracks[lead].codec)
	for i, us := range leadUnits {
		if len(us) == 0 {
			continue
		}
		start := toDurNs(w[us[0]].dts, rate)
		// never skipped when due: no later unit of this segment should have started a new one
		for n, ix := range us[1:] {
			d := toDurNs(w[ix].dts, rate) - start
			if video && w[ix].ra && (d >= r.segMin || o.paramChangedAt(lead, ix)) {
				o.failf("C02 media sequence %d: random-access unit %d is %d ns into the segment (SegmentMinDuration %d, parameter change %v) but no segment was started there", p.mediaSeq+i, w[ix].pay, d, r.segMin, o.paramChangedAt(lead, ix))
			}
			if !video && n+1 >= 100 && d >= r.segMin {
				o.failf("C02 media sequence %d: audio unit %d is the %dth write of the segment and %d ns into it (>= SegmentMinDuration %d) but no segment was started there", p.mediaSeq+i, w[ix].pay, n+2, d, r.segMin)
			}
		}
		// never earlier: the next listed segment's first unit must have been due
		if i+1 < len(leadUnits) && len(leadUnits[i+1]) > 0 {
			nx := leadUnits[i+1][0]
			d := toDurNs(w[nx].dts, rate) - start
			if video && !(d >= r.segMin || o.paramChangedAt(lead, nx)) {
				o.failf("C02 media sequence %d is only %d ns long (SegmentMinDuration %d) and no parameter change explains the cut", p.mediaSeq+i, d, r.segMin)
			}
			if !video && (len(us) < 100 || d < r.segMin) {
				o.failf("C02 media sequence %d (audio-only MPEG-TS) was cut after %d writes / %d ns (needs 100 writes and SegmentMinDuration %d)", p.mediaSeq+i, len(us), d, r.segMin)
			}
		}
	}
}

// everChanged: did a random-access unit at or before index ix activate a parameter change?
func (o *mxOracle) everChanged(ti int, ix int) bool {
	for i := 0; i <= ix && i < len(o.written[ti]); i++ {
		if o.paramChangedAt(ti, i) {
			return true
		}
	}
	return false
}
