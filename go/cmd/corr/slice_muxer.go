package main

import (
	"bytes"
	"context"
	"encoding/binary"
	"errors"
	"fmt"
	"io"
	"net/http"
	"net/http/httptest"
	"os"
	"regexp"
	"runtime"
	"sort"
	"strconv"
	"strings"
	"time"

	"github.com/asticode/go-astits"
	"github.com/bluenviron/gohlslib/v2"
	"github.com/bluenviron/gohlslib/v2/pkg/codecs"
	"github.com/bluenviron/mediacommon/v2/pkg/codecs/mpeg4audio"
	"github.com/bluenviron/mediacommon/v2/pkg/formats/fmp4"
	"github.com/bluenviron/mediacommon/v2/pkg/codecs/h264"
)

// muxer slice (C01–C05, C18, sequential half of C06): drives a real gohlslib.Muxer
// through its public API (Write*, Handle) and prints canonical observations.

type muxerSlice struct{}

func init() { register(muxerSlice{}) }

func (muxerSlice) Name() string { return "muxer" }

// baseline profile, pic_order_cnt_type = 2 (DTS = PTS)
var mxSPS = []byte{
	0x67, 0x42, 0xc0, 0x28, 0xd9, 0x00, 0x78, 0x02,
	0x27, 0xe5, 0x84, 0x00, 0x00, 0x03, 0x00, 0x04,
	0x00, 0x00, 0x03, 0x00, 0xf0, 0x3c, 0x60, 0xc9,
	0x20,
}

func mxPPS(par int) []byte { return []byte{0x08, byte(par)} }

type mxTrack struct {
	bf    bool // H264 with frame reordering (muxer_bframes.go)
	szf   bool // AV1: sequence headers travel with their obu_size field
	codec string
	rate  int
	sr    int
	track *gohlslib.Track
}

type mxUnit struct { // a unit the harness wrote (per track, in writing order)
	pay     int
	dts     int64 // ticks, as written (before any offset)
	ptsOff  int64
	sync    bool
	ntpMs   int64
	changed bool // unit carried parameter sets different from the previous ones (as seen by the harness)
	size    int
}

type mxRunner struct {
	variant  string
	segCount int
	segMin   int64
	partMin  int64
	maxSize  uint64
	useDir   bool
	dir      string
	tracks   []*mxTrack
	m        *gohlslib.Muxer
	started  bool
	encErrs  int
	listed   []string          // canonical keys ever listed, first-listing order
	uriOf    map[string]string // key -> last full URI seen
	hadPl    map[int]bool      // stream got a playlist already (handler can no longer block)
	goneKeys map[string]bool
	fails    []string
	orc      *mxOracle
}

func (muxerSlice) NewRunner() Runner {
	return &mxRunner{uriOf: map[string]string{}, hadPl: map[int]bool{}, goneKeys: map[string]bool{}}
}

func (r *mxRunner) Close() {
	if r.m != nil && r.started {
		r.m.Close()
	}
	if r.dir != "" {
		os.RemoveAll(r.dir)
	}
}

func (r *mxRunner) Oracle() []string {
	out := r.fails
	if r.orc != nil {
		out = append(out, r.orc.fails...)
	}
	if len(out) > 5 {
		out = out[:5]
	}
	return out
}

func (r *mxRunner) failf(format string, a ...any) {
	if len(r.fails) < 20 {
		r.fails = append(r.fails, fmt.Sprintf(format, a...))
	}
}

func kvs(ws []string) map[string]string {
	m := map[string]string{}
	for _, w := range ws {
		if i := strings.IndexByte(w, '='); i >= 0 {
			m[w[:i]] = w[i+1:]
		}
	}
	return m
}

func atoi64(s string) int64 { v, _ := strconv.ParseInt(s, 10, 64); return v }

func intsOf(s string) []int64 {
	if s == "-" || s == "" {
		return nil
	}
	var out []int64
	for _, x := range strings.Split(s, ",") {
		out = append(out, atoi64(x))
	}
	return out
}

func (r *mxRunner) streamCount() int {
	if r.variant == "ts" {
		return 1
	}
	return len(r.tracks)
}

func (r *mxRunner) streamID(si int) string {
	if r.variant == "ts" {
		return "main"
	}
	t := r.tracks[si]
	if isVideoCodec(t.codec) {
		return "video" + strconv.Itoa(si+1)
	}
	return "audio" + strconv.Itoa(si+1)
}

func isVideoCodec(c string) bool { return c == "h264" || c == "h265" || c == "vp9" || c == "av1" }

var mxURIRe = regexp.MustCompile(`^([0-9a-f]{12})_([a-z]+[0-9]*)_(seg|part|init)([0-9]*)\.(mp4|ts)$`)

// canonKey maps a served URI to the model's path key; "" if it has no canonical form.
func (r *mxRunner) canonKey(uri string) string {
	if i := strings.IndexByte(uri, '?'); i >= 0 {
		uri = uri[:i]
	}
	if uri == "gap.mp4" {
		return "gap"
	}
	m := mxURIRe.FindStringSubmatch(uri)
	if m == nil {
		return "?" + uri
	}
	si := -1
	for i := 0; i < r.streamCount(); i++ {
		if r.streamID(i) == m[2] {
			si = i
		}
	}
	if si < 0 {
		return "?" + uri
	}
	switch m[3] {
	case "init":
		return fmt.Sprintf("init%d", si)
	case "seg":
		return fmt.Sprintf("seg%d_%s", si, m[4])
	default:
		return fmt.Sprintf("part%d_%s", si, m[4])
	}
}

func (r *mxRunner) do(path string) *httptest.ResponseRecorder {
	req := httptest.NewRequest(http.MethodGet, "http://localhost/"+path, nil)
	w := httptest.NewRecorder()
	r.m.Handle(w, req)
	return w
}

func curGoroutineID() uint64 {
	var buf [64]byte
	n := runtime.Stack(buf[:], false)
	// "goroutine 123 [running]:"
	f := strings.Fields(string(buf[:n]))
	if len(f) < 2 {
		return 0
	}
	id, _ := strconv.ParseUint(f[1], 10, 64)
	return id
}

var mxWaitCh = make(chan uint64, 1024)

func init() {
	// the muxer's handlers call verifYield("muxer.wait") right before cond.Wait() (mutex held):
	// from that point on the handler is parked until the next Broadcast.
	gohlslib.VerifSetYieldHook(func(point string) {
		if point == "muxer.wait" {
			select {
			case mxWaitCh <- curGoroutineID():
			default:
			}
		}
	})
}

// doMayBlock runs a request that may block inside the muxer; nil = the handler announced (through the
// verif yield point) that it is about to park in cond.Wait. No wall-clock guess is involved.
func (r *mxRunner) doMayBlock(path string, _ time.Duration) *httptest.ResponseRecorder {
	for drained := false; !drained; { // stale announcements of earlier requests
		select {
		case <-mxWaitCh:
		default:
			drained = true
		}
	}
	ch := make(chan *httptest.ResponseRecorder, 1)
	idCh := make(chan uint64, 1)
	go func() {
		defer func() {
			// a handler that panics (net/http would answer by closing the connection) is observed as status 599
			if e := recover(); e != nil {
				if os.Getenv("VERIF_DEBUG") != "" {
					buf := make([]byte, 1<<14)
					n := runtime.Stack(buf, false)
					fmt.Fprintf(os.Stderr, "DEBUG doMayBlock handler panic: %v\n%s\n", e, buf[:n])
				}
				w := httptest.NewRecorder()
				w.Code = 599
				ch <- w
			}
		}()
		idCh <- curGoroutineID()
		ch <- r.do(path)
	}()
	id := <-idCh
	deadline := time.After(10 * time.Second)
	for {
		select {
		case w := <-ch:
			return w
		case g := <-mxWaitCh:
			if g == id {
				return nil
			}
			// an earlier, still blocked request re-parking after a Broadcast: ignore
		case <-deadline:
			if os.Getenv("VERIF_DEBUG") != "" {
				buf := make([]byte, 1<<16)
				n := runtime.Stack(buf, true)
				fmt.Fprintf(os.Stderr, "DEBUG doMayBlock deadline path=%s id=%d\n%s\n", path, id, buf[:n])
			}
			return nil
		}
	}
}

func (r *mxRunner) Step(line string) []string {
	ws := strings.Fields(line)
	if len(ws) == 0 {
		return nil
	}
	a := kvs(ws[1:])
	switch ws[0] {
	case "start":
		r.variant = a["v"]
		r.segCount = int(atoi64(a["segcount"]))
		r.segMin = atoi64(a["segmin"])
		r.partMin = atoi64(a["partmin"])
		r.maxSize = uint64(atoi64(a["maxsize"]))
		r.useDir = a["dir"] == "1"
		return nil
	case "track":
		r.tracks = append(r.tracks, &mxTrack{codec: a["codec"], rate: int(atoi64(a["rate"])), sr: int(atoi64(a["sr"])), bf: a["bf"] == "1", szf: a["szf"] == "1"})
		return nil
	case "begin":
		return []string{r.begin()}
	case "w":
		return []string{r.write(a)}
	case "snap":
		return r.snap()
	case "close":
		return []string{r.closeOp()}
	case "gethint":
		return []string{r.getHint(int(atoi64(a["s"])))}
	case "req":
		return []string{r.req(a)}
	case "reqrel": // slice muxreq (C06): request relative to the live edge, see muxer_reqrel.go
		return []string{r.reqrel(a)}
	}
	return []string{"bad-op"}
}

// closeOp: Muxer.Close, then what is left in Directory (C07: "every file the muxer created has been removed").
func (r *mxRunner) closeOp() string {
	if !r.started {
		return "bad-op"
	}
	r.m.Close()
	r.started = false
	if r.dir == "" {
		return "closed files=-"
	}
	ents, _ := os.ReadDir(r.dir)
	var files []string
	for _, e := range ents {
		files = append(files, r.canonKey(e.Name()))
	}
	sort.Slice(files, func(i, j int) bool { return keyLess(files[i], files[j]) })
	if len(files) != 0 {
		r.failf("C07 files left in Directory after Close: %v", files)
	}
	return "closed files=" + strings.Join(files, " ")
}

func (r *mxRunner) begin() string {
	m := &gohlslib.Muxer{
		SegmentCount:       r.segCount,
		SegmentMinDuration: time.Duration(r.segMin),
		PartMinDuration:    time.Duration(r.partMin),
		SegmentMaxSize:     r.maxSize,
		OnEncodeError:      func(error) { r.encErrs++ },
	}
	switch r.variant {
	case "ts":
		m.Variant = gohlslib.MuxerVariantMPEGTS
	case "fmp4":
		m.Variant = gohlslib.MuxerVariantFMP4
	default:
		m.Variant = gohlslib.MuxerVariantLowLatency
	}
	for _, t := range r.tracks {
		tr := &gohlslib.Track{ClockRate: t.rate}
		switch t.codec {
		case "h264":
			tr.Codec = &codecs.H264{SPS: mxSPS, PPS: mxPPS(1)}
			if t.bf {
				tr.Codec = &codecs.H264{SPS: bfSPS, PPS: mxPPS(1)}
			}
		case "aac":
			tr.Codec = &codecs.MPEG4Audio{Config: mpeg4audio.Config{Type: 2, SampleRate: t.sr, ChannelCount: 2}}
		case "opus":
			tr.Codec = &codecs.Opus{ChannelCount: 2}
		case "vp9", "av1", "h265":
			tr.Codec = mxOtherCodec(t.codec)
			if t.szf && t.codec == "av1" {
				tr.Codec = &codecs.AV1{SequenceHeader: av1Sized(av1SeqHeaders[0])}
			}
			if t.bf && t.codec == "h265" {
				tr.Codec = &codecs.H265{VPS: bf5VPS, SPS: bf5SPS, PPS: bf5PPS}
			}
		}
		t.track = tr
		m.Tracks = append(m.Tracks, tr)
	}
	if r.useDir {
		d, err := os.MkdirTemp("", "verif-muxer-")
		if err != nil {
			panic(err)
		}
		r.dir = d
		m.Directory = d
	}
	err := m.Start()
	if err != nil {
		return "starterr " + mxStartErrClass(err.Error())
	}
	r.m = m
	r.started = true
	r.segCount = m.SegmentCount // effective values after defaults
	r.segMin = int64(m.SegmentMinDuration)
	r.partMin = int64(m.PartMinDuration)
	r.maxSize = m.SegmentMaxSize
	r.orc = newMxOracle(r)
	return "started"
}

func mxStartErrClass(msg string) string {
	switch {
	case strings.Contains(msg, "at least one track"):
		return "Hls.Muxer.StartErr.noTracks"
	case strings.Contains(msg, "MPEG-TS variant of HLS supports a single video"):
		return "Hls.Muxer.StartErr.tsMultiVideo"
	case strings.Contains(msg, "supports H264 video only"):
		return "Hls.Muxer.StartErr.tsVideoCodec"
	case strings.Contains(msg, "MPEG-TS variant of HLS supports a single audio"):
		return "Hls.Muxer.StartErr.tsMultiAudio"
	case strings.Contains(msg, "supports MPEG-4 Audio only"):
		return "Hls.Muxer.StartErr.tsAudioCodec"
	case strings.Contains(msg, "only one video track"):
		return "Hls.Muxer.StartErr.multiVideo"
	case strings.Contains(msg, "at least 7 segments"), strings.Contains(msg, "minimum number of HLS segments"):
		return "Hls.Muxer.StartErr.segCount"
	}
	return "other:" + msg
}

// idBytes encodes a payload id in 5 bytes that never contain 0x00..0x03 (no Annex-B start code or
// emulation-prevention pattern can appear), followed by `fill` filler bytes.
func idBytes(id int, fill int) []byte {
	b := make([]byte, 5+fill)
	for i := 0; i < 5; i++ {
		b[i] = 0x80 | byte((id>>(7*(4-i)))&0x7f)
	}
	for i := 5; i < len(b); i++ {
		b[i] = byte(0x80 | (id+i)&0x7f)
	}
	return b
}

func idOf(b []byte) int {
	if len(b) < 5 {
		return -1
	}
	v := 0
	for i := 0; i < 5; i++ {
		if b[i]&0x80 == 0 {
			return -1
		}
		v = v<<7 | int(b[i]&0x7f)
	}
	return v
}

// mxBuildH264 builds the access unit for (par, ra, pic, pay, fill).
func mxBuildH264(par int, ra, pic bool, pay, fill int) [][]byte {
	var au [][]byte
	if par != 0 {
		au = append(au, mxSPS, mxPPS(par))
	}
	switch {
	case ra:
		au = append(au, append([]byte{0x65}, idBytes(pay, fill)...))
	case pic:
		au = append(au, append([]byte{0x41}, idBytes(pay, fill)...))
	default:
		if par == 0 {
			au = append(au, append([]byte{0x06}, idBytes(pay, fill)...)) // SEI only
		}
	}
	return au
}

func mxH264Sizes(variant string, au [][]byte) int {
	n := 0
	for _, nalu := range au {
		n += len(nalu)
		if variant != "ts" {
			n += 4
		}
	}
	return n
}

func (r *mxRunner) write(a map[string]string) string {
	if !r.started {
		return "bad-op"
	}
	ti := int(atoi64(a["t"]))
	t := r.tracks[ti]
	pts, dts := atoi64(a["pts"]), atoi64(a["dts"])
	ntp := mxInZone(atoi64(a["ntp"]))
	ra, pic, par := a["ra"] == "1", a["pic"] == "1", int(atoi64(a["par"]))
	pays := intsOf(a["pays"])
	fill := int(atoi64(a["fill"]))
	_ = dts
	var err error
	switch t.codec {
	case "h264":
		au := mxBuildH264(par, ra, pic, int(pays[0]), fill)
		if t.bf {
			au = bfBuildAU(par, int(atoi64(a["bf"])), int(pays[0]))
		}
		err = r.m.WriteH264(t.track, ntp, pts, au)
	case "aac":
		var aus [][]byte
		for _, p := range pays {
			aus = append(aus, idBytes(int(p), fill))
		}
		err = r.m.WriteMPEG4Audio(t.track, ntp, pts, aus)
	case "opus":
		var pkts [][]byte
		tocs := intsOf(a["tocs"])
		for i, p := range pays {
			pkts = append(pkts, append([]byte{byte(tocs[i])}, idBytes(int(p), fill)...))
		}
		err = r.m.WriteOpus(t.track, ntp, pts, pkts)
	default:
		if t.bf && t.codec == "h265" {
			err = r.m.WriteH265(t.track, ntp, pts, bf5BuildAU(par, int(atoi64(a["bf"])), int(pays[0])))
		} else {
			err = mxWriteOther(r, t, ntp, pts, ra, par, int(pays[0]), fill)
		}
	}
	r.orc.noteWrite(ti, a, err)
	if err != nil {
		return fmt.Sprintf("w err enc=%d", r.encErrs)
	}
	return fmt.Sprintf("w ok enc=%d", r.encErrs)
}

func b01(b bool) string {
	if b {
		return "1"
	}
	return "0"
}

func (r *mxRunner) fmtPart(p m3uPart) string {
	return fmt.Sprintf("%d,%s,%s", p.dur, r.canonKey(p.uri), b01(p.indep))
}

func (r *mxRunner) fmtPlaylist(p *m3uMedia) string {
	sc, pi, mp, sk, hint := "-", "-", "-", "-", "-"
	if p.hasSC {
		sc = fmt.Sprintf("%d,%d", p.holdBack, p.skipUntil)
	}
	if p.hasPartInf {
		pi = strconv.FormatInt(p.partTarget, 10)
	}
	if p.mapURI != "" {
		mp = r.canonKey(p.mapURI)
	}
	if p.hasSkip {
		sk = strconv.Itoa(p.skipped)
	}
	if p.hint != "" {
		hint = r.canonKey(p.hint)
	}
	var segs []string
	for _, g := range p.segs {
		pdt := "-"
		if g.pdt >= 0 {
			pdt = strconv.FormatInt(g.pdt, 10)
		}
		var parts []string
		for _, pt := range g.parts {
			parts = append(parts, r.fmtPart(pt))
		}
		segs = append(segs, fmt.Sprintf("%d:%s:%s:%s:[%s]", g.dur, r.canonKey(g.uri), b01(g.gap), pdt, strings.Join(parts, " ")))
	}
	var parts []string
	for _, pt := range p.parts {
		parts = append(parts, r.fmtPart(pt))
	}
	return fmt.Sprintf("v=%d ac=%s td=%d ms=%d sc=%s pi=%s map=%s skip=%s segs=%s parts=[%s] hint=%s",
		p.version, b01(p.allowCache == "NO"), p.target, p.mediaSeq, sc, pi, mp, sk,
		strings.Join(segs, ";"), strings.Join(parts, " "), hint)
}

func (r *mxRunner) noteListed(p *m3uMedia) {
	add := func(uri string) {
		k := r.canonKey(uri)
		if k == "gap" {
			return
		}
		if _, ok := r.uriOf[k]; !ok {
			r.listed = append(r.listed, k)
		}
		r.uriOf[k] = uri
	}
	if p.mapURI != "" {
		add(p.mapURI)
	}
	for _, g := range p.segs {
		add(g.uri)
		for _, pt := range g.parts {
			add(pt.uri)
		}
	}
	for _, pt := range p.parts {
		add(pt.uri)
	}
}

// fetchPlaylist returns (parsed, raw text, blocked).
func (r *mxRunner) fetchPlaylist(si int, query string) (*m3uMedia, string, int, bool) {
	path := r.streamID(si) + "_stream.m3u8"
	if query != "" {
		path += "?" + query
	}
	var w *httptest.ResponseRecorder
	if r.hadPl[si] && !strings.Contains(query, "_HLS_msn") {
		w = r.do(path)
	} else {
		w = r.doMayBlock(path, 15*time.Millisecond)
		if w == nil {
			return nil, "", 0, true
		}
	}
	if w.Code != 200 {
		return nil, "", w.Code, false
	}
	text := w.Body.String()
	p, err := parseM3UMedia(text)
	if err != nil {
		r.failf("C15 stream %d: served media playlist does not parse under the strict reader: %v\n%s", si, err, text)
		return nil, text, 200, false
	}
	if ct := w.Header().Get("Content-Type"); ct != "application/vnd.apple.mpegurl" {
		r.failf("C05 playlist content type %q", ct)
	}
	return p, text, 200, false
}

func (r *mxRunner) snap() []string {
	if !r.started {
		return []string{"bad-op"}
	}
	var out []string
	pls := map[int]*m3uMedia{}
	for si := 0; si < r.streamCount(); si++ {
		p, _, code, blocked := r.fetchPlaylist(si, "")
		switch {
		case blocked:
			out = append(out, fmt.Sprintf("pl s=%d d=0 wait", si))
			continue
		case p == nil:
			out = append(out, fmt.Sprintf("pl s=%d d=0 status=%d", si, code))
			continue
		}
		r.hadPl[si] = true
		pls[si] = p
		r.noteListed(p)
		out = append(out, fmt.Sprintf("pl s=%d d=0 %s", si, r.fmtPlaylist(p)))
		if r.variant != "ts" {
			// the same playlist requested with a query that carries no delivery directive but characters that must
			// not appear raw inside a quoted attribute value: it must still parse (C15: "every playlist a muxer
			// serves") and every URI must carry the re-encoded query (C06)
			if pq, _, _, _ := r.fetchPlaylist(si, "tok=\"q\"&z=<1>"); pq != nil {
				for _, u := range mxAllURIs(pq) {
					q := ""
					if i := strings.IndexByte(u, '?'); i >= 0 {
						q = u[i+1:]
					}
					if q != "tok=%22q%22&z=%3C1%3E" {
						r.failf("C06 stream %d: URI %s of a playlist requested with ?tok=\"q\"&z=<1> carries query %q, expected the re-encoded tok=%%22q%%22&z=%%3C1%%3E", si, u, q)
						break
					}
				}
				if len(pq.segs) != len(p.segs) {
					r.failf("C06 stream %d: the playlist requested with a plain query lists %d segments, without it %d", si, len(pq.segs), len(p.segs))
				}
			}
		}
		if r.variant != "ll" {
			// a delta update may only be served by a playlist that advertises CAN-SKIP-UNTIL (RFC 8216bis 6.2.5.1): the
			// MPEG-TS and fMP4 variants advertise none, so `_HLS_skip` must be answered with the full playlist
			if pd, _, _, _ := r.fetchPlaylist(si, "_HLS_skip=YES"); pd != nil && (pd.hasSkip || len(pd.segs) != len(p.segs) || pd.mapURI != p.mapURI) {
				r.failf("C15 stream %d: a playlist that advertises no CAN-SKIP-UNTIL answered _HLS_skip=YES with a delta update (EXT-X-SKIP=%v, %d/%d segments, MAP %q)", si, pd.hasSkip, len(pd.segs), len(p.segs), pd.mapURI)
			}
		}
		if r.variant == "ll" {
			pd, _, code, _ := r.fetchPlaylist(si, "_HLS_skip=YES")
			if pd == nil {
				out = append(out, fmt.Sprintf("pl s=%d d=1 status=%d", si, code))
			} else {
				r.noteListed(pd)
				out = append(out, fmt.Sprintf("pl s=%d d=1 %s", si, r.fmtPlaylist(pd)))
				r.orc.checkDelta(si, p, pd)
			}
		}
	}
	bodies := map[string]string{}
	raws := map[string][]byte{}
	for _, k := range r.listed {
		w := r.do(r.uriOf[k])
		body := r.canonBody(k, w)
		bodies[k] = body
		raws[k] = w.Body.Bytes()
		out = append(out, fmt.Sprintf("get %s %s", k, body))
	}
	var files []string
	if r.dir != "" {
		ents, _ := os.ReadDir(r.dir)
		for _, e := range ents {
			files = append(files, r.canonKey(e.Name()))
		}
		sort.Slice(files, func(i, j int) bool { return keyLess(files[i], files[j]) })
		out = append(out, "files "+strings.Join(files, " "))
	} else {
		out = append(out, "files -")
	}
	r.orc.checkSnap(pls, bodies, raws, files)
	return out
}

// keyLess orders keys the way the model lists files: creation order = (segment id, stream index).
func keyLess(a, b string) bool {
	pa, pb := keyNums(a), keyNums(b)
	if pa[1] != pb[1] {
		return pa[1] < pb[1]
	}
	return pa[0] < pb[0]
}

var keyRe = regexp.MustCompile(`^[a-z]+([0-9]+)_([0-9]+)$`)

func keyNums(k string) [2]int64 {
	m := keyRe.FindStringSubmatch(k)
	if m == nil {
		return [2]int64{-1, -1}
	}
	return [2]int64{atoi64(m[1]), atoi64(m[2])}
}

func (r *mxRunner) payOfNALUs(nalus [][]byte) int {
	for _, n := range nalus {
		if len(n) >= 6 {
			switch r.videoCodec() {
			case "h264":
				if t := n[0] & 0x1f; t == 5 || t == 1 {
					if id := idOf(n[1:]); id >= 0 {
						return id
					}
					if len(n) >= 11 {
						return idOf(n[6:]) // reordering pattern: 6 header bytes, then the id
					}
					return -1
				}
			}
		}
	}
	return -1
}

func (r *mxRunner) videoCodec() string {
	for _, t := range r.tracks {
		if isVideoCodec(t.codec) {
			return t.codec
		}
	}
	return ""
}

func splitAVCC(b []byte) [][]byte {
	var out [][]byte
	for len(b) >= 4 {
		n := int(binary.BigEndian.Uint32(b))
		b = b[4:]
		if n > len(b) {
			return nil
		}
		out = append(out, b[:n])
		b = b[n:]
	}
	return out
}

// payOfSample extracts the payload id of an fMP4 sample of track index ti.
func (r *mxRunner) payOfSample(ti int, payload []byte) int {
	switch r.tracks[ti].codec {
	case "h264":
		return r.payOfNALUs(splitAVCC(payload))
	case "aac":
		return idOf(payload)
	case "opus":
		if len(payload) >= 1 {
			return idOf(payload[1:])
		}
	default:
		return mxPayOfOther(r.tracks[ti].codec, payload)
	}
	return -1
}

func (r *mxRunner) fmtParts(si int, ps fmp4.Parts) string {
	var out []string
	for _, p := range ps {
		var trs []string
		for _, t := range p.Tracks {
			var sb strings.Builder
			ti := si
			if r.variant == "ts" {
				ti = t.ID - 1
			}
			for _, s := range t.Samples {
				fmt.Fprintf(&sb, "(%d,%d,%s,%d)", s.Duration, s.PTSOffset, b01(!s.IsNonSyncSample), r.payOfSample(ti, s.Payload))
			}
			trs = append(trs, fmt.Sprintf("t%d@%d:%s", t.ID, t.BaseTime, sb.String()))
		}
		out = append(out, fmt.Sprintf("#%d{%s}", p.SequenceNumber, strings.Join(trs, " ")))
	}
	return strings.Join(out, ";")
}

const two33 = int64(1) << 33

// decodeTS demultiplexes a segment with go-astits directly (mediacommon's Reader needs data of
// every track to initialise, which a short segment may not have).
func (r *mxRunner) decodeTS(b []byte) (string, error) {
	dem := astits.NewDemuxer(context.Background(), bytes.NewReader(b), astits.DemuxerOptPacketSize(188))
	// per-track output (the demultiplexer's cross-track emission order carries no meaning)
	sbs := make([]strings.Builder, len(r.tracks))
	all := func() string {
		var out strings.Builder
		for i := range sbs {
			out.WriteString(sbs[i].String())
		}
		return out.String()
	}
	pidIdx := map[uint16]int{}
	for {
		d, err := dem.NextData()
		if err != nil {
			if errors.Is(err, astits.ErrNoMorePackets) {
				return all(), nil
			}
			return all(), err
		}
		if d.PMT != nil {
			for i, es := range d.PMT.ElementaryStreams {
				pidIdx[es.ElementaryPID] = i
			}
			continue
		}
		if d.PES == nil {
			continue
		}
		i, ok := pidIdx[d.PID]
		if !ok && d.PID >= 256 {
			i, ok = int(d.PID-256), true // no PMT in this segment (only after a failed Write): mediacommon's default PIDs
		}
		if !ok || i >= len(sbs) {
			return all(), fmt.Errorf("PES on PID %d before/without a PMT entry", d.PID)
		}
		sb := &sbs[i]
		oh := d.PES.Header.OptionalHeader
		if oh == nil || oh.PTS == nil {
			return all(), fmt.Errorf("PES without PTS")
		}
		pts := oh.PTS.Base
		dts := pts
		if oh.PTSDTSIndicator == astits.PTSDTSIndicatorBothPresent && oh.DTS != nil {
			dts = oh.DTS.Base
		}
		if isVideoCodec(r.tracks[i].codec) {
			var au h264.AnnexB
			if err := au.Unmarshal(d.PES.Data); err != nil {
				return all(), err
			}
			fmt.Fprintf(sb, "(%d,%d,%d,%d)", i, pts%two33, dts%two33, r.payOfNALUs(au))
		} else {
			var pkts mpeg4audio.ADTSPackets
			if err := pkts.Unmarshal(d.PES.Data); err != nil {
				return all(), err
			}
			var ids []string
			for _, pkt := range pkts {
				ids = append(ids, strconv.Itoa(idOf(pkt.AU)))
			}
			fmt.Fprintf(sb, "(%d,%d,%d,%s)", i, pts%two33, dts%two33, strings.Join(ids, "+"))
		}
	}
}

func (r *mxRunner) canonBody(k string, w *httptest.ResponseRecorder) string {
	body := w.Body.Bytes()
	ct := w.Header().Get("Content-Type")
	if len(body) == 0 {
		if w.Code != 200 {
			return fmt.Sprintf("status=%d", w.Code)
		}
		if ct == "" {
			return "none" // no handler registered: nothing written at all
		}
		switch {
		case strings.HasPrefix(k, "seg") && r.variant == "ts":
			return "ts "
		case strings.HasPrefix(k, "seg"):
			return "seg "
		case strings.HasPrefix(k, "part"):
			return "part "
		}
	}
	si := int(keyNumsAny(k))
	switch {
	case strings.HasPrefix(k, "init"):
		var in fmp4.Init
		if err := in.Unmarshal(bytes.NewReader(body)); err != nil {
			return "undecodable-init:" + err.Error()
		}
		var trs []string
		for _, t := range in.Tracks {
			par := 1
			switch c := t.Codec.(type) {
			case *fmp4.CodecH264:
				if len(c.PPS) >= 2 {
					par = int(c.PPS[1])
				}
			default:
				par = mxParOfInitCodec(t.Codec)
			}
			trs = append(trs, fmt.Sprintf("%d:%d:%d", t.ID, t.TimeScale, par))
		}
		if ct != "video/mp4" {
			r.failf("C05 init content type %q", ct)
		}
		return "init " + strings.Join(trs, " ")
	case strings.HasPrefix(k, "seg") && r.variant == "ts":
		if ct != "video/MP2T" {
			r.failf("C05 %s content type %q", k, ct)
		}
		if !r.orc.anyWriteErr && (len(body) < 188 || body[0] != 0x47 || (int(body[1]&0x1f)<<8|int(body[2])) != 0) {
			r.failf("C02 %s: MPEG-TS segment does not begin with a PAT packet", k)
		}
		s, err := r.decodeTS(body)
		if err != nil {
			return "undecodable-ts:" + err.Error()
		}
		return "ts " + s
	case strings.HasPrefix(k, "seg"), strings.HasPrefix(k, "part"):
		if ct != "video/mp4" {
			r.failf("C05 %s content type %q", k, ct)
		}
		var ps fmp4.Parts
		if err := ps.Unmarshal(body); err != nil {
			return "undecodable-fmp4:" + err.Error()
		}
		if strings.HasPrefix(k, "part") {
			return "part " + r.fmtParts(si, ps)
		}
		return "seg " + r.fmtParts(si, ps)
	}
	return "?"
}

var keyAnyRe = regexp.MustCompile(`^[a-z]+([0-9]+)`)

func keyNumsAny(k string) int64 {
	m := keyAnyRe.FindStringSubmatch(k)
	if m == nil {
		return 0
	}
	return atoi64(m[1])
}

func (r *mxRunner) getHint(si int) string {
	if !r.started || r.variant != "ll" {
		return "bad-op"
	}
	// the currently advertised hint: ask the muxer itself (non blocking playlist request when content exists)
	p, _, _, blocked := r.fetchPlaylist(si, "")
	if blocked {
		return "gethint nohint"
	}
	r.hadPl[si] = p != nil
	if p == nil || p.hint == "" {
		r.failf("C04 stream %d: LL playlist without preload hint", si)
		return "gethint nohint"
	}
	w := r.doMayBlock(p.hint, 15*time.Millisecond)
	if w == nil {
		return "gethint hintwait"
	}
	return "gethint " + r.canonBody(r.canonKey(p.hint), w)
}

func (r *mxRunner) req(a map[string]string) string {
	if !r.started {
		return "bad-op"
	}
	si := int(atoi64(a["s"]))
	var q []string
	if a["msn"] != "-" {
		q = append(q, "_HLS_msn="+a["msn"])
	}
	if a["part"] != "-" {
		q = append(q, "_HLS_part="+a["part"])
	}
	if a["skip"] != "-" {
		q = append(q, "_HLS_skip="+a["skip"])
	}
	path := r.streamID(si) + "_stream.m3u8"
	if len(q) > 0 {
		path += "?" + strings.Join(q, "&")
	}
	// the playlist of the same instant (the oracle's reference point)
	if r.hadPl[si] {
		if cur, _, _, _ := r.fetchPlaylist(si, ""); cur != nil {
			r.orc.prevPl[si] = cur
		}
	} else {
		delete(r.orc.prevPl, si)
	}
	w := r.doMayBlock(path, 15*time.Millisecond)
	if w == nil {
		r.orc.noteReq(si, a, "wait", nil)
		return "req wait"
	}
	if w.Code != 200 {
		r.orc.noteReq(si, a, strconv.Itoa(w.Code), nil)
		return fmt.Sprintf("req %d", w.Code)
	}
	p, err := parseM3UMedia(w.Body.String())
	if err != nil {
		r.failf("C15 stream %d: blocking-reload response does not parse: %v", si, err)
		return "req 200 unparsable"
	}
	r.hadPl[si] = true
	r.orc.noteReq(si, a, "200", p)
	return "req 200 " + r.fmtPlaylist(p)
}

var _ = io.EOF
var _ = binary.BigEndian


// mxInZone: the wall-clock instant of a write, expressed in a time zone chosen from the value itself. The property
// speaks about the instant ("the wall-clock time supplied with the segment's first unit"); an application may hand
// over times in any location.
var mxZones = []*time.Location{time.UTC, time.FixedZone("IST", 5*3600+1800), time.FixedZone("EST", -5*3600), time.FixedZone("", 0), time.Local, time.FixedZone("NPT", 5*3600+2700)}

func mxInZone(ms int64) time.Time {
	return time.UnixMilli(ms).In(mxZones[int((ms/7)%int64(len(mxZones)))])
}
