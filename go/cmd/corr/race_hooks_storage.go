//go:build racehooks

package main

import "github.com/bluenviron/gohlslib/v2/pkg/storage"

// built only when the repository under test carries pkg/storage/verif_on.go (repo_patches/hooks-race.diff);
// tools/race_soak.sh adds the tag `racehooks` in that case.
func raceSetStorageHook(f func(point string)) { storage.VerifSetYieldHook(f) }

const raceStorageHook = true
