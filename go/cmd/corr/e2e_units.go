package main

import (
	"bytes"
	"fmt"

	"github.com/bluenviron/gohlslib/v2/pkg/codecs"
	"github.com/bluenviron/mediacommon/v2/pkg/codecs/av1"
	"github.com/bluenviron/mediacommon/v2/pkg/codecs/h265"
	"github.com/bluenviron/mediacommon/v2/pkg/codecs/mpeg4audio"
)

// e2e slice (property C09): access-unit construction and canonical comparison.
// The H264 / VP9 / AV1 / AAC / Opus payloads are the muxer slice's (mxBuildH264, vp9Frame, av1TU,
// idBytes: 5 id bytes + filler, never emulating a start code); H265 units are added here.

// H265 parameter sets: mediacommon's fmp4 init test vector (Main profile; no VUI timing info, so the
// DTS extractor returns DTS = PTS without parsing slice headers).
var c9H265VPS = []byte{
	0x40, 0x01, 0x0c, 0x01, 0xff, 0xff, 0x02, 0x20, 0x00, 0x00, 0x03, 0x00, 0xb0, 0x00, 0x00, 0x03,
	0x00, 0x00, 0x03, 0x00, 0x7b, 0x18, 0xb0, 0x24,
}

var c9H265SPS = []byte{
	0x42, 0x01, 0x01, 0x02, 0x20, 0x00, 0x00, 0x03, 0x00, 0xb0, 0x00, 0x00, 0x03, 0x00, 0x00, 0x03,
	0x00, 0x7b, 0xa0, 0x07, 0x82, 0x00, 0x88, 0x7d, 0xb6, 0x71, 0x8b, 0x92, 0x44, 0x80, 0x53, 0x88,
	0x88, 0x92, 0xcf, 0x24, 0xa6, 0x92, 0x72, 0xc9, 0x12, 0x49, 0x22, 0xdc, 0x91, 0xaa, 0x48, 0xfc,
	0xa2, 0x23, 0xff, 0x00, 0x01, 0x00, 0x01, 0x6a, 0x02, 0x02, 0x02, 0x01,
}

var c9H265PPS = []byte{0x44, 0x01, 0xc0, 0x25, 0x2f, 0x05, 0x32, 0x40}

// c9H265SPS2: a second, equally valid SPS (general_level_idc 4.1 -> 4.0; still no VUI timing info), so that H265
// streams can change their parameter sets in-band (parameter id 2 of the muxer slice).
var c9H265SPS2 = func() []byte {
	raw := mvH265Unescape(c9H265SPS)
	if raw[14] != 0x7b {
		panic("c9H265SPS2: general_level_idc is not where it is expected")
	}
	raw[14] = 0x78
	out := mvH265Escape(raw)
	var s h265.SPS
	if err := s.Unmarshal(out); err != nil || s.ProfileTierLevel.GeneralLevelIdc != 0x78 {
		panic("c9H265SPS2: derived SPS does not parse")
	}
	return out
}()

// c9BuildH265: [VPS SPS PPS] IDR_W_RADL | TRAIL_R, two-byte NAL header, then the id bytes.
func c9BuildH265(par int, ra bool, pay, fill int) [][]byte {
	var au [][]byte
	if par == 2 {
		au = append(au, c9H265VPS, c9H265SPS2, c9H265PPS)
	} else if par != 0 {
		au = append(au, c9H265VPS, c9H265SPS, c9H265PPS)
	}
	if ra {
		typ := byte(19) // IDR_W_RADL
		if pay%3 == 0 {
			typ = 21 // CRA_NUT: a random-access picture too (a stream may start with it)
		}
		au = append(au, append([]byte{typ << 1, 0x01}, idBytes(pay, fill)...))
	} else {
		// non-IRAP pictures of every kind: TRAIL_R mostly, TRAIL_N, RASL_R, RADL_R, TSA_R, STSA_R, RASL_N, RADL_N
		typ := []byte{1, 1, 1, 0, 9, 7, 3, 5, 1, 8, 6, 1}[pay%12]
		au = append(au, append([]byte{typ << 1, 0x01}, idBytes(pay, fill)...))
	}
	return au
}

func c9CodecOf(codec string, sr int) codecs.Codec { return c9CodecOfBf(codec, sr, false) }

// c9CodecOfBf: `bf` = the track carries the frame-reordering pattern (its own parameter sets)
func c9CodecOfBf(codec string, sr int, bf bool) codecs.Codec {
	switch codec {
	case "h264":
		if bf {
			return &codecs.H264{SPS: bfSPS, PPS: mxPPS(1)}
		}
		return &codecs.H264{SPS: mxSPS, PPS: mxPPS(1)}
	case "h265":
		if bf {
			return &codecs.H265{VPS: bf5VPS, SPS: bf5SPS, PPS: bf5PPS}
		}
		return &codecs.H265{VPS: c9H265VPS, SPS: c9H265SPS, PPS: c9H265PPS}
	case "aac":
		return &codecs.MPEG4Audio{Config: mpeg4audio.Config{Type: 2, SampleRate: sr, ChannelCount: 2}}
	case "opus":
		return &codecs.Opus{ChannelCount: 2}
	case "vp9", "av1":
		return mxOtherCodec(codec)
	}
	panic("codec not supported by the harness: " + codec)
}

// c9UnitBytes returns the access unit(s) exactly as they are handed to Write*: one element per Write* unit
// (video: one AU = list of NALUs/OBUs, VP9: one frame; audio: one element per AU / packet).
func c9UnitBytes(codec string, variant string, ra, pic bool, par int, pays []int64, fill int, tocs []int64) [][][]byte {
	switch codec {
	case "h264":
		return [][][]byte{mxBuildH264(par, ra, pic, int(pays[0]), fill)}
	case "h265":
		return [][][]byte{c9BuildH265(par, ra, int(pays[0]), fill)}
	case "vp9":
		return [][][]byte{{vp9Frame(ra, par, int(pays[0]), fill)}}
	case "av1":
		return [][][]byte{av1TU(ra, par, int(pays[0]), fill)}
	case "aac":
		var out [][][]byte
		for _, p := range pays {
			out = append(out, [][]byte{idBytes(int(p), fill)})
		}
		return out
	case "opus":
		var out [][][]byte
		for i, p := range pays {
			out = append(out, [][]byte{append([]byte{byte(tocs[i])}, idBytes(int(p), fill)...)})
		}
		return out
	}
	panic("codec")
}

func c9UnitSize(codec, variant string, ra, pic bool, par, pay, fill int) int {
	switch codec {
	case "h264":
		return mxH264Sizes(variant, mxBuildH264(par, ra, pic, pay, fill))
	case "h265":
		return mxH264Sizes(variant, c9BuildH265(par, ra, pay, fill))
	default:
		return mxOtherSize(codec, ra, par, pay, fill)
	}
}

// c9Canon reduces an access unit to what the property calls the unit: parameter-set and delimiter NALUs
// (which containers may add, drop or move into the init segment) are removed, AV1 OBUs are stripped of the
// optional size field. What is left must be byte-identical between writer and reader.
func c9Canon(codec string, au [][]byte) [][]byte {
	var out [][]byte
	switch codec {
	case "h264":
		for _, n := range au {
			if len(n) == 0 {
				continue
			}
			switch n[0] & 0x1f {
			case 7, 8, 9:
				continue
			}
			out = append(out, n)
		}
	case "h265":
		for _, n := range au {
			if len(n) == 0 {
				continue
			}
			switch (n[0] >> 1) & 0x3f {
			case 32, 33, 34, 35:
				continue
			}
			out = append(out, n)
		}
	case "av1":
		for _, o := range au {
			if len(o) == 0 {
				continue
			}
			typ := (o[0] >> 3) & 0xf
			if typ == 1 || typ == 2 { // sequence header, temporal delimiter
				continue
			}
			out = append(out, c9StripOBUSize(o))
		}
	default:
		out = au
	}
	return out
}

func c9StripOBUSize(o []byte) []byte {
	if len(o) == 0 || o[0]&0x02 == 0 {
		return o
	}
	var size av1.LEB128
	n, err := size.Unmarshal(o[1:])
	if err != nil || 1+n+int(size) > len(o) {
		return o
	}
	return append([]byte{o[0] &^ 0x02}, o[1+n:1+n+int(size)]...)
}

func c9SameAU(codec string, a, b [][]byte) bool {
	ca, cb := c9Canon(codec, a), c9Canon(codec, b)
	if len(ca) != len(cb) {
		return false
	}
	for i := range ca {
		if !bytes.Equal(ca[i], cb[i]) {
			return false
		}
	}
	return true
}

// c9IDsOf extracts the payload ids of a delivered unit (one per AU / packet / picture).
func c9IDsOf(codec string, au [][]byte) []int {
	var ids []int
	switch codec {
	case "h264":
		for _, n := range c9Canon(codec, au) {
			if len(n) >= 1 {
				id := idOf(n[1:])
				if id < 0 && len(n) >= 11 {
					id = idOf(n[6:]) // reordering pattern (muxer_bframes.go): 6 header bytes of the test vector, then the id
				}
				ids = append(ids, id)
			}
		}
	case "h265":
		for _, n := range c9Canon(codec, au) {
			if len(n) >= 2 {
				id := idOf(n[2:])
				for _, off := range []int{10, 20} { // reordering pattern: the id follows the 10 / 20 original bytes
					if id < 0 && len(n) >= off+5 {
						id = idOf(n[off:])
					}
				}
				ids = append(ids, id)
			}
		}
	case "vp9":
		for _, f := range au {
			ids = append(ids, mxPayOfVP9(f))
		}
	case "av1":
		for _, o := range c9Canon(codec, au) {
			if len(o) >= 1 {
				ids = append(ids, idOf(o[1:]))
			}
		}
	case "aac":
		for _, a := range au {
			ids = append(ids, idOf(a))
		}
	case "opus":
		for _, p := range au {
			if len(p) >= 1 {
				ids = append(ids, idOf(p[1:]))
			} else {
				ids = append(ids, -1)
			}
		}
	}
	return ids
}

func mxPayOfVP9(frame []byte) int { return mxPayOfOther("vp9", frame) }

// c9CodecParams: canonical text of a codec's type and parameters (what "same codec parameters" compares).
func c9CodecParams(c codecs.Codec, withParams bool) string {
	switch c := c.(type) {
	case nil:
		return "nil"
	case *codecs.H264:
		if !withParams {
			return "H264"
		}
		return fmt.Sprintf("H264 sps=%x pps=%x", c.SPS, c.PPS)
	case *codecs.H265:
		if !withParams {
			return "H265"
		}
		return fmt.Sprintf("H265 vps=%x sps=%x pps=%x", c.VPS, c.SPS, c.PPS)
	case *codecs.VP9:
		if !withParams {
			return "VP9"
		}
		return fmt.Sprintf("VP9 %dx%d p=%d bd=%d cs=%d cr=%v", c.Width, c.Height, c.Profile, c.BitDepth, c.ChromaSubsampling, c.ColorRange)
	case *codecs.AV1:
		if !withParams {
			return "AV1"
		}
		// the container stores the sequence header OBU with a size field: compare the OBU payload
		return fmt.Sprintf("AV1 sh=%x", c9StripOBUSize(c.SequenceHeader))
	case *codecs.MPEG4Audio:
		// the MPEG-TS container carries the audio configuration too (ADTS): always compared
		return fmt.Sprintf("MPEG4Audio type=%d sr=%d ch=%d", c.Config.Type, c.Config.SampleRate, c.Config.ChannelCount)
	case *codecs.Opus:
		if !withParams {
			return "Opus"
		}
		return fmt.Sprintf("Opus ch=%d", c.ChannelCount)
	}
	return fmt.Sprintf("%T", c)
}
