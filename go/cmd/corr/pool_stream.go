package main

import (
	"bytes"
	"context"
	"errors"
	"fmt"
	"io"
	"net/http"
	"strconv"
	"strings"
	"sync"
	"time"

	"github.com/bluenviron/mediacommon/v2/pkg/codecs/h264"
	"github.com/bluenviron/mediacommon/v2/pkg/codecs/mpeg4audio"
	"github.com/bluenviron/mediacommon/v2/pkg/formats/fmp4"
	"github.com/bluenviron/mediacommon/v2/pkg/formats/fmp4/seekablebuffer"
	"github.com/bluenviron/mediacommon/v2/pkg/formats/mpegts"
)

// pool slice (property C12), part 1: scenario, synthesized streams, scripted in-process server.
//
//	cfg fmt=fmp4|ts layout=single|rend nseg=<n> fault=none|status|transport|stall|ontracks fidx=<i>
//	    close=none|start|req|ontracks|pacing|eos cidx=<i> n=<1..3> late=0|1
//	run
//
// Requests are numbered globally in arrival order (0 = primary playlist). A fault hits the request
// with number fidx; `close=req` calls Client.Close n times when request cidx arrives and then holds
// that request until its context is cancelled.

type poolScn struct {
	format  string
	layout  string
	nseg    int
	fault   string
	fidx    int
	closeAt string
	cidx    int
	nclose  int
	late    bool
	skip    bool // Low-Latency: the playlist advertises CAN-SKIP-UNTIL (the client then asks for _HLS_skip=YES)
}

func poolParse(line string) (*poolScn, bool) {
	ws := strings.Fields(line)
	if len(ws) == 0 || ws[0] != "cfg" {
		return nil, false
	}
	s := &poolScn{format: "fmp4", layout: "single", nseg: 2, fault: "none", closeAt: "none", nclose: 1}
	for _, w := range ws[1:] {
		kv := strings.SplitN(w, "=", 2)
		if len(kv) != 2 {
			return nil, false
		}
		num := func() (int, bool) {
			v, err := strconv.Atoi(kv[1])
			return v, err == nil && v >= 0 && v <= 1000
		}
		var ok = true
		switch kv[0] {
		case "fmt":
			s.format = kv[1]
			ok = kv[1] == "fmp4" || kv[1] == "ts" || kv[1] == "ll"
		case "layout":
			s.layout = kv[1]
			ok = kv[1] == "single" || kv[1] == "rend"
		case "nseg":
			s.nseg, ok = num()
			ok = ok && s.nseg >= 1 && s.nseg <= 6
		case "fault":
			s.fault = kv[1]
			ok = kv[1] == "none" || kv[1] == "status" || kv[1] == "transport" || kv[1] == "stall" || kv[1] == "ontracks"
		case "fidx":
			s.fidx, ok = num()
		case "close":
			s.closeAt = kv[1]
			ok = kv[1] == "none" || kv[1] == "start" || kv[1] == "req" || kv[1] == "held" || kv[1] == "ontracks" || kv[1] == "pacing" || kv[1] == "eos"
		case "cidx":
			s.cidx, ok = num()
		case "n":
			s.nclose, ok = num()
			ok = ok && s.nclose >= 1 && s.nclose <= 3
		case "late":
			s.late = kv[1] == "1"
			ok = kv[1] == "0" || kv[1] == "1"
		case "skip":
			s.skip = kv[1] == "1"
			ok = kv[1] == "0" || kv[1] == "1"
		default:
			ok = false
		}
		if !ok {
			return nil, false
		}
	}
	return s, true
}

func (s *poolScn) line() string {
	l := fmt.Sprintf("cfg fmt=%s layout=%s nseg=%d fault=%s fidx=%d close=%s cidx=%d n=%d late=%d",
		s.format, s.layout, s.nseg, s.fault, s.fidx, s.closeAt, s.cidx, s.nclose, poolB2i(s.late))
	if s.format == "ll" {
		l += fmt.Sprintf(" skip=%d", poolB2i(s.skip))
	}
	return l
}

// nreq is the number of requests the client makes on a fault-free run to the end of the stream
// (read off the property's anchors: one primary playlist; per stream its playlist unless it is the
// primary one, the init segment of fMP4, nseg segments and a playlist reload between two segments).
//
// Low-Latency (fmt=ll, nseg = number of preload hints the origin will ever advertise): the stream downloader
// never fetches a segment; per stream it fetches its playlist (unless primary), the init segment, and then
// alternates "preload hint" / "playlist reload" — nseg times each; the last reload carries ENDLIST and no hint: the
// stream is over (fix-F28: nil marker, ErrClientEOS once every stream ended; upstream the loop had no end-of-stream
// path and failed with "preload hint disappeared", defect F28).
func (s *poolScn) nreq() int {
	if s.format == "ll" {
		per := 1 + 2*s.nseg
		if s.layout == "single" {
			return 1 + per
		}
		return 1 + 2*(1+per)
	}
	per := 2*s.nseg - 1
	if s.format == "fmp4" {
		per++
	}
	if s.layout == "single" {
		return 1 + per
	}
	return 1 + 2*(1+per)
}

// ---------------------------------------------------------------------------------------------
// streams

var poolSPS = []byte{
	0x67, 0x42, 0xc0, 0x28, 0xd9, 0x00, 0x78, 0x02, 0x27, 0xe5, 0x84, 0x00, 0x00, 0x03, 0x00, 0x04,
	0x00, 0x00, 0x03, 0x00, 0xf0, 0x3c, 0x60, 0xc9, 0x20,
}
var poolPPS = []byte{0x08, 0x06, 0x07, 0x08}
var poolAAC = mpeg4audio.Config{Type: 2, SampleRate: 44100, ChannelCount: 2}

func poolMP4(m interface{ Marshal(io.WriteSeeker) error }) []byte {
	var buf seekablebuffer.Buffer
	if err := m.Marshal(&buf); err != nil {
		panic(err)
	}
	return append([]byte{}, buf.Bytes()...)
}

// sample times in 90 kHz ticks: segment k holds two samples at k*1800 and k*1800+900 (10 ms apart);
// with pacing the second sample of segment 0 is 3 s after the first one.
func (s *poolScn) sampleTimes(k int) [2]int64 {
	base := int64(k) * 1800
	if s.closeAt == "pacing" {
		if k == 0 {
			return [2]int64{0, 3 * 90000}
		}
		base += 3 * 90000
	}
	return [2]int64{base, base + 900}
}

func poolAU(first bool, id byte) [][]byte {
	typ := byte(1)
	if first {
		typ = 5
	}
	return [][]byte{{typ, 0x80 | id, 0x81, 0x82}}
}

// files returns path -> bytes for stream st (0 = video / leading, 1 = audio rendition).
func (s *poolScn) files(st int) map[string][]byte {
	out := map[string][]byte{}
	video := st == 0
	if s.format != "ts" {
		name := "seg"
		if s.format == "ll" {
			name = "part" // the k-th preload hint
		}
		var codec fmp4.Codec = &fmp4.CodecH264{SPS: poolSPS, PPS: poolPPS}
		scale := int64(90000)
		if !video {
			codec = &fmp4.CodecMPEG4Audio{Config: poolAAC}
		}
		out[fmt.Sprintf("/s%d_init.mp4", st)] = poolMP4(&fmp4.Init{Tracks: []*fmp4.InitTrack{{ID: 1, TimeScale: uint32(scale), Codec: codec}}})
		for k := 0; k < s.nseg; k++ {
			tm := s.sampleTimes(k)
			next := s.sampleTimes(k + 1)[0]
			if s.closeAt == "pacing" && k == 0 {
				next = tm[1] + 900
			}
			var smp []*fmp4.PartSample
			for i := 0; i < 2; i++ {
				pl := []byte{0x80 | byte(k), byte(i)}
				if video {
					enc, err := h264.AVCC(poolAU(i == 0, byte(2*k+i))).Marshal()
					if err != nil {
						panic(err)
					}
					pl = enc
				}
				dur := tm[1] - tm[0]
				if i == 1 {
					dur = next - tm[1]
				}
				smp = append(smp, &fmp4.PartSample{Duration: uint32(dur), Payload: pl, IsNonSyncSample: video && i != 0})
			}
			parts := fmp4.Parts{{SequenceNumber: uint32(k + 1), Tracks: []*fmp4.PartTrack{{ID: 1, BaseTime: uint64(1000 + tm[0]), Samples: smp}}}}
			out[fmt.Sprintf("/s%d_%s%d.mp4", st, name, k)] = poolMP4(&parts)
		}
		return out
	}
	for k := 0; k < s.nseg; k++ {
		var buf bytes.Buffer
		var tr *mpegts.Track
		if video {
			tr = &mpegts.Track{PID: 256, Codec: &mpegts.CodecH264{}}
		} else {
			tr = &mpegts.Track{PID: 257, Codec: &mpegts.CodecMPEG4Audio{Config: poolAAC}}
		}
		w := &mpegts.Writer{W: &buf, Tracks: []*mpegts.Track{tr}}
		if err := w.Initialize(); err != nil {
			panic(err)
		}
		tm := s.sampleTimes(k)
		for i := 0; i < 2; i++ {
			var err error
			if video {
				err = w.WriteH264(tr, 10000+tm[i], 10000+tm[i], poolAU(i == 0, byte(2*k+i)))
			} else {
				err = w.WriteMPEG4Audio(tr, 10000+tm[i], [][]byte{{0x80 | byte(k), byte(i), 3, 4}})
			}
			if err != nil {
				panic(err)
			}
		}
		out[fmt.Sprintf("/s%d_seg%d.ts", st, k)] = append([]byte{}, buf.Bytes()...)
	}
	return out
}

func (s *poolScn) mediaPlaylist(st int) string {
	var b strings.Builder
	b.WriteString("#EXTM3U\n#EXT-X-VERSION:7\n#EXT-X-TARGETDURATION:4\n#EXT-X-MEDIA-SEQUENCE:0\n#EXT-X-PLAYLIST-TYPE:VOD\n")
	ext := "ts"
	if s.format == "fmp4" {
		ext = "mp4"
		fmt.Fprintf(&b, "#EXT-X-MAP:URI=\"s%d_init.mp4\"\n", st)
	}
	for k := 0; k < s.nseg; k++ {
		fmt.Fprintf(&b, "#EXTINF:1.00000,\ns%d_seg%d.%s\n", st, k, ext)
	}
	b.WriteString("#EXT-X-ENDLIST\n")
	return b.String()
}

// llPlaylist is the Low-Latency media playlist of stream st as served the count-th time (count = 1 for the first
// download): two complete segments (never fetched by the client's Low-Latency loop), the parts handed out so far and
// a preload hint for part count-1 — until nseg hints have been advertised; after that the stream has ended (no hint,
// ENDLIST). With _HLS_skip=YES (sent by the client when CAN-SKIP-UNTIL is advertised) the answer is a delta update.
func (s *poolScn) llPlaylist(st int, count int, skipReq bool) string {
	var b strings.Builder
	b.WriteString("#EXTM3U\n#EXT-X-VERSION:9\n#EXT-X-INDEPENDENT-SEGMENTS\n#EXT-X-TARGETDURATION:4\n")
	b.WriteString("#EXT-X-SERVER-CONTROL:CAN-BLOCK-RELOAD=YES,PART-HOLD-BACK=3.00000")
	if s.skip {
		b.WriteString(",CAN-SKIP-UNTIL=24.00000")
	}
	b.WriteString("\n#EXT-X-PART-INF:PART-TARGET=1.00000\n#EXT-X-MEDIA-SEQUENCE:10\n")
	fmt.Fprintf(&b, "#EXT-X-MAP:URI=\"s%d_init.mp4\"\n", st)
	if skipReq && s.skip {
		b.WriteString("#EXT-X-SKIP:SKIPPED-SEGMENTS=1\n")
	} else {
		fmt.Fprintf(&b, "#EXTINF:4.00000,\ns%d_old0.mp4\n", st)
	}
	fmt.Fprintf(&b, "#EXTINF:4.00000,\ns%d_old1.mp4\n", st)
	hint := count - 1
	for k := 0; k < hint && k < s.nseg; k++ {
		ind := ""
		if k == 0 {
			ind = ",INDEPENDENT=YES"
		}
		fmt.Fprintf(&b, "#EXT-X-PART:DURATION=1.00000,URI=\"s%d_part%d.mp4\"%s\n", st, k, ind)
	}
	if hint < s.nseg {
		fmt.Fprintf(&b, "#EXT-X-PRELOAD-HINT:TYPE=PART,URI=\"s%d_part%d.mp4\"\n", st, hint)
	} else {
		fmt.Fprintf(&b, "#EXTINF:%d.00000,\ns%d_last.mp4\n#EXT-X-ENDLIST\n", s.nseg, st)
	}
	return b.String()
}

// ---------------------------------------------------------------------------------------------
// scripted server

var errPoolTransport = errors.New("pool: injected transport error")

type poolServer struct {
	scn       *poolScn
	mu        sync.Mutex
	n         int
	files     map[string][]byte
	playlists map[string]string
	closeFn   func()        // calls Client.Close n times
	stalled   chan struct{} // closed when the stalling body has been handed to the client
	held      chan struct{} // closed when the request of `close=held` has arrived and is being held
	counts    map[string]int
	frozen    bool // Low-Latency: the origin produces nothing more (every later request is held)
	log       []string
}

// stallBody blocks every Read until the request context is cancelled — what net/http's transport does
// with the body of a response whose request context is cancelled.
type poolStallBody struct{ ctx context.Context }

func (b poolStallBody) Read([]byte) (int, error) {
	select {
	case <-b.ctx.Done():
		return 0, b.ctx.Err()
	case <-time.After(8 * time.Second):
		return 0, errors.New("pool: stall watchdog")
	}
}
func (b poolStallBody) Close() error { return nil }

func newPoolServer(s *poolScn) *poolServer {
	srv := &poolServer{scn: s, files: map[string][]byte{}, playlists: map[string]string{}, stalled: make(chan struct{}),
		held: make(chan struct{}), counts: map[string]int{}}
	nst := 1
	if s.layout == "rend" {
		nst = 2
	}
	for st := 0; st < nst; st++ {
		for p, b := range s.files(st) {
			srv.files[p] = b
		}
	}
	if s.layout == "single" {
		srv.playlists["/index.m3u8"] = s.mediaPlaylist(0)
	} else {
		srv.playlists["/s0.m3u8"] = s.mediaPlaylist(0)
		srv.playlists["/s1.m3u8"] = s.mediaPlaylist(1)
		srv.playlists["/index.m3u8"] = "#EXTM3U\n" +
			"#EXT-X-MEDIA:TYPE=AUDIO,GROUP-ID=\"aud\",NAME=\"a1\",DEFAULT=YES,AUTOSELECT=YES,LANGUAGE=\"en\",URI=\"s1.m3u8\"\n" +
			"#EXT-X-STREAM-INF:BANDWIDTH=1000000,CODECS=\"avc1.640015,mp4a.40.2\",AUDIO=\"aud\"\ns0.m3u8\n"
	}
	return srv
}

var poolFaultStatuses = []int{500, 204, 404, 304, 503, 203, 301, 205, 403, 202}

func (srv *poolServer) RoundTrip(req *http.Request) (*http.Response, error) {
	srv.mu.Lock()
	idx := srv.n
	srv.n++
	srv.log = append(srv.log, req.URL.RequestURI())
	srv.counts[req.URL.Path]++
	count := srv.counts[req.URL.Path]
	frozen := srv.frozen
	if s := srv.scn; s.format == "ll" && (((s.closeAt == "held" || s.closeAt == "req") && idx == s.cidx) ||
		((s.fault == "stall" || s.fault == "status" || s.fault == "transport") && idx == s.fidx)) {
		// with two independent Low-Latency streams the other one would otherwise run to its end (a few
		// microseconds of requests away; upstream that end was itself a fatal error, "preload hint disappeared")
		// while this request is held / stalls / its failure is still on its way to the owner of the pool: which
		// fatal error is "first" would be a coin toss
		srv.frozen = true
	}
	srv.mu.Unlock()
	s := srv.scn
	mk := func(code int, body io.ReadCloser, n int64) *http.Response {
		return &http.Response{StatusCode: code, Status: strconv.Itoa(code), Proto: "HTTP/1.1", ProtoMajor: 1, ProtoMinor: 1,
			Header: http.Header{}, Body: body, ContentLength: n, Request: req}
	}
	hold := func() (*http.Response, error) {
		select {
		case <-req.Context().Done():
			return nil, req.Context().Err()
		case <-time.After(8 * time.Second):
			return nil, errors.New("pool: hold watchdog")
		}
	}
	if (s.closeAt == "req" && idx == s.cidx) || (s.closeAt == "start" && idx == 0) {
		if s.closeAt == "req" {
			srv.closeFn()
		}
		return hold()
	}
	if s.format == "ll" && (s.closeAt == "ontracks" || s.closeAt == "pacing" || s.fault == "ontracks") && count >= 2 && strings.HasSuffix(req.URL.Path, ".m3u8") {
		// a Low-Latency origin that has produced one part so far: the reload blocks (otherwise the stream would
		// run to its end while the test is still waiting for OnTracks / for the pacing sleep)
		return hold()
	}
	if frozen {
		return hold()
	}
	if s.closeAt == "held" && idx == s.cidx {
		// what a Low-Latency origin does with a preload hint / a blocking reload whose data does not exist yet: it
		// keeps the request open. Close is called from the user's goroutine while the client is parked in it.
		close(srv.held)
		return hold()
	}
	if idx == s.fidx {
		switch s.fault {
		case "status":
			// "status != 200": not only 4xx/5xx. 204/205/304 and a 3xx without Location reach the caller as they are.
			code := poolFaultStatuses[idx%len(poolFaultStatuses)]
			return mk(code, io.NopCloser(bytes.NewReader(nil)), 0), nil
		case "transport":
			return nil, errPoolTransport
		case "stall":
			close(srv.stalled)
			return mk(200, poolStallBody{req.Context()}, -1), nil
		}
	}
	if s.format == "ll" && strings.HasSuffix(req.URL.Path, ".m3u8") && (s.layout == "single" || req.URL.Path != "/index.m3u8") {
		st := 0
		if req.URL.Path == "/s1.m3u8" {
			st = 1
		}
		pl := s.llPlaylist(st, count, req.URL.Query().Get("_HLS_skip") == "YES")
		return mk(200, io.NopCloser(strings.NewReader(pl)), int64(len(pl))), nil
	}
	if pl, ok := srv.playlists[req.URL.Path]; ok {
		return mk(200, io.NopCloser(strings.NewReader(pl)), int64(len(pl))), nil
	}
	if b, ok := srv.files[req.URL.Path]; ok {
		return mk(200, io.NopCloser(bytes.NewReader(b)), int64(len(b))), nil
	}
	return mk(404, io.NopCloser(bytes.NewReader(nil)), 0), nil
}
