package main

import (
	"bytes"
	"context"
	"errors"
	"fmt"
	"io"
	"net/http"
	"strconv"
	"strings"
	"sync"
	"time"

	"github.com/bluenviron/mediacommon/v2/pkg/codecs/h264"
	"github.com/bluenviron/mediacommon/v2/pkg/codecs/mpeg4audio"
	"github.com/bluenviron/mediacommon/v2/pkg/formats/fmp4"
	"github.com/bluenviron/mediacommon/v2/pkg/formats/fmp4/seekablebuffer"
	"github.com/bluenviron/mediacommon/v2/pkg/formats/mpegts"
)

// pool slice (property C12), part 1: scenario, synthesized streams, scripted in-process server.
//
//	cfg fmt=fmp4|ts layout=single|rend nseg=<n> fault=none|status|transport|stall|ontracks fidx=<i>
//	    close=none|start|req|ontracks|pacing|eos cidx=<i> n=<1..3> late=0|1
//	run
//
// Requests are numbered globally in arrival order (0 = primary playlist). A fault hits the request
// with number fidx; `close=req` calls Client.Close n times when request cidx arrives and then holds
// that request until its context is cancelled.

type poolScn struct {
	format  string
	layout  string
	nseg    int
	fault   string
	fidx    int
	closeAt string
	cidx    int
	nclose  int
	late    bool
}

func poolParse(line string) (*poolScn, bool) {
	ws := strings.Fields(line)
	if len(ws) == 0 || ws[0] != "cfg" {
		return nil, false
	}
	s := &poolScn{format: "fmp4", layout: "single", nseg: 2, fault: "none", closeAt: "none", nclose: 1}
	for _, w := range ws[1:] {
		kv := strings.SplitN(w, "=", 2)
		if len(kv) != 2 {
			return nil, false
		}
		num := func() (int, bool) {
			v, err := strconv.Atoi(kv[1])
			return v, err == nil && v >= 0 && v <= 1000
		}
		var ok = true
		switch kv[0] {
		case "fmt":
			s.format = kv[1]
			ok = kv[1] == "fmp4" || kv[1] == "ts"
		case "layout":
			s.layout = kv[1]
			ok = kv[1] == "single" || kv[1] == "rend"
		case "nseg":
			s.nseg, ok = num()
			ok = ok && s.nseg >= 1 && s.nseg <= 6
		case "fault":
			s.fault = kv[1]
			ok = kv[1] == "none" || kv[1] == "status" || kv[1] == "transport" || kv[1] == "stall" || kv[1] == "ontracks"
		case "fidx":
			s.fidx, ok = num()
		case "close":
			s.closeAt = kv[1]
			ok = kv[1] == "none" || kv[1] == "start" || kv[1] == "req" || kv[1] == "ontracks" || kv[1] == "pacing" || kv[1] == "eos"
		case "cidx":
			s.cidx, ok = num()
		case "n":
			s.nclose, ok = num()
			ok = ok && s.nclose >= 1 && s.nclose <= 3
		case "late":
			s.late = kv[1] == "1"
			ok = kv[1] == "0" || kv[1] == "1"
		default:
			ok = false
		}
		if !ok {
			return nil, false
		}
	}
	return s, true
}

func (s *poolScn) line() string {
	return fmt.Sprintf("cfg fmt=%s layout=%s nseg=%d fault=%s fidx=%d close=%s cidx=%d n=%d late=%d",
		s.format, s.layout, s.nseg, s.fault, s.fidx, s.closeAt, s.cidx, s.nclose, poolB2i(s.late))
}

// nreq is the number of requests the client makes on a fault-free run to the end of the stream
// (read off the property's anchors: one primary playlist; per stream its playlist unless it is the
// primary one, the init segment of fMP4, nseg segments and a playlist reload between two segments).
func (s *poolScn) nreq() int {
	per := 2*s.nseg - 1
	if s.format == "fmp4" {
		per++
	}
	if s.layout == "single" {
		return 1 + per
	}
	return 1 + 2*(1+per)
}

// ---------------------------------------------------------------------------------------------
// streams

var poolSPS = []byte{
	0x67, 0x42, 0xc0, 0x28, 0xd9, 0x00, 0x78, 0x02, 0x27, 0xe5, 0x84, 0x00, 0x00, 0x03, 0x00, 0x04,
	0x00, 0x00, 0x03, 0x00, 0xf0, 0x3c, 0x60, 0xc9, 0x20,
}
var poolPPS = []byte{0x08, 0x06, 0x07, 0x08}
var poolAAC = mpeg4audio.Config{Type: 2, SampleRate: 44100, ChannelCount: 2}

func poolMP4(m interface{ Marshal(io.WriteSeeker) error }) []byte {
	var buf seekablebuffer.Buffer
	if err := m.Marshal(&buf); err != nil {
		panic(err)
	}
	return append([]byte{}, buf.Bytes()...)
}

// sample times in 90 kHz ticks: segment k holds two samples at k*1800 and k*1800+900 (10 ms apart);
// with pacing the second sample of segment 0 is 3 s after the first one.
func (s *poolScn) sampleTimes(k int) [2]int64 {
	base := int64(k) * 1800
	if s.closeAt == "pacing" {
		if k == 0 {
			return [2]int64{0, 3 * 90000}
		}
		base += 3 * 90000
	}
	return [2]int64{base, base + 900}
}

func poolAU(first bool, id byte) [][]byte {
	typ := byte(1)
	if first {
		typ = 5
	}
	return [][]byte{{typ, 0x80 | id, 0x81, 0x82}}
}

// files returns path -> bytes for stream st (0 = video / leading, 1 = audio rendition).
func (s *poolScn) files(st int) map[string][]byte {
	out := map[string][]byte{}
	video := st == 0
	if s.format == "fmp4" {
		var codec fmp4.Codec = &fmp4.CodecH264{SPS: poolSPS, PPS: poolPPS}
		scale := int64(90000)
		if !video {
			codec = &fmp4.CodecMPEG4Audio{Config: poolAAC}
		}
		out[fmt.Sprintf("/s%d_init.mp4", st)] = poolMP4(&fmp4.Init{Tracks: []*fmp4.InitTrack{{ID: 1, TimeScale: uint32(scale), Codec: codec}}})
		for k := 0; k < s.nseg; k++ {
			tm := s.sampleTimes(k)
			next := s.sampleTimes(k + 1)[0]
			if s.closeAt == "pacing" && k == 0 {
				next = tm[1] + 900
			}
			var smp []*fmp4.PartSample
			for i := 0; i < 2; i++ {
				pl := []byte{0x80 | byte(k), byte(i)}
				if video {
					enc, err := h264.AVCC(poolAU(i == 0, byte(2*k+i))).Marshal()
					if err != nil {
						panic(err)
					}
					pl = enc
				}
				dur := tm[1] - tm[0]
				if i == 1 {
					dur = next - tm[1]
				}
				smp = append(smp, &fmp4.PartSample{Duration: uint32(dur), Payload: pl, IsNonSyncSample: video && i != 0})
			}
			parts := fmp4.Parts{{SequenceNumber: uint32(k + 1), Tracks: []*fmp4.PartTrack{{ID: 1, BaseTime: uint64(1000 + tm[0]), Samples: smp}}}}
			out[fmt.Sprintf("/s%d_seg%d.mp4", st, k)] = poolMP4(&parts)
		}
		return out
	}
	for k := 0; k < s.nseg; k++ {
		var buf bytes.Buffer
		var tr *mpegts.Track
		if video {
			tr = &mpegts.Track{PID: 256, Codec: &mpegts.CodecH264{}}
		} else {
			tr = &mpegts.Track{PID: 257, Codec: &mpegts.CodecMPEG4Audio{Config: poolAAC}}
		}
		w := &mpegts.Writer{W: &buf, Tracks: []*mpegts.Track{tr}}
		if err := w.Initialize(); err != nil {
			panic(err)
		}
		tm := s.sampleTimes(k)
		for i := 0; i < 2; i++ {
			var err error
			if video {
				err = w.WriteH264(tr, 10000+tm[i], 10000+tm[i], poolAU(i == 0, byte(2*k+i)))
			} else {
				err = w.WriteMPEG4Audio(tr, 10000+tm[i], [][]byte{{0x80 | byte(k), byte(i), 3, 4}})
			}
			if err != nil {
				panic(err)
			}
		}
		out[fmt.Sprintf("/s%d_seg%d.ts", st, k)] = append([]byte{}, buf.Bytes()...)
	}
	return out
}

func (s *poolScn) mediaPlaylist(st int) string {
	var b strings.Builder
	b.WriteString("#EXTM3U\n#EXT-X-VERSION:7\n#EXT-X-TARGETDURATION:4\n#EXT-X-MEDIA-SEQUENCE:0\n#EXT-X-PLAYLIST-TYPE:VOD\n")
	ext := "ts"
	if s.format == "fmp4" {
		ext = "mp4"
		fmt.Fprintf(&b, "#EXT-X-MAP:URI=\"s%d_init.mp4\"\n", st)
	}
	for k := 0; k < s.nseg; k++ {
		fmt.Fprintf(&b, "#EXTINF:1.00000,\ns%d_seg%d.%s\n", st, k, ext)
	}
	b.WriteString("#EXT-X-ENDLIST\n")
	return b.String()
}

// ---------------------------------------------------------------------------------------------
// scripted server

var errPoolTransport = errors.New("pool: injected transport error")

type poolServer struct {
	scn       *poolScn
	mu        sync.Mutex
	n         int
	files     map[string][]byte
	playlists map[string]string
	closeFn   func()        // calls Client.Close n times
	stalled   chan struct{} // closed when the stalling body has been handed to the client
	log       []string
}

// stallBody blocks every Read until the request context is cancelled — what net/http's transport does
// with the body of a response whose request context is cancelled.
type poolStallBody struct{ ctx context.Context }

func (b poolStallBody) Read([]byte) (int, error) {
	select {
	case <-b.ctx.Done():
		return 0, b.ctx.Err()
	case <-time.After(8 * time.Second):
		return 0, errors.New("pool: stall watchdog")
	}
}
func (b poolStallBody) Close() error { return nil }

func newPoolServer(s *poolScn) *poolServer {
	srv := &poolServer{scn: s, files: map[string][]byte{}, playlists: map[string]string{}, stalled: make(chan struct{})}
	nst := 1
	if s.layout == "rend" {
		nst = 2
	}
	for st := 0; st < nst; st++ {
		for p, b := range s.files(st) {
			srv.files[p] = b
		}
	}
	if s.layout == "single" {
		srv.playlists["/index.m3u8"] = s.mediaPlaylist(0)
	} else {
		srv.playlists["/s0.m3u8"] = s.mediaPlaylist(0)
		srv.playlists["/s1.m3u8"] = s.mediaPlaylist(1)
		srv.playlists["/index.m3u8"] = "#EXTM3U\n" +
			"#EXT-X-MEDIA:TYPE=AUDIO,GROUP-ID=\"aud\",NAME=\"a1\",DEFAULT=YES,AUTOSELECT=YES,LANGUAGE=\"en\",URI=\"s1.m3u8\"\n" +
			"#EXT-X-STREAM-INF:BANDWIDTH=1000000,CODECS=\"avc1.640015,mp4a.40.2\",AUDIO=\"aud\"\ns0.m3u8\n"
	}
	return srv
}

var poolFaultStatuses = []int{500, 204, 404, 304, 503, 203, 301, 205, 403, 202}

func (srv *poolServer) RoundTrip(req *http.Request) (*http.Response, error) {
	srv.mu.Lock()
	idx := srv.n
	srv.n++
	srv.log = append(srv.log, req.URL.Path)
	srv.mu.Unlock()
	s := srv.scn
	mk := func(code int, body io.ReadCloser, n int64) *http.Response {
		return &http.Response{StatusCode: code, Status: strconv.Itoa(code), Proto: "HTTP/1.1", ProtoMajor: 1, ProtoMinor: 1,
			Header: http.Header{}, Body: body, ContentLength: n, Request: req}
	}
	hold := func() (*http.Response, error) {
		select {
		case <-req.Context().Done():
			return nil, req.Context().Err()
		case <-time.After(8 * time.Second):
			return nil, errors.New("pool: hold watchdog")
		}
	}
	if (s.closeAt == "req" && idx == s.cidx) || (s.closeAt == "start" && idx == 0) {
		if s.closeAt == "req" {
			srv.closeFn()
		}
		return hold()
	}
	if idx == s.fidx {
		switch s.fault {
		case "status":
			// "status != 200": not only 4xx/5xx. 204/205/304 and a 3xx without Location reach the caller as they are.
			code := poolFaultStatuses[idx%len(poolFaultStatuses)]
			return mk(code, io.NopCloser(bytes.NewReader(nil)), 0), nil
		case "transport":
			return nil, errPoolTransport
		case "stall":
			close(srv.stalled)
			return mk(200, poolStallBody{req.Context()}, -1), nil
		}
	}
	if pl, ok := srv.playlists[req.URL.Path]; ok {
		return mk(200, io.NopCloser(strings.NewReader(pl)), int64(len(pl))), nil
	}
	if b, ok := srv.files[req.URL.Path]; ok {
		return mk(200, io.NopCloser(bytes.NewReader(b)), int64(len(b))), nil
	}
	return mk(404, io.NopCloser(bytes.NewReader(nil)), 0), nil
}
