package main

import (
	"bytes"
	"context"
	"fmt"
	"math/rand"
	"os"
	"path/filepath"
	"regexp"
	"runtime"
	"strconv"
	"strings"
	"sync/atomic"
	"time"

	gohlslib "github.com/bluenviron/gohlslib/v2"
)

// queue slice (C20): drives the REAL clientSegmentQueue (through the Verif exporters of
// verif_queue.go) with one producer goroutine (the loop of runTraditional / runLowLatency),
// one consumer goroutine (the loop of the stream processors) and a canceller, under a
// schedule that the op lines dictate:
//
//	init mode=trad|ll n=<k>     parameters of the case (default: trad, 1)
//	P | P last                  let the producer run to its next yield point (`last`: at the
//	                            branch after a push take fillSegmentQueue's ENDLIST-last branch)
//	C                           same for the consumer
//	X                           cancel (Close)
//
// Goroutines are parked at the verifYield points of client_segment_queue.go and at the
// harness-level points download / afterpush / process / eoswait, and are released one at a
// time. "Blocked" is observed, not predicted: a released goroutine either arrives at its
// next yield point, returns, or the runtime reports it parked in a select / channel
// receive (goroutine dump). A mutex Lock is only entered when a TryLock probe on the real
// mutex succeeds. Cancellation is delivered to a goroutine when it is found parked (Go's
// select may take either ready arm; the schedule fixes "channel arm first").

type queueSlice struct{}

func init() { register(queueSlice{}) }

func (queueSlice) Name() string { return "queue" }

func rep(op string, n int) []string {
	out := make([]string, n)
	for i := range out {
		out[i] = op
	}
	return out
}

func cat(parts ...[]string) []string {
	var out []string
	for _, p := range parts {
		out = append(out, p...)
	}
	return out
}

func (queueSlice) Corpus() [][]string {
	hdr := []string{"init mode=trad n=1"}
	return [][]string{
		// the code's own threshold: producer alone runs until it is throttled
		cat([]string{"init mode=trad n=code"}, rep("P", 24), rep("C", 3), rep("P", 8)),
		// F12, lost wake-up: the producer sits between Unlock and the select of
		// waitUntilSizeIsBelow(1) with two queued segments, one pull completes, then the
		// producer enters the select: with the upstream code it waits on the channel created by
		// that very pull although len = 1.
		cat(hdr, rep("P", 10), rep("C", 2), rep("P", 3), rep("C", 4), rep("P", 4)),
		// F12, deadlock: two pulls complete inside the window and the consumer parks on the
		// empty queue; with the upstream code both goroutines are parked until Close.
		cat(hdr, rep("P", 10), rep("C", 8), []string{"P", "P", "C", "X", "P", "C"}),
		// consumer first (parks on the empty queue), push wakes it
		cat(hdr, rep("C", 2), rep("P", 3), rep("C", 3), rep("P", 2), rep("C", 4)),
		// consumer parked while the producer sits inside push's critical section (pending close)
		cat(hdr, rep("C", 2), rep("P", 2), []string{"C", "C", "P", "C", "C", "C"}),
		// end of stream: last segment + nil marker, consumer drains, both wait for Close
		cat(hdr, rep("P", 3), []string{"P last"}, rep("P", 4), rep("C", 12), []string{"X", "P", "C", "P", "C"}),
		// low latency: no back-pressure
		cat([]string{"init mode=ll n=1"}, rep("P", 16), rep("C", 9), []string{"X"}, rep("P", 3), rep("C", 30)),
		// fix-F28: end of stream in the Low-Latency loop: three parts, nil marker, consumer drains, both wait for Close
		cat([]string{"init mode=ll n=1"}, rep("P", 6), []string{"P last"}, rep("P", 4), rep("C", 14), []string{"X", "P", "C", "P", "C"}),
		// cancel while the consumer is parked and the producer throttled
		cat(hdr, rep("P", 11), []string{"X", "P", "C", "C", "C", "C", "C", "C", "C", "C", "C"}),
		// threshold 0 and 2
		cat([]string{"init mode=trad n=0"}, rep("P", 6), rep("C", 3), rep("P", 6)),
		cat([]string{"init mode=trad n=2"}, rep("P", 16), rep("C", 3), rep("P", 6)),
	}
}

func (queueSlice) Gen(r *rand.Rand, i int, tier string) ([]string, []string) {
	mode, n := "trad", 1
	tags := []string{}
	if r.Intn(7) == 0 {
		mode = "ll"
	}
	switch r.Intn(8) {
	case 0:
		n = 0
	case 1:
		n = 2
	case 2:
		n = 3
	}
	ns := strconv.Itoa(n)
	if r.Intn(2) == 0 {
		// the constant the code under test really uses (1 upstream); prefix lengths below assume 1
		n, ns = 1, "code"
	}
	tags = append(tags, "mode="+mode, "n="+ns)
	ops := []string{fmt.Sprintf("init mode=%s n=%s", mode, ns)}
	maxLen := 20 + r.Intn(70)
	if tier == "thorough" && r.Intn(8) == 0 {
		maxLen = 150 + r.Intn(250)
	}
	pOp := func() string {
		if r.Intn(14) == 0 {
			return "P last"
		}
		return "P"
	}

	kind := i % 4
	switch kind {
	case 0:
		// systematic: a prefix that reaches an interesting configuration, then ALL 2^k
		// interleavings of the next k thread choices (index taken from the case number).
		tags = append(tags, "enum")
		const k = 9
		var prefix []string
		switch r.Intn(5) {
		case 0: // producer throttled in the window between Unlock and select (needs 5(n+1)+… steps)
			prefix = rep("P", 5*(n+2))
			tags = append(tags, "enum:throttled")
		case 1: // consumer parked on the empty queue
			prefix = rep("C", 2)
			tags = append(tags, "enum:consumer-parked")
		case 2: // one segment queued, both at function entry
			prefix = rep("P", 4)
			tags = append(tags, "enum:one-queued")
		case 3: // throttled producer + consumer inside pull's critical section
			prefix = cat(rep("P", 5*(n+2)), []string{"C"})
			tags = append(tags, "enum:throttled+pull-cs")
		default:
			tags = append(tags, "enum:start")
		}
		ops = append(ops, prefix...)
		idx := (i / 4) % (1 << k)
		for b := 0; b < k; b++ {
			if idx&(1<<b) != 0 {
				ops = append(ops, "C")
			} else {
				ops = append(ops, "P")
			}
		}
		// then a random tail
		for len(ops) < maxLen/2 {
			if r.Intn(2) == 0 {
				ops = append(ops, pOp())
			} else {
				ops = append(ops, "C")
			}
		}
	case 1:
		// bursts: runs of one thread
		tags = append(tags, "bursts")
		for len(ops) < maxLen {
			run := 1 + r.Intn(12)
			t := r.Intn(2)
			for j := 0; j < run; j++ {
				if t == 0 {
					ops = append(ops, pOp())
				} else {
					ops = append(ops, "C")
				}
			}
		}
	default:
		// biased coin
		bias := []int{50, 80, 20, 65, 35}[r.Intn(5)]
		tags = append(tags, fmt.Sprintf("coin:P%d", bias))
		for len(ops) < maxLen {
			if r.Intn(100) < bias {
				ops = append(ops, pOp())
			} else {
				ops = append(ops, "C")
			}
		}
	}

	// cancellation at a random point, then both threads keep being scheduled so that they return
	if r.Intn(5) < 2 {
		pos := 1 + r.Intn(len(ops))
		tail := append([]string{}, ops[pos:]...)
		ops = append(append(ops[:pos:pos], "X"), tail...)
		for j := 0; j < 6; j++ {
			ops = append(ops, []string{"P", "C"}[r.Intn(2)])
		}
		tags = append(tags, "cancel")
	}
	hasLast := false
	for _, o := range ops {
		if o == "P last" {
			hasLast = true
		}
	}
	if hasLast {
		tags = append(tags, "has-last")
	}
	return ops, tags
}

// ---------------------------------------------------------------- runner

type qThread struct {
	name         string
	gid          uint64
	pos          string
	arrive       chan string
	release      chan string
	done         chan struct{}
	isDone       bool
	inFlight     bool // released and not yet arrived: the goroutine is inside real code
	ctx          context.Context
	cancel       context.CancelFunc
	ctxCancelled bool
}

type qRunner struct {
	q      *gohlslib.VerifSegmentQueue
	mode   string
	n      int
	nCode  bool // n is the constant runTraditional really passes (read from the source under test)
	P, C   *qThread
	killed atomic.Bool

	started   bool
	cancelled bool

	pushGen, pullGen   int
	lastPush, lastPull <-chan struct{}

	pushCalls []int // ids handed to push, in call order (-1 = nil marker)
	pushDone  int   // pushes that returned
	pulled    []int // values pull returned, in order

	opNo  int
	fails []string
}

func (queueSlice) NewRunner() Runner {
	// The harness serialises the goroutines anyway; one P makes every hand-over a plain
	// scheduler switch (fast, and the goroutine dump is only needed when a goroutine parks).
	runtime.GOMAXPROCS(1)
	return &qRunner{mode: "trad", n: 1}
}

var qPosNames = map[string]string{
	"queue.push.lock":             "push.lock",
	"queue.push.signal":           "push.signal",
	"queue.waitbelow.lock":        "wait.lock",
	"queue.waitbelow.afterunlock": "wait.select",
	"queue.waitbelow.relock":      "wait.relock",
	"queue.pull.lock":             "pull.lock",
	"queue.pull.afterunlock":      "pull.select",
	"queue.pull.relock":           "pull.relock",
	"queue.pull.signal":           "pull.signal",
}

var qLockPos = map[string]bool{"push.lock": true, "wait.lock": true, "wait.relock": true, "pull.lock": true, "pull.relock": true}

func curGID() uint64 {
	var buf [64]byte
	n := runtime.Stack(buf[:], false)
	// "goroutine 123 [running]:"
	f := strings.Fields(string(buf[:n]))
	id, _ := strconv.ParseUint(f[1], 10, 64)
	return id
}

// goroutineState returns the wait reason the runtime reports for goroutine gid ("" = not found).
var stackBuf = make([]byte, 1<<16)

func goroutineState(gid uint64) string {
	var buf []byte
	for {
		n := runtime.Stack(stackBuf, true)
		if n < len(stackBuf) {
			buf = stackBuf[:n]
			break
		}
		stackBuf = make([]byte, 2*len(stackBuf))
	}
	key := []byte(fmt.Sprintf("goroutine %d [", gid))
	i := bytes.Index(buf, key)
	if i < 0 {
		return ""
	}
	rest := buf[i+len(key):]
	j := bytes.IndexAny(rest, ",]")
	if j < 0 {
		return ""
	}
	return string(rest[:j])
}

func isParkedState(st string) bool {
	switch st {
	// NOT "semacquire": a goroutine that allocates while the controller holds the world
	// semaphore for runtime.Stack shows that reason transiently. sync.Mutex.Lock has had its
	// own wait reason since Go 1.20.
	case "select", "chan receive", "sync.Mutex.Lock", "select (no cases)", "chan receive (nil chan)":
		return true
	}
	return false
}

func (t *qThread) yield(r *qRunner, name string) string {
	if r.killed.Load() {
		return ""
	}
	t.arrive <- name
	c := <-t.release
	return c
}

func (r *qRunner) hook(point string) {
	switch {
	case strings.HasPrefix(point, "queue.push."), strings.HasPrefix(point, "queue.waitbelow."):
		r.P.yield(r, point)
	case strings.HasPrefix(point, "queue.pull."):
		r.C.yield(r, point)
	}
}

func (r *qRunner) newThread(name string) *qThread {
	ctx, cancel := context.WithCancel(context.Background())
	return &qThread{name: name, arrive: make(chan string, 8), release: make(chan string), done: make(chan struct{}), ctx: ctx, cancel: cancel}
}

func (r *qRunner) fail(format string, a ...any) {
	r.fails = append(r.fails, fmt.Sprintf("op#%d: ", r.opNo)+fmt.Sprintf(format, a...))
}

func (r *qRunner) producer(t *qThread) {
	defer close(t.done)
	defer func() {
		if e := recover(); e != nil {
			r.fail("producer panic: %v", e)
		}
	}()
	t.gid = curGID()
	id := 0
	for {
		// fillSegmentQueue: downloadPlaylist / downloadSegment(ctx, …) fail once the context is cancelled
		t.yield(r, "download")
		if r.killed.Load() || r.cancelled {
			return
		}
		r.pushCalls = append(r.pushCalls, id)
		r.q.VerifQueuePush(id)
		r.pushDone++
		id++
		choice := t.yield(r, "afterpush")
		if r.killed.Load() {
			return
		}
		if choice == "last" {
			// fillSegmentQueue: `if pl.Endlist && pl.Segments[len-1] == seg { push(nil); <-ctx.Done(); return }`
			// runLowLatency (fix-F28): `if pl.PreloadHint == nil { if pl.Endlist { push(nil); <-ctx.Done(); return } … }`
			r.pushCalls = append(r.pushCalls, -1)
			r.q.VerifQueuePush(-1)
			r.pushDone++
			t.yield(r, "eoswait")
			<-t.ctx.Done()
			return
		}
		if r.mode == "ll" {
			continue // runLowLatency: no back-pressure
		}
		// runTraditional
		if !r.q.VerifQueueWaitUntilSizeIsBelow(t.ctx, r.n) {
			return
		}
	}
}

func (r *qRunner) consumer(t *qThread) {
	defer close(t.done)
	defer func() {
		if e := recover(); e != nil {
			r.fail("consumer panic: %v", e)
		}
	}()
	t.gid = curGID()
	for {
		id, ok := r.q.VerifQueuePull(t.ctx)
		if !ok {
			return
		}
		r.pulled = append(r.pulled, id)
		t.yield(r, "process")
		if r.killed.Load() {
			return
		}
		if id == -1 {
			// processSegment(nil): setEnded(); <-ctx.Done()
			t.yield(r, "eoswait")
			<-t.ctx.Done()
			return
		}
	}
}

var debugQueue = os.Getenv("VERIF_QUEUE_DEBUG") != ""

var codeThresholdRe = regexp.MustCompile(`\.waitUntilSizeIsBelow\(ctx, (\d+)\)`)

// codeThreshold reads the literal runTraditional passes to waitUntilSizeIsBelow from the
// source tree the harness was built against (the loop of runTraditional itself needs a
// server; the harness mirrors it and takes only this constant from the source).
func codeThreshold() (int, bool) {
	repo := os.Getenv("VERIF_REPO")
	if repo == "" {
		repo = "/repo"
	}
	b, err := os.ReadFile(filepath.Join(repo, "client_stream_downloader.go"))
	if err != nil {
		return 0, false
	}
	ms := codeThresholdRe.FindAllSubmatch(b, -1)
	if len(ms) != 1 {
		return 0, false
	}
	v, err := strconv.Atoi(string(ms[0][1]))
	return v, err == nil
}

type qEvent int

const (
	evArrived qEvent = iota
	evFinished
	evBlocked
	evStuck
)

func (r *qRunner) posName(n string) string {
	if m, ok := qPosNames[n]; ok {
		return m
	}
	return n
}

// await waits until t arrives at a yield point, returns, or is parked inside real code.
func (r *qRunner) await(t *qThread) qEvent {
	deadline := time.Now().Add(10 * time.Second)
	poll := func() (qEvent, bool) {
		select {
		case n := <-t.arrive:
			t.pos = r.posName(n)
			t.inFlight = false
			return evArrived, true
		default:
		}
		select {
		case <-t.done:
			// an arrival may still be buffered if the goroutine was killed; not in normal operation
			t.isDone, t.inFlight, t.pos = true, false, "done"
			return evFinished, true
		default:
		}
		return 0, false
	}
	for spins := 0; ; spins++ {
		if ev, ok := poll(); ok {
			return ev
		}
		if spins < 2 {
			// let the released goroutine run first: most ops end at a yield point
			runtime.Gosched()
			continue
		}
		if st := goroutineState(t.gid); t.gid != 0 && isParkedState(st) {

			// the goroutine may have arrived between the two looks: a goroutine waiting in
			// yield() has already put its arrival into the buffer
			if ev, ok := poll(); ok {
				return ev
			}
			if debugQueue {
				fmt.Fprintf(os.Stderr, "DEBUG %s gid=%d pos=%s state=%q now=%q\n", t.name, t.gid, t.pos, st, goroutineState(t.gid))
			}
			return evBlocked
		}
		if time.Now().After(deadline) {
			return evStuck
		}
		if spins < 50 {
			runtime.Gosched()
		} else {
			time.Sleep(20 * time.Microsecond)
		}
	}
}

// parkedNow: is t currently parked inside real code (not at a yield point)?
func (r *qRunner) parkedNow(t *qThread) bool {
	if t.isDone || !t.inFlight {
		return false
	}
	deadline := time.Now().Add(10 * time.Second)
	for {
		if len(t.arrive) > 0 {
			return false
		}
		select {
		case <-t.done:
			return false
		default:
		}
		st := goroutineState(t.gid)
		if isParkedState(st) {
			return len(t.arrive) == 0
		}
		if time.Now().After(deadline) {
			return false
		}
		runtime.Gosched()
	}
}

func (r *qRunner) start() {
	if r.started {
		return
	}
	r.started = true
	r.q = gohlslib.VerifNewSegmentQueue()
	_, _, r.lastPush, r.lastPull = r.q.VerifQueueSnapshot()
	r.P = r.newThread("P")
	r.C = r.newThread("C")
	gohlslib.VerifSetYieldHook(r.hook)
	go r.producer(r.P)
	r.P.inFlight = true
	if ev := r.await(r.P); ev != evArrived {
		r.fail("producer did not reach its first yield point")
	}
	go r.consumer(r.C)
	r.C.inFlight = true
	if ev := r.await(r.C); ev != evArrived {
		r.fail("consumer did not reach its first yield point")
	}
}

// stepThread lets t run to its next yield point. Returns true when the op ended blocked.
func (r *qRunner) stepThread(t *qThread, choice string) bool {
	if t.isDone {
		return true
	}
	if !t.inFlight {
		if qLockPos[t.pos] && r.q.VerifQueueMutexHeld() {
			return true // q.mutex.Lock() would block: the goroutine stays at the yield point
		}
		t.release <- choice
		t.inFlight = true
	}
	ev := r.await(t)
	if ev == evBlocked && r.cancelled && !t.ctxCancelled {
		// deliver the cancellation to the parked goroutine
		t.cancel()
		t.ctxCancelled = true
		ev = r.await(t)
		if ev != evFinished {
			r.fail("C20 cancel: %s parked at %s did not return after cancellation", t.name, t.pos)
		}
	}
	switch ev {
	case evArrived, evFinished:
		return false
	case evStuck:
		r.fail("harness: %s neither arrived, returned nor parked (state %q)", t.name, goroutineState(t.gid))
		return true
	default:
		return true
	}
}

func fmtID(id int) string {
	if id < 0 {
		return "eos"
	}
	return strconv.Itoa(id)
}

func (r *qRunner) observe(op string, blocked bool) string {
	length, nils, dpush, dpull := r.q.VerifQueueSnapshot()
	if dpush != r.lastPush {
		r.pushGen++
		r.lastPush = dpush
	}
	if dpull != r.lastPull {
		r.pullGen++
		r.lastPull = dpull
	}
	res := "ok"
	if blocked {
		res = "blocked"
	}
	last := "-"
	if len(r.pulled) > 0 {
		last = fmtID(r.pulled[len(r.pulled)-1])
	}
	mu := 0
	held := r.q.VerifQueueMutexHeld()
	if held {
		mu = 1
	}
	x := 0
	if r.cancelled {
		x = 1
	}
	r.oracle(length, nils, held)
	return fmt.Sprintf("%s %s P=%s C=%s q=%d segs=%d gens=%d,%d pulls=%d:%s mu=%d x=%d",
		strings.ReplaceAll(op, " ", "."), res, r.P.pos, r.C.pos, length, length-nils, r.pushGen, r.pullGen, len(r.pulled), last, mu, x)
}

// oracle evaluates the statement of C20 directly on what the real code shows
// (written from the property text; it knows nothing about the Lean model).
func (r *qRunner) oracle(length, nils int, held bool) {
	// FIFO, exactly once: what pull returned is a prefix of what push was given, in order
	for i, v := range r.pulled {
		if i >= len(r.pushCalls) || r.pushCalls[i] != v {
			r.fail("C20 fifo/exactly-once: pull #%d returned %s, pushes so far %v, pulls %v", i, fmtID(v), r.pushCalls, r.pulled)
			break
		}
	}
	// nothing lost: pulled + queued = appended (a push parked after its append counts, a pull parked after its pop counts)
	appended := r.pushDone
	if r.P.pos == "push.signal" && !r.P.inFlight && !r.P.isDone {
		appended++
	}
	popped := len(r.pulled)
	if r.C.pos == "pull.signal" && !r.C.inFlight && !r.C.isDone {
		popped++
	}
	if popped+length != appended {
		r.fail("C20 exactly-once: %d pulled + %d queued != %d appended", popped, length, appended)
	}
	// bounded look-ahead (non-LL): never more than n+1 downloaded segments waiting (n = 1: two)
	if r.mode == "trad" {
		if length-nils > r.n+1 {
			r.fail("C20 look-ahead: %d segments queued, bound %d", length-nils, r.n+1)
		}
		if length > r.n+2 {
			r.fail("C20 look-ahead: queue length %d, bound %d", length, r.n+2)
		}
		// with the threshold the code really uses, the property text gives the absolute number
		if r.nCode && length-nils > 2 {
			r.fail("C20 look-ahead: %d downloaded segments waiting with the real threshold (%d); the property allows two", length-nils, r.n)
		}
	}
	if r.cancelled || held {
		return
	}
	// no lost wake-up: nobody stays parked although its wake-up condition holds and no
	// critical section is in progress that could still signal it
	pPark := r.P.pos == "wait.select" && r.parkedNow(r.P)
	cPark := r.C.pos == "pull.select" && r.parkedNow(r.C)
	if cPark && length > 0 {
		r.fail("C20 lost wake-up: consumer parked in pull with %d queued entries", length)
	}
	if pPark && length <= r.n {
		r.fail("C20 lost wake-up: producer parked in waitUntilSizeIsBelow(%d) with queue length %d", r.n, length)
	}
	if pPark && cPark {
		r.fail("C20 deadlock: producer and consumer both parked (queue length %d)", length)
	}
}

func (r *qRunner) Step(line string) []string {
	ws := strings.Fields(line)
	if len(ws) == 0 {
		return nil
	}
	r.opNo++
	if ws[0] == "init" {
		if r.started {
			return []string{"bad-op"}
		}
		for _, w := range ws[1:] {
			kv := strings.SplitN(w, "=", 2)
			if len(kv) != 2 {
				return []string{"bad-op"}
			}
			switch kv[0] {
			case "mode":
				if kv[1] != "trad" && kv[1] != "ll" {
					return []string{"bad-op"}
				}
				r.mode = kv[1]
			case "n":
				if kv[1] == "code" {
					v, ok := codeThreshold()
					if !ok {
						return []string{"bad-op: cannot read the waitUntilSizeIsBelow constant of runTraditional"}
					}
					r.n, r.nCode = v, true
					continue
				}
				v, err := strconv.Atoi(kv[1])
				if err != nil || v < 0 || v > 1000 {
					return []string{"bad-op"}
				}
				r.n = v
			default:
				return []string{"bad-op"}
			}
		}
		if r.nCode {
			return []string{fmt.Sprintf("init mode=%s n=%d code", r.mode, r.n)}
		}
		return []string{fmt.Sprintf("init mode=%s n=%d", r.mode, r.n)}
	}
	r.start()
	switch {
	case len(ws) == 1 && ws[0] == "P":
		return []string{r.observe(line, r.stepThread(r.P, ""))}
	case len(ws) == 2 && ws[0] == "P" && ws[1] == "last":
		choice := ""
		if r.P.pos == "afterpush" && !r.P.inFlight {
			choice = "last"
		}
		return []string{r.observe("P last", r.stepThread(r.P, choice))}
	case len(ws) == 1 && ws[0] == "C":
		return []string{r.observe(line, r.stepThread(r.C, ""))}
	case len(ws) == 1 && ws[0] == "X":
		r.cancelled = true
		return []string{r.observe(line, false)}
	}
	return []string{"bad-op"}
}

func (r *qRunner) Oracle() []string { return r.fails }

func (r *qRunner) Close() {
	if !r.started {
		return
	}
	r.killed.Store(true)
	for _, t := range []*qThread{r.P, r.C} {
		t.cancel()
	}
	deadline := time.After(10 * time.Second)
	pDone, cDone := false, false
	for !pDone || !cDone {
		// a nil channel disables its case: only goroutines still alive are released
		var pRel, cRel chan string
		if !pDone {
			pRel = r.P.release
		}
		if !cDone {
			cRel = r.C.release
		}
		select {
		case <-r.P.done:
			pDone = true
			r.P.done = nil
		case <-r.C.done:
			cDone = true
			r.C.done = nil
		case pRel <- "":
		case cRel <- "":
		case <-deadline:
			panic("queue harness: goroutines did not terminate (P at " + r.P.pos + ", C at " + r.C.pos + ")")
		}
	}
	gohlslib.VerifSetYieldHook(nil)
}
