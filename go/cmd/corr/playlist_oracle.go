package main

// Direct oracles of C14 / C15 for media playlists, written from the property
// texts (properties.jsonl) and the documented field requirements of
// pkg/playlist — independent of the Lean model.

import (
	"bytes"
	"fmt"
	"strings"
	"time"

	"github.com/bluenviron/gohlslib/v2/pkg/playlist"
)

const (
	plMaxDur  = int64(1_000_000_000_000_000 - 5000) // just below 10^15 ns (≈ 11.5 days): above this float64 seconds no longer resolve 1 ns
	plHalfRes = int64(5000)                  // half of the 10 us text resolution
)

func plQuotedOK(s string) bool { return !strings.ContainsAny(s, "\"\r\n") }

func plIsHexSeq(s string) bool {
	if len(s) < 3 || s[0] != '0' || (s[1] != 'x' && s[1] != 'X') {
		return false
	}
	for _, c := range []byte(s[2:]) {
		if !(c >= '0' && c <= '9' || c >= 'a' && c <= 'f' || c >= 'A' && c <= 'F') {
			return false
		}
	}
	return true
}

func plInt31(v int) bool { return v >= 0 && int64(v) < 1<<31 }

func plAbs(v int64) int64 {
	if v < 0 {
		return -v
	}
	return v
}

func plValidPart(p *playlist.MediaPart) string {
	switch {
	case p == nil:
		return "nil part"
	case int64(p.Duration) <= plHalfRes || int64(p.Duration) >= plMaxDur:
		return "part duration"
	case p.URI == "" || !plQuotedOK(p.URI):
		return "part uri"
	case p.ByteRangeStart != nil && p.ByteRangeLength == nil:
		return "part byterange start without length"
	}
	return ""
}

func plValidKey(k *playlist.MediaKey) string {
	switch k.Method {
	case playlist.MediaKeyMethodNone:
		if k.URI != "" || k.IV != "" || k.KeyFormat != "" || k.KeyFormatVersions != "" {
			return "key NONE with attributes"
		}
	case playlist.MediaKeyMethodAES128, playlist.MediaKeyMethodSampleAES:
		if k.URI == "" || !plQuotedOK(k.URI) {
			return "key uri"
		}
		if k.IV != "" && !plIsHexSeq(k.IV) {
			return "key iv"
		}
		if !plQuotedOK(k.KeyFormat) || !plQuotedOK(k.KeyFormatVersions) {
			return "key format"
		}
	default:
		return "key method"
	}
	return ""
}

func plValidTime(t time.Time) string {
	_, off := t.Zone()
	if off%60 != 0 || off <= -24*3600 || off >= 24*3600 {
		return "zone offset"
	}
	if y := t.Year(); y < 0 || y > 9999 {
		return "year"
	}
	return ""
}

// plValid returns "" when m satisfies the documented field requirements
// (the domain of C14), else the first violated clause.
func plValid(m *playlist.Media) string {
	switch {
	case m.Version < 0 || m.Version > 10:
		return "version"
	case m.TargetDuration == 0 || !plInt31(m.TargetDuration):
		return "target duration"
	case !plInt31(m.MediaSequence):
		return "media sequence"
	case m.DiscontinuitySequence != nil && !plInt31(*m.DiscontinuitySequence):
		return "discontinuity sequence"
	case m.Skip != nil && !plInt31(m.Skip.SkippedSegments):
		return "skip"
	case m.Start != nil && (plAbs(int64(m.Start.TimeOffset)) <= plHalfRes || plAbs(int64(m.Start.TimeOffset)) >= plMaxDur):
		return "start offset"
	case m.PartInf != nil && (int64(m.PartInf.PartTarget) <= plHalfRes || int64(m.PartInf.PartTarget) >= plMaxDur):
		return "part target"
	case m.PlaylistType != nil && *m.PlaylistType != playlist.MediaPlaylistTypeEvent && *m.PlaylistType != playlist.MediaPlaylistTypeVOD:
		return "playlist type"
	case len(m.Segments) == 0:
		return "no segments"
	}
	if sc := m.ServerControl; sc != nil {
		for _, d := range []*time.Duration{sc.PartHoldBack, sc.CanSkipUntil} {
			if d != nil && (int64(*d) < 0 || int64(*d) >= plMaxDur) {
				return "server control duration"
			}
		}
	}
	if mp := m.Map; mp != nil {
		if mp.URI == "" || !plQuotedOK(mp.URI) {
			return "map uri"
		}
		if mp.ByteRangeStart != nil && mp.ByteRangeLength == nil {
			return "map byterange start without length"
		}
	}
	keyed := false
	for _, s := range m.Segments {
		switch {
		case s == nil:
			return "nil segment"
		case int64(s.Duration) <= plHalfRes || int64(s.Duration) >= plMaxDur:
			return "segment duration"
		case s.URI == "" || s.URI[0] == '#' || strings.ContainsAny(s.URI, "\r\n"):
			return "segment uri"
		case s.Title != strings.TrimSpace(s.Title) || strings.ContainsAny(s.Title, "\r\n"):
			return "segment title"
		case s.Bitrate != nil && !plInt31(*s.Bitrate):
			return "bitrate"
		case s.ByteRangeStart != nil && s.ByteRangeLength == nil:
			return "segment byterange start without length"
		}
		if s.DateTime != nil {
			if r := plValidTime(*s.DateTime); r != "" {
				return r
			}
		}
		if s.Key != nil {
			if r := plValidKey(s.Key); r != "" {
				return r
			}
			keyed = true
		} else if keyed {
			return "key persistence (nil key after a keyed segment)"
		}
		for _, p := range s.Parts {
			if r := plValidPart(p); r != "" {
				return r
			}
		}
	}
	for _, p := range m.Parts {
		if r := plValidPart(p); r != "" {
			return r
		}
	}
	if ph := m.PreloadHint; ph != nil {
		if ph.URI == "" || !plQuotedOK(ph.URI) {
			return "preload hint uri"
		}
	}
	return ""
}

// ---- field-by-field comparison at the resolution of the text form ----

func plDurNear(a, b time.Duration) bool { return plAbs(int64(a)-int64(b)) <= plHalfRes+1 }

func plOptDurNear(a, b *time.Duration) bool {
	if (a == nil) != (b == nil) {
		return false
	}
	return a == nil || plDurNear(*a, *b)
}

func plOptU64Eq(a, b *uint64) bool {
	if (a == nil) != (b == nil) {
		return false
	}
	return a == nil || *a == *b
}

func plOptIntEq(a, b *int) bool {
	if (a == nil) != (b == nil) {
		return false
	}
	return a == nil || *a == *b
}

func plFloorMilli(t time.Time) int64 {
	// UnixMilli truncates toward zero for negative instants in some Go versions; do it by hand.
	ns := t.Nanosecond()
	return t.Unix()*1000 + int64(ns/1_000_000)
}

func plPartDiff(where string, a, b *playlist.MediaPart, out *[]string) {
	if !plDurNear(a.Duration, b.Duration) {
		*out = append(*out, where+".Duration")
	}
	if a.URI != b.URI {
		*out = append(*out, where+".URI")
	}
	if a.Independent != b.Independent {
		*out = append(*out, where+".Independent")
	}
	if !plOptU64Eq(a.ByteRangeLength, b.ByteRangeLength) {
		*out = append(*out, where+".ByteRangeLength")
	}
	if !plOptU64Eq(a.ByteRangeStart, b.ByteRangeStart) {
		*out = append(*out, where+".ByteRangeStart")
	}
	if a.Gap != b.Gap {
		*out = append(*out, where+".Gap")
	}
}

// plDiff lists the fields in which q (decoded) does not reproduce p.
func plDiff(p, q *playlist.Media) []string {
	var out []string
	add := func(c bool, f string) {
		if !c {
			out = append(out, f)
		}
	}
	add(p.Version == q.Version, "Version")
	add(p.IndependentSegments == q.IndependentSegments, "IndependentSegments")
	add((p.Start == nil) == (q.Start == nil) && (p.Start == nil || plDurNear(p.Start.TimeOffset, q.Start.TimeOffset)), "Start")
	add((p.AllowCache == nil) == (q.AllowCache == nil) && (p.AllowCache == nil || *p.AllowCache == *q.AllowCache), "AllowCache")
	add(p.TargetDuration == q.TargetDuration, "TargetDuration")
	if (p.ServerControl == nil) != (q.ServerControl == nil) {
		out = append(out, "ServerControl")
	} else if p.ServerControl != nil {
		add(p.ServerControl.CanBlockReload == q.ServerControl.CanBlockReload, "ServerControl.CanBlockReload")
		add(plOptDurNear(p.ServerControl.PartHoldBack, q.ServerControl.PartHoldBack), "ServerControl.PartHoldBack")
		add(plOptDurNear(p.ServerControl.CanSkipUntil, q.ServerControl.CanSkipUntil), "ServerControl.CanSkipUntil")
	}
	add((p.PartInf == nil) == (q.PartInf == nil) && (p.PartInf == nil || plDurNear(p.PartInf.PartTarget, q.PartInf.PartTarget)), "PartInf")
	add(p.MediaSequence == q.MediaSequence, "MediaSequence")
	add(plOptIntEq(p.DiscontinuitySequence, q.DiscontinuitySequence), "DiscontinuitySequence")
	add((p.PlaylistType == nil) == (q.PlaylistType == nil) && (p.PlaylistType == nil || *p.PlaylistType == *q.PlaylistType), "PlaylistType")
	if (p.Map == nil) != (q.Map == nil) {
		out = append(out, "Map")
	} else if p.Map != nil {
		add(p.Map.URI == q.Map.URI, "Map.URI")
		add(plOptU64Eq(p.Map.ByteRangeLength, q.Map.ByteRangeLength), "Map.ByteRangeLength")
		add(plOptU64Eq(p.Map.ByteRangeStart, q.Map.ByteRangeStart), "Map.ByteRangeStart")
	}
	add((p.Skip == nil) == (q.Skip == nil) && (p.Skip == nil || p.Skip.SkippedSegments == q.Skip.SkippedSegments), "Skip")
	if len(p.Segments) != len(q.Segments) {
		out = append(out, "len(Segments)")
	} else {
		for i := range p.Segments {
			a, b := p.Segments[i], q.Segments[i]
			w := fmt.Sprintf("Segments[%d]", i)
			add(plDurNear(a.Duration, b.Duration), w+".Duration")
			add(a.Title == b.Title, w+".Title")
			add(a.URI == b.URI, w+".URI")
			add(a.Discontinuity == b.Discontinuity, w+".Discontinuity")
			add(a.Gap == b.Gap, w+".Gap")
			if (a.DateTime == nil) != (b.DateTime == nil) {
				out = append(out, w+".DateTime")
			} else if a.DateTime != nil {
				add(plFloorMilli(*a.DateTime) == plFloorMilli(*b.DateTime), w+".DateTime(instant)")
				add(plZoneOffset(*a.DateTime) == plZoneOffset(*b.DateTime), w+".DateTime(zone)")
			}
			add(plOptIntEq(a.Bitrate, b.Bitrate), w+".Bitrate")
			if (a.Key == nil) != (b.Key == nil) {
				out = append(out, w+".Key")
			} else if a.Key != nil {
				add(*a.Key == *b.Key, w+".Key")
			}
			add(plOptU64Eq(a.ByteRangeLength, b.ByteRangeLength), w+".ByteRangeLength")
			add(plOptU64Eq(a.ByteRangeStart, b.ByteRangeStart), w+".ByteRangeStart")
			if len(a.Parts) != len(b.Parts) {
				out = append(out, w+".len(Parts)")
			} else {
				for j := range a.Parts {
					plPartDiff(fmt.Sprintf("%s.Parts[%d]", w, j), a.Parts[j], b.Parts[j], &out)
				}
			}
		}
	}
	if len(p.Parts) != len(q.Parts) {
		out = append(out, "len(Parts)")
	} else {
		for j := range p.Parts {
			plPartDiff(fmt.Sprintf("Parts[%d]", j), p.Parts[j], q.Parts[j], &out)
		}
	}
	if (p.PreloadHint == nil) != (q.PreloadHint == nil) {
		out = append(out, "PreloadHint")
	} else if p.PreloadHint != nil {
		add(p.PreloadHint.URI == q.PreloadHint.URI, "PreloadHint.URI")
		add(p.PreloadHint.ByteRangeStart == q.PreloadHint.ByteRangeStart, "PreloadHint.ByteRangeStart")
		add(plOptU64Eq(p.PreloadHint.ByteRangeLength, q.PreloadHint.ByteRangeLength), "PreloadHint.ByteRangeLength")
	}
	add(p.Endlist == q.Endlist, "Endlist")
	return out
}

// plStructure evaluates the structure clause of C15 on a successfully decoded value.
func plStructure(m *playlist.Media) []string {
	var out []string
	if len(m.Segments) == 0 {
		out = append(out, "no segment")
	}
	if m.TargetDuration == 0 {
		out = append(out, "target duration is zero")
	}
	part := func(w string, p *playlist.MediaPart) {
		if p == nil {
			out = append(out, w+" is nil")
			return
		}
		if p.Duration == 0 {
			out = append(out, w+" duration is zero")
		}
		if p.URI == "" {
			out = append(out, w+" URI is empty")
		}
	}
	for i, s := range m.Segments {
		if s == nil {
			out = append(out, fmt.Sprintf("segment %d is nil", i))
			continue
		}
		if s.URI == "" {
			out = append(out, fmt.Sprintf("segment %d URI is empty", i))
		}
		if s.Duration == 0 {
			out = append(out, fmt.Sprintf("segment %d duration is zero", i))
		}
		for j, p := range s.Parts {
			part(fmt.Sprintf("segment %d part %d", i, j), p)
		}
	}
	for j, p := range m.Parts {
		part(fmt.Sprintf("trailing part %d", j), p)
	}
	if m.PartInf != nil && m.PartInf.PartTarget == 0 {
		out = append(out, "part target is zero")
	}
	if m.Map != nil && m.Map.URI == "" {
		out = append(out, "map URI is empty")
	}
	if m.PreloadHint != nil && m.PreloadHint.URI == "" {
		out = append(out, "preload hint URI is empty")
	}
	if m.Start != nil && m.Start.TimeOffset == 0 {
		out = append(out, "start offset is zero")
	}
	return out
}

// ---- syntactic variants of a marshaled playlist (C14, last clause) ----

var plAttrTags = []string{
	"#EXT-X-START:", "#EXT-X-SERVER-CONTROL:", "#EXT-X-PART-INF:", "#EXT-X-MAP:", "#EXT-X-KEY:",
	"#EXT-X-SKIP:", "#EXT-X-PART:", "#EXT-X-PRELOAD-HINT:",
}

func plAttrTagOf(line string) string {
	for _, t := range plAttrTags {
		if strings.HasPrefix(line, t) {
			return t
		}
	}
	return ""
}

// plSplitAttrs splits an attribute list at commas outside quotes (independent of primitives.Attributes).
func plSplitAttrs(s string) []string {
	var out []string
	inq := false
	st := 0
	for i := 0; i < len(s); i++ {
		switch {
		case s[i] == '"':
			inq = !inq
		case s[i] == ',' && !inq:
			out = append(out, s[st:i])
			st = i + 1
		}
	}
	if st < len(s) || len(s) > 0 {
		out = append(out, s[st:])
	}
	return out
}

type plVariant struct {
	name string
	text []byte
}

func plVariants(b []byte) []plVariant {
	s := string(b)
	lines := strings.Split(strings.TrimSuffix(s, "\n"), "\n")
	var vs []plVariant
	vs = append(vs, plVariant{"crlf", []byte(strings.ReplaceAll(s, "\n", "\r\n"))})
	vs = append(vs, plVariant{"no-trailing-newline", []byte(strings.TrimSuffix(s, "\n"))})
	{
		var o []string
		for i, l := range lines {
			o = append(o, l)
			if i == 0 {
				o = append(o, "# a comment", "#EXT-X-UNKNOWN-TAG:FOO=1,BAR=\"x\"", "")
			} else if !strings.HasPrefix(l, "#EXTINF:") && !strings.HasPrefix(l, "#EXT-X-BYTERANGE:") {
				if i%3 == 0 {
					o = append(o, "#EXT-X-FUTURE")
				}
				if i%4 == 0 {
					o = append(o, "")
				}
			} else if i%2 == 0 {
				o = append(o, "#EXT-X-CUE-OUT:30")
			}
		}
		vs = append(vs, plVariant{"unknown-tags", []byte(strings.Join(o, "\n") + "\n")})
	}
	{
		var o, rv []string
		for _, l := range lines {
			t := plAttrTagOf(l)
			if t == "" {
				o = append(o, l)
				rv = append(rv, l)
				continue
			}
			body := l[len(t):]
			if body == "" {
				o = append(o, l+"X-UNKNOWN=\"a,b\"")
			} else {
				o = append(o, t+"X-FIRST=0x1,"+body+",X-UNKNOWN=\"a,b\",X-LAST=1.5")
			}
			at := plSplitAttrs(body)
			for i, j := 0, len(at)-1; i < j; i, j = i+1, j-1 {
				at[i], at[j] = at[j], at[i]
			}
			rv = append(rv, t+strings.Join(at, ","))
		}
		vs = append(vs, plVariant{"unknown-attributes", []byte(strings.Join(o, "\n") + "\n")})
		vs = append(vs, plVariant{"attribute-order", []byte(strings.Join(rv, "\n") + "\n")})
	}
	return vs
}

// ---- running the real code with panics observed ----

func plSafeMarshal(m *playlist.Media) (b []byte, err error, pan any) {
	defer func() {
		if e := recover(); e != nil {
			pan = e
		}
	}()
	b, err = m.Marshal()
	return
}

func plSafeUnmarshal(b []byte) (m *playlist.Media, err error, pan any) {
	defer func() {
		if e := recover(); e != nil {
			pan = e
		}
	}()
	m = &playlist.Media{}
	err = m.Unmarshal(b)
	return
}

// plOracleC14 evaluates C14 on a valid value; returns violations.
func plOracleC14(p *playlist.Media) []string {
	var out []string
	b, err, pan := plSafeMarshal(p)
	if pan != nil || err != nil {
		return []string{fmt.Sprintf("C14: Marshal of a valid value failed (%v %v)", err, pan)}
	}
	q, err, pan := plSafeUnmarshal(b)
	if pan != nil || err != nil {
		return []string{fmt.Sprintf("C14: Unmarshal(Marshal(p)) failed on a valid value: err=%v panic=%v text=%q", err, pan, plClip(b))}
	}
	if d := plDiff(p, q); len(d) != 0 {
		out = append(out, fmt.Sprintf("C14: Unmarshal(Marshal(p)) differs from p in %s; text=%q", strings.Join(d, ","), plClip(b)))
	}
	b2, err, pan := plSafeMarshal(q)
	if pan != nil || err != nil || !bytes.Equal(b, b2) {
		out = append(out, fmt.Sprintf("C14: Marshal is not a fixpoint on its own output: %q vs %q", plClip(b), plClip(b2)))
	}
	want := plCanon(q)
	for _, v := range plVariants(b) {
		r, err, pan := plSafeUnmarshal(v.text)
		if pan != nil || err != nil {
			out = append(out, fmt.Sprintf("C14: variant %s does not decode: err=%v panic=%v", v.name, err, pan))
			continue
		}
		if plCanon(r) != want {
			out = append(out, fmt.Sprintf("C14: variant %s decodes to a different value", v.name))
		}
	}
	return out
}

func plClip(b []byte) string {
	if len(b) > 400 {
		return string(b[:400]) + "…"
	}
	return string(b)
}
