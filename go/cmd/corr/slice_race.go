package main

import (
	"bytes"
	"crypto/sha1"
	"encoding/json"
	"fmt"
	"hash/fnv"
	"math/rand"
	"net/http"
	"net/http/httptest"
	"os"
	"runtime"
	"runtime/debug"
	"strconv"
	"strings"
	"sync"
	"sync/atomic"
	"time"

	"github.com/bluenviron/gohlslib/v2"
	"github.com/bluenviron/mediacommon/v2/pkg/formats/fmp4"
)

// race slice (C08): the op sequences of the muxer slice (one writer: the goroutine that runs the ops,
// including the sequential snapshots the muxer oracle needs), PLUS N reader goroutines that hammer
// Muxer.Handle with every kind of URL while the writer runs, and finally Muxer.Close while the readers
// are still active.
//
//   * the writer-side observations are the muxer slice's observations: the same op file is fed to the
//     Lean model (drv_muxer), so "concurrent readers do not change what the writer and the sequential
//     snapshots see" (handlers are pure) is re-checked against the model;
//   * every concurrent response is checked on the spot, by the goroutine that received it:
//     no panic, every 200 media playlist parses and satisfies the single-playlist clauses of C03/C04,
//     per requester MEDIA-SEQUENCE / TARGETDURATION never decrease, a media sequence number keeps its
//     URI / duration, a part keeps its duration, a fetched segment / part decodes and never changes;
//   * built with -race (tools/race_soak.sh) the Go race detector watches the same runs; its reports are
//     collected by tools/race_soak.py.  The yield hooks ("server.handle", "partDisk.Reader") are used
//     to hold a reader between lookup and call / between the nil test and the use of partDisk.buffer.
//
// Reader count, request mix and yield behaviour derive from a hash of the case's `start`/`track` lines:
// the op file alone determines the case (replayable with `corr replay -slice race`), up to scheduling.

type raceSlice struct{}

func init() { register(raceSlice{}) }

func (raceSlice) Name() string { return "race" }

// Corpus: one deterministic scenario that always runs first (shard 0): a VP9 stream whose key frames
// change the frame size every third frame — the writer stores codec.Width / codec.Height in writeVP9
// outside the muxer mutex while the readers request index.m3u8 (finding F14a; with fix-F14a: clean).
func (raceSlice) Corpus() [][]string {
	ops := []string{
		"start v=fmp4 segcount=3 segmin=100000000 partmin=100000000 maxsize=52428800 dir=0",
		"track codec=vp9 rate=90000 sr=0",
		"begin",
	}
	pts := int64(900000)
	for i := 0; i < 400; i++ {
		par := 1 + (i/3)%2
		size := mxOtherSize("vp9", true, par, i+1, 0)
		ops = append(ops, fmt.Sprintf("w t=0 pts=%d dts=%d ntp=%d ra=1 pic=1 par=%d pays=%d sizes=%d fill=0", pts, pts, 1600000000000+int64(i)*100, par, i+1, size))
		pts += 9000
		if i%50 == 49 {
			ops = append(ops, "snap")
		}
	}
	return [][]string{ops}
}

func (raceSlice) Gen(r *rand.Rand, i int, _ string) ([]string, []string) {
	var ops, tags []string
	// one case in three must change VP9 / AV1 parameters (the codec fields the multivariant handler reads:
	// the muxer generator's H264 units only ever change the PPS, which no handler reads)
	wantParams := r.Intn(3) == 0
	for attempt := 0; attempt < 80; attempt++ {
		// always the quick-tier shape (30..150 writes): under the race detector with readers hammering, the
		// thorough tier's 400..1600-write cases cost minutes each; the thorough tier runs MORE cases instead
		ops, tags = muxerSlice{}.Gen(r, i, "quick")
		bad := len(ops) < 6
		params, codec := false, false
		for _, t := range tags {
			if t == "cfg=malformed" || t == "malformed-writes" {
				bad = true
			}
			if t == "param-changes" {
				params = true
			}
			if strings.HasPrefix(t, "codecs=") && (strings.Contains(t, "vp9") || strings.Contains(t, "av1")) {
				codec = true
			}
		}
		if !bad && (!wantParams || (params && codec)) {
			break
		}
	}
	// the race runner calls Close itself, while the readers are active: drop the muxer slice's own `close` op
	{
		kept := ops[:0:0]
		for _, op := range ops {
			if op != "close" {
				kept = append(kept, op)
			}
		}
		ops = kept
	}
	// RAM and Directory storage with equal weight
	dir := r.Intn(2) == 0
	var outTags []string
	for _, t := range tags {
		if t != "dir" {
			outTags = append(outTags, t)
		}
	}
	if dir {
		outTags = append(outTags, "dir")
	} else {
		outTags = append(outTags, "ram")
	}
	for k, op := range ops {
		if strings.HasPrefix(op, "start ") {
			op = strings.Replace(op, " dir=0", " dir="+b01(dir), 1)
			op = strings.Replace(op, " dir=1", " dir="+b01(dir), 1)
			ops[k] = op
		}
	}
	return ops, outTags
}

type raceRunner struct {
	inner    *mxRunner
	cfgHash  uint64
	readers  []*raceReader
	gids     sync.Map // goroutine id -> *raceReader
	stop     atomic.Bool
	wg       sync.WaitGroup
	writeErr atomic.Bool // some Write* returned an error (bodies may then be undecodable, as in the muxer oracle)
	mu       sync.Mutex
	fails    []string
	counts   map[string]int
	running  bool
	finished bool
}

var raceCurrent atomic.Pointer[raceRunner]

func (raceSlice) NewRunner() Runner {
	return &raceRunner{inner: muxerSlice{}.NewRunner().(*mxRunner), counts: map[string]int{}}
}

func (r *raceRunner) failf(format string, a ...any) {
	r.mu.Lock()
	defer r.mu.Unlock()
	if len(r.fails) < 12 {
		s := fmt.Sprintf(format, a...)
		for _, f := range r.fails {
			if f == s {
				return
			}
		}
		r.fails = append(r.fails, s)
	}
}

func (r *raceRunner) count(k string) {
	r.mu.Lock()
	r.counts[k]++
	r.mu.Unlock()
}

func (r *raceRunner) Step(line string) []string {
	ws := strings.Fields(line)
	if len(ws) > 0 && (ws[0] == "start" || ws[0] == "track") {
		h := fnv.New64a()
		h.Write([]byte(strconv.FormatUint(r.cfgHash, 16) + line))
		r.cfgHash = h.Sum64()
	}
	out := r.inner.Step(line)
	if len(ws) > 0 && ws[0] == "w" && len(out) > 0 && strings.HasPrefix(out[0], "w err") {
		r.writeErr.Store(true)
	}
	if len(ws) > 0 && ws[0] == "begin" && r.inner.started && !r.running {
		r.startReaders()
	}
	return out
}

func (r *raceRunner) Oracle() []string {
	r.finish()
	r.mu.Lock()
	out := append([]string{}, r.fails...)
	r.mu.Unlock()
	out = append(out, r.inner.Oracle()...)
	if len(out) > 8 {
		out = out[:8]
	}
	return out
}

func (r *raceRunner) Close() {
	r.finish()
	r.inner.Close()
}

// raceBaseHook is what slice_muxer.go installs at init: handlers announce that they are about to park.
func raceBaseHook(point string) {
	if point == "muxer.wait" {
		select {
		case mxWaitCh <- curGoroutineID():
		default:
		}
	}
}

func raceHook(point string) {
	r := raceCurrent.Load()
	if r == nil {
		raceBaseHook(point)
		return
	}
	v, ok := r.gids.Load(curGoroutineID())
	if !ok {
		raceBaseHook(point) // the writer goroutine's own sequential requests (doMayBlock)
		return
	}
	rd := v.(*raceReader)
	switch point {
	case "server.handle":
		switch n := rd.rng.Intn(12); {
		case n < 4:
			runtime.Gosched()
		case n < 6:
			time.Sleep(time.Duration(20+rd.rng.Intn(280)) * time.Microsecond)
		}
	case "partDisk.Reader":
		rd.run.count("yield:partDisk.Reader")
		if rd.rng.Intn(2) == 0 {
			time.Sleep(time.Duration(50+rd.rng.Intn(450)) * time.Microsecond)
		} else {
			runtime.Gosched()
		}
	case "muxer.wait":
		rd.run.count("parked")
	}
}

func (r *raceRunner) startReaders() {
	r.running = true
	rng := rand.New(rand.NewSource(int64(r.cfgHash)))
	n := 2 + rng.Intn(5)
	raceCurrent.Store(r)
	gohlslib.VerifSetYieldHook(raceHook)
	raceSetStorageHook(raceHook)
	for i := 0; i < n; i++ {
		rd := &raceReader{id: i, run: r, rng: rand.New(rand.NewSource(rng.Int63())),
			last: map[int]*m3uMedia{}, lastSeq: map[int]int{}, lastEnd: map[int]int{}, lastTarget: map[int]int{},
			seen: map[int]map[int]m3uSeg{}, partSeen: map[string]m3uPart{}, bodyHash: map[string][20]byte{}}
		// reader profiles: 0 = everything, 1 = media files only (never takes the muxer mutex), 2 = playlists only
		rd.profile = []int{0, 0, 1, 2, 0, 1}[rng.Intn(6)]
		r.readers = append(r.readers, rd)
		r.wg.Add(1)
		started := make(chan struct{})
		go rd.loop(started)
		<-started
	}
}

// finish: Close the muxer from the writer goroutine while the readers are still hammering, then stop them.
func (r *raceRunner) finish() {
	if r.finished || !r.running {
		r.finished = true
		return
	}
	r.finished = true
	func() {
		defer func() {
			if e := recover(); e != nil {
				r.failf("C08 panic in Muxer.Close: %v", e)
			}
		}()
		r.inner.m.Close()
	}()
	r.inner.started = false // mxRunner.Close must not close a second time
	time.Sleep(200 * time.Microsecond)
	r.stop.Store(true)
	done := make(chan struct{})
	go func() { r.wg.Wait(); close(done) }()
	select {
	case <-done:
	case <-time.After(150 * time.Millisecond):
		// requests parked for ever after Close (candidate defects F4 / F5, property C07) are abandoned
		r.count("abandoned-after-close")
	}
	gohlslib.VerifSetYieldHook(raceBaseHook)
	raceSetStorageHook(nil)
	raceCurrent.Store(nil)
	if p := os.Getenv("RACE_STATS"); p != "" {
		r.mu.Lock()
		b, _ := json.Marshal(r.counts)
		r.mu.Unlock()
		if f, err := os.OpenFile(p, os.O_APPEND|os.O_CREATE|os.O_WRONLY, 0o644); err == nil {
			f.Write(append(b, '\n'))
			f.Close()
		}
	}
}

// ------------------------------------------------------------------ readers

type raceReader struct {
	id      int
	run     *raceRunner
	rng     *rand.Rand
	profile int
	// what THIS requester has seen
	last       map[int]*m3uMedia // stream -> last full (non-delta) playlist
	lastSeq    map[int]int
	lastEnd    map[int]int
	lastTarget map[int]int
	seen       map[int]map[int]m3uSeg // stream -> msn -> entry
	partSeen   map[string]m3uPart     // part uri -> entry
	bodyHash   map[string][20]byte    // uri -> hash of the first 200 body
	uris       []string               // media URIs seen in playlists (most recent last)
	hints      []string
}

func (rd *raceReader) loop(started chan struct{}) {
	defer rd.run.wg.Done()
	rd.run.gids.Store(curGoroutineID(), rd)
	close(started)
	for !rd.run.stop.Load() {
		rd.one()
	}
}

// do performs one request on this goroutine; a panic inside the handler is the observation.
func (rd *raceReader) do(kind, path string) (w *httptest.ResponseRecorder) {
	defer func() {
		if e := recover(); e != nil {
			w = nil
			st := string(debug.Stack())
			where := "?"
			for _, l := range strings.Split(st, "\n") {
				if strings.Contains(l, "gohlslib/v2") && !strings.Contains(l, "slice_race") && strings.Contains(l, "(") {
					where = strings.TrimSpace(l)
					if i := strings.LastIndex(where, "("); i > 0 {
						where = where[:i]
					}
					where = where[strings.LastIndex(where, "/")+1:]
					break
				}
			}
			tag := ""
			if strings.Contains(fmt.Sprint(e), "divide by zero") && strings.Contains(st, "bandwidth") {
				tag = "F13-zero-duration " // known finding F13 (C16, also C08)
			}
			if strings.Contains(where, "(*partDisk).Reader") {
				tag = "F14b-partdisk-buffer-race: " // the nil test and the use of p.buffer straddle fileDisk.Finalize
			}
			rd.run.failf("%sC08 panic in handler (%s request): %v in %s", tag, kind, e, where)
		}
	}()
	req := httptest.NewRequest(http.MethodGet, "http://localhost/"+path, nil)
	w = httptest.NewRecorder()
	rd.run.inner.m.Handle(w, req)
	rd.run.count("req:" + kind)
	return w
}

func (rd *raceReader) streamPath(si int) string { return rd.run.inner.streamID(si) + "_stream.m3u8" }

func (rd *raceReader) one() {
	r := rd.run.inner
	nStreams := r.streamCount()
	si := rd.rng.Intn(nStreams)
	ll := r.variant == "ll"
	type choice struct {
		w int
		f func()
	}
	var cs []choice
	add := func(w int, f func()) { cs = append(cs, choice{w, f}) }
	if rd.profile != 1 {
		add(5, func() { rd.multivariant() })
		add(20, func() { rd.playlist(si, "", "pl") })
		if ll {
			add(8, func() { rd.playlist(si, "_HLS_skip=YES", "pldelta") })
			add(10, func() { rd.blocking(si) })
		} else {
			add(3, func() { rd.playlist(si, "_HLS_msn=1&_HLS_part=0&_HLS_skip=YES", "plquery") }) // ignored by non-LL variants
		}
	} else if len(rd.uris) == 0 || rd.rng.Intn(40) == 0 {
		add(30, func() { rd.playlist(si, "", "pl") }) // a media-only reader needs URIs now and then
	}
	if rd.profile != 2 {
		if len(rd.uris) > 0 {
			add(40, func() { rd.media(false) })
			add(6, func() { rd.media(true) })
		}
		if ll && len(rd.hints) > 0 {
			add(6, func() { rd.hint() })
		}
	}
	add(2, func() { rd.unknown() })
	tot := 0
	for _, c := range cs {
		tot += c.w
	}
	x := rd.rng.Intn(tot)
	for _, c := range cs {
		if x < c.w {
			c.f()
			return
		}
		x -= c.w
	}
}

func (rd *raceReader) multivariant() {
	w := rd.do("multivariant", "index.m3u8")
	if w == nil || w.Code != 200 {
		return
	}
	b := w.Body.String()
	if !strings.HasPrefix(b, "#EXTM3U\n") || !strings.Contains(b, "#EXT-X-STREAM-INF:") {
		rd.run.failf("C08 snapshot: multivariant playlist is malformed: %q", trunc(b))
	}
	for _, l := range strings.Split(b, "\n") {
		if strings.HasPrefix(l, "#EXT-X-STREAM-INF:") {
			if _, _, err := splitAttrs(l[len("#EXT-X-STREAM-INF:"):]); err != nil {
				rd.run.failf("C08 snapshot: multivariant playlist attribute list: %v", err)
			}
		}
	}
}

func (rd *raceReader) unknown() {
	w := rd.do("unknown", fmt.Sprintf("nonexistent%d.mp4", rd.rng.Intn(1000)))
	if w != nil && (w.Body.Len() != 0 || w.Header().Get("Content-Type") != "") {
		rd.run.failf("C08 unknown path answered with a body")
	}
}

func (rd *raceReader) blocking(si int) {
	p := rd.last[si]
	if p == nil {
		rd.playlist(si, "", "pl")
		return
	}
	next := p.mediaSeq + len(p.segs) // the open segment
	var q string
	switch rd.rng.Intn(10) {
	case 0, 1, 2, 3: // the next part that does not exist yet: blocks until the writer publishes it
		q = fmt.Sprintf("_HLS_msn=%d&_HLS_part=%d", next, len(p.parts))
	case 4, 5: // a published part of the open segment
		q = fmt.Sprintf("_HLS_msn=%d&_HLS_part=%d", next, rd.rng.Intn(len(p.parts)+1))
	case 6: // the last complete segment
		q = fmt.Sprintf("_HLS_msn=%d", next-1)
	case 7: // the open segment as a whole: blocks until it is complete
		q = fmt.Sprintf("_HLS_msn=%d", next)
	case 8: // roll-over: part index past the end of the last complete segment
		q = fmt.Sprintf("_HLS_msn=%d&_HLS_part=%d", next-1, 50)
	default: // out of range / unparsable
		q = []string{fmt.Sprintf("_HLS_msn=%d", next+5), "_HLS_part=1", "_HLS_msn=x", fmt.Sprintf("_HLS_msn=%d", p.mediaSeq)}[rd.rng.Intn(4)]
	}
	if rd.rng.Intn(3) == 0 {
		q += "&_HLS_skip=YES"
	}
	rd.playlist(si, q, "plblock")
}

func (rd *raceReader) playlist(si int, query string, kind string) {
	path := rd.streamPath(si)
	if query != "" {
		path += "?" + query
	}
	w := rd.do(kind, path)
	if w == nil {
		return
	}
	if w.Code != 200 {
		rd.run.count(fmt.Sprintf("status:%s:%d", kind, w.Code))
		return
	}
	text := w.Body.String()
	p, err := parseM3UMedia(text)
	if err != nil {
		rd.run.failf("C08 snapshot stream %d: concurrent media playlist does not parse: %v", si, err)
		return
	}
	if ct := w.Header().Get("Content-Type"); ct != "application/vnd.apple.mpegurl" {
		rd.run.failf("C08 snapshot stream %d: playlist content type %q", si, ct)
	}
	rd.checkPlaylist(si, p)
}

// checkPlaylist: single-playlist clauses (C03/C04, as in muxer_oracle.go checkSnap) + this requester's history.
func (rd *raceReader) checkPlaylist(si int, p *m3uMedia) {
	r := rd.run.inner
	fail := func(format string, a ...any) {
		rd.run.failf("C08 snapshot stream %d: "+format, append([]any{si}, a...)...)
	}
	off := 0
	if p.hasSkip {
		off = p.skipped
	}
	var partNums []int64
	for i, g := range p.segs {
		msn := p.mediaSeq + off + i
		if g.gap {
			if r.canonKey(g.uri) != "gap" {
				fail("gap segment with URI %q", g.uri)
			}
		} else {
			if want, k := fmt.Sprintf("seg%d_%d", si, msn), r.canonKey(g.uri); k != want {
				fail("segment at media sequence %d has URI %s", msn, g.uri)
			}
		}
		if len(g.parts) > 0 && len(p.segs)-i > 2 {
			fail("parts listed under a segment that is not one of the last two")
		}
		rounded := (g.dur + 50000) / 100000
		if int64(p.target) < rounded {
			fail("TARGETDURATION %d < EXTINF %d (x10us) rounded", p.target, g.dur)
		}
		sum := int64(0)
		for _, pt := range g.parts {
			partNums = append(partNums, keyNums(r.canonKey(pt.uri))[1])
			sum += pt.dur
			if pt.dur > p.partTarget {
				fail("part duration %d > PART-TARGET %d", pt.dur, p.partTarget)
			}
		}
		if len(g.parts) > 0 {
			if d := sum - g.dur; d > int64(len(g.parts)) || d < -int64(len(g.parts)) {
				fail("parts of %s add up to %d, EXTINF is %d (x10us)", g.uri, sum, g.dur)
			}
		}
	}
	for _, pt := range p.parts {
		partNums = append(partNums, keyNums(r.canonKey(pt.uri))[1])
		if pt.dur > p.partTarget {
			fail("open part duration %d > PART-TARGET %d", pt.dur, p.partTarget)
		}
	}
	if off+len(p.segs) > r.segCount {
		fail("%d segments listed, SegmentCount is %d", off+len(p.segs), r.segCount)
	}
	for i := 1; i < len(partNums); i++ {
		if partNums[i] != partNums[i-1]+1 {
			fail("part numbers %d then %d", partNums[i-1], partNums[i])
		}
	}
	if r.variant == "ll" {
		if p.hint == "" {
			fail("no preload hint in a Low-Latency playlist")
		} else if len(partNums) > 0 {
			if hn := keyNums(r.canonKey(p.hint))[1]; hn != partNums[len(partNums)-1]+1 {
				fail("preload hint names part %d, last listed part is %d", hn, partNums[len(partNums)-1])
			}
		}
		if !p.hasSC || !p.hasPartInf {
			fail("Low-Latency playlist without SERVER-CONTROL / PART-INF")
		}
	}
	if p.hasSC {
		if p.holdBack < 2*p.partTarget {
			fail("PART-HOLD-BACK %d < 2 x PART-TARGET %d", p.holdBack, p.partTarget)
		}
		if p.skipUntil < 6*int64(p.target)*100000 {
			fail("CAN-SKIP-UNTIL %d < 6 x TARGETDURATION %d", p.skipUntil, p.target)
		}
	}
	if !p.hasSkip && r.variant != "ts" && p.mapURI == "" {
		fail("fMP4 playlist without EXT-X-MAP")
	}

	// ---- this requester's history (C04 as seen by one client)
	if last, ok := rd.lastSeq[si]; ok {
		if p.mediaSeq < last {
			fail("monotonicity: EXT-X-MEDIA-SEQUENCE went back %d -> %d for one requester", last, p.mediaSeq)
		}
		if end := p.mediaSeq + off + len(p.segs); end < rd.lastEnd[si] {
			fail("monotonicity: playlist end went back %d -> %d for one requester", rd.lastEnd[si], end)
		}
		if p.target < rd.lastTarget[si] {
			fail("monotonicity: TARGETDURATION decreased %d -> %d for one requester", rd.lastTarget[si], p.target)
		}
	}
	rd.lastSeq[si], rd.lastEnd[si], rd.lastTarget[si] = p.mediaSeq, p.mediaSeq+off+len(p.segs), p.target
	if rd.seen[si] == nil {
		rd.seen[si] = map[int]m3uSeg{}
	}
	for i, g := range p.segs {
		msn := p.mediaSeq + off + i
		g.uri = raceNoQuery(g.uri) // the query of the request is echoed into the URIs
		if old, ok := rd.seen[si][msn]; ok {
			if old.uri != g.uri || old.dur != g.dur || old.gap != g.gap {
				fail("monotonicity: media sequence %d changed from (%s,%d,%v) to (%s,%d,%v) for one requester", msn, old.uri, old.dur, old.gap, g.uri, g.dur, g.gap)
			}
		} else {
			rd.seen[si][msn] = g
		}
		for _, pt := range g.parts {
			rd.notePart(si, pt)
		}
	}
	for _, pt := range p.parts {
		rd.notePart(si, pt)
	}
	// URIs to fetch later
	if !p.hasSkip {
		rd.last[si] = p
	}
	noteURI := func(u string) {
		u = raceNoQuery(u)
		if u == "" || u == "gap.mp4" {
			return
		}
		if len(rd.uris) > 60 {
			rd.uris = rd.uris[20:]
		}
		rd.uris = append(rd.uris, u)
	}
	noteURI(p.mapURI)
	for _, g := range p.segs {
		if !g.gap {
			noteURI(g.uri)
		}
		for _, pt := range g.parts {
			noteURI(pt.uri)
		}
	}
	for _, pt := range p.parts {
		noteURI(pt.uri)
	}
	if p.hint != "" {
		if len(rd.hints) > 8 {
			rd.hints = rd.hints[4:]
		}
		rd.hints = append(rd.hints, raceNoQuery(p.hint))
	}
}

func raceNoQuery(u string) string {
	if i := strings.IndexByte(u, '?'); i >= 0 {
		return u[:i]
	}
	return u
}

func (rd *raceReader) notePart(si int, pt m3uPart) {
	pt.uri = raceNoQuery(pt.uri)
	if old, ok := rd.partSeen[pt.uri]; ok {
		if old.dur != pt.dur || old.indep != pt.indep {
			rd.run.failf("C08 snapshot stream %d: monotonicity: part %s changed from (%d,%v) to (%d,%v) for one requester", si, pt.uri, old.dur, old.indep, pt.dur, pt.indep)
		}
		return
	}
	if len(rd.partSeen) > 4000 {
		rd.partSeen = map[string]m3uPart{}
	}
	rd.partSeen[pt.uri] = pt
}

// media fetches a segment / part / init URI this requester saw listed (recent ones preferred; `old` = any).
func (rd *raceReader) media(old bool) {
	var u string
	if old || len(rd.uris) < 6 {
		u = rd.uris[rd.rng.Intn(len(rd.uris))]
	} else {
		u = rd.uris[len(rd.uris)-1-rd.rng.Intn(6)]
	}
	rd.fetchMedia(u, "media")
}

func (rd *raceReader) hint() {
	u := rd.hints[len(rd.hints)-1-rd.rng.Intn(min(2, len(rd.hints)))]
	rd.fetchMedia(u, "hint")
}

func (rd *raceReader) fetchMedia(u string, kind string) {
	r := rd.run.inner
	k := r.canonKey(u)
	switch {
	case strings.HasPrefix(k, "init"):
		if kind == "media" {
			kind = "init"
		}
	case strings.HasPrefix(k, "seg"):
		if kind == "media" {
			kind = "segment"
		}
	case strings.HasPrefix(k, "part"):
		if kind == "media" {
			kind = "part"
		}
	}
	w := rd.do(kind, u)
	if w == nil {
		return
	}
	body := w.Body.Bytes()
	if w.Code != 200 {
		rd.run.count(fmt.Sprintf("status:%s:%d", kind, w.Code))
		return
	}
	ct := w.Header().Get("Content-Type")
	if ct == "" && len(body) == 0 {
		rd.run.count("gone:" + kind) // left the window (or Close removed it) between listing and fetching
		return
	}
	bad := func(format string, a ...any) {
		rd.run.failf("C08 snapshot: %s %s: "+format, append([]any{kind, k}, a...)...)
	}
	switch {
	case strings.HasPrefix(k, "init"):
		var in fmp4.Init
		if err := in.Unmarshal(bytes.NewReader(body)); err != nil {
			bad("init does not decode: %v", err)
		}
		return // the init file legitimately changes at a parameter change
	case strings.HasPrefix(k, "seg") && r.variant == "ts":
		if ct != "video/MP2T" {
			bad("content type %q", ct)
		}
		if len(body)%188 != 0 {
			bad("MPEG-TS segment length %d is not a multiple of 188", len(body))
		}
		for i := 0; i+188 <= len(body); i += 188 {
			if body[i] != 0x47 {
				bad("MPEG-TS packet %d does not start with the sync byte", i/188)
				break
			}
		}
	default:
		if ct != "video/mp4" {
			bad("content type %q", ct)
		}
		var ps fmp4.Parts
		if err := ps.Unmarshal(body); err != nil {
			if !rd.run.writeErr.Load() {
				bad("fMP4 body (%d bytes) does not decode: %v", len(body), err)
			}
			break
		}
		if strings.HasPrefix(k, "part") {
			id := keyNums(k)[1]
			if len(ps) != 1 || int64(ps[0].SequenceNumber) != id {
				bad("a part must be exactly one fragment with its own sequence number (got %d fragments)", len(ps))
			}
		} else {
			for i := 1; i < len(ps); i++ {
				if ps[i].SequenceNumber != ps[i-1].SequenceNumber+1 {
					bad("fragment sequence numbers %d then %d", ps[i-1].SequenceNumber, ps[i].SequenceNumber)
				}
			}
		}
	}
	h := sha1.Sum(body)
	if old, ok := rd.bodyHash[u]; ok {
		if old != h {
			bad("body changed between two fetches by one requester")
		}
	} else {
		if len(rd.bodyHash) > 3000 {
			rd.bodyHash = map[string][20]byte{}
		}
		rd.bodyHash[u] = h
	}
}
