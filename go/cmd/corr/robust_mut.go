package main

import (
	"encoding/binary"
	"fmt"
	"math/rand"
	"os"
	"path/filepath"
	"sort"
	"strconv"
	"strings"
)

// Structure-aware byte mutations of valid fMP4 / MPEG-TS payloads and of playlists.

type rbBox struct {
	typ        string
	start, end int // [start, end)
	hdr        int // offset of the first child / payload relative to start
	depth      int
	parent     int // index in the box list, -1 for top level
}

func rbIsType(b []byte) bool {
	for _, c := range b {
		if !(c >= 'a' && c <= 'z' || c >= 'A' && c <= 'Z' || c >= '0' && c <= '9' || c == ' ' || c == '-' || c == 0xa9) {
			return false
		}
	}
	return true
}

// rbTryBoxes parses [from, to) as a chain of boxes; ok only when the chain ends exactly at `to`.
func rbTryBoxes(b []byte, from, to int) ([][2]int, bool) {
	var out [][2]int
	p := from
	for p < to {
		if to-p < 8 {
			return nil, false
		}
		sz := int(binary.BigEndian.Uint32(b[p:]))
		if sz < 8 || p+sz > to || !rbIsType(b[p+4:p+8]) {
			return nil, false
		}
		out = append(out, [2]int{p, p + sz})
		p += sz
	}
	return out, len(out) > 0
}

var rbLeafBoxes = map[string]bool{"mdat": true, "ftyp": true, "mvhd": true, "tkhd": true, "mdhd": true, "hdlr": true, "vmhd": true,
	"smhd": true, "stts": true, "stsc": true, "stsz": true, "stco": true, "trex": true, "mfhd": true, "tfhd": true, "tfdt": true,
	"trun": true, "avcC": true, "hvcC": true, "av1C": true, "vpcC": true, "esds": true, "dOps": true, "dac3": true, "pcmC": true,
	"btrt": true, "url ": true, "dref": false}

func rbWalk(b []byte, from, to, depth, parent int, out *[]rbBox) {
	chain, ok := rbTryBoxes(b, from, to)
	if !ok {
		return
	}
	for _, c := range chain {
		typ := string(b[c[0]+4 : c[0]+8])
		idx := len(*out)
		*out = append(*out, rbBox{typ: typ, start: c[0], end: c[1], hdr: 8, depth: depth, parent: parent})
		if rbLeafBoxes[typ] || depth > 10 {
			continue
		}
		// children may start after a full-box header, an entry count, or a sample-entry header
		for _, off := range []int{8, 12, 16, 36, 44, 86, 94} {
			if c[0]+off >= c[1] {
				break
			}
			if _, ok := rbTryBoxes(b, c[0]+off, c[1]); ok {
				(*out)[idx].hdr = off
				rbWalk(b, c[0]+off, c[1], depth+1, idx, out)
				break
			}
		}
	}
}

func rbBoxes(b []byte) []rbBox {
	var out []rbBox
	rbWalk(b, 0, len(b), 0, -1, &out)
	return out
}

// rbBoundaries: every box start, header end and box end
func rbBoundaries(b []byte) []int {
	set := map[int]bool{0: true, len(b): true}
	for _, x := range rbBoxes(b) {
		set[x.start], set[x.start+x.hdr], set[x.end] = true, true, true
		set[x.start+4] = true
	}
	var out []int
	for k := range set {
		if k >= 0 && k <= len(b) {
			out = append(out, k)
		}
	}
	sort.Ints(out)
	return out
}

func rbFixSizes(b []byte, boxes []rbBox, idx int, delta int) {
	for p := idx; p >= 0; p = boxes[p].parent {
		sz := int(binary.BigEndian.Uint32(b[boxes[p].start:])) + delta
		binary.BigEndian.PutUint32(b[boxes[p].start:], uint32(sz))
	}
}

var rbU32Specials = []uint32{0, 1, 2, 0x7fffffff, 0x80000000, 0xffffffff, 0xfffffffe, 1000000, 65536}

func rbU32(r *rand.Rand) uint32 {
	if r.Intn(4) == 0 {
		return r.Uint32()
	}
	return rbU32Specials[r.Intn(len(rbU32Specials))]
}

// rbMutateMP4 returns the mutated bytes and a label; `pick` selects the k-th truncation point deterministically when ≥ 0.
func rbMutateMP4(r *rand.Rand, in []byte) ([]byte, string) {
	b := append([]byte{}, in...)
	boxes := rbBoxes(b)
	find := func(typ string) []int {
		var v []int
		for i, x := range boxes {
			if x.typ == typ {
				v = append(v, i)
			}
		}
		return v
	}
	for try := 0; try < 8; try++ {
		switch r.Intn(12) {
		case 0, 1, 2: // truncation at a box boundary (± 1)
			bd := rbBoundaries(b)
			p := bd[r.Intn(len(bd))] + r.Intn(3) - 1
			if p < 0 || p >= len(b) {
				continue
			}
			return b[:p], "trunc-boundary"
		case 3: // a count / duration / size / id / base-time field
			type fld struct {
				box string
				off int
				n   int
			}
			flds := []fld{{"trun", 12, 4}, {"trun", 16, 4}, {"trun", 20, 4}, {"trun", 24, 4}, {"trun", 28, 4}, {"trun", 32, 4},
				{"tfdt", 12, 8}, {"tfdt", 8, 4}, {"tfhd", 12, 4}, {"tfhd", 8, 4}, {"mfhd", 12, 4}, {"mdhd", 20, 4}, {"mdhd", 8, 4},
				{"tkhd", 20, 4}, {"trex", 12, 4}, {"stsd", 12, 4}, {"trun", 8, 4}}
			f := flds[r.Intn(len(flds))]
			is := find(f.box)
			if len(is) == 0 {
				continue
			}
			x := boxes[is[r.Intn(len(is))]]
			if x.start+f.off+f.n > x.end {
				continue
			}
			if f.n == 8 {
				v := uint64(rbU32(r))<<32 | uint64(rbU32(r))
				if r.Intn(2) == 0 {
					v = uint64(rbU32(r))
				}
				binary.BigEndian.PutUint64(b[x.start+f.off:], v)
			} else {
				binary.BigEndian.PutUint32(b[x.start+f.off:], rbU32(r))
			}
			return b, fmt.Sprintf("field-%s+%d", f.box, f.off)
		case 4: // box type renamed
			if len(boxes) == 0 {
				continue
			}
			x := boxes[r.Intn(len(boxes))]
			names := []string{"free", "skip", "moof", "traf", "trun", "tfhd", "tfdt", "mdat", "trak", "moov", "avc1", "mp4a", "xxxx", "mfhd"}
			copy(b[x.start+4:], names[r.Intn(len(names))])
			return b, "rename-" + x.typ
		case 5: // box removed, ancestors' sizes fixed (missing tfhd / tfdt / trun / traf / mfhd / mdat / trak …)
			if len(boxes) == 0 {
				continue
			}
			i := r.Intn(len(boxes))
			x := boxes[i]
			nb := append(append([]byte{}, b[:x.start]...), b[x.end:]...)
			rbFixSizes(nb, boxes, x.parent, -(x.end - x.start))
			return nb, "remove-" + x.typ
		case 6: // box emptied: children removed (empty traf / moof / trak / stbl), sizes fixed
			var cand []int
			for i, x := range boxes {
				if x.hdr < x.end-x.start && !rbLeafBoxes[x.typ] {
					cand = append(cand, i)
				}
			}
			if len(cand) == 0 {
				continue
			}
			i := cand[r.Intn(len(cand))]
			x := boxes[i]
			nb := append(append([]byte{}, b[:x.start+x.hdr]...), b[x.end:]...)
			rbFixSizes(nb, boxes, i, -(x.end - x.start - x.hdr))
			return nb, "empty-" + x.typ
		case 7: // box duplicated, sizes fixed (two tfhd, two trun, two traf of the same track, two moov …)
			if len(boxes) == 0 {
				continue
			}
			i := r.Intn(len(boxes))
			x := boxes[i]
			nb := append(append(append([]byte{}, b[:x.end]...), b[x.start:x.end]...), b[x.end:]...)
			rbFixSizes(nb, boxes, x.parent, x.end-x.start)
			return nb, "dup-" + x.typ
		case 8: // size field of a box
			if len(boxes) == 0 {
				continue
			}
			x := boxes[r.Intn(len(boxes))]
			sz := uint32(x.end - x.start)
			vals := []uint32{0, 1, 7, 8, sz - 1, sz + 1, sz + 8, 0x7fffffff, 0xffffffff, uint32(len(b)) * 2}
			binary.BigEndian.PutUint32(b[x.start:], vals[r.Intn(len(vals))])
			return b, "size-" + x.typ
		case 9: // byte flips
			if len(b) == 0 {
				continue
			}
			for k := 0; k <= r.Intn(4); k++ {
				b[r.Intn(len(b))] ^= byte(1 << uint(r.Intn(8)))
			}
			return b, "flip"
		case 10: // a range zeroed / set to ff
			if len(b) < 4 {
				continue
			}
			p := r.Intn(len(b))
			n := 1 + r.Intn(16)
			v := byte(0)
			if r.Intn(2) == 0 {
				v = 0xff
			}
			for k := p; k < p+n && k < len(b); k++ {
				b[k] = v
			}
			return b, "fill"
		case 11: // trailing garbage / prefix garbage
			g := make([]byte, 1+r.Intn(24))
			r.Read(g)
			if r.Intn(2) == 0 {
				return append(b, g...), "append-garbage"
			}
			return append(g, b...), "prepend-garbage"
		}
	}
	return b[:len(b)/2], "trunc-half"
}

func rbMutateTS(r *rand.Rand, in []byte) ([]byte, string) {
	b := append([]byte{}, in...)
	npk := len(b) / 188
	switch r.Intn(8) {
	case 0: // truncation at a packet boundary
		if npk == 0 {
			return nil, "empty"
		}
		return b[:188*r.Intn(npk+1)], "trunc-packet"
	case 1: // truncation inside a packet
		if len(b) == 0 {
			return nil, "empty"
		}
		return b[:r.Intn(len(b))], "trunc-mid"
	case 2: // PAT / PMT bytes (the first two packets)
		if len(b) < 376 {
			return b, "none"
		}
		for k := 0; k <= r.Intn(3); k++ {
			b[4+r.Intn(30)+188*r.Intn(2)] ^= byte(1 << uint(r.Intn(8)))
		}
		return b, "flip-tables"
	case 3: // PES header bytes of some packet
		if npk < 3 {
			return b, "none"
		}
		p := 188 * (2 + r.Intn(npk-2))
		for k := 0; k <= r.Intn(3); k++ {
			b[p+4+r.Intn(24)] ^= byte(1 << uint(r.Intn(8)))
		}
		return b, "flip-pes"
	case 4: // sync byte / PID of a packet
		if npk == 0 {
			return b, "none"
		}
		p := 188 * r.Intn(npk)
		b[p+r.Intn(4)] ^= byte(1 << uint(r.Intn(8)))
		return b, "flip-tshdr"
	case 5: // packet removed / duplicated / swapped
		if npk < 3 {
			return b, "none"
		}
		i := r.Intn(npk)
		switch r.Intn(3) {
		case 0:
			return append(append([]byte{}, b[:188*i]...), b[188*(i+1):]...), "drop-packet"
		case 1:
			return append(append(append([]byte{}, b[:188*(i+1)]...), b[188*i:188*(i+1)]...), b[188*(i+1):]...), "dup-packet"
		default:
			j := r.Intn(npk)
			tmp := append([]byte{}, b[188*i:188*(i+1)]...)
			copy(b[188*i:], b[188*j:188*(j+1)])
			copy(b[188*j:], tmp)
			return b, "swap-packets"
		}
	case 6: // random flips anywhere
		if len(b) == 0 {
			return b, "none"
		}
		for k := 0; k <= r.Intn(6); k++ {
			b[r.Intn(len(b))] ^= byte(1 << uint(r.Intn(8)))
		}
		return b, "flip"
	default: // tables stripped: the stream starts in the middle
		if npk < 3 {
			return b, "none"
		}
		return b[376:], "no-tables"
	}
}

// playlists ----------------------------------------------------------------------------------------------------

var rbCorpusCache [][]byte

// rbFuzzCorpus: the inputs of the repository's three fuzz targets (pkg/playlist/testdata/fuzz)
func rbFuzzCorpus() [][]byte {
	if rbCorpusCache != nil {
		return rbCorpusCache
	}
	root := os.Getenv("VERIF_REPO")
	if root == "" {
		root = "/repo"
	}
	dirs, _ := filepath.Glob(filepath.Join(root, "pkg", "playlist", "testdata", "fuzz", "*"))
	sort.Strings(dirs)
	for _, d := range dirs {
		files, _ := filepath.Glob(filepath.Join(d, "*"))
		sort.Strings(files)
		for _, f := range files {
			raw, err := os.ReadFile(f)
			if err != nil {
				continue
			}
			for _, l := range strings.Split(string(raw), "\n")[1:] {
				l = strings.TrimSpace(l)
				for _, pre := range []string{"[]byte(", "string("} {
					if strings.HasPrefix(l, pre) && strings.HasSuffix(l, ")") {
						if s, err := strconv.Unquote(l[len(pre) : len(l)-1]); err == nil {
							rbCorpusCache = append(rbCorpusCache, []byte(s))
						}
					}
				}
			}
		}
	}
	if rbCorpusCache == nil {
		rbCorpusCache = [][]byte{[]byte("#EXTM3U\n")}
	}
	return rbCorpusCache
}

var rbInsertTags = []string{
	"#EXT-X-BYTERANGE:10@0", "#EXT-X-BYTERANGE:18446744073709551615@18446744073709551615", "#EXT-X-GAP", "#EXT-X-DISCONTINUITY",
	"#EXT-X-KEY:METHOD=AES-128,URI=\"k\"", "#EXT-X-SKIP:SKIPPED-SEGMENTS=3", "#EXT-X-PART:DURATION=0.5,URI=\"p.mp4\"",
	"#EXT-X-PRELOAD-HINT:TYPE=PART,URI=\"p.mp4\"", "#EXT-X-SERVER-CONTROL:CAN-BLOCK-RELOAD=YES", "#EXT-X-SERVER-CONTROL:CAN-SKIP-UNTIL=6.0",
	"#EXT-X-MAP:URI=\"\"", "#EXT-X-MAP:URI=\"nowhere.mp4\"", "#EXT-X-MAP:URI=\"s0_init.mp4\",BYTERANGE=\"5@3\"", "#EXT-X-ENDLIST",
	"#EXT-X-PLAYLIST-TYPE:VOD", "#EXT-X-PLAYLIST-TYPE:EVENT", "#EXT-X-MEDIA-SEQUENCE:2147483647", "#EXT-X-MEDIA-SEQUENCE:0",
	"#EXT-X-TARGETDURATION:0", "#EXTINF:0.00001,", "#EXTINF:1e9,", "#EXT-X-PROGRAM-DATE-TIME:2020-01-01T00:00:00Z",
	"#EXT-X-STREAM-INF:BANDWIDTH=1,CODECS=\"avc1.1\"", "s0_f0.mp4", "s0_f0.ts", "http://verif.invalid/index.m3u8", "%zz", "", "#EXT-X-VERSION:11",
}

func rbMutatePlaylist(r *rand.Rand, in []byte) ([]byte, string) {
	switch r.Intn(12) {
	case 0:
		c := rbFuzzCorpus()
		return append([]byte{}, c[r.Intn(len(c))]...), "corpus"
	case 1:
		c := rbFuzzCorpus()
		b, l := rbMutatePlaylist(r, c[r.Intn(len(c))])
		return b, "corpus+" + l
	case 2:
		g := make([]byte, r.Intn(64))
		r.Read(g)
		return g, "random-bytes"
	case 3:
		if len(in) == 0 {
			return in, "none"
		}
		return append([]byte{}, in[:r.Intn(len(in))]...), "truncate"
	case 4:
		b := append([]byte{}, in...)
		if len(b) == 0 {
			return b, "none"
		}
		for k := 0; k <= r.Intn(3); k++ {
			b[r.Intn(len(b))] ^= byte(1 << uint(r.Intn(8)))
		}
		return b, "flip"
	}
	lines := strings.Split(string(in), "\n")
	n := len(lines)
	switch r.Intn(6) {
	case 0: // delete a line
		i := r.Intn(n)
		lines = append(lines[:i:i], lines[i+1:]...)
		return []byte(strings.Join(lines, "\n")), "del-line"
	case 1: // duplicate a line
		i := r.Intn(n)
		lines = append(lines[:i+1:i+1], lines[i:]...)
		return []byte(strings.Join(lines, "\n")), "dup-line"
	case 2: // swap two lines
		i, j := r.Intn(n), r.Intn(n)
		lines[i], lines[j] = lines[j], lines[i]
		return []byte(strings.Join(lines, "\n")), "swap-lines"
	case 3: // insert a tag / URI somewhere
		i := r.Intn(n)
		t := rbInsertTags[r.Intn(len(rbInsertTags))]
		lines = append(lines[:i:i], append([]string{t}, lines[i:]...)...)
		return []byte(strings.Join(lines, "\n")), "insert-line"
	case 4: // a number replaced
		i := r.Intn(n)
		vals := []string{"0", "-1", "18446744073709551616", "9223372036854775807", "4294967296", "1e308", "NaN", "", "0x10"}
		out := []byte(lines[i])
		for k := 0; k < len(out); k++ {
			if out[k] >= '0' && out[k] <= '9' {
				j := k
				for j < len(out) && (out[j] >= '0' && out[j] <= '9' || out[j] == '.') {
					j++
				}
				lines[i] = string(out[:k]) + vals[r.Intn(len(vals))] + string(out[j:])
				break
			}
		}
		return []byte(strings.Join(lines, "\n")), "number"
	default: // CRLF line ends / no final newline / leading blank
		s := strings.Join(lines, "\r\n")
		if r.Intn(2) == 0 {
			s = strings.TrimRight(s, "\r\n")
		}
		return []byte(s), "crlf"
	}
}
