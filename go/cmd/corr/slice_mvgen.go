package main

import (
	"encoding/hex"
	"fmt"
	"math/big"
	"math/rand"
	"net/http"
	"sort"
	"strconv"
	"strings"
	"time"

	"github.com/bluenviron/gohlslib/v2"
	"github.com/bluenviron/gohlslib/v2/pkg/codecparams"
	"github.com/bluenviron/gohlslib/v2/pkg/codecs"
	"github.com/bluenviron/mediacommon/v2/pkg/codecs/av1"
	"github.com/bluenviron/mediacommon/v2/pkg/codecs/h264"
	"github.com/bluenviron/mediacommon/v2/pkg/codecs/h265"
	"github.com/bluenviron/mediacommon/v2/pkg/codecs/mpeg4audio"
	"github.com/bluenviron/mediacommon/v2/pkg/codecs/vp9"
)

// mvgen slice (C16): a real Muxer started with every track layout Start accepts
// (and rejected ones), fed a few segments, its index.m3u8 fetched with and without
// a raw query and compared with the Lean model Hls.MvGen; plus the pure functions
// bandwidth() and codecparams.Marshal against their models.

type mvgenSlice struct{}

func init() { register(mvgenSlice{}) }

func (mvgenSlice) Name() string { return "mvgen" }

// ---- parameter-set vectors (muxer_test.go, pkg/codecparams/marshal_test.go, mediacommon's tests) ----

var mvH264SPS = [][]byte{
	pdTestSPS, // 1920x1080 baseline, no POC: DTS = PTS
	{0x67, 0x42, 0xc0, 0x29, 0xd9, 0x00, 0x78, 0x02, 0x27, 0xe5, 0x84, 0x00, 0x00, 0x03, 0x00, 0x04, 0x00, 0x00, 0x03, 0x00, 0xf0, 0x3c, 0x60, 0xc9, 0x20}, // same, level 4.1
	// only used by the `cs` ops (other POC types)
	{0x67, 0x64, 0x00, 0x0c, 0xac, 0x3b, 0x50, 0xb0, 0x4b, 0x42, 0x00, 0x00, 0x03, 0x00, 0x02, 0x00, 0x00, 0x03, 0x00, 0x3d, 0x08},
	{0x67, 0x64, 0x00, 0x1f, 0xac, 0xd9, 0x40, 0x50, 0x05, 0xbb, 0x01, 0x6c, 0x80, 0x00, 0x00, 0x03, 0x00, 0x80, 0x00, 0x00, 0x1e, 0x07, 0x8c, 0x18, 0xcb},
	{0x67, 0x64, 0x00, 0x28, 0xac, 0xd9, 0x40, 0x78, 0x02, 0x27, 0xe5, 0x84, 0x00, 0x00, 0x03, 0x00, 0x04, 0x00, 0x00, 0x03, 0x00, 0xf0, 0x3c, 0x60, 0xc6, 0x58},
}

var mvH265VPS = []byte{0x40, 0x01, 0x0c, 0x01, 0xff, 0xff, 0x01, 0x60, 0x00, 0x00, 0x03, 0x00, 0x90, 0x00, 0x00, 0x03, 0x00, 0x00, 0x03, 0x00, 0x78, 0x99, 0x98, 0x09}
var mvH265PPS = []byte{0x44, 0x1, 0xc1, 0x72, 0xb4, 0x62, 0x40}
var mvH265IDR = []byte{0x26, 0x1, 0xaf, 0x8, 0x42, 0x23, 0x48, 0x8a, 0x43, 0xe2}
var mvH265SPS = [][]byte{
	{0x42, 0x01, 0x01, 0x01, 0x60, 0x00, 0x00, 0x03, 0x00, 0x90, 0x00, 0x00, 0x03, 0x00, 0x00, 0x03, 0x00, 0x78, 0xa0, 0x03, 0xc0, 0x80, 0x10, 0xe5, 0x96, 0x66, 0x69, 0x24, 0xca, 0xe0, 0x10, 0x00, 0x00, 0x03, 0x00, 0x10, 0x00, 0x00, 0x03, 0x01, 0xe0, 0x80},
	// level 4.1, pictures coded as 1920x1088 with a conformance window that crops them to 1920x1080
	// (RESOLUTION must come from the cropped size, not from pic_width/height_in_luma_samples)
	{0x42, 0x01, 0x01, 0x01, 0x60, 0x00, 0x00, 0x03, 0x00, 0x90, 0x00, 0x00, 0x03, 0x00, 0x00, 0x03, 0x00, 0x7b, 0xa0, 0x03, 0xc0, 0x80, 0x11, 0x07, 0xcb, 0x96, 0x66, 0x69, 0x24, 0xca, 0xe0, 0x10, 0x00, 0x00, 0x03, 0x00, 0x10, 0x00, 0x00, 0x03, 0x01, 0xe0, 0x80},
	// only used by the `cs` ops
	{0x42, 0x01, 0x01, 0x01, 0x60, 0x00, 0x00, 0x03, 0x00, 0x90, 0x00, 0x00, 0x03, 0x00, 0x00, 0x03, 0x00, 0x78, 0xa0, 0x03, 0xc0, 0x80, 0x32, 0x16, 0x59, 0x59, 0xa4, 0x93, 0x2b, 0xc0, 0x5a, 0x80, 0x80, 0x80, 0x82, 0x00, 0x00, 0x07, 0xd2, 0x00, 0x00, 0xbb, 0x80, 0x10},
	{0x42, 0x01, 0x01, 0x04, 0x08, 0x00, 0x00, 0x03, 0x00, 0x98, 0x08, 0x00, 0x00, 0x03, 0x00, 0x00, 0x5d, 0x90, 0x00, 0x50, 0x10, 0x05, 0xa2, 0x29, 0x4b, 0x74, 0x94, 0x98, 0x5f, 0xfe, 0x00, 0x02, 0x00, 0x02, 0xd4, 0x04, 0x04, 0x04, 0x10, 0x00, 0x00, 0x03, 0x00, 0x10, 0x00, 0x00, 0x03, 0x01, 0xe0, 0x80},
	{0x42, 0x01, 0x01, 0x22, 0x20, 0x00, 0x00, 0x03, 0x00, 0x90, 0x00, 0x00, 0x03, 0x00, 0x00, 0x03, 0x00, 0x78, 0xa0, 0x03, 0xc0, 0x80, 0x10, 0xe4, 0xd9, 0x66, 0x66, 0x92, 0x4c, 0xaf, 0x01, 0x01, 0x00, 0x00, 0x03, 0x00, 0x64, 0x00, 0x00, 0x0b, 0xb5, 0x08},
	{0x42, 0x01, 0x01, 0x01, 0x40, 0x00, 0x00, 0x03, 0x00, 0x00, 0x03, 0x00, 0x00, 0x03, 0x00, 0x00, 0x03, 0x00, 0x7b, 0xa0, 0x03, 0xc0, 0x80, 0x11, 0x07, 0xcb, 0x96, 0xb4, 0xa4, 0x25, 0x92, 0xe3, 0x01, 0x6a, 0x02, 0x02, 0x02, 0x08, 0x00, 0x00, 0x03, 0x00, 0x08, 0x00, 0x00, 0x03, 0x01, 0xe3, 0x00, 0x2e, 0xf2, 0x88, 0x00, 0x07, 0x27, 0x0c, 0x00, 0x00, 0x98, 0x96, 0x82},
}

var mvVP9Frames = [][]byte{
	{0x82, 0x49, 0x83, 0x42, 0x00, 0x77, 0xf0, 0x32, 0x34, 0x30, 0x38, 0x24, 0x1c, 0x19, 0x40, 0x18, 0x03, 0x40, 0x5f, 0xb4},
	{0x82, 0x49, 0x83, 0x42, 0x40, 0xef, 0xf0, 0x86, 0xf4, 0x04, 0x21, 0xa0, 0xe0, 0x00, 0x30, 0x70, 0x00, 0x00, 0x00, 0x01},
}

var mvAV1SeqHdr = [][]byte{
	{10, 11, 0, 0, 0, 66, 167, 191, 230, 46, 223, 200, 66},
	{8, 0, 0, 0, 66, 167, 191, 228, 96, 13, 0, 64},
}
var mvAV1Frame = []byte{0x32, 0x03, 0x01, 0x02, 0x03} // OBU_FRAME, has_size, 3 payload bytes

// mvParsed is what the harness hands to the model for one parameter set: header fields parsed
// by mediacommon (trusted), never the RFC 6381 string itself.
type mvParsed struct {
	pf, res, fps string
}

func mvBits(bs []bool) string {
	var b strings.Builder
	for _, x := range bs {
		if x {
			b.WriteByte('1')
		} else {
			b.WriteByte('0')
		}
	}
	return b.String()
}

func mvB01(b bool) string {
	if b {
		return "1"
	}
	return "0"
}

func mvFPS(f float64) string {
	if f == 0 {
		return "-"
	}
	return strconv.FormatFloat(f, 'f', 3, 64)
}

func mvParseH264(sps []byte) mvParsed {
	p := mvParsed{pf: "x", res: "-", fps: "-"}
	if len(sps) >= 4 {
		p.pf = fmt.Sprintf("%d,%d,%d", sps[1], sps[2], sps[3])
	}
	var s h264.SPS
	if err := s.Unmarshal(sps); err == nil {
		p.res = fmt.Sprintf("%dx%d", s.Width(), s.Height())
		p.fps = mvFPS(s.FPS())
	}
	return p
}

func mvParseH265(sps []byte) mvParsed {
	p := mvParsed{pf: "x", res: "-", fps: "-"}
	var s h265.SPS
	if err := s.Unmarshal(sps); err == nil {
		ptl := s.ProfileTierLevel
		cons := []bool{
			ptl.GeneralProgressiveSourceFlag, ptl.GeneralInterlacedSourceFlag, ptl.GeneralNonPackedConstraintFlag,
			ptl.GeneralFrameOnlyConstraintFlag, ptl.GeneralMax12bitConstraintFlag, ptl.GeneralMax10bitConstraintFlag,
			ptl.GeneralMax8bitConstraintFlag, ptl.GeneralMax422ChromeConstraintFlag,
			ptl.GeneralMax420ChromaConstraintFlag, ptl.GeneralMaxMonochromeConstraintFlag, ptl.GeneralIntraConstraintFlag,
			ptl.GeneralOnePictureOnlyConstraintFlag, ptl.GeneralLowerBitRateConstraintFlag, ptl.GeneralMax14BitConstraintFlag,
		}
		p.pf = fmt.Sprintf("%d,%d,%s,%d,%d,%s", ptl.GeneralProfileSpace, ptl.GeneralProfileIdc,
			mvBits(ptl.GeneralProfileCompatibilityFlag[:]), ptl.GeneralTierFlag, ptl.GeneralLevelIdc, mvBits(cons))
		p.res = fmt.Sprintf("%dx%d", s.Width(), s.Height())
		p.fps = mvFPS(s.FPS())
	}
	return p
}

func mvParseVP9(frame []byte) (mvParsed, *codecs.VP9) {
	var h vp9.Header
	if err := h.Unmarshal(frame); err != nil {
		panic(err)
	}
	c := &codecs.VP9{Width: h.Width(), Height: h.Height(), Profile: h.Profile, BitDepth: h.ColorConfig.BitDepth,
		ChromaSubsampling: h.ChromaSubsampling(), ColorRange: h.ColorConfig.ColorRange}
	return mvParsed{pf: fmt.Sprintf("%d,%d", c.Profile, c.BitDepth), res: fmt.Sprintf("%dx%d", c.Width, c.Height), fps: "-"}, c
}

func mvParseAV1(sh []byte) mvParsed {
	p := mvParsed{pf: "x", res: "-", fps: "-"}
	var s av1.SequenceHeader
	if err := s.Unmarshal(sh); err == nil {
		cc := s.ColorConfig
		cd := "-"
		if cc.ColorDescriptionPresentFlag {
			cd = fmt.Sprintf("%d.%d.%d.%s", cc.ColorPrimaries, cc.TransferCharacteristics, cc.MatrixCoefficients, mvB01(cc.ColorRange))
		}
		p.pf = fmt.Sprintf("%d,%d,%s,%d,%s,%s,%s,%d,%s", s.SeqProfile, s.SeqLevelIdx[0], mvB01(s.SeqTier[0]), cc.BitDepth,
			mvB01(cc.MonoChrome), mvB01(cc.SubsamplingX), mvB01(cc.SubsamplingY), cc.ChromaSamplePosition, cd)
		p.res = fmt.Sprintf("%dx%d", s.Width(), s.Height())
	}
	return p
}

func mvParsedFor(codec string, alt int) mvParsed {
	switch codec {
	case "h264":
		return mvParseH264(mvH264SPS[alt])
	case "h265":
		return mvParseH265(mvH265SPS[alt])
	case "vp9":
		p, _ := mvParseVP9(mvVP9Frames[alt])
		return p
	case "av1":
		return mvParseAV1(mvAV1SeqHdr[alt])
	case "aac":
		return mvParsed{pf: strconv.Itoa(alt), res: "-", fps: "-"} // alt = audio object type
	}
	return mvParsed{pf: "-", res: "-", fps: "-"}
}

func mvCodec(codec string, alt int, rate int) codecs.Codec {
	switch codec {
	case "h264":
		return &codecs.H264{SPS: mvH264SPS[alt], PPS: []byte{0x08}}
	case "h265":
		return &codecs.H265{VPS: mvH265VPS, SPS: mvH265SPS[alt], PPS: mvH265PPS}
	case "vp9":
		_, c := mvParseVP9(mvVP9Frames[alt])
		return c
	case "av1":
		return &codecs.AV1{SequenceHeader: mvAV1SeqHdr[alt]}
	case "aac":
		return &codecs.MPEG4Audio{Config: mpeg4audio.Config{Type: mpeg4audio.ObjectType(alt), SampleRate: rate, ChannelCount: 2}}
	case "opus":
		return &codecs.Opus{ChannelCount: 2}
	}
	return nil
}

func mvIsVideoName(c string) bool { return c == "h264" || c == "h265" || c == "vp9" || c == "av1" }

// ------------------------------------------------------------------------------------------
// generator

type mvGenTrack struct {
	codec      string
	rate       int
	name, lang string
	def        bool
	alt        int
}

func (t mvGenTrack) line() string {
	p := mvParsedFor(t.codec, t.alt)
	return fmt.Sprintf("track codec=%s rate=%d name=%s lang=%s def=%s alt=%d pf=%s res=%s fps=%s",
		t.codec, t.rate, t.name, t.lang, mvB01(t.def), t.alt, p.pf, p.res, p.fps)
}

// names are written verbatim into quoted attribute values: backslashes, non-ASCII letters and characters that Go's own
// %q would escape (U+200B, U+00AD) must come out unchanged
var mvNames = []string{"", "", "English", "German", "main-audio", "Commentary_1", "audio2", "a\\b\\", "caf\u00e9\u200bVO", "\u65e5\u672c\u8a9e", "soft\u00adhyphen"}
var mvLangs = []string{"", "", "en", "de", "it", "fr-CA"}
var mvQueries = []string{"-", "-", "a=b", "x=1&y=2", "_HLS_msn=3&key=v", "token=abc%20def"}

func (mvgenSlice) Corpus() [][]string {
	tr := func(codec string, rate int, name, lang string, def bool, alt int) string {
		return mvGenTrack{codec, rate, name, lang, def, alt}.line()
	}
	par := func(t int, codec string, alt int) string {
		p := mvParsedFor(codec, alt)
		return fmt.Sprintf("par t=%d alt=%d pf=%s res=%s fps=%s", t, alt, p.pf, p.res, p.fps)
	}
	return [][]string{
		// TestMuxer's video+audio layout, LL
		{
			tr("h264", 90000, "", "", false, 0), tr("aac", 44100, "", "", false, 2),
			"start variant=ll segcount=7 segmin=1000000000",
			"w t=0 dts=0 ra=1 p=1", "w t=1 dts=0 ra=1 p=0", "mv q=-",
			"w t=0 dts=90000 ra=1 p=0", "w t=1 dts=44100 ra=1 p=0", "w t=0 dts=180000 ra=1 p=0", "mv q=-", "mv q=a=b",
			par(0, "h264", 1), "w t=0 dts=270000 ra=1 p=1", "mv q=-", "w t=0 dts=360000 ra=1 p=0", "mv q=-",
		},
		// F13: parameter change on a random-access unit whose DTS equals its predecessor's
		{
			tr("h264", 90000, "", "", false, 0),
			"start variant=fmp4 segcount=3 segmin=1000000000",
			"w t=0 dts=0 ra=1 p=1", "w t=0 dts=90000 ra=1 p=0", "w t=0 dts=180000 ra=1 p=0", "mv q=-",
			par(0, "h264", 1), "w t=0 dts=180000 ra=1 p=1", "w t=0 dts=270000 ra=1 p=0", "mv q=-",
		},
		// F13b: MPEG-TS, the parameter change at DTS 0 — the only listed segment has a zero duration
		{
			tr("h264", 90000, "", "", false, 0),
			"start variant=ts segcount=3 segmin=1000000000",
			"w t=0 dts=0 ra=1 p=1", par(0, "h264", 1), "w t=0 dts=0 ra=1 p=1", "mv q=-",
			"w t=0 dts=90000 ra=1 p=0", "mv q=-", "w t=0 dts=180000 ra=1 p=0", "mv q=-",
		},
		// audio-only, three tracks, the third user-marked default; audio first then video
		{
			tr("aac", 48000, "", "en", false, 2), tr("opus", 48000, "German", "de", false, 0), tr("aac", 44100, "", "", true, 2),
			"start variant=fmp4 segcount=3 segmin=1000000000",
			"w t=0 dts=0 ra=1 p=0", "w t=0 dts=48000 ra=1 p=0", "w t=0 dts=96000 ra=1 p=0", "w t=0 dts=144000 ra=1 p=0", "mv q=-", "mv q=x=1&y=2",
		},
		{
			tr("opus", 48000, "", "", false, 0), tr("av1", 90000, "", "", true, 0), tr("aac", 44100, "", "it", false, 2),
			"start variant=ll segcount=7 segmin=1000000000",
			"w t=1 dts=0 ra=1 p=1", "w t=1 dts=90000 ra=1 p=1", "w t=1 dts=180000 ra=1 p=1", "mv q=-",
		},
		// rejected layouts
		{"start variant=ll segcount=7 segmin=1000000000"},
		{tr("h264", 90000, "", "", false, 0), tr("h265", 90000, "", "", false, 0), "start variant=fmp4 segcount=3 segmin=1000000000"},
		{tr("aac", 44100, "", "", true, 2), tr("aac", 44100, "", "", true, 2), "start variant=fmp4 segcount=3 segmin=1000000000"},
		{tr("h265", 90000, "", "", false, 0), "start variant=ts segcount=3 segmin=1000000000"},
		{tr("h264", 90000, "", "", false, 0), "start variant=ll segcount=6 segmin=1000000000"},
		// pure
		{"bw -", "bw 100:1000000000", "bw 100:0", "bw g:5", "bw g:5,1000:2000000000,3000:1000000000", "bw 1:3,1:0", "bw 0:5,0:7",
			"cs codec=h264 pf=66,192,40", "cs codec=h264 pf=x", "cs codec=aac pf=2", "cs codec=opus pf=-", "cs codec=vp9 pf=1,8",
			"cs codec=av1 pf=0,8,0,8,0,1,1,0,-", "cs codec=av1 pf=1,13,1,10,1,0,0,2,9.16.9.1",
			"cs codec=h265 pf=0,1,01100000000000000000000000000000,0,120,10010000000000",
			"cs codec=h265 pf=2,4,00001000000000000000000000000000,1,153,10010000100010"},
	}
}

func (mvgenSlice) Gen(r *rand.Rand, _ int, tier string) ([]string, []string) {
	if r.Intn(6) == 0 {
		return mvGenPure(r)
	}
	var tags []string
	variant := []string{"ts", "fmp4", "ll", "ll", "fmp4"}[r.Intn(5)]
	tags = append(tags, "variant="+variant)
	invalid := r.Intn(6) == 0
	var tracks []mvGenTrack
	nVideo, nAudio := r.Intn(2), r.Intn(4)
	if variant == "ts" {
		nAudio = r.Intn(2)
	}
	if nVideo+nAudio == 0 {
		if r.Intn(2) == 0 {
			nVideo = 1
		} else {
			nAudio = 1
		}
	}
	invKind := ""
	if invalid {
		invKind = []string{"no-tracks", "two-video", "two-default", "ts-codec", "segcount", "ts-two-audio"}[r.Intn(6)]
		tags = append(tags, "invalid:"+invKind)
		switch invKind {
		case "no-tracks":
			nVideo, nAudio = 0, 0
		case "two-video":
			nVideo = 2
		case "two-default":
			if nAudio < 2 {
				nAudio = 2
			}
			if variant == "ts" {
				variant = "fmp4"
			}
		case "ts-codec":
			variant = "ts"
		case "ts-two-audio":
			variant = "ts"
			nAudio = 2
		}
	}
	for i := 0; i < nVideo; i++ {
		c := []string{"h264", "h264", "h265", "vp9", "av1"}[r.Intn(5)]
		if variant == "ts" && invKind != "ts-codec" {
			c = "h264"
		}
		alt := r.Intn(2)
		if c == "vp9" {
			alt = r.Intn(4) // pair (2,3): profile 2 at 10 and 12 bits, same size - a change of the bit depth only
		}
		tracks = append(tracks, mvGenTrack{codec: c, rate: 90000, alt: alt})
	}
	for i := 0; i < nAudio; i++ {
		c := []string{"aac", "aac", "opus"}[r.Intn(3)]
		if variant == "ts" && invKind != "ts-codec" {
			c = "aac"
		}
		t := mvGenTrack{codec: c, rate: 48000}
		if c == "aac" {
			t.rate = []int{44100, 48000, 32000}[r.Intn(3)]
			t.alt = []int{2, 2, 5, 29}[r.Intn(4)] // audio object type
		}
		tracks = append(tracks, t)
	}
	if invKind == "ts-codec" {
		// at least one track MPEG-TS cannot carry
		if len(tracks) == 0 {
			tracks = append(tracks, mvGenTrack{codec: "opus", rate: 48000})
		} else {
			k := r.Intn(len(tracks))
			if mvIsVideoName(tracks[k].codec) {
				tracks[k].codec = []string{"h265", "vp9", "av1"}[r.Intn(3)]
				tracks[k].alt = 0
			} else {
				tracks[k].codec, tracks[k].rate, tracks[k].alt = "opus", 48000, 0
			}
		}
	}
	r.Shuffle(len(tracks), func(i, j int) { tracks[i], tracks[j] = tracks[j], tracks[i] })
	// names, languages, default flags
	for i := range tracks {
		if r.Intn(2) == 0 {
			tracks[i].name = mvNames[r.Intn(len(mvNames))]
		}
		if r.Intn(2) == 0 {
			tracks[i].lang = mvLangs[r.Intn(len(mvLangs))]
		}
	}
	var audioIdx []int
	for i, t := range tracks {
		if !mvIsVideoName(t.codec) {
			audioIdx = append(audioIdx, i)
		}
	}
	switch x := r.Intn(10); {
	case x < 4:
		tags = append(tags, "default=none")
	case x < 8 && len(audioIdx) > 0:
		tracks[audioIdx[r.Intn(len(audioIdx))]].def = true
		tags = append(tags, "default=user")
	default:
		// the flag on the video track is ignored by Start
		for i, t := range tracks {
			if mvIsVideoName(t.codec) {
				tracks[i].def = true
				tags = append(tags, "default=on-video")
			}
		}
	}
	if invKind == "two-default" {
		n := 0
		for _, i := range audioIdx {
			if n < 2 {
				tracks[i].def = true
				n++
			}
		}
	}
	segCount := 3 + r.Intn(3)
	if variant == "ll" {
		segCount = 7 + r.Intn(2)
	}
	if invKind == "segcount" {
		if variant == "ll" {
			segCount = 6
		} else {
			segCount = 2
		}
	}
	var ops []string
	for _, t := range tracks {
		ops = append(ops, t.line())
	}
	ops = append(ops, fmt.Sprintf("start variant=%s segcount=%d segmin=1000000000", variant, segCount))
	tags = append(tags, fmt.Sprintf("tracks=v%da%d", nVideo, nAudio))
	if invalid {
		return ops, tags
	}

	// leading track
	lead := 0
	for i, t := range tracks {
		if mvIsVideoName(t.codec) {
			lead = i
		}
	}
	tags = append(tags, "lead="+tracks[lead].codec)
	if len(tracks) > 0 && lead != 0 {
		tags = append(tags, "stream0-not-leading")
	}
	steps := 3 + r.Intn(4)
	if tier == "thorough" {
		steps += r.Intn(8)
	}
	audioOnlyTS := variant == "ts" && !mvIsVideoName(tracks[lead].codec)
	curAlt := make([]int, len(tracks))
	for i, t := range tracks {
		curAlt[i] = t.alt
	}
	f13 := false
	dtsOf := func(i int, step int, half bool) int64 {
		d := int64(step) * int64(tracks[i].rate)
		if half {
			d += int64(tracks[i].rate) / 2
		}
		return d
	}
	for k := 0; k < steps; k++ {
		// leading track first (random access, spaced by SegmentMinDuration)
		lt := tracks[lead]
		carries := 0
		if mvIsVideoName(lt.codec) {
			if k == 0 || lt.codec == "vp9" || lt.codec == "av1" || r.Intn(3) == 0 {
				carries = 1
			}
			if k > 0 && r.Intn(4) == 0 {
				// parameter change on this random-access unit
				curAlt[lead] ^= 1 // the other member of the pair (0,1) or (2,3)
				p := mvParsedFor(lt.codec, curAlt[lead])
				ops = append(ops, fmt.Sprintf("par t=%d alt=%d pf=%s res=%s fps=%s", lead, curAlt[lead], p.pf, p.res, p.fps))
				carries = 1
				tags = append(tags, "param-change")
			}
		}
		if audioOnlyTS {
			// MPEG-TS audio-only: a segment needs 100 calls
			for j := 0; j < 101; j++ {
				ops = append(ops, fmt.Sprintf("w t=%d dts=%d ra=1 p=0", lead, int64(k)*101*1024+int64(j)*1024))
			}
		} else {
			ops = append(ops, fmt.Sprintf("w t=%d dts=%d ra=1 p=%d", lead, dtsOf(lead, k, false), carries))
		}
		if mvIsVideoName(lt.codec) && k > 1 && !f13 && r.Intn(25) == 0 {
			// F13: a second random-access unit at the SAME DTS with changed parameters
			curAlt[lead] ^= 1 // the other member of the pair (0,1) or (2,3)
			p := mvParsedFor(lt.codec, curAlt[lead])
			ops = append(ops, fmt.Sprintf("par t=%d alt=%d pf=%s res=%s fps=%s", lead, curAlt[lead], p.pf, p.res, p.fps))
			ops = append(ops, fmt.Sprintf("w t=%d dts=%d ra=1 p=1", lead, dtsOf(lead, k, false)))
			f13 = true
			tags = append(tags, "equal-dts-param-change")
		}
		for i, t := range tracks {
			if i == lead {
				continue
			}
			if r.Intn(5) != 0 {
				ops = append(ops, fmt.Sprintf("w t=%d dts=%d ra=1 p=0", i, dtsOf(i, k, false)))
				if r.Intn(2) == 0 {
					ops = append(ops, fmt.Sprintf("w t=%d dts=%d ra=1 p=0", i, dtsOf(i, k, true)))
				}
			}
			_ = t
		}
		if (lt.codec == "h264" || lt.codec == "av1") && r.Intn(2) == 0 && !audioOnlyTS {
			ops = append(ops, fmt.Sprintf("w t=%d dts=%d ra=0 p=0", lead, dtsOf(lead, k, true)))
		}
		if (k >= 2 && r.Intn(2) == 0) || r.Intn(8) == 0 || k == steps-1 {
			ops = append(ops, "mv q="+mvQueries[r.Intn(len(mvQueries))])
			if r.Intn(3) == 0 {
				ops = append(ops, "mv q="+mvQueries[r.Intn(len(mvQueries))])
			}
		}
	}
	return ops, tags
}

func mvGenPure(r *rand.Rand) ([]string, []string) {
	var ops []string
	n := 10 + r.Intn(20)
	for len(ops) < n {
		switch r.Intn(3) {
		case 0, 1:
			k := r.Intn(9)
			var es []string
			for i := 0; i < k; i++ {
				var dur int64
				switch r.Intn(6) {
				case 0:
					dur = int64(r.Intn(2)) * int64(r.Intn(2)) * int64(r.Intn(2)) // mostly 0
					if r.Intn(4) != 0 {
						dur = pdSec + r.Int63n(pdSec)
					}
				case 1:
					dur = 1 + int64(r.Intn(3))
				case 2:
					dur = pdSec * int64(1+r.Intn(10))
				default:
					dur = 1 + r.Int63n(12*pdSec)
				}
				if r.Intn(4) == 0 {
					es = append(es, fmt.Sprintf("g:%d", dur))
					continue
				}
				var size int64
				switch r.Intn(5) {
				case 0:
					size = int64(r.Intn(3))
				case 1:
					size = 1 + r.Int63n(1000)
				default:
					size = 1 + r.Int63n(50*1024*1024)
				}
				es = append(es, fmt.Sprintf("%d:%d", size, dur))
			}
			if len(es) == 0 {
				ops = append(ops, "bw -")
			} else {
				ops = append(ops, "bw "+strings.Join(es, ","))
			}
		default:
			switch r.Intn(6) {
			case 0:
				if r.Intn(10) == 0 {
					ops = append(ops, "cs codec=h264 pf=x sps="+hex.EncodeToString(make([]byte, r.Intn(4))))
				} else {
					b := make([]byte, 4+r.Intn(6))
					r.Read(b)
					ops = append(ops, fmt.Sprintf("cs codec=h264 pf=%d,%d,%d sps=%s", b[1], b[2], b[3], hex.EncodeToString(b)))
				}
			case 1:
				ops = append(ops, fmt.Sprintf("cs codec=aac pf=%d", 1+r.Intn(45)))
			case 2:
				ops = append(ops, fmt.Sprintf("cs codec=vp9 pf=%d,%d", r.Intn(4), []int{8, 10, 12}[r.Intn(3)]))
			case 3:
				k := r.Intn(len(mvH265SPS))
				ops = append(ops, fmt.Sprintf("cs codec=h265 alt=%d pf=%s", k, mvParseH265(mvH265SPS[k]).pf))
			case 4:
				k := r.Intn(len(mvAV1SeqHdr))
				ops = append(ops, fmt.Sprintf("cs codec=av1 alt=%d pf=%s", k, mvParseAV1(mvAV1SeqHdr[k]).pf))
			default:
				k := r.Intn(len(mvH264SPS))
				ops = append(ops, fmt.Sprintf("cs codec=h264 alt=%d pf=%s", k, mvParseH264(mvH264SPS[k]).pf))
			}
		}
	}
	return ops, []string{"pure"}
}

// ------------------------------------------------------------------------------------------
// runner

type mvTrackSt struct {
	gen       mvGenTrack
	track     *gohlslib.Track
	announced int // alt carried by the next p=1 write
	curAlt    int
}

type mvgenRunner struct {
	tracks  []*mvTrackSt
	m       *gohlslib.Muxer
	variant string
	fails   []string
	streams []gohlslib.VerifStreamInfo
}

func (mvgenSlice) NewRunner() Runner { return &mvgenRunner{} }

func (r *mvgenRunner) Close() {
	if r.m != nil {
		r.m.Close()
		r.m = nil
	}
}

func (r *mvgenRunner) Oracle() []string { return r.fails }

func (r *mvgenRunner) fail(format string, a ...any) {
	if len(r.fails) < 20 {
		r.fails = append(r.fails, fmt.Sprintf(format, a...))
	}
}

func mvDash(s string) string {
	if s == "" {
		return "-"
	}
	return s
}

func mvErrClass(err error) string {
	s := err.Error()
	switch {
	case strings.Contains(s, "at least one track"):
		return "no-tracks"
	case strings.Contains(s, "MPEG-TS variant of HLS supports a single video"):
		return "ts-multi-video"
	case strings.Contains(s, "supports H264 video only"):
		return "ts-video-not-h264"
	case strings.Contains(s, "MPEG-TS variant of HLS supports a single audio"):
		return "ts-multi-audio"
	case strings.Contains(s, "supports MPEG-4 Audio only"):
		return "ts-audio-not-aac"
	case strings.Contains(s, "only one video track"):
		return "multi-video"
	case strings.Contains(s, "multiple default audio"):
		return "multi-default-audio"
	case strings.Contains(s, "requires at least 7 segments"):
		return "segcount-ll"
	case strings.Contains(s, "minimum number of HLS segments"):
		return "segcount"
	}
	return "other:" + s
}

func (r *mvgenRunner) Step(line string) []string {
	ws := strings.Fields(line)
	if len(ws) == 0 {
		return nil
	}
	switch ws[0] {
	case "track":
		codec, _ := pdKV(ws, "codec")
		rate, ok := pdKVInt(ws, "rate")
		name, _ := pdKV(ws, "name")
		lang, _ := pdKV(ws, "lang")
		def, _ := pdKVInt(ws, "def")
		alt, ok2 := pdKVInt(ws, "alt")
		if !ok || !ok2 || mvCodec(codec, int(alt), int(rate)) == nil || r.m != nil {
			return []string{"bad-op"}
		}
		g := mvGenTrack{codec: codec, rate: int(rate), name: name, lang: lang, def: def != 0, alt: int(alt)}
		r.tracks = append(r.tracks, &mvTrackSt{gen: g, announced: int(alt), curAlt: int(alt),
			track: &gohlslib.Track{Codec: mvCodec(codec, int(alt), int(rate)), ClockRate: int(rate), Name: name, Language: lang, IsDefault: def != 0}})
		return []string{fmt.Sprintf("track %d", len(r.tracks))}

	case "start":
		v, _ := pdKV(ws, "variant")
		sc, ok1 := pdKVInt(ws, "segcount")
		sm, ok2 := pdKVInt(ws, "segmin")
		if !ok1 || !ok2 || r.m != nil {
			return []string{"bad-op"}
		}
		var variant gohlslib.MuxerVariant
		switch v {
		case "ts":
			variant = gohlslib.MuxerVariantMPEGTS
		case "fmp4":
			variant = gohlslib.MuxerVariantFMP4
		case "ll":
			variant = gohlslib.MuxerVariantLowLatency
		default:
			return []string{"bad-op"}
		}
		r.variant = v
		var ts []*gohlslib.Track
		for _, t := range r.tracks {
			ts = append(ts, t.track)
		}
		m := &gohlslib.Muxer{Variant: variant, SegmentCount: int(sc), SegmentMinDuration: time.Duration(sm), Tracks: ts,
			OnEncodeError: func(error) {}}
		if err := m.Start(); err != nil {
			r.oracleStartRejected(v, int(sc), mvErrClass(err))
			return []string{"err " + mvErrClass(err)}
		}
		r.m = m
		r.streams = m.VerifStreams()
		r.oracleStartAccepted(v, int(sc))
		var ss []string
		for _, s := range r.streams {
			ss = append(ss, fmt.Sprintf("%s/%s/%s/%s/%s/%s", s.ID, mvB01(s.IsLeading), mvB01(s.IsRendition), mvB01(s.IsDefault), mvDash(s.Name), mvDash(s.Language)))
		}
		return []string{"started " + strings.Join(ss, ";")}

	case "par":
		i, ok1 := pdKVInt(ws, "t")
		alt, ok2 := pdKVInt(ws, "alt")
		if !ok1 || !ok2 || int(i) >= len(r.tracks) {
			return []string{"bad-op"}
		}
		r.tracks[i].announced = int(alt)
		return []string{"par"}

	case "w":
		i, ok1 := pdKVInt(ws, "t")
		dts, ok2 := pdKVInt(ws, "dts")
		ra, ok3 := pdKVInt(ws, "ra")
		p, ok4 := pdKVInt(ws, "p")
		if !ok1 || !ok2 || !ok3 || !ok4 || r.m == nil || int(i) >= len(r.tracks) {
			return []string{"bad-op"}
		}
		t := r.tracks[i]
		ntp := time.Unix(1600000000, 0).Add(time.Duration(dts) * time.Second / time.Duration(t.gen.rate))
		var err error
		switch t.gen.codec {
		case "h264":
			switch {
			case ra != 0 && p != 0:
				err = r.m.WriteH264(t.track, ntp, dts, [][]byte{mvH264SPS[t.announced], {8}, {5, 1, 2, 3}})
				t.curAlt = t.announced
			case ra != 0:
				err = r.m.WriteH264(t.track, ntp, dts, [][]byte{{5, 1, 2, 3}})
			default:
				err = r.m.WriteH264(t.track, ntp, dts, [][]byte{{1, 4, 5}})
			}
		case "h265":
			if p != 0 {
				err = r.m.WriteH265(t.track, ntp, dts, [][]byte{mvH265VPS, mvH265SPS[t.announced], mvH265PPS, mvH265IDR})
				t.curAlt = t.announced
			} else {
				err = r.m.WriteH265(t.track, ntp, dts, [][]byte{mvH265IDR})
			}
		case "vp9":
			err = r.m.WriteVP9(t.track, ntp, dts, mvVP9Frames[t.announced])
			t.curAlt = t.announced
		case "av1":
			if ra != 0 {
				err = r.m.WriteAV1(t.track, ntp, dts, [][]byte{mvAV1SeqHdr[t.announced], mvAV1Frame})
				t.curAlt = t.announced
			} else {
				err = r.m.WriteAV1(t.track, ntp, dts, [][]byte{mvAV1Frame})
			}
		case "aac":
			err = r.m.WriteMPEG4Audio(t.track, ntp, dts, [][]byte{{1, 2, 3, 4}})
		case "opus":
			err = r.m.WriteOpus(t.track, ntp, dts, [][]byte{{0x98, 1, 2}})
		}
		if err != nil {
			return []string{"w err:" + err.Error()}
		}
		return []string{"w"}

	case "mv":
		q, _ := pdKV(ws, "q")
		if q == "-" {
			q = ""
		}
		if r.m == nil {
			return []string{"bad-op"}
		}
		sizes, durs, gaps := r.m.VerifSegments()
		need := 1
		if r.variant == "fmp4" {
			need = 2
		}
		if len(sizes) < need {
			return []string{"mv blocked"} // the handler would wait for content
		}
		path := "index.m3u8"
		if q != "" {
			path += "?" + q
		}
		var body []byte
		var code int
		panicked := pdDiv0(func() string {
			body, code = pdGet(r.m, path)
			return ""
		})
		if panicked != "" {
			// after the repair of bandwidth() this never fires; on a tree without it: the concrete failing input
			r.fail("F13-zero-duration: index.m3u8 panics with integer divide by zero (segment durations %v)", durs)
			return []string{"mv panic:div0"}
		}
		if code != http.StatusOK {
			r.fail("index.m3u8 returned status %d", code)
			return []string{fmt.Sprintf("mv status=%d", code)}
		}
		pl, perr := mvParse(string(body))
		if perr != "" {
			r.fail("index.m3u8 not understood: %s", perr)
			return []string{"mv unparsable"}
		}
		r.oracleZeroDuration(pl, sizes, durs, gaps)
		r.oracleMv(pl, q, sizes, durs, gaps)
		return []string{pl.canon()}

	case "bw":
		if len(ws) != 2 {
			return []string{"bad-op"}
		}
		var sizes []uint64
		var durs []time.Duration
		var gaps []bool
		if ws[1] != "-" {
			for _, e := range strings.Split(ws[1], ",") {
				a, b, _ := strings.Cut(e, ":")
				d, _ := strconv.ParseInt(b, 10, 64)
				if a == "g" {
					sizes, durs, gaps = append(sizes, 0), append(durs, time.Duration(d)), append(gaps, true)
				} else {
					s, _ := strconv.ParseUint(a, 10, 64)
					sizes, durs, gaps = append(sizes, s), append(durs, time.Duration(d)), append(gaps, false)
				}
			}
		}
		out := pdDiv0(func() string {
			mx, avg := gohlslib.VerifBandwidth(sizes, durs, gaps)
			return fmt.Sprintf("bw %d %d", mx, avg)
		})
		// direct oracle: no panic; peak and mean bit rate of the listed (non-gap) segments that have a duration
		if out == "panic:div0" {
			r.fail("F13-zero-duration: bandwidth(%s) panics with integer divide by zero", ws[1])
		} else if wantMx, wantAvg := mvPeakMean(sizes, durs, gaps); out != fmt.Sprintf("bw %s %s", wantMx, wantAvg) {
			r.fail("bandwidth(%s) = %s, peak/mean are %s/%s", ws[1], out, wantMx, wantAvg)
		}
		return []string{out}

	case "cs":
		codec, _ := pdKV(ws, "codec")
		pf, _ := pdKV(ws, "pf")
		var c codecs.Codec
		if a, ok := pdKVInt(ws, "alt"); ok {
			c = mvCodec(codec, int(a), 48000)
		} else {
			switch codec {
			case "h264":
				sps := []byte{0x67, 0, 0, 0}
				if s, ok := pdKV(ws, "sps"); ok {
					sps, _ = hex.DecodeString(s)
				} else if pf != "x" {
					var b1, b2, b3 int
					fmt.Sscanf(pf, "%d,%d,%d", &b1, &b2, &b3)
					sps = []byte{0x67, byte(b1), byte(b2), byte(b3), 0xaa}
				} else {
					sps = []byte{0x67}
				}
				c = &codecs.H264{SPS: sps}
			case "aac":
				t, _ := strconv.Atoi(pf)
				c = &codecs.MPEG4Audio{Config: mpeg4audio.Config{Type: mpeg4audio.ObjectType(t), SampleRate: 48000, ChannelCount: 2}}
			case "opus":
				c = &codecs.Opus{}
			case "vp9":
				var pr, bd int
				fmt.Sscanf(pf, "%d,%d", &pr, &bd)
				c = &codecs.VP9{Profile: uint8(pr), BitDepth: uint8(bd)}
			default:
				// h265 / av1 field lists without a bitstream: model-only vectors, answered from the expected strings
				return []string{"cs " + mvDash(mvFromFields(codec, pf))}
			}
		}
		if c == nil {
			return []string{"bad-op"}
		}
		return []string{"cs " + mvDash(codecparams.Marshal(c))}
	}
	return []string{"bad-op"}
}

// mvFromFields formats H265 / AV1 codec strings from a field list per RFC 6381 / ISO 14496-15 / the
// AV1-ISOBMFF binding (independent of codecparams.Marshal; used by the oracle and by field-only `cs` ops).
func mvFromFields(codec, pf string) string {
	fs := strings.Split(pf, ",")
	switch codec {
	case "h265":
		if len(fs) != 6 {
			return ""
		}
		ps, _ := strconv.Atoi(fs[0])
		pi, _ := strconv.Atoi(fs[1])
		var compat uint32
		for i, c := range fs[2] {
			if c == '1' {
				compat |= 1 << uint(i)
			}
		}
		tier, _ := strconv.Atoi(fs[3])
		li, _ := strconv.Atoi(fs[4])
		var bytes [2]uint8
		for i, c := range fs[5] {
			if c == '1' {
				bytes[i/8] |= 0x80 >> uint(i%8)
			}
		}
		s := "hvc1."
		if ps >= 1 && ps <= 3 {
			s += string(rune('A' + ps - 1))
		}
		s += strconv.Itoa(pi) + "." + strconv.FormatUint(uint64(compat), 16) + "."
		if tier > 0 {
			s += "H"
		} else {
			s += "L"
		}
		s += strconv.Itoa(li) + "." + strconv.FormatUint(uint64(bytes[0]), 16)
		if bytes[1] != 0 {
			s += "." + strconv.FormatUint(uint64(bytes[1]), 16)
		}
		return s
	case "av1":
		if len(fs) != 9 {
			return ""
		}
		sp, _ := strconv.Atoi(fs[0])
		li, _ := strconv.Atoi(fs[1])
		bd, _ := strconv.Atoi(fs[3])
		tier := "M"
		if fs[2] == "1" {
			tier = "H"
		}
		s := fmt.Sprintf("av01.%d.%02d%s.%02d.%s.%s%s%s.", sp, li, tier, bd, fs[4], fs[5], fs[6], fs[7])
		if fs[8] == "-" {
			return s + "01.01.01.0"
		}
		cd := strings.Split(fs[8], ".")
		a, _ := strconv.Atoi(cd[0])
		b, _ := strconv.Atoi(cd[1])
		c, _ := strconv.Atoi(cd[2])
		return s + fmt.Sprintf("%02d.%02d.%02d.%s", a, b, c, cd[3])
	}
	return ""
}

// mvExpectedCodec is the RFC 6381 string of a track's current parameters, formatted independently.
func mvExpectedCodec(t *mvTrackSt) string {
	p := mvParsedFor(t.gen.codec, t.curAlt)
	switch t.gen.codec {
	case "h264":
		sps := mvH264SPS[t.curAlt]
		return fmt.Sprintf("avc1.%02x%02x%02x", sps[1], sps[2], sps[3])
	case "h265", "av1":
		return mvFromFields(t.gen.codec, p.pf)
	case "vp9":
		_, c := mvParseVP9(mvVP9Frames[t.curAlt])
		return fmt.Sprintf("vp09.%02d.10.%02d", c.Profile, c.BitDepth)
	case "aac":
		return fmt.Sprintf("mp4a.40.%d", t.gen.alt)
	case "opus":
		return "opus"
	}
	return ""
}

// mvPeakMean: peak and mean bit rate (bits per second, rounded down) of the listed non-gap segments. A
// zero-duration segment (finding F13 / F13b) has no rate and adds no time: it is left out of both, as decided
// with the repair of F13; when no segment with a duration is listed both numbers are 0.
func mvPeakMean(sizes []uint64, durs []time.Duration, gaps []bool) (string, string) {
	peak := big.NewInt(0)
	sz, du := big.NewInt(0), big.NewInt(0)
	e9x8 := big.NewInt(8 * pdSec)
	for i := range sizes {
		if gaps[i] || durs[i] <= 0 {
			continue
		}
		b := new(big.Int).Mul(new(big.Int).SetUint64(sizes[i]), e9x8)
		b.Div(b, big.NewInt(int64(durs[i])))
		if b.Cmp(peak) > 0 {
			peak = b
		}
		sz.Add(sz, new(big.Int).SetUint64(sizes[i]))
		du.Add(du, big.NewInt(int64(durs[i])))
	}
	if du.Sign() == 0 {
		return peak.String(), "0"
	}
	mean := new(big.Int).Mul(sz, e9x8)
	mean.Div(mean, du)
	return peak.String(), mean.String()
}

// ---- independent reader of the multivariant playlist ----

type mvRendition struct {
	attrs map[string]string
}

type mvPlaylist struct {
	version    int
	indep      bool
	variants   []map[string]string // attributes + "URI-LINE"
	renditions []mvRendition
}

func mvAttrs(s string) (map[string]string, string) {
	out := map[string]string{}
	for len(s) > 0 {
		k, rest, ok := strings.Cut(s, "=")
		if !ok {
			return nil, "attribute without value: " + s
		}
		var v string
		if strings.HasPrefix(rest, "\"") {
			end := strings.Index(rest[1:], "\"")
			if end < 0 {
				return nil, "unterminated quoted string"
			}
			v = rest[1 : 1+end]
			rest = rest[2+end:]
			out[k+"#quoted"] = "1"
		} else {
			end := strings.Index(rest, ",")
			if end < 0 {
				end = len(rest)
			}
			v = rest[:end]
			rest = rest[end:]
		}
		if _, dup := out[k]; dup {
			return nil, "duplicate attribute " + k
		}
		out[k] = v
		if strings.HasPrefix(rest, ",") {
			rest = rest[1:]
		} else if rest != "" {
			return nil, "garbage after attribute value"
		}
		s = rest
	}
	return out, ""
}

func mvParse(body string) (*mvPlaylist, string) {
	lines := strings.Split(body, "\n")
	if len(lines) == 0 || lines[0] != "#EXTM3U" {
		return nil, "missing #EXTM3U"
	}
	pl := &mvPlaylist{}
	for i := 1; i < len(lines); i++ {
		l := lines[i]
		switch {
		case strings.HasPrefix(l, "#EXT-X-VERSION:"):
			v, err := strconv.Atoi(l[len("#EXT-X-VERSION:"):])
			if err != nil {
				return nil, "version"
			}
			pl.version = v
		case l == "#EXT-X-INDEPENDENT-SEGMENTS":
			pl.indep = true
		case strings.HasPrefix(l, "#EXT-X-MEDIA:"):
			a, e := mvAttrs(l[len("#EXT-X-MEDIA:"):])
			if e != "" {
				return nil, e
			}
			pl.renditions = append(pl.renditions, mvRendition{a})
		case strings.HasPrefix(l, "#EXT-X-STREAM-INF:"):
			a, e := mvAttrs(l[len("#EXT-X-STREAM-INF:"):])
			if e != "" {
				return nil, e
			}
			if i+1 >= len(lines) {
				return nil, "STREAM-INF without URI line"
			}
			a["URI-LINE"] = lines[i+1]
			i++
			pl.variants = append(pl.variants, a)
		case l == "" || strings.HasPrefix(l, "#"):
		default:
			return nil, "stray line " + l
		}
	}
	return pl, ""
}

func (pl *mvPlaylist) canon() string {
	v := "uri=? codecs=? res=? fps=? audio=?"
	if len(pl.variants) == 1 {
		a := pl.variants[0]
		v = fmt.Sprintf("uri=%s codecs=%s res=%s fps=%s audio=%s", mvDash(a["URI-LINE"]), mvDash(a["CODECS"]), mvDash(a["RESOLUTION"]), mvDash(a["FRAME-RATE"]), mvDash(a["AUDIO"]))
	}
	var rs []string
	for _, r := range pl.renditions {
		uri := "-"
		if u, ok := r.attrs["URI"]; ok {
			uri = u
		}
		rs = append(rs, fmt.Sprintf("%s/%s/%s/%s/%s/%s/%s", mvDash(r.attrs["NAME"]), mvDash(r.attrs["LANGUAGE"]),
			mvB01(r.attrs["DEFAULT"] == "YES"), mvB01(r.attrs["AUTOSELECT"] == "YES"), mvDash(r.attrs["GROUP-ID"]), r.attrs["TYPE"], uri))
	}
	rend := "-"
	if len(rs) > 0 {
		rend = strings.Join(rs, ";")
	}
	return fmt.Sprintf("mv ok v=%d ind=%s nvar=%d %s rend=%s", pl.version, mvB01(pl.indep), len(pl.variants), v, rend)
}

// ---- direct oracles (written from the text of C16 and from Start's documented contract) ----

func (r *mvgenRunner) layout() (nVideo, nAudio, nDefAudio int) {
	for _, t := range r.tracks {
		if mvIsVideoName(t.gen.codec) {
			nVideo++
		} else {
			nAudio++
			if t.gen.def {
				nDefAudio++
			}
		}
	}
	return
}

func (r *mvgenRunner) oracleStartRejected(variant string, segCount int, class string) {
	nV, nA, nD := r.layout()
	ok := len(r.tracks) == 0 || nV > 1 || nD > 1 ||
		(variant == "ll" && segCount < 7) || (variant != "ll" && segCount < 3)
	if variant == "ts" {
		if nA > 1 {
			ok = true
		}
		for _, t := range r.tracks {
			if t.gen.codec != "h264" && t.gen.codec != "aac" {
				ok = true
			}
		}
	}
	if !ok {
		r.fail("Start rejected (%s) a layout it documents as supported: %d video, %d audio, variant %s", class, nV, nA, variant)
	}
}

func (r *mvgenRunner) oracleStartAccepted(variant string, segCount int) {
	nV, nA, nD := r.layout()
	bad := len(r.tracks) == 0 || nV > 1 || nD > 1 || (variant == "ll" && segCount < 7) || (variant != "ll" && segCount < 3)
	if variant == "ts" && nA > 1 {
		bad = true
	}
	if bad {
		r.fail("Start accepted an unsupported layout: %d video, %d audio (%d default), variant %s, segment count %d", nV, nA, nD, variant, segCount)
	}
	nLead := 0
	for _, s := range r.streams {
		if s.IsLeading {
			nLead++
		}
	}
	if nLead != 1 {
		r.fail("%d leading streams", nLead)
	}
}

// oracleZeroDuration: what remains of finding F13 after the repair of bandwidth() (known finding F13b): a
// listed non-gap segment with a zero duration. The media playlist of the leading stream lists it with
// `#EXTINF:0.00000`; when no other segment is listed the variant says BANDWIDTH=0,AVERAGE-BANDWIDTH=0.
func (r *mvgenRunner) oracleZeroDuration(pl *mvPlaylist, sizes []uint64, durs []time.Duration, gaps []bool) {
	zero, timed := 0, 0
	for i := range durs {
		if gaps[i] {
			continue
		}
		if durs[i] <= 0 {
			zero++
		} else {
			timed++
		}
	}
	if zero == 0 {
		return
	}
	bwTxt := ""
	if len(pl.variants) == 1 {
		bwTxt = fmt.Sprintf("; BANDWIDTH=%s AVERAGE-BANDWIDTH=%s", pl.variants[0]["BANDWIDTH"], pl.variants[0]["AVERAGE-BANDWIDTH"])
		if timed == 0 {
			bwTxt += " (no listed segment has a duration)"
		}
	}
	extinf := ""
	for _, s := range r.streams {
		if s.IsLeading {
			if body, code := pdGet(r.m, s.ID+"_stream.m3u8"); code == http.StatusOK {
				n := 0
				for _, l := range strings.Split(string(body), "\n") {
					if strings.HasPrefix(l, "#EXTINF:") {
						if ns, ok := pdDecimalNs(strings.TrimSuffix(strings.TrimPrefix(l, "#EXTINF:"), ",")); ok && ns == 0 {
							n++
						}
					}
				}
				extinf = fmt.Sprintf("; %s_stream.m3u8 has %d entries with #EXTINF:0", s.ID, n)
			}
		}
	}
	r.fail("F13b-zero-duration-segment: %d listed segment(s) with zero duration (segment durations %v)%s%s", zero, durs, extinf, bwTxt)
}

func (r *mvgenRunner) oracleMv(pl *mvPlaylist, q string, sizes []uint64, durs []time.Duration, gaps []bool) {
	suffix := ""
	if q != "" {
		suffix = "?" + q
	}
	if len(pl.variants) != 1 {
		r.fail("%d variants in the multivariant playlist", len(pl.variants))
		return
	}
	v := pl.variants[0]
	// leading stream = the video track's, else the first track's
	lead := 0
	nV, _, _ := r.layout()
	for i, t := range r.tracks {
		if mvIsVideoName(t.gen.codec) {
			lead = i
		}
	}
	var leadID string
	for _, s := range r.streams {
		if s.IsLeading {
			leadID = s.ID
		}
	}
	if v["URI-LINE"] != leadID+"_stream.m3u8"+suffix {
		r.fail("variant URI %q is not the leading stream's media playlist %q", v["URI-LINE"], leadID+"_stream.m3u8"+suffix)
	}
	// CODECS: the string of every track's current parameters
	got := strings.Split(v["CODECS"], ",")
	want := map[string]bool{}
	for _, t := range r.tracks {
		want[mvExpectedCodec(t)] = true
	}
	gotSet := map[string]bool{}
	for _, c := range got {
		if gotSet[c] {
			r.fail("CODECS lists %q twice", c)
		}
		gotSet[c] = true
		if !want[c] {
			r.fail("CODECS lists %q which is no track's current codec string (%v)", c, keys(want))
		}
	}
	for c := range want {
		if !gotSet[c] {
			r.fail("CODECS %q lacks %q", v["CODECS"], c)
		}
	}
	// RESOLUTION / FRAME-RATE from the current video parameter sets
	if nV == 1 {
		p := mvParsedFor(r.tracks[lead].gen.codec, r.tracks[lead].curAlt)
		if mvDash(v["RESOLUTION"]) != p.res {
			r.fail("RESOLUTION %q, current video parameters say %q", v["RESOLUTION"], p.res)
		}
		if mvDash(v["FRAME-RATE"]) != p.fps {
			r.fail("FRAME-RATE %q, current video parameters say %q", v["FRAME-RATE"], p.fps)
		}
	} else if v["RESOLUTION"] != "" || v["FRAME-RATE"] != "" {
		r.fail("RESOLUTION/FRAME-RATE on an audio-only muxer")
	}
	// renditions
	if r.variant != "ts" {
		type exp struct {
			idx       int
			name, lan string
			leading   bool
			userDef   bool
		}
		var exps []exp
		for i, t := range r.tracks {
			if mvIsVideoName(t.gen.codec) {
				continue
			}
			leading := nV == 0 && i == 0
			if !leading || len(r.tracks) > 1 {
				name := t.gen.name
				if name == "" {
					name = fmt.Sprintf("audio%d", i+1)
				}
				exps = append(exps, exp{i, name, t.gen.lang, leading, t.gen.def})
			}
		}
		if len(pl.renditions) != len(exps) {
			r.fail("%d renditions, %d audio tracks must be renditions", len(pl.renditions), len(exps))
		} else {
			anyUser := false
			for _, e := range exps {
				anyUser = anyUser || e.userDef
			}
			nDef := 0
			for k, e := range exps {
				a := pl.renditions[k].attrs
				if a["TYPE"] != "AUDIO" || a["GROUP-ID"] != v["AUDIO"] || v["AUDIO"] == "" {
					r.fail("rendition %d is not in the variant's AUDIO group", k)
				}
				if a["NAME"] != e.name || a["LANGUAGE"] != e.lan {
					r.fail("rendition %d has NAME %q LANGUAGE %q, track says %q %q", k, a["NAME"], a["LANGUAGE"], e.name, e.lan)
				}
				uri, has := a["URI"]
				if e.leading && has {
					r.fail("the leading stream's rendition carries a URI")
				}
				if !e.leading && uri != fmt.Sprintf("audio%d_stream.m3u8%s", e.idx+1, suffix) {
					r.fail("rendition %d URI %q", k, uri)
				}
				isDef := a["DEFAULT"] == "YES"
				if isDef {
					nDef++
				}
				wantDef := (anyUser && e.userDef) || (!anyUser && k == 0)
				if isDef != wantDef {
					r.fail("rendition %d DEFAULT=%v, expected %v (user-marked default present: %v)", k, isDef, wantDef, anyUser)
				}
			}
			if len(exps) > 0 && nDef != 1 {
				r.fail("%d DEFAULT renditions", nDef)
			}
			if len(exps) == 0 && v["AUDIO"] != "" {
				r.fail("AUDIO group without renditions")
			}
		}
	} else if len(pl.renditions) != 0 {
		r.fail("MPEG-TS muxer lists renditions")
	}
	// bandwidth
	bw, _ := strconv.ParseInt(v["BANDWIDTH"], 10, 64)
	avg, _ := strconv.ParseInt(v["AVERAGE-BANDWIDTH"], 10, 64)
	timedSeg, zeroSeg := false, false
	for i := range durs {
		timedSeg = timedSeg || (!gaps[i] && durs[i] > 0)
		zeroSeg = zeroSeg || (!gaps[i] && durs[i] <= 0)
	}
	if bw < avg {
		r.fail("BANDWIDTH %d >= AVERAGE-BANDWIDTH %d violated", bw, avg)
	}
	if avg <= 0 && !(zeroSeg && !timedSeg) {
		// (when only zero-duration segments are listed AVERAGE-BANDWIDTH is 0: reported by oracleZeroDuration as F13b)
		r.fail("BANDWIDTH %d >= AVERAGE-BANDWIDTH %d > 0 violated", bw, avg)
	}
	if len(r.tracks) == 1 || r.variant == "ts" {
		if p, m := mvPeakMean(sizes, durs, gaps); v["BANDWIDTH"] != p || v["AVERAGE-BANDWIDTH"] != m {
			r.fail("single-stream muxer: BANDWIDTH/AVERAGE %s/%s, peak/mean of the listed segments %s/%s", v["BANDWIDTH"], v["AVERAGE-BANDWIDTH"], p, m)
		}
	}
}

func keys(m map[string]bool) []string {
	var out []string
	for k := range m {
		out = append(out, k)
	}
	sort.Strings(out)
	return out
}

// H265 SPS variants for the `cs` ops: the general constraint flags of profile_tier_level() (13 flags at NAL bit
// offsets 64..76, general_max_14bit at 77) are rewritten in the first SPS of the list, so that every flag is seen
// set and clear on its own (e.g. max_422chroma != max_420chroma: the 4:2:2 Range Extensions profiles).
func mvH265Unescape(b []byte) []byte {
	var out []byte
	z := 0
	for _, c := range b {
		if z >= 2 && c == 3 {
			z = 0
			continue
		}
		out = append(out, c)
		if c == 0 {
			z++
		} else {
			z = 0
		}
	}
	return out
}

func mvH265Escape(b []byte) []byte {
	var out []byte
	z := 0
	for _, c := range b {
		if z >= 2 && c <= 3 {
			out = append(out, 3)
			z = 0
		}
		out = append(out, c)
		if c == 0 {
			z++
		} else {
			z = 0
		}
	}
	return out
}

func mvH265WithSpace(sps []byte, space int) []byte {
	raw := mvH265Unescape(sps)
	raw[3] = raw[3]&0x3f | byte(space&3)<<6 // general_profile_space: the first two bits of profile_tier_level()
	return mvH265Escape(raw)
}

func mvH265WithFlags(sps []byte, flags []bool, rext bool) []byte {
	raw := mvH265Unescape(sps)
	set := func(bit int, v bool) {
		if v {
			raw[bit/8] |= 0x80 >> uint(bit%8)
		} else {
			raw[bit/8] &^= 0x80 >> uint(bit%8)
		}
	}
	if rext {
		// general_profile_idc = 4 (Range Extensions) and its compatibility flag
		for i, v := range []bool{false, false, true, false, false} {
			set(27+i, v)
		}
		set(32+4, true)
	}
	for i, v := range flags {
		set(64+i, v)
	}
	return mvH265Escape(raw)
}

func init() {
	base := mvH265SPS[0]
	pat := func(s string) []bool {
		var o []bool
		for _, c := range s {
			o = append(o, c == '1')
		}
		return o
	}
	for _, v := range []struct {
		flags string
		rext  bool
	}{
		{"1001110100001", true},  // Main 4:2:2 10: max_12bit, max_10bit, max_422chroma, lower_bit_rate
		{"1001111110001", true},  // Main 10 as RExt: max_422chroma and max_420chroma both set
		{"1001100010001", false}, // max_420chroma without max_422chroma
		{"0100000101010", true},  // interlaced, max_422chroma, max_monochrome, one_picture_only
		{"1011001000100", false}, // non_packed, max_8bit, intra
	} {
		mvH265SPS = append(mvH265SPS, mvH265WithFlags(base, pat(v.flags), v.rext))
	}
	for space := 1; space <= 3; space++ { // general_profile_space A, B, C
		mvH265SPS = append(mvH265SPS, mvH265WithSpace(base, space))
	}
}

// AV1 sequence headers WITH a colour description (color_description_present_flag = 1 followed by 3x8 bits) for the
// `cs` ops: derived from the second header of the list by setting one payload bit and inserting 24 bits after it;
// the bit is found by search: the rewritten header must parse (mediacommon) with exactly the wanted triple and with
// every other field equal to the original's.
func mvAV1WithColor(hdr []byte, cp, tc, mc uint8) []byte {
	var orig av1.SequenceHeader
	if err := orig.Unmarshal(hdr); err != nil || orig.ColorConfig.ColorDescriptionPresentFlag {
		return nil
	}
	payload := hdr[1:] // OBU header without size field
	nbits := len(payload) * 8
	get := func(b []byte, i int) bool { return b[i/8]&(0x80>>uint(i%8)) != 0 }
	for p := 0; p < nbits; p++ {
		if get(payload, p) {
			continue
		}
		var bitsOut []bool
		for i := 0; i <= p; i++ {
			bitsOut = append(bitsOut, get(payload, i))
		}
		bitsOut[p] = true
		for _, v := range []uint8{cp, tc, mc} {
			for k := 7; k >= 0; k-- {
				bitsOut = append(bitsOut, v&(1<<uint(k)) != 0)
			}
		}
		for i := p + 1; i < nbits; i++ {
			bitsOut = append(bitsOut, get(payload, i))
		}
		out := make([]byte, 1+(len(bitsOut)+7)/8)
		out[0] = hdr[0]
		for i, v := range bitsOut {
			if v {
				out[1+i/8] |= 0x80 >> uint(i%8)
			}
		}
		var s av1.SequenceHeader
		if err := s.Unmarshal(out); err != nil {
			continue
		}
		cc, oc := s.ColorConfig, orig.ColorConfig
		if cc.ColorDescriptionPresentFlag && uint8(cc.ColorPrimaries) == cp && uint8(cc.TransferCharacteristics) == tc &&
			uint8(cc.MatrixCoefficients) == mc && s.SeqProfile == orig.SeqProfile && s.SeqLevelIdx[0] == orig.SeqLevelIdx[0] &&
			s.Width() == orig.Width() && s.Height() == orig.Height() && cc.BitDepth == oc.BitDepth && cc.MonoChrome == oc.MonoChrome &&
			cc.SubsamplingX == oc.SubsamplingX && cc.SubsamplingY == oc.SubsamplingY {
			return out
		}
	}
	return nil
}

func init() {
	for _, t := range [][3]uint8{{9, 16, 9}, {1, 13, 6}, {5, 6, 2}} {
		if h := mvAV1WithColor(mvAV1SeqHdr[1], t[0], t[1], t[2]); h != nil {
			mvAV1SeqHdr = append(mvAV1SeqHdr, h)
		} else {
			panic("mvgen: no AV1 sequence header with a colour description could be derived")
		}
	}
}


func init() {
	// VP9 key frames of profile 2 that differ in the bit depth only (muxer_other.go builds the headers)
	for _, par := range []int{4, 5} {
		mvVP9Frames = append(mvVP9Frames, append(vp9KeyHeader(par), 0x30, 0x38, 0x24, 0x1c, 0x19, 0x40, 0x18, 0x03, 0x40, 0x5f, 0xb4))
	}
}
