package main

// playlist slice (C14, C15): MEDIA playlists of pkg/playlist.
//
//	mar <canon value>  real Media.Marshal, then Unmarshal of the result, then the Marshal fixpoint
//	unm <hex bytes>    real Media.Unmarshal (value / err / panic), re-Marshal of an accepted value
//
// The same lines go to lean/Drv/Playlist.lean. The runner's Oracle evaluates the
// statements of C14 and C15 directly on the real code (playlist_oracle.go,
// playlist_grammar.go), independently of the model; failures are prefixed
// "C14:" / "C15:" so that each check filters its own.

import (
	"encoding/hex"
	"fmt"
	"math/rand"
	"os"
	"path/filepath"
	"sort"
	"strconv"
	"strings"
	"time"

	"github.com/bluenviron/gohlslib/v2/pkg/playlist"
)

type playlistSlice struct{}

func init() { register(playlistSlice{}) }

func (playlistSlice) Name() string { return "playlist" }

// ------------------------------------------------------------------ runner

type playlistRunner struct {
	fails []string
}

func (playlistSlice) NewRunner() Runner { return &playlistRunner{} }
func (r *playlistRunner) Close()         {}
func (r *playlistRunner) Oracle() []string {
	return r.fails
}

func (r *playlistRunner) fail(s string) {
	if len(r.fails) < 8 {
		r.fails = append(r.fails, s)
	}
}

func (r *playlistRunner) Step(line string) []string {
	ws := strings.Fields(line)
	if len(ws) == 0 {
		return nil
	}
	switch ws[0] {
	case "mar":
		p, err := plParseCanon(ws[1:])
		if err != nil {
			return []string{"bad-op"}
		}
		valid := plValid(p) == ""
		b, err, pan := plSafeMarshal(p)
		if pan != nil || err != nil {
			if valid {
				r.fail(fmt.Sprintf("C15: Marshal failed on a valid value: %v %v", err, pan))
			}
			return []string{"mar panic"}
		}
		if valid {
			for _, f := range plOracleC14(p) {
				r.fail(f)
			}
			if gerr := plGrammarCheck(b, plGrammarOpts{}); gerr != nil {
				if plGrammarCheck(b, plGrammarOpts{lenientByteRange: true}) == nil {
					r.fail(fmt.Sprintf("C15: KNOWN-F17 Marshal output of a valid value is not strictly grammatical (unquoted BYTERANGE attribute): %v", gerr))
				} else {
					r.fail(fmt.Sprintf("C15: Marshal output of a valid value is rejected by the strict grammar: %v; text=%q", gerr, plClip(b)))
				}
			}
		}
		q, err, pan := plSafeUnmarshal(b)
		switch {
		case pan != nil:
			r.fail(fmt.Sprintf("C15: Unmarshal panicked: %v on %q", pan, plClip(b)))
			return []string{"mar " + hexOrDash(b) + " fix=- rt panic"}
		case err != nil:
			return []string{"mar " + hexOrDash(b) + " fix=- rt err"}
		}
		fix := "0"
		if b2, err, pan := plSafeMarshal(q); pan == nil && err == nil && string(b2) == string(b) {
			fix = "1"
		}
		return []string{"mar " + hexOrDash(b) + " fix=" + fix + " rt ok " + plCanon(q)}

	case "unm":
		if len(ws) != 2 {
			return []string{"bad-op"}
		}
		var b []byte
		if ws[1] != "-" {
			var err error
			b, err = hex.DecodeString(ws[1])
			if err != nil {
				return []string{"bad-op"}
			}
		}
		g := " g=" + plBool(plGrammarCheck(b, plGrammarOpts{}) == nil) + plBool(plGrammarCheck(b, plGrammarOpts{lenientByteRange: true}) == nil)
		q, err, pan := plSafeUnmarshal(b)
		switch {
		case pan != nil:
			r.fail(fmt.Sprintf("C15: Unmarshal panicked: %v on %q", pan, plClip(b)))
			return []string{"unm panic" + g}
		case err != nil:
			return []string{"unm err" + g}
		}
		for _, f := range plStructure(q) {
			r.fail(fmt.Sprintf("C15: accepted input violates the structure clause: %s; input=%q", f, plClip(b)))
		}
		b2, err, pan := plSafeMarshal(q)
		if pan != nil || err != nil {
			r.fail(fmt.Sprintf("C15: a decoded value cannot be marshaled again: %v %v; input=%q", err, pan, plClip(b)))
			return []string{"unm ok " + plCanon(q) + " re panic" + g}
		}
		return []string{"unm ok " + plCanon(q) + " re " + hexOrDash(b2) + g}
	}
	return []string{"bad-op"}
}

// ------------------------------------------------------------------ corpus

func plRepoDir() string {
	if d := os.Getenv("VERIF_REPO"); d != "" {
		return d
	}
	return "/repo"
}

// plFuzzCorpus reads the repository's stored fuzz inputs ("go test fuzz v1" files).
func plFuzzCorpus() [][]byte {
	var out [][]byte
	for _, dir := range []string{"FuzzMediaUnmarshal", "FuzzPlaylistUnmarshal", "FuzzMultivariantUnmarshal"} {
		files, _ := filepath.Glob(filepath.Join(plRepoDir(), "pkg/playlist/testdata/fuzz", dir, "*"))
		sort.Strings(files)
		for _, f := range files {
			data, err := os.ReadFile(f)
			if err != nil {
				continue
			}
			for _, l := range strings.Split(string(data), "\n")[1:] {
				l = strings.TrimSpace(l)
				for _, pre := range []string{"string(", "[]byte("} {
					if strings.HasPrefix(l, pre) && strings.HasSuffix(l, ")") {
						if s, err := strconv.Unquote(l[len(pre) : len(l)-1]); err == nil {
							out = append(out, []byte(s))
						}
					}
				}
			}
		}
	}
	return out
}

var plHandTexts = []string{
	// the documents of media_test.go
	"#EXTM3U\n#EXT-X-VERSION:9\n#EXT-X-INDEPENDENT-SEGMENTS\n#EXT-X-ALLOW-CACHE:NO\n#EXT-X-TARGETDURATION:8\n#EXT-X-SERVER-CONTROL:CAN-BLOCK-RELOAD=YES,PART-HOLD-BACK=5.00000,CAN-SKIP-UNTIL=7.00000\n#EXT-X-PART-INF:PART-TARGET=2.00000\n#EXT-X-MEDIA-SEQUENCE:27\n#EXT-X-MAP:URI=\"init.mp4\"\n#EXT-X-SKIP:SKIPPED-SEGMENTS=15\n#EXT-X-GAP\n#EXTINF:2.00000,\ngap.mp4\n#EXT-X-PROGRAM-DATE-TIME:2014-08-25T00:00:00Z\n#EXTINF:2.00000,\nseg1.mp4\n#EXT-X-DISCONTINUITY\n#EXT-X-PROGRAM-DATE-TIME:2014-08-25T00:00:00Z\n#EXT-X-BITRATE:14213213\n#EXT-X-PART:DURATION=1.50000,URI=\"part1.mp4\",INDEPENDENT=YES\n#EXT-X-PART:DURATION=1.50000,URI=\"part2.mp4\",BYTERANGE=456@123\n#EXTINF:3.00000,\nseg2.mp4\n#EXT-X-PART:DURATION=1.50000,URI=\"part3.mp4\",INDEPENDENT=YES\n#EXT-X-PART:DURATION=1.50000,URI=\"part4.mp4\"\n#EXT-X-PRELOAD-HINT:TYPE=PART,URI=\"part5.mp4\",BYTERANGE-START=43523,BYTERANGE-LENGTH=123\n",
	"#EXTM3U\n#EXT-X-TARGETDURATION:6\n#EXT-X-VERSION:7\n#EXT-X-MEDIA-SEQUENCE:1\n#EXT-X-PLAYLIST-TYPE:VOD\n#EXT-X-INDEPENDENT-SEGMENTS\n#EXT-X-MAP:URI=\"main.mp4\",BYTERANGE=\"721@0\"\n#EXTINF:6.00000,\n#EXT-X-BYTERANGE:5874288@721\nmain.mp4\n#EXTINF:6.00000,\n#EXT-X-BYTERANGE:5863101@5875009\nmain.mp4\n#EXT-X-ENDLIST\n",
	"#EXTM3U\n#EXT-X-VERSION:3\n#EXT-X-TARGETDURATION:6\n#EXT-X-MEDIA-SEQUENCE:0\n#EXT-X-KEY:METHOD=AES-128,URI=\"key.bin\"\n#EXTINF:6.00000,\nsegment1.ts\n#EXTINF:6.00000,\nsegment2.ts",
	"#EXTM3U\n#EXT-X-VERSION:3\n#EXT-X-TARGETDURATION:6\n#EXT-X-MEDIA-SEQUENCE:0\n#EXT-X-KEY:METHOD=AES-128,URI=\"key.bin\",IV=0x1234567890abcdef1234567890abcdef\n#EXTINF:6.00000,\nsegment1.ts\n",
	"#EXTM3U\n#EXT-X-VERSION:5\n#EXT-X-TARGETDURATION:6\n#EXT-X-MEDIA-SEQUENCE:0\n#EXT-X-KEY:METHOD=SAMPLE-AES,URI=\"key.bin\",KEYFORMAT=\"com.apple.streamingkeydelivery\",KEYFORMATVERSIONS=\"1\"\n#EXTINF:6.00000,\nsegment1.ts\n",
	"#EXTM3U\r\n#EXT-X-VERSION:3\r\n#EXT-X-TARGETDURATION:6\r\n#EXT-X-KEY:METHOD=AES-128,URI=\"k1\"\r\n#EXTINF:6,\r\na.ts\r\n#EXT-X-KEY:METHOD=NONE\r\n#EXTINF:6, title with spaces \r\nb.ts\r\n#EXT-X-KEY:METHOD=AES-128,URI=\"k2\"\r\n#EXTINF:6,\r\nc.ts\r\n",
	// dispatch order and prefix overlaps
	"#EXTM3U\n#EXT-X-TARGETDURATION:6.75\n#EXT-X-DISCONTINUITY-SEQUENCE:4\n#EXT-X-DISCONTINUITY\n#EXT-X-PART-INF:PART-TARGET=1\n#EXT-X-PART:DURATION=1,URI=\"p\"\n#EXT-X-INDEPENDENT-SEGMENTS-NOT\n#EXTINF:1\n#EXTINF:1,\nu\n#EXT-X-GAP \n#EXT-X-ENDLIST\n",
	// START / SERVER-CONTROL forms (F1, F3)
	"#EXTM3U\n#EXT-X-START:TIME-OFFSET=-3.5\n#EXT-X-SERVER-CONTROL:,PART-HOLD-BACK=1.00000\n#EXT-X-SERVER-CONTROL:PART-HOLD-BACK=1.00000\n#EXT-X-TARGETDURATION:2\n#EXTINF:2,\nu\n",
	"#EXTM3U\n#EXT-X-SERVER-CONTROL:\n#EXT-X-TARGETDURATION:2\n#EXTINF:2,\nu\n",
	// odd floats and times
	"#EXTM3U\n#EXT-X-TARGETDURATION:2\n#EXTINF:inf,\nu\n#EXTINF:0x1p-2,\nv\n#EXTINF:1e-3,\nw\n#EXTINF:nan,\nx\n#EXTINF:1_0,\ny\n#EXT-X-PROGRAM-DATE-TIME:2014-08-25T0:00:00,5+0130\n#EXTINF:.5,\nz\n",
	"#EXTM3U\n#EXT-X-TARGETDURATION:2\n#EXTINF:9223372036.854775807,\nu\n#EXTINF:-1,\nv\n#EXTINF:1e400,\nw\n",
	// attribute tokenizer corners
	"#EXTM3U\n#EXT-X-TARGETDURATION:2\n#EXT-X-MAP:  URI=\"a\",URI=\"b\", BYTERANGE=1@2,\n#EXT-X-PART:URI=\"p\"q\n#EXTINF:2,\nu\n",
	"#EXTM3U\n#EXT-X-TARGETDURATION:2\n#EXT-X-MAP:URI=\"a\n#EXTINF:2,\nu\n",
	"#EXTM3U\n#EXT-X-TARGETDURATION:2\n#EXT-X-MAP:URI\n#EXTINF:2,\nu\n",
	"#EXTM3U",
	"",
	"\n",
	"#EXTM3U\r",
	"#EXTM3U\n\n\n",
	"\xef\xbb\xbf#EXTM3U\n#EXT-X-TARGETDURATION:2\n#EXTINF:2,\nu\n",
	"#EXTM3U\n#EXT-X-TARGETDURATION:2\n#EXTINF:2,\xc2\xa0 t \xe2\x80\x83\xe3\x80\x80\nu\n#EXTINF:2,\xe2\x80\x80\x80\nv\n#EXTINF:2,\x85\xa0\nw\n",
}

func (playlistSlice) Corpus() [][]string {
	var out [][]string
	var cur []string
	flush := func() {
		if len(cur) > 0 {
			out = append(out, cur)
			cur = nil
		}
	}
	for _, b := range plFuzzCorpus() {
		cur = append(cur, "unm "+hexOrDash(b))
		if len(cur) >= 8 {
			flush()
		}
	}
	flush()
	for _, s := range plHandTexts {
		cur = append(cur, "unm "+hexOrDash([]byte(s)))
		if q, err, pan := plSafeUnmarshal([]byte(s)); pan == nil && err == nil {
			cur = append(cur, "mar "+plCanon(q))
		}
		if len(cur) >= 6 {
			flush()
		}
	}
	flush()
	// the three defects of the unchanged tree (DESIGN §9 F1–F3), as values
	d5, ms := 5, 7
	hb := 3 * time.Second
	seg := func() []*playlist.MediaSegment {
		return []*playlist.MediaSegment{{Duration: 2 * time.Second, URI: "s.ts"}}
	}
	f1 := &playlist.Media{Version: 3, TargetDuration: 2, Start: &playlist.MediaStart{TimeOffset: 10 * time.Second}, Segments: seg()}
	f2 := &playlist.Media{Version: 3, TargetDuration: 2, MediaSequence: ms, DiscontinuitySequence: &d5, Segments: seg()}
	f3 := &playlist.Media{Version: 9, TargetDuration: 2, ServerControl: &playlist.MediaServerControl{PartHoldBack: &hb}, Segments: seg()}
	for _, m := range []*playlist.Media{f1, f2, f3} {
		out = append(out, []string{"mar " + plCanon(m)})
	}
	// EXHAUSTIVE presence enumeration (runs once, in the first shard): all 4096 subsets of the
	// media-level optional tags, and every subset of the optional fields of each tag type
	// (SERVER-CONTROL 8, MAP 4, segment 256, KEY 3x8, PART 16, PRELOAD-HINT 4); scalars from fixed seeds.
	add := func(m *playlist.Media) {
		if why := plValid(m); why != "" {
			panic("corpus generator produced an invalid value: " + why)
		}
		cur = append(cur, "mar "+plCanon(m))
		if b, err, pan := plSafeMarshal(m); pan == nil && err == nil {
			cur = append(cur, "unm "+hexOrDash(b))
		}
		if len(cur) >= 16 {
			flush()
		}
	}
	for mask := 0; mask < 4096; mask++ {
		g := &plG{r: rand.New(rand.NewSource(int64(1_000_000 + mask))), tags: map[string]bool{}}
		add(g.media(mask))
	}
	need := map[string]int{"sc": 1 << 3, "map": 1 << 7, "seg": 0, "key": 0, "part": 1 << 9, "ph": 1 << 10}
	for _, f := range plFocus {
		for sub := 0; sub < f.n; sub++ {
			g := &plG{r: rand.New(rand.NewSource(int64(2_000_000 + sub))), focus: f.name, sub: sub, tags: map[string]bool{}}
			add(g.media(g.r.Intn(4096) | need[f.name]))
		}
	}
	flush()
	return out
}

// ------------------------------------------------------------------ generator

type plG struct {
	r     *rand.Rand
	focus string
	sub   int
	tags  map[string]bool
}

func (g *plG) tag(t string) { g.tags[t] = true }

// bit k of the focused tag's presence mask, random for every other tag
func (g *plG) bit(tag string, k int) bool {
	if tag == g.focus {
		return (g.sub>>k)&1 == 1
	}
	return g.r.Intn(2) == 0
}

func (g *plG) pick(xs ...int64) int64 { return xs[g.r.Intn(len(xs))] }

// a positive duration (segment / part / part target)
func (g *plG) dur() time.Duration {
	r := g.r
	switch r.Intn(12) {
	case 0:
		return time.Duration(g.pick(5001, 9999, 10000, 10001, 14999, 15000, 15001, 19999, 20000))
	case 1:
		return time.Duration(g.pick(plMaxDur-1, plMaxDur-10000, plMaxDur-5001, 1<<49, 999_999_999_990_000))
	case 2: // decimal ties of the 5-decimal text and their neighbours
		k := r.Int63n(1_000_000)
		return time.Duration(k*10000 + 5000 + g.pick(-1, 0, 1) + 10000)
	case 3: // 2^-n seconds: exactly representable ties
		return time.Duration(g.pick(15625000, 7812500, 31250000, 1953125, 976562500))
	case 4:
		return time.Duration(r.Int63n(plMaxDur-5001) + 5001)
	case 5:
		return time.Duration(r.Int63n(20_000_000_000) + 5001)
	case 6: // frame-ish durations
		return time.Duration(g.pick(33_333_333, 33_366_666, 16_683_333, 41_708_333, 1_001_000_000, 2_002_000_000, 21_333_333, 23_219_954))
	case 7:
		return time.Duration(r.Int63n(1000)+1) * time.Millisecond
	default:
		return time.Duration(r.Int63n(12)+1)*time.Second + time.Duration(r.Intn(4))*250*time.Millisecond
	}
}

// a non-negative duration (hold back, skip boundary)
func (g *plG) dur0() time.Duration {
	if g.r.Intn(6) == 0 {
		return time.Duration(g.pick(0, 1, 4999, 5000, 5001))
	}
	return g.dur()
}

func (g *plG) int31() int {
	switch g.r.Intn(6) {
	case 0:
		return int(g.pick(0, 1, 1<<31-1, 1<<31-2, 1<<30))
	case 1:
		return int(g.r.Int63n(1 << 31))
	default:
		return g.r.Intn(100000)
	}
}

func (g *plG) u64() uint64 {
	switch g.r.Intn(6) {
	case 0:
		return []uint64{0, 1, 1<<64 - 1, 1 << 63, 1<<63 - 1, 1<<64 - 2, 18446744073709551609}[g.r.Intn(7)]
	case 1:
		return g.r.Uint64()
	default:
		return uint64(g.r.Intn(10_000_000))
	}
}

const plURIChars = "abcdefghijklmnopqrstuvwxyzABCXYZ0123456789-_./~?&=%+:@ ,;#!$'()*[]"

// a string legal inside a quoted-string (no `"`, CR, LF), never empty
func (g *plG) quotable() string {
	r := g.r
	switch r.Intn(10) {
	case 0:
		return []string{"a", " ", ",", "=", "a,b=c", "#", "x y", "\\", "\t", "\x00", "é", "\xff\xfe", "URI='", "http://h/p?a=1&b=2,3"}[r.Intn(14)]
	case 1:
		n := 1 + r.Intn(40)
		b := make([]byte, n)
		for i := range b {
			c := byte(r.Intn(256))
			if c == '"' || c == '\n' || c == '\r' {
				c = '_'
			}
			b[i] = c
		}
		return string(b)
	default:
		n := 1 + r.Intn(16)
		b := make([]byte, n)
		for i := range b {
			b[i] = plURIChars[r.Intn(len(plURIChars))]
		}
		return string(b)
	}
}

// a segment URI line: non-empty, does not start with '#', no CR/LF
func (g *plG) uriLine() string {
	for {
		s := g.quotable()
		if g.r.Intn(8) == 0 {
			s += []string{"\"", "\"q\"", ",", " ", "#EXT-X-ENDLIST", "#"}[g.r.Intn(6)]
		}
		if s[0] != '#' {
			return s
		}
	}
}

// a title: trimmed, no CR/LF
func (g *plG) title() string {
	if g.r.Intn(2) == 0 {
		return ""
	}
	s := g.quotable()
	if g.r.Intn(4) == 0 {
		s += []string{",", "\"", " x", ",a=b", "#EXT", "é"}[g.r.Intn(6)]
	}
	return strings.TrimSpace(s)
}

var plZones = []int{0, 0, 0, 3600, -3600, 7200, 19800, 20700, 34200, 45900, -12600, -43200, 50400, 60, -60, 86340, -86340, 43200, 49500}

func (g *plG) timeVal() time.Time {
	r := g.r
	off := plZones[r.Intn(len(plZones))]
	if r.Intn(5) == 0 {
		off = (r.Intn(2879) - 1439) * 60
	}
	var sec int64
	switch r.Intn(6) {
	case 0: // range ends in local time: 0000-01-01 … 9999-12-31
		sec = []int64{-62167219200, 253402300799, -62167219200 + 86400, 253402300799 - 86400, 0, -1, 1, 951782400, 951868799, 4107542400}[r.Intn(10)] - int64(off)
	case 1:
		sec = r.Int63n(253402300799+62167219200-2*86400) - 62167219200 + 86400
	default:
		sec = 946684800 + r.Int63n(1300000000) // 2000 … 2041
	}
	var nsec int
	switch r.Intn(6) {
	case 0:
		nsec = 0
	case 1:
		nsec = []int{1, 999, 1000, 999_999, 1_000_000, 10_000_000, 100_000_000, 999_000_000, 999_999_999, 120_000_000, 500_000_000, 1_500_000}[r.Intn(12)]
	case 2:
		nsec = r.Intn(1_000_000_000)
	default:
		nsec = r.Intn(1000) * 1_000_000
	}
	return plMkTime(sec, nsec, off)
}

func (g *plG) hexSeq() string {
	n := 1 + g.r.Intn(32)
	if g.r.Intn(2) == 0 {
		n = 32
	}
	const hx = "0123456789abcdefABCDEF"
	b := make([]byte, n)
	for i := range b {
		b[i] = hx[g.r.Intn(len(hx))]
	}
	return []string{"0x", "0X"}[g.r.Intn(2)] + string(b)
}

func (g *plG) byteRange(tag string, k int) (*uint64, *uint64) {
	if !g.bit(tag, k) {
		return nil, nil
	}
	l := g.u64()
	if !g.bit(tag, k+1) {
		return &l, nil
	}
	s := g.u64()
	return &l, &s
}

func (g *plG) part() *playlist.MediaPart {
	p := &playlist.MediaPart{Duration: g.dur(), URI: g.quotable()}
	p.Independent = g.bit("part", 0)
	p.ByteRangeLength, p.ByteRangeStart = g.byteRange("part", 1)
	p.Gap = g.bit("part", 3)
	return p
}

func (g *plG) key() *playlist.MediaKey {
	k := &playlist.MediaKey{}
	var m int
	if g.focus == "key" {
		m = (g.sub >> 3) % 3
	} else {
		m = g.r.Intn(3)
	}
	switch m {
	case 0:
		k.Method = playlist.MediaKeyMethodNone
		return k
	case 1:
		k.Method = playlist.MediaKeyMethodAES128
	default:
		k.Method = playlist.MediaKeyMethodSampleAES
	}
	k.URI = g.quotable()
	if g.bit("key", 0) {
		k.IV = g.hexSeq()
	}
	if g.bit("key", 1) {
		k.KeyFormat = g.quotable()
	}
	if g.bit("key", 2) {
		k.KeyFormatVersions = g.quotable()
	}
	return k
}

func (g *plG) segment() *playlist.MediaSegment {
	s := &playlist.MediaSegment{Duration: g.dur(), URI: g.uriLine()}
	s.Discontinuity = g.bit("seg", 0)
	s.Gap = g.bit("seg", 1)
	if g.bit("seg", 2) {
		t := g.timeVal()
		s.DateTime = &t
	}
	if g.bit("seg", 3) {
		v := g.int31()
		s.Bitrate = &v
	}
	s.ByteRangeLength, s.ByteRangeStart = g.byteRange("seg", 4)
	if g.bit("seg", 6) {
		for n := 1 + g.r.Intn(3); n > 0; n-- {
			s.Parts = append(s.Parts, g.part())
		}
	}
	if g.bit("seg", 7) {
		s.Title = g.title()
	}
	return s
}

// a value satisfying the documented field requirements; bits = presence mask of the media-level optional tags
func (g *plG) media(bits int) *playlist.Media {
	r := g.r
	has := func(k int) bool { return (bits>>k)&1 == 1 }
	m := &playlist.Media{Version: r.Intn(11), TargetDuration: 1 + g.int31()%(1<<31-1), MediaSequence: g.int31()}
	m.IndependentSegments = has(0)
	if has(1) {
		d := g.dur()
		if r.Intn(2) == 0 {
			d = -d
		}
		m.Start = &playlist.MediaStart{TimeOffset: d}
	}
	if has(2) {
		v := r.Intn(2) == 0
		m.AllowCache = &v
	}
	if has(3) {
		sc := &playlist.MediaServerControl{CanBlockReload: g.bit("sc", 0)}
		if g.bit("sc", 1) {
			d := g.dur0()
			sc.PartHoldBack = &d
		}
		if g.bit("sc", 2) {
			d := g.dur0()
			sc.CanSkipUntil = &d
		}
		m.ServerControl = sc
	}
	if has(4) {
		m.PartInf = &playlist.MediaPartInf{PartTarget: g.dur()}
	}
	if has(5) {
		v := g.int31()
		m.DiscontinuitySequence = &v
	}
	if has(6) {
		v := playlist.MediaPlaylistType([]string{"EVENT", "VOD"}[r.Intn(2)])
		m.PlaylistType = &v
	}
	if has(7) {
		mp := &playlist.MediaMap{URI: g.quotable()}
		mp.ByteRangeLength, mp.ByteRangeStart = g.byteRange("map", 0)
		m.Map = mp
	}
	if has(8) {
		m.Skip = &playlist.MediaSkip{SkippedSegments: g.int31()}
	}
	nseg := 1 + r.Intn(4)
	if r.Intn(20) == 0 {
		nseg = 5 + r.Intn(12)
	}
	// keys: persistent once set; a pool of keys changing between segments
	var pool []*playlist.MediaKey
	if r.Intn(2) == 0 || g.focus == "key" {
		for n := 1 + r.Intn(3); n > 0; n-- {
			pool = append(pool, g.key())
		}
		g.tag("keys")
		// neighbours of the first key that differ from it in EXACTLY ONE field (a key change that a
		// field-by-field comparison must notice, whichever field it is)
		if base := pool[0]; base.Method != playlist.MediaKeyMethodNone && r.Intn(2) == 0 {
			for f := 0; f < 5; f++ {
				c := *base
				switch f {
				case 0:
					c.URI = c.URI + "x"
				case 1:
					if c.IV == "" {
						c.IV = "0x1"
					} else {
						c.IV = c.IV + "0"
					}
				case 2:
					c.KeyFormat = c.KeyFormat + "f"
				case 3:
					c.KeyFormatVersions = c.KeyFormatVersions + "1"
				default:
					if c.Method == playlist.MediaKeyMethodAES128 {
						c.Method = playlist.MediaKeyMethodSampleAES
					} else {
						c.Method = playlist.MediaKeyMethodAES128
					}
				}
				if r.Intn(2) == 0 {
					pool = append(pool, &c)
				}
			}
			g.tag("keys-one-field-apart")
		}
	}
	var cur *playlist.MediaKey
	for i := 0; i < nseg; i++ {
		s := g.segment()
		if pool != nil {
			switch {
			case cur == nil && (r.Intn(2) == 0 || g.focus == "key"):
				cur = pool[0]
			case cur != nil && r.Intn(2) == 0:
				cur = pool[r.Intn(len(pool))]
				if r.Intn(3) == 0 { // an equal key held in a different object
					c := *cur
					cur = &c
				}
			}
			s.Key = cur
		}
		m.Segments = append(m.Segments, s)
	}
	if has(9) {
		for n := 1 + r.Intn(3); n > 0; n-- {
			m.Parts = append(m.Parts, g.part())
		}
	}
	if has(10) {
		ph := &playlist.MediaPreloadHint{URI: g.quotable()}
		if g.bit("ph", 0) {
			ph.ByteRangeStart = g.u64()
			if ph.ByteRangeStart == 0 {
				ph.ByteRangeStart = 1
			}
		}
		if g.bit("ph", 1) {
			v := g.u64()
			ph.ByteRangeLength = &v
		}
		m.PreloadHint = ph
	}
	m.Endlist = has(11)
	return m
}

// breakers: each violates exactly one documented requirement
var plBreakers = []struct {
	name string
	f    func(g *plG, m *playlist.Media)
}{
	{"zero-segment-duration", func(g *plG, m *playlist.Media) { m.Segments[0].Duration = time.Duration(g.pick(0, 1, 4999, 5000)) }},
	{"negative-segment-duration", func(g *plG, m *playlist.Media) { m.Segments[0].Duration = -g.dur() }},
	{"huge-duration", func(g *plG, m *playlist.Media) {
		m.Segments[0].Duration = time.Duration(g.pick(plMaxDur, 1<<62, 1<<63-1, 9_000_000_000_000_000_000))
	}},
	{"min-duration", func(g *plG, m *playlist.Media) { m.Segments[0].Duration = -1 << 63 }},
	{"empty-uri", func(g *plG, m *playlist.Media) { m.Segments[len(m.Segments)-1].URI = "" }},
	{"hash-uri", func(g *plG, m *playlist.Media) { m.Segments[0].URI = "#" + g.quotable() }},
	{"newline-in-uri", func(g *plG, m *playlist.Media) { m.Segments[0].URI = "a\nb" }},
	{"cr-in-uri", func(g *plG, m *playlist.Media) { m.Segments[0].URI = []string{"a\r", "\r", "a\rb"}[g.r.Intn(3)] }},
	{"untrimmed-title", func(g *plG, m *playlist.Media) {
		m.Segments[0].Title = []string{" a", "a ", "\ta", "a ", " a", "a　", " ", "\xc2\x85x"}[g.r.Intn(8)]
	}},
	{"newline-in-title", func(g *plG, m *playlist.Media) { m.Segments[0].Title = "a\n#EXT-X-ENDLIST" }},
	{"quote-in-quoted", func(g *plG, m *playlist.Media) {
		m.Map = &playlist.MediaMap{URI: []string{"a\"b", "\"", "a\",X=\"b", "a\nb"}[g.r.Intn(4)]}
	}},
	{"empty-map-uri", func(g *plG, m *playlist.Media) { m.Map = &playlist.MediaMap{} }},
	{"zero-target", func(g *plG, m *playlist.Media) { m.TargetDuration = 0 }},
	{"negative-int", func(g *plG, m *playlist.Media) {
		switch g.r.Intn(4) {
		case 0:
			m.Version = -1
		case 1:
			m.MediaSequence = -5
		case 2:
			m.TargetDuration = -2
		default:
			v := -7
			m.Segments[0].Bitrate = &v
		}
	}},
	{"int-over-31-bits", func(g *plG, m *playlist.Media) {
		v := int(g.pick(1<<31, 1<<40, 1<<62))
		switch g.r.Intn(3) {
		case 0:
			m.MediaSequence = v
		case 1:
			m.TargetDuration = v
		default:
			m.DiscontinuitySequence = &v
		}
	}},
	{"version-over-10", func(g *plG, m *playlist.Media) { m.Version = 11 + g.r.Intn(5) }},
	{"no-segments", func(g *plG, m *playlist.Media) { m.Segments = nil }},
	{"zero-start", func(g *plG, m *playlist.Media) {
		m.Start = &playlist.MediaStart{TimeOffset: time.Duration(g.pick(0, 1, -1, 5000, -5000))}
	}},
	{"zero-part-target", func(g *plG, m *playlist.Media) { m.PartInf = &playlist.MediaPartInf{PartTarget: time.Duration(g.pick(0, 4999))} }},
	{"negative-hold-back", func(g *plG, m *playlist.Media) {
		d := -g.dur()
		m.ServerControl = &playlist.MediaServerControl{CanBlockReload: g.r.Intn(2) == 0, PartHoldBack: &d}
	}},
	{"bad-playlist-type", func(g *plG, m *playlist.Media) {
		v := playlist.MediaPlaylistType([]string{"", "LIVE", "event", "VOD "}[g.r.Intn(4)])
		m.PlaylistType = &v
	}},
	{"range-start-without-length", func(g *plG, m *playlist.Media) {
		v := g.u64()
		switch g.r.Intn(3) {
		case 0:
			m.Segments[0].ByteRangeLength, m.Segments[0].ByteRangeStart = nil, &v
		case 1:
			m.Map = &playlist.MediaMap{URI: "i", ByteRangeStart: &v}
		default:
			m.Parts = append(m.Parts, &playlist.MediaPart{Duration: time.Second, URI: "p", ByteRangeStart: &v})
		}
	}},
	{"zero-part-duration", func(g *plG, m *playlist.Media) {
		m.Parts = append(m.Parts, &playlist.MediaPart{Duration: time.Duration(g.pick(0, 3000)), URI: "p"})
	}},
	{"empty-part-uri", func(g *plG, m *playlist.Media) {
		m.Segments[0].Parts = append(m.Segments[0].Parts, &playlist.MediaPart{Duration: time.Second})
	}},
	{"empty-hint-uri", func(g *plG, m *playlist.Media) { m.PreloadHint = &playlist.MediaPreloadHint{} }},
	{"nil-key-after-key", func(g *plG, m *playlist.Media) {
		k := &playlist.MediaKey{Method: playlist.MediaKeyMethodAES128, URI: "k"}
		m.Segments = append([]*playlist.MediaSegment{{Duration: time.Second, URI: "first", Key: k}}, m.Segments...)
		m.Segments[len(m.Segments)-1].Key = nil
	}},
	{"none-key-with-attrs", func(g *plG, m *playlist.Media) {
		m.Segments[0].Key = &playlist.MediaKey{Method: playlist.MediaKeyMethodNone, URI: "k", IV: "0x1"}
		for _, s := range m.Segments[1:] {
			if s.Key == nil {
				s.Key = m.Segments[0].Key
			}
		}
	}},
	{"bad-key-method", func(g *plG, m *playlist.Media) {
		k := &playlist.MediaKey{Method: playlist.MediaKeyMethod([]string{"", "FOO", "aes-128"}[g.r.Intn(3)]), URI: "k"}
		for _, s := range m.Segments {
			s.Key = k
		}
	}},
	{"aes-key-without-uri", func(g *plG, m *playlist.Media) {
		k := &playlist.MediaKey{Method: playlist.MediaKeyMethodAES128}
		for _, s := range m.Segments {
			s.Key = k
		}
	}},
	{"bad-iv", func(g *plG, m *playlist.Media) {
		k := &playlist.MediaKey{Method: playlist.MediaKeyMethodAES128, URI: "k", IV: []string{"1,2", "\"x\"", "0x", "zz", "0x12,A=1"}[g.r.Intn(5)]}
		for _, s := range m.Segments {
			s.Key = k
		}
	}},
	{"zone-with-seconds", func(g *plG, m *playlist.Media) {
		t := plMkTime(1700000000, 0, []int{1, 30, 3601, -59, 86400, -90000, 360000}[g.r.Intn(7)])
		m.Segments[0].DateTime = &t
	}},
	{"year-out-of-range", func(g *plG, m *playlist.Media) {
		t := plMkTime([]int64{253402300800, -62167219201, 1 << 40}[g.r.Intn(3)], 0, 0)
		m.Segments[0].DateTime = &t
	}},
}

// text mutation
var plSplices = []string{
	"\n", "\r\n", "\r", ",", "=", "\"", "#", ":", ".", "-", "@", " ", "\x00", "\xff", "0", "9", "e", "E9", "x", "_", "inf", "nan",
	"#EXTM3U\n", "#EXTINF:", "#EXTINF:1,\n", "#EXT-X-PART:", "#EXT-X-KEY:METHOD=NONE\n", "#EXT-X-MAP:", "#EXT-X-START:TIME-OFFSET=",
	"#EXT-X-SERVER-CONTROL:", "#EXT-X-PRELOAD-HINT:TYPE=PART,", "#EXT-X-SKIP:SKIPPED-SEGMENTS=", "#EXT-X-BYTERANGE:", "#EXT-X-BITRATE:",
	"#EXT-X-PROGRAM-DATE-TIME:", "#EXT-X-TARGETDURATION:", "#EXT-X-VERSION:", "#EXT-X-DISCONTINUITY\n", "#EXT-X-DISCONTINUITY-SEQUENCE:",
	"#EXT-X-GAP\n", "#EXT-X-ENDLIST\n", "#EXT-X-PLAYLIST-TYPE:", "#EXT-X-ALLOW-CACHE:", "#EXT-X-INDEPENDENT-SEGMENTS", "#EXT-X-PART-INF:PART-TARGET=",
	"URI=\"", "URI=", "DURATION=", "BYTERANGE=", "GAP=YES", "INDEPENDENT=YES", "TYPE=PART", "METHOD=AES-128", "IV=0x1", ",,", "=\"\"", " A=1",
	"2147483647", "2147483648", "18446744073709551615", "18446744073709551616", "4294967296", "00", "+1", "-1", "1e3", "1e-9", "0x1p3", "1_0", ".5", "5.",
	"9223372036.854775807", "9223372036.854775808", "1e400", "0.000004", "0.000005", "0.00001",
	"2014-08-25T00:00:00Z", "2014-08-25T00:00:00+0130", "2014-02-30T00:00:00Z", "2016-02-29T23:59:59.999999999-23:59", "T", "Z", "+01:00", ",5",
	"\xc2\xa0", "\xe2\x80\x83", "\xe3\x80\x80", "\xc2\x85", "\xe2\x80", "\t", "\v", "\f",
}

func (g *plG) mutate(b []byte) ([]byte, string) {
	r := g.r
	if len(b) == 0 {
		return []byte(plSplices[r.Intn(len(plSplices))]), "splice"
	}
	out := append([]byte{}, b...)
	switch r.Intn(12) {
	case 0:
		i := r.Intn(len(out))
		out[i] ^= 1 << uint(r.Intn(8))
		return out, "bitflip"
	case 1:
		i := r.Intn(len(out))
		return append(out[:i], out[i+1:]...), "delete-byte"
	case 2, 3, 4:
		i := r.Intn(len(out) + 1)
		s := plSplices[r.Intn(len(plSplices))]
		return append(out[:i], append([]byte(s), out[i:]...)...), "splice"
	case 5:
		i := r.Intn(len(out))
		out[i] = byte(r.Intn(256))
		return out, "set-byte"
	case 6:
		return out[:r.Intn(len(out)+1)], "truncate"
	case 7, 8: // line level
		ls := strings.Split(string(out), "\n")
		i := r.Intn(len(ls))
		switch r.Intn(3) {
		case 0:
			ls = append(ls[:i], ls[i+1:]...)
			return []byte(strings.Join(ls, "\n")), "delete-line"
		case 1:
			ls = append(ls[:i+1], ls[i:]...)
			return []byte(strings.Join(ls, "\n")), "duplicate-line"
		default:
			j := r.Intn(len(ls))
			ls[i], ls[j] = ls[j], ls[i]
			return []byte(strings.Join(ls, "\n")), "swap-lines"
		}
	case 9: // replace a run of digits
		s := string(out)
		for tries := 0; tries < 8; tries++ {
			i := r.Intn(len(s))
			if s[i] >= '0' && s[i] <= '9' {
				j := i
				for j < len(s) && (s[j] >= '0' && s[j] <= '9' || s[j] == '.') {
					j++
				}
				return []byte(s[:i] + plSplices[r.Intn(len(plSplices))] + s[j:]), "replace-number"
			}
		}
		return out, "none"
	case 10:
		return []byte(strings.ReplaceAll(string(out), "\n", "\r\n")), "crlf"
	default:
		i, j := r.Intn(len(out)+1), r.Intn(len(out)+1)
		if i > j {
			i, j = j, i
		}
		return append(out[:i], out[j:]...), "delete-range"
	}
}

// random line soup from the vocabulary
func (g *plG) soup() []byte {
	var b strings.Builder
	if g.r.Intn(10) != 0 {
		b.WriteString("#EXTM3U\n")
	}
	if g.r.Intn(4) != 0 {
		b.WriteString("#EXT-X-TARGETDURATION:" + strconv.Itoa(g.r.Intn(10)) + "\n")
	}
	for n := g.r.Intn(10); n > 0; n-- {
		for k := 1 + g.r.Intn(4); k > 0; k-- {
			b.WriteString(plSplices[g.r.Intn(len(plSplices))])
		}
		if g.r.Intn(3) != 0 {
			b.WriteString("\n")
		}
		if g.r.Intn(3) == 0 {
			b.WriteString("#EXTINF:" + []string{"1", "2.5", "0", "1e1", "x"}[g.r.Intn(5)] + ",\nu" + strconv.Itoa(n) + "\n")
		}
	}
	return []byte(b.String())
}

var plFocus = []struct {
	name string
	n    int
}{{"sc", 8}, {"map", 4}, {"seg", 256}, {"key", 24}, {"part", 16}, {"ph", 4}}

var plCorpusCache [][]byte

func (playlistSlice) Gen(r *rand.Rand, i int, tier string) ([]string, []string) {
	g := &plG{r: r, tags: map[string]bool{}}
	var ops []string
	f := plFocus[i%len(plFocus)]
	g.focus, g.sub = f.name, (i/len(plFocus))%f.n
	kind := i % 10
	switch {
	case kind < 5: // two valid values with random presence masks (the exhaustive enumeration is in Corpus)
		g.tag("kind=valid-value")
		g.tag("focus=" + g.focus)
		for j := 0; j < 2; j++ {
			bits := r.Intn(4096)
			m := g.media(bits)
			if why := plValid(m); why != "" {
				panic("generator produced an invalid value: " + why)
			}
			ops = append(ops, "mar "+plCanon(m))
			if b, err, pan := plSafeMarshal(m); pan == nil && err == nil {
				ops = append(ops, "unm "+hexOrDash(b))
				vs := plVariants(b)
				v := vs[r.Intn(len(vs))]
				ops = append(ops, "unm "+hexOrDash(v.text))
				g.tag("variant=" + v.name)
			}
			if m.Start != nil {
				g.tag("has=start")
			}
			if m.DiscontinuitySequence != nil && *m.DiscontinuitySequence != m.MediaSequence {
				g.tag("has=discseq≠mseq")
			}
			if m.ServerControl != nil && !m.ServerControl.CanBlockReload && (m.ServerControl.PartHoldBack != nil || m.ServerControl.CanSkipUntil != nil) {
				g.tag("has=sc-without-block-reload")
			}
		}
	case kind < 7: // one requirement broken
		g.tag("kind=invalid-value")
		m := g.media(r.Intn(4096))
		br := plBreakers[(i/10*2+kind-5)%len(plBreakers)]
		br.f(g, m)
		g.tag("break=" + br.name)
		if plValid(m) == "" {
			panic("breaker " + br.name + " left the value valid")
		}
		ops = append(ops, "mar "+plCanon(m))
		if b, err, pan := plSafeMarshal(m); pan == nil && err == nil {
			ops = append(ops, "unm "+hexOrDash(b))
		}
	default: // texts
		g.tag("kind=text")
		if plCorpusCache == nil {
			plCorpusCache = plFuzzCorpus()
			for _, s := range plHandTexts {
				plCorpusCache = append(plCorpusCache, []byte(s))
			}
		}
		for n := 3; n > 0; n-- {
			var b []byte
			switch r.Intn(6) {
			case 0:
				b = g.soup()
				g.tag("text=soup")
			case 1:
				b = plCorpusCache[r.Intn(len(plCorpusCache))]
				g.tag("text=corpus")
			default:
				b, _, _ = plSafeMarshal(g.media(r.Intn(4096)))
				g.tag("text=marshal-output")
			}
			for k := r.Intn(4); k > 0; k-- {
				var how string
				b, how = g.mutate(b)
				g.tag("mut=" + how)
			}
			if q, err, pan := plSafeUnmarshal(b); pan != nil {
				g.tag("unm=panic")
			} else if err != nil {
				g.tag("unm=err")
			} else {
				g.tag("unm=ok")
				_ = q
			}
			ops = append(ops, "unm "+hexOrDash(b))
		}
	}
	var tags []string
	for t := range g.tags {
		tags = append(tags, t)
	}
	sort.Strings(tags)
	return ops, tags
}
