package main

import (
	"bytes"
	"encoding/binary"
	"time"

	"github.com/bluenviron/gohlslib/v2/pkg/codecs"
	"github.com/bluenviron/mediacommon/v2/pkg/codecs/av1"
	"github.com/bluenviron/mediacommon/v2/pkg/codecs/vp9"
	"github.com/bluenviron/mediacommon/v2/pkg/formats/fmp4"
)

// VP9 / AV1 unit construction for the muxer slice (parameter ids 1 and 2).

// vp9KeyHeader builds a profile-0 key-frame header whose frame size encodes the parameter id.
func vp9KeyHeader(par int) []byte {
	// parameter ids 1,2,3: 1->2 changes only the width, 2->3 only the height, 3->1 both
	ws := []uint64{655, 671, 671}
	hs := []uint64{367, 367, 383}
	if par == 4 || par == 5 {
		// parameter ids 4, 5: profile 2 at the size of id 1, 10-bit and 12-bit (4 -> 5 changes only the bit depth):
		// frame marker 2, profile 2 (low bit 0, high bit 1), key frame; ten_or_twelve_bit, cs=0, range=0, sizes
		v := uint64(par-4)<<36 | (ws[0] << 16) | hs[0] // 1 + 4 colour bits + 32 size bits = 37 bits
		v <<= 3                                        // left-align in 5 bytes
		return []byte{0x92, 0x49, 0x83, 0x42, byte(v >> 32), byte(v >> 24), byte(v >> 16), byte(v >> 8), byte(v)}
	}
	w1 := ws[(par-1)%3]
	h1 := hs[(par-1)%3]
	v := (uint64(0) << 32) | (w1 << 16) | h1 // 4 colour bits (cs=0, range=0) + 32 size bits
	v <<= 4                                  // left-align 36 bits in 5 bytes
	return []byte{0x82, 0x49, 0x83, 0x42, byte(v >> 32), byte(v >> 24), byte(v >> 16), byte(v >> 8), byte(v)}
}

func vp9Frame(ra bool, par, pay, fill int) []byte {
	if ra {
		return append(vp9KeyHeader(par), idBytes(pay, fill)...)
	}
	return append([]byte{0x86}, idBytes(pay, fill)...)
}

var _ = binary.BigEndian

var av1SeqHeaders = [][]byte{
	{0x8, 0x0, 0x0, 0x0, 0x42, 0xab, 0xbf, 0xc3, 0x71, 0xab, 0xe6, 0x1},
	{0x08, 0x04, 0x00, 0x00, 0x00, 0x04, 0x00, 0x00, 0x00, 0xf3, 0x00, 0x00, 0x0e, 0x55, 0x77, 0xf8,
		0x73, 0xd0, 0x02, 0x7d, 0x10, 0x10, 0x10, 0x10, 0x40},
}

// av1Sized: the same OBU in the low-overhead bitstream form (obu_has_size_field = 1, LEB128 size)
func av1Sized(obu []byte) []byte {
	n := len(obu) - 1
	if n >= 128 {
		panic("av1Sized: OBU too long for a one-byte size")
	}
	return append([]byte{obu[0] | 0x02, byte(n)}, obu[1:]...)
}

func av1TU(ra bool, par, pay, fill int) [][]byte { return av1TUForm(ra, par, pay, fill, false) }

// av1TUForm: sized = the sequence header travels with its size field (sources that deliver the low-overhead form)
func av1TUForm(ra bool, par, pay, fill int, sized bool) [][]byte {
	var tu [][]byte
	if ra {
		sh := av1SeqHeaders[(par-1)%2]
		if sized {
			sh = av1Sized(sh)
		}
		tu = append(tu, sh)
	}
	tu = append(tu, append([]byte{0x30}, idBytes(pay, fill)...)) // OBU_FRAME, no size field
	return tu
}

func mxOtherCodec(c string) codecs.Codec {
	switch c {
	case "vp9":
		var h vp9.Header
		if err := h.Unmarshal(vp9KeyHeader(1)); err != nil {
			panic(err)
		}
		return &codecs.VP9{
			Width:             h.Width(),
			Height:            h.Height(),
			Profile:           h.Profile,
			BitDepth:          h.ColorConfig.BitDepth,
			ChromaSubsampling: h.ChromaSubsampling(),
			ColorRange:        h.ColorConfig.ColorRange,
		}
	case "av1":
		return &codecs.AV1{SequenceHeader: av1SeqHeaders[0]}
	case "h265":
		return c9CodecOf("h265", 0)
	}
	panic("codec not supported by the harness: " + c)
}

func mxOtherSize(c string, ra bool, par, pay, fill int) int {
	switch c {
	case "vp9":
		return len(vp9Frame(ra, par, pay, fill))
	case "av1":
		bs, err := av1.Bitstream(av1TU(ra, par, pay, fill)).Marshal()
		if err != nil {
			panic(err)
		}
		return len(bs)
	case "h265":
		return mxH264Sizes("fmp4", c9BuildH265(par, ra, pay, fill))
	}
	panic("codec")
}

func mxWriteOther(r *mxRunner, t *mxTrack, ntp time.Time, pts int64, ra bool, par, pay, fill int) error {
	switch t.codec {
	case "vp9":
		return r.m.WriteVP9(t.track, ntp, pts, vp9Frame(ra, par, pay, fill))
	case "av1":
		return r.m.WriteAV1(t.track, ntp, pts, av1TUForm(ra, par, pay, fill, t.szf))
	case "h265":
		return r.m.WriteH265(t.track, ntp, pts, c9BuildH265(par, ra, pay, fill))
	}
	panic("codec")
}

func mxPayOfOther(c string, payload []byte) int {
	switch c {
	case "h265":
		for _, n := range splitAVCC(payload) {
			if len(n) >= 2 {
				if t := (n[0] >> 1) & 0x3f; t < 32 { // any VCL NAL unit type
					if id := idOf(n[2:]); id >= 0 {
						return id
					}
					// reordering pattern (muxer_bframes.go): the id follows the 10 / 20 original bytes
					for _, off := range []int{10, 20} {
						if len(n) >= off+5 {
							if id := idOf(n[off:]); id >= 0 {
								return id
							}
						}
					}
					return -1
				}
			}
		}
		return -1
	case "vp9":
		var h vp9.Header
		if err := h.Unmarshal(payload); err != nil {
			return -1
		}
		off := 1
		if !h.NonKeyFrame {
			off = 9
		}
		if len(payload) >= off {
			return idOf(payload[off:])
		}
	case "av1":
		var bs av1.Bitstream
		if err := bs.Unmarshal(payload); err != nil {
			return -1
		}
		for _, obu := range bs {
			if obu[0]>>3 == 6 {
				var size av1.LEB128
				n, err := size.Unmarshal(obu[1:])
				if err != nil {
					return -1
				}
				if len(obu) >= 1+n {
					return idOf(obu[1+n:])
				}
			}
		}
	}
	return -1
}

func mxParOfInitCodec(c fmp4.Codec) int {
	switch c := c.(type) {
	case *fmp4.CodecVP9:
		switch {
		case c.Width == 656 && c.Height == 368 && c.Profile == 2 && c.BitDepth == 10:
			return 4
		case c.Width == 656 && c.Height == 368 && c.Profile == 2 && c.BitDepth == 12:
			return 5
		case c.Width == 656 && c.Height == 368:
			return 1
		case c.Width == 672 && c.Height == 368:
			return 2
		case c.Width == 672 && c.Height == 384:
			return 3
		}
		return -1
	case *fmp4.CodecH265:
		if bytes.Equal(c.SPS, c9H265SPS2) {
			return 2
		}
		return 1
	case *fmp4.CodecAV1:
		for i, sh := range av1SeqHeaders {
			// the init box stores the OBU with a size field: compare the payload after the header byte
			if bytes.HasSuffix(c.SequenceHeader, sh[1:]) {
				return i + 1
			}
		}
		return -1
	}
	return 1
}
