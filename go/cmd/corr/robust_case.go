package main

import (
	"encoding/hex"
	"fmt"
	"sort"
	"strconv"
	"strings"
)

// process slice (property C13): case definition, line protocol.
//
// A case is a scripted server (the `hex` lines: what is served under which path, per request number) together with
// the DECODED VIEW of everything served (what mediacommon's own decoders and playlist.Unmarshal make of those
// bytes). The real client runs against the bytes; the Lean model (driver drv_process) reads the views only.
//
//	cfg cmp=full|class|robust prim=media|multi|bad lead=0|1 audio=none|found|missing n=<streams> closeat=<req#|-1> pace=0|1 must=err|any|ok fault=<label>
//	st s=<i> init=none|missing|err|ok order=<file idx,…|->          one per stream; order = expected download order (TS view)
//	trk s= id= rate= kind=                                          decoded fMP4 init tracks
//	pl s= seq=<k> r=bad|notmedia|media map=none|empty|uri vod=0|1 msn= end=0|1 sc=none|b<0|1>s<0|1> hint=none|x|<idx> segs=<idx|x[@pdt];…|->
//	f s= i=<idx> kind=parts|ts|bad kinds=<K,…|-> parts=<n>          one per served media file of the stream (n = fragments decoded)
//	pt s= i= part=<k> id= base= smp=<dur:off:bad:pid;…|->           bad = '+'-joined decoder names that reject the payload, or 0
//	ti s= i= t=<reader track> pts= dts= pid=   |   ti s= i= de=1    reader call-backs / decode errors in order
//	hex name=<path> seq=<k> data=<hex>                              served bytes (ignored by the model)
//	run n=<number of preceding lines>
//
// Paths: /index.m3u8 (primary), /s<i>.m3u8 (stream playlists; for prim=media stream 0 IS /index.m3u8),
// /s<i>_init.mp4, /s<i>_f<idx>.<ext>. A path without hex line answers 404. A playlist path answers its seq-th body on
// the seq-th request (the last one repeats).

type rbSegRef struct {
	file int // -1: request fails
	pdt  *int64
}

type rbPl struct {
	seq  int
	r    string // bad | notmedia | media
	mapv string // none | empty | uri
	vod  bool
	msn  int64
	end  bool
	sc   string // none | b0s0 | b1s0 | b0s1 | b1s1
	hint string // none | x | <idx>
	segs []rbSegRef
}

type rbTrack struct {
	id, rate int64
	kind     string
}

type rbSample struct {
	dur, off int64
	bad      []string
	pid      int64
}

type rbPT struct {
	part int
	id   int64
	base int64
	smp  []rbSample
}

type rbTI struct {
	de            bool
	t             int
	pts, dts, pid int64
}

type rbFile struct {
	kind   string // parts | ts | bad
	kinds  []string
	nparts int // fMP4: number of fragments (`moof`) decoded; 0 = a body without any
	pts   []rbPT
	tis   []rbTI
}

type rbStream struct {
	init   string // none | missing | err | ok
	order  []int
	tracks []rbTrack
	pls    []rbPl
	files  []rbFile
}

type rbHex struct {
	name string
	seq  int
	data []byte
}

type rbCase struct {
	cmp     string
	prim    string
	lead    bool
	audio   string
	closeAt int
	pace    bool // false: some unit may make the client sleep for a noticeable real time (compared as `robust` only)
	must    string
	fault   string
	streams []*rbStream
	hex     []rbHex
}

func rbJoinInts(v []int) string {
	if len(v) == 0 {
		return "-"
	}
	s := make([]string, len(v))
	for i, x := range v {
		s[i] = strconv.Itoa(x)
	}
	return strings.Join(s, ",")
}

func rbJoin(v []string, sep string) string {
	if len(v) == 0 {
		return "-"
	}
	return strings.Join(v, sep)
}

func (p *rbPl) line(s int) string {
	var segs []string
	for _, sg := range p.segs {
		x := "x"
		if sg.file >= 0 {
			x = strconv.Itoa(sg.file)
		}
		if sg.pdt != nil {
			x += "@" + strconv.FormatInt(*sg.pdt, 10)
		}
		segs = append(segs, x)
	}
	return fmt.Sprintf("pl s=%d seq=%d r=%s map=%s vod=%d msn=%d end=%d sc=%s hint=%s segs=%s",
		s, p.seq, p.r, p.mapv, b2i(p.vod), p.msn, b2i(p.end), p.sc, p.hint, rbJoin(segs, ";"))
}

func (f *rbFile) lines(s, i int) []string {
	o := []string{fmt.Sprintf("f s=%d i=%d kind=%s kinds=%s parts=%d", s, i, f.kind, rbJoin(f.kinds, ","), f.nparts)}
	for _, p := range f.pts {
		var sm []string
		for _, x := range p.smp {
			bad := "0"
			if len(x.bad) > 0 {
				bad = strings.Join(x.bad, "+")
			}
			sm = append(sm, fmt.Sprintf("%d:%d:%s:%d", x.dur, x.off, bad, x.pid))
		}
		o = append(o, fmt.Sprintf("pt s=%d i=%d part=%d id=%d base=%d smp=%s", s, i, p.part, p.id, p.base, rbJoin(sm, ";")))
	}
	for _, t := range f.tis {
		if t.de {
			o = append(o, fmt.Sprintf("ti s=%d i=%d de=1", s, i))
		} else {
			o = append(o, fmt.Sprintf("ti s=%d i=%d t=%d pts=%d dts=%d pid=%d", s, i, t.t, t.pts, t.dts, t.pid))
		}
	}
	return o
}

// viewLines: everything but cfg / hex / run
func (c *rbCase) viewLines() []string {
	var o []string
	for s, st := range c.streams {
		o = append(o, fmt.Sprintf("st s=%d init=%s order=%s", s, st.init, rbJoinInts(st.order)))
		for _, t := range st.tracks {
			o = append(o, fmt.Sprintf("trk s=%d id=%d rate=%d kind=%s", s, t.id, t.rate, t.kind))
		}
		for i := range st.pls {
			o = append(o, st.pls[i].line(s))
		}
		for i := range st.files {
			o = append(o, st.files[i].lines(s, i)...)
		}
	}
	return o
}

func (c *rbCase) cfgLine() string {
	return fmt.Sprintf("cfg cmp=%s prim=%s lead=%d audio=%s n=%d closeat=%d pace=%d must=%s fault=%s",
		c.cmp, c.prim, b2i(c.lead), c.audio, len(c.streams), c.closeAt, b2i(c.pace), c.must, c.fault)
}

func (c *rbCase) ops() []string {
	o := []string{c.cfgLine()}
	o = append(o, c.viewLines()...)
	hx := append([]rbHex{}, c.hex...)
	sort.SliceStable(hx, func(i, j int) bool {
		if hx[i].name != hx[j].name {
			return hx[i].name < hx[j].name
		}
		return hx[i].seq < hx[j].seq
	})
	for _, h := range hx {
		d := hex.EncodeToString(h.data)
		if d == "" {
			d = "-"
		}
		o = append(o, fmt.Sprintf("hex name=%s seq=%d data=%s", h.name, h.seq, d))
	}
	o = append(o, fmt.Sprintf("run n=%d", len(o)))
	return o
}

// rbParse rebuilds cfg + hex of a case from its lines (the views are re-derived from the bytes by the runner and
// compared textually with the view lines).
func rbParse(lines []string) (*rbCase, []string, bool) {
	if len(lines) == 0 {
		return nil, nil, false
	}
	c := &rbCase{}
	var views []string
	for i, l := range lines {
		op, m := tcKV(l)
		switch op {
		case "cfg":
			if i != 0 {
				return nil, nil, false
			}
			c.cmp, c.prim, c.audio, c.must, c.fault = m["cmp"], m["prim"], m["audio"], m["must"], m["fault"]
			lead, o1 := tcInt(m, "lead")
			n, o2 := tcInt(m, "n")
			ca, o3 := tcInt(m, "closeat")
			pace, o4 := tcInt(m, "pace")
			c.pace = pace != 0
			if !(o1 && o2 && o3 && o4) || n < 0 || n > 16 {
				return nil, nil, false
			}
			if c.cmp != "full" && c.cmp != "class" && c.cmp != "robust" {
				return nil, nil, false
			}
			if c.prim != "media" && c.prim != "multi" && c.prim != "bad" {
				return nil, nil, false
			}
			c.lead, c.closeAt = lead != 0, int(ca)
			for k := 0; k < int(n); k++ {
				c.streams = append(c.streams, &rbStream{})
			}
		case "hex":
			if i == 0 {
				return nil, nil, false
			}
			seq, ok := tcInt(m, "seq")
			if !ok || m["name"] == "" {
				return nil, nil, false
			}
			var d []byte
			if m["data"] != "-" {
				var err error
				d, err = hex.DecodeString(m["data"])
				if err != nil {
					return nil, nil, false
				}
			}
			c.hex = append(c.hex, rbHex{name: m["name"], seq: int(seq), data: d})
		case "st", "trk", "pl", "f", "pt", "ti":
			if i == 0 {
				return nil, nil, false
			}
			if op == "st" {
				s, ok := tcInt(m, "s")
				if !ok || s < 0 || int(s) >= len(c.streams) {
					return nil, nil, false
				}
				if m["order"] != "-" {
					v, ok := tcInts(m["order"])
					if !ok {
						return nil, nil, false
					}
					for _, x := range v {
						c.streams[s].order = append(c.streams[s].order, int(x))
					}
				}
			}
			views = append(views, l)
		default:
			return nil, nil, false
		}
	}
	if c.cmp == "" {
		return nil, nil, false
	}
	return c, views, true
}
