package main

import (
	"fmt"
	"math/rand"
	"os"
	"path/filepath"
	"regexp"
	"strconv"
	"strings"
)

// muxfault slice: the muxer correspondence cases on Directory storage with STORAGE FAILURES injected from
// outside (the path of the next segment file of every stream is occupied by a directory, so that creating
// it fails; later the obstacle is removed again). The Lean muxer model does not cover storage failures, so
// this stream has NO model side: every op is observed as "-" (driver drv_null prints the same) and the
// cases are judged by the direct oracle only - the snapshot clauses of C04 / C05 / C18 that do not
// presuppose successful writes, and C07's "no file left after Close".
//
//	sabotage     occupy <prefix>_<stream>_seg<N+1>.<ext> for every stream (N = highest segment file present)
//	unsabotage   remove the obstacles again

type muxfaultSlice struct{}

func init() { register(muxfaultSlice{}) }

func (muxfaultSlice) Name() string { return "muxfault" }

func (muxfaultSlice) Corpus() [][]string { return nil }

func (muxfaultSlice) Gen(r *rand.Rand, i int, tier string) ([]string, []string) {
	var ops, tags []string
	for {
		ops, tags = muxerSlice{}.Gen(r, i, "quick")
		if strings.Contains(ops[0], " dir=1") {
			break
		}
	}
	var out []string
	// fMP4 variants with an H264 track (no frame reordering): 1 case in 3 also gets an unparsable SPS
	h264Track := ""
	for i, l := range ops {
		if strings.HasPrefix(l, "track codec=h264") && !strings.Contains(l, "bf=1") {
			h264Track = strconv.Itoa(i - 1)
		}
	}
	badSPS := h264Track != "" && !strings.Contains(ops[0], "v=ts") && r.Intn(3) == 0
	badDone := false
	if badSPS {
		tags = append(tags, "bad-sps")
	}
	writes := 0
	armed, left := false, 0
	faults := 0
	for _, l := range ops {
		switch strings.Fields(l)[0] {
		case "req", "reqrel", "gethint", "close":
			continue // blocking requests are C06's; Close comes last
		}
		if strings.HasPrefix(l, "w ") {
			writes++
			// an access unit that is only a truncated SPS: accepted (nothing to mux), but it replaces the track's
			// parameters, forces a segment switch, and the init file of the next rotation cannot be generated
			if badSPS && !badDone && writes > 8 && strings.HasPrefix(l, "w t="+h264Track+" ") && r.Intn(12) == 0 {
				a := kvs(strings.Fields(l)[1:])
				out = append(out, fmt.Sprintf("badsps t=%s pts=%d ntp=%s", h264Track, atoi64(a["pts"])-1, a["ntp"]))
				badDone = true
				faults++
			}
			if !armed && writes > 8 && faults < 3 && r.Intn(25) == 0 {
				out = append(out, "sabotage")
				armed, left = true, 1+r.Intn(12)
				faults++
			}
		}
		out = append(out, l)
		if armed && strings.HasPrefix(l, "w ") {
			left--
			if left <= 0 {
				out = append(out, "unsabotage")
				if r.Intn(2) == 0 {
					out = append(out, "snap")
				}
				armed = false
			}
		}
	}
	if armed {
		if r.Intn(2) == 0 {
			out = append(out, "unsabotage")
		} else {
			tags = append(tags, "close-while-sabotaged")
		}
	}
	out = append(out, "snap", "close")
	tags = append(tags, "faults="+strconv.Itoa(faults))
	return out, tags
}

type mfRunner struct {
	in        *mxRunner
	obstacles []string
	initOK    map[string]bool // init keys that were served with status 200 and a body at an earlier snapshot
}

func (muxfaultSlice) NewRunner() Runner {
	return &mfRunner{in: muxerSlice{}.NewRunner().(*mxRunner)}
}

func (r *mfRunner) Close() {
	r.clear()
	r.in.Close()
}

// Oracle: the inner runner's direct-oracle lines minus the clauses that presuppose an open segment after every write
// (the unchanged tree has none after a failed rotation), so that they do not crowd out the others.
func (r *mfRunner) Oracle() []string {
	all := append([]string{}, r.in.fails...)
	if r.in.orc != nil {
		all = append(all, r.in.orc.fails...)
	}
	var out []string
	for _, l := range all {
		if strings.Contains(l, "files in Directory, expected") || strings.Contains(l, "TARGETDURATION 0 <") ||
			strings.Contains(l, "disagree") {
			continue
		}
		out = append(out, l)
	}
	if len(out) > 8 {
		out = out[:8]
	}
	return out
}

var mfFileRe = regexp.MustCompile(`^([0-9a-f]{12}_[a-z]+[0-9]*_seg)([0-9]+)\.(mp4|ts)$`)

func (r *mfRunner) clear() {
	for _, p := range r.obstacles {
		os.Remove(p)
	}
	r.obstacles = nil
}

func (r *mfRunner) Step(line string) []string {
	switch strings.TrimSpace(line) {
	case "sabotage":
		if r.in.dir == "" {
			return []string{"-"}
		}
		hi := map[string]int{}
		ext := map[string]string{}
		ents, _ := os.ReadDir(r.in.dir)
		for _, e := range ents {
			if m := mfFileRe.FindStringSubmatch(e.Name()); m != nil && !e.IsDir() {
				n, _ := strconv.Atoi(m[2])
				if v, ok := hi[m[1]]; !ok || n > v {
					hi[m[1]] = n
				}
				ext[m[1]] = m[3]
			}
		}
		for base, n := range hi {
			p := filepath.Join(r.in.dir, fmt.Sprintf("%s%d.%s", base, n+1, ext[base]))
			if os.Mkdir(p, 0o755) == nil {
				r.obstacles = append(r.obstacles, p)
			}
		}
		return []string{"-"}
	case "unsabotage":
		r.clear()
		return []string{"-"}
	}
	if strings.HasPrefix(line, "badsps ") {
		a := kvs(strings.Fields(line)[1:])
		ti := int(atoi64(a["t"]))
		if r.in.started && ti < len(r.in.tracks) {
			func() {
				defer func() { recover() }() //nolint:errcheck
				r.in.m.WriteH264(r.in.tracks[ti].track, mxInZone(atoi64(a["ntp"])), atoi64(a["pts"]), [][]byte{{0x67, 0x42}}) //nolint:errcheck
			}()
		}
		return []string{"-"}
	}
	if strings.HasPrefix(line, "snap") || strings.HasPrefix(line, "close") {
		// obstacles are directories, not files of the muxer: take them out of the way of the directory listing
		saved := r.obstacles
		r.clear()
		defer func() {
			if strings.HasPrefix(line, "snap") {
				for _, p := range saved {
					if os.Mkdir(p, 0o755) == nil {
						r.obstacles = append(r.obstacles, p)
					}
				}
			}
		}()
	}
	if strings.HasPrefix(line, "snap") && r.in.started {
		defer r.checkInits()
	}
	func() {
		// after a failed rotation the unchanged tree's playlist handler of a Low-Latency / fMP4 stream panics
		// (nil open segment in generateMediaPlaylistFMP4; DESIGN 14, observation O2): outside the properties'
		// quantifiers, not judged here
		defer func() { recover() }() //nolint:errcheck
		r.in.Step(line)
	}()
	return []string{"-"}
}


// checkInits: an init file that was served once and is still advertised by EXT-X-MAP must keep being served
// (its bytes may change with the codec parameters): the unchanged tree keeps serving the cached init when a
// regeneration fails.
func (r *mfRunner) checkInits() {
	defer func() { recover() }() //nolint:errcheck
	if r.initOK == nil {
		r.initOK = map[string]bool{}
	}
	for _, k := range r.in.listed {
		if !strings.HasPrefix(k, "init") {
			continue
		}
		w := r.in.do(r.in.uriOf[k])
		ok := w.Code == 200 && w.Body.Len() > 0
		if r.initOK[k] && !ok {
			r.in.failf("C05 %s was served before and is still advertised by EXT-X-MAP, but now gives status %d with %d bytes", k, w.Code, w.Body.Len())
		}
		if ok {
			r.initOK[k] = true
		}
	}
}
