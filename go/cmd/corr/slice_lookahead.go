package main

import (
	"bytes"
	"fmt"
	"io"
	"math/rand"
	"net/http"
	"strconv"
	"strings"
	"sync"
	"time"

	"github.com/bluenviron/gohlslib/v2"
	"github.com/bluenviron/gohlslib/v2/pkg/codecs"
)

// lookahead slice (C20, end-to-end clause): the real Client against an arbitrarily fast in-process
// server while its consumer (the data callback) is blocked. "In the non-Low-Latency modes the downloader
// never holds more than two downloaded segments waiting while another is being processed."

type lookaheadSlice struct{}

func init() { register(lookaheadSlice{}) }

func (lookaheadSlice) Name() string { return "lookahead" }

func (lookaheadSlice) Corpus() [][]string {
	return [][]string{
		{"la kind=vod n=8 fmp4=0"},
		{"la kind=endlist n=9 fmp4=1"},
		{"la kind=live n=5 fmp4=0"},
		{"la kind=vod n=9 fmp4=1 parts=3"},
		{"la kind=live n=6 fmp4=1 parts=2"},
		{"la kind=vod n=8 fmp4=1 parts=2 block=1"},
		{"la kind=endlist n=10 fmp4=1 parts=3 block=5"},
		{"la kind=vod n=8 fmp4=0 parts=1 block=2"},
	}
}

func (lookaheadSlice) Gen(r *rand.Rand, _ int, _ string) ([]string, []string) {
	kind := []string{"vod", "endlist", "live", "event"}[r.Intn(4)]
	n := 1 + r.Intn(12)
	f := r.Intn(2)
	// fMP4 segments made of several moof/mdat pairs (what a Low-Latency muxer writes; a non-LL client fetches them whole)
	parts := 1
	if f == 1 && r.Intn(2) == 0 {
		parts = 2 + r.Intn(3)
	}
	// the unit the consumer gets stuck on: any unit of the first three segments
	block := 0
	if r.Intn(3) != 0 {
		block = r.Intn(parts * min(n, 3))
	}
	return []string{fmt.Sprintf("la kind=%s n=%d fmp4=%d parts=%d block=%d", kind, n, f, parts, block)},
		[]string{"kind=" + kind, "fmp4=" + strconv.Itoa(f), "parts=" + strconv.Itoa(parts), "blockseg=" + strconv.Itoa(block/parts)}
}

type laRunner struct{ fails []string }

func (lookaheadSlice) NewRunner() Runner { return &laRunner{} }
func (r *laRunner) Close()              {}
func (r *laRunner) Oracle() []string    { return r.fails }

type laServer struct {
	mu       sync.Mutex
	kind     string
	n        int
	fmp4     bool
	parts    int
	polls    int
	segReqs  []int
	activity time.Time
}

func (s *laServer) playlist() []byte {
	var b strings.Builder
	b.WriteString("#EXTM3U\n#EXT-X-VERSION:7\n#EXT-X-TARGETDURATION:1\n")
	first, count := 0, s.n
	switch s.kind {
	case "vod":
		b.WriteString("#EXT-X-PLAYLIST-TYPE:VOD\n")
	case "event":
		b.WriteString("#EXT-X-PLAYLIST-TYPE:EVENT\n")
	case "live":
		// a live window that grows by one segment at every poll: the server is always ahead of the client
		count = s.n + s.polls
	}
	fmt.Fprintf(&b, "#EXT-X-MEDIA-SEQUENCE:%d\n", first)
	if s.fmp4 {
		b.WriteString("#EXT-X-MAP:URI=\"init.mp4\"\n")
	}
	for i := 0; i < count; i++ {
		ext := "ts"
		if s.fmp4 {
			ext = "mp4"
		}
		fmt.Fprintf(&b, "#EXTINF:0.00100,\nseg%d.%s\n", first+i, ext)
	}
	if s.kind != "live" {
		b.WriteString("#EXT-X-ENDLIST\n")
	}
	return []byte(b.String())
}

func (s *laServer) RoundTrip(req *http.Request) (*http.Response, error) {
	s.mu.Lock()
	defer s.mu.Unlock()
	s.activity = time.Now()
	p := req.URL.Path
	var body []byte
	switch {
	case strings.HasSuffix(p, ".m3u8"):
		body = s.playlist()
		s.polls++
	case strings.HasSuffix(p, "init.mp4"):
		body = selFMP4Init()
	default:
		name := p[strings.LastIndexByte(p, '/')+1:]
		k, _ := strconv.Atoi(strings.TrimSuffix(strings.TrimSuffix(strings.TrimPrefix(name, "seg"), ".ts"), ".mp4"))
		s.segReqs = append(s.segReqs, k)
		if s.fmp4 {
			body = nil
			for j := 0; j < s.parts; j++ {
				body = append(body, selFMP4Part(k*s.parts+j)...)
			}
		} else {
			body = selMPEGTSSegment(k)
		}
	}
	return &http.Response{StatusCode: 200, Status: "200 OK", Proto: "HTTP/1.1", ProtoMajor: 1, ProtoMinor: 1,
		Header: http.Header{}, Body: io.NopCloser(bytes.NewReader(body)), ContentLength: int64(len(body)), Request: req}, nil
}

func (r *laRunner) Step(line string) []string {
	ws := strings.Fields(line)
	if len(ws) == 0 || ws[0] != "la" {
		return []string{"bad-op"}
	}
	a := kvs(ws[1:])
	n, _ := strconv.Atoi(a["n"])
	np, _ := strconv.Atoi(a["parts"])
	if np < 1 {
		np = 1
	}
	sv := &laServer{kind: a["kind"], n: n, fmp4: a["fmp4"] == "1", parts: np, activity: time.Now()}

	parked := make(chan struct{}, 64)
	gohlslib.VerifSetYieldHook(func(p string) {
		if p == "queue.waitbelow.afterunlock" {
			select {
			case parked <- struct{}{}:
			default:
			}
		}
	})
	defer gohlslib.VerifSetYieldHook(nil)

	release := make(chan struct{})
	first := make(chan struct{}, 1)
	var once sync.Once
	block, _ := strconv.Atoi(a["block"])
	if block >= np*n {
		block = 0
	}
	var unitMu sync.Mutex
	units := 0
	cl := &gohlslib.Client{
		URI:        "http://origin/stream.m3u8",
		HTTPClient: &http.Client{Transport: sv},
	}
	cl.OnTracks = func(tracks []*gohlslib.Track) error {
		for _, t := range tracks {
			if _, ok := t.Codec.(*codecs.H264); ok {
				cl.OnDataH26x(t, func(_ int64, _ int64, _ [][]byte) {
					unitMu.Lock()
					mine := units
					units++
					unitMu.Unlock()
					if mine < block {
						return
					}
					once.Do(func() { first <- struct{}{} })
					<-release // the consumer is busy with this unit until released
				})
			}
		}
		return nil
	}
	if err := cl.Start(); err != nil {
		return []string{"la start-error"}
	}
	bound := 3 // one being processed + two waiting
	blockSeg := block / np // the segment being processed when the consumer gets stuck
	outcome := "ok"
	select {
	case <-first:
	case err := <-cl.Wait():
		close(release)
		return []string{fmt.Sprintf("la bound=%d", bound), "la early-end " + selClassify(err)}[:1]
	case <-time.After(5 * time.Second):
		outcome = "no-delivery"
	}
	// the consumer is blocked: wait until the downloader is throttled (parked in waitUntilSizeIsBelow) or idle
	deadline := time.After(3 * time.Second)
	settled := false
	for !settled {
		select {
		case <-parked:
			// it may be woken by nobody (consumer blocked); one more look after a grace period for in-flight requests
			time.Sleep(5 * time.Millisecond)
			settled = true
		case <-deadline:
			settled = true
		case <-time.After(20 * time.Millisecond):
			sv.mu.Lock()
			quiet := time.Since(sv.activity)
			sv.mu.Unlock()
			if quiet > 400*time.Millisecond {
				settled = true
			}
		}
	}
	sv.mu.Lock()
	reqs := append([]int(nil), sv.segReqs...)
	sv.mu.Unlock()
	if outcome == "ok" && len(reqs) > blockSeg+bound {
		r.fails = append(r.fails, fmt.Sprintf("C20 look-ahead: %d segments %v were downloaded while segment %d was still being processed (bound %d = 1 in process + 2 waiting); kind=%s n=%d fmp4=%v parts=%d block=%d",
			len(reqs), reqs, blockSeg, bound, sv.kind, sv.n, sv.fmp4, sv.parts, block))
	}
	for i := 1; i < len(reqs); i++ {
		if reqs[i] != reqs[i-1]+1 {
			r.fails = append(r.fails, fmt.Sprintf("C20 look-ahead: segments requested out of order %v", reqs))
		}
	}
	close(release)
	cl.Close()
	select {
	case <-cl.Wait():
	case <-time.After(3 * time.Second):
		r.fails = append(r.fails, "C20 look-ahead: client did not terminate after Close")
	}
	return []string{fmt.Sprintf("la bound=%d", bound)}
}
