package main

// An independent, strict recogniser of MEDIA playlists written from RFC 8216 §4
// and draft-pantos-hls-rfc8216bis (LL-HLS tags).  It shares no code with
// pkg/playlist.  The Lean recogniser Hls/Playlist/MediaGrammar.lean is the same
// grammar; the two are cross-checked by the `playlist` stream (field g= of `unm`).
//
// Strict means: #EXTM3U first; only known media-playlist tags; every tag where and as
// often as it is allowed; attribute lists without blanks, every attribute known for its
// tag, at most once, with a value of the lexical class the RFC prescribes, required
// attributes present; every URI line preceded by exactly one EXTINF.

import (
	"fmt"
	"strings"
)

type plGrammarOpts struct {
	// RFC 8216 §4.3.2.5 and 8216bis §4.4.4.9 make BYTERANGE of EXT-X-MAP / EXT-X-PART a
	// quoted-string. lenientByteRange also accepts the unquoted n[@o] form.
	lenientByteRange bool
}

type plLex int

const (
	lexInt plLex = iota
	lexHex
	lexFloat
	lexSignedFloat
	lexQuoted
	lexEnum
	lexQuotedRange // quoted-string holding n[@o]
)

type plAttrSpec struct {
	lex      plLex
	required bool
	enum     []string
}

var plTagAttrs = map[string]map[string]plAttrSpec{
	"#EXT-X-START": {
		"TIME-OFFSET": {lex: lexSignedFloat, required: true},
		"PRECISE":     {lex: lexEnum, enum: []string{"YES", "NO"}},
	},
	"#EXT-X-SERVER-CONTROL": {
		"CAN-SKIP-UNTIL":      {lex: lexFloat},
		"CAN-SKIP-DATERANGES": {lex: lexEnum, enum: []string{"YES"}},
		"HOLD-BACK":           {lex: lexFloat},
		"PART-HOLD-BACK":      {lex: lexFloat},
		"CAN-BLOCK-RELOAD":    {lex: lexEnum, enum: []string{"YES"}},
	},
	"#EXT-X-PART-INF": {
		"PART-TARGET": {lex: lexFloat, required: true},
	},
	"#EXT-X-MAP": {
		"URI":       {lex: lexQuoted, required: true},
		"BYTERANGE": {lex: lexQuotedRange},
	},
	"#EXT-X-KEY": {
		"METHOD":            {lex: lexEnum, required: true, enum: []string{"NONE", "AES-128", "SAMPLE-AES"}},
		"URI":               {lex: lexQuoted},
		"IV":                {lex: lexHex},
		"KEYFORMAT":         {lex: lexQuoted},
		"KEYFORMATVERSIONS": {lex: lexQuoted},
	},
	"#EXT-X-SKIP": {
		"SKIPPED-SEGMENTS":            {lex: lexInt, required: true},
		"RECENTLY-REMOVED-DATERANGES": {lex: lexQuoted},
	},
	"#EXT-X-PART": {
		"URI":         {lex: lexQuoted, required: true},
		"DURATION":    {lex: lexFloat, required: true},
		"INDEPENDENT": {lex: lexEnum, enum: []string{"YES"}},
		"BYTERANGE":   {lex: lexQuotedRange},
		"GAP":         {lex: lexEnum, enum: []string{"YES"}},
	},
	"#EXT-X-PRELOAD-HINT": {
		"TYPE":             {lex: lexEnum, required: true, enum: []string{"PART", "MAP"}},
		"URI":              {lex: lexQuoted, required: true},
		"BYTERANGE-START":  {lex: lexInt},
		"BYTERANGE-LENGTH": {lex: lexInt},
	},
}

func plAllDigits(s string) bool {
	if s == "" {
		return false
	}
	for i := 0; i < len(s); i++ {
		if s[i] < '0' || s[i] > '9' {
			return false
		}
	}
	return true
}

func plIsDecInt(s string) bool { return plAllDigits(s) && len(s) <= 20 }

func plIsFloat(s string) bool {
	i := strings.IndexByte(s, '.')
	if i < 0 {
		return plAllDigits(s)
	}
	return plAllDigits(s[:i]) && plAllDigits(s[i+1:])
}

func plIsSignedFloat(s string) bool {
	if strings.HasPrefix(s, "-") {
		s = s[1:]
	}
	return plIsFloat(s)
}

func plIsRange(s string) bool {
	i := strings.IndexByte(s, '@')
	if i < 0 {
		return plIsDecInt(s)
	}
	return plIsDecInt(s[:i]) && plIsDecInt(s[i+1:])
}

func plIsQuoted(s string) bool {
	if len(s) < 2 || s[0] != '"' || s[len(s)-1] != '"' {
		return false
	}
	return !strings.ContainsAny(s[1:len(s)-1], "\"\r\n")
}

func plIsAttrName(s string) bool {
	if s == "" {
		return false
	}
	for i := 0; i < len(s); i++ {
		c := s[i]
		if !(c >= 'A' && c <= 'Z' || c >= '0' && c <= '9' || c == '-') {
			return false
		}
	}
	return true
}

func plTwoDigits(s string, lo, hi int) bool {
	if len(s) != 2 || !plAllDigits(s) {
		return false
	}
	v := int(s[0]-'0')*10 + int(s[1]-'0')
	return v >= lo && v <= hi
}

// date-time-msec: YYYY-MM-DDThh:mm:ss[.fff…](Z|±hh:mm|±hhmm)
func plIsDateTime(s string) bool {
	if len(s) < 20 {
		return false
	}
	if !plAllDigits(s[0:4]) || s[4] != '-' || !plTwoDigits(s[5:7], 1, 12) || s[7] != '-' || !plTwoDigits(s[8:10], 1, 31) ||
		s[10] != 'T' || !plTwoDigits(s[11:13], 0, 23) || s[13] != ':' || !plTwoDigits(s[14:16], 0, 59) || s[16] != ':' ||
		!plTwoDigits(s[17:19], 0, 60) {
		return false
	}
	r := s[19:]
	if r[0] == '.' {
		j := 1
		for j < len(r) && r[j] >= '0' && r[j] <= '9' {
			j++
		}
		if j == 1 {
			return false
		}
		r = r[j:]
	}
	switch {
	case r == "Z":
		return true
	case len(r) == 6 && (r[0] == '+' || r[0] == '-') && r[3] == ':':
		return plTwoDigits(r[1:3], 0, 23) && plTwoDigits(r[4:6], 0, 59)
	case len(r) == 5 && (r[0] == '+' || r[0] == '-'):
		return plTwoDigits(r[1:3], 0, 23) && plTwoDigits(r[3:5], 0, 59)
	}
	return false
}

func plCheckAttrs(tag, body string, o plGrammarOpts) error {
	spec := plTagAttrs[tag]
	if body == "" {
		if tag == "#EXT-X-SERVER-CONTROL" {
			return nil // every attribute of this tag is optional
		}
		return fmt.Errorf("%s: empty attribute list", tag)
	}
	seen := map[string]string{}
	// split at commas outside quoted strings
	var items []string
	inq, st := false, 0
	for i := 0; i < len(body); i++ {
		switch {
		case body[i] == '"':
			inq = !inq
		case body[i] == ',' && !inq:
			items = append(items, body[st:i])
			st = i + 1
		}
	}
	if inq {
		return fmt.Errorf("%s: unterminated quoted-string", tag)
	}
	items = append(items, body[st:])
	for _, it := range items {
		eq := strings.IndexByte(it, '=')
		if eq < 0 {
			return fmt.Errorf("%s: attribute without '=': %q", tag, it)
		}
		name, val := it[:eq], it[eq+1:]
		if !plIsAttrName(name) {
			return fmt.Errorf("%s: bad attribute name %q", tag, name)
		}
		as, ok := spec[name]
		if !ok {
			return fmt.Errorf("%s: attribute %s not defined for this tag", tag, name)
		}
		if _, dup := seen[name]; dup {
			return fmt.Errorf("%s: attribute %s appears twice", tag, name)
		}
		seen[name] = val
		good := false
		switch as.lex {
		case lexInt:
			good = plIsDecInt(val)
		case lexHex:
			good = plIsHexSeq(val)
		case lexFloat:
			good = plIsFloat(val)
		case lexSignedFloat:
			good = plIsSignedFloat(val)
		case lexQuoted:
			good = plIsQuoted(val)
		case lexQuotedRange:
			good = plIsQuoted(val) && plIsRange(val[1:len(val)-1])
			if !good && o.lenientByteRange {
				good = plIsRange(val)
			}
		case lexEnum:
			for _, e := range as.enum {
				if val == e {
					good = true
				}
			}
		}
		if !good {
			return fmt.Errorf("%s: attribute %s has a value of the wrong lexical class: %q", tag, name, val)
		}
	}
	for n, as := range spec {
		if _, ok := seen[n]; as.required && !ok {
			return fmt.Errorf("%s: required attribute %s missing", tag, n)
		}
	}
	if tag == "#EXT-X-KEY" {
		if seen["METHOD"] == "NONE" {
			if len(seen) != 1 {
				return fmt.Errorf("%s: METHOD=NONE with other attributes", tag)
			}
		} else if _, ok := seen["URI"]; !ok {
			return fmt.Errorf("%s: URI required unless METHOD=NONE", tag)
		}
	}
	return nil
}

// plGrammarCheck returns nil iff b is a grammatical media playlist.
func plGrammarCheck(b []byte, o plGrammarOpts) error {
	s := string(b)
	lines := strings.Split(s, "\n")
	if len(lines) > 0 && lines[len(lines)-1] == "" {
		lines = lines[:len(lines)-1] // final line terminator
	}
	for i := range lines {
		lines[i] = strings.TrimSuffix(lines[i], "\r")
		if strings.ContainsAny(lines[i], "\r") {
			return fmt.Errorf("line %d: stray CR", i+1)
		}
	}
	if len(lines) == 0 || lines[0] != "#EXTM3U" {
		return fmt.Errorf("first line is not #EXTM3U")
	}
	once := map[string]bool{}
	segments := 0
	sawDiscontinuity := false
	// tags applying to the next media segment
	extinf, byterange, gap, disc, pdt, bitrate := false, false, false, false, false, false
	for n, l := range lines[1:] {
		ln := n + 2
		fail := func(f string, a ...any) error { return fmt.Errorf("line %d: %s", ln, fmt.Sprintf(f, a...)) }
		if l == "" {
			continue
		}
		if l[0] != '#' {
			// URI line
			if !extinf {
				return fail("URI line without EXTINF")
			}
			segments++
			extinf, byterange, gap, disc, pdt, bitrate = false, false, false, false, false, false
			continue
		}
		if !strings.HasPrefix(l, "#EXT") {
			continue // comment
		}
		name, val, hasVal := l, "", false
		if i := strings.IndexByte(l, ':'); i >= 0 {
			name, val, hasVal = l[:i], l[i+1:], true
		}
		onceOnly := func() error {
			if once[name] {
				return fail("%s appears more than once", name)
			}
			once[name] = true
			return nil
		}
		switch name {
		case "#EXTM3U":
			return fail("#EXTM3U repeated")
		case "#EXT-X-VERSION", "#EXT-X-TARGETDURATION", "#EXT-X-MEDIA-SEQUENCE", "#EXT-X-DISCONTINUITY-SEQUENCE":
			if err := onceOnly(); err != nil {
				return err
			}
			if !hasVal || !plIsDecInt(val) {
				return fail("%s needs a decimal-integer", name)
			}
			if name == "#EXT-X-MEDIA-SEQUENCE" && segments > 0 {
				return fail("EXT-X-MEDIA-SEQUENCE after the first media segment")
			}
			if name == "#EXT-X-DISCONTINUITY-SEQUENCE" && (segments > 0 || sawDiscontinuity) {
				return fail("EXT-X-DISCONTINUITY-SEQUENCE after the first media segment / discontinuity")
			}
		case "#EXT-X-INDEPENDENT-SEGMENTS", "#EXT-X-ENDLIST":
			if err := onceOnly(); err != nil {
				return err
			}
			if hasVal {
				return fail("%s takes no value", name)
			}
		case "#EXT-X-ALLOW-CACHE":
			if err := onceOnly(); err != nil {
				return err
			}
			if val != "YES" && val != "NO" {
				return fail("EXT-X-ALLOW-CACHE must be YES or NO")
			}
		case "#EXT-X-PLAYLIST-TYPE":
			if err := onceOnly(); err != nil {
				return err
			}
			if val != "EVENT" && val != "VOD" {
				return fail("EXT-X-PLAYLIST-TYPE must be EVENT or VOD")
			}
		case "#EXT-X-START", "#EXT-X-SERVER-CONTROL", "#EXT-X-PART-INF", "#EXT-X-SKIP":
			if err := onceOnly(); err != nil {
				return err
			}
			if !hasVal {
				return fail("%s needs an attribute list", name)
			}
			if err := plCheckAttrs(name, val, o); err != nil {
				return fail("%v", err)
			}
			if name == "#EXT-X-SKIP" && segments > 0 {
				return fail("EXT-X-SKIP after a media segment")
			}
		case "#EXT-X-MAP", "#EXT-X-KEY", "#EXT-X-PART":
			if !hasVal {
				return fail("%s needs an attribute list", name)
			}
			if err := plCheckAttrs(name, val, o); err != nil {
				return fail("%v", err)
			}
		case "#EXT-X-PRELOAD-HINT":
			if !hasVal {
				return fail("%s needs an attribute list", name)
			}
			if err := plCheckAttrs(name, val, o); err != nil {
				return fail("%v", err)
			}
			k := name + " " + map[bool]string{true: "PART", false: "MAP"}[strings.Contains(val, "TYPE=PART")]
			if once[k] {
				return fail("more than one EXT-X-PRELOAD-HINT of one TYPE")
			}
			once[k] = true
		case "#EXT-X-DISCONTINUITY":
			if hasVal || disc {
				return fail("EXT-X-DISCONTINUITY malformed or repeated for one segment")
			}
			disc, sawDiscontinuity = true, true
		case "#EXT-X-GAP":
			if hasVal || gap {
				return fail("EXT-X-GAP malformed or repeated for one segment")
			}
			gap = true
		case "#EXT-X-PROGRAM-DATE-TIME":
			if pdt || !plIsDateTime(val) {
				return fail("EXT-X-PROGRAM-DATE-TIME malformed or repeated for one segment")
			}
			pdt = true
		case "#EXT-X-BITRATE":
			if bitrate || !hasVal || !plIsDecInt(val) {
				return fail("EXT-X-BITRATE malformed or repeated for one segment")
			}
			bitrate = true
		case "#EXTINF":
			if extinf {
				return fail("two EXTINF for one segment")
			}
			i := strings.IndexByte(val, ',')
			if !hasVal || i < 0 || !plIsFloat(val[:i]) {
				return fail("EXTINF needs <duration>,[<title>]")
			}
			extinf = true
		case "#EXT-X-BYTERANGE":
			if byterange || !hasVal || !plIsRange(val) {
				return fail("EXT-X-BYTERANGE malformed or repeated for one segment")
			}
			byterange = true
		default:
			return fail("tag %s is not a media playlist tag", name)
		}
	}
	if !once["#EXT-X-TARGETDURATION"] {
		return fmt.Errorf("EXT-X-TARGETDURATION missing")
	}
	if extinf || byterange || gap {
		return fmt.Errorf("segment tags at the end without a URI line")
	}
	return nil
}
