package main

import (
	"fmt"

	"github.com/bluenviron/mediacommon/v2/pkg/formats/fmp4"
)

// Hand-kept cases of the `process` slice: the inputs of F8 / F9 / F17 and one case per rejection the property names.

func rbCorpusStream(tracks []*fmp4.InitTrack, files []fmp4.Parts) *rbScnStream {
	return &rbScnStream{container: "fmp4", ext: "mp4", init: &fmp4.Init{Tracks: tracks}, parts: files, mode: "vod", endlist: true}
}

func rbSmp(kind string, n int, dur uint32) []*fmp4.PartSample {
	var out []*fmp4.PartSample
	for i := 0; i < n; i++ {
		out = append(out, &fmp4.PartSample{Duration: dur, Payload: rbFMP4Payload(kind, int64(i+1), i == 0, false)})
	}
	return out
}

func (processSlice) Corpus() [][]string {
	var out [][]string
	add := func(sc *rbScn) {
		for _, st := range sc.streams {
			if err := st.build(); err != nil {
				return
			}
		}
		sc.closeAt = -1
		sc.faults = 1
		out = append(out, sc.toCase().ops())
	}
	h264 := func(id int) *fmp4.InitTrack {
		return &fmp4.InitTrack{ID: id, TimeScale: 90000, Codec: rbFMP4Codec("H264")}
	}
	// F8: H264 + MPEG-1 audio (a codec FromFMP4 does not know), both with data
	add(&rbScn{prim: "media", lead: true, audio: "none", must: "ok", fault: "F8-unsupported-codec-next-to-h264", streams: []*rbScnStream{
		rbCorpusStream([]*fmp4.InitTrack{h264(1), {ID: 2, TimeScale: 48000, Codec: rbFMP4Codec("MPEG1Audio")}},
			[]fmp4.Parts{{{SequenceNumber: 1, Tracks: []*fmp4.PartTrack{
				{ID: 1, BaseTime: 1000, Samples: rbSmp("H264", 2, 300)},
				{ID: 2, BaseTime: 533, Samples: rbSmp("MPEG1Audio", 2, 100)}}}}})}})
	// F8: MJPEG as the (would-be leading) video track next to AAC
	add(&rbScn{prim: "media", lead: true, audio: "none", must: "ok", fault: "F8-unsupported-video", streams: []*rbScnStream{
		rbCorpusStream([]*fmp4.InitTrack{{ID: 1, TimeScale: 90000, Codec: rbFMP4Codec("MJPEG")}, {ID: 2, TimeScale: 44100, Codec: rbFMP4Codec("MPEG4Audio")}},
			[]fmp4.Parts{{{SequenceNumber: 1, Tracks: []*fmp4.PartTrack{
				{ID: 1, BaseTime: 1000, Samples: rbSmp("MJPEG", 1, 300)},
				{ID: 2, BaseTime: 490, Samples: rbSmp("MPEG4Audio", 2, 100)}}}}})}})
	// F9: zero time scale on the leading track / on another track
	for _, which := range []int{0, 1} {
		tr := []*fmp4.InitTrack{h264(1), {ID: 2, TimeScale: 44100, Codec: rbFMP4Codec("MPEG4Audio")}}
		tr[which].TimeScale = 0
		add(&rbScn{prim: "media", lead: true, audio: "none", must: "err", fault: "F9-zero-timescale", streams: []*rbScnStream{
			rbCorpusStream(tr, []fmp4.Parts{{{SequenceNumber: 1, Tracks: []*fmp4.PartTrack{
				{ID: 1, BaseTime: 1000, Samples: rbSmp("H264", 1, 300)}, {ID: 2, BaseTime: 5, Samples: rbSmp("MPEG4Audio", 1, 10)}}}}})}})
	}
	// F17: one segment of 7 fragments × 2 tracks = 14 part-tracks
	{
		var ps fmp4.Parts
		for p := 0; p < 7; p++ {
			ps = append(ps, &fmp4.Part{SequenceNumber: uint32(p + 1), Tracks: []*fmp4.PartTrack{
				{ID: 1, BaseTime: uint64(1000 + p*90), Samples: rbSmp("H264", 1, 90)},
				{ID: 2, BaseTime: uint64(533 + p*48), Samples: rbSmp("MPEG4Audio", 1, 48)}}})
		}
		add(&rbScn{prim: "media", lead: true, audio: "none", must: "ok", fault: "F17-many-part-tracks", streams: []*rbScnStream{
			rbCorpusStream([]*fmp4.InitTrack{h264(1), {ID: 2, TimeScale: 48000, Codec: rbFMP4Codec("MPEG4Audio")}}, []fmp4.Parts{ps})}})
	}
	// every fMP4 codec of mediacommon in one init (12 tracks: more than the client accepts once filtered? six remain)
	{
		var tr []*fmp4.InitTrack
		var pts []*fmp4.PartTrack
		for i, k := range rbFMP4Kinds {
			tr = append(tr, &fmp4.InitTrack{ID: i + 1, TimeScale: 1000, Codec: rbFMP4Codec(k)})
			pts = append(pts, &fmp4.PartTrack{ID: i + 1, BaseTime: 5000, Samples: rbSmp(k, 1, 10)})
		}
		add(&rbScn{prim: "media", lead: true, audio: "none", must: "ok", fault: "every-fmp4-codec", streams: []*rbScnStream{
			rbCorpusStream(tr, []fmp4.Parts{{{SequenceNumber: 1, Tracks: pts}}})}})
	}
	// every MPEG-TS codec the writer knows in one PMT
	{
		st := &rbScnStream{container: "ts", ext: "ts", kinds: append([]string{}, rbTSKinds...), mode: "vod", endlist: true}
		var ws []rbTSWrite
		for i := range st.kinds {
			ws = append(ws, rbTSWrite{t: i, pts: int64(90000 + 100*i), dts: int64(90000 + 100*i), pid: int64(i + 1), first: true})
		}
		for i := range st.kinds {
			ws = append(ws, rbTSWrite{t: i, pts: int64(93000 + 100*i), dts: int64(93000 + 100*i), pid: int64(i + 20)})
		}
		st.writes = [][]rbTSWrite{ws}
		add(&rbScn{prim: "media", lead: true, audio: "none", must: "ok", fault: "every-mpegts-codec", streams: []*rbScnStream{st}})
	}
	// rendition with two tracks; mixed containers; no leading data in the second segment
	{
		lead := rbCorpusStream([]*fmp4.InitTrack{h264(1)}, []fmp4.Parts{{{SequenceNumber: 1, Tracks: []*fmp4.PartTrack{{ID: 1, BaseTime: 1000, Samples: rbSmp("H264", 1, 300)}}}}})
		rend := rbCorpusStream([]*fmp4.InitTrack{{ID: 1, TimeScale: 48000, Codec: rbFMP4Codec("Opus")}, {ID: 2, TimeScale: 48000, Codec: rbFMP4Codec("MPEG4Audio")}},
			[]fmp4.Parts{{{SequenceNumber: 1, Tracks: []*fmp4.PartTrack{{ID: 1, BaseTime: 533, Samples: rbSmp("Opus", 1, 100)}}}}})
		add(&rbScn{prim: "multi", lead: true, audio: "found", must: "err", fault: "rendition-multi-track", streams: []*rbScnStream{lead, rend}})
	}
	{
		lead := rbCorpusStream([]*fmp4.InitTrack{h264(1)}, []fmp4.Parts{{{SequenceNumber: 1, Tracks: []*fmp4.PartTrack{{ID: 1, BaseTime: 1000, Samples: rbSmp("H264", 1, 300)}}}}})
		rend := &rbScnStream{container: "ts", ext: "ts", kinds: []string{"MPEG4Audio"}, mode: "vod", endlist: true,
			writes: [][]rbTSWrite{{{t: 0, pts: 90000, dts: 90000, pid: 1, first: true}, {t: 0, pts: 92000, dts: 92000, pid: 2}}}}
		add(&rbScn{prim: "multi", lead: true, audio: "found", must: "err", fault: "mixed-containers", streams: []*rbScnStream{lead, rend}})
	}
	{
		st := rbCorpusStream([]*fmp4.InitTrack{h264(1), {ID: 2, TimeScale: 48000, Codec: rbFMP4Codec("Opus")}}, []fmp4.Parts{
			{{SequenceNumber: 1, Tracks: []*fmp4.PartTrack{{ID: 1, BaseTime: 1000, Samples: rbSmp("H264", 1, 300)}, {ID: 2, BaseTime: 533, Samples: rbSmp("Opus", 1, 100)}}}},
			{{SequenceNumber: 2, Tracks: []*fmp4.PartTrack{{ID: 2, BaseTime: 633, Samples: rbSmp("Opus", 1, 100)}}}}})
		add(&rbScn{prim: "media", lead: true, audio: "none", must: "err", fault: "no-leading-data", streams: []*rbScnStream{st}})
	}
	// F15: rendition segments without any sample (`moof` without `traf`) — first and middle one, then data; and the last one
	{
		mk := func(empty []int, leadEmpty bool) *rbScn {
			var lf, rf []fmp4.Parts
			for f := 0; f < 3; f++ {
				lf = append(lf, fmp4.Parts{{SequenceNumber: uint32(f + 1), Tracks: []*fmp4.PartTrack{{ID: 1, BaseTime: uint64(900 + 300*f), Samples: rbSmp("H264", 1, 300)}}}})
				rf = append(rf, fmp4.Parts{{SequenceNumber: uint32(f + 1), Tracks: []*fmp4.PartTrack{{ID: 1, BaseTime: uint64(480 + 160*f), Samples: rbSmp("MPEG4Audio", 1, 160)}}}})
			}
			for _, f := range empty {
				rf[f] = fmp4.Parts{{SequenceNumber: uint32(f + 1)}}
			}
			if leadEmpty {
				lf[1] = fmp4.Parts{{SequenceNumber: 2}}
			}
			lead := rbCorpusStream([]*fmp4.InitTrack{h264(1)}, lf)
			rend := rbCorpusStream([]*fmp4.InitTrack{{ID: 1, TimeScale: 48000, Codec: rbFMP4Codec("MPEG4Audio")}}, rf)
			return &rbScn{prim: "multi", lead: true, audio: "found", streams: []*rbScnStream{lead, rend}}
		}
		a := mk([]int{0, 1}, false)
		a.must, a.fault = "ok", "F15-empty-rendition-segments-first-middle"
		add(a)
		b := mk([]int{2}, false)
		b.must, b.fault = "ok", "F15-empty-rendition-segment-last"
		add(b)
		c := mk([]int{0, 1, 2}, false)
		c.must, c.fault = "ok", "F15-empty-rendition-all"
		add(c)
		d := mk(nil, true)
		d.must, d.fault = "ok", "empty-leading-segment-middle"
		add(d)
		// the leading stream never carries a sample, the rendition does: error at the end of the leading stream, no wedge
		e := mk(nil, false)
		for f := range e.streams[0].parts {
			e.streams[0].parts[f] = fmp4.Parts{{SequenceNumber: uint32(f + 1)}}
		}
		e.must, e.fault = "err", "leading-stream-all-empty"
		add(e)
		// a 200 answer with an EMPTY body (no `moof` at all; e.g. a RAM-stored segment that left the window between lookup and
		// read) is NOT skipped: the client would continue with a hole. Fatal error on a rendition and on the leading stream.
		h := mk(nil, false)
		h.streams[1].parts[1] = nil
		h.must, h.fault = "err", "empty-body-rendition"
		add(h)
		k := mk(nil, false)
		k.streams[0].parts[1] = nil
		k.must, k.fault = "err", "empty-body-leading"
		add(k)
		// a rendition playlist opened directly (its stream is then the leading one) with an empty first and middle part
		g := mk([]int{0, 1}, false)
		g.prim, g.audio, g.streams = "media", "none", g.streams[1:]
		g.must, g.fault = "ok", "F15-rendition-playlist-opened-directly"
		add(g)
	}
	// truncation at EVERY box boundary of an init and of a two-fragment segment (and one byte before it), and at every
	// packet boundary of an MPEG-TS segment: deterministic, on every run
	mkFMP4 := func() *rbScn {
		st := rbCorpusStream([]*fmp4.InitTrack{h264(1), {ID: 2, TimeScale: 44100, Codec: rbFMP4Codec("MPEG4Audio")}}, []fmp4.Parts{{
			{SequenceNumber: 1, Tracks: []*fmp4.PartTrack{{ID: 1, BaseTime: 1000, Samples: rbSmp("H264", 2, 300)}, {ID: 2, BaseTime: 490, Samples: rbSmp("MPEG4Audio", 2, 100)}}},
			{SequenceNumber: 2, Tracks: []*fmp4.PartTrack{{ID: 1, BaseTime: 1600, Samples: rbSmp("H264", 1, 300)}}}}})
		return &rbScn{prim: "media", lead: true, audio: "none", must: "any", streams: []*rbScnStream{st}}
	}
	if probe := mkFMP4(); probe.streams[0].build() == nil {
		for _, p := range rbBoundaries(probe.streams[0].initBytes) {
			if p >= len(probe.streams[0].initBytes) {
				continue
			}
			sc := mkFMP4()
			sc.streams[0].build()
			sc.streams[0].initBytes = sc.streams[0].initBytes[:p]
			sc.closeAt, sc.faults, sc.fault = -1, 1, fmt.Sprintf("bytes:init:trunc@%d", p)
			out = append(out, sc.toCase().ops())
		}
		seg := probe.streams[0].files[0]
		for _, p := range rbBoundaries(seg) {
			for _, q := range []int{p - 1, p} {
				if q < 0 || q >= len(seg) {
					continue
				}
				sc := mkFMP4()
				sc.streams[0].build()
				sc.streams[0].files[0] = sc.streams[0].files[0][:q]
				sc.closeAt, sc.faults, sc.fault = -1, 1, fmt.Sprintf("bytes:seg:trunc@%d", q)
				out = append(out, sc.toCase().ops())
			}
		}
	}
	mkTS := func() *rbScn {
		st := &rbScnStream{container: "ts", ext: "ts", kinds: []string{"H264", "MPEG4Audio"}, mode: "vod", endlist: true,
			writes: [][]rbTSWrite{{{t: 0, pts: 90000, dts: 90000, pid: 1, first: true}, {t: 1, pts: 90000, dts: 90000, pid: 2}, {t: 0, pts: 93000, dts: 93000, pid: 3}, {t: 1, pts: 92000, dts: 92000, pid: 4}},
				{{t: 0, pts: 96000, dts: 96000, pid: 5}, {t: 1, pts: 94000, dts: 94000, pid: 6}}}}
		return &rbScn{prim: "media", lead: true, audio: "none", must: "any", streams: []*rbScnStream{st}}
	}
	if probe := mkTS(); probe.streams[0].build() == nil {
		for f := 0; f < 2; f++ {
			for p := 0; p < len(probe.streams[0].files[f]); p += 188 {
				sc := mkTS()
				sc.streams[0].build()
				sc.streams[0].files[f] = sc.streams[0].files[f][:p]
				sc.closeAt, sc.faults, sc.fault = -1, 1, fmt.Sprintf("bytes:ts%d:trunc@%d", f, p)
				out = append(out, sc.toCase().ops())
			}
		}
	}
	return out
}
