package main

import (
	"bufio"
	"bytes"
	"fmt"
	"io"
	"os"
	"os/exec"
	"strings"
	"sync"
	"time"
)

// Worker child of the select slice: reads the op lines of one case terminated by
// "END", runs them in-process against the real client, answers with
//
//	O <observation line>   …   V <oracle violation>   …   DONE
//
// The parent (selProxyRunner) treats a dead or hung worker as the observation
// `crash:<message>` plus a direct violation, and starts a fresh worker.

func selWorkerMain() {
	in := bufio.NewScanner(os.Stdin)
	in.Buffer(make([]byte, 1<<20), 1<<26)
	out := bufio.NewWriter(os.Stdout)
	var lines []string
	for in.Scan() {
		l := in.Text()
		if l != "END" {
			lines = append(lines, l)
			continue
		}
		r := &selRunner{c: &selCase{}}
		for _, op := range lines {
			for _, o := range r.Step(op) {
				fmt.Fprintln(out, "O "+o)
			}
		}
		for _, v := range r.Oracle() {
			fmt.Fprintln(out, "V "+v)
		}
		fmt.Fprintln(out, "DONE")
		out.Flush()
		lines = nil
	}
}

type selWorker struct {
	cmd    *exec.Cmd
	stdin  io.WriteCloser
	stdout *bufio.Scanner
	stderr *bytes.Buffer
}

var (
	selWorkerMu  sync.Mutex
	selTheWorker *selWorker
)

func selStartWorker() (*selWorker, error) {
	exe, err := os.Executable()
	if err != nil {
		return nil, err
	}
	cmd := exec.Command(exe)
	cmd.Env = append(os.Environ(), "VERIF_SELECT_WORKER=1")
	w := &selWorker{cmd: cmd, stderr: &bytes.Buffer{}}
	cmd.Stderr = w.stderr
	if w.stdin, err = cmd.StdinPipe(); err != nil {
		return nil, err
	}
	so, err := cmd.StdoutPipe()
	if err != nil {
		return nil, err
	}
	w.stdout = bufio.NewScanner(so)
	w.stdout.Buffer(make([]byte, 1<<20), 1<<26)
	if err = cmd.Start(); err != nil {
		return nil, err
	}
	return w, nil
}

func (w *selWorker) kill() {
	w.stdin.Close()
	if w.cmd.Process != nil {
		w.cmd.Process.Kill()
	}
	w.cmd.Wait()
}

type selProxyRunner struct {
	lines  []string
	oracle []string
}

func (r *selProxyRunner) Close() {}

func (r *selProxyRunner) Oracle() []string { return r.oracle }

func (r *selProxyRunner) Step(line string) []string {
	r.lines = append(r.lines, line)
	if strings.TrimSpace(line) != "run" {
		return nil
	}
	lines := r.lines
	r.lines = nil

	selWorkerMu.Lock()
	defer selWorkerMu.Unlock()
	if selTheWorker == nil {
		w, err := selStartWorker()
		if err != nil {
			panic(err)
		}
		selTheWorker = w
	}
	w := selTheWorker
	type result struct {
		obs, viol []string
		ok        bool
	}
	ch := make(chan result, 1)
	go func() {
		var res result
		for _, l := range lines {
			fmt.Fprintln(w.stdin, l)
		}
		fmt.Fprintln(w.stdin, "END")
		for w.stdout.Scan() {
			l := w.stdout.Text()
			switch {
			case l == "DONE":
				res.ok = true
				ch <- res
				return
			case strings.HasPrefix(l, "O "):
				res.obs = append(res.obs, l[2:])
			case strings.HasPrefix(l, "V "):
				res.viol = append(res.viol, l[2:])
			}
		}
		ch <- res
	}()
	var res result
	hung := false
	select {
	case res = <-ch:
	case <-time.After(60 * time.Second):
		hung = true
	}
	if res.ok {
		r.oracle = append(r.oracle, res.viol...)
		return res.obs
	}
	// the worker died (or hangs): that is the observation
	w.kill()
	selTheWorker = nil
	msg := "hang"
	if !hung {
		msg = "exit"
		for _, l := range strings.Split(w.stderr.String(), "\n") {
			if strings.HasPrefix(l, "panic: ") || strings.HasPrefix(l, "fatal error: ") {
				msg = strings.ReplaceAll(strings.TrimSpace(l), " ", "_")
				break
			}
		}
	}
	r.oracle = append(r.oracle, "C11: the client crashed the process ("+msg+")")
	return []string{"crash:" + msg}
}
