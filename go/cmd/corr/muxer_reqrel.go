package main

import (
	"fmt"
	"math/rand"
	"sort"
	"strconv"
	"strings"
	"time"
)

// reqrel: a blocking-reload request placed RELATIVE to the live edge (added by slice muxreq, C06).
//
//	reqrel s=<stream> dm=<k> part=<n | - | o<k>> skip=<YES|v2|NO|-> q=<-|ok|dup|esc|semi>
//
// target msn = nextSegmentID + dm (nextSegmentID = MEDIA-SEQUENCE + #entries of the playlist of the
// same instant; 7 while no playlist is available); part `o<k>` = (#parts of the open segment) + k;
// q = extra query text appended after the directives:
//
//	ok   &foo=bar&a=2&_HLS_x=1      dup  &a=2&a=1&b=3
//	esc  &x=%zz  (invalid escape)   semi &a=1;b=2  (both make url.ParseQuery return an error)
//
// Observation: `reqrel msn=<M> part=<P|-> 400|wait|200 <playlist> q=<query copied into the URIs|->`.

var mxQueryExtra = map[string]string{
	"-":    "",
	"ok":   "&foo=bar&a=2&_HLS_x=1",
	"dup":  "&a=2&a=1&b=3",
	"esc":  "&x=%zz",
	"semi": "&a=1;b=2",
}

// what must survive in every listed URI (C06: _HLS_ directives never, everything else that parsed: yes)
var mxQueryExpect = map[string]string{
	"-":    "",
	"ok":   "a=2&foo=bar",
	"dup":  "a=2&a=1&b=3",
	"esc":  "",
	"semi": "",
}

func mxClip(v int) int {
	if v < 0 {
		return 0
	}
	return v
}

func (r *mxRunner) reqrel(a map[string]string) string {
	if !r.started || r.variant != "ll" {
		return "bad-op"
	}
	si := int(atoi64(a["s"]))
	if si < 0 || si >= r.streamCount() {
		return "bad-op"
	}
	extra, okq := mxQueryExtra[a["q"]]
	if !okq {
		return "bad-op"
	}
	// the playlist of the same instant
	next, open := 7, 0
	cur, _, _, blocked := r.fetchPlaylist(si, "")
	if !blocked && cur != nil {
		r.hadPl[si] = true
		r.orc.prevPl[si] = cur
		next = cur.mediaSeq + len(cur.segs)
		open = len(cur.parts)
	} else {
		delete(r.orc.prevPl, si)
	}
	msn := mxClip(next + int(atoi64(a["dm"])))
	partS := "-"
	switch {
	case a["part"] == "-":
	case strings.HasPrefix(a["part"], "o"):
		partS = strconv.Itoa(mxClip(open + int(atoi64(a["part"][1:]))))
	default:
		partS = strconv.Itoa(int(atoi64(a["part"])))
	}
	q := "_HLS_msn=" + strconv.Itoa(msn)
	if partS != "-" {
		q += "&_HLS_part=" + partS
	}
	if a["skip"] != "-" {
		q += "&_HLS_skip=" + a["skip"]
	}
	q += extra
	head := fmt.Sprintf("reqrel msn=%d part=%s ", msn, partS)
	abs := map[string]string{"msn": strconv.Itoa(msn), "part": partS}
	w := r.doMayBlock(r.streamID(si)+"_stream.m3u8?"+q, 15*time.Millisecond)
	outcome := "wait"
	if w != nil {
		outcome = strconv.Itoa(w.Code)
	}
	// "an immediate 400 when it cannot be satisfied": more than two past the last complete segment, or expired
	if cur != nil && outcome != "400" {
		last := next - 1
		if msn > last+2 {
			r.orc.failf("C06 stream %d: request msn=%d is more than two past the last complete segment %d but is answered %s, expected 400", si, msn, last, outcome)
		}
		if msn <= cur.mediaSeq {
			r.orc.failf("C06 stream %d: request msn=%d is expired (oldest listed %d) but is answered %s, expected 400", si, msn, cur.mediaSeq, outcome)
		}
	}
	if w == nil {
		r.orc.noteReq(si, abs, "wait", nil)
		return head + "wait"
	}
	if w.Code != 200 {
		r.orc.noteReq(si, abs, strconv.Itoa(w.Code), nil)
		return head + strconv.Itoa(w.Code)
	}
	p, err := parseM3UMedia(w.Body.String())
	if err != nil {
		r.failf("C15 stream %d: blocking-reload response does not parse: %v", si, err)
		return head + "200 unparsable"
	}
	r.hadPl[si] = true
	qs := r.orc.checkQueries(si, a["q"], p)
	r.orc.noteReq(si, abs, "200", p)
	// delta flag as requested
	wantDelta := a["skip"] == "YES" || a["skip"] == "v2"
	if p.hasSkip != wantDelta {
		r.orc.failf("C06 stream %d: _HLS_skip=%s answered with hasSkip=%v", si, a["skip"], p.hasSkip)
	}
	if wantDelta && cur != nil {
		// the delta response against the full playlist of the same instant (no write in between),
		// requested with the same extra query text so that the URIs are comparable
		if full, _, _, _ := r.fetchPlaylist(si, strings.TrimPrefix(extra, "&")); full != nil {
			r.orc.checkDelta(si, full, p)
		}
	}
	return head + "200 " + r.fmtPlaylist(p) + " q=" + qs
}

func mxAllURIs(p *m3uMedia) []string {
	var out []string
	if p.mapURI != "" {
		out = append(out, p.mapURI)
	}
	for _, g := range p.segs {
		if !g.gap {
			out = append(out, g.uri)
		}
		for _, pt := range g.parts {
			out = append(out, pt.uri)
		}
	}
	for _, pt := range p.parts {
		out = append(out, pt.uri)
	}
	if p.hint != "" {
		out = append(out, p.hint)
	}
	return out
}

// checkQueries: C06 "_HLS_* directives are never copied into the URIs it lists" on every listed URI
// (MAP, segments, parts, preload hint), and the other parameters survive. Returns the canonical query.
func (o *mxOracle) checkQueries(si int, class string, p *m3uMedia) string {
	qs := map[string]bool{}
	for _, u := range mxAllURIs(p) {
		q := ""
		if i := strings.IndexByte(u, '?'); i >= 0 {
			q = u[i+1:]
		}
		qs[q] = true
		if strings.Contains(u, "_HLS_") {
			if class == "esc" || class == "semi" {
				o.failf("C06 hls-params-unparsable-query stream %d: _HLS_ directive copied into URI %s (query that url.ParseQuery rejects)", si, u)
			} else {
				o.failf("C06 stream %d: _HLS_ directive copied into URI %s", si, u)
			}
		} else if q != mxQueryExpect[class] {
			o.failf("C06 stream %d: URI %s carries query %q, expected %q (non-_HLS_ parameters must survive, in Encode order)", si, u, q, mxQueryExpect[class])
		}
	}
	for _, g := range p.segs {
		if g.gap && strings.Contains(g.uri, "?") {
			o.failf("C06 stream %d: gap URI carries a query: %s", si, g.uri)
		}
	}
	var keys []string
	for q := range qs {
		if q == "" {
			q = "-"
		}
		keys = append(keys, q)
	}
	sort.Strings(keys)
	if len(keys) == 0 {
		return "-"
	}
	return strings.Join(keys, "|")
}

// genReqRel: requests dense around the live edge.
func genReqRel(r *rand.Rand, nStreams int) string {
	s := r.Intn(nStreams)
	dm := []int{-3, -2, -2, -1, -1, -1, 0, 0, 0, 0, 1, 1, 2, 3}[r.Intn(14)] // dense at the live edge
	if r.Intn(8) == 0 {
		dm = -(4 + r.Intn(8)) // towards / past the expiry threshold, into the initial gaps
	}
	part := "-"
	switch r.Intn(8) {
	case 0, 1:
	case 2, 3, 4:
		part = "o" + strconv.Itoa(r.Intn(5)-2)
	case 5:
		part = strconv.Itoa(r.Intn(3))
	case 6:
		part = strconv.Itoa(3 + r.Intn(9)) // around / past a segment's last part: roll-over
	default:
		part = "o" + strconv.Itoa(r.Intn(2))
	}
	skip := []string{"-", "-", "-", "YES", "v2", "NO"}[r.Intn(6)]
	q := []string{"-", "-", "-", "ok", "dup", "esc", "semi"}[r.Intn(7)]
	return fmt.Sprintf("reqrel s=%d dm=%d part=%s skip=%s q=%s", s, dm, part, skip, q)
}
