package main

import (
	"encoding/binary"
	"fmt"
	"math/big"
	"math/rand"
	"strconv"
	"strings"
	"time"

	"github.com/bluenviron/gohlslib/v2"
	"github.com/bluenviron/gohlslib/v2/pkg/codecs"
	"github.com/bluenviron/mediacommon/v2/pkg/codecs/h264"
	"github.com/bluenviron/mediacommon/v2/pkg/formats/fmp4"
	"github.com/bluenviron/mediacommon/v2/pkg/formats/mpegts"
)

// timeconv slice, UNIT layer (property C10): the real unexported clientTimeConvFMP4 /
// clientTimeConvMPEGTS / clientTrackProcessorFMP4 / clientTrackProcessorMPEGTS (through the
// `verif` exporters of verif_timeconv.go) and mediacommon's mpegts.TimeDecoder, one call per op line,
// against the regenerated Lean definitions (driver drv_timeconv).
//
//	conv   ts=<leadingTimeScale> base=<leadingBaseTime> v=<v> rate=<clockRate>              -> r=<int> | panic:div0
//	ntp    ts= base= avail=0|1 nv=<ns> nts=<ticks> nrate=<rate> t=<ticks> rate=<rate>       -> ntp=<ns>|nil | panic:div0
//	td     t0=<true> tv=<true,true,…>      (container values = true values mod 2^33)        -> r=<int,int,…>
//	tsntp  t0=<raw> avail=0|1 nv=<ns> nts=<ticks> t=<ticks>                                  -> ntp=<ns>|nil
//	proc   rate=<clockRate> dec=1|0 codec=<name> edts=<ticks> entp=<ns>|nil smp=<dur:off:pid;…> -> d=<pid@pts/dts/ntp;…> | panic:nil | panic:div0
//	tsproc smp=<pts:dts:ntp|nil:pid;…>                                                       -> d=<pid@pts/dts/ntp;…>

type timeconvSlice struct{}

func init() { register(timeconvSlice{}) }

func (timeconvSlice) Name() string { return "timeconv" }

func (timeconvSlice) Corpus() [][]string {
	return [][]string{
		// TestClient's numbers: base 6 s at 90 kHz, audio at 44.1 kHz
		{"pace rate=90000 pts=0 dts=0 el=1000000000", "pace rate=90000 pts=450000 dts=450000 el=0", "pace rate=90000 pts=990000 dts=990000 el=0",
			"pace rate=90000 pts=-1 dts=0 el=0", "pace rate=0 pts=1 dts=1 el=0", "pace rate=48000 pts=0 dts=-48000 el=-5000000000"},
		{"conv ts=90000 base=540000 v=540000 rate=90000", "conv ts=90000 base=540000 v=264600 rate=44100",
			"conv ts=90000 base=540000 v=546000 rate=90000"},
		// F9: zero time scale
		{"conv ts=0 base=540000 v=1 rate=90000", "proc rate=0 dec=1 codec=MPEG4Audio edts=0 entp=nil smp=10:0:1",
			"ntp ts=90000 base=0 avail=1 nv=1700000000000000000 nts=0 nrate=0 t=5 rate=90000",
			"ntp ts=90000 base=0 avail=1 nv=1700000000000000000 nts=0 nrate=90000 t=5 rate=0"},
		// F8: nil payload decoder
		{"proc rate=90000 dec=0 codec=nil edts=0 entp=nil smp=10:0:1", "proc rate=90000 dec=0 codec=nil edts=0 entp=nil smp=-"},
		// wrap inside the stream, backwards jump across the wrap
		{"td t0=8589933592 tv=8589934492,8589934792,8589934092,8589937592", "td t0=8589934591 tv=8589934592,8589934591,17179869184"},
		// jumps of exactly ±2^32 (the boundary of the unwrap condition)
		{"td t0=0 tv=4294967295,0,4294967296", "td t0=4294967296 tv=0,4294967296"},
		// negative pts filtered, ntp per sample
		{"proc rate=48000 dec=1 codec=MPEG4Audio edts=-33 entp=1700000000000000000 smp=1024:0:10;1024:0:11;0:-2000:12;5:0:13"},
		{"tsproc smp=-1:-1:nil:1;0:-5:1700000000000000000:2;5:5:nil:3"},
	}
}

const tcM = int64(1) << 33

func tcKV(line string) (string, map[string]string) {
	ws := strings.Fields(line)
	m := map[string]string{}
	if len(ws) == 0 {
		return "", m
	}
	for _, w := range ws[1:] {
		if i := strings.IndexByte(w, '='); i >= 0 {
			m[w[:i]] = w[i+1:]
		}
	}
	return ws[0], m
}

func tcInt(m map[string]string, k string) (int64, bool) {
	v, ok := m[k]
	if !ok {
		return 0, false
	}
	n, err := strconv.ParseInt(v, 10, 64)
	return n, err == nil
}

func tcInts(s string) ([]int64, bool) {
	if s == "-" || s == "" {
		return nil, true
	}
	var out []int64
	for _, p := range strings.Split(s, ",") {
		n, err := strconv.ParseInt(p, 10, 64)
		if err != nil {
			return nil, false
		}
		out = append(out, n)
	}
	return out, true
}

func tcEmod(x int64) int64 { return ((x % tcM) + tcM) % tcM }

func tcJoinInts(v []int64) string {
	if len(v) == 0 {
		return "-"
	}
	s := make([]string, len(v))
	for i, x := range v {
		s[i] = strconv.FormatInt(x, 10)
	}
	return strings.Join(s, ",")
}

// payload bytes of an opaque payload id
func tcPayload(pid int64) []byte {
	b := make([]byte, 8)
	binary.BigEndian.PutUint64(b, uint64(pid))
	return b
}

func tcPidOf(data [][]byte) string {
	// one unit = one 8-byte payload, or (H26x) a NALU whose bytes 1..8 carry it
	if len(data) == 1 && len(data[0]) == 8 {
		return strconv.FormatInt(int64(binary.BigEndian.Uint64(data[0])), 10)
	}
	if len(data) == 1 && len(data[0]) == 9 {
		return strconv.FormatInt(int64(binary.BigEndian.Uint64(data[0][1:])), 10)
	}
	return fmt.Sprintf("?%x", data)
}

func tcNtpStr(t *time.Time) string {
	if t == nil {
		return "nil"
	}
	return strconv.FormatInt(t.UnixNano(), 10)
}

func tcPanicClass(e any) string {
	s := fmt.Sprint(e)
	switch {
	case strings.Contains(s, "divide by zero"):
		return "panic:div0"
	case strings.Contains(s, "nil pointer") || strings.Contains(s, "invalid memory address"):
		return "panic:nil"
	case strings.Contains(s, "index out of range"):
		return "panic:index"
	}
	return "panic:other:" + s
}

type tcSample struct {
	dur, off, pid int64
}

func tcParseSamples(s string) ([]tcSample, bool) {
	if s == "-" || s == "" {
		return nil, true
	}
	var out []tcSample
	for _, p := range strings.Split(s, ";") {
		f := strings.Split(p, ":")
		if len(f) != 3 {
			return nil, false
		}
		var v [3]int64
		for i := range f {
			n, err := strconv.ParseInt(f[i], 10, 64)
			if err != nil {
				return nil, false
			}
			v[i] = n
		}
		out = append(out, tcSample{v[0], v[1], v[2]})
	}
	return out, true
}

func tcCodecByName(name string) (codecs.Codec, bool) {
	switch name {
	case "MPEG4Audio":
		return &codecs.MPEG4Audio{}, false
	case "Opus":
		return &codecs.Opus{ChannelCount: 2}, false
	case "VP9":
		return &codecs.VP9{}, false
	case "H264":
		return &codecs.H264{}, true
	case "H265":
		return &codecs.H265{}, true
	}
	return nil, false
}

func tcDeliveries(ds []gohlslib.VerifDelivery) string {
	if len(ds) == 0 {
		return "d=-"
	}
	var s []string
	for _, d := range ds {
		s = append(s, fmt.Sprintf("%s@%d/%d/%s", tcPidOf(d.Data), d.PTS, d.DTS, tcNtpStr(d.NTP)))
	}
	return "d=" + strings.Join(s, ";")
}

type timeconvRunner struct {
	oracle []string
}

func (timeconvSlice) NewRunner() Runner { return &timeconvRunner{} }
func (r *timeconvRunner) Close()         {}
func (r *timeconvRunner) Oracle() []string {
	return r.oracle
}

func (r *timeconvRunner) fail(format string, a ...any) {
	r.oracle = append(r.oracle, "C10: "+fmt.Sprintf(format, a...))
}

func (r *timeconvRunner) Step(line string) (out []string) {
	op, m := tcKV(line)
	defer func() {
		if e := recover(); e != nil {
			out = []string{tcPanicClass(e)}
		}
	}()
	switch op {
	case "pace":
		rate, o1 := tcInt(m, "rate")
		pts, o2 := tcInt(m, "pts")
		dts, o3 := tcInt(m, "dts")
		el, o4 := tcInt(m, "el")
		if !(o1 && o2 && o3 && o4) {
			return []string{"bad-op"}
		}
		// real clientTrack.handleData with startRTC = now - el and a cancelled context (returns at once in every case)
		res := gohlslib.VerifHandleDataPace(int(rate), pts, dts, time.Duration(el))
		// direct oracle (property text): units that precede the origin are dropped, never delivered
		if pts < 0 && res != "discard" {
			r.fail("handleData(pts=%d) was not dropped (outcome %s)", pts, res)
		}
		// direct oracle ("delivers every access unit"): the only refusal the client documents is a unit more than
		// clientMaxDTSRTCDiff = 10 s ahead of the real-time clock; a unit that is less far ahead must never end the client
		if rate > 0 && res == "toobig" {
			ahead := new(big.Int).Sub(new(big.Int).Div(new(big.Int).Mul(big.NewInt(dts), big.NewInt(1000000000)), big.NewInt(rate)), big.NewInt(el))
			if ahead.Cmp(big.NewInt(9500000000)) <= 0 {
				r.fail("handleData refused a unit only %s ns ahead of the clock (DTS-RTC cap is 10 s): the client ends instead of delivering it", ahead.String())
			}
		}
		return []string{"pace=" + res}

	case "conv":
		ts, o1 := tcInt(m, "ts")
		base, o2 := tcInt(m, "base")
		v, o3 := tcInt(m, "v")
		rate, o4 := tcInt(m, "rate")
		if !(o1 && o2 && o3 && o4) {
			return []string{"bad-op"}
		}
		res := gohlslib.VerifTimeConvFMP4Convert(ts, base, v, int(rate))
		// direct oracle (property text): delivered = container − origin·rate/ts, within one tick; exact for the leading rate
		if ts > 0 && base >= 0 && rate >= 0 {
			d := new(big.Int).Sub(big.NewInt(v), big.NewInt(res)) // what was subtracted
			lhs := new(big.Int).Mul(d, big.NewInt(ts))
			mid := new(big.Int).Mul(big.NewInt(base), big.NewInt(rate))
			rhs := new(big.Int).Add(lhs, big.NewInt(ts))
			if !(lhs.Cmp(mid) <= 0 && mid.Cmp(rhs) < 0) {
				r.fail("convert(%d) at rate %d with origin %d@%d gave %d: more than one tick from container − origin·rate/ts", v, rate, base, ts, res)
			}
			if rate == ts && res != v-base {
				r.fail("leading track: convert(%d) = %d ≠ container − origin = %d", v, res, v-base)
			}
		}
		return []string{fmt.Sprintf("r=%d", res)}

	case "ntp":
		ts, o1 := tcInt(m, "ts")
		base, o2 := tcInt(m, "base")
		avail, o3 := tcInt(m, "avail")
		nv, o4 := tcInt(m, "nv")
		nts, o5 := tcInt(m, "nts")
		nrate, o6 := tcInt(m, "nrate")
		t, o7 := tcInt(m, "t")
		rate, o8 := tcInt(m, "rate")
		if !(o1 && o2 && o3 && o4 && o5 && o6 && o7 && o8) {
			return []string{"bad-op"}
		}
		res := gohlslib.VerifTimeConvFMP4NTP(ts, base, avail != 0, time.Unix(0, nv), nts, int(nrate), t, int(rate))
		if avail == 0 && res != nil {
			r.fail("AbsoluteTime available although no PROGRAM-DATE-TIME anchor was set")
		}
		if avail != 0 && res != nil && nrate > 0 && rate > 0 && nts >= 0 {
			// AbsoluteTime = anchor + (t/rate − nts/nrate) seconds, within one tick of `rate` (+2 ns of rounding)
			got := new(big.Int).Mul(big.NewInt(res.UnixNano()-nv), new(big.Int).Mul(big.NewInt(rate), big.NewInt(nrate)))
			want := new(big.Int).Sub(new(big.Int).Mul(big.NewInt(t), big.NewInt(nrate)), new(big.Int).Mul(big.NewInt(nts), big.NewInt(rate)))
			want.Mul(want, big.NewInt(1000000000))
			tol := new(big.Int).Mul(big.NewInt(1000000000), big.NewInt(nrate)) // one tick of rate, scaled by rate·nrate
			tol.Add(tol, new(big.Int).Mul(big.NewInt(2), new(big.Int).Mul(big.NewInt(rate), big.NewInt(nrate))))
			diff := new(big.Int).Sub(got, want)
			if diff.Abs(diff).Cmp(tol) > 0 {
				r.fail("AbsoluteTime %d for t=%d@%d, anchor %d at %d@%d: off by more than one tick", res.UnixNano(), t, rate, nv, nts, nrate)
			}
		}
		return []string{"ntp=" + tcNtpStr(res)}

	case "td":
		t0, o1 := tcInt(m, "t0")
		tv, o2 := tcInts(m["tv"])
		if !(o1 && o2) {
			return []string{"bad-op"}
		}
		raw := make([]int64, len(tv))
		for i, x := range tv {
			raw[i] = tcEmod(x)
		}
		res := gohlslib.VerifTimeConvMPEGTSConvert(tcEmod(t0), raw)
		// mediacommon's decoder used directly must agree with the client's wrapper
		td := &mpegts.TimeDecoder{}
		td.Initialize()
		td.Decode(tcEmod(t0))
		for i, x := range raw {
			if got := td.Decode(x); got != res[i] {
				return []string{"mismatch:wrapper"}
			}
		}
		// direct oracle: while consecutive true timestamps are < 2^32 apart the result is true − first
		prev, ok := t0, true
		for i, x := range tv {
			d := x - prev
			if d <= -(1<<32) || d >= (1<<32) {
				ok = false
			}
			if !ok {
				break
			}
			if res[i] != x-t0 {
				r.fail("33-bit unwrap: true timestamp %d (first %d) decoded as %d, expected %d", x, t0, res[i], x-t0)
				break
			}
			prev = x
		}
		return []string{"r=" + tcJoinInts(res)}

	case "tsntp":
		t0, o1 := tcInt(m, "t0")
		avail, o3 := tcInt(m, "avail")
		nv, o4 := tcInt(m, "nv")
		nts, o5 := tcInt(m, "nts")
		t, o7 := tcInt(m, "t")
		if !(o1 && o3 && o4 && o5 && o7) {
			return []string{"bad-op"}
		}
		res := gohlslib.VerifTimeConvMPEGTSNTP(t0, avail != 0, time.Unix(0, nv), nts, t)
		if avail != 0 && res != nil && t >= nts {
			want := new(big.Int).Mul(big.NewInt(t-nts), big.NewInt(1000000000))
			want.Div(want, big.NewInt(90000))
			if d := res.UnixNano() - nv - want.Int64(); d < -1 || d > 1 {
				r.fail("MPEG-TS AbsoluteTime %d for dts %d, anchor %d at %d", res.UnixNano(), t, nv, nts)
			}
		}
		return []string{"ntp=" + tcNtpStr(res)}

	case "proc":
		rate, o1 := tcInt(m, "rate")
		dec, o2 := tcInt(m, "dec")
		edts, o3 := tcInt(m, "edts")
		smp, o4 := tcParseSamples(m["smp"])
		if !(o1 && o2 && o3 && o4) {
			return []string{"bad-op"}
		}
		var entp *time.Time
		var entpNs int64
		if m["entp"] != "nil" {
			n, ok := tcInt(m, "entp")
			if !ok {
				return []string{"bad-op"}
			}
			entpNs = n
			v := time.Unix(0, n)
			entp = &v
		}
		var codec codecs.Codec
		h26x := false
		if dec != 0 {
			codec, h26x = tcCodecByName(m["codec"])
			if codec == nil {
				return []string{"bad-op"}
			}
		}
		var samples []*fmp4.PartSample
		for _, s := range smp {
			pl := tcPayload(s.pid)
			if h26x {
				enc, err := h264.AVCC([][]byte{append([]byte{1}, pl...)}).Marshal()
				if err != nil {
					return []string{"bad-op"}
				}
				pl = enc
			}
			samples = append(samples, &fmp4.PartSample{Duration: uint32(s.dur), PTSOffset: int32(s.off), Payload: pl})
		}
		ds, err := gohlslib.VerifTrackProcessorFMP4Process(codec, int(rate), edts, entp, samples)
		if err != nil {
			return []string{"err:" + err.Error()}
		}
		// direct oracle: every unit with pts ≥ 0 once, in order, byte-identical; dts accumulates; pts = dts + offset;
		// nothing negative; AbsoluteTime = entry time + offset from the entry
		if rate > 0 {
			k := 0
			dts := edts
			for _, s := range smp {
				pts := dts + s.off
				if pts >= 0 {
					if k >= len(ds) {
						r.fail("unit %d (pts %d) not delivered", s.pid, pts)
						break
					}
					d := ds[k]
					k++
					if tcPidOf(d.Data) != strconv.FormatInt(s.pid, 10) || d.PTS != pts || d.DTS != dts {
						r.fail("unit %d expected at pts=%d dts=%d, delivered %s at pts=%d dts=%d", s.pid, pts, dts, tcPidOf(d.Data), d.PTS, d.DTS)
						break
					}
					if (entp == nil) != (d.NTP == nil) {
						r.fail("unit %d: AbsoluteTime availability differs from the part-track's", s.pid)
					} else if entp != nil && dts >= edts {
						want := new(big.Int).Mul(big.NewInt(dts-edts), big.NewInt(1000000000))
						want.Div(want, big.NewInt(rate))
						if df := d.NTP.UnixNano() - entpNs - want.Int64(); df < -1 || df > 1 {
							r.fail("unit %d: AbsoluteTime off by %d ns", s.pid, df)
						}
					}
				}
				dts += s.dur
			}
			if k != len(ds) {
				r.fail("%d deliveries, %d units with pts ≥ 0", len(ds), k)
			}
			for _, d := range ds {
				if d.PTS < 0 {
					r.fail("unit delivered with negative pts %d", d.PTS)
				}
			}
		}
		return []string{tcDeliveries(ds)}

	case "tsproc":
		var entries []gohlslib.VerifTSEntry
		type exp struct {
			pts, dts int64
			ntp      string
			pid      int64
		}
		var exps []exp
		if m["smp"] != "-" {
			for _, p := range strings.Split(m["smp"], ";") {
				f := strings.Split(p, ":")
				if len(f) != 4 {
					return []string{"bad-op"}
				}
				pts, e1 := strconv.ParseInt(f[0], 10, 64)
				dts, e2 := strconv.ParseInt(f[1], 10, 64)
				pid, e4 := strconv.ParseInt(f[3], 10, 64)
				if e1 != nil || e2 != nil || e4 != nil {
					return []string{"bad-op"}
				}
				var ntp *time.Time
				if f[2] != "nil" {
					n, e3 := strconv.ParseInt(f[2], 10, 64)
					if e3 != nil {
						return []string{"bad-op"}
					}
					v := time.Unix(0, n)
					ntp = &v
				}
				entries = append(entries, gohlslib.VerifTSEntry{PTS: pts, DTS: dts, NTP: ntp, Data: [][]byte{tcPayload(pid)}})
				exps = append(exps, exp{pts, dts, f[2], pid})
			}
		}
		ds, err := gohlslib.VerifTrackProcessorMPEGTSProcess(&codecs.MPEG4Audio{}, 90000, entries)
		if err != nil {
			return []string{"err:" + err.Error()}
		}
		k := 0
		for _, e := range exps {
			if e.pts < 0 {
				continue
			}
			if k >= len(ds) || ds[k].PTS != e.pts || ds[k].DTS != e.dts || tcPidOf(ds[k].Data) != strconv.FormatInt(e.pid, 10) || tcNtpStr(ds[k].NTP) != e.ntp {
				r.fail("MPEG-TS unit %d (pts %d) not delivered unchanged in order", e.pid, e.pts)
				break
			}
			k++
		}
		if k != len(ds) {
			r.fail("MPEG-TS: %d deliveries for %d units with pts ≥ 0", len(ds), k)
		}
		return []string{tcDeliveries(ds)}
	}
	return []string{"bad-op"}
}

// ---------------------------------------------------------------------------------------------
// generator

var tcRates = []int64{90000, 48000, 44100, 8000, 1000, 10000000, 600, 30000, 16000, 96000, 1, 25, 90001}

func tcBoundary(r *rand.Rand) int64 {
	pows := []uint{0, 1, 16, 31, 32, 33, 34, 40}
	switch r.Intn(6) {
	case 0:
		return int64(r.Intn(3))
	case 1, 2:
		p := int64(1) << pows[r.Intn(len(pows))]
		return p + int64(r.Intn(2001)) - 1000
	case 3:
		return r.Int63n(int64(1) << 33)
	default:
		return r.Int63n(int64(1)<<40 + 1)
	}
}

func tcAbs(x int64) int64 {
	if x < 0 {
		return -x
	}
	return x
}

// keep int64 arithmetic of the real code inside its range (the model has unbounded integers; DESIGN §7.4)
func tcSafeMulDiv(v, m, d int64) bool {
	if d == 0 {
		return true
	}
	x := new(big.Int).Mul(big.NewInt(tcAbs(v)/tcAbs(d)+1), big.NewInt(tcAbs(m)))
	return x.Cmp(new(big.Int).Lsh(big.NewInt(1), 61)) < 0
}

func (timeconvSlice) Gen(r *rand.Rand, _ int, tier string) ([]string, []string) {
	var ops []string
	tagset := map[string]bool{}
	n := 3 + r.Intn(8)
	for len(ops) < n {
		switch x := r.Intn(108); {
		case x >= 100: // pace: the real-time pacing block of handleData, classes kept >= 600 ms away from its two thresholds
			rate := tcRates[r.Intn(len(tcRates))]
			if r.Intn(40) == 0 {
				rate = 0
			}
			els := []int64{0, 1, 30, 3600, -5, 86400}
			el := els[r.Intn(len(els))] * 1000000000
			deltas := []int64{-20, -1, 1, 5, 9, 11, 60}
			delta := deltas[r.Intn(len(deltas))] * 1000000000
			if rate >= 600 {
				delta += int64(r.Intn(800001))*1000 - 400000000
				el += int64(r.Intn(1000)) * 1000000
			}
			dur := el + delta
			var dts int64
			if rate != 0 {
				dts = new(big.Int).Div(new(big.Int).Mul(big.NewInt(dur), big.NewInt(rate)), big.NewInt(1000000000)).Int64()
			}
			pts := dts + int64(r.Intn(3))*1000
			if pts < 0 {
				pts = int64(r.Intn(1000))
			}
			if r.Intn(10) == 0 {
				pts = -1 - int64(r.Intn(1000))
				tagset["pace-negative-pts"] = true
			}
			ops = append(ops, fmt.Sprintf("pace rate=%d pts=%d dts=%d el=%d", rate, pts, dts, el))
			switch {
			case delta < 0:
				tagset["pace-late"] = true
			case delta < 10000000000:
				tagset["pace-ahead"] = true
			default:
				tagset["pace-beyond-cap"] = true
			}
		case x < 30: // conv
			ts := tcRates[r.Intn(len(tcRates))]
			rate := tcRates[r.Intn(len(tcRates))]
			switch r.Intn(12) {
			case 0:
				ts = 0
				tagset["conv-ts0"] = true
			case 1:
				rate = 0
			case 2, 3, 4:
				rate = ts
				tagset["conv-leading"] = true
			}
			base := tcBoundary(r)
			if base < 0 {
				base = 0
			}
			if !tcSafeMulDiv(base, rate, ts) {
				base = base % 1000000
			}
			var v int64
			if ts != 0 {
				origin := new(big.Int).Div(new(big.Int).Mul(big.NewInt(base), big.NewInt(rate)), big.NewInt(ts)).Int64()
				v = origin + int64(r.Intn(20001)) - 5000
				if r.Intn(5) == 0 {
					v = origin
				}
			} else {
				v = tcBoundary(r)
			}
			if base >= 1<<32 {
				tagset["conv-base>=2^32"] = true
			}
			if rate != ts {
				tagset["conv-two-timescales"] = true
			}
			ops = append(ops, fmt.Sprintf("conv ts=%d base=%d v=%d rate=%d", ts, base, v, rate))
		case x < 45: // ntp fMP4
			rates := []int64{90000, 48000, 44100, 8000, 1000, 10000000, 30000, 16000, 96000}
			ts := rates[r.Intn(len(rates))]
			nrate := rates[r.Intn(len(rates))]
			rate := rates[r.Intn(len(rates))]
			if r.Intn(3) == 0 {
				rate = nrate
			}
			avail := 1
			switch r.Intn(14) {
			case 0:
				avail = 0
			case 1:
				nrate = 0
				tagset["ntp-div0"] = true
			case 2:
				rate = 0
				tagset["ntp-div0"] = true
			}
			nts := int64(r.Intn(1 << 20))
			if r.Intn(3) == 0 {
				nts = 0
			}
			var t int64
			if nrate != 0 {
				t = new(big.Int).Div(new(big.Int).Mul(big.NewInt(nts), big.NewInt(rate)), big.NewInt(nrate)).Int64()
			}
			t += int64(r.Intn(2000000)) - 1000
			nv := int64(1700000000)*1000000000 + int64(r.Intn(1000))*1000000
			ops = append(ops, fmt.Sprintf("ntp ts=%d base=%d avail=%d nv=%d nts=%d nrate=%d t=%d rate=%d", ts, tcBoundary(r), avail, nv, nts, nrate, t, rate))
			tagset["ntp"] = true
		case x < 70: // td
			t0 := tcBoundary(r)
			if r.Intn(3) == 0 {
				t0 = tcM - int64(r.Intn(5000)) // just before the wrap
			}
			if r.Intn(8) == 0 {
				t0 = -int64(r.Intn(100000))
			}
			k := 1 + r.Intn(10)
			cur := t0
			var tv []int64
			wrapped, far := false, false
			for i := 0; i < k; i++ {
				var step int64
				switch r.Intn(10) {
				case 0:
					step = -int64(r.Intn(180000)) // B-frame style backwards
				case 1:
					step = int64(1)<<32 - 1 - int64(r.Intn(3)) // largest admissible forward jump
				case 2:
					step = -(int64(1)<<32 - 1) + int64(r.Intn(3))
				case 3:
					if r.Intn(4) == 0 { // outside the unwrap condition: model = implementation only
						step = int64(1)<<32 + int64(r.Intn(1000)) - 1
						if r.Intn(2) == 0 {
							step = -step
						}
						far = true
					} else {
						step = int64(r.Intn(10))
					}
				default:
					step = int64(r.Intn(9000))
				}
				nx := cur + step
				if nx/tcM != cur/tcM || (nx < 0) != (cur < 0) {
					wrapped = true
				}
				cur = nx
				tv = append(tv, cur)
			}
			if wrapped {
				tagset["td-wrap-inside"] = true
			}
			if far {
				tagset["td-jump>=2^32"] = true
			}
			tagset["td"] = true
			ops = append(ops, fmt.Sprintf("td t0=%d tv=%s", t0, tcJoinInts(tv)))
		case x < 75: // tsntp
			avail := 1
			if r.Intn(6) == 0 {
				avail = 0
			}
			nts := int64(r.Intn(1<<20)) - 1000
			t := nts + int64(r.Intn(900000)) - 5000
			nv := int64(1700000000)*1000000000 + int64(r.Intn(1000))*1000000
			ops = append(ops, fmt.Sprintf("tsntp t0=%d avail=%d nv=%d nts=%d t=%d", r.Int63n(tcM), avail, nv, nts, t))
			tagset["tsntp"] = true
		case x < 95: // proc
			rates := []int64{90000, 48000, 44100, 8000, 1000, 30000, 16000}
			rate := rates[r.Intn(len(rates))]
			dec := 1
			codecNames := []string{"MPEG4Audio", "Opus", "VP9", "H264", "H265"}
			codec := codecNames[r.Intn(len(codecNames))]
			switch r.Intn(25) {
			case 0:
				dec, codec = 0, "nil"
				tagset["proc-nil-decoder"] = true
			case 1:
				rate = 0
				tagset["proc-rate0"] = true
			}
			edts := int64(r.Intn(20000)) - 4000
			if r.Intn(6) == 0 {
				edts = tcBoundary(r)
				if edts/rateOr1(rate) > 3000000000 {
					edts = edts % 1000000
				}
			}
			entp := "nil"
			if r.Intn(3) != 0 {
				entp = strconv.FormatInt(int64(1700000000)*1000000000+int64(r.Intn(100000))*1000000, 10)
			}
			k := r.Intn(8)
			var ss []string
			neg := false
			dts := edts
			for i := 0; i < k; i++ {
				dur := int64(r.Intn(4000))
				if r.Intn(6) == 0 {
					dur = 0
				}
				off := int64(0)
				switch r.Intn(5) {
				case 0:
					off = int64(r.Intn(200000))
				case 1:
					off = -int64(r.Intn(6000))
				}
				if dts+off < 0 {
					neg = true
				}
				ss = append(ss, fmt.Sprintf("%d:%d:%d", dur, off, 1+r.Intn(1000000)))
				dts += dur
			}
			if neg {
				tagset["proc-negative-pts"] = true
			}
			smp := "-"
			if len(ss) > 0 {
				smp = strings.Join(ss, ";")
			}
			tagset["proc"] = true
			ops = append(ops, fmt.Sprintf("proc rate=%d dec=%d codec=%s edts=%d entp=%s smp=%s", rate, dec, codec, edts, entp, smp))
		default: // tsproc
			k := r.Intn(6)
			var ss []string
			for i := 0; i < k; i++ {
				dts := int64(r.Intn(20000)) - 3000
				pts := dts + int64(r.Intn(7000)) - 1000
				ntp := "nil"
				if r.Intn(2) == 0 {
					ntp = strconv.FormatInt(int64(1700000000)*1000000000+int64(r.Intn(100000))*1000000, 10)
				}
				ss = append(ss, fmt.Sprintf("%d:%d:%s:%d", pts, dts, ntp, 1+r.Intn(1000000)))
			}
			smp := "-"
			if len(ss) > 0 {
				smp = strings.Join(ss, ";")
			}
			tagset["tsproc"] = true
			ops = append(ops, "tsproc smp="+smp)
		}
	}
	var tags []string
	for t := range tagset {
		tags = append(tags, t)
	}
	return ops, tags
}

func rateOr1(r int64) int64 {
	if r == 0 {
		return 1
	}
	return r
}
