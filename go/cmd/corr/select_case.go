package main

import (
	"fmt"
	"net/url"
	"strconv"
	"strings"
)

// Case description of the select slice (C11) and its op-line encoding.
//
//	cfg top=media|multi cont=ts|fmp4 murl=<canonical URL of the multivariant playlist | ->
//	str id=<k> exh=fail|hold url=<canonical playlist URL> raw=<URI as written in Client.URI / the multivariant playlist>
//	pl  id=<k> msn=<n> type=none|event|vod end=0|1 sc=-|b<0|1>s<0|1> map=-|<res> hint=-|<res> segs=<res>;<res>;…
//	run
//
// <res> = uri,start|-,length|-,canonical-absolute-URL. A `pl` line is what the
// scripted server returns at the next poll of stream k; the history of a stream is
// the sequence of its `pl` lines. `exh` says what the server does once the history
// is exhausted: answer 404 (fail) or never answer (hold).

type selSeg struct {
	URI   string
	Start *uint64
	Len   *uint64
	Abs   string
}

type selView struct {
	MSN  int
	Type string // none|event|vod
	End  bool
	SC   string // "-" or "b?s?"
	Map  *selSeg
	Hint *selSeg // Start nil = BYTERANGE-START absent (0)
	Segs []selSeg
}

type selStream struct {
	ID    int
	URL   string
	Raw   string
	Exh   string
	Views []*selView
}

type selCase struct {
	HasCfg  bool
	Top     string
	Cont    string
	MURL    string
	Streams []*selStream
}

func selU64(p *uint64) string {
	if p == nil {
		return "-"
	}
	return strconv.FormatUint(*p, 10)
}

func selParseU64(s string) (*uint64, bool) {
	if s == "-" {
		return nil, true
	}
	v, err := strconv.ParseUint(s, 10, 64)
	if err != nil {
		return nil, false
	}
	return &v, true
}

func (s selSeg) enc() string {
	return s.URI + "," + selU64(s.Start) + "," + selU64(s.Len) + "," + s.Abs
}

func selDecRes(s string) (selSeg, bool) {
	f := strings.Split(s, ",")
	if len(f) != 4 {
		return selSeg{}, false
	}
	st, ok1 := selParseU64(f[1])
	ln, ok2 := selParseU64(f[2])
	if !ok1 || !ok2 {
		return selSeg{}, false
	}
	return selSeg{URI: f[0], Start: st, Len: ln, Abs: f[3]}, true
}

func (v *selView) enc(id int) string {
	opt := func(r *selSeg) string {
		if r == nil {
			return "-"
		}
		return r.enc()
	}
	var segs []string
	for _, s := range v.Segs {
		segs = append(segs, s.enc())
	}
	e := 0
	if v.End {
		e = 1
	}
	return fmt.Sprintf("pl id=%d msn=%d type=%s end=%d sc=%s map=%s hint=%s segs=%s",
		id, v.MSN, v.Type, e, v.SC, opt(v.Map), opt(v.Hint), strings.Join(segs, ";"))
}

func selKV(ws []string, key string) (string, bool) {
	for _, w := range ws {
		if i := strings.IndexByte(w, '='); i >= 0 && w[:i] == key {
			return w[i+1:], true
		}
	}
	return "", false
}

// apply folds one op line into the case. It returns false for a malformed line.
func (c *selCase) apply(line string) bool {
	ws := strings.Fields(line)
	if len(ws) == 0 {
		return true
	}
	get := func(k string) string { v, _ := selKV(ws, k); return v }
	switch ws[0] {
	case "cfg":
		c.HasCfg = true
		c.Top, c.Cont, c.MURL = get("top"), get("cont"), get("murl")
		return (c.Top == "media" || c.Top == "multi") && (c.Cont == "ts" || c.Cont == "fmp4")
	case "str":
		id, err := strconv.Atoi(get("id"))
		if err != nil || id != len(c.Streams) {
			return false
		}
		exh := get("exh")
		if exh != "fail" && exh != "hold" {
			return false
		}
		c.Streams = append(c.Streams, &selStream{ID: id, URL: get("url"), Raw: get("raw"), Exh: exh})
		return true
	case "pl":
		id, err := strconv.Atoi(get("id"))
		if err != nil || id < 0 || id >= len(c.Streams) {
			return false
		}
		v := &selView{Type: get("type"), End: get("end") == "1", SC: get("sc")}
		v.MSN, err = strconv.Atoi(get("msn"))
		if err != nil {
			return false
		}
		if v.Type != "none" && v.Type != "event" && v.Type != "vod" {
			return false
		}
		if v.SC != "-" && !(len(v.SC) == 4 && v.SC[0] == 'b' && v.SC[2] == 's') {
			return false
		}
		if m := get("map"); m != "-" {
			r, ok := selDecRes(m)
			if !ok {
				return false
			}
			v.Map = &r
		}
		if h := get("hint"); h != "-" {
			r, ok := selDecRes(h)
			if !ok {
				return false
			}
			v.Hint = &r
		}
		if s := get("segs"); s != "" {
			for _, x := range strings.Split(s, ";") {
				r, ok := selDecRes(x)
				if !ok {
					return false
				}
				v.Segs = append(v.Segs, r)
			}
		}
		c.Streams[id].Views = append(c.Streams[id].Views, v)
		return true
	}
	return false
}

func (c *selCase) ops() []string {
	out := []string{fmt.Sprintf("cfg top=%s cont=%s murl=%s", c.Top, c.Cont, c.MURL)}
	for _, s := range c.Streams {
		out = append(out, fmt.Sprintf("str id=%d exh=%s url=%s raw=%s", s.ID, s.Exh, s.URL, s.Raw))
	}
	// interleave the views of the streams round-robin: the order of `pl` lines of
	// different streams carries no meaning, only the per-stream order does
	for i := 0; ; i++ {
		any := false
		for _, s := range c.Streams {
			if i < len(s.Views) {
				out = append(out, s.Views[i].enc(s.ID))
				any = true
			}
		}
		if !any {
			break
		}
	}
	return append(out, "run")
}

// ---------------------------------------------------------------------------------------------
// rendering

func selByteRange(l *uint64, s *uint64) string {
	r := strconv.FormatUint(*l, 10)
	if s != nil {
		r += "@" + strconv.FormatUint(*s, 10)
	}
	return r
}

func (v *selView) render() []byte {
	var b strings.Builder
	b.WriteString("#EXTM3U\n#EXT-X-VERSION:9\n#EXT-X-TARGETDURATION:1\n")
	if v.SC != "-" {
		var at []string
		if v.SC[1] == '1' {
			at = append(at, "CAN-BLOCK-RELOAD=YES")
		} else {
			at = append(at, "CAN-BLOCK-RELOAD=NO")
		}
		if v.SC[3] == '1' {
			at = append(at, "CAN-SKIP-UNTIL=6.0")
		}
		b.WriteString("#EXT-X-SERVER-CONTROL:" + strings.Join(at, ",") + "\n")
	}
	b.WriteString("#EXT-X-MEDIA-SEQUENCE:" + strconv.Itoa(v.MSN) + "\n")
	switch v.Type {
	case "event":
		b.WriteString("#EXT-X-PLAYLIST-TYPE:EVENT\n")
	case "vod":
		b.WriteString("#EXT-X-PLAYLIST-TYPE:VOD\n")
	}
	if v.Map != nil {
		b.WriteString("#EXT-X-MAP:URI=\"" + v.Map.URI + "\"")
		if v.Map.Len != nil {
			b.WriteString(",BYTERANGE=\"" + selByteRange(v.Map.Len, v.Map.Start) + "\"")
		}
		b.WriteString("\n")
	}
	for _, s := range v.Segs {
		b.WriteString("#EXTINF:1,\n")
		if s.Len != nil {
			b.WriteString("#EXT-X-BYTERANGE:" + selByteRange(s.Len, s.Start) + "\n")
		}
		b.WriteString(s.URI + "\n")
	}
	if v.Hint != nil {
		b.WriteString("#EXT-X-PRELOAD-HINT:TYPE=PART,URI=\"" + v.Hint.URI + "\"")
		if v.Hint.Start != nil {
			b.WriteString(",BYTERANGE-START=" + strconv.FormatUint(*v.Hint.Start, 10))
		}
		if v.Hint.Len != nil {
			b.WriteString(",BYTERANGE-LENGTH=" + strconv.FormatUint(*v.Hint.Len, 10))
		}
		b.WriteString("\n")
	}
	if v.End {
		b.WriteString("#EXT-X-ENDLIST\n")
	}
	return []byte(b.String())
}

func (c *selCase) renderMultivariant() []byte {
	var b strings.Builder
	b.WriteString("#EXTM3U\n#EXT-X-VERSION:9\n#EXT-X-INDEPENDENT-SEGMENTS\n")
	for _, s := range c.Streams[1:] {
		b.WriteString(fmt.Sprintf("#EXT-X-MEDIA:TYPE=AUDIO,GROUP-ID=\"aud\",NAME=\"r%d\",LANGUAGE=\"en\",URI=\"%s\"\n", s.ID, s.Raw))
	}
	b.WriteString("#EXT-X-STREAM-INF:BANDWIDTH=1000000,CODECS=\"avc1.42c028,mp4a.40.2\"")
	if len(c.Streams) > 1 {
		b.WriteString(",AUDIO=\"aud\"")
	}
	b.WriteString("\n" + c.Streams[0].Raw + "\n")
	return []byte(b.String())
}

// ---------------------------------------------------------------------------------------------
// canonical URLs (net/url is trusted — DESIGN §6 C11 "partial")

// selCanon: scheme://host/escaped-path[?query with keys sorted]; the `_HLS_skip`
// directive is split off and reported separately.
func selCanon(u *url.URL) (canon string, skip string) {
	q := u.Query()
	skip = "-"
	if vs, ok := q["_HLS_skip"]; ok {
		skip = strings.Join(vs, "+")
		q.Del("_HLS_skip")
	}
	canon = u.Scheme + "://" + u.Host + u.EscapedPath()
	if len(q) != 0 {
		canon += "?" + q.Encode()
	}
	return canon, skip
}

func selResolve(base string, ref string) string {
	bu, err := url.Parse(base)
	if err != nil {
		panic(err)
	}
	ru, err := url.Parse(ref)
	if err != nil {
		panic(err)
	}
	c, _ := selCanon(bu.ResolveReference(ru))
	return c
}

// the Range header the property text prescribes for a byte range (identification of
// requests by the scripted server and by the direct oracle; uint64 arithmetic as in Go)
func selRangeHeader(start *uint64, length *uint64) string {
	if length == nil {
		return "-"
	}
	s := uint64(0)
	if start != nil {
		s = *start
	}
	return "bytes=" + strconv.FormatUint(s, 10) + "-" + strconv.FormatUint(s+*length-1, 10)
}
