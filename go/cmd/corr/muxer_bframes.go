package main

import (
	"github.com/bluenviron/mediacommon/v2/pkg/codecs/h264"
)

// H264 with frame reordering (PTS != DTS) for the muxer slice: a GOP pattern taken from mediacommon's own
// DTS-extractor test vector ("with timing info": High profile SPS with pic_order_cnt_type 0; slice headers
// with real frame_num / POC bits). The payload id is appended AFTER the 6 header bytes of each slice NALU
// (the extractor reads at most 22 bytes, all of them inside the original header for these vectors).
// The DTS the muxer's extractor will choose is computed by the GENERATOR with its own extractor instance and
// handed to the model as the `dts=` parameter of the op ("an external call becomes a parameter").

var bfSPS = []byte{
	0x67, 0x64, 0x00, 0x28, 0xac, 0xd9, 0x40, 0x78, 0x02, 0x27, 0xe5, 0x84, 0x00, 0x00, 0x03, 0x00,
	0x04, 0x00, 0x00, 0x03, 0x00, 0xf0, 0x3c, 0x60, 0xc6, 0x58,
}

type bfFrame struct {
	hdr   []byte // slice NALU of the test vector (header bits)
	ptsMs int64  // presentation time relative to the GOP start, in 1/3 ms units to stay exact: see bfPTS
}

// one GOP: I P P P b b b P  (decode order), presentation times in ticks relative to the IDR
var bfPattern = []bfFrame{
	{[]byte{0x65, 0x88, 0x84, 0x00, 0x33, 0xff}, 0},
	{[]byte{0x41, 0x9a, 0x21, 0x6c, 0x45, 0xff}, 3000},
	{[]byte{0x41, 0x9a, 0x42, 0x3c, 0x21, 0x93}, 6000},
	{[]byte{0x41, 0x9a, 0x63, 0x49, 0xe1, 0x0f}, 9000},
	{[]byte{0x41, 0x9a, 0x86, 0x49, 0xe1, 0x0f}, 18000},
	{[]byte{0x41, 0x9e, 0xa5, 0x42, 0x7f, 0xf9}, 15000},
	{[]byte{0x01, 0x9e, 0xc4, 0x69, 0x13, 0xff}, 12000},
	{[]byte{0x41, 0x9a, 0xc8, 0x4b, 0xa8, 0x42}, 24000},
}

const bfGOPTicks = 27000 // distance between two IDRs of the repeated pattern (90 kHz)

func bfBuildAU(par int, k int, pay int) [][]byte {
	var au [][]byte
	if par != 0 {
		au = append(au, bfSPS, mxPPS(par))
	}
	f := bfPattern[k%len(bfPattern)]
	au = append(au, append(append([]byte{}, f.hdr...), idBytes(pay, 0)...))
	return au
}

// bfPlan returns, for n frames starting at pts base, the (pts, dts, k) the muxer will see/choose, or ok=false
// when mediacommon's extractor rejects the sequence (then the generator falls back to plain frames).
func bfPlan(base int64, n int) (pts, dts []int64, ok bool) {
	ex := &h264.DTSExtractor{}
	ex.Initialize()
	for i := 0; i < n; i++ {
		k := i % len(bfPattern)
		g := int64(i / len(bfPattern))
		p := base + g*bfGOPTicks + bfPattern[k].ptsMs
		par := 0
		if k == 0 {
			par = 1
		}
		d, err := ex.Extract(bfBuildAU(par, k, i+1), p)
		if err != nil {
			return nil, nil, false
		}
		pts = append(pts, p)
		dts = append(dts, d)
	}
	return pts, dts, true
}
