package main

import (
	"github.com/bluenviron/mediacommon/v2/pkg/codecs/h264"
	"github.com/bluenviron/mediacommon/v2/pkg/codecs/h265"
)

// H264 with frame reordering (PTS != DTS) for the muxer slice: a GOP pattern taken from mediacommon's own
// DTS-extractor test vector ("with timing info": High profile SPS with pic_order_cnt_type 0; slice headers
// with real frame_num / POC bits). The payload id is appended AFTER the 6 header bytes of each slice NALU
// (the extractor reads at most 22 bytes, all of them inside the original header for these vectors).
// The DTS the muxer's extractor will choose is computed by the GENERATOR with its own extractor instance and
// handed to the model as the `dts=` parameter of the op ("an external call becomes a parameter").

var bfSPS = []byte{
	0x67, 0x64, 0x00, 0x28, 0xac, 0xd9, 0x40, 0x78, 0x02, 0x27, 0xe5, 0x84, 0x00, 0x00, 0x03, 0x00,
	0x04, 0x00, 0x00, 0x03, 0x00, 0xf0, 0x3c, 0x60, 0xc6, 0x58,
}

type bfFrame struct {
	hdr   []byte // slice NALU of the test vector (header bits)
	ptsMs int64  // presentation time relative to the GOP start, in 1/3 ms units to stay exact: see bfPTS
}

// one GOP: I P P P b b b P  (decode order), presentation times in ticks relative to the IDR
var bfPattern = []bfFrame{
	{[]byte{0x65, 0x88, 0x84, 0x00, 0x33, 0xff}, 0},
	{[]byte{0x41, 0x9a, 0x21, 0x6c, 0x45, 0xff}, 3000},
	{[]byte{0x41, 0x9a, 0x42, 0x3c, 0x21, 0x93}, 6000},
	{[]byte{0x41, 0x9a, 0x63, 0x49, 0xe1, 0x0f}, 9000},
	{[]byte{0x41, 0x9a, 0x86, 0x49, 0xe1, 0x0f}, 18000},
	{[]byte{0x41, 0x9e, 0xa5, 0x42, 0x7f, 0xf9}, 15000},
	{[]byte{0x01, 0x9e, 0xc4, 0x69, 0x13, 0xff}, 12000},
	{[]byte{0x41, 0x9a, 0xc8, 0x4b, 0xa8, 0x42}, 24000},
}

const bfGOPTicks = 27000 // distance between two IDRs of the repeated pattern (90 kHz)

func bfBuildAU(par int, k int, pay int) [][]byte {
	var au [][]byte
	if par != 0 {
		au = append(au, bfSPS, mxPPS(par))
	}
	f := bfPattern[k%len(bfPattern)]
	au = append(au, append(append([]byte{}, f.hdr...), idBytes(pay, 0)...))
	return au
}

// bfPlan returns, for n frames starting at pts base, the (pts, dts, k) the muxer will see/choose, or ok=false
// when mediacommon's extractor rejects the sequence (then the generator falls back to plain frames).
func bfPlan(base int64, n int) (pts, dts []int64, ok bool) {
	ex := &h264.DTSExtractor{}
	ex.Initialize()
	for i := 0; i < n; i++ {
		k := i % len(bfPattern)
		g := int64(i / len(bfPattern))
		p := base + g*bfGOPTicks + bfPattern[k].ptsMs
		par := 0
		if k == 0 {
			par = 1
		}
		d, err := ex.Extract(bfBuildAU(par, k, i+1), p)
		if err != nil {
			return nil, nil, false
		}
		pts = append(pts, p)
		dts = append(dts, d)
	}
	return pts, dts, true
}

// H265 with frame reordering: mediacommon's h265 DTS-extractor test vector "with timing info, IDR"
// (sps_max_num_reorder_pics > 0, VUI timing info: the extractor parses the slice headers). Decode order
// I P b b P b b; the payload id is appended after the original NALU bytes.

var bf5VPS = []byte{
	0x40, 0x01, 0x0c, 0x01, 0xff, 0xff, 0x01, 0x60, 0x00, 0x00, 0x03, 0x00, 0x90, 0x00, 0x00, 0x03,
	0x00, 0x00, 0x03, 0x00, 0x78, 0x99, 0x98, 0x09,
}

var bf5SPS = []byte{
	0x42, 0x01, 0x01, 0x01, 0x60, 0x00, 0x00, 0x03, 0x00, 0x90, 0x00, 0x00, 0x03, 0x00, 0x00, 0x03,
	0x00, 0x78, 0xa0, 0x03, 0xc0, 0x80, 0x10, 0xe5, 0x96, 0x66, 0x69, 0x24, 0xca, 0xe0, 0x10, 0x00,
	0x00, 0x03, 0x00, 0x10, 0x00, 0x00, 0x03, 0x01, 0xe0, 0x80,
}

var bf5PPS = []byte{0x44, 0x1, 0xc1, 0x72, 0xb4, 0x62, 0x40}

var bf5Pattern = []bfFrame{
	{[]byte{0x26, 0x1, 0xaf, 0x8, 0x42, 0x23, 0x48, 0x8a, 0x43, 0xe2}, 0},
	{[]byte{0x02, 0x01, 0xd0, 0x19, 0x5f, 0x8c, 0xb4, 0x42, 0x49, 0x20, 0x40, 0x11, 0x16, 0x92, 0x93, 0xea, 0x54, 0x57, 0x4e, 0x0a}, 9000},
	{[]byte{0x02, 0x01, 0xe0, 0x44, 0x97, 0xe0, 0x81, 0x20, 0x44, 0x52, 0x62, 0x7a, 0x1b, 0x88, 0x0b, 0x21, 0x26, 0x5f, 0x10, 0x9c}, 6000},
	{[]byte{0x00, 0x01, 0xe0, 0x24, 0xff, 0xfa, 0x24, 0x0a, 0x42, 0x25, 0x8c, 0x18, 0xe6, 0x1c, 0xea, 0x5a, 0x5d, 0x07, 0xc1, 0x8f}, 3000},
	{[]byte{0x02, 0x01, 0xd0, 0x30, 0x97, 0xd7, 0xdc, 0xf9, 0x0c, 0x10, 0x11, 0x11, 0x20, 0x42, 0x11, 0x18, 0x63, 0xa5, 0x18, 0x55}, 18000},
	{[]byte{0x02, 0x01, 0xe0, 0xa2, 0x25, 0xd7, 0xf7, 0x08, 0x12, 0x04, 0x45, 0xa1, 0x83, 0xc0, 0x97, 0x53, 0xa3, 0x5e, 0x78, 0x14}, 15000},
	{[]byte{0x00, 0x01, 0xe0, 0x82, 0x3f, 0x5f, 0xf6, 0x89, 0x02, 0x90, 0x88, 0xa3, 0x0c, 0x7d, 0x27, 0x0c, 0xd4, 0xd9, 0xc2, 0xa5}, 12000},
}

const bf5GOPTicks = 21000

func bf5BuildAU(par int, k int, pay int) [][]byte {
	var au [][]byte
	if par != 0 {
		au = append(au, bf5VPS, bf5SPS, bf5PPS)
	}
	f := bf5Pattern[k%len(bf5Pattern)]
	au = append(au, append(append([]byte{}, f.hdr...), idBytes(pay, 0)...))
	return au
}

func bf5Plan(base int64, n int) (pts, dts []int64, ok bool) {
	ex := &h265.DTSExtractor{}
	ex.Initialize()
	for i := 0; i < n; i++ {
		k := i % len(bf5Pattern)
		g := int64(i / len(bf5Pattern))
		p := base + g*bf5GOPTicks + bf5Pattern[k].ptsMs
		par := 0
		if k == 0 {
			par = 1
		}
		d, err := ex.Extract(bf5BuildAU(par, k, i+1), p)
		if err != nil {
			return nil, nil, false
		}
		if i > 0 && d <= dts[i-1] {
			return nil, nil, false // the harness needs increasing decode times
		}
		pts = append(pts, p)
		dts = append(dts, d)
	}
	return pts, dts, true
}

// per-codec access to the reordering patterns
func bfPatternLen(codec string) int {
	if codec == "h265" {
		return len(bf5Pattern)
	}
	return len(bfPattern)
}

func bfBuildAUFor(codec string, par, k, pay int) [][]byte {
	if codec == "h265" {
		return bf5BuildAU(par, k, pay)
	}
	return bfBuildAU(par, k, pay)
}
