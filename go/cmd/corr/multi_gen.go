package main

import (
	"fmt"
	"math"
	"math/rand"
	"os"
	"path/filepath"
	"sort"
	"strconv"
	"strings"
	"time"

	"github.com/bluenviron/gohlslib/v2/pkg/playlist"
)

// Generators of the `multi` slice. All randomness comes from the *rand.Rand handed to Gen.

func multiRepoRoot() string {
	if r := os.Getenv("VERIF_REPO"); r != "" {
		return r
	}
	return "/repo"
}

// readFuzzCorpus parses the `go test fuzz v1` files of one fuzz target.
func readFuzzCorpus(target string) []string {
	dir := filepath.Join(multiRepoRoot(), "pkg", "playlist", "testdata", "fuzz", target)
	ents, err := os.ReadDir(dir)
	if err != nil {
		return nil
	}
	var names []string
	for _, e := range ents {
		names = append(names, e.Name())
	}
	sort.Strings(names)
	var out []string
	for _, n := range names {
		b, err := os.ReadFile(filepath.Join(dir, n))
		if err != nil {
			continue
		}
		lines := strings.Split(string(b), "\n")
		if len(lines) < 2 || !strings.HasPrefix(lines[0], "go test fuzz v1") {
			continue
		}
		l := strings.TrimSpace(lines[1])
		for _, pre := range []string{"string(", "[]byte("} {
			if strings.HasPrefix(l, pre) && strings.HasSuffix(l, ")") {
				if s, err := strconv.Unquote(l[len(pre) : len(l)-1]); err == nil {
					out = append(out, s)
				}
			}
		}
	}
	return out
}

var multiFuzzTexts []string

func multiCorpusTexts() []string {
	if multiFuzzTexts == nil {
		for _, t := range []string{"FuzzMultivariantUnmarshal", "FuzzPlaylistUnmarshal", "FuzzMediaUnmarshal"} {
			multiFuzzTexts = append(multiFuzzTexts, readFuzzCorpus(t)...)
		}
		if multiFuzzTexts == nil {
			multiFuzzTexts = []string{}
		}
	}
	return multiFuzzTexts
}

func (multiSlice) Corpus() [][]string {
	var out [][]string
	// the repository's fuzz corpora, through both entry points
	for _, t := range multiCorpusTexts() {
		out = append(out, []string{"unm " + hx(t), "pl " + hx(t), "gram " + hx(t)})
	}
	hand := []string{
		"", "\n", "#EXTM3U", "#EXTM3U\n", "#EXTM3U\r\n\r\n",
		"#EXTM3U\n#EXT-X-STREAM-INF:BANDWIDTH=1",                      // STREAM-INF as unterminated last line
		"#EXTM3U\n#EXT-X-STREAM-INF:BANDWIDTH=1\n",                    // no URI line
		"#EXTM3U\n#EXT-X-STREAM-INF:BANDWIDTH=1\n\n",                  // empty URI line
		"#EXTM3U\n#EXT-X-STREAM-INF:BANDWIDTH=1\n#x\n",                // comment instead of URI
		"#EXTM3U\n#EXT-X-STREAM-INF:BANDWIDTH=1\nu",                   // no trailing newline
		"#EXTM3U\n#EXT-X-STREAM-INF:BANDWIDTH=1\r\nu\r\n",             // CRLF
		"#EXTM3U\n#EXT-X-STREAM-INF:\nu\n",                            // empty attribute list
		"#EXTM3U\n#EXT-X-STREAM-INF:BANDWIDTH=1,BANDWIDTH=2\nu\n",     // duplicate key: last wins
		"#EXTM3U\n#EXT-X-STREAM-INF:CODECS=\"\"\nu\n",                 // one empty codec
		"#EXTM3U\n#EXT-X-STREAM-INF:FRAME-RATE=nan,BANDWIDTH=x\nu\n",  // two failing attributes
		"#EXTM3U\n#EXT-X-VERSION:11\n", "#EXTM3U\n#EXT-X-VERSION:10\n#EXT-X-VERSION:\n",
		"#EXTM3U\n#EXT-X-INDEPENDENT-SEGMENTSxyz\n#EXT-X-STREAM-INF:BANDWIDTH=1\nu\n",
		"#EXTM3U\n#EXT-X-START:TIME-OFFSET=inf\n#EXT-X-STREAM-INF:BANDWIDTH=1\nu\n",
		"#EXTM3U\n#EXT-X-START:TIME-OFFSET=-0.000001\n#EXT-X-STREAM-INF:BANDWIDTH=1\nu\n",
		"#EXTM3U\n#EXT-X-START:TIME-OFFSET=1e10\n#EXT-X-STREAM-INF:BANDWIDTH=1\nu\n",
		"#EXTM3U\n#EXT-X-START:X=1\n",
		"#EXTM3U\n#EXT-X-MEDIA:TYPE=CLOSED-CAPTIONS,GROUP-ID=\"g\",INSTREAM-ID=\"CC1\",CHANNELS=\"2\"\n",
		"#EXTM3U\n#EXT-X-MEDIA:TYPE=SUBTITLES,GROUP-ID=\"g\"\n", "#EXTM3U\n#EXT-X-MEDIA:GROUP-ID=\"g\"\n",
		"#EXTM3U\n#EXT-X-MEDIA:TYPE=,GROUP-ID=\"g\"\n", "#EXTM3U\n#EXT-X-MEDIA:TYPE=AUDIO,GROUP-ID=\"g\",URI=\"\n",
		"#EXTM3U\n#EXT-X-MEDIA:TYPE=AUDIO,GROUP-ID=\"g\"x\n", "#EXTM3U\n#EXT-X-MEDIA:TYPE\n",
		"#EXTINF:1,\n#EXT-X-STREAM-INF:BANDWIDTH=1\nu\n", "x\n#EXT-X-STREAM-INF:\n#EXTINF:\n", "#EXT-X-STREAM-INF:",
	}
	var ops []string
	for _, t := range hand {
		ops = append(ops, "unm "+hx(t), "pl "+hx(t), "gram "+hx(t))
	}
	out = append(out, ops)
	out = append(out, []string{
		"attrs -", "attrs " + hx("="), "attrs " + hx("A"), "attrs " + hx("A="), "attrs " + hx("A=\""), "attrs " + hx("A=\"\""),
		"attrs " + hx("A=\"\","), "attrs " + hx("A=\"\"x"), "attrs " + hx(" A=1, A=2,  B=\"x,=\""), "attrs " + hx("A=1,"), "attrs " + hx(",A=1"),
		"attrs " + hx("A==,=="), "attrs " + hx("A=a\"b\",B"),
		"dur " + hx("0.29"), "dur " + hx("1e400"), "dur " + hx("-inf"), "dur " + hx("nan"), "dur " + hx("0x1p-2"), "dur " + hx("1_0"),
		"dur " + hx("0x1_0p0"), "dur " + hx("infinit"), "dur " + hx("+nan"), "dur " + hx(".5"), "dur " + hx("5."), "dur " + hx("."),
		"dur " + hx("1e"), "dur " + hx("9223372036.854775807"), "dur " + hx("9223372036.854775808"), "dur " + hx("-9223372036.854775809"),
		"dur " + hx("4.9e-324"), "dur " + hx("2.4e-324"), "dur " + hx("1.7976931348623157e308"), "dur " + hx("1.7976931348623159e308"),
		"pf " + hx("0x1.fffffffffffff8p1023"), "pf " + hx("0x1.fffffffffffff7p1023"), "pf " + hx("0x0.0000000000001p-1022"), "pf " + hx("0x1p-1075"),
		"pf " + hx("0x1.8p-1075"), "pf " + hx("1e23"), "pf " + hx("8.41e21"), "pf " + hx("9007199254740993"), "pf " + hx("1_000.5"), "pf " + hx("1__0"),
		"pf " + hx("0X_1P+0_0"), "pf " + hx("-0"), "pf " + hx("00000000000000000000000000000001.50000000000000000000000000000000000001"),
		"durfmt 15625000", "durfmt -15625000", "durfmt 5000", "durfmt -5000", "durfmt -4999", "durfmt 9223372036854775807", "durfmt -9223372036854775808",
		"ff 3 " + strconv.FormatUint(math.Float64bits(0.0005), 10), "ff 3 " + strconv.FormatUint(math.Float64bits(0.0015), 10),
		"ff 3 " + strconv.FormatUint(math.Float64bits(2.5e-4), 10), "ff 3 " + strconv.FormatUint(math.Float64bits(1e300), 10),
		"ff 5 " + strconv.FormatUint(math.Float64bits(math.SmallestNonzeroFloat64), 10), "ff 3 9218868437227405312", "ff 3 18442240474082181120", "ff 3 9221120237041090561",
		"pu 31 " + hx("2147483647"), "pu 31 " + hx("2147483648"), "pu 64 " + hx("18446744073709551615"), "pu 64 " + hx("18446744073709551616"),
		"pu 31 -", "pu 31 " + hx("+1"), "pu 31 " + hx("1_0"), "pu 31 " + hx("0x10"), "pu 31 " + hx("007"), "pu 64 " + hx("99999999999999999999x"),
		"br " + hx("1@2"), "br " + hx("@"), "br " + hx("1@"), "br " + hx("@2"), "br " + hx("1@2@3"), "br -", "brm 0 ~", "brm 18446744073709551615 0",
		"rl -", "rl " + hx("\n"), "rl " + hx("\r\n"), "rl " + hx("a\r"), "rl " + hx("a\r\r\nb"), "rl " + hx("\r"), "rl " + hx("ab"),
		"fi 0", "fi -1", "fi -9223372036854775808", "fi 9223372036854775807",
	})
	// exhaustive presence-bit enumeration (scalars from a fixed PRNG: the corpus is deterministic)
	r := rand.New(rand.NewSource(20260927))
	for vm := 0; vm < 128; vm++ {
		m := &playlist.Multivariant{Version: vm % 11, Variants: []*playlist.MultivariantVariant{genVariant(r, vm, true)}}
		byts, _ := m.Marshal()
		out = append(out, []string{"mar " + fmtMulti(m), "gram " + hx(string(byts))})
	}
	for top := 0; top < 8; top++ {
		out = append(out, []string{"mar " + fmtMulti(genValidMulti(r, top, true))})
	}
	for t := 0; t < 4; t++ {
		for rm := 0; rm < 256; rm++ {
			var c []string
			for _, forced := range []bool{true, false} { // false: type rules not forced -> validation errors
				if forced && rm >= 128 {
					continue
				}
				m := &playlist.Multivariant{Version: 3, Variants: []*playlist.MultivariantVariant{genVariant(r, 0, true)}}
				m.Renditions = append(m.Renditions, genRendition(r, t, rm, forced))
				c = append(c, "mar "+fmtMulti(m))
			}
			out = append(out, c)
		}
	}
	return out
}

// ---------------------------------------------------------------------------------------------
// scalars

var multiAlphabet = []byte("abcXYZ019 ,=:;/.-_#@'\\\t\xc3\xa9\xff\x00")

func genLegalString(r *rand.Rand, allowEmpty bool) string {
	var n int
	switch r.Intn(10) {
	case 0:
		n = 0
	case 1:
		n = 1
	case 2:
		n = 40 + r.Intn(300)
	default:
		n = 1 + r.Intn(12)
	}
	if n == 0 && !allowEmpty {
		n = 1
	}
	b := make([]byte, n)
	for i := range b {
		b[i] = multiAlphabet[r.Intn(len(multiAlphabet))]
	}
	return string(b)
}

// genAnyString also produces the bytes the format cannot carry (quote, CR, LF)
func genAnyString(r *rand.Rand) string {
	s := []byte(genLegalString(r, true))
	for k := r.Intn(3); k > 0 && len(s) > 0; k-- {
		s[r.Intn(len(s))] = "\"\n\r,"[r.Intn(4)]
	}
	return string(s)
}

func genInt31(r *rand.Rand) int {
	switch r.Intn(8) {
	case 0:
		return 0
	case 1:
		return math.MaxInt32
	case 2:
		return 1
	case 3:
		return r.Intn(1000)
	default:
		return r.Intn(math.MaxInt32)
	}
}

func genURI(r *rand.Rand) string {
	for {
		s := genLegalString(r, false)
		if s[0] != '#' {
			return s
		}
	}
}

func genResolution(r *rand.Rand, lexical bool) string {
	if lexical {
		return strconv.Itoa(r.Intn(8000)) + "x" + strconv.Itoa(r.Intn(5000))
	}
	for {
		s := strings.NewReplacer(",", "", "\t", "x").Replace(genLegalString(r, false))
		if s != "" && s[0] != '"' {
			return s
		}
	}
}

func genFrameRate(r *rand.Rand) float64 {
	var k int64
	switch r.Intn(8) {
	case 0:
		k = []int64{23976, 24000, 25000, 29970, 30000, 50000, 59940, 60000, 120000}[r.Intn(9)]
	case 1:
		k = 0
	case 2:
		k = int64(r.Intn(1000))
	case 3:
		k = 1000000000000 - int64(r.Intn(3))
	case 4:
		k = r.Int63n(1000000000000)
	default:
		k = int64(r.Intn(300000))
	}
	f, _ := strconv.ParseFloat(strconv.FormatInt(k/1000, 10)+"."+fmt.Sprintf("%03d", k%1000), 64)
	return f
}

// genOffset: boundary-heavy TIME-OFFSET values in (5000, 10^15] ns, either sign
func genOffset(r *rand.Rand) int64 {
	var d int64
	switch r.Intn(10) {
	case 0:
		d = multiMaxOffset + 10000 - int64(r.Intn(30000))
	case 1:
		d = 5001 + int64(r.Intn(20000))
	case 2: // exact decimal ties
		d = (1+r.Int63n(1000000))*10000 + 5000
	case 3: // binary-exact ties (multiples of 15625000 that are odd)
		d = 15625000 * (2*r.Int63n(100000) + 1)
	case 4: // one off a tie
		d = (1+r.Int63n(100000000))*10000 + 5000 + int64(r.Intn(3)) - 1
	case 5: // multiples of 10 µs (what a previous round trip produces)
		d = (1 + r.Int63n(100000000000)) * 10000
	case 6:
		d = (1 + r.Int63n(86400)) * 1000000000
	default:
		d = 5001 + r.Int63n(multiMaxOffset-5001)
	}
	if d <= 5000 {
		d = 5001
	}
	if r.Intn(3) == 0 {
		d = -d
	}
	return d
}

// ---------------------------------------------------------------------------------------------
// values

var multiTypes = []playlist.MultivariantRenditionType{
	playlist.MultivariantRenditionTypeAudio, playlist.MultivariantRenditionTypeVideo,
	playlist.MultivariantRenditionTypeSubtitles, playlist.MultivariantRenditionTypeClosedCaptions,
}

// genVariant: mask bits = presence of AverageBandwidth, Resolution, FrameRate, Video, Audio, Subtitles, ClosedCaptions
func genVariant(r *rand.Rand, mask int, lexical bool) *playlist.MultivariantVariant {
	v := &playlist.MultivariantVariant{Bandwidth: genInt31(r), URI: genURI(r)}
	for k := 1 + r.Intn(3); k > 0; k-- {
		c := strings.NewReplacer(",", ".").Replace(genLegalString(r, true))
		v.Codecs = append(v.Codecs, c)
	}
	if mask&1 != 0 {
		a := genInt31(r)
		v.AverageBandwidth = &a
	}
	if mask&2 != 0 {
		v.Resolution = genResolution(r, lexical)
	}
	if mask&4 != 0 {
		f := genFrameRate(r)
		v.FrameRate = &f
	}
	if mask&8 != 0 {
		v.Video = genLegalString(r, false)
	}
	if mask&16 != 0 {
		v.Audio = genLegalString(r, false)
	}
	if mask&32 != 0 {
		v.Subtitles = genLegalString(r, false)
	}
	if mask&64 != 0 {
		v.ClosedCaptions = genLegalString(r, false)
	}
	return v
}

// genRendition: mask bits = Language, Autoselect, Default, Forced, Channels, URI, InStreamID (+ Name when !valid).
// With valid = true the type rules of the documentation override the bits.
func genRendition(r *rand.Rand, typ int, mask int, valid bool) *playlist.MultivariantRendition {
	x := &playlist.MultivariantRendition{Type: multiTypes[typ%4], GroupID: genLegalString(r, false), Name: genLegalString(r, false)}
	sp := func(allowEmpty bool) *string { s := genLegalString(r, allowEmpty); return &s }
	if mask&1 != 0 {
		x.Language = genLegalString(r, false)
	}
	x.Autoselect = mask&2 != 0
	x.Default = mask&4 != 0
	x.Forced = mask&8 != 0
	if mask&16 != 0 {
		x.Channels = sp(true)
	}
	if mask&32 != 0 {
		x.URI = sp(true)
	}
	if mask&64 != 0 {
		x.InStreamID = sp(true)
	}
	if valid {
		switch x.Type {
		case playlist.MultivariantRenditionTypeClosedCaptions:
			x.URI = nil
			x.Channels = nil
			if x.InStreamID == nil {
				x.InStreamID = sp(true)
			}
		case playlist.MultivariantRenditionTypeSubtitles:
			x.InStreamID = nil
			x.Channels = nil
			if x.URI == nil {
				x.URI = sp(true)
			}
		case playlist.MultivariantRenditionTypeVideo:
			x.InStreamID = nil
			x.Channels = nil
		default:
			x.InStreamID = nil
		}
	} else if mask&128 != 0 {
		x.Name = ""
	}
	return x
}

// genValidMulti: case number i drives the exhaustive enumeration of presence subsets:
// variant mask = i mod 128, rendition (type, mask) = i mod 512, top-level mask = i mod 8.
func genValidMulti(r *rand.Rand, i int, lexical bool) *playlist.Multivariant {
	m := &playlist.Multivariant{Version: r.Intn(11)}
	top := i % 8
	m.IndependentSegments = top&1 != 0
	if top&2 != 0 {
		m.Start = &playlist.MultivariantStart{TimeOffset: time.Duration(genOffset(r))}
	}
	m.Variants = append(m.Variants, genVariant(r, i%128, lexical))
	for k := r.Intn(3); k > 0; k-- {
		m.Variants = append(m.Variants, genVariant(r, r.Intn(128), lexical))
	}
	if top&4 != 0 {
		m.Renditions = append(m.Renditions, genRendition(r, (i/128)%4, i%128, true))
		for k := r.Intn(3); k > 0; k-- {
			m.Renditions = append(m.Renditions, genRendition(r, r.Intn(4), r.Intn(128), true))
		}
	}
	return m
}

// genWildMulti: values outside the documented requirements (model = implementation only)
func genWildMulti(r *rand.Rand) *playlist.Multivariant {
	m := genValidMulti(r, r.Intn(1<<20), r.Intn(2) == 0)
	for k := 1 + r.Intn(3); k > 0; k-- {
		switch r.Intn(16) {
		case 0:
			m.Version = []int{-1, 11, math.MaxInt32, math.MaxInt64, math.MinInt64, 1 << 31}[r.Intn(6)]
		case 1:
			m.Start = &playlist.MultivariantStart{TimeOffset: time.Duration([]int64{0, 1, -1, 4999, 5000, -5000, -4999, math.MaxInt64, math.MinInt64, 2e15}[r.Intn(10)])}
		case 2:
			m.Variants = nil
			return m
		case 3:
			m.Variants[0].Bandwidth = []int{-1, 1 << 31, math.MaxInt64, math.MinInt64}[r.Intn(4)]
		case 4:
			a := []int{-1, 1 << 31, math.MaxInt64}[r.Intn(3)]
			m.Variants[0].AverageBandwidth = &a
		case 5:
			m.Variants[0].Codecs = nil
		case 6:
			m.Variants[0].Codecs = []string{genAnyString(r), genAnyString(r)}
		case 7:
			m.Variants[0].URI = []string{"", "#x", "a\nb", "a\r", "\r", " "}[r.Intn(6)]
		case 8:
			m.Variants[0].Resolution = genAnyString(r)
		case 9:
			f := []float64{math.NaN(), math.Inf(1), math.Inf(-1), -1.5, 0.0005, 1e300, 29.97002997, math.Copysign(0, -1), 1e-320}[r.Intn(9)]
			m.Variants[0].FrameRate = &f
		case 10:
			m.Variants[0].Audio = genAnyString(r)
		case 11:
			m.Renditions = append(m.Renditions, genRendition(r, r.Intn(4), r.Intn(256), false))
		case 12:
			x := genRendition(r, r.Intn(4), r.Intn(128), true)
			x.Type = playlist.MultivariantRenditionType([]string{"", "audio", "AUDIO ", "X", "CLOSED-CAPTIONS,"}[r.Intn(5)])
			m.Renditions = append(m.Renditions, x)
		case 13:
			x := genRendition(r, r.Intn(4), r.Intn(128), true)
			x.GroupID = []string{"", "a\"b", "a\nb"}[r.Intn(3)]
			m.Renditions = append(m.Renditions, x)
		case 14:
			x := genRendition(r, r.Intn(4), r.Intn(128), true)
			s := genAnyString(r)
			x.URI = &s
			x.Name = genAnyString(r)
			m.Renditions = append(m.Renditions, x)
		default:
			m.Variants[len(m.Variants)-1].ClosedCaptions = genAnyString(r)
		}
	}
	return m
}

// ---------------------------------------------------------------------------------------------
// syntactic variants of a marshalled playlist (all must decode to the same value)

func splitKeepLines(t string) []string {
	ls := strings.Split(t, "\n")
	if len(ls) > 0 && ls[len(ls)-1] == "" {
		ls = ls[:len(ls)-1]
	}
	return ls
}

var multiUnknownLines = []string{
	"#EXT-X-UNKNOWN-TAG:FOO=1,BAR=\"x\"", "# a comment", "#", "#EXT-X-SESSION-DATA:DATA-ID=\"com.example\",VALUE=\"v\"",
	"#EXT-X-I-FRAME-STREAM-INF:BANDWIDTH=1,URI=\"i.m3u8\"", "#EXT-X-STARTER", "#EXTM3U", "#EXT-X-MEDIAX:TYPE=AUDIO", "",
}

func attrTagOf(line string) (string, string, bool) {
	for _, p := range []string{"#EXT-X-STREAM-INF:", "#EXT-X-MEDIA:", "#EXT-X-START:"} {
		if strings.HasPrefix(line, p) {
			return p, line[len(p):], true
		}
	}
	return "", "", false
}

func renderPairs(ps []m3uPair) string {
	var out []string
	for _, p := range ps {
		if p.quoted {
			out = append(out, p.name+"=\""+p.value+"\"")
		} else {
			out = append(out, p.name+"="+p.value)
		}
	}
	return strings.Join(out, ",")
}

// variantOf applies the transformations selected by kind (bit set) to the marshalled text t.
// 1 CRLF, 2 no trailing newline, 4 unknown tags / comments / blank lines, 8 unknown attributes, 16 attribute permutation
func variantOf(r *rand.Rand, t string, kind int) string {
	ls := splitKeepLines(t)
	var out []string
	afterStreamInf := false
	for n, l := range ls {
		if kind&4 != 0 && n > 0 && !afterStreamInf && r.Intn(2) == 0 {
			for k := 1 + r.Intn(2); k > 0; k-- {
				out = append(out, multiUnknownLines[r.Intn(len(multiUnknownLines))])
			}
		}
		if p, al, ok := attrTagOf(l); ok {
			if pairs, err := m3uLexAttrs(al); err == nil {
				if kind&16 != 0 {
					r.Shuffle(len(pairs), func(a, b int) { pairs[a], pairs[b] = pairs[b], pairs[a] })
				}
				if kind&8 != 0 {
					for k := 1 + r.Intn(2); k > 0; k-- {
						extra := []m3uPair{{name: "X-UNKNOWN", value: "1"}, {name: "X-Q", value: "a,b=c", quoted: true},
							{name: "HDCP-LEVEL", value: "NONE"}, {name: "PRECISE", value: "YES"}, {name: "X-EMPTY", value: "", quoted: true}}[r.Intn(5)]
						at := r.Intn(len(pairs) + 1)
						pairs = append(pairs[:at], append([]m3uPair{extra}, pairs[at:]...)...)
					}
				}
				l = p + renderPairs(pairs)
			}
		}
		out = append(out, l)
		afterStreamInf = strings.HasPrefix(l, "#EXT-X-STREAM-INF:")
	}
	if kind&4 != 0 && r.Intn(2) == 0 {
		out = append(out, multiUnknownLines[r.Intn(len(multiUnknownLines))])
	}
	sep := "\n"
	if kind&1 != 0 {
		sep = "\r\n"
	}
	s := strings.Join(out, sep)
	if kind&2 == 0 || out[len(out)-1] == "" {
		s += sep
	}
	return s
}

// mutate: byte-level mutations
func mutateBytes(r *rand.Rand, t string) string {
	b := []byte(t)
	for k := 1 + r.Intn(3); k > 0; k-- {
		if len(b) == 0 {
			b = append(b, byte(r.Intn(256)))
			continue
		}
		p := r.Intn(len(b))
		switch r.Intn(7) {
		case 0:
			b[p] = byte(r.Intn(256))
		case 1:
			b[p] = "\"\n\r,=:# -.0x"[r.Intn(12)]
		case 2:
			b = append(b[:p], b[p+1:]...)
		case 3:
			b = append(b[:p], append([]byte{"\"\n\r,=:#"[r.Intn(7)]}, b[p:]...)...)
		case 4: // truncate
			b = b[:p]
		case 5: // duplicate a chunk
			q := p + r.Intn(len(b)-p)
			b = append(b[:q], append(append([]byte{}, b[p:q]...), b[q:]...)...)
		default: // delete a chunk
			q := p + r.Intn(len(b)-p)
			if q-p > 40 {
				q = p + 40
			}
			b = append(b[:p], b[q:]...)
		}
	}
	return string(b)
}

var attrSoupAlphabet = []byte("AB-=,\" x1")

func genAttrSoup(r *rand.Rand) string {
	if r.Intn(3) == 0 { // grammar based
		var parts []string
		for k := r.Intn(5); k > 0; k-- {
			key := strings.Repeat(" ", r.Intn(3)) + []string{"A", "B", "KEY-1", "", "A B"}[r.Intn(5)]
			var val string
			switch r.Intn(4) {
			case 0:
				val = "\"" + strings.NewReplacer("\"", "").Replace(genLegalString(r, true)) + "\""
			case 1:
				val = strings.NewReplacer(",", "").Replace(genLegalString(r, true))
			case 2:
				val = ""
			default:
				val = []string{"\"", "\"a\"b", "1", "YES", "0x1F", " \"x\""}[r.Intn(6)]
			}
			parts = append(parts, key+"="+val)
		}
		return strings.Join(parts, ",")
	}
	n := r.Intn(14)
	b := make([]byte, n)
	for i := range b {
		b[i] = attrSoupAlphabet[r.Intn(len(attrSoupAlphabet))]
	}
	return string(b)
}

func genFloatText(r *rand.Rand) string {
	switch r.Intn(12) {
	case 0:
		return []string{"inf", "-Inf", "+INFINITY", "nan", "NaN", "infinit", "-nan", "in", "i", "n", "Infinityx"}[r.Intn(11)]
	case 1: // hex floats
		m := strconv.FormatUint(r.Uint64()>>uint(r.Intn(60)), 16)
		if r.Intn(2) == 0 && len(m) > 1 {
			p := r.Intn(len(m))
			m = m[:p] + "." + m[p:]
		}
		return "0x" + m + "p" + strconv.Itoa(r.Intn(2200)-1100)
	case 2: // exponent forms
		return strconv.Itoa(r.Intn(1000)) + "." + strconv.Itoa(r.Intn(1000)) + "e" + strconv.Itoa(r.Intn(700)-350)
	case 3: // many digits
		s := ""
		for k := 20 + r.Intn(30); k > 0; k-- {
			s += strconv.Itoa(r.Intn(10))
		}
		p := r.Intn(len(s))
		return s[:p] + "." + s[p:]
	case 4: // near halfway points between doubles
		f := math.Float64frombits(r.Uint64() & 0x7FEFFFFFFFFFFFFF)
		return strconv.FormatFloat(f, 'e', 17+r.Intn(4), 64)
	case 5: // underscores and junk
		return []string{"1_0", "_1", "1_", "1__0", "0x_1p0", "0x1_p0", "1e1_0", "1e_1", "0x", "0xp1", "0x1", "1e", "1e+", "+", "-", ".", "..", "1.2.3", "1e5e5", " 1", "1 ", "+.5", "-5.", "0x.8p1", "0X1P-1"}[r.Intn(25)]
	case 6: // subnormal / overflow edge
		return []string{"4.9406564584124654e-324", "2.4703282292062327e-324", "2.4703282292062328e-324", "2.2250738585072011e-308", "1.7976931348623157e308", "1.7976931348623158e308", "1.797693134862315807e308", "1e309", "1e-400", "123456789e-340"}[r.Intn(10)]
	default: // duration-like decimals
		q := r.Int63n(1000000000000)
		s := strconv.FormatInt(q/100000, 10) + "." + fmt.Sprintf("%05d", q%100000)
		if r.Intn(4) == 0 {
			s = "-" + s
		}
		if r.Intn(6) == 0 {
			s += strconv.Itoa(r.Intn(1000))
		}
		return s
	}
}

func genUintText(r *rand.Rand) string {
	switch r.Intn(8) {
	case 0:
		return []string{"", "+1", "-1", "1_0", "0x1", " 1", "1 ", "١"}[r.Intn(8)]
	case 1:
		return strconv.FormatUint(uint64(math.MaxInt32)+uint64(r.Intn(3))-1, 10)
	case 2:
		return []string{"18446744073709551614", "18446744073709551615", "18446744073709551616", "99999999999999999999", "000000000000000000000001"}[r.Intn(5)]
	case 3:
		return mutateBytes(r, strconv.FormatUint(r.Uint64(), 10))
	default:
		return strconv.FormatUint(r.Uint64()>>uint(r.Intn(64)), 10)
	}
}

// ---------------------------------------------------------------------------------------------

func (multiSlice) Gen(r *rand.Rand, i int, tier string) ([]string, []string) {
	var ops, tags []string
	switch x := r.Intn(100); {
	case x < 45: // valid value: marshal, round trip, syntactic variants, kind detection
		lexical := r.Intn(4) != 0
		m := genValidMulti(r, i, lexical)
		ops = append(ops, "mar "+fmtMulti(m))
		tags = append(tags, "valid-value", fmt.Sprintf("top-mask-%d", i%8))
		if valid, _ := multiValid(m); !valid {
			tags = append(tags, "valid-gen-offset-out-of-range")
		}
		byts, err := m.Marshal()
		if err == nil {
			t := string(byts)
			for _, k := range []int{1, 2, 4, 8, 16, 1 + r.Intn(31)} {
				ops = append(ops, "unmv "+hx(variantOf(r, t, k)))
			}
			ops = append(ops, "pl "+hx(t), "pl "+hx(variantOf(r, t, 1+r.Intn(31))))
			ops = append(ops, "gram "+hx(t), "gram "+hx(variantOf(r, t, 1+r.Intn(31))), "gram "+hx(mutateBytes(r, t)))
			tags = append(tags, "variants")
		}
	case x < 60: // values outside the requirements
		m := genWildMulti(r)
		ops = append(ops, "mar "+fmtMulti(m))
		tags = append(tags, "wild-value")
		if valid, _ := multiValid(m); valid {
			tags = append(tags, "wild-but-valid")
		}
	case x < 80: // byte-level mutations of marshal outputs and of the fuzz corpora
		var base string
		if c := multiCorpusTexts(); len(c) > 0 && r.Intn(3) == 0 {
			base = c[r.Intn(len(c))]
			tags = append(tags, "mutated-corpus")
		} else {
			m := genValidMulti(r, r.Intn(1<<20), true)
			byts, _ := m.Marshal()
			base = variantOf(r, string(byts), r.Intn(32))
			tags = append(tags, "mutated-marshal")
		}
		for k := 2 + r.Intn(4); k > 0; k-- {
			t := mutateBytes(r, base)
			ops = append(ops, "unm "+hx(t), "pl "+hx(t), "gram "+hx(t))
		}
	case x < 88: // attribute tokenizer
		for k := 3 + r.Intn(6); k > 0; k-- {
			ops = append(ops, "attrs "+hx(genAttrSoup(r)))
		}
		tags = append(tags, "attrs")
	default: // scalars
		for k := 4 + r.Intn(8); k > 0; k-- {
			switch r.Intn(11) {
			case 0, 1:
				ops = append(ops, "dur "+hx(genFloatText(r)))
			case 2:
				ops = append(ops, "pf "+hx(genFloatText(r)))
			case 3:
				d := genOffset(r)
				if r.Intn(4) == 0 {
					d = int64(r.Uint64())
				}
				ops = append(ops, "durfmt "+strconv.FormatInt(d, 10), "sec "+strconv.FormatInt(d, 10))
			case 4:
				ops = append(ops, fmt.Sprintf("ff %d %d", []int{3, 5}[r.Intn(2)], r.Uint64()))
			case 5:
				ops = append(ops, fmt.Sprintf("ff 3 %d", math.Float64bits(genFrameRate(r))), fmt.Sprintf("mul9 %d", r.Uint64()))
			case 6:
				ops = append(ops, fmt.Sprintf("pu %d %s", []int{31, 64}[r.Intn(2)], hx(genUintText(r))))
			case 7:
				ops = append(ops, "fi "+strconv.FormatInt(int64(r.Uint64())>>uint(r.Intn(64)), 10))
			case 8:
				ops = append(ops, "br "+hx(genUintText(r)+[]string{"", "@", "@" + genUintText(r)}[r.Intn(3)]))
			case 9:
				st := "~"
				if r.Intn(2) == 0 {
					st = strconv.FormatUint(r.Uint64()>>uint(r.Intn(64)), 10)
				}
				ops = append(ops, "brm "+strconv.FormatUint(r.Uint64()>>uint(r.Intn(64)), 10)+" "+st)
			default:
				ops = append(ops, "rl "+hx(mutateBytes(r, "ab\r\ncd\n\r\n")))
			}
		}
		tags = append(tags, "scalars")
	}
	return ops, tags
}
