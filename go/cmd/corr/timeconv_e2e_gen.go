package main

import (
	"bufio"
	"fmt"
	"math/big"
	"math/rand"
	"os"
	"sort"
	"strings"
)

// Generator of the timeconv_e2e slice and the hidden `timeconv-child` sub-command.

// init hijacks the process when it was re-executed as a child (cmd/corr/main.go is not ours to edit): the child
// reads the definition lines of ONE case from stdin, runs the real client in this process and prints the
// observation; a panic of the client kills only this child.
func init() {
	if len(os.Args) >= 2 && os.Args[1] == "timeconv-child" {
		var lines []string
		sc := bufio.NewScanner(os.Stdin)
		sc.Buffer(make([]byte, 1<<20), 1<<26)
		for sc.Scan() {
			if l := strings.TrimSpace(sc.Text()); l != "" {
				lines = append(lines, l)
			}
		}
		c, ok := parseE2E(lines)
		if !ok {
			fmt.Println("bad-case")
			os.Exit(0)
		}
		res, err := c.runClient()
		if err != nil {
			fmt.Println("harness-error " + strings.ReplaceAll(err.Error(), " ", "_"))
			os.Exit(0)
		}
		for _, l := range c.observation(res) {
			fmt.Println(l)
		}
		os.Exit(0)
	}
}

func (timeconvE2ESlice) Corpus() [][]string {
	mk := func(c *e2eCase) []string { return c.ops() }
	pdt := int64(1700000000000000000)
	var out [][]string
	// TestClient-like fMP4, base 6 s, two timescales, B-frame offsets
	out = append(out, mk(&e2eCase{format: "fmp4", layout: "single", mode: "vod", msn: 20,
		tracks: [][]e2eTrack{{{0, 99, 90000, "h264", "H264", true, true}, {0, 98, 44100, "aac", "MPEG4Audio", false, true}}},
		segs: [][]*e2eSeg{{
			{stream: 0, n: 0, pdt: &pdt, pts: []e2ePT{
				{0, 98, 264600, []tcSample{{147, 0, 1}, {147, 0, 2}}},
				{0, 99, 540000, []tcSample{{300, 18000, 3}, {300, 18000, 4}}}}},
			{stream: 0, n: 1, pts: []e2ePT{{0, 99, 540600, []tcSample{{300, 0, 5}}}}},
		}}}))
	// F9: zero time scale on the leading track (child process)
	out = append(out, mk(&e2eCase{format: "fmp4", layout: "single", mode: "vod", child: true,
		tracks: [][]e2eTrack{{{0, 1, 0, "h264", "H264", true, true}}},
		segs:   [][]*e2eSeg{{{stream: 0, n: 0, pts: []e2ePT{{0, 1, 1000, []tcSample{{300, 0, 1}}}}}}}}))
	// F9: zero time scale on a non-leading track
	out = append(out, mk(&e2eCase{format: "fmp4", layout: "single", mode: "vod", child: true,
		tracks: [][]e2eTrack{{{0, 1, 90000, "h264", "H264", true, true}, {0, 2, 0, "aac", "MPEG4Audio", false, true}}},
		segs: [][]*e2eSeg{{{stream: 0, n: 0, pts: []e2ePT{{0, 1, 1000, []tcSample{{300, 0, 1}}},
			{0, 2, 5, []tcSample{{10, 0, 2}}}}}}}}))
	// F8: a codec FromFMP4 does not know (MPEG-1 audio) next to H264; MJPEG as the (leading) video track
	out = append(out, mk(&e2eCase{format: "fmp4", layout: "single", mode: "vod", child: true,
		tracks: [][]e2eTrack{{{0, 1, 90000, "h264", "H264", true, true}, {0, 2, 48000, "mp1a", "MPEG1Audio", false, false}}},
		segs: [][]*e2eSeg{{{stream: 0, n: 0, pts: []e2ePT{{0, 1, 1000, []tcSample{{300, 0, 1}}},
			{0, 2, 533, []tcSample{{100, 0, 2}}}}}}}}))
	out = append(out, mk(&e2eCase{format: "fmp4", layout: "single", mode: "vod", child: true,
		tracks: [][]e2eTrack{{{0, 1, 90000, "mjpeg", "MJPEG", true, false}, {0, 2, 48000, "aac", "MPEG4Audio", false, true}}},
		segs: [][]*e2eSeg{{{stream: 0, n: 0, pts: []e2ePT{{0, 1, 1000, []tcSample{{300, 0, 1}}},
			{0, 2, 533, []tcSample{{100, 0, 2}}}}}}}}))
	// MPEG-TS: origin 1000 ticks before the wrap, audio interleaved (needs the d lines: built below)
	ts := &e2eCase{format: "ts", layout: "single", mode: "vod",
		tracks: [][]e2eTrack{{{0, 0, 90000, "h264", "H264", true, true}, {0, 1, 90000, "aac", "MPEG4Audio", false, true}}},
		segs: [][]*e2eSeg{{
			{stream: 0, n: 0, pdt: &pdt, ws: []e2eTS{{0, tcM - 1000 + 600, tcM - 1000, 1}, {1, tcM - 1000, tcM - 1000, 2}, {1, tcM - 400, tcM - 400, 3},
				{0, 200, tcM - 400, 4}, {1, 200, 200, 5}, {0, 200, 200, 6}}},
			{stream: 0, n: 1, ws: []e2eTS{{0, 800, 800, 7}, {1, 800, 800, 8}}},
		}}}
	if fillDemux(ts) == nil {
		out = append(out, mk(ts))
	}
	// F17: one segment of 7 fragments × 2 tracks = 14 part-tracks (> clientMaxTracksPerStream + number of tracks):
	// the stream processor collects completion signals only after pushing every part-track
	dl := &e2eCase{format: "fmp4", layout: "single", mode: "vod",
		tracks: [][]e2eTrack{{{0, 1, 90000, "h264", "H264", true, true}, {0, 2, 48000, "aac", "MPEG4Audio", false, true}}},
		segs:   [][]*e2eSeg{{{stream: 0, n: 0}}}}
	for p := 0; p < 7; p++ {
		dl.segs[0][0].pts = append(dl.segs[0][0].pts,
			e2ePT{p, 1, int64(1000 + p*90), []tcSample{{90, 0, int64(2*p + 1)}}},
			e2ePT{p, 2, int64(533 + p*48), []tcSample{{48, 0, int64(2*p + 2)}}})
	}
	out = append(out, mk(dl))
	return out
}

// fillDemux computes the d lines (reader call-back order) of an MPEG-TS case.
func fillDemux(c *e2eCase) error {
	for s := range c.tracks {
		segB, err := c.buildTS(s)
		if err != nil {
			return err
		}
		dm, err := c.tsDemux(s, segB)
		if err != nil {
			return err
		}
		for n := range c.segs[s] {
			c.segs[s][n].ds = dm[n]
		}
	}
	return nil
}

func e2eBoundary(r *rand.Rand) int64 {
	pows := []uint{16, 31, 32, 33, 34, 40}
	switch r.Intn(8) {
	case 0:
		return int64(r.Intn(1000))
	case 1, 2, 3:
		p := int64(1) << pows[r.Intn(len(pows))]
		v := p + int64(r.Intn(200001)) - 100000
		if v > 1<<40 {
			v = 1 << 40
		}
		return v
	case 4:
		return r.Int63n(int64(1) << 33)
	default:
		return r.Int63n(int64(1)<<40 + 1)
	}
}

func pick[T any](r *rand.Rand, xs []T) T { return xs[r.Intn(len(xs))] }

func (timeconvE2ESlice) Gen(r *rand.Rand, _ int, tier string) ([]string, []string) {
	tags := map[string]bool{}
	c := &e2eCase{}
	c.format = "fmp4"
	if r.Intn(100) < 45 {
		c.format = "ts"
	}
	c.layout = "single"
	if r.Intn(100) < 40 {
		c.layout = "rend"
	}
	c.mode = "vod"
	nseg := 1 + r.Intn(4)
	if r.Intn(100) < 35 {
		c.mode = "live"
		nseg = 3 + r.Intn(4)
		c.k = 3 + r.Intn(nseg-2)
	}
	c.msn = r.Intn(50)
	c.br = r.Intn(100) < 30
	pdtMode := []int{0, 1, 2, 2}[r.Intn(4)]
	start := c.start()
	ndl := nseg - start
	maxSeg := 90 / ndl
	if maxSeg > 20 {
		maxSeg = 20
	}
	segMs := 2 + r.Intn(maxSeg-1)
	if tier == "thorough" && r.Intn(4) == 0 && segMs*ndl < 40 {
		segMs *= 2
	}
	segNs := int64(segMs) * 1000000
	if r.Intn(3) == 0 {
		segNs += int64(r.Intn(1000000))
	}
	malformed := ""
	if r.Intn(100) < 6 {
		malformed = pick(r, []string{"f8", "f8video", "f9lead", "f9other", "noleading", "rendmulti"})
		if c.format == "ts" && malformed != "noleading" {
			malformed = ""
		}
		if malformed == "rendmulti" && c.layout != "rend" {
			malformed = ""
		}
		if malformed == "noleading" && c.br {
			c.br = false // a segment left without any content would be an unsatisfiable zero-length byte range
		}
	}

	// ---- tracks ----
	audioOnly := r.Intn(100) < 12
	nStreams := 1
	if c.layout == "rend" {
		nStreams = 2 + r.Intn(3)
		if c.format == "ts" {
			nStreams = 2 + r.Intn(2)
		}
	}
	ids := r.Perm(20)
	nextID := 0
	newID := func(s, idx int) int {
		if c.format == "ts" {
			return idx
		}
		if s > 0 && r.Intn(2) == 0 {
			return 1
		}
		nextID++
		return ids[nextID-1] + 1
	}
	vRates := []int64{90000, 90000, 30000, 1000, 600, 10000000, 12800, 24000}
	aRates := []int64{48000, 44100, 8000, 16000, 90000, 22050}
	type spec struct{ codec string }
	var specs [][]string
	if audioOnly {
		n := 1 + r.Intn(2)
		var s0 []string
		for i := 0; i < n; i++ {
			s0 = append(s0, "a")
		}
		specs = append(specs, s0)
	} else {
		s0 := []string{"v"}
		na := r.Intn(4)
		if c.layout == "rend" {
			na = r.Intn(2)
		}
		if c.format == "ts" && na > 2 {
			na = 2
		}
		for i := 0; i < na; i++ {
			s0 = append(s0, "a")
		}
		r.Shuffle(len(s0), func(i, j int) { s0[i], s0[j] = s0[j], s0[i] })
		specs = append(specs, s0)
	}
	for s := 1; s < nStreams; s++ {
		specs = append(specs, []string{"a"})
	}
	if c.format == "ts" && r.Intn(100) < 15 {
		// an elementary stream the client has no support for (Opus in MPEG-TS): must not be exposed
		pos := r.Intn(len(specs[0]) + 1)
		specs[0] = append(specs[0][:pos], append([]string{"u"}, specs[0][pos:]...)...)
		tags["ts-unsupported-track"] = true
	}
	for s, sp := range specs {
		var ts []e2eTrack
		for i, k := range sp {
			t := e2eTrack{stream: s, id: newID(s, i), sup: true}
			switch k {
			case "v":
				t.video = true
				if c.format == "ts" {
					t.codec, t.kind, t.rate = "h264", "H264", 90000
				} else {
					t.codec = pick(r, []string{"h264", "h264", "h264", "h265", "vp9"})
					t.rate = pick(r, vRates)
				}
			case "a":
				if c.format == "ts" {
					t.codec, t.kind, t.rate = "aac", "MPEG4Audio", 90000
				} else {
					t.codec = pick(r, []string{"aac", "aac", "opus"})
					t.rate = pick(r, aRates)
				}
			case "u":
				t.codec, t.kind, t.rate, t.sup = "opus", "Opus", 90000, false
			}
			if c.format == "fmp4" {
				cd := fmp4Codec(t.codec)
				t.kind, t.video = fmp4KindOf(cd), cd.IsVideo()
			}
			ts = append(ts, t)
		}
		c.tracks = append(c.tracks, ts)
	}
	switch malformed {
	case "f8":
		cd := pick(r, []string{"mp1a", "lpcm", "ac3"})
		t := e2eTrack{stream: 0, id: 30, rate: 48000, codec: cd, kind: fmp4KindOf(fmp4Codec(cd)), sup: false}
		c.tracks[0] = append(c.tracks[0], t)
		c.child = true
	case "f8video":
		t := e2eTrack{stream: 0, id: 31, rate: 90000, codec: "mjpeg", kind: "MJPEG", video: true, sup: false}
		c.tracks[0] = append([]e2eTrack{t}, c.tracks[0]...)
		c.child = true
	case "f9lead":
		_, lt := c.leadingTrack()
		lt.rate = 0
		c.child = true
	case "f9other":
		if len(c.tracks[0]) > 1 {
			_, lt := c.leadingTrack()
			for i := range c.tracks[0] {
				if &c.tracks[0][i] != lt {
					c.tracks[0][i].rate = 0
					break
				}
			}
			c.child = true
		} else {
			malformed = ""
		}
	case "rendmulti":
		t := c.tracks[1][0]
		t.id = 17
		c.tracks[1] = append(c.tracks[1], t)
	}

	// ---- timeline ----
	_, lead := c.leadingTrack()
	leadRate := lead.rate
	if leadRate == 0 {
		leadRate = 90000 // f9lead: content generated as if 90 kHz
	}
	var leadBase int64
	if c.format == "fmp4" {
		leadBase = e2eBoundary(r)
		if leadBase >= 1<<32 {
			tags["base>=2^32"] = true
		}
	} else {
		totalTicks := int64(nseg) * segNs * 9 / 100000
		switch r.Intn(10) {
		case 0, 1, 2, 3:
			leadBase = tcM - r.Int63n(totalTicks*3/2+2) - int64(start)*segNs*9/100000
			tags["ts-wrap-inside"] = true
		case 4:
			leadBase = int64(r.Intn(100))
		default:
			leadBase = r.Int63n(tcM)
		}
		leadBase = tcEmod(leadBase)
	}
	pdt0 := int64(1600000000+r.Intn(200000000))*1000000000 + int64(r.Intn(1000))*1000000
	negSeen, twoScales, multiFrag := false, false, false
	for s := range c.tracks {
		c.segs = append(c.segs, nil)
		for n := 0; n < nseg; n++ {
			sg := &e2eSeg{stream: s, n: n}
			hasPdt := pdtMode == 2 || (pdtMode == 1 && n == start)
			if s > 0 && pdtMode != 0 {
				hasPdt = r.Intn(2) == 0 // the client ignores the PDT of rendition playlists
			}
			if hasPdt {
				v := pdt0 + (int64(n)*segNs/1000000)*1000000
				if s > 0 {
					v -= 86400 * 1000000000
				}
				sg.pdt = &v
			}
			c.segs[s] = append(c.segs[s], sg)
		}
	}
	if c.layout == "rend" && pdtMode == 2 && ndl > 1 {
		c.racy = true
	}
	type trackPlan struct {
		frames  int
		dur     int64
		base    int64 // base of segment 0
		segTick int64
		offs    []int64
	}
	for s := range c.tracks {
		plans := make([]trackPlan, len(c.tracks[s]))
		for i, t := range c.tracks[s] {
			rate := t.rate
			if c.format == "ts" {
				rate = 90000
			}
			if rate == 0 {
				rate = 48000
			}
			if rate != leadRate {
				twoScales = true
			}
			p := trackPlan{frames: 1 + r.Intn(4)}
			segTicks := new(big.Int).Div(new(big.Int).Mul(big.NewInt(segNs), big.NewInt(rate)), big.NewInt(1000000000)).Int64()
			p.dur = segTicks / int64(p.frames)
			p.segTick = p.dur * int64(p.frames)
			isLead := s == 0 && &c.tracks[s][i] == lead
			if isLead {
				p.base = leadBase
			} else {
				b := new(big.Int).Div(new(big.Int).Mul(big.NewInt(leadBase), big.NewInt(rate)), big.NewInt(leadRate)).Int64()
				maxOff := 3 * rate / 1000
				var off int64
				switch r.Intn(6) {
				case 0:
					off = 0
				case 1:
					off = -1
				case 2:
					off = 1
				default:
					off = r.Int63n(2*maxOff+1) - maxOff
				}
				p.base = b + off
				if c.format == "fmp4" && p.base < 0 {
					p.base = 0
				}
			}
			// PTS offsets
			for k := 0; k < p.frames*nseg; k++ {
				var o int64
				if t.video {
					o = int64(r.Intn(4)) * p.dur
					if c.format == "fmp4" && r.Intn(12) == 0 {
						o = -int64(r.Intn(int(2*p.dur + 2)))
					}
					if r.Intn(3) == 0 {
						o = 0
					}
				} else if c.format == "fmp4" && r.Intn(20) == 0 {
					o = -int64(r.Intn(int(p.dur + 2)))
				}
				p.offs = append(p.offs, o)
			}
			plans[i] = p
		}
		pid := int64(s)*100000 + 1 + int64(r.Intn(1000))
		for n := 0; n < nseg; n++ {
			sg := c.segs[s][n]
			if c.format == "fmp4" {
				nparts := 1 + r.Intn(3)
				if nparts > 1 {
					multiFrag = true
				}
				for part := 0; part < nparts; part++ {
					order := r.Perm(len(c.tracks[s]))
					for _, i := range order {
						t, p := c.tracks[s][i], plans[i]
						// frames [lo,hi) of this track go to this part
						lo, hi := part*p.frames/nparts, (part+1)*p.frames/nparts
						if lo == hi {
							continue
						}
						if malformed == "noleading" && n == nseg-1 && s == 0 && &c.tracks[s][i] == lead {
							continue
						}
						pt := e2ePT{part: part, id: t.id, base: p.base + int64(n)*p.segTick + int64(lo)*p.dur}
						for k := lo; k < hi; k++ {
							off := p.offs[n*p.frames+k]
							pt.smp = append(pt.smp, tcSample{dur: p.dur, off: off, pid: pid})
							pid++
						}
						sg.pts = append(sg.pts, pt)
					}
					if r.Intn(20) == 0 {
						// a part-track whose id is in no init: skipped by the client
						sg.pts = append(sg.pts, e2ePT{part: part, id: 77, base: uint64ish(r), smp: []tcSample{{dur: 10, off: 0, pid: 900000 + pid}}})
						tags["fmp4-extra-parttrack"] = true
					}
				}
			} else {
				type unit struct {
					e2eTS
					ord int
				}
				var us []unit
				for i, t := range c.tracks[s] {
					p := plans[i]
					if malformed == "noleading" && n == nseg-1 && s == 0 && &c.tracks[s][i] == lead {
						continue
					}
					for k := 0; k < p.frames; k++ {
						dts := p.base + int64(n)*p.segTick + int64(k)*p.dur
						pts := dts
						if t.video {
							pts += p.offs[n*p.frames+k]
						}
						us = append(us, unit{e2eTS{t: i, pts: tcEmod(pts), dts: tcEmod(dts), pid: pid}, int(int64(n)*p.segTick + int64(k)*p.dur + (p.base - plans[0].base))})
						pid++
					}
				}
				switch r.Intn(10) {
				case 0, 1, 2: // all units of a track together, tracks in random order (as in the library's tests)
					perm := r.Perm(len(c.tracks[s]))
					sort.SliceStable(us, func(a, b int) bool { return perm[us[a].t] < perm[us[b].t] })
				case 3, 4: // random interleaving that keeps each track's order
					var q [][]unit
					for i := range c.tracks[s] {
						var x []unit
						for _, u := range us {
							if u.t == i {
								x = append(x, u)
							}
						}
						q = append(q, x)
					}
					us = us[:0]
					for {
						var nz []int
						for i := range q {
							if len(q[i]) > 0 {
								nz = append(nz, i)
							}
						}
						if len(nz) == 0 {
							break
						}
						i := nz[r.Intn(len(nz))]
						us = append(us, q[i][0])
						q[i] = q[i][1:]
					}
				default: // multiplexed by time
					sort.SliceStable(us, func(a, b int) bool { return us[a].ord < us[b].ord })
				}
				for _, u := range us {
					sg.ws = append(sg.ws, u.e2eTS)
				}
			}
		}
	}
	if c.format == "ts" {
		if err := fillDemux(c); err != nil {
			// cannot happen for generated content; make it visible as a harness problem
			return []string{"stream fmt=ts layout=single mode=vod k=0 msn=0 br=0 racy=0 child=0", "run n=999"}, []string{"gen-error"}
		}
	}
	// does any unit precede the origin?
	if c.format == "fmp4" {
		for s := range c.segs {
			for n := start; n < nseg; n++ {
				for _, p := range c.segs[s][n].pts {
					t := c.trackOf(s, p.id)
					if t == nil || t.rate == 0 || lead.rate == 0 {
						continue
					}
					orig := new(big.Int).Div(new(big.Int).Mul(big.NewInt(leadBase+int64(start)*0), big.NewInt(t.rate)), big.NewInt(lead.rate)).Int64()
					d := p.base
					for _, x := range p.smp {
						if d+x.off-orig < 0 {
							negSeen = true
						}
						d += x.dur
					}
				}
			}
		}
	} else {
		var o int64 = -1
		for _, w := range c.segs[0][start].ws {
			if &c.tracks[0][w.t] == lead {
				o = w.dts
				break
			}
		}
		if o >= 0 {
			for s := range c.segs {
				for n := start; n < nseg; n++ {
					for _, w := range c.segs[s][n].ws {
						if tsSigned(w.pts-o) < 0 {
							negSeen = true
						}
					}
				}
			}
		}
	}
	tags["fmt="+c.format] = true
	tags["layout="+c.layout] = true
	tags["mode="+c.mode] = true
	tags[fmt.Sprintf("pdt=%d", pdtMode)] = true
	tags[fmt.Sprintf("streams=%d", len(c.tracks))] = true
	tags[fmt.Sprintf("tracks0=%d", len(c.tracks[0]))] = true
	if c.br {
		tags["byte-range"] = true
	}
	if negSeen {
		tags["unit-before-origin"] = true
	}
	if twoScales {
		tags["two-timescales"] = true
	}
	if multiFrag {
		tags["multi-fragment"] = true
	}
	if audioOnly {
		tags["audio-only"] = true
	}
	if c.racy {
		tags["racy-rendition-ntp"] = true
	}
	if malformed != "" {
		tags["malformed="+malformed] = true
	} else {
		tags["well-formed"] = true
	}
	return c.ops(), sortedKeys(tags)
}

func uint64ish(r *rand.Rand) int64 { return r.Int63n(1 << 40) }
