package main

// Canonical one-line text form of playlist.Media shared with the Lean driver
// (lean/Drv/Playlist.lean documents the syntax).

import (
	"encoding/hex"
	"fmt"
	"strconv"
	"strings"
	"time"

	"github.com/bluenviron/gohlslib/v2/pkg/playlist"
)

func plStr(s string) string { return "x" + hex.EncodeToString([]byte(s)) }

func plBool(v bool) string {
	if v {
		return "1"
	}
	return "0"
}

func plOptU64(v *uint64) string {
	if v == nil {
		return "-"
	}
	return strconv.FormatUint(*v, 10)
}

func plOptInt(v *int) string {
	if v == nil {
		return "-"
	}
	return strconv.Itoa(*v)
}

func plOptDur(v *time.Duration) string {
	if v == nil {
		return "-"
	}
	return strconv.FormatInt(int64(*v), 10)
}

func plPart(b *[]string, p *playlist.MediaPart) {
	*b = append(*b, "part", strconv.FormatInt(int64(p.Duration), 10), plStr(p.URI), plBool(p.Independent),
		plOptU64(p.ByteRangeLength), plOptU64(p.ByteRangeStart), plBool(p.Gap))
}

func plZoneOffset(t time.Time) int {
	_, off := t.Zone()
	return off
}

func plSeg(b *[]string, s *playlist.MediaSegment) {
	*b = append(*b, "seg", strconv.FormatInt(int64(s.Duration), 10), plStr(s.Title), plStr(s.URI),
		plBool(s.Discontinuity), plBool(s.Gap))
	if s.DateTime == nil {
		*b = append(*b, "-")
	} else {
		*b = append(*b, "t", strconv.FormatInt(s.DateTime.Unix(), 10), strconv.Itoa(s.DateTime.Nanosecond()),
			strconv.Itoa(plZoneOffset(*s.DateTime)))
	}
	*b = append(*b, plOptInt(s.Bitrate))
	if s.Key == nil {
		*b = append(*b, "-")
	} else {
		k := s.Key
		*b = append(*b, "key", plStr(string(k.Method)), plStr(k.URI), plStr(k.IV), plStr(k.KeyFormat), plStr(k.KeyFormatVersions))
	}
	*b = append(*b, plOptU64(s.ByteRangeLength), plOptU64(s.ByteRangeStart), strconv.Itoa(len(s.Parts)))
	for _, p := range s.Parts {
		plPart(b, p)
	}
}

// plCanon renders a media playlist value.
func plCanon(m *playlist.Media) string {
	var b []string
	b = append(b, "media", strconv.Itoa(m.Version), plBool(m.IndependentSegments))
	if m.Start == nil {
		b = append(b, "-")
	} else {
		b = append(b, strconv.FormatInt(int64(m.Start.TimeOffset), 10))
	}
	if m.AllowCache == nil {
		b = append(b, "-")
	} else {
		b = append(b, plBool(*m.AllowCache))
	}
	b = append(b, strconv.Itoa(m.TargetDuration))
	if m.ServerControl == nil {
		b = append(b, "-")
	} else {
		sc := m.ServerControl
		b = append(b, "sc", plBool(sc.CanBlockReload), plOptDur(sc.PartHoldBack), plOptDur(sc.CanSkipUntil))
	}
	if m.PartInf == nil {
		b = append(b, "-")
	} else {
		b = append(b, strconv.FormatInt(int64(m.PartInf.PartTarget), 10))
	}
	b = append(b, strconv.Itoa(m.MediaSequence), plOptInt(m.DiscontinuitySequence))
	if m.PlaylistType == nil {
		b = append(b, "-")
	} else {
		b = append(b, plStr(string(*m.PlaylistType)))
	}
	if m.Map == nil {
		b = append(b, "-")
	} else {
		b = append(b, "map", plStr(m.Map.URI), plOptU64(m.Map.ByteRangeLength), plOptU64(m.Map.ByteRangeStart))
	}
	if m.Skip == nil {
		b = append(b, "-")
	} else {
		b = append(b, strconv.Itoa(m.Skip.SkippedSegments))
	}
	b = append(b, strconv.Itoa(len(m.Segments)))
	for _, s := range m.Segments {
		plSeg(&b, s)
	}
	b = append(b, strconv.Itoa(len(m.Parts)))
	for _, p := range m.Parts {
		plPart(&b, p)
	}
	if m.PreloadHint == nil {
		b = append(b, "-")
	} else {
		b = append(b, "ph", plStr(m.PreloadHint.URI), strconv.FormatUint(m.PreloadHint.ByteRangeStart, 10),
			plOptU64(m.PreloadHint.ByteRangeLength))
	}
	b = append(b, plBool(m.Endlist))
	return strings.Join(b, " ")
}

// ---- parser ----

type plToks struct {
	t   []string
	err error
}

func (p *plToks) next() string {
	if len(p.t) == 0 {
		if p.err == nil {
			p.err = fmt.Errorf("canon: out of tokens")
		}
		return ""
	}
	x := p.t[0]
	p.t = p.t[1:]
	return x
}

func (p *plToks) peek() string {
	if len(p.t) == 0 {
		return ""
	}
	return p.t[0]
}

func (p *plToks) fail(f string, a ...any) {
	if p.err == nil {
		p.err = fmt.Errorf(f, a...)
	}
}

func (p *plToks) lit(l string) {
	if x := p.next(); x != l {
		p.fail("canon: expected %q got %q", l, x)
	}
}

func (p *plToks) str() string {
	x := p.next()
	if !strings.HasPrefix(x, "x") {
		p.fail("canon: bad string %q", x)
		return ""
	}
	b, err := hex.DecodeString(x[1:])
	if err != nil {
		p.fail("canon: bad hex %q", x)
	}
	return string(b)
}

func (p *plToks) boolean() bool {
	switch p.next() {
	case "1":
		return true
	case "0":
		return false
	}
	p.fail("canon: bad bool")
	return false
}

func (p *plToks) i64() int64 {
	v, err := strconv.ParseInt(p.next(), 10, 64)
	if err != nil {
		p.fail("canon: bad int")
	}
	return v
}

func (p *plToks) u64() uint64 {
	v, err := strconv.ParseUint(p.next(), 10, 64)
	if err != nil {
		p.fail("canon: bad uint")
	}
	return v
}

func (p *plToks) optU64() *uint64 {
	if p.peek() == "-" {
		p.next()
		return nil
	}
	v := p.u64()
	return &v
}

func (p *plToks) optInt() *int {
	if p.peek() == "-" {
		p.next()
		return nil
	}
	v := int(p.i64())
	return &v
}

func (p *plToks) optDur() *time.Duration {
	if p.peek() == "-" {
		p.next()
		return nil
	}
	v := time.Duration(p.i64())
	return &v
}

func (p *plToks) part() *playlist.MediaPart {
	p.lit("part")
	return &playlist.MediaPart{
		Duration:        time.Duration(p.i64()),
		URI:             p.str(),
		Independent:     p.boolean(),
		ByteRangeLength: p.optU64(),
		ByteRangeStart:  p.optU64(),
		Gap:             p.boolean(),
	}
}

func plMkTime(sec int64, nsec int, off int) time.Time {
	t := time.Unix(sec, int64(nsec))
	if off == 0 {
		return t.UTC()
	}
	return t.In(time.FixedZone("", off))
}

func (p *plToks) seg() *playlist.MediaSegment {
	p.lit("seg")
	s := &playlist.MediaSegment{}
	s.Duration = time.Duration(p.i64())
	s.Title = p.str()
	s.URI = p.str()
	s.Discontinuity = p.boolean()
	s.Gap = p.boolean()
	if p.peek() == "-" {
		p.next()
	} else {
		p.lit("t")
		sec := p.i64()
		nsec := int(p.i64())
		off := int(p.i64())
		t := plMkTime(sec, nsec, off)
		s.DateTime = &t
	}
	s.Bitrate = p.optInt()
	if p.peek() == "-" {
		p.next()
	} else {
		p.lit("key")
		s.Key = &playlist.MediaKey{
			Method:            playlist.MediaKeyMethod(p.str()),
			URI:               p.str(),
			IV:                p.str(),
			KeyFormat:         p.str(),
			KeyFormatVersions: p.str(),
		}
	}
	s.ByteRangeLength = p.optU64()
	s.ByteRangeStart = p.optU64()
	n := int(p.i64())
	for i := 0; i < n && p.err == nil; i++ {
		s.Parts = append(s.Parts, p.part())
	}
	return s
}

// plParseCanon is the inverse of plCanon.
func plParseCanon(toks []string) (*playlist.Media, error) {
	p := &plToks{t: toks}
	m := &playlist.Media{}
	p.lit("media")
	m.Version = int(p.i64())
	m.IndependentSegments = p.boolean()
	if p.peek() == "-" {
		p.next()
	} else {
		m.Start = &playlist.MediaStart{TimeOffset: time.Duration(p.i64())}
	}
	if p.peek() == "-" {
		p.next()
	} else {
		v := p.boolean()
		m.AllowCache = &v
	}
	m.TargetDuration = int(p.i64())
	if p.peek() == "-" {
		p.next()
	} else {
		p.lit("sc")
		m.ServerControl = &playlist.MediaServerControl{
			CanBlockReload: p.boolean(),
			PartHoldBack:   p.optDur(),
			CanSkipUntil:   p.optDur(),
		}
	}
	if p.peek() == "-" {
		p.next()
	} else {
		m.PartInf = &playlist.MediaPartInf{PartTarget: time.Duration(p.i64())}
	}
	m.MediaSequence = int(p.i64())
	m.DiscontinuitySequence = p.optInt()
	if p.peek() == "-" {
		p.next()
	} else {
		v := playlist.MediaPlaylistType(p.str())
		m.PlaylistType = &v
	}
	if p.peek() == "-" {
		p.next()
	} else {
		p.lit("map")
		m.Map = &playlist.MediaMap{URI: p.str(), ByteRangeLength: p.optU64(), ByteRangeStart: p.optU64()}
	}
	if p.peek() == "-" {
		p.next()
	} else {
		m.Skip = &playlist.MediaSkip{SkippedSegments: int(p.i64())}
	}
	n := int(p.i64())
	for i := 0; i < n && p.err == nil; i++ {
		m.Segments = append(m.Segments, p.seg())
	}
	n = int(p.i64())
	for i := 0; i < n && p.err == nil; i++ {
		m.Parts = append(m.Parts, p.part())
	}
	if p.peek() == "-" {
		p.next()
	} else {
		p.lit("ph")
		m.PreloadHint = &playlist.MediaPreloadHint{URI: p.str(), ByteRangeStart: p.u64(), ByteRangeLength: p.optU64()}
	}
	m.Endlist = p.boolean()
	if p.err == nil && len(p.t) != 0 {
		p.fail("canon: trailing tokens")
	}
	return m, p.err
}
