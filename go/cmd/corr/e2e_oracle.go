package main

import (
	"fmt"
	"math/big"
	"os"
	"strings"

	"github.com/bluenviron/gohlslib/v2"
)

// e2e slice: DIRECT ORACLE of property C09, written from the property text (independent of the Lean models).
//
//	tracks     same codec types and clock rates (90 kHz throughout for MPEG-TS); fMP4 variants: same codec
//	           parameters; audio renditions: the name / language / default flag of the muxer's track
//	units      every delivered AU byte-identical to one written, delivered once, in writing order per track,
//	           without gaps in the MPEG-TS and fMP4 variants
//	times      PTS/DTS = written ones minus the DTS of the first delivered leading-track unit, converted to the
//	           track's clock rate, +-1 tick
//	abs. time  = NTP written with the first unit of the unit's segment + DTS distance, to 1 ms
//
// Every line starts with the property id `C09`; lines of known candidate defects carry their tag right after it
// (`C09 F10-unsupported-codec-string:`, `C09 F15-empty-rendition-part:`, `C09 Fxx-leading-rendition-attrs:`).
// A client that ended for a timing reason (attached before three segments were listed, ran out of segments after
// the writer stopped, too late, closed by the harness) is NOT a failure: what it delivered is still judged.

func (r *c9Runner) leadingIdx() int {
	for i, t := range r.tracks {
		if isVideoCodec(t.codec) {
			return i
		}
	}
	return 0
}

// expected rendition attributes of muxer track i (C16's rules, from the property texts)
func (r *c9Runner) renditionAttrs(i int) (isRendition bool, name, lang string, def bool) {
	if r.variant == "ts" {
		return false, "", "", false
	}
	lead := r.leadingIdx()
	t := r.tracks[i]
	isRendition = i != lead || (!isVideoCodec(t.codec) && len(r.tracks) > 1)
	if !isRendition {
		return false, "", "", false
	}
	name = t.name
	if name == "" {
		name = r.streamIDOf(i)
	}
	marked := -1
	first := -1
	for k, x := range r.tracks {
		if isVideoCodec(x.codec) {
			continue
		}
		rend := k != lead || len(r.tracks) > 1
		if !rend {
			continue
		}
		if first < 0 {
			first = k
		}
		if x.def && marked < 0 {
			marked = k
		}
	}
	if marked >= 0 {
		def = i == marked
	} else {
		def = i == first
	}
	return true, name, t.lang, def
}

// c9Segments assigns leading-stream units to segments (C02: a segment starts on a random-access unit of the
// leading track once SegmentMinDuration has elapsed; MPEG-TS audio-only: additionally after 100 AU writes).
// Only what the AbsoluteTime clause needs: per unit the first unit of its segment.
func (r *c9Runner) assignSegments() map[*c9AU]*c9AU {
	first := map[*c9AU]*c9AU{}
	lead := r.leadingIdx()
	lt := r.tracks[lead]
	ns := func(u *c9AU) *big.Int { // truncated ns of the DTS as the muxer computes it (fMP4: after the +10 s offset)
		sec := new(big.Rat).Set(u.tsec)
		if r.variant != "ts" {
			sec.Add(sec, ratOf(10, 1))
		}
		ticks := new(big.Rat).Mul(sec, ratOf(int64(lt.rate), 1))
		// ticks is an integer; toDur = secs*1e9 + (dec*1e9)/rate with truncation
		n := new(big.Int).Mul(ticks.Num(), big.NewInt(1000000000))
		n.Quo(n, big.NewInt(int64(lt.rate)))
		return n
	}
	var cur *c9AU
	var curNs *big.Int
	started := false
	calls := 0
	// call index at which each segment starts (MPEG-TS: units of other tracks join the segment open when written)
	type segStart struct {
		call int
		u    *c9AU
	}
	var starts []segStart
	seenCall := -1
	for _, u := range lt.aus {
		if !u.ok || !u.pic {
			continue
		}
		if isVideoCodec(lt.codec) {
			if !started {
				if !u.ra {
					continue
				}
				started = true
				cur, curNs = u, ns(u)
				starts = append(starts, segStart{u.call, u})
			} else if u.ra {
				d := new(big.Int).Sub(ns(u), curNs)
				if d.Cmp(big.NewInt(r.segMin)) >= 0 {
					cur, curNs = u, ns(u)
					starts = append(starts, segStart{u.call, u})
				}
			}
		} else {
			newCall := u.call != seenCall
			seenCall = u.call
			if !started {
				started = true
				cur, curNs = u, ns(u)
				calls = 0
				starts = append(starts, segStart{u.call, u})
			} else if r.variant != "ts" || (newCall && u.j == 0) {
				// fMP4 variants: every AU of a call is a sample of its own (`fmp4WriteSample` per AU), a segment may be cut
				// on any of them; MPEG-TS: one PES per call, cut only between calls and after 100 calls
				d := new(big.Int).Sub(ns(u), curNs)
				if d.Cmp(big.NewInt(r.segMin)) >= 0 && (r.variant != "ts" || calls >= 100) {
					cur, curNs = u, ns(u)
					calls = 0
					starts = append(starts, segStart{u.call, u})
				}
			}
			if newCall {
				calls++
			}
		}
		first[u] = cur
	}
	r.maxSeg = new(big.Rat)
	for i := 1; i+1 < len(starts); i++ {
		if d := new(big.Rat).Sub(starts[i+1].u.tsec, starts[i].u.tsec); d.Cmp(r.maxSeg) > 0 {
			r.maxSeg = d
		}
	}
	if r.variant == "ts" {
		for ti, t := range r.tracks {
			if ti == lead {
				continue
			}
			for _, u := range t.aus {
				var s *c9AU
				for _, st := range starts {
					if st.call <= u.call {
						s = st.u
					}
				}
				if s != nil {
					first[u] = s
				}
			}
		}
	}
	return first
}

func (r *c9Runner) evaluate() {
	segFirst := r.assignSegments()
	for _, c := range r.runs {
		r.evalClient(c, segFirst)
	}
	if os.Getenv("VERIF_E2E_DEBUG") != "" {
		for _, c := range r.runs {
			var n []string
			for _, l := range c.logs {
				n = append(n, fmt.Sprint(len(l)))
			}
			abs := 0
			for _, l := range c.logs {
				for _, d := range l {
					if d.abs != nil {
						abs++
					}
				}
			}
			for ti, l := range c.logs {
				if len(l) > 0 {
					r.mu.Lock()
					f, g := r.byPay[l[0].ids[0]], r.byPay[l[len(l)-1].ids[0]]
					r.mu.Unlock()
					if f != nil && g != nil {
						fmt.Fprintf(os.Stderr, "E2E-DEBUG   track %d: first %s s last %s s (maxSeg %s)\n", ti, f.tsec.FloatString(4), g.tsec.FloatString(4), r.maxSeg.FloatString(4))
					}
				}
			}
			fmt.Fprintf(os.Stderr, "E2E-DEBUG v=%s pl=%s at=%d/%d(skip %d) end=%s tracks=%d deliveries=%s abs=%d requests=%d\n", r.variant, c.spec.pl, c.spec.at, r.wIdx, r.skip, c.end, len(c.tracks), strings.Join(n, ","), abs, len(c.served))
		}
	}
}

func (r *c9Runner) evalClient(c *c9ClientRun, segFirst map[*c9AU]*c9AU) {
	c.mu.Lock()
	defer c.mu.Unlock()
	who := fmt.Sprintf("client %d (%s, attached before write %d)", c.idx, c.spec.pl, c.spec.at)
	fail := func(tag, f string, a ...any) {
		if tag != "" {
			tag += " "
		}
		r.failf("%s%s: %s", tag, who, fmt.Sprintf(f, a...))
	}

	// ---- how the client ended
	switch c.end {
	case "ran-out", "too-early", "too-late", "gone", "closed":
		// timing: not a failure
	case "err:no-supported-variant":
		var cs []string
		for _, l := range strings.Split(c.mvText, "\n") {
			if i := strings.Index(l, "CODECS=\""); i >= 0 {
				rest := l[i+8:]
				if j := strings.IndexByte(rest, '"'); j >= 0 {
					cs = append(cs, rest[:j])
				}
			}
		}
		fail("F10-unsupported-codec-string:", "the client rejects the muxer's own multivariant playlist (CODECS=%q): \"no variants with supported codecs found\"", strings.Join(cs, " | "))
		return
	case "err:noleading":
		lastEmpty, lastZero := -1, -1
		for i, s := range c.served {
			if s.empty {
				lastEmpty = i
			}
			if s.zero {
				lastZero = i
			}
		}
		switch {
		case lastZero >= 0:
			// timing: the (slow) client asked for a segment / preload hint that had left the window meanwhile: the RAM
			// storage (or the hint placeholder) answers 200 with an EMPTY body, which the client - rightly, since the
			// refinement of the F15 repair - does not take for a sample-less part. Same class as `gone`.
		case lastEmpty >= 0:
			fail("F15-empty-rendition-part:", "client fatal \"could not find data of leading track\" after the muxer served %s without any sample of the stream's only track", c9Canonical(strings.TrimPrefix(c.served[lastEmpty].path, "/")))
		default:
			fail("", "client fatal \"could not find data of leading track\" although every served part/segment carried samples")
		}
	case "err:targetduration0":
		// outside the generator's scope (every generated case has a first segment longer than 0.5 s); seen in shrunk
		// or hand-made cases only
		fail("Fxx-target-duration-zero:", "every listed segment is shorter than 0.5 s: the muxer announces EXT-X-TARGETDURATION:0, which the library's own playlist reader rejects (\"TARGETDURATION not set\")")
		return
	case "err:ts-init":
		lacks, zero := false, false
		for _, s := range c.served {
			if s.empty {
				lacks = true
			}
			if s.zero {
				zero = true
			}
		}
		if zero && !lacks {
			// timing, same class as `gone`: the RAM storage answered 200 with an empty body for a segment that left the
			// window between lookup and read; the MPEG-TS reader cannot initialise on it and the client ends with an
			// error (no unit is skipped silently)
		} else if lacks {
			fail("F15-empty-rendition-part:", "(MPEG-TS form) client fatal \"astits: no more packets\": the first segment it downloaded carries no data of one of the tracks of its PMT")
		} else {
			fail("", "client ended with %s although every served segment carried data of every track", c.end)
		}
	default:
		fail("", "client ended with %s", c.end)
	}
	for _, e := range c.decErrs {
		fail("", "decode error reported by the client: %s", e)
		break
	}
	if !c.called {
		return
	}

	// ---- tracks
	var want []int // muxer track index per client track
	lead := r.leadingIdx()
	switch {
	case r.variant == "ts":
		for i := range r.tracks {
			want = append(want, i)
		}
	case c.spec.pl == "mv":
		want = append(want, lead)
		for i := range r.tracks {
			if i != lead {
				want = append(want, i)
			}
		}
	default:
		k := int(atoi64(strings.TrimPrefix(c.spec.pl, "s")))
		want = append(want, k)
		lead = k
	}
	if len(c.tracks) != len(want) {
		fail("", "reports %d tracks, the muxer has %d behind this playlist", len(c.tracks), len(want))
		return
	}
	for i, ti := range want {
		mt := r.tracks[ti]
		ct := c.tracks[i]
		withParams := r.variant != "ts"
		if a, b := c9CodecParams(ct.Codec, withParams), c9CodecParams(mt.track.Codec, withParams); a != b {
			fail("", "track %d codec is %s, the muxer's track %d is %s", i, a, ti, b)
		}
		wantRate := mt.rate
		if r.variant == "ts" {
			wantRate = 90000
		}
		if ct.ClockRate != wantRate {
			fail("", "track %d (%s) clock rate %d, expected %d", i, mt.codec, ct.ClockRate, wantRate)
		}
		if c.spec.pl == "mv" && r.variant != "ts" {
			isRend, name, lang, def := r.renditionAttrs(ti)
			if isRend && (ct.Name != name || ct.Language != lang || ct.IsDefault != def) {
				tag := ""
				if ti == lead {
					// the rendition whose data travels in the variant's own playlist (EXT-X-MEDIA without URI)
					tag = "Fxx-leading-rendition-attrs:"
				}
				fail(tag, "track %d (muxer track %d, %s) reported with name=%q language=%q default=%v, the muxer advertised name=%q language=%q default=%v",
					i, ti, mt.codec, ct.Name, ct.Language, ct.IsDefault, name, lang, def)
			}
			if !isRend && (ct.Name != "" || ct.Language != "" || ct.IsDefault) {
				fail("", "track %d is not a rendition but reported with name=%q language=%q default=%v", i, ct.Name, ct.Language, ct.IsDefault)
			}
		}
	}

	// A segment that leaves the muxer's window between the lookup of its handler and the read is answered 200 with an
	// EMPTY body by the RAM storage (500 by the disk storage, 404 once the path is unregistered). Since the repair of
	// F15 the client skips a body without samples, so a client that slow now continues with a hole instead of
	// ending with an error. Timing class (like `gone`): the no-gap clause is not judged for such a client.
	goneEmpty := false
	for _, sv := range c.served {
		if sv.zero {
			goneEmpty = true
		}
	}

	// ---- units: identity, once, order, gaps
	type hit struct {
		u *c9AU
		d *c9Delivery
		k int // position of u inside the delivery
	}
	hits := make([][]hit, len(want))
	for i, ti := range want {
		mt := r.tracks[ti]
		prev := -1
		bad := false
		for di := range c.logs[i] {
			d := &c.logs[i][di]
			if bad {
				break
			}
			if len(d.ids) == 0 {
				fail("", "track %d: a delivered unit carries no access unit", i)
				bad = true
				break
			}
			for k, id := range d.ids {
				r.mu.Lock()
				u := r.byPay[id]
				r.mu.Unlock()
				if u == nil || u.track != ti {
					fail("", "track %d (%s): delivered unit is not one written to this track (payload id %d; %s)", i, mt.codec, id, d.detail)
					bad = true
					break
				}
				if !d.same {
					fail("", "track %d (%s): unit %d delivered with different bytes than written (%s)", i, mt.codec, id, d.detail)
					bad = true
					break
				}
				switch {
				case u.seq == prev:
					fail("", "track %d (%s): unit %d delivered twice", i, mt.codec, id)
					bad = true
				case u.seq < prev:
					fail("", "track %d (%s): unit %d delivered after unit %d, written in the opposite order", i, mt.codec, id, mt.aus[prev].pay)
					bad = true
				case prev >= 0 && r.variant != "ll" && !goneEmpty:
					for s := prev + 1; s < u.seq; s++ {
						if x := mt.aus[s]; x.ok && x.pic {
							fail("", "track %d (%s): gap - unit %d (written between delivered units %d and %d) was not delivered", i, mt.codec, x.pay, mt.aus[prev].pay, id)
							bad = true
							break
						}
					}
				}
				if bad {
					break
				}
				prev = u.seq
				hits[i] = append(hits[i], hit{u, d, k})
			}
		}
	}

	// ---- nothing missing. Timing-independent: the harness decodes every segment / part the muxer served to THIS
	// client; a stream is processed strictly in download order, so a response is fully processed when a later
	// response of the same stream has a delivered unit, or (traditional streams: the next segment is requested only
	// after the previous one was taken off the queue) when it is at least four responses old (one segment may be in
	// processing, one queued, one in download). Every unit in a fully processed response that does not precede the origin must have been
	// delivered (MPEG-TS: the first response is exempt for non-leading tracks - units handed over before the first
	// leading-track unit are dropped, C10's gating reading).
	{
		lp := -1
		for i, ti := range want {
			if ti == lead {
				lp = i
			}
		}
		delivered := map[int]bool{}
		trackPos := map[int]int{}
		for i, ti := range want {
			trackPos[ti] = i
			for _, h := range hits[i] {
				delivered[h.u.pay] = true
			}
		}
		if lp >= 0 && len(hits[lp]) > 0 {
			origin := hits[lp][0].u.tsec
			byStream := map[string][]c9Served{}
			var order []string
			for _, sv := range c.served {
				if !sv.media {
					continue
				}
				if _, ok := byStream[sv.stream]; !ok {
					order = append(order, sv.stream)
				}
				byStream[sv.stream] = append(byStream[sv.stream], sv)
			}
			nMissing := 0
			for _, sid := range order {
				rs := byStream[sid]
				if os.Getenv("VERIF_E2E_DEBUG") == "2" {
					for i, sv := range rs {
						nd := 0
						for _, p := range sv.pays {
							if delivered[p] {
								nd++
							}
						}
						fmt.Fprintf(os.Stderr, "E2E-DEBUG   client %d stream %s resp %d %s units=%d delivered=%d zero=%v empty=%v status=%d\n", c.idx, sid, i, c9Canonical(strings.TrimPrefix(sv.path, "/")), len(sv.pays), nd, sv.zero, sv.empty, sv.status)
					}
				}
				last := -1
				for i, sv := range rs {
					for _, p := range sv.pays {
						if delivered[p] {
							last = i
						}
					}
				}
				for i, sv := range rs {
					processed := i < last || (r.variant != "ll" && i <= len(rs)-4)
					if !processed || nMissing >= 2 {
						continue
					}
					for _, p := range sv.pays {
						r.mu.Lock()
						u := r.byPay[p]
						r.mu.Unlock()
						if u == nil || delivered[p] {
							continue
						}
						pos, exposed := trackPos[u.track]
						if !exposed {
							continue
						}
						if r.variant == "ts" && i == 0 && u.track != lead {
							continue
						}
						// at least one tick after the origin in the client's clock rate
						after := new(big.Rat).Mul(new(big.Rat).Sub(u.psec, origin), ratOf(int64(c.tracks[pos].ClockRate), 1))
						if after.Cmp(ratOf(1, 1)) < 0 {
							continue
						}
						nMissing++
						var prof []string
						for _, x := range rs {
							nd := 0
							for _, q := range x.pays {
								if delivered[q] {
									nd++
								}
							}
							prof = append(prof, fmt.Sprintf("%d/%d", nd, len(x.pays)))
						}
						fail("", "track %d (%s): unit %d, written at %s s (%s ticks after the origin), is in %s which the client downloaded and processed, but was not delivered [response %d of %d of this stream, last response with a delivery %d, client end %s, delivered/contained per response: %s]",
							pos, r.tracks[u.track].codec, p, u.tsec.FloatString(4), after.FloatString(1), c9Canonical(strings.TrimPrefix(sv.path, "/")),
							i, len(rs), last, c.end, strings.Join(prof, " "))
						break
					}
				}
			}
		}
	}

	// ---- times
	leadPos := -1
	for i, ti := range want {
		if ti == lead {
			leadPos = i
		}
	}
	if leadPos < 0 || len(hits[leadPos]) == 0 {
		return // nothing of the leading track was delivered: no origin to compare with
	}
	origin := hits[leadPos][0].u.tsec // written DTS of the first delivered leading-track unit, seconds
	one := ratOf(1, 1)
	nTimeFails := 0
	for i := range want {
		rc := ratOf(int64(c.tracks[i].ClockRate), 1)
		for _, h := range hits[i] {
			if h.k != 0 || nTimeFails >= 3 {
				continue // one time stamp per delivered unit: it belongs to the first AU
			}
			chk := func(name string, got int64, sec *big.Rat) {
				exp := new(big.Rat).Mul(new(big.Rat).Sub(sec, origin), rc)
				df := new(big.Rat).Sub(ratOf(got, 1), exp)
				if df.Abs(df).Cmp(one) > 0 {
					nTimeFails++
					tag := ""
					if r.variant == "ts" && r.tracks[r.leadingIdx()].rate != 90000 && origin.Sign() < 0 && sec.Sign() >= 0 && df.Cmp(ratOf(2, 1)) < 0 {
						// MPEG-TS led by a track that is not at 90 kHz, stream crossing zero: the muxer's conversion to
						// 90 kHz truncates towards zero, i.e. rounds the (negative) origin up and this unit down
						tag = "Fxx-ts-zero-crossing:"
					}
					fail(tag, "track %d (%s, %d Hz): unit %d delivered with %s=%d, expected %s (written %s s minus the DTS %s s of the first delivered leading-track unit %d) +-1 tick",
						i, r.tracks[want[i]].codec, c.tracks[i].ClockRate, h.u.pay, name, got, exp.FloatString(3), sec.FloatString(6), origin.FloatString(6), hits[leadPos][0].u.pay)
				}
			}
			chk("pts", h.d.pts, h.u.psec)
			if h.d.dts != nil {
				chk("dts", *h.d.dts, h.u.tsec)
			}
			if h.d.pts < 0 {
				fail("", "track %d: unit %d delivered with negative pts %d", i, h.u.pay, h.d.pts)
			}
			// AbsoluteTime
			if h.d.abs == nil {
				continue
			}
			// NTP is written linearly in DTS (quantised to whole ms), so the date-time of ANY segment the client
			// anchored on gives the same result up to that quantisation: tolerance = 1 ms (resolution) + 1 ms.
			// (LL: the anchor is the previous segment's date-time + listed durations, each rounded to 10 us.)
			inLeadingStream := r.variant == "ts" || want[i] == r.leadingIdx()
			var exp *big.Rat
			// 1 ms = the playlist's resolution (EXT-X-PROGRAM-DATE-TIME is the segment's NTP truncated to ms). When the
			// NTPs of the case are not exactly linear in DTS (units that do not start on whole milliseconds are written
			// with floor(ms)), an anchor taken from another segment differs by that quantisation: one more ms.
			tolNs := int64(1000000)
			if !r.ntpExactlyLinear() {
				tolNs = 2000000
			}
			what := ""
			tag := ""
			if f := segFirst[h.u]; f != nil && inLeadingStream {
				dist := new(big.Rat).Sub(h.u.tsec, f.tsec)
				exp = new(big.Rat).Add(ratOf(f.ntpNs, 1), new(big.Rat).Mul(dist, ratOf(1000000000, 1)))
				what = fmt.Sprintf("NTP %d ms written with unit %d (first of its segment) + DTS distance %s s", f.ntpNs/1000000, f.pay, dist.FloatString(6))
			} else {
				// a rendition's units: the first unit of the unit's segment is a unit of the same track whose NTP was
				// written on the same line; NTP of the unit itself = that + DTS distance (up to the quantisation)
				exp = ratOf(h.u.ntpNs, 1)
				what = "the NTP written with the unit itself (= NTP of the first unit of its segment + DTS distance, NTP being linear in DTS)"
				if r.ntpExactlyLinear() && r.linC != nil {
					// exactly linear case: the line through the leading track's (DTS, NTP) pairs, not this track's own
					// floor(ms) values
					exp = new(big.Rat).Add(r.linC, new(big.Rat).Mul(h.u.tsec, ratOf(1000000000, 1)))
					what = "the NTP the leading track's units were written with, extended linearly to this unit's DTS"
				}
				if c.spec.pl != "mv" && r.variant != "ts" {
					// a rendition's media playlist read on its own: its date-times are the LEADING track's
					tag = "Fxx-rendition-date-time:"
				}
			}
			if r.variant == "ll" && !r.ntpExactlyLinear() {
				tolNs += 250000
			}
			if exp != nil {
				df := new(big.Rat).Sub(ratOf(*h.d.abs, 1), exp)
				if df.Abs(df).Cmp(ratOf(tolNs, 1)) > 0 {
					nTimeFails++
					fail(tag, "track %d (%s): unit %d AbsoluteTime %d ns, expected %s ns = %s", i, r.tracks[want[i]].codec, h.u.pay, *h.d.abs, exp.FloatString(0), what)
				}
			}
		}
	}
}

// ntpExactlyLinear: over all units written to the leading track, NTP − DTS is one constant (up to 1 us): then
// every segment's date-time predicts every unit's time exactly, up to the truncation of the date-time to ms.
func (r *c9Runner) ntpExactlyLinear() bool {
	if r.linChecked {
		return r.linExact
	}
	r.linChecked, r.linExact = true, true
	var c *big.Rat
	for _, u := range r.tracks[r.leadingIdx()].aus {
		d := new(big.Rat).Sub(ratOf(u.ntpNs, 1), new(big.Rat).Mul(u.tsec, ratOf(1000000000, 1)))
		if c == nil {
			c = d
			r.linC = d
		} else if x := new(big.Rat).Sub(c, d); x.Abs(x).Cmp(ratOf(1000, 1)) > 0 { // 1 us: per-AU NTPs are truncated to ns
			r.linExact = false
			break
		}
	}
	return r.linExact
}

// c9Canonical replaces the muxer's random 12-hex-digit prefix.
func c9Canonical(path string) string {
	if len(path) > 13 && path[12] == '_' {
		return "P" + path[12:]
	}
	return path
}

var _ = gohlslib.ErrClientEOS
