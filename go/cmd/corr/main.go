// Command corr is the correspondence harness (tie T2 of /verif/DESIGN.md).
//
// It drives the REAL gohlslib code (built from /repo's working tree with
// -tags verif) with operation lines of the protocol the Lean model drivers
// understand, and prints one canonical observation line per operation.
//
//	corr gen    -slice S -n N -seed K -ops ops.txt -impl impl.txt -oracle oracle.txt -stats stats.json
//	corr replay -slice S -ops ops.txt            (observations on stdout, oracle failures on stderr as ORACLE lines)
//
// The Python front end /verif/check pipes the same ops file to the Lean driver
// and diffs the two observation streams.
package main

import (
	"bufio"
	"encoding/json"
	"flag"
	"fmt"
	"hash/fnv"
	"math/rand"
	"os"
	"sort"
	"strconv"
	"strings"
)

// Runner executes the op lines of ONE case against the real code.
type Runner interface {
	// Step runs one op line and returns its canonical observation lines.
	Step(line string) []string
	// Oracle returns direct violations of the property statement seen so far in
	// this case (evaluated on the implementation alone, independent of the model).
	Oracle() []string
	// Close releases every resource of the case.
	Close()
}

// Slice is one correspondence stream.
type Slice interface {
	Name() string
	// Gen produces the op lines of case number i (all randomness from r).
	// tags are coverage labels of the case (generator histogram).
	Gen(r *rand.Rand, i int, tier string) (ops []string, tags []string)
	NewRunner() Runner
	// Corpus returns hand-kept cases that always run first.
	Corpus() [][]string
}

var slices = map[string]Slice{}

func register(s Slice) { slices[s.Name()] = s }

type stats struct {
	Slice    string         `json:"slice"`
	Seed     int64          `json:"seed"`
	Cases    int            `json:"cases"`
	Ops      int            `json:"ops"`
	Distinct int            `json:"distinct_cases"`
	Tags     map[string]int `json:"tags"`
	Oracle   int            `json:"oracle_failures"`
	Samples  [][]string     `json:"samples"`
	Hashes   []string       `json:"hashes"` // one per distinct non-trivial case (for cross-shard de-duplication)
}

func safeStep(r Runner, line string) (out []string) {
	defer func() {
		if e := recover(); e != nil {
			out = []string{fmt.Sprintf("panic:%v", e)}
		}
	}()
	return r.Step(line)
}

func runCase(sl Slice, ops []string, emit func(string)) []string {
	r := sl.NewRunner()
	defer r.Close()
	for _, op := range ops {
		for _, o := range safeStep(r, op) {
			emit(o)
		}
	}
	return r.Oracle()
}

func main() {
	if len(os.Args) < 2 {
		fmt.Fprintln(os.Stderr, "usage: corr gen|replay|list ...")
		os.Exit(2)
	}
	mode := os.Args[1]
	fs := flag.NewFlagSet(mode, flag.ExitOnError)
	sliceName := fs.String("slice", "", "slice name")
	n := fs.Int("n", 100, "number of generated cases")
	seed := fs.Int64("seed", 1, "PRNG seed")
	tier := fs.String("tier", "quick", "quick|thorough")
	opsPath := fs.String("ops", "ops.txt", "ops file")
	implPath := fs.String("impl", "impl.txt", "implementation observations file")
	oraclePath := fs.String("oracle", "oracle.txt", "oracle failures file")
	statsPath := fs.String("stats", "stats.json", "stats file")
	noCorpus := fs.Bool("nocorpus", false, "skip the corpus cases (shards other than the first)")
	fs.Parse(os.Args[2:])

	if mode == "list" {
		var names []string
		for k := range slices {
			names = append(names, k)
		}
		sort.Strings(names)
		fmt.Println(strings.Join(names, "\n"))
		return
	}

	sl, ok := slices[*sliceName]
	if !ok {
		fmt.Fprintf(os.Stderr, "unknown slice %q\n", *sliceName)
		os.Exit(2)
	}

	switch mode {
	case "replay":
		f, err := os.Open(*opsPath)
		if err != nil {
			panic(err)
		}
		defer f.Close()
		w := bufio.NewWriter(os.Stdout)
		defer w.Flush()
		var cur []string
		var header string
		flush := func() {
			if header == "" && len(cur) == 0 {
				return
			}
			if header != "" {
				fmt.Fprintln(w, header)
			}
			for _, o := range runCase(sl, cur, func(s string) { fmt.Fprintln(w, s) }) {
				fmt.Fprintf(os.Stderr, "ORACLE %s :: %s\n", header, o)
			}
			cur = nil
		}
		sc := bufio.NewScanner(f)
		sc.Buffer(make([]byte, 1<<20), 1<<26)
		for sc.Scan() {
			line := sc.Text()
			if strings.HasPrefix(line, "case ") {
				flush()
				header = line
				continue
			}
			if strings.TrimSpace(line) == "" {
				continue
			}
			cur = append(cur, line)
		}
		flush()

	case "gen":
		of, err := os.Create(*opsPath)
		if err != nil {
			panic(err)
		}
		defer of.Close()
		ow := bufio.NewWriter(of)
		defer ow.Flush()
		imf, err := os.Create(*implPath)
		if err != nil {
			panic(err)
		}
		defer imf.Close()
		iw := bufio.NewWriter(imf)
		defer iw.Flush()
		orf, err := os.Create(*oraclePath)
		if err != nil {
			panic(err)
		}
		defer orf.Close()

		st := stats{Slice: sl.Name(), Seed: *seed, Tags: map[string]int{}}
		seen := map[string]bool{}
		rng := rand.New(rand.NewSource(*seed))
		caseNo := 0
		doCase := func(ops []string, tags []string, origin string) {
			caseNo++
			header := fmt.Sprintf("case %d %s", caseNo, origin)
			fmt.Fprintln(ow, header)
			for _, op := range ops {
				fmt.Fprintln(ow, op)
			}
			fmt.Fprintln(iw, header)
			for _, o := range runCase(sl, ops, func(s string) { fmt.Fprintln(iw, s) }) {
				fmt.Fprintf(orf, "%s :: %s\n", header, o)
				st.Oracle++
			}
			st.Cases++
			st.Ops += len(ops)
			key := strings.Join(ops, "\n")
			if !seen[key] && len(ops) > 1 {
				seen[key] = true
				st.Distinct++
				h := fnv.New64a()
				h.Write([]byte(key))
				st.Hashes = append(st.Hashes, strconv.FormatUint(h.Sum64(), 36))
			}
			for _, t := range tags {
				st.Tags[t]++
			}
			if len(st.Samples) < 3 && origin != "corpus" {
				s := ops
				if len(s) > 40 {
					s = append(append([]string{}, s[:40]...), fmt.Sprintf("... (%d more ops)", len(ops)-40))
				}
				st.Samples = append(st.Samples, s)
			}
		}
		if !*noCorpus {
			for _, c := range sl.Corpus() {
				doCase(c, []string{"corpus"}, "corpus")
			}
		}
		for i := 0; i < *n; i++ {
			// every case gets its own sub-seed so that a single case can be regenerated
			sub := rng.Int63()
			ops, tags := sl.Gen(rand.New(rand.NewSource(sub)), i, *tier)
			doCase(ops, tags, fmt.Sprintf("seed=%d/%d", *seed, i))
		}
		sf, err := os.Create(*statsPath)
		if err != nil {
			panic(err)
		}
		defer sf.Close()
		enc := json.NewEncoder(sf)
		enc.SetIndent("", " ")
		enc.Encode(st)
	default:
		fmt.Fprintln(os.Stderr, "unknown mode")
		os.Exit(2)
	}
}
