package main

import (
	"bufio"
	"bytes"
	"errors"
	"fmt"
	"io"
	"net/http"
	"os"
	"os/exec"
	"regexp"
	"runtime"
	"strconv"
	"strings"
	"sync"
	"time"

	"github.com/bluenviron/gohlslib/v2"
	"github.com/bluenviron/gohlslib/v2/pkg/codecs"
)

// Running the REAL client against a scripted in-process server, in a child process.

type rbServer struct {
	mu      sync.Mutex
	bodies  map[string][][]byte
	counts  map[string]int
	total   int
	closeAt int
	onClose func()
}

func (s *rbServer) RoundTrip(req *http.Request) (*http.Response, error) {
	s.mu.Lock()
	p := req.URL.Path
	s.total++
	n := s.total
	bs, ok := s.bodies[p]
	var body []byte
	if ok {
		k := s.counts[p]
		s.counts[p]++
		if k >= len(bs) {
			k = len(bs) - 1
		}
		body = bs[k]
	}
	closeNow := s.closeAt >= 0 && n == s.closeAt+1
	s.mu.Unlock()
	if closeNow && s.onClose != nil {
		s.onClose()
	}
	mk := func(code int, body []byte) *http.Response {
		return &http.Response{
			StatusCode: code, Status: strconv.Itoa(code), Proto: "HTTP/1.1", ProtoMajor: 1, ProtoMinor: 1,
			Header: http.Header{}, Body: io.NopCloser(bytes.NewReader(body)), ContentLength: int64(len(body)), Request: req,
		}
	}
	if err := req.Context().Err(); err != nil {
		return nil, err
	}
	if !ok {
		return mk(404, nil), nil
	}
	if rg := req.Header.Get("Range"); rg != "" {
		var a, z int
		if _, err := fmt.Sscanf(rg, "bytes=%d-%d", &a, &z); err != nil || a < 0 || z < a || z >= len(body) {
			return mk(416, nil), nil
		}
		return mk(206, body[a:z+1]), nil
	}
	return mk(200, body), nil
}

type rbRaw struct {
	tracks   []string // nil: OnTracks not called
	called   bool
	nilCodec bool
	deliv    []int
	decErr   int
	reqs     int
	end      string // eos | err:<class> | timeout
	errText  string
	close    string // ok | hang
	leak     int
	leakInfo string
}

func rbErrClass(err error) string {
	if errors.Is(err, gohlslib.ErrClientEOS) {
		return "eos"
	}
	s := err.Error()
	for _, m := range []struct{ sub, cls string }{
		{"has an invalid time scale", "zerots"},
		{"rendition playlists with multiple tracks", "rendmulti"},
		{"no supported tracks found", "nosupported"},
		{"too many tracks per stream", "toomany"},
		{"could not find data of leading track", "noleading"},
		{"mixed MPEG-TS/fMP4", "mixed"},
		{"mixed MPEGTS/FMP4", "mixed"},
		{"difference between DTS and RTC is too big", "dtsrtc"},
		{"there aren't enough segments", "notenough"},
		{"next segment not found", "nextnotfound"},
		{"playback is too late", "toolate"},
		{"preload hint disappeared", "hintgone"},
		{"no variants with supported codecs", "novariants"},
		{"no playlist with Group ID", "nogroup"},
		{"terminated", "terminated"},
	} {
		if strings.Contains(s, m.sub) {
			return "err:" + m.cls
		}
	}
	// request failed, or a decoder (playlist / container / payload) rejected the bytes
	return "err:content"
}

var rbLibFrame = regexp.MustCompile(`github\.com/bluenviron/gohlslib/v2\.`)

// rbLibGoroutines: goroutines with a gohlslib frame (the harness itself is package main of module verifharness)
func rbLibGoroutines() (int, string) {
	buf := make([]byte, 1<<20)
	n := runtime.Stack(buf, true)
	cnt := 0
	first := ""
	for _, g := range strings.Split(string(buf[:n]), "\n\n") {
		if rbLibFrame.MatchString(g) {
			cnt++
			if first == "" {
				ls := strings.Split(g, "\n")
				if len(ls) > 2 {
					first = strings.TrimSpace(ls[1])
				}
			}
		}
	}
	return cnt, first
}

func rbRunClient(c *rbCase) *rbRaw {
	srv := &rbServer{bodies: map[string][][]byte{}, counts: map[string]int{}, closeAt: c.closeAt}
	for _, h := range c.hex {
		for len(srv.bodies[h.name]) <= h.seq {
			srv.bodies[h.name] = append(srv.bodies[h.name], nil)
		}
		srv.bodies[h.name][h.seq] = h.data
	}
	res := &rbRaw{close: "ok"}
	var mu sync.Mutex
	var cl *gohlslib.Client
	count := func(i int) {
		mu.Lock()
		res.deliv[i]++
		mu.Unlock()
	}
	cl = &gohlslib.Client{
		URI:                       "http://verif.invalid/index.m3u8",
		HTTPClient:                &http.Client{Transport: srv},
		OnDownloadPrimaryPlaylist: func(string) {},
		OnDownloadStreamPlaylist:  func(string) {},
		OnDownloadSegment:         func(string) {},
		OnDownloadPart:            func(string) {},
		OnDecodeError: func(error) {
			mu.Lock()
			res.decErr++
			mu.Unlock()
		},
		OnTracks: func(tracks []*gohlslib.Track) error {
			mu.Lock()
			res.called = true
			res.deliv = make([]int, len(tracks))
			mu.Unlock()
			for i, t := range tracks {
				i, t := i, t
				k := "nil"
				if t.Codec != nil {
					k = strings.TrimPrefix(fmt.Sprintf("%T", t.Codec), "*codecs.")
				} else {
					res.nilCodec = true
				}
				res.tracks = append(res.tracks, fmt.Sprintf("%s:%d", k, t.ClockRate))
				switch t.Codec.(type) {
				case *codecs.H264, *codecs.H265:
					cl.OnDataH26x(t, func(int64, int64, [][]byte) { count(i) })
				case *codecs.VP9:
					cl.OnDataVP9(t, func(int64, []byte) { count(i) })
				case *codecs.AV1:
					cl.OnDataAV1(t, func(int64, [][]byte) { count(i) })
				case *codecs.MPEG4Audio:
					cl.OnDataMPEG4Audio(t, func(int64, [][]byte) { count(i) })
				case *codecs.Opus:
					cl.OnDataOpus(t, func(int64, [][]byte) { count(i) })
				}
			}
			return nil
		},
	}
	closed := make(chan struct{})
	var closeOnce sync.Once
	srv.onClose = func() {
		closeOnce.Do(func() {
			close(closed)
			go cl.Close()
		})
	}
	if err := cl.Start(); err != nil {
		res.end = "err:content"
		res.errText = err.Error()
		return res
	}
	// watchdog: every generated case needs well under a second of wall clock (media spans <= 100 ms, the server
	// answers at once). A client that has not finished after the deadline is wedged (or busy-looping).
	deadline := 4 * time.Second
	if !c.pace {
		deadline = 1500 * time.Millisecond // the client may legitimately be asleep: Close it, it must still honour that
	}
	select {
	case err := <-cl.Wait():
		res.end = rbErrClass(err)
		res.errText = err.Error()
	case <-time.After(deadline):
		res.end = "timeout"
	}
	// Close is still honoured: after Close, Wait yields within the deadline (unless it already has) and no
	// goroutine of the library is left.
	cl.Close()
	if res.end == "timeout" {
		select {
		case err := <-cl.Wait():
			res.errText = "after Close: " + err.Error()
		case <-time.After(2 * time.Second):
			res.close = "hang"
		}
	}
	cl.Close() // any number of times
	for i := 0; i < 100; i++ {
		res.leak, res.leakInfo = rbLibGoroutines()
		if res.leak == 0 {
			break
		}
		time.Sleep(10 * time.Millisecond)
	}
	srv.mu.Lock()
	res.reqs = srv.total
	srv.mu.Unlock()
	return res
}

func (r *rbRaw) lines() []string {
	tr := "none"
	if r.called {
		tr = rbJoin(r.tracks, ",")
	}
	return []string{
		"tracks " + tr,
		"deliv " + rbJoinInts(r.deliv),
		"decerr " + strconv.Itoa(r.decErr),
		"reqs " + strconv.Itoa(r.reqs),
		"nilcodec " + strconv.Itoa(b2i(r.nilCodec)),
		"end " + r.end,
		"errtext " + strings.ReplaceAll(r.errText, " ", "_"),
		"close " + r.close,
		"leak " + strconv.Itoa(r.leak) + " " + strings.ReplaceAll(r.leakInfo, " ", "_"),
	}
}

func rbParseRaw(lines []string) *rbRaw {
	r := &rbRaw{}
	for _, l := range lines {
		f := strings.Fields(l)
		if len(f) < 2 {
			continue
		}
		switch f[0] {
		case "tracks":
			if f[1] != "none" {
				r.called = true
				if f[1] != "-" {
					r.tracks = strings.Split(f[1], ",")
				}
			}
		case "deliv":
			if f[1] != "-" {
				for _, x := range strings.Split(f[1], ",") {
					n, _ := strconv.Atoi(x)
					r.deliv = append(r.deliv, n)
				}
			}
		case "decerr":
			r.decErr, _ = strconv.Atoi(f[1])
		case "reqs":
			r.reqs, _ = strconv.Atoi(f[1])
		case "nilcodec":
			r.nilCodec = f[1] == "1"
		case "end":
			r.end = f[1]
		case "errtext":
			r.errText = f[1]
		case "close":
			r.close = f[1]
		case "leak":
			r.leak, _ = strconv.Atoi(f[1])
			if len(f) > 2 {
				r.leakInfo = f[2]
			}
		}
	}
	if r.end == "" {
		return nil
	}
	return r
}

// ---------------------------------------------------------------------------------------------------------------
// child process: `corr process-child` reads cases (definition lines, then a line `go`) from stdin and answers each
// with the raw observation followed by a line `.`. One child serves many cases; a panic of the client kills only the
// child: the parent reads the trace from its stderr, records it for the case in flight and starts a new child.

func rbChildMain() {
	sc := bufio.NewScanner(os.Stdin)
	sc.Buffer(make([]byte, 1<<20), 1<<28)
	out := bufio.NewWriter(os.Stdout)
	var lines []string
	for sc.Scan() {
		l := sc.Text()
		if l != "go" {
			lines = append(lines, l)
			continue
		}
		c, _, ok := rbParse(lines)
		lines = nil
		if !ok {
			fmt.Fprintln(out, "bad-case")
		} else {
			res := rbRunClient(c)
			for _, x := range res.lines() {
				fmt.Fprintln(out, x)
			}
			if res.leak > 0 || res.close == "hang" {
				// do not let leaked goroutines pollute the next case
				fmt.Fprintln(out, ".")
				out.Flush()
				os.Exit(0)
			}
		}
		fmt.Fprintln(out, ".")
		out.Flush()
	}
	os.Exit(0)
}

type rbChild struct {
	cmd    *exec.Cmd
	in     io.WriteCloser
	out    *bufio.Scanner
	stderr *bytes.Buffer
	done   chan struct{}
}

var rbTheChild *rbChild
var rbChildMu sync.Mutex

func rbStartChild() (*rbChild, error) {
	exe, err := os.Executable()
	if err != nil {
		return nil, err
	}
	cmd := exec.Command(exe, "process-child")
	cmd.Env = append(os.Environ(), "GOTRACEBACK=all")
	in, err := cmd.StdinPipe()
	if err != nil {
		return nil, err
	}
	outp, err := cmd.StdoutPipe()
	if err != nil {
		return nil, err
	}
	ch := &rbChild{cmd: cmd, in: in, stderr: &bytes.Buffer{}, done: make(chan struct{})}
	cmd.Stderr = ch.stderr
	if err := cmd.Start(); err != nil {
		return nil, err
	}
	ch.out = bufio.NewScanner(outp)
	ch.out.Buffer(make([]byte, 1<<20), 1<<26)
	return ch, nil
}

func (ch *rbChild) kill() {
	ch.in.Close()
	if ch.cmd.Process != nil {
		ch.cmd.Process.Kill()
	}
	ch.cmd.Wait()
}

// rbPanicInfo classifies a Go panic trace: kind, and whether the panicking frame is the library's or upstream's.
func rbPanicInfo(trace string) (kind string, where string, upstream bool) {
	kind = "other"
	first := ""
	for _, l := range strings.Split(trace, "\n") {
		if strings.HasPrefix(l, "panic: ") || strings.HasPrefix(l, "fatal error: ") {
			first = l
			break
		}
	}
	switch {
	case strings.Contains(first, "nil pointer dereference"):
		kind = "nil"
	case strings.Contains(first, "index out of range"), strings.Contains(first, "slice bounds out of range"):
		kind = "index"
	case strings.Contains(first, "integer divide by zero"):
		kind = "div0"
	case strings.Contains(first, "interface conversion"):
		kind = "typeassert"
	case strings.Contains(first, "close of closed channel"), strings.Contains(first, "close of nil channel"):
		kind = "close"
	case strings.Contains(first, "assignment to entry in nil map"):
		kind = "nilmap"
	case strings.Contains(first, "all goroutines are asleep"):
		kind = "deadlock"
	}
	// the panicking goroutine comes first: its first frame that is not runtime / panic machinery
	idx := strings.Index(trace, "goroutine ")
	if idx >= 0 {
		for _, l := range strings.Split(trace[idx:], "\n")[1:] {
			if l == "" {
				break
			}
			if strings.HasPrefix(l, "\t") || strings.HasPrefix(l, "panic(") || strings.HasPrefix(l, "runtime.") ||
				strings.HasPrefix(l, "[signal") || strings.HasPrefix(l, "created by") {
				continue
			}
			where = l
			if i := strings.LastIndex(where, "("); i > 0 {
				where = where[:i]
			}
			break
		}
	}
	upstream = where != "" && !strings.Contains(where, "bluenviron/gohlslib") && !strings.HasPrefix(where, "main.")
	return
}

// rbRunInChild runs one case; returns the raw observation or a crash description.
func rbRunInChild(defLines []string) (raw *rbRaw, crash string, trace string) {
	rbChildMu.Lock()
	defer rbChildMu.Unlock()
	for attempt := 0; attempt < 2; attempt++ {
		if rbTheChild == nil {
			ch, err := rbStartChild()
			if err != nil {
				return nil, "harness-error:" + err.Error(), ""
			}
			rbTheChild = ch
		}
		ch := rbTheChild
		payload := strings.Join(defLines, "\n") + "\ngo\n"
		werr := make(chan error, 1)
		go func() { _, e := io.WriteString(ch.in, payload); werr <- e }()
		type rd struct {
			lines []string
			ok    bool
		}
		got := make(chan rd, 1)
		go func() {
			var ls []string
			for ch.out.Scan() {
				if ch.out.Text() == "." {
					got <- rd{ls, true}
					return
				}
				ls = append(ls, ch.out.Text())
			}
			got <- rd{ls, false}
		}()
		select {
		case r := <-got:
			if r.ok {
				raw := rbParseRaw(r.lines)
				if raw == nil {
					return nil, "harness-error:child-said:" + strings.Join(r.lines, "|"), ""
				}
				if raw.leak > 0 || raw.close == "hang" {
					ch.kill()
					rbTheChild = nil
				}
				return raw, "", ""
			}
			// child died: a panic (or a runtime fatal error) of the case in flight
			ch.cmd.Wait()
			tr := ch.stderr.String()
			rbTheChild = nil
			if tr == "" && attempt == 0 {
				continue // died between cases: retry once on a fresh child
			}
			kind, where, up := rbPanicInfo(tr)
			if up {
				return nil, "upstream-panic:" + kind + "@" + where, tr
			}
			return nil, "panic:" + kind + "@" + where, tr
		case <-time.After(20 * time.Second):
			ch.kill()
			rbTheChild = nil
			return nil, "child-timeout", ""
		}
	}
	return nil, "harness-error:child-unavailable", ""
}
