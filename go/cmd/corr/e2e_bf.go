package main

import (
	"github.com/bluenviron/mediacommon/v2/pkg/codecs/h264"
	"github.com/bluenviron/mediacommon/v2/pkg/codecs/h265"
)

// e2e slice: video with FRAME REORDERING (DTS != PTS), built from the muxer slice's patterns (muxer_bframes.go:
// mediacommon's DTS-extractor test vectors with the payload id appended).
//
// The e2e time axis is compressed, so the presentation times of a GOP are the pattern's scaled by `slot`/3000
// (`slot` = ticks per frame slot; the H264 pattern has 9 slots per GOP, the H265 pattern 7). Each GOP may have its own
// scale: the first GOP of a case is stretched (it must last longer than 0.5 s, see e2e_gen.go), the others are
// compressed. The DTS the muxer will extract is computed HERE with an extractor instance of the generator's own and
// travels in the op (`dts=`); a plan the extractor rejects, or whose DTS is not strictly increasing, is not used.
//
// H264: the extractor works from POC and PTS differences only (plus fixed 90-tick steps while it learns the
// reordering depth), so the pattern survives scaling. H265: DTS = PTS - n * (frame duration of the SPS's VUI timing
// info, 3000 ticks), independent of the PTS spacing: the pattern cannot be compressed (only stretched).

type c9BfFrame struct {
	pts, dts int64
	k        int // index into the pattern
}

func c9BfSlots(codec string) int64 {
	if codec == "h265" {
		return bf5GOPTicks / 3000
	}
	return bfGOPTicks / 3000
}

// c9BfPlan: GOP g starts where GOP g-1 ended (+ gaps[g-1] ticks without frames) and uses slots[g] ticks per frame slot.
func c9BfPlan(codec string, base int64, slots []int64, gaps []int64) ([]c9BfFrame, bool) {
	var out []c9BfFrame
	pat := bfPattern
	var ex4 *h264.DTSExtractor
	var ex5 *h265.DTSExtractor
	if codec == "h265" {
		pat = bf5Pattern
		ex5 = &h265.DTSExtractor{}
		ex5.Initialize()
	} else {
		ex4 = &h264.DTSExtractor{}
		ex4.Initialize()
	}
	start := base
	n := 0
	for g, slot := range slots {
		for k := range pat {
			p := start + pat[k].ptsMs*slot/3000
			par := 0
			if k == 0 {
				par = 1
			}
			n++
			var d int64
			var err error
			if ex5 != nil {
				d, err = ex5.Extract(bf5BuildAU(par, k, n), p)
			} else {
				d, err = ex4.Extract(bfBuildAU(par, k, n), p)
			}
			if err != nil || d > p || (len(out) > 0 && d <= out[len(out)-1].dts) {
				return nil, false
			}
			out = append(out, c9BfFrame{pts: p, dts: d, k: k})
		}
		start += c9BfSlots(codec) * slot
		if g < len(gaps) {
			start += gaps[g]
		}
	}
	return out, true
}
