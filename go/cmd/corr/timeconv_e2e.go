package main

import (
	"bytes"
	"errors"
	"fmt"
	"io"
	"math/big"
	"net/http"
	"os"
	"os/exec"
	"sort"
	"strconv"
	"strings"
	"sync"
	"time"

	"github.com/asticode/go-astits"

	"github.com/bluenviron/gohlslib/v2"
	"github.com/bluenviron/gohlslib/v2/pkg/codecs"
	"github.com/bluenviron/mediacommon/v2/pkg/codecs/h264"
	"github.com/bluenviron/mediacommon/v2/pkg/codecs/mpeg4audio"
	"github.com/bluenviron/mediacommon/v2/pkg/formats/fmp4"
	"github.com/bluenviron/mediacommon/v2/pkg/formats/fmp4/seekablebuffer"
	"github.com/bluenviron/mediacommon/v2/pkg/formats/mpegts"
)

// timeconv_e2e slice, END-TO-END layer (property C10): a synthesized fMP4 or MPEG-TS stream (mediacommon
// writers) is served in-process to the REAL gohlslib.Client; the per-track delivery log (payload id, pts,
// dts, AbsoluteTime) is compared with the Lean model's (driver drv_timeconv) and with a direct oracle
// written from the property text.
//
//	stream fmt=fmp4|ts layout=single|rend mode=vod|live k=<len of first live playlist> msn=<n> br=0|1 racy=0|1 child=0|1
//	trk s=<stream> id=<init id | ts index> rate=<timescale> codec=<name> kind=<codec type name> video=0|1 sup=0|1
//	seg s=<stream> n=<index> pdt=<ns>|nil
//	pt  s= n= part=<k> id=<track id> base=<BaseTime> smp=<dur:off:pid;…>          fMP4, container order
//	w   s= n= t=<track index> pts=<raw> dts=<raw> pid=<id>                         MPEG-TS, write order
//	d   s= n= t=<index among supported tracks> pts=<raw> dts=<raw> pid=<id>        MPEG-TS, reader call-back order
//	run n=<number of preceding lines>          -> tracks … / t<i> … / end …

type e2eTrack struct {
	stream int
	id     int
	rate   int64
	codec  string
	kind   string
	video  bool
	sup    bool
}

type e2ePT struct {
	part int
	id   int
	base int64
	smp  []tcSample
}

type e2eTS struct {
	t             int
	pts, dts, pid int64
}

type e2eSeg struct {
	stream, n int
	pdt       *int64
	pts       []e2ePT
	ws        []e2eTS
	ds        []e2eTS
}

type e2eCase struct {
	format string
	layout string
	mode   string
	k      int
	msn    int
	br     bool
	racy   bool
	child  bool
	tracks [][]e2eTrack // per stream
	segs   [][]*e2eSeg  // per stream
}

func (c *e2eCase) start() int {
	if c.mode == "live" {
		return c.k - 3
	}
	return 0
}

func b2i(b bool) int {
	if b {
		return 1
	}
	return 0
}

func smpStr(ss []tcSample) string {
	if len(ss) == 0 {
		return "-"
	}
	var p []string
	for _, s := range ss {
		p = append(p, fmt.Sprintf("%d:%d:%d", s.dur, s.off, s.pid))
	}
	return strings.Join(p, ";")
}

func (c *e2eCase) ops() []string {
	var o []string
	o = append(o, fmt.Sprintf("stream fmt=%s layout=%s mode=%s k=%d msn=%d br=%d racy=%d child=%d",
		c.format, c.layout, c.mode, c.k, c.msn, b2i(c.br), b2i(c.racy), b2i(c.child)))
	for _, ts := range c.tracks {
		for _, t := range ts {
			o = append(o, fmt.Sprintf("trk s=%d id=%d rate=%d codec=%s kind=%s video=%d sup=%d", t.stream, t.id, t.rate, t.codec, t.kind, b2i(t.video), b2i(t.sup)))
		}
	}
	for _, ss := range c.segs {
		for _, s := range ss {
			pdt := "nil"
			if s.pdt != nil {
				pdt = strconv.FormatInt(*s.pdt, 10)
			}
			o = append(o, fmt.Sprintf("seg s=%d n=%d pdt=%s", s.stream, s.n, pdt))
			for _, p := range s.pts {
				o = append(o, fmt.Sprintf("pt s=%d n=%d part=%d id=%d base=%d smp=%s", s.stream, s.n, p.part, p.id, p.base, smpStr(p.smp)))
			}
			for _, w := range s.ws {
				o = append(o, fmt.Sprintf("w s=%d n=%d t=%d pts=%d dts=%d pid=%d", s.stream, s.n, w.t, w.pts, w.dts, w.pid))
			}
			for _, d := range s.ds {
				o = append(o, fmt.Sprintf("d s=%d n=%d t=%d pts=%d dts=%d pid=%d", s.stream, s.n, d.t, d.pts, d.dts, d.pid))
			}
		}
	}
	o = append(o, fmt.Sprintf("run n=%d", len(o)))
	return o
}

// parseE2E rebuilds the case from its definition lines (everything before `run`). Structural rules (the Lean
// driver applies the same ones): streams numbered 0…, segments of a stream numbered 0… consecutively, every
// pt/w/d line refers to the segment defined last for that stream.
func parseE2E(lines []string) (*e2eCase, bool) {
	if len(lines) == 0 {
		return nil, false
	}
	c := &e2eCase{}
	for i, l := range lines {
		op, m := tcKV(l)
		geti := func(k string) (int64, bool) { return tcInt(m, k) }
		switch op {
		case "stream":
			if i != 0 {
				return nil, false
			}
			c.format, c.layout, c.mode = m["fmt"], m["layout"], m["mode"]
			k, o1 := geti("k")
			msn, o2 := geti("msn")
			br, o3 := geti("br")
			racy, o4 := geti("racy")
			child, o5 := geti("child")
			if !(o1 && o2 && o3 && o4 && o5) || (c.format != "fmp4" && c.format != "ts") || (c.layout != "single" && c.layout != "rend") ||
				(c.mode != "vod" && c.mode != "live") || (c.mode == "live" && k < 3) || msn < 0 {
				return nil, false
			}
			c.k, c.msn, c.br, c.racy, c.child = int(k), int(msn), br != 0, racy != 0, child != 0
		case "trk":
			if i == 0 {
				return nil, false
			}
			s, o1 := geti("s")
			id, o2 := geti("id")
			rate, o3 := geti("rate")
			video, o4 := geti("video")
			sup, o5 := geti("sup")
			if !(o1 && o2 && o3 && o4 && o5) || s < 0 || int(s) > len(c.tracks) || (int(s) < len(c.tracks)-1) || len(c.segs) != 0 {
				return nil, false
			}
			if int(s) == len(c.tracks) {
				c.tracks = append(c.tracks, nil)
			}
			c.tracks[s] = append(c.tracks[s], e2eTrack{stream: int(s), id: int(id), rate: rate, codec: m["codec"], kind: m["kind"], video: video != 0, sup: sup != 0})
		case "seg":
			s, o1 := geti("s")
			n, o2 := geti("n")
			if !(o1 && o2) || s < 0 || int(s) >= len(c.tracks) {
				return nil, false
			}
			for len(c.segs) <= int(s) {
				c.segs = append(c.segs, nil)
			}
			if int(n) != len(c.segs[s]) {
				return nil, false
			}
			sg := &e2eSeg{stream: int(s), n: int(n)}
			if m["pdt"] != "nil" {
				v, ok := geti("pdt")
				if !ok {
					return nil, false
				}
				sg.pdt = &v
			}
			c.segs[s] = append(c.segs[s], sg)
		case "pt", "w", "d":
			s, o1 := geti("s")
			n, o2 := geti("n")
			if !(o1 && o2) || s < 0 || int(s) >= len(c.segs) || len(c.segs[s]) == 0 || int(n) != len(c.segs[s])-1 {
				return nil, false
			}
			sg := c.segs[s][n]
			if op == "pt" {
				part, o3 := geti("part")
				id, o4 := geti("id")
				base, o5 := geti("base")
				smp, o6 := tcParseSamples(m["smp"])
				if !(o3 && o4 && o5 && o6) || c.format != "fmp4" || base < 0 || part < 0 {
					return nil, false
				}
				if len(sg.pts) > 0 && sg.pts[len(sg.pts)-1].part > int(part) {
					return nil, false
				}
				sg.pts = append(sg.pts, e2ePT{part: int(part), id: int(id), base: base, smp: smp})
			} else {
				t, o3 := geti("t")
				pts, o4 := geti("pts")
				dts, o5 := geti("dts")
				pid, o6 := geti("pid")
				if !(o3 && o4 && o5 && o6) || c.format != "ts" || t < 0 || pts < 0 || dts < 0 || pts >= tcM || dts >= tcM {
					return nil, false
				}
				x := e2eTS{t: int(t), pts: pts, dts: dts, pid: pid}
				if op == "w" {
					if int(t) >= len(c.tracks[s]) {
						return nil, false
					}
					sg.ws = append(sg.ws, x)
				} else {
					sg.ds = append(sg.ds, x)
				}
			}
		default:
			return nil, false
		}
	}
	if len(c.tracks) == 0 || len(c.segs) != len(c.tracks) {
		return nil, false
	}
	if c.layout == "single" && len(c.tracks) != 1 {
		return nil, false
	}
	for _, ss := range c.segs {
		if len(ss) != len(c.segs[0]) || len(ss) == 0 {
			return nil, false
		}
	}
	if c.mode == "live" && c.k > len(c.segs[0]) {
		return nil, false
	}
	return c, true
}

// ---------------------------------------------------------------------------------------------
// payloads and codecs

var tcSPS = []byte{
	0x67, 0x42, 0xc0, 0x28, 0xd9, 0x00, 0x78, 0x02, 0x27, 0xe5, 0x84, 0x00, 0x00, 0x03, 0x00, 0x04,
	0x00, 0x00, 0x03, 0x00, 0xf0, 0x3c, 0x60, 0xc9, 0x20,
}
var tcPPS = []byte{0x08, 0x06, 0x07, 0x08}
var tcH265SPS = []byte{
	0x42, 0x01, 0x01, 0x01, 0x60, 0x00, 0x00, 0x03, 0x00, 0x90, 0x00, 0x00, 0x03, 0x00, 0x00, 0x03,
	0x00, 0x78, 0xa0, 0x03, 0xc0, 0x80, 0x10, 0xe5, 0x96, 0x66, 0x69, 0x24, 0xca, 0xe0, 0x10, 0x00,
	0x00, 0x03, 0x00, 0x10, 0x00, 0x00, 0x03, 0x01, 0xe0, 0x80,
}

var tcAACConf = mpeg4audio.Config{Type: 2, SampleRate: 44100, ChannelCount: 2}

func fmp4Codec(name string) fmp4.Codec {
	switch name {
	case "h264":
		return &fmp4.CodecH264{SPS: tcSPS, PPS: tcPPS}
	case "h265":
		return &fmp4.CodecH265{VPS: []byte{0x40, 0x01, 0x0c, 0x01}, SPS: tcH265SPS, PPS: []byte{0x44, 0x01, 0xc0}}
	case "vp9":
		return &fmp4.CodecVP9{Width: 1920, Height: 1080, Profile: 1, BitDepth: 8, ChromaSubsampling: 1}
	case "aac":
		return &fmp4.CodecMPEG4Audio{Config: tcAACConf}
	case "opus":
		return &fmp4.CodecOpus{ChannelCount: 2}
	case "mp1a":
		return &fmp4.CodecMPEG1Audio{SampleRate: 48000, ChannelCount: 2}
	case "lpcm":
		return &fmp4.CodecLPCM{BitDepth: 16, SampleRate: 48000, ChannelCount: 2}
	case "mjpeg":
		return &fmp4.CodecMJPEG{Width: 640, Height: 480}
	case "ac3":
		return &fmp4.CodecAC3{SampleRate: 48000, ChannelCount: 2, Fscod: 0, Bsid: 8, Bsmod: 0, Acmod: 2, BitRateCode: 7}
	}
	return nil
}

func fmp4KindOf(c fmp4.Codec) string {
	return strings.TrimPrefix(fmt.Sprintf("%T", c), "*fmp4.Codec")
}

func tsCodec(name string) mpegts.Codec {
	switch name {
	case "h264":
		return &mpegts.CodecH264{}
	case "aac":
		return &mpegts.CodecMPEG4Audio{Config: tcAACConf}
	case "opus":
		return &mpegts.CodecOpus{ChannelCount: 2}
	}
	return nil
}

// bytes of an opaque payload id: 10 base-128 digits of the id followed by (id mod 23) filler bytes derived from
// it; every byte has its top bit set, so no Annex-B start code (00 00 01) can be emulated inside a NALU.
func e2ePayload(pid int64) []byte {
	b := make([]byte, 10)
	v := uint64(pid)
	for i := 9; i >= 0; i-- {
		b[i] = 0x80 | byte(v&0x7f)
		v >>= 7
	}
	n := int(pid % 23)
	for i := 0; i < n; i++ {
		b = append(b, 0x80|(byte(pid>>uint(i%8))+byte(i)*31))
	}
	return b
}

func e2ePidOf(data [][]byte) string {
	if len(data) != 1 {
		return fmt.Sprintf("?n=%d", len(data))
	}
	d := data[0]
	for _, skip := range []int{0, 1} {
		if len(d) >= 10+skip {
			pid := int64(0)
			for _, x := range d[skip : skip+10] {
				pid = pid<<7 | int64(x&0x7f)
			}
			if pid >= 0 && bytes.Equal(d[skip:], e2ePayload(pid)) {
				return strconv.FormatInt(pid, 10)
			}
		}
	}
	return fmt.Sprintf("?%x", d)
}

func isH26x(codec string) bool { return codec == "h264" || codec == "h265" }

// ---------------------------------------------------------------------------------------------
// building the served files

type e2eFile struct {
	data []byte
}

func mp4Bytes(m interface{ Marshal(io.WriteSeeker) error }) ([]byte, error) {
	var buf seekablebuffer.Buffer
	if err := m.Marshal(&buf); err != nil {
		return nil, err
	}
	return append([]byte{}, buf.Bytes()...), nil
}

func (c *e2eCase) trackOf(s, id int) *e2eTrack {
	var found *e2eTrack
	for i := range c.tracks[s] {
		if c.tracks[s][i].id == id {
			found = &c.tracks[s][i]
		}
	}
	return found
}

// buildFMP4 returns init bytes and segment bytes of stream s.
func (c *e2eCase) buildFMP4(s int) ([]byte, [][]byte, error) {
	init := &fmp4.Init{}
	for _, t := range c.tracks[s] {
		cd := fmp4Codec(t.codec)
		if cd == nil {
			return nil, nil, fmt.Errorf("unknown codec %s", t.codec)
		}
		init.Tracks = append(init.Tracks, &fmp4.InitTrack{ID: t.id, TimeScale: uint32(t.rate), Codec: cd})
	}
	ib, err := mp4Bytes(init)
	if err != nil {
		return nil, nil, err
	}
	var segs [][]byte
	seq := uint32(1)
	for _, sg := range c.segs[s] {
		var parts fmp4.Parts
		cur := -1
		for _, p := range sg.pts {
			if p.part != cur {
				parts = append(parts, &fmp4.Part{SequenceNumber: seq})
				seq++
				cur = p.part
			}
			pt := &fmp4.PartTrack{ID: p.id, BaseTime: uint64(p.base)}
			tr := c.trackOf(s, p.id)
			for k, x := range p.smp {
				pl := e2ePayload(x.pid)
				if tr != nil && isH26x(tr.codec) {
					typ := byte(1)
					if k == 0 {
						typ = 5
					}
					enc, err := h264.AVCC([][]byte{append([]byte{typ}, pl...)}).Marshal()
					if err != nil {
						return nil, nil, err
					}
					pl = enc
				}
				pt.Samples = append(pt.Samples, &fmp4.PartSample{Duration: uint32(x.dur), PTSOffset: int32(x.off), Payload: pl})
			}
			parts[len(parts)-1].Tracks = append(parts[len(parts)-1].Tracks, pt)
		}
		sb, err := mp4Bytes(&parts)
		if err != nil {
			return nil, nil, err
		}
		segs = append(segs, sb)
	}
	return ib, segs, nil
}

func (c *e2eCase) buildTS(s int) ([][]byte, error) {
	var segs [][]byte
	for _, sg := range c.segs[s] {
		var buf bytes.Buffer
		var tracks []*mpegts.Track
		for i, t := range c.tracks[s] {
			cd := tsCodec(t.codec)
			if cd == nil {
				return nil, fmt.Errorf("unknown codec %s", t.codec)
			}
			tracks = append(tracks, &mpegts.Track{PID: uint16(256 + i), Codec: cd})
		}
		w := &mpegts.Writer{W: &buf, Tracks: tracks}
		if err := w.Initialize(); err != nil {
			return nil, err
		}
		first := map[int]bool{}
		for _, x := range sg.ws {
			var err error
			switch c.tracks[s][x.t].codec {
			case "h264":
				typ := byte(1)
				if !first[x.t] {
					typ = 5
					first[x.t] = true
				}
				err = w.WriteH264(tracks[x.t], x.pts, x.dts, [][]byte{append([]byte{typ}, e2ePayload(x.pid)...)})
			case "aac":
				err = w.WriteMPEG4Audio(tracks[x.t], x.pts, [][]byte{e2ePayload(x.pid)})
			case "opus":
				err = w.WriteOpus(tracks[x.t], x.pts, [][]byte{e2ePayload(x.pid)})
			}
			if err != nil {
				return nil, err
			}
		}
		segs = append(segs, append([]byte{}, buf.Bytes()...))
	}
	return segs, nil
}

type swReader struct{ r io.Reader }

func (r *swReader) Read(p []byte) (int, error) { return r.r.Read(p) }

// tsDemux decodes the segments of one MPEG-TS stream with mediacommon's reader (one reader across segments,
// as the client does) and returns, per segment, the samples of the supported tracks in call-back order.
func (c *e2eCase) tsDemux(s int, segs [][]byte) ([][]e2eTS, error) {
	if len(segs) == 0 {
		return nil, nil
	}
	sw := &swReader{bytes.NewReader(segs[0])}
	rd := &mpegts.Reader{R: sw}
	if err := rd.Initialize(); err != nil {
		return nil, err
	}
	out := make([][]e2eTS, len(segs))
	cur := 0
	var decErr error
	rd.OnDecodeError(func(err error) { decErr = err })
	k := 0
	for _, t := range rd.Tracks() {
		idx := k
		switch t.Codec.(type) {
		case *mpegts.CodecH264:
			rd.OnDataH264(t, func(pts, dts int64, au [][]byte) error {
				pid, _ := strconv.ParseInt(e2ePidOf(au), 10, 64)
				out[cur] = append(out[cur], e2eTS{t: idx, pts: pts, dts: dts, pid: pid})
				return nil
			})
			k++
		case *mpegts.CodecMPEG4Audio:
			rd.OnDataMPEG4Audio(t, func(pts int64, aus [][]byte) error {
				pid, _ := strconv.ParseInt(e2ePidOf(aus), 10, 64)
				out[cur] = append(out[cur], e2eTS{t: idx, pts: pts, dts: pts, pid: pid})
				return nil
			})
			k++
		}
	}
	for i := range segs {
		cur = i
		if i > 0 {
			sw.r = bytes.NewReader(segs[i])
		}
		for {
			err := rd.Read()
			if err != nil {
				if errors.Is(err, astits.ErrNoMorePackets) {
					break
				}
				return nil, err
			}
		}
	}
	if decErr != nil {
		return nil, decErr
	}
	return out, nil
}

// ---------------------------------------------------------------------------------------------
// in-process server

type e2eServer struct {
	mu        sync.Mutex
	files     map[string][]byte
	playlists map[string]func(count int) string
	counts    map[string]int
}

func (s *e2eServer) RoundTrip(req *http.Request) (*http.Response, error) {
	s.mu.Lock()
	defer s.mu.Unlock()
	p := req.URL.Path
	mk := func(code int, body []byte, ct string) *http.Response {
		return &http.Response{
			StatusCode: code, Status: strconv.Itoa(code), Proto: "HTTP/1.1", ProtoMajor: 1, ProtoMinor: 1,
			Header: http.Header{"Content-Type": []string{ct}}, Body: io.NopCloser(bytes.NewReader(body)),
			ContentLength: int64(len(body)), Request: req,
		}
	}
	if f, ok := s.playlists[p]; ok {
		s.counts[p]++
		return mk(200, []byte(f(s.counts[p])), "application/vnd.apple.mpegurl"), nil
	}
	if b, ok := s.files[p]; ok {
		if rg := req.Header.Get("Range"); rg != "" {
			var a, z int
			if _, err := fmt.Sscanf(rg, "bytes=%d-%d", &a, &z); err != nil || a < 0 || z < a || z >= len(b) {
				return mk(416, nil, "text/plain"), nil
			}
			return mk(206, b[a:z+1], "application/octet-stream"), nil
		}
		return mk(200, b, "application/octet-stream"), nil
	}
	return mk(404, nil, "text/plain"), nil
}

func (c *e2eCase) server() (*e2eServer, error) {
	srv := &e2eServer{files: map[string][]byte{}, playlists: map[string]func(int) string{}, counts: map[string]int{}}
	for s := range c.tracks {
		var initB []byte
		var segB [][]byte
		var err error
		ext := "ts"
		if c.format == "fmp4" {
			ext = "mp4"
			initB, segB, err = c.buildFMP4(s)
		} else {
			segB, err = c.buildTS(s)
		}
		if err != nil {
			return nil, err
		}
		type rng struct{ off, n int }
		var initR rng
		segR := make([]rng, len(segB))
		if c.br {
			var all []byte
			all = append(all, []byte("padding!")...)
			if initB != nil {
				initR = rng{len(all), len(initB)}
				all = append(all, initB...)
			}
			for i, b := range segB {
				all = append(all, byte(i), 0xff) // bytes that belong to no range
				segR[i] = rng{len(all), len(b)}
				all = append(all, b...)
			}
			srv.files[fmt.Sprintf("/s%d_all.%s", s, ext)] = all
		} else {
			if initB != nil {
				srv.files[fmt.Sprintf("/s%d_init.mp4", s)] = initB
			}
			for i, b := range segB {
				srv.files[fmt.Sprintf("/s%d_seg%d.%s", s, i, ext)] = b
			}
		}
		s := s
		pl := func(count int) string {
			var b strings.Builder
			b.WriteString("#EXTM3U\n#EXT-X-VERSION:7\n#EXT-X-TARGETDURATION:1\n")
			fmt.Fprintf(&b, "#EXT-X-MEDIA-SEQUENCE:%d\n", c.msn)
			if c.mode == "vod" {
				b.WriteString("#EXT-X-PLAYLIST-TYPE:VOD\n")
			}
			if initB != nil {
				if c.br {
					fmt.Fprintf(&b, "#EXT-X-MAP:URI=\"s%d_all.%s\",BYTERANGE=\"%d@%d\"\n", s, ext, initR.n, initR.off)
				} else {
					fmt.Fprintf(&b, "#EXT-X-MAP:URI=\"s%d_init.mp4\"\n", s)
				}
			}
			n := len(segB)
			final := true
			if c.mode == "live" && count == 1 {
				n, final = c.k, false
			}
			for i := 0; i < n; i++ {
				if pdt := c.segs[s][i].pdt; pdt != nil {
					fmt.Fprintf(&b, "#EXT-X-PROGRAM-DATE-TIME:%s\n", time.Unix(0, *pdt).UTC().Format("2006-01-02T15:04:05.000Z07:00"))
				}
				b.WriteString("#EXTINF:1.00000,\n")
				if c.br {
					fmt.Fprintf(&b, "#EXT-X-BYTERANGE:%d@%d\ns%d_all.%s\n", segR[i].n, segR[i].off, s, ext)
				} else {
					fmt.Fprintf(&b, "s%d_seg%d.%s\n", s, i, ext)
				}
			}
			if final {
				b.WriteString("#EXT-X-ENDLIST\n")
			}
			return b.String()
		}
		if c.layout == "single" {
			srv.playlists["/index.m3u8"] = pl
		} else {
			srv.playlists[fmt.Sprintf("/s%d.m3u8", s)] = pl
		}
	}
	if c.layout == "rend" {
		srv.playlists["/index.m3u8"] = func(int) string {
			var b strings.Builder
			b.WriteString("#EXTM3U\n")
			for s := 1; s < len(c.tracks); s++ {
				def := "NO"
				if s == 1 {
					def = "YES"
				}
				fmt.Fprintf(&b, "#EXT-X-MEDIA:TYPE=AUDIO,GROUP-ID=\"aud\",NAME=\"a%d\",DEFAULT=%s,AUTOSELECT=YES,LANGUAGE=\"l%d\",URI=\"s%d.m3u8\"\n", s, def, s, s)
			}
			b.WriteString("#EXT-X-STREAM-INF:BANDWIDTH=1000000,CODECS=\"avc1.640015,mp4a.40.2\",AUDIO=\"aud\"\ns0.m3u8\n")
			return b.String()
		}
	}
	return srv, nil
}

// ---------------------------------------------------------------------------------------------
// running the real client

type e2eDelivery struct {
	pid    string
	pts    int64
	dts    *int64
	ntp    *int64
	ntpSet bool
}

type e2eResult struct {
	tracks []string // rate:kind
	logs   [][]e2eDelivery
	end    string
	decErr []string
}

func e2eErrClass(err error) string {
	if errors.Is(err, gohlslib.ErrClientEOS) {
		return "eos"
	}
	s := err.Error()
	switch {
	case strings.Contains(s, "could not find data of leading track"):
		return "err:noleading"
	case strings.Contains(s, "rendition playlists with multiple tracks"):
		return "err:rendmulti"
	case strings.Contains(s, "too many tracks"):
		return "err:toomany"
	case strings.Contains(s, "no supported tracks"):
		return "err:nosupported"
	case strings.Contains(s, "invalid time scale"):
		return "err:zerots"
	}
	return "err:other:" + strings.ReplaceAll(s, " ", "_")
}

func codecKind(c codecs.Codec) string {
	if c == nil {
		return "nil"
	}
	return strings.TrimPrefix(fmt.Sprintf("%T", c), "*codecs.")
}

func (c *e2eCase) runClient() (*e2eResult, error) {
	srv, err := c.server()
	if err != nil {
		return nil, err
	}
	res := &e2eResult{}
	var mu sync.Mutex
	var cl *gohlslib.Client
	logf := func(i int, track *gohlslib.Track, data [][]byte, pts int64, dts *int64) {
		d := e2eDelivery{pid: e2ePidOf(data), pts: pts, dts: dts}
		if t, ok := cl.AbsoluteTime(track); ok {
			v := t.UnixNano()
			d.ntp = &v
		}
		mu.Lock()
		res.logs[i] = append(res.logs[i], d)
		mu.Unlock()
	}
	cl = &gohlslib.Client{
		URI:                       "http://verif.invalid/index.m3u8",
		HTTPClient:                &http.Client{Transport: srv},
		OnDownloadPrimaryPlaylist: func(string) {},
		OnDownloadStreamPlaylist:  func(string) {},
		OnDownloadSegment:         func(string) {},
		OnDownloadPart:            func(string) {},
		OnDecodeError: func(err error) {
			mu.Lock()
			res.decErr = append(res.decErr, err.Error())
			mu.Unlock()
		},
		OnTracks: func(tracks []*gohlslib.Track) error {
			res.logs = make([][]e2eDelivery, len(tracks))
			for i, t := range tracks {
				i, t := i, t
				res.tracks = append(res.tracks, fmt.Sprintf("%d:%s", t.ClockRate, codecKind(t.Codec)))
				switch t.Codec.(type) {
				case *codecs.H264, *codecs.H265:
					cl.OnDataH26x(t, func(pts int64, dts int64, au [][]byte) { d := dts; logf(i, t, au, pts, &d) })
				case *codecs.VP9:
					cl.OnDataVP9(t, func(pts int64, frame []byte) { logf(i, t, [][]byte{frame}, pts, nil) })
				case *codecs.AV1:
					cl.OnDataAV1(t, func(pts int64, tu [][]byte) { logf(i, t, tu, pts, nil) })
				case *codecs.MPEG4Audio:
					cl.OnDataMPEG4Audio(t, func(pts int64, aus [][]byte) { logf(i, t, aus, pts, nil) })
				case *codecs.Opus:
					cl.OnDataOpus(t, func(pts int64, pk [][]byte) { logf(i, t, pk, pts, nil) })
				}
			}
			return nil
		},
	}
	if err := cl.Start(); err != nil {
		return nil, err
	}
	select {
	case err := <-cl.Wait():
		res.end = e2eErrClass(err)
	case <-time.After(8 * time.Second):
		cl.Close()
		<-cl.Wait()
		res.end = "timeout"
	}
	cl.Close()
	return res, nil
}

// number of tracks of the leading stream as exposed by the client (needed to tell rendition tracks apart)
func (c *e2eCase) observation(res *e2eResult) []string {
	if strings.HasPrefix(res.end, "panic") {
		return []string{"end " + res.end}
	}
	out := []string{fmt.Sprintf("tracks %d %s", len(res.tracks), tcJoinStr(res.tracks))}
	if res.end == "eos" {
		// tracks of the leading stream come first
		nLead := 0
		for _, t := range c.tracks[0] {
			if t.sup {
				nLead++
			}
		}
		for i, lg := range res.logs {
			var s []string
			for _, d := range lg {
				dts := "-"
				if d.dts != nil {
					dts = strconv.FormatInt(*d.dts, 10)
				}
				ntp := "nil"
				if d.ntp != nil {
					ntp = strconv.FormatInt(*d.ntp, 10)
				}
				if c.racy && i >= nLead {
					ntp = "~"
				}
				s = append(s, fmt.Sprintf("%s@%d/%s/%s", d.pid, d.pts, dts, ntp))
			}
			out = append(out, fmt.Sprintf("t%d %s", i, tcJoinStr2(s, ";")))
		}
	}
	for _, e := range res.decErr {
		out = append(out, "decode-error "+strings.ReplaceAll(e, " ", "_"))
	}
	return append(out, "end "+res.end)
}

// parseObservation rebuilds the result from the observation lines printed by a child process.
func parseObservation(lines []string) *e2eResult {
	res := &e2eResult{}
	for _, l := range lines {
		f := strings.Fields(l)
		if len(f) == 0 {
			continue
		}
		switch {
		case f[0] == "tracks" && len(f) == 3:
			if f[2] != "-" {
				res.tracks = strings.Split(f[2], ",")
			}
			res.logs = make([][]e2eDelivery, len(res.tracks))
		case f[0] == "end" && len(f) == 2:
			res.end = f[1]
		case f[0] == "decode-error":
			res.decErr = append(res.decErr, l)
		case strings.HasPrefix(f[0], "t") && len(f) == 2:
			i, err := strconv.Atoi(f[0][1:])
			if err != nil || i < 0 || i >= len(res.logs) {
				return nil
			}
			if f[1] == "-" {
				continue
			}
			for _, it := range strings.Split(f[1], ";") {
				a := strings.SplitN(it, "@", 2)
				if len(a) != 2 {
					return nil
				}
				b := strings.Split(a[1], "/")
				if len(b) != 3 {
					return nil
				}
				d := e2eDelivery{pid: a[0]}
				d.pts, _ = strconv.ParseInt(b[0], 10, 64)
				if b[1] != "-" {
					v, _ := strconv.ParseInt(b[1], 10, 64)
					d.dts = &v
				}
				if b[2] != "nil" && b[2] != "~" {
					v, _ := strconv.ParseInt(b[2], 10, 64)
					d.ntp = &v
				}
				res.logs[i] = append(res.logs[i], d)
			}
		}
	}
	if res.end == "" {
		return nil
	}
	return res
}

func tcJoinStr(s []string) string { return tcJoinStr2(s, ",") }
func tcJoinStr2(s []string, sep string) string {
	if len(s) == 0 {
		return "-"
	}
	return strings.Join(s, sep)
}

// runInChild re-executes this binary (hidden sub-command, see timeconv_child.go) so that a panic of the client
// kills only the child.
func e2eRunInChild(lines []string) []string {
	exe, err := os.Executable()
	if err != nil {
		return []string{"harness-error " + err.Error()}
	}
	cmd := exec.Command(exe, "timeconv-child")
	cmd.Stdin = strings.NewReader(strings.Join(lines, "\n") + "\n")
	var stdout, stderr bytes.Buffer
	cmd.Stdout, cmd.Stderr = &stdout, &stderr
	done := make(chan error, 1)
	if err := cmd.Start(); err != nil {
		return []string{"harness-error " + err.Error()}
	}
	go func() { done <- cmd.Wait() }()
	select {
	case err = <-done:
	case <-time.After(20 * time.Second):
		cmd.Process.Kill()
		<-done
		return []string{"end child-timeout"}
	}
	if err != nil {
		se := stderr.String()
		switch {
		case strings.Contains(se, "integer divide by zero"):
			return []string{"end panic:div0"}
		case strings.Contains(se, "nil pointer dereference"):
			return []string{"end panic:nil"}
		case strings.Contains(se, "index out of range"):
			return []string{"end panic:index"}
		}
		first := strings.SplitN(se, "\n", 2)[0]
		return []string{"end child-failed:" + strings.ReplaceAll(first, " ", "_")}
	}
	var out []string
	for _, l := range strings.Split(stdout.String(), "\n") {
		if l != "" {
			out = append(out, l)
		}
	}
	return out
}

// ---------------------------------------------------------------------------------------------
// direct oracle (written from the property text; independent of the Lean model)

type e2eUnit struct {
	pid      int64
	pts, dts *big.Rat // seconds relative to the origin
	ptsTicks *big.Rat // exact pts in the track's ticks relative to the origin
	dtsTicks *big.Rat
	seg      int
	gated    bool     // MPEG-TS: handed over by the demuxer before the first leading-track unit of the first segment
	afterLd  bool     // MPEG-TS: handed over at/after the segment's first leading-track unit
	absSec   *big.Rat // container dts in seconds (fMP4) for the AbsoluteTime rule
}

func ratInt(x int64) *big.Rat { return new(big.Rat).SetInt64(x) }

func tsSigned(d int64) int64 { // signed distance on the 33-bit circle, in [-2^32, 2^32)
	d = tcEmod(d)
	if d >= 1<<32 {
		d -= tcM
	}
	return d
}

func (c *e2eCase) leadingTrack() (int, *e2eTrack) {
	// the video track if any, else the first (among the supported tracks of stream 0)
	var first *e2eTrack
	fi := -1
	k := 0
	for i := range c.tracks[0] {
		t := &c.tracks[0][i]
		if !t.sup {
			continue
		}
		if first == nil {
			first, fi = t, k
		}
		if t.video {
			return k, t
		}
		k++
	}
	return fi, first
}

func (c *e2eCase) oracle(res *e2eResult) []string {
	var v []string
	fail := func(f string, a ...any) { v = append(v, "C10: "+fmt.Sprintf(f, a...)) }
	if res.end != "eos" {
		fail("well-formed stream: client ended with %q instead of end-of-stream", res.end)
		return v
	}
	if len(res.decErr) > 0 {
		fail("decode errors on a well-formed stream: %v", res.decErr)
	}
	// 1. exactly the supported tracks
	type gt struct {
		s, li int // stream, index among the stream's tracks
		t     *e2eTrack
	}
	var want []gt
	for s := range c.tracks {
		for i := range c.tracks[s] {
			if c.tracks[s][i].sup {
				want = append(want, gt{s, i, &c.tracks[s][i]})
			}
		}
	}
	if len(want) != len(res.tracks) {
		fail("client reports %d tracks, the stream has %d supported tracks", len(res.tracks), len(want))
		return v
	}
	for i, w := range want {
		rate := w.t.rate
		if c.format == "ts" {
			rate = 90000
		}
		if res.tracks[i] != fmt.Sprintf("%d:%s", rate, w.t.kind) {
			fail("track %d reported as %s, expected %d:%s", i, res.tracks[i], rate, w.t.kind)
		}
	}
	start := c.start()
	_, lead := c.leadingTrack()
	if lead == nil {
		return v
	}
	// 2. origin = first DTS of the leading track (first downloaded segment of the leading stream)
	var originTicks int64 // in the leading track's scale (fMP4) / raw (TS)
	found := false
	if c.format == "fmp4" {
		for _, p := range c.segs[0][start].pts {
			if p.id == lead.id {
				originTicks, found = p.base, true
				break
			}
		}
	} else {
		for _, w := range c.segs[0][start].ws {
			if &c.tracks[0][w.t] == lead {
				originTicks, found = w.dts, true
				break
			}
		}
	}
	if !found {
		fail("generator produced a first segment without leading-track data")
		return v
	}
	leadRate := lead.rate
	if c.format == "ts" {
		leadRate = 90000
	}
	// demux order of MPEG-TS (for the gating reading and the AbsoluteTime rule)
	var demux [][][]e2eTS
	if c.format == "ts" {
		for s := range c.tracks {
			segB, err := c.buildTS(s)
			if err != nil {
				fail("harness: %v", err)
				return v
			}
			d, err := c.tsDemux(s, segB)
			if err != nil {
				fail("harness: %v", err)
				return v
			}
			demux = append(demux, d)
		}
	}
	supIdx := func(s, li int) int { // index among supported tracks of the stream
		k := 0
		for i := 0; i < li; i++ {
			if c.tracks[s][i].sup {
				k++
			}
		}
		return k
	}
	leadSup := -1
	for i := range c.tracks[0] {
		if &c.tracks[0][i] == lead {
			leadSup = supIdx(0, i)
		}
	}
	// first leading-track container DTS of each segment of the leading stream, in seconds (for AbsoluteTime)
	firstLeadSec := map[int]*big.Rat{}
	for n := start; n < len(c.segs[0]); n++ {
		if c.format == "fmp4" {
			for _, p := range c.segs[0][n].pts {
				if p.id == lead.id {
					firstLeadSec[n] = new(big.Rat).SetFrac64(p.base-originTicks, leadRate)
					break
				}
			}
		} else {
			for _, w := range c.segs[0][n].ws {
				if &c.tracks[0][w.t] == lead {
					firstLeadSec[n] = new(big.Rat).SetFrac64(tsSigned(w.dts-originTicks), 90000)
					break
				}
			}
		}
	}
	for gi, w := range want {
		rate := w.t.rate
		if c.format == "ts" {
			rate = 90000
		}
		// expected units of the track in container order
		var units []e2eUnit
		for n := start; n < len(c.segs[w.s]); n++ {
			sg := c.segs[w.s][n]
			if c.format == "fmp4" {
				// origin in this track's scale: originTicks·rate/leadRate (exact rational)
				orig := new(big.Rat).SetFrac(new(big.Int).Mul(big.NewInt(originTicks), big.NewInt(rate)), big.NewInt(leadRate))
				for _, p := range sg.pts {
					if p.id != w.t.id {
						continue
					}
					dts := p.base
					for _, x := range p.smp {
						u := e2eUnit{pid: x.pid, seg: n}
						u.dtsTicks = new(big.Rat).Sub(ratInt(dts), orig)
						u.ptsTicks = new(big.Rat).Sub(ratInt(dts+x.off), orig)
						u.absSec = new(big.Rat).Quo(u.dtsTicks, ratInt(rate))
						units = append(units, u)
						dts += x.dur
					}
				}
			} else {
				si := supIdx(w.s, w.li)
				seenLead := false
				order := map[int64]bool{} // pids at/after the first leading unit in demux order
				gated := map[int64]bool{}
				for _, d := range demux[w.s][n] {
					if w.s == 0 && d.t == leadSup {
						seenLead = true
					}
					if seenLead || w.s != 0 {
						order[d.pid] = true
					} else if w.s == 0 && n == start {
						gated[d.pid] = true
					}
				}
				_ = si
				for _, x := range sg.ws {
					if x.t != w.li {
						continue
					}
					u := e2eUnit{pid: x.pid, seg: n, gated: gated[x.pid], afterLd: order[x.pid]}
					u.dtsTicks = ratInt(tsSigned(x.dts - originTicks))
					u.ptsTicks = ratInt(tsSigned(x.pts - originTicks))
					u.absSec = new(big.Rat).Quo(u.dtsTicks, ratInt(90000))
					units = append(units, u)
				}
			}
		}
		log := res.logs[gi]
		k := 0
		one := ratInt(1)
		zero := ratInt(0)
		for _, u := range units {
			must := u.ptsTicks.Cmp(zero) >= 0 && (!u.gated || os.Getenv("VERIF_C10_STRICT_GATING") == "1")
			mustNot := u.ptsTicks.Cmp(new(big.Rat).Neg(one)) <= 0
			isNext := k < len(log) && log[k].pid == strconv.FormatInt(u.pid, 10)
			if !isNext {
				if must {
					got := "nothing"
					if k < len(log) {
						got = log[k].pid
					}
					fail("track %d: unit %d (pts %s ticks after the origin) not delivered in order (next delivered: %s)", gi, u.pid, u.ptsTicks.FloatString(3), got)
					break
				}
				continue
			}
			d := log[k]
			k++
			if mustNot {
				fail("track %d: unit %d precedes the origin by %s ticks but was delivered (pts %d)", gi, u.pid, u.ptsTicks.FloatString(3), d.pts)
			}
			if d.pts < 0 {
				fail("track %d: unit %d delivered with negative pts %d", gi, u.pid, d.pts)
			}
			// times: container − origin in the track's clock rate, ±1 tick; exact for the leading track and on MPEG-TS
			exact := c.format == "ts" || (w.s == 0 && w.t == lead)
			chk := func(name string, got int64, want *big.Rat) {
				df := new(big.Rat).Sub(ratInt(got), want)
				if exact && df.Sign() != 0 {
					fail("track %d: unit %d %s = %d, expected exactly %s", gi, u.pid, name, got, want.FloatString(3))
				} else if df.Abs(df).Cmp(one) >= 0 {
					fail("track %d: unit %d %s = %d, expected %s ± 1 tick", gi, u.pid, name, got, want.FloatString(3))
				}
			}
			chk("pts", d.pts, u.ptsTicks)
			if d.dts != nil {
				chk("dts", *d.dts, u.dtsTicks)
			}
			// AbsoluteTime = PROGRAM-DATE-TIME of the segment + offset from the segment's first leading-track unit
			if w.s == 0 {
				if pdt := c.segs[0][u.seg].pdt; pdt != nil && (c.format == "fmp4" || u.afterLd) {
					if d.ntp == nil {
						fail("track %d: unit %d has no AbsoluteTime although its segment carries PROGRAM-DATE-TIME", gi, u.pid)
					} else {
						off := new(big.Rat).Sub(u.absSec, firstLeadSec[u.seg])
						wantNs := new(big.Rat).Add(ratInt(*pdt), new(big.Rat).Mul(off, ratInt(1000000000)))
						// resolution: the leading track's offsets are exact up to the two truncations to nanoseconds;
						// another track's origin AND anchor are each truncated to one of its ticks (reading recorded in notes)
						tol := ratInt(2)
						if w.t != lead {
							tol = new(big.Rat).Add(new(big.Rat).SetFrac64(2000000000, rate), ratInt(2))
						}
						df := new(big.Rat).Sub(ratInt(*d.ntp), wantNs)
						if df.Abs(df).Cmp(tol) > 0 {
							fail("track %d: unit %d AbsoluteTime %d, expected %s ns (PDT + offset from the segment's first leading unit)", gi, u.pid, *d.ntp, wantNs.FloatString(1))
						}
					}
				}
			} else if d.ntp != nil {
				// rendition: the anchor is one of the leading stream's segments that carry a PROGRAM-DATE-TIME
				ok, any := false, false
				for n, fl := range firstLeadSec {
					pdt := c.segs[0][n].pdt
					if pdt == nil {
						continue
					}
					any = true
					off := new(big.Rat).Sub(u.absSec, fl)
					wantNs := new(big.Rat).Add(ratInt(*pdt), new(big.Rat).Mul(off, ratInt(1000000000)))
					tol := new(big.Rat).Add(new(big.Rat).SetFrac64(2000000000, rate), ratInt(2))
					df := new(big.Rat).Sub(ratInt(*d.ntp), wantNs)
					if df.Abs(df).Cmp(tol) <= 0 {
						ok = true
					}
				}
				if any && !ok {
					fail("track %d (rendition): unit %d AbsoluteTime %d matches no PROGRAM-DATE-TIME anchor of the leading playlist", gi, u.pid, *d.ntp)
				}
				if !any {
					fail("track %d (rendition): AbsoluteTime available although the leading playlist has no PROGRAM-DATE-TIME", gi)
				}
			}
		}
		if k < len(log) && len(v) == 0 {
			fail("track %d: %d deliveries that are not units of the downloaded segments in order (first: %s)", gi, len(log)-k, log[k].pid)
		}
	}
	return v
}

// ---------------------------------------------------------------------------------------------
// slice plumbing

type timeconvE2ESlice struct{}

func init() { register(timeconvE2ESlice{}) }

func (timeconvE2ESlice) Name() string { return "timeconv_e2e" }

type timeconvE2ERunner struct {
	lines  []string
	oracle []string
}

func (timeconvE2ESlice) NewRunner() Runner { return &timeconvE2ERunner{} }
func (r *timeconvE2ERunner) Close()         {}
func (r *timeconvE2ERunner) Oracle() []string {
	return r.oracle
}

func (r *timeconvE2ERunner) Step(line string) []string {
	op, m := tcKV(line)
	if op != "run" {
		r.lines = append(r.lines, line)
		return nil
	}
	lines := r.lines
	r.lines = nil
	n, ok := tcInt(m, "n")
	if !ok || int(n) != len(lines) {
		return []string{"bad-case"}
	}
	c, ok := parseE2E(lines)
	if !ok {
		return []string{"bad-case"}
	}
	// the d lines must be what mediacommon's reader really produces for the w lines
	if c.format == "ts" {
		for s := range c.tracks {
			segB, err := c.buildTS(s)
			if err != nil {
				return []string{"harness-error " + err.Error()}
			}
			dm, err := c.tsDemux(s, segB)
			if err != nil {
				return []string{"harness-error " + err.Error()}
			}
			for n, sg := range c.segs[s] {
				if fmt.Sprint(dm[n]) != fmt.Sprint(sg.ds) && !(len(dm[n]) == 0 && len(sg.ds) == 0) {
					return []string{"harness-mismatch demux-order"}
				}
			}
		}
	}
	if c.child {
		out := e2eRunInChild(lines)
		crashed := false
		for _, l := range out {
			if strings.HasPrefix(l, "end panic") || strings.HasPrefix(l, "end child-") {
				crashed = true
				r.oracle = append(r.oracle, "C13: client process crashed ("+l+") on "+lines[0])
			}
		}
		// once the client survives such a stream (repairs of F8/F9 present) the property applies to it:
		// exactly the supported tracks, all their units
		if res := parseObservation(out); !crashed && res != nil && c.wellFormed() {
			r.oracle = append(r.oracle, c.oracle(res)...)
		}
		return out
	}
	res, err := c.runClient()
	if err != nil {
		return []string{"harness-error " + strings.ReplaceAll(err.Error(), " ", "_")}
	}
	if c.wellFormed() {
		r.oracle = append(r.oracle, c.oracle(res)...)
	}
	return c.observation(res)
}

// wellFormed: the case is inside the property's quantifier (supported fMP4 codecs only, non-zero time scales,
// leading-track data in every segment, one track per rendition).
func (c *e2eCase) wellFormed() bool {
	for s := range c.tracks {
		if len(c.tracks[s]) == 0 || (s > 0 && len(c.tracks[s]) != 1) {
			return false
		}
		nsup := 0
		for _, t := range c.tracks[s] {
			if t.sup {
				nsup++
			}
			if c.format == "fmp4" && t.rate <= 0 {
				return false
			}
		}
		if nsup == 0 {
			return false
		}
	}
	_, lead := c.leadingTrack()
	if lead == nil {
		return false
	}
	for s := range c.segs {
		// leading track of the stream: stream 0 → lead; renditions → their only supported track
		var lt *e2eTrack
		if s == 0 {
			lt = lead
		} else {
			for i := range c.tracks[s] {
				if c.tracks[s][i].sup {
					lt = &c.tracks[s][i]
					break
				}
			}
		}
		for n := c.start(); n < len(c.segs[s]); n++ {
			ok := false
			for _, p := range c.segs[s][n].pts {
				if p.id == lt.id {
					ok = true
				}
			}
			for _, w := range c.segs[s][n].ws {
				if &c.tracks[s][w.t] == lt {
					ok = true
				}
			}
			if !ok {
				return false
			}
		}
	}
	// distinct fMP4 track ids
	if c.format == "fmp4" {
		for s := range c.tracks {
			ids := map[int]bool{}
			for _, t := range c.tracks[s] {
				if ids[t.id] {
					return false
				}
				ids[t.id] = true
			}
		}
	}
	return true
}

func sortedKeys(m map[string]bool) []string {
	var k []string
	for x := range m {
		k = append(k, x)
	}
	sort.Strings(k)
	return k
}
