package main

import (
	"errors"
	"fmt"
	"math/rand"
	"net/http"
	"os"
	"runtime"
	"sort"
	"strings"
	"time"

	"github.com/bluenviron/gohlslib/v2"
)

// select slice (C11): the REAL gohlslib.Client (public API) against the scripted
// in-process origin of select_server.go. Observation = per-stream ordered request log
// (canonical URL, _HLS_skip, Range) + class of the Wait() result. The Lean driver
// drv_select computes the same lines from the playlist histories with the model
// Hls.Client.Select.

type selectSlice struct{}

func init() {
	// A panic inside a goroutine of the client cannot be recovered by the harness, so the
	// cases run in a long-lived worker child (this same binary); a crash of the worker is
	// an observation (`crash:<message>`) and a direct violation with the case as replay.
	if os.Getenv("VERIF_SELECT_WORKER") == "1" {
		selWorkerMain()
		os.Exit(0)
	}
	register(selectSlice{})
}

func (selectSlice) Name() string { return "select" }

func (selectSlice) NewRunner() Runner {
	if os.Getenv("VERIF_SELECT_INPROC") == "1" {
		return &selRunner{c: &selCase{}}
	}
	return &selProxyRunner{}
}

type selRunner struct {
	c      *selCase
	oracle []string
}

func (r *selRunner) Close() {}

func (r *selRunner) Oracle() []string { return r.oracle }

func (r *selRunner) Step(line string) []string {
	if strings.TrimSpace(line) != "run" {
		r.c.apply(line)
		return nil
	}
	return r.run()
}

func selClassify(err error) string {
	if errors.Is(err, gohlslib.ErrClientEOS) {
		return "eos"
	}
	m := err.Error()
	switch {
	case strings.Contains(m, "there aren't enough segments"):
		return "err:notenough"
	case strings.Contains(m, "no segments found"):
		return "err:nosegments"
	case strings.Contains(m, "next segment not found"):
		return "err:nextnotfound"
	case strings.Contains(m, "playback is too late"):
		return "err:toolate"
	case strings.Contains(m, "bad status code: 404"):
		return "err:badstatus"
	case strings.Contains(m, "preload hint disappeared"):
		return "err:hintgone"
	case m == "terminated":
		return "err:terminated"
	}
	return "err:other:" + strings.ReplaceAll(m, " ", "_")
}

// selParked lists the gohlslib functions in which goroutines are currently parked.
func selParked() string {
	buf := make([]byte, 1<<20)
	buf = buf[:runtime.Stack(buf, true)]
	seen := map[string]bool{}
	var names []string
	for _, g := range strings.Split(string(buf), "\n\n") {
		for _, l := range strings.Split(g, "\n") {
			if i := strings.Index(l, "gohlslib/v2."); i >= 0 && !strings.HasPrefix(l, "\t") {
				n := l[i+len("gohlslib/v2."):]
				if j := strings.LastIndexByte(n, '('); j >= 0 {
					n = n[:j]
				}
				if !seen[n] {
					seen[n] = true
					names = append(names, n)
				}
				break // innermost gohlslib frame of this goroutine
			}
		}
	}
	sort.Strings(names)
	return strings.Join(names, ",")
}

// startable: the first playlist lets the stream begin (needed for every stream of a
// multi-stream case, see select_server.go).
func selStartable(s *selStream) bool {
	if len(s.Views) == 0 {
		return false
	}
	v := s.Views[0]
	if v.SC != "-" && v.SC[1] == '1' && v.Hint != nil {
		return true
	}
	if v.Type == "vod" {
		return len(v.Segs) >= 1
	}
	return len(v.Segs) >= 3
}

func (r *selRunner) run() []string {
	c := r.c
	if !c.HasCfg {
		return []string{"nocfg"}
	}
	if len(c.Streams) == 0 {
		return []string{"nostreams"}
	}
	streams := c.Streams
	if c.Top == "media" {
		streams = streams[:1]
	}
	if len(streams) > 1 {
		for _, s := range streams {
			if !selStartable(s) {
				return []string{"invalid-case"}
			}
		}
	}

	if os.Getenv("VERIF_SELECT_WIDEN") != "" {
		// experiment switch (notes/select.md): widen the window between Unlock and the channel
		// receive in waitUntilSizeIsBelow, where F12 (lost wake-up) lives
		gohlslib.VerifSetYieldHook(func(p string) {
			if p == os.Getenv("VERIF_SELECT_WIDEN") {
				time.Sleep(2 * time.Millisecond)
			}
		})
	}
	sv := newSelServer(c, streams)
	uri := streams[0].Raw
	if c.Top == "multi" {
		uri = c.MURL
	}
	cl := &gohlslib.Client{
		URI:                       uri,
		HTTPClient:                &http.Client{Transport: sv},
		OnDownloadPrimaryPlaylist: func(string) {},
		OnDownloadStreamPlaylist:  func(string) {},
		OnDownloadSegment:         func(string) {},
		OnDownloadPart:            func(string) {},
		OnDecodeError:             func(error) {},
	}
	if err := cl.Start(); err != nil {
		return []string{"start-error"}
	}

	// watchdog: the client hangs when it produced neither a result nor a request for `timeout`
	// (a healthy case issues its requests a few milliseconds apart)
	const timeout = 1500 * time.Millisecond
	idle := func() <-chan struct{} {
		ch := make(chan struct{})
		go func() {
			for {
				time.Sleep(50 * time.Millisecond)
				sv.mu.Lock()
				quiet := time.Since(sv.lastActivity)
				sv.mu.Unlock()
				if quiet > timeout {
					close(ch)
					return
				}
			}
		}()
		return ch
	}
	outcome := ""
	got := false
	select {
	case err := <-cl.Wait():
		outcome, got = selClassify(err), true
	case <-sv.allParked:
		allEnded := true
		sv.mu.Lock()
		for _, st := range sv.st {
			if st.state != selEnded {
				allEnded = false
			}
		}
		sv.mu.Unlock()
		if allEnded {
			// every stream fetched the last segment of an ENDLIST playlist: the client must finish by itself
			select {
			case err := <-cl.Wait():
				outcome, got = selClassify(err), true
			case <-idle():
				outcome = "timeout"
			}
		} else {
			// some stream is held for ever by the server: nothing more can happen
			select {
			case err := <-cl.Wait():
				outcome, got = selClassify(err), true
			case <-time.After(25 * time.Millisecond):
				outcome = "pending"
			}
		}
	case <-idle():
		outcome = "timeout"
	}
	if strings.HasPrefix(outcome, "timeout") {
		// no result and not every stream parked at the origin: the client hangs. Say where.
		r.oracle = append(r.oracle, "C11: client neither finished nor asked for anything for "+timeout.String()+"; gohlslib goroutines parked in: "+selParked())
	}
	cl.Close()
	if !got {
		select {
		case <-cl.Wait():
		case <-time.After(2 * timeout):
			outcome += "+stuck"
		}
	}

	sv.mu.Lock()
	defer sv.mu.Unlock()
	var out []string
	line := func(who string, e selLogEntry) string {
		return fmt.Sprintf("req %s %s skip=%s range=%s", who, e.url, e.skip, e.rng)
	}
	for _, e := range sv.multiLog {
		out = append(out, line("m", e))
	}
	for i, st := range sv.st {
		for _, e := range st.log {
			out = append(out, line(fmt.Sprint(i), e))
		}
	}
	for _, e := range sv.otherLog {
		out = append(out, line("?", e))
	}
	out = append(out, "wait "+outcome)
	r.oracle = append(r.oracle, selOracle(c, sv, outcome)...)
	return out
}

// ---------------------------------------------------------------------------------------------
// Direct oracle: the statement of C11 evaluated on the real request log alone
// (written from the property text; it does not use the Lean model).

func selOracle(c *selCase, sv *selServer, outcome string) []string {
	var bad []string
	fail := func(i int, f string, a ...any) {
		bad = append(bad, fmt.Sprintf("C11: stream %d: ", i)+fmt.Sprintf(f, a...))
	}
	single := len(sv.st) == 1
	allAtEnd := true
	hintGoneLegit := false // some LL stream really lost its hint (playlist without hint and without ENDLIST)
	var llEnded []int      // LL streams that received an ENDLIST playlist without hint
	if len(sv.otherLog) != 0 {
		bad = append(bad, fmt.Sprintf("C11: request for a URL no playlist advertised: %s", sv.otherLog[0].url))
	}
	for i, st := range sv.st {
		log := st.log
		atEnd := false
		if len(log) == 0 {
			allAtEnd = false
			continue
		}
		if log[0].kind != "pl" || log[0].skip != "-" {
			fail(i, "first request is not a plain playlist fetch")
			allAtEnd = false
			continue
		}
		first := log[0].view
		if first == nil {
			allAtEnd = false
			continue // history empty
		}
		pos := 1
		if first.Map != nil {
			if pos < len(log) {
				e := log[pos]
				if e.kind != "init" || e.url != first.Map.Abs || e.rng != selRangeHeader(first.Map.Start, first.Map.Len) {
					fail(i, "init request %s range=%s does not match EXT-X-MAP", e.url, e.rng)
				}
				pos++
			}
		}
		ll := first.SC != "-" && first.SC[1] == '1' && first.Hint != nil
		wantSkip := "-"
		if ll && first.SC[3] == '1' {
			wantSkip = "YES"
		}
		view := first // playlist returned by the most recent playlist fetch
		if ll {
			// hint of each successive playlist, playlist fetch in between, delta iff advertised at first;
			// a reloaded playlist without hint ends the loop: end of stream if it carries ENDLIST, error otherwise
			expectHint := true
			llAtEnd, llGone := false, false
			for ; pos < len(log); pos++ {
				e := log[pos]
				if llAtEnd || llGone {
					fail(i, "request %s after a playlist without preload hint", e.url)
					break
				}
				if expectHint {
					h := view.Hint
					hs := uint64(0)
					if h.Start != nil {
						hs = *h.Start
					}
					if e.kind == "pl" || e.url != h.Abs || e.rng != selRangeHeader(&hs, h.Len) {
						fail(i, "expected the preload hint %s of the current playlist, got %s range=%s", h.Abs, e.url, e.rng)
						break
					}
				} else {
					if e.kind != "pl" {
						fail(i, "expected a playlist fetch after the preload hint, got %s", e.url)
						break
					}
					if e.skip != wantSkip {
						fail(i, "playlist fetch with _HLS_skip=%s, expected %s (CAN-SKIP-UNTIL in the first playlist)", e.skip, wantSkip)
					}
					if e.view == nil || !e.served {
						break // exhausted, or never answered (held at the gate when the client ended)
					}
					view = e.view
					if view.Hint == nil {
						if view.End {
							llAtEnd = true
						} else {
							llGone = true
						}
					}
				}
				expectHint = !expectHint
			}
			if llGone {
				hintGoneLegit = true
			}
			if llAtEnd {
				llEnded = append(llEnded, i)
			} else {
				allAtEnd = false
				if outcome == "eos" {
					fail(i, "ErrClientEOS although the Low-Latency stream has not reached an ENDLIST playlist without preload hint")
				}
			}
			if single && llGone && outcome != "err:hintgone" {
				fail(i, "the preload hint disappeared from a playlist without ENDLIST but Wait() gave %s", outcome)
			}
			continue
		}

		var cur *int
		expectSeg := true
		afterPlaylist := true // the most recent request is an answered playlist fetch
		broke := false
		for ; pos < len(log); pos++ {
			e := log[pos]
			if atEnd {
				fail(i, "request %s after the last segment of an ENDLIST playlist", e.url)
				broke = true
				break
			}
			if expectSeg {
				afterPlaylist = false
				if e.kind == "pl" {
					fail(i, "two playlist fetches without a segment fetch in between")
					broke = true
					break
				}
				idx := -1
				for k, sg := range view.Segs {
					if sg.Abs == e.url && selRangeHeader(sg.Start, sg.Len) == e.rng {
						idx = k
						break
					}
				}
				if idx < 0 {
					fail(i, "request %s range=%s matches no entry of the current playlist (URI / byte range resolution)", e.url, e.rng)
					broke = true
					break
				}
				id := view.MSN + idx
				n := len(view.Segs)
				if cur == nil {
					want := n - 3
					if first.Type == "vod" {
						want = 0
					}
					if want < 0 {
						fail(i, "started although the live playlist has fewer than three segments")
					} else if idx != want {
						fail(i, "started at index %d (id %d), expected index %d", idx, id, want)
					}
				} else {
					if id != *cur+1 {
						fail(i, "fetched id %d after id %d (skip / repeat / reorder)", id, *cur)
					}
					if !view.End && n-idx > 5 {
						fail(i, "continued %d segments behind the live edge instead of stopping", n-idx)
					}
				}
				cur = &id
				if view.End && idx == n-1 {
					atEnd = true
				}
			} else {
				if e.kind != "pl" {
					fail(i, "two segment fetches without a playlist fetch in between")
					broke = true
					break
				}
				if e.skip != "-" {
					fail(i, "delta update requested outside Low-Latency mode")
				}
				if e.view == nil || !e.served {
					break // exhausted (404 or held), or never answered
				}
				view = e.view
				afterPlaylist = true
			}
			expectSeg = !expectSeg
		}
		// the client stopped after a playlist: only an error may be the reason (single stream:
		// nothing else can have ended the run)
		if stoppedAfter := view; single && afterPlaylist && !broke && len(bad) == 0 {
			if outcome == "eos" || outcome == "pending" || outcome == "timeout" {
				fail(i, "no request after a playlist and no error either (outcome %s)", outcome)
			}
			// if the next segment was available and near the edge, stopping is wrong as well
			n := len(stoppedAfter.Segs)
			ok := false
			if cur == nil {
				ok = (first.Type == "vod" && n >= 1) || (first.Type != "vod" && n >= 3)
			} else {
				idx := *cur + 1 - stoppedAfter.MSN
				ok = idx >= 0 && idx < n && (stoppedAfter.End || n-idx <= 5)
			}
			if ok {
				fail(i, "stopped with %s although the next segment is listed and within reach", outcome)
			}
		}
		if !atEnd {
			allAtEnd = false
		}
		if outcome == "eos" && !atEnd {
			fail(i, "ErrClientEOS before the last segment of an ENDLIST playlist was fetched")
		}
	}
	if outcome == "err:hintgone" && !hintGoneLegit {
		if len(llEnded) > 0 {
			// the defect F28: the Low-Latency loop has no end-of-stream path
			bad = append(bad, fmt.Sprintf("F28-ll-endlist-no-eos: C11: stream %d: Low-Latency stream received an ENDLIST playlist without preload hint (the stream is over) but the client failed with \"preload hint disappeared\" instead of ending; ErrClientEOS is never reached", llEnded[0]))
		} else {
			bad = append(bad, "C11: \"preload hint disappeared\" although every Low-Latency playlist carried a hint")
		}
	} else if allAtEnd && outcome != "eos" {
		bad = append(bad, "C11: every stream fetched the last segment of an ENDLIST playlist but Wait() gave "+outcome)
	}
	return bad
}

// ---------------------------------------------------------------------------------------------
// generator

type selURIForm int

const (
	selRel selURIForm = iota
	selRelDir
	selRelQuery
	selRoot
	selAbs
	selSchemeRel
	selDotDot
	selNForms
)

var selFormNames = []string{"rel", "reldir", "query", "root", "abs", "schemerel", "dotdot"}

func selMkURI(r *rand.Rand, form selURIForm, sid int, name string) string {
	switch form {
	case selRel:
		return fmt.Sprintf("s%d_%s", sid, name)
	case selRelDir:
		return fmt.Sprintf("media%d/s%d_%s", sid, sid, name)
	case selRelQuery:
		return fmt.Sprintf("s%d_%s?tok=a%%20b&k=%d", sid, name, r.Intn(3))
	case selRoot:
		return fmt.Sprintf("/x/s%d/%s", sid, name)
	case selAbs:
		return fmt.Sprintf("http://cdn%d.test:8080/s%d/%s?z=1&a=2", sid, sid, name)
	case selSchemeRel:
		return fmt.Sprintf("//edge.test/s%d/%s", sid, name)
	default:
		return fmt.Sprintf("../up/s%d_%s", sid, name)
	}
}

func u64p(v uint64) *uint64 { return &v }

type selStreamGen struct {
	r        *rand.Rand
	sid      int
	base     string // canonical playlist URL
	ext      string
	form     selURIForm
	mixForms bool
	rangeMod int // 0 none, 1 with start, 2 without start, 3 mixed
	big      bool
	segs     map[int]selSeg
}

func (g *selStreamGen) res(name string, allowRange bool, hint bool) selSeg {
	form := g.form
	if g.mixForms {
		form = selURIForm(g.r.Intn(int(selNForms)))
	}
	s := selSeg{URI: selMkURI(g.r, form, g.sid, name)}
	s.Abs = selResolve(g.base, s.URI)
	return s
}

func (g *selStreamGen) seg(id int) selSeg {
	if s, ok := g.segs[id]; ok {
		return s
	}
	name := fmt.Sprintf("seg%d.%s", id, g.ext)
	mode := g.rangeMod
	if mode == 3 {
		mode = g.r.Intn(3)
	}
	if mode != 0 {
		name = "all." + g.ext // one file addressed by byte ranges
	}
	s := g.res(name, true, false)
	if mode != 0 {
		// lengths are unique per id so that (URL, Range) identifies the entry
		l := uint64(1000 + id%100000)
		st := uint64(id%100000) * 4096
		if g.big {
			st = 1<<63 + uint64(id%1000)*(1<<40)
			if g.r.Intn(4) == 0 {
				st = ^uint64(0) - l + 1 // start + len = 2^64 exactly
			}
		}
		if mode == 1 {
			// degenerate lengths only together with a (unique) start, so that (URL, Range) stays unique
			switch g.r.Intn(40) {
			case 0:
				l = 0 // last = start - 1 (wraps around for start 0)
			case 1:
				l = 1
			}
		}
		s.Len = u64p(l)
		if mode == 1 {
			s.Start = u64p(st)
		}
	}
	g.segs[id] = s
	return s
}

func (g *selStreamGen) window(msn, n int) []selSeg {
	out := make([]selSeg, 0, n)
	for i := 0; i < n; i++ {
		out = append(out, g.seg(msn+i))
	}
	return out
}

func selPickMSN(r *rand.Rand) int {
	switch r.Intn(6) {
	case 0:
		return 0
	case 1:
		return 1
	case 2:
		return 1<<31 - 5000 - r.Intn(100) // close to the parser's 31-bit limit
	default:
		return r.Intn(5000)
	}
}

// traditional history. `wellBehaved` = the server always keeps the next segment
// available and near (a stream that never makes the client stop with an error).
func (g *selStreamGen) traditional(polls int, tags *[]string) []*selView {
	r := g.r
	var views []*selView
	ptype := "none"
	switch r.Intn(20) {
	case 0, 1, 2, 3, 4:
		ptype = "vod"
	case 5, 6, 7, 8:
		ptype = "event"
	}
	*tags = append(*tags, "type:"+ptype)
	msn := selPickMSN(r)
	var mp *selSeg
	if g.ext == "mp4" {
		m := g.res("init.mp4", true, false)
		switch r.Intn(4) {
		case 0:
			m.Len, m.Start = u64p(uint64(600+r.Intn(100))), u64p(uint64(r.Intn(50)))
		case 1:
			m.Len = u64p(uint64(600 + r.Intn(100)))
		}
		mp = &m
	}
	sc := "-"
	var hint *selSeg
	switch r.Intn(12) {
	case 0:
		sc = "b0s0"
	case 1:
		sc = "b0s1" // CAN-SKIP-UNTIL without blocking reload: traditional loop, never a delta request
		h := g.res("part0.mp4", false, true)
		hint = &h
	case 2:
		sc = "b1s1" // blocking reload but no preload hint: traditional loop
	}
	if sc != "-" {
		*tags = append(*tags, "trad-with-server-control")
	}

	if ptype == "vod" && r.Intn(5) != 0 {
		// the usual VOD: complete list, ENDLIST, constant
		n := 1 + r.Intn(10)
		if r.Intn(6) == 0 {
			n = 1 + r.Intn(25)
		}
		endFrom := 0
		if r.Intn(6) == 0 {
			endFrom = 1 + r.Intn(3) // ENDLIST shows up later
		}
		for p := 0; p < polls; p++ {
			views = append(views, &selView{MSN: msn, Type: ptype, End: p >= endFrom, SC: sc, Map: mp, Hint: hint, Segs: g.window(msn, n)})
		}
		*tags = append(*tags, "hist:vod-static")
		return views
	}

	// sliding / growing window
	w := 1 + r.Intn(10)
	switch r.Intn(8) {
	case 0:
		w = 1 + r.Intn(3)
	case 1, 2:
		w = 3 + r.Intn(5)
	}
	*tags = append(*tags, fmt.Sprintf("window:%d", w))
	n := w
	if r.Intn(5) == 0 {
		n = 1 + r.Intn(w)
	}
	grow := ptype == "event" || (ptype == "vod")
	endAt := -1
	switch r.Intn(4) {
	case 0:
		endAt = r.Intn(polls + 1)
	case 1:
		endAt = polls/2 + r.Intn(polls/2+1)
	}
	// per-poll advance profile
	profile := r.Intn(10)
	hi := msn + n // one past the newest id
	lo := msn
	fault := "none"
	for p := 0; p < polls; p++ {
		if p > 0 && !(endAt >= 0 && p > endAt) {
			a := 1
			switch {
			case profile < 5: // steady: exactly one new segment per poll
				a = 1
			case profile < 7: // mostly steady
				switch r.Intn(10) {
				case 0:
					a = 0
				case 1:
					a = 2
				}
			case profile < 9: // bursty
				a = r.Intn(4)
			default: // wild
				a = r.Intn(8)
				if r.Intn(6) == 0 {
					a = 20 + r.Intn(500)
					fault = "jump"
				}
			}
			hi += a
			if grow {
				// EVENT: nothing is removed
			} else if hi-lo > w {
				lo = hi - w
			}
			if profile == 9 && r.Intn(10) == 0 && hi-lo > 1 {
				lo += 1 + r.Intn(hi-lo-1) // window shrinks
				fault = "shrink"
			}
			if profile == 9 && r.Intn(15) == 0 {
				d := 1 + r.Intn(5)
				if lo-d >= 0 {
					lo, hi = lo-d, hi-d // sequence regresses
					fault = "regress"
				}
			}
		}
		if hi-lo > 40 {
			lo = hi - 40
		}
		views = append(views, &selView{MSN: lo, Type: ptype, End: endAt >= 0 && p >= endAt, SC: sc, Map: mp, Hint: hint, Segs: g.window(lo, hi-lo)})
	}
	*tags = append(*tags, "fault:"+fault, fmt.Sprintf("profile:%d", profile))
	if endAt >= 0 && endAt < polls {
		*tags = append(*tags, "endlist:appears")
	} else {
		*tags = append(*tags, "endlist:never")
	}
	return views
}

func (g *selStreamGen) lowLatency(polls int, forceEnd bool, tags *[]string) []*selView {
	r := g.r
	var views []*selView
	msn := selPickMSN(r)
	skip := r.Intn(2) == 1
	var mp *selSeg
	if g.ext == "mp4" {
		m := g.res("init.mp4", true, false)
		mp = &m
	}
	gone := -1
	if r.Intn(3) == 0 {
		gone = 1 + r.Intn(polls)
	}
	// end of the stream: ENDLIST appears at poll endAt (>= 1; the first playlist must carry a hint, or the
	// stream would not be a Low-Latency one); the ENDLIST playlist has no hint (the normal end), or it still
	// advertises one and only the following playlist drops it
	endAt, endWithHint := -1, false
	if forceEnd || r.Intn(2) == 0 {
		endAt = 1 + r.Intn(polls)
		if forceEnd && endAt >= polls {
			endAt = polls - 1
			if endAt < 1 {
				endAt, polls = 1, 2
			}
		}
		endWithHint = r.Intn(3) == 0
		if forceEnd {
			gone = -1
		}
	}
	hrange := r.Intn(3)
	n := 1 + r.Intn(4)
	for p := 0; p < polls; p++ {
		s := skip
		b := true
		if p > 0 && r.Intn(5) == 0 {
			s = !s // later playlists may advertise something else: only the FIRST one counts
		}
		if p > 0 && r.Intn(8) == 0 {
			b = false
		}
		sc := "b"
		if b {
			sc += "1"
		} else {
			sc += "0"
		}
		if s {
			sc += "s1"
		} else {
			sc += "s0"
		}
		if p > 0 && r.Intn(10) == 0 {
			sc = "-"
		}
		v := &selView{MSN: msn, Type: "none", SC: sc, Map: mp, Segs: g.window(msn, n)}
		ended := endAt >= 0 && p >= endAt
		v.End = ended
		noHint := p == gone
		if ended && !(endWithHint && p == endAt) {
			noHint = true
		}
		if !noHint {
			h := g.res(fmt.Sprintf("part%d.mp4", p), false, true)
			switch hrange {
			case 1:
				h.Len = u64p(uint64(300 + p))
				h.Start = u64p(uint64(1000 * p))
			case 2:
				h.Len = u64p(uint64(300 + p))
				if r.Intn(2) == 0 {
					h.Start = u64p(uint64(7 + p))
				}
			}
			v.Hint = &h
		}
		views = append(views, v)
		if r.Intn(3) == 0 {
			msn++
		}
	}
	if skip {
		*tags = append(*tags, "ll:can-skip")
	} else {
		*tags = append(*tags, "ll:no-skip")
	}
	if gone >= 0 && gone < polls && !(endAt >= 0 && endAt <= gone) {
		*tags = append(*tags, "ll:hint-disappears")
	}
	if endAt >= 0 && endAt < polls && !(gone >= 0 && gone < endAt) {
		if endWithHint {
			*tags = append(*tags, "ll:endlist-with-hint-then-without")
		} else {
			*tags = append(*tags, "ll:endlist-without-hint")
		}
	}
	return views
}

// a history on which a correct client never stops with an error: one new segment per
// poll, three or more listed, optionally ending with ENDLIST.
func (g *selStreamGen) steady(polls int, tags *[]string) []*selView {
	r := g.r
	var views []*selView
	msn := selPickMSN(r)
	w := 3 + r.Intn(6)
	var mp *selSeg
	if g.ext == "mp4" {
		m := g.res("init.mp4", true, false)
		mp = &m
	}
	ptype := "none"
	if r.Intn(4) == 0 {
		ptype = "event"
	}
	endAt := -1
	if r.Intn(2) == 0 {
		endAt = r.Intn(polls)
	}
	lo, hi := msn, msn+w
	for p := 0; p < polls; p++ {
		if p > 0 && !(endAt >= 0 && p > endAt) {
			hi++
			if ptype != "event" {
				lo++
			}
		}
		views = append(views, &selView{MSN: lo, Type: ptype, End: endAt >= 0 && p >= endAt, SC: "-", Map: mp, Segs: g.window(lo, hi-lo)})
	}
	*tags = append(*tags, "hist:steady")
	return views
}

func (selectSlice) Gen(r *rand.Rand, _ int, tier string) ([]string, []string) {
	var tags []string
	c := &selCase{HasCfg: true, Top: "media", Cont: "ts", MURL: "-"}
	if r.Intn(2) == 0 {
		c.Cont = "fmp4"
	}
	nstreams := 1
	if r.Intn(100) < 40 {
		c.Top = "multi"
		switch r.Intn(4) {
		case 0:
			nstreams = 1
		case 1, 2:
			nstreams = 2
		default:
			nstreams = 3
		}
	}
	tags = append(tags, "top:"+c.Top, "cont:"+c.Cont, fmt.Sprintf("streams:%d", nstreams))
	origin := "http://origin.test"
	if r.Intn(3) == 0 {
		origin = "http://origin.test:8080"
	}
	master := origin + "/live/master.m3u8"
	if r.Intn(3) == 0 {
		master += "?token=m%2F1&b=2"
	}
	if c.Top == "multi" {
		c.MURL = selResolve(master, "")
	}
	maxPolls := 12
	if tier == "thorough" && r.Intn(8) == 0 {
		maxPolls = 40
	}
	allLL := r.Intn(12) == 0
	if allLL {
		tags = append(tags, "all-streams-ll-ending")
	}
	for sid := 0; sid < nstreams; sid++ {
		s := &selStream{ID: sid, Exh: "fail"}
		if r.Intn(10) < 3 {
			s.Exh = "hold"
		}
		// playlist URI as written in Client.URI / the multivariant playlist
		plForm := selURIForm(r.Intn(int(selNForms)))
		if c.Top == "media" {
			s.Raw = fmt.Sprintf("%s/live/s%d/index.m3u8", origin, sid)
			if r.Intn(3) == 0 {
				s.Raw += "?auth=x%26y&_q=1"
			}
		} else {
			s.Raw = selMkURI(r, plForm, sid, "index.m3u8")
		}
		s.URL = selResolve(master, s.Raw)
		g := &selStreamGen{r: r, sid: sid, base: s.URL, ext: "ts", segs: map[int]selSeg{}}
		if c.Cont == "fmp4" {
			g.ext = "mp4"
		}
		g.form = selURIForm(r.Intn(int(selNForms)))
		g.mixForms = r.Intn(5) == 0
		switch r.Intn(20) {
		case 0, 1, 2:
			g.rangeMod = 1
		case 3, 4:
			g.rangeMod = 2
		case 5, 6, 7, 8:
			g.rangeMod = 3
		}
		g.big = g.rangeMod != 0 && r.Intn(5) == 0
		form := selFormNames[g.form]
		if g.mixForms {
			form = "mixed"
		}
		tags = append(tags, "uri:"+form, fmt.Sprintf("range:%d", g.rangeMod))
		if g.big {
			tags = append(tags, "range:huge")
		}
		polls := 1 + r.Intn(maxPolls)
		mode := r.Intn(10)
		switch {
		case allLL:
			// every rendition is a Low-Latency stream that ends (at its own poll): ErrClientEOS
			s.Views = g.lowLatency(polls, true, &tags)
			tags = append(tags, "mode:ll")
		case mode < 2:
			s.Views = g.lowLatency(polls, false, &tags)
			tags = append(tags, "mode:ll")
		case nstreams > 1 && mode < 6:
			s.Views = g.steady(polls, &tags)
			tags = append(tags, "mode:trad")
		default:
			s.Views = g.traditional(polls, &tags)
			tags = append(tags, "mode:trad")
		}
		if nstreams > 1 && !selStartable(s) {
			// every stream of a multi-stream case must be able to start (select_server.go)
			s.Views = g.steady(polls, &tags)
		}
		c.Streams = append(c.Streams, s)
	}
	return c.ops(), tags
}

// ---------------------------------------------------------------------------------------------
// corpus: hand-kept histories that always run first

type selCorpusView struct {
	msn, n int
	typ    string
	end    bool
	sc     string
	hint   int // -1 none, else part number
}

func selCorpusStream(sid int, cont string, exh string, rangeMod int, views []selCorpusView) *selStream {
	s := &selStream{ID: sid, Exh: exh, Raw: fmt.Sprintf("http://origin.test/c/s%d/index.m3u8", sid)}
	s.URL = selResolve("http://origin.test/c/master.m3u8", s.Raw)
	g := &selStreamGen{r: rand.New(rand.NewSource(int64(sid) + 1)), sid: sid, base: s.URL, ext: "ts", rangeMod: rangeMod, segs: map[int]selSeg{}}
	var mp *selSeg
	if cont == "fmp4" {
		g.ext = "mp4"
		m := g.res("init.mp4", true, false)
		mp = &m
	}
	for _, cv := range views {
		v := &selView{MSN: cv.msn, Type: cv.typ, End: cv.end, SC: cv.sc, Map: mp, Segs: g.window(cv.msn, cv.n)}
		if v.Type == "" {
			v.Type = "none"
		}
		if v.SC == "" {
			v.SC = "-"
		}
		if cv.hint >= 0 {
			h := g.res(fmt.Sprintf("part%d.mp4", cv.hint), false, true)
			v.Hint = &h
		}
		s.Views = append(s.Views, v)
	}
	return s
}

func (selectSlice) Corpus() [][]string {
	one := func(cont string, s *selStream) []string {
		return (&selCase{HasCfg: true, Top: "media", Cont: cont, MURL: "-", Streams: []*selStream{s}}).ops()
	}
	nh := -1
	var out [][]string
	// exactly five behind the edge is still served, six is "too late"
	out = append(out, one("ts", selCorpusStream(0, "ts", "fail", 0, []selCorpusView{
		{msn: 10, n: 3, hint: nh}, {msn: 10, n: 6, hint: nh}, {msn: 10, n: 8, hint: nh}, {msn: 10, n: 10, hint: nh}, {msn: 10, n: 13, hint: nh}})))
	// ENDLIST appears in the middle: the remaining two segments, then end of stream
	out = append(out, one("fmp4", selCorpusStream(0, "fmp4", "fail", 1, []selCorpusView{
		{msn: 5, n: 4, hint: nh}, {msn: 6, n: 4, hint: nh}, {msn: 6, n: 4, end: true, hint: nh}, {msn: 6, n: 4, end: true, hint: nh}, {msn: 6, n: 4, end: true, hint: nh}})))
	// VOD with a single segment; VOD decided by the FIRST playlist only
	out = append(out, one("ts", selCorpusStream(0, "ts", "fail", 0, []selCorpusView{{msn: 0, n: 1, typ: "vod", end: true, hint: nh}})))
	out = append(out, one("ts", selCorpusStream(0, "ts", "fail", 2, []selCorpusView{
		{msn: 7, n: 5, typ: "vod", hint: nh}, {msn: 7, n: 5, hint: nh}, {msn: 7, n: 5, typ: "event", end: true, hint: nh},
		{msn: 7, n: 5, end: true, hint: nh}, {msn: 7, n: 5, end: true, hint: nh}, {msn: 7, n: 5, end: true, hint: nh}})))
	// an EVENT playlist that already carries ENDLIST is NOT a VOD playlist: third from last
	out = append(out, one("fmp4", selCorpusStream(0, "fmp4", "fail", 0, []selCorpusView{
		{msn: 100, n: 6, typ: "event", end: true, hint: nh}, {msn: 100, n: 6, typ: "event", end: true, hint: nh}, {msn: 100, n: 6, typ: "event", end: true, hint: nh}})))
	// fewer than three segments; stalled playlist at the edge (next segment not ready); window moved past the next id
	out = append(out, one("ts", selCorpusStream(0, "ts", "fail", 0, []selCorpusView{{msn: 3, n: 2, hint: nh}})))
	out = append(out, one("ts", selCorpusStream(0, "ts", "hold", 0, []selCorpusView{
		{msn: 3, n: 3, hint: nh}, {msn: 3, n: 3, hint: nh}, {msn: 3, n: 3, hint: nh}, {msn: 3, n: 3, hint: nh}})))
	out = append(out, one("ts", selCorpusStream(0, "ts", "fail", 3, []selCorpusView{{msn: 3, n: 4, hint: nh}, {msn: 9, n: 4, hint: nh}})))
	// media sequence regresses
	out = append(out, one("ts", selCorpusStream(0, "ts", "fail", 0, []selCorpusView{{msn: 30, n: 4, hint: nh}, {msn: 2, n: 4, hint: nh}})))
	// byte ranges at the ends of uint64
	{
		s := selCorpusStream(0, "ts", "fail", 0, []selCorpusView{{msn: 0, n: 4, typ: "vod", end: true, hint: nh}})
		v := s.Views[0]
		v.Segs[0].Len, v.Segs[0].Start = u64p(0), u64p(0)              // bytes=0-18446744073709551615
		v.Segs[1].Len, v.Segs[1].Start = u64p(16), u64p(^uint64(0)-15) // start+len = 2^64
		v.Segs[2].Len = u64p(1)                                        // bytes=0-0
		v.Segs[3].Len, v.Segs[3].Start = u64p(^uint64(0)), u64p(5)     // wraps: bytes=5-3
		for i := 1; i < 4; i++ {
			s.Views = append(s.Views, v)
		}
		out = append(out, one("ts", s))
	}
	// Low-Latency: delta requested because the FIRST playlist advertised it, although later ones do not; hint disappears
	out = append(out, one("fmp4", selCorpusStream(0, "fmp4", "fail", 0, []selCorpusView{
		{msn: 0, n: 2, sc: "b1s1", hint: 0}, {msn: 0, n: 2, sc: "b1s0", hint: 1}, {msn: 1, n: 2, sc: "-", hint: 2}, {msn: 1, n: 2, sc: "b1s1", hint: nh}})))
	out = append(out, one("fmp4", selCorpusStream(0, "fmp4", "hold", 0, []selCorpusView{
		{msn: 0, n: 2, sc: "b1s0", hint: 0}, {msn: 0, n: 2, sc: "b1s1", hint: 1}, {msn: 1, n: 2, sc: "b1s1", hint: 2}})))
	// fix-F28: a Low-Latency stream ends — ENDLIST playlist without preload hint ⇒ ErrClientEOS
	out = append(out, one("fmp4", selCorpusStream(0, "fmp4", "fail", 0, []selCorpusView{
		{msn: 0, n: 2, sc: "b1s0", hint: 0}, {msn: 0, n: 2, sc: "b1s0", hint: 1}, {msn: 1, n: 2, sc: "b1s0", hint: 2},
		{msn: 1, n: 3, sc: "b1s0", end: true, hint: nh}, {msn: 1, n: 3, sc: "b1s0", end: true, hint: nh}})))
	// … the ENDLIST playlist still advertises a hint (it is fetched), the next one does not
	out = append(out, one("ts", selCorpusStream(0, "ts", "hold", 0, []selCorpusView{
		{msn: 4, n: 1, sc: "b1s1", hint: 0}, {msn: 4, n: 2, sc: "b1s1", end: true, hint: 1}, {msn: 4, n: 2, sc: "b1s1", end: true, hint: nh}})))
	// … two Low-Latency renditions ending at different polls
	{
		c := &selCase{HasCfg: true, Top: "multi", Cont: "fmp4", MURL: "http://origin.test/c/master.m3u8"}
		c.Streams = append(c.Streams, selCorpusStream(0, "fmp4", "fail", 0, []selCorpusView{
			{msn: 0, n: 2, sc: "b1s0", hint: 0}, {msn: 0, n: 2, sc: "b1s0", hint: 1}, {msn: 0, n: 2, sc: "b1s0", hint: 2}, {msn: 0, n: 3, sc: "b1s0", end: true, hint: nh}}))
		c.Streams = append(c.Streams, selCorpusStream(1, "fmp4", "fail", 0, []selCorpusView{
			{msn: 7, n: 2, sc: "b1s0", hint: 0}, {msn: 7, n: 3, sc: "b1s0", end: true, hint: nh}}))
		for _, s := range c.Streams {
			s.Raw = fmt.Sprintf("s%d/index.m3u8", s.ID)
		}
		out = append(out, c.ops())
	}
	// CAN-BLOCK-RELOAD without a hint and CAN-SKIP-UNTIL without blocking reload: traditional loop, never a delta
	out = append(out, one("ts", selCorpusStream(0, "ts", "fail", 0, []selCorpusView{
		{msn: 0, n: 3, sc: "b1s1", hint: nh}, {msn: 1, n: 3, sc: "b1s1", hint: nh}})))
	out = append(out, one("ts", selCorpusStream(0, "ts", "fail", 0, []selCorpusView{
		{msn: 0, n: 3, sc: "b0s1", hint: 0}, {msn: 1, n: 3, sc: "b0s1", hint: 1}})))
	// three streams: a VOD rendition that ends, a held rendition, the leading stream falls behind
	{
		c := &selCase{HasCfg: true, Top: "multi", Cont: "ts", MURL: "http://origin.test/c/master.m3u8"}
		c.Streams = append(c.Streams, selCorpusStream(0, "ts", "fail", 0, []selCorpusView{
			{msn: 0, n: 3, hint: nh}, {msn: 0, n: 4, hint: nh}, {msn: 0, n: 9, hint: nh}}))
		c.Streams = append(c.Streams, selCorpusStream(1, "ts", "hold", 1, []selCorpusView{
			{msn: 50, n: 3, hint: nh}, {msn: 51, n: 3, hint: nh}, {msn: 52, n: 3, hint: nh}}))
		c.Streams = append(c.Streams, selCorpusStream(2, "ts", "fail", 0, []selCorpusView{
			{msn: 9, n: 2, typ: "vod", end: true, hint: nh}, {msn: 9, n: 2, typ: "vod", end: true, hint: nh}}))
		for _, s := range c.Streams {
			s.Raw = fmt.Sprintf("s%d/index.m3u8", s.ID)
		}
		out = append(out, c.ops())
	}
	// every stream reaches the end: ErrClientEOS
	{
		c := &selCase{HasCfg: true, Top: "multi", Cont: "fmp4", MURL: "http://origin.test/c/master.m3u8"}
		c.Streams = append(c.Streams, selCorpusStream(0, "fmp4", "fail", 0, []selCorpusView{
			{msn: 0, n: 3, end: true, hint: nh}, {msn: 0, n: 3, end: true, hint: nh}, {msn: 0, n: 3, end: true, hint: nh}}))
		c.Streams = append(c.Streams, selCorpusStream(1, "fmp4", "fail", 2, []selCorpusView{
			{msn: 4, n: 2, typ: "vod", end: true, hint: nh}, {msn: 4, n: 2, typ: "vod", end: true, hint: nh}}))
		for _, s := range c.Streams {
			s.Raw = fmt.Sprintf("s%d/index.m3u8", s.ID)
		}
		out = append(out, c.ops())
	}
	return out
}
