package main

import (
	"bytes"
	"sort"
	"errors"
	"fmt"
	"math/big"
	"net/http"
	"net/http/httptest"
	"os"
	"strconv"
	"strings"
	"sync"
	"time"

	"github.com/bluenviron/gohlslib/v2"
	"github.com/bluenviron/gohlslib/v2/pkg/codecs"
	"github.com/bluenviron/mediacommon/v2/pkg/formats/fmp4"
	"github.com/bluenviron/mediacommon/v2/pkg/formats/mpegts"
)

// e2e slice (property C09): a REAL gohlslib.Client reads a REAL gohlslib.Muxer, in-process.
//
//   - The muxer is driven by the muxer slice's op lines (start/track/begin/w). The `w` ops are executed by the
//     goroutine that runs Step, paced in real time on the case's compressed time axis; their observation lines
//     (`started`, `w ok enc=N`) are exactly the muxer slice's, so the model driver drv_muxer replays the writes.
//   - 1-3 clients per case are started at the op indices named on the `start` line (cl= at= pl=). Their HTTPClient is
//     &http.Client{Transport: rt}; rt.RoundTrip runs muxer.Handle(httptest.NewRecorder(), req) in a goroutine and
//     honours req.Context().
//   - Everything client-side (tracks, per-track delivery log, Wait() class) goes to the DIRECT ORACLE
//     (e2e_oracle.go), written from the text of C09. A slow run is never a failure: the oracle judges what WAS
//     delivered (a contiguous run of the written units with the right bytes and times), not how much.

type e2eSlice struct{}

func init() { register(e2eSlice{}) }

func (e2eSlice) Name() string { return "e2e" }

type c9Track struct {
	codec string
	rate  int
	sr    int
	name  string
	lang  string
	def   bool
	bf    bool // video with frame reordering (e2e_bf.go): the `w` ops carry bf=<pattern index> and the extracted dts=
	track *gohlslib.Track
	aus   []*c9AU // every AU handed to Write*, in writing order
}

// c9AU: one access unit / audio AU / Opus packet as written.
type c9AU struct {
	track  int
	seq    int // position in the track's writing order
	pay    int
	call   int      // index of the `w` op
	j      int      // position inside the call
	tsec   *big.Rat // written DTS in seconds (exact)
	psec   *big.Rat // written PTS in seconds
	ntpNs  int64    // NTP written with the unit, ns since the epoch
	ra     bool
	pic    bool // H264: the unit contains a picture (otherwise the muxer absorbs it)
	ok     bool // Write* returned nil
	bytes  [][]byte
	segIdx int // leading-stream units: index of the segment the unit was stored in (oracle's C02 rule), -1 unknown
}

type c9ClientSpec struct {
	at int
	pl string // "mv" or "s<k>"
	ad int    // per mille of the pause before write `at` after which the client is started (0 = right after the previous write, 1000 = right before this one)
}

type c9Delivery struct {
	ids    []int
	same   bool // bytes identical to the written unit(s)
	pts    int64
	dts    *int64
	abs    *int64 // AbsoluteTime during the call-back, ns
	detail string
}

type c9Served struct {
	path   string
	status int
	empty  bool // fMP4 part/segment without a single sample; MPEG-TS segment in which a track of the PMT has no PES
	stream string // stream id of a media response ("" otherwise)
	pays   []int  // payload ids of the access units inside a media response (decoded by the harness with mediacommon)
	media  bool
	zero   bool // 200 with an empty body (a preload hint whose part was unregistered meanwhile: the placeholder finds no handler)
}

// c9DecodeMedia lists the payload ids carried by a served segment / part.
func (r *c9Runner) c9DecodeMedia(path string, body []byte) (stream string, pays []int, ok bool) {
	base := path
	if i := strings.LastIndexByte(base, '/'); i >= 0 {
		base = base[i+1:]
	}
	m := mxURIRe.FindStringSubmatch(base)
	if m == nil || m[3] == "init" {
		return "", nil, false
	}
	stream = m[2]
	if m[5] == "ts" {
		rd := &mpegts.Reader{R: bytes.NewReader(body)}
		if err := rd.Initialize(); err != nil {
			return stream, nil, false
		}
		rd.OnDecodeError(func(error) {})
		for _, t := range rd.Tracks() {
			switch t.Codec.(type) {
			case *mpegts.CodecH264:
				rd.OnDataH264(t, func(_, _ int64, au [][]byte) error { pays = append(pays, c9IDsOf("h264", au)...); return nil })
			case *mpegts.CodecMPEG4Audio:
				rd.OnDataMPEG4Audio(t, func(_ int64, aus [][]byte) error { pays = append(pays, c9IDsOf("aac", aus)...); return nil })
			}
		}
		for {
			if err := rd.Read(); err != nil {
				break
			}
		}
		return stream, pays, true
	}
	var ps fmp4.Parts
	if err := ps.Unmarshal(body); err != nil {
		return stream, nil, false
	}
	codec := ""
	for i, t := range r.tracks {
		if r.streamIDOf(i) == stream {
			codec = t.codec
		}
	}
	for _, p := range ps {
		for _, pt := range p.Tracks {
			for _, smp := range pt.Samples {
				var au [][]byte
				var err error
				switch codec {
				case "h264":
					au, err = smp.GetH264()
				case "h265":
					au, err = smp.GetH265()
				case "av1":
					au, err = smp.GetAV1()
				default:
					au = [][]byte{smp.Payload}
				}
				if err != nil {
					return stream, nil, false
				}
				pays = append(pays, c9IDsOf(codec, au)...)
			}
		}
	}
	return stream, pays, true
}

// c9TSLacksTrack: does an MPEG-TS segment lack data of one of the muxer's n tracks? (mediacommon's writer uses
// PID 256+i for track i; a PES starts in a packet with payload_unit_start_indicator.)
func c9TSLacksTrack(b []byte, n int) bool {
	seen := make([]bool, n)
	for off := 0; off+188 <= len(b); off += 188 {
		p := b[off : off+188]
		if p[0] != 0x47 {
			return false
		}
		pid := int(p[1]&0x1f)<<8 | int(p[2])
		if p[1]&0x40 != 0 && pid >= 256 && pid < 256+n {
			seen[pid-256] = true
		}
	}
	for _, s := range seen {
		if !s {
			return true
		}
	}
	return false
}

type c9ClientRun struct {
	spec    c9ClientSpec
	idx     int
	cl      *gohlslib.Client
	mu      sync.Mutex
	called  bool
	tracks  []*gohlslib.Track
	logs    [][]c9Delivery
	last    time.Time
	end     string
	ended   chan struct{}
	served  []c9Served
	mvText  string
	decErrs []string
}

type c9Runner struct {
	variant   string
	segCount  int
	segMin    int64
	partMin   int64
	maxSize   uint64
	useDir    bool
	dir       string
	ntpJitter bool
	skip      int // number of initial `w` ops executed without pacing (the long first segment)
	tracks    []*c9Track
	specs     []c9ClientSpec
	m         *gohlslib.Muxer
	started   bool
	closed    bool
	encErrs   int
	wIdx      int
	haveT0    bool
	t0        time.Time
	m0        *big.Rat
	mu        sync.Mutex // guards byPay (written by the writer, read by client call-backs)
	byPay     map[int]*c9AU
	runs      []*c9ClientRun
	lastWrite time.Time
	fails     []string
	evaluated bool
	linChecked, linExact bool
	linC                 *big.Rat // NTP − DTS of the leading track's units, ns (when exactly linear)
	idle      bool // the clients were closed after their delivery logs had stopped growing (not at the deadline)
	maxSeg    *big.Rat // longest segment of the paced part of the case, seconds (oracle)
	stats     []string
}

func (e2eSlice) NewRunner() Runner { return &c9Runner{byPay: map[int]*c9AU{}} }

func (r *c9Runner) failf(format string, a ...any) {
	if len(r.fails) < 12 {
		r.fails = append(r.fails, "C09 "+fmt.Sprintf(format, a...))
	}
}

func (r *c9Runner) Step(line string) []string {
	ws := strings.Fields(line)
	if len(ws) == 0 {
		return nil
	}
	a := kvs(ws[1:])
	switch ws[0] {
	case "start":
		r.variant = a["v"]
		r.segCount = int(atoi64(a["segcount"]))
		r.segMin = atoi64(a["segmin"])
		r.partMin = atoi64(a["partmin"])
		r.maxSize = uint64(atoi64(a["maxsize"]))
		r.useDir = a["dir"] == "1"
		r.skip = int(atoi64(a["skip"]))
		n := int(atoi64(a["cl"]))
		ats := strings.Split(a["at"], ",")
		pls := strings.Split(a["pl"], ",")
		ads := strings.Split(a["ad"], ",")
		for i := 0; i < n && i < len(ats) && i < len(pls); i++ {
			sp := c9ClientSpec{at: int(atoi64(ats[i])), pl: pls[i], ad: 1000}
			if i < len(ads) && ads[i] != "" {
				sp.ad = int(atoi64(ads[i]))
			}
			r.specs = append(r.specs, sp)
		}
		return nil
	case "track":
		t := &c9Track{codec: a["codec"], rate: int(atoi64(a["rate"])), sr: int(atoi64(a["sr"])), name: a["name"], lang: a["lang"], def: a["def"] == "1", bf: a["bf"] == "1"}
		if t.name == "-" {
			t.name = ""
		}
		if t.lang == "-" {
			t.lang = ""
		}
		r.tracks = append(r.tracks, t)
		return nil
	case "begin":
		return []string{r.begin()}
	case "w":
		return []string{r.write(a)}
	}
	return []string{"bad-op"}
}

func (r *c9Runner) begin() string {
	m := &gohlslib.Muxer{
		SegmentCount:       r.segCount,
		SegmentMinDuration: time.Duration(r.segMin),
		PartMinDuration:    time.Duration(r.partMin),
		SegmentMaxSize:     r.maxSize,
		OnEncodeError:      func(error) { r.encErrs++ },
	}
	switch r.variant {
	case "ts":
		m.Variant = gohlslib.MuxerVariantMPEGTS
	case "fmp4":
		m.Variant = gohlslib.MuxerVariantFMP4
	default:
		m.Variant = gohlslib.MuxerVariantLowLatency
	}
	for _, t := range r.tracks {
		switch t.codec {
		case "h264", "h265", "vp9", "av1", "aac", "opus":
		default:
			return "bad-op"
		}
		t.track = &gohlslib.Track{Codec: c9CodecOfBf(t.codec, t.sr, t.bf), ClockRate: t.rate, Name: t.name, Language: t.lang, IsDefault: t.def}
		m.Tracks = append(m.Tracks, t.track)
	}
	if r.useDir {
		d, err := os.MkdirTemp("", "verif-e2e-")
		if err != nil {
			panic(err)
		}
		r.dir = d
		m.Directory = d
	}
	if err := m.Start(); err != nil {
		return "starterr " + mxStartErrClass(err.Error())
	}
	r.m = m
	r.started = true
	r.segCount = m.SegmentCount
	r.segMin = int64(m.SegmentMinDuration)
	r.partMin = int64(m.PartMinDuration)
	r.startClients() // clients attached before any data
	return "started"
}

func (r *c9Runner) startClients() {
	for i, s := range r.specs {
		if s.at == r.wIdx && !r.clientStarted(i) {
			r.runs = append(r.runs, r.newClient(i, s))
		}
	}
}

func (r *c9Runner) clientStarted(i int) bool {
	for _, c := range r.runs {
		if c.idx == i {
			return true
		}
	}
	return false
}

func ratOf(num, den int64) *big.Rat { return new(big.Rat).SetFrac64(num, den) }

func (r *c9Runner) write(a map[string]string) string {
	if !r.started || r.closed {
		return "bad-op"
	}
	ti := int(atoi64(a["t"]))
	if ti < 0 || ti >= len(r.tracks) {
		return "bad-op"
	}
	t := r.tracks[ti]
	pts := atoi64(a["pts"])
	ntpMs := atoi64(a["ntp"])
	ntp := mxInZone(ntpMs)
	ra, pic, par := a["ra"] == "1", a["pic"] == "1", int(atoi64(a["par"]))
	pays := intsOf(a["pays"])
	fill := int(atoi64(a["fill"]))
	tocs := intsOf(a["tocs"])
	durs := intsOf(a["durs"])
	if len(pays) == 0 || (t.codec == "opus" && (len(tocs) != len(pays) || len(durs) != len(pays))) {
		return "bad-op"
	}

	dts := pts
	if _, ok := a["dts"]; ok && isVideoCodec(t.codec) {
		dts = atoi64(a["dts"]) // what the muxer's DTS extractor will choose (computed by the generator's own instance)
	}
	// real-time pacing on the case's time axis (decode times)
	psecAll := ratOf(pts, int64(t.rate))
	msec := ratOf(dts, int64(t.rate))
	now := time.Now()
	if r.wIdx < r.skip {
		// unpaced
	} else if !r.haveT0 {
		r.haveT0, r.t0, r.m0 = true, now, msec
	} else {
		d := new(big.Rat).Sub(msec, r.m0)
		f, _ := d.Float64()
		due := r.t0.Add(time.Duration(f * 1e9))
		if w := due.Sub(now); w > 150*time.Microsecond {
			if w > 2*time.Second { // replayed / shrunk cases may have holes in the time axis
				w = 2 * time.Second
				r.t0 = r.t0.Add(-(due.Sub(now) - w))
			}
			// clients attached at this index start somewhere inside the pause (`ad` per mille of it)
			type pend struct{ i, ad int }
			var ps []pend
			for i, s := range r.specs {
				if s.at == r.wIdx && !r.clientStarted(i) && s.ad < 1000 {
					ps = append(ps, pend{i, s.ad})
				}
			}
			sort.Slice(ps, func(a, b int) bool { return ps[a].ad < ps[b].ad })
			start := time.Now()
			for _, p := range ps {
				if d := time.Duration(int64(w) * int64(p.ad) / 1000); time.Since(start) < d {
					time.Sleep(d - time.Since(start))
				}
				r.runs = append(r.runs, r.newClient(p.i, r.specs[p.i]))
			}
			if rest := w - time.Since(start); rest > 0 {
				time.Sleep(rest)
			}
		}
	}
	r.startClients()

	units := c9UnitBytes(t.codec, r.variant, ra, pic, par, pays, fill, tocs)
	if t.bf {
		units = [][][]byte{bfBuildAUFor(t.codec, par, int(atoi64(a["bf"])), int(pays[0]))}
	}
	var recs []*c9AU
	r.mu.Lock()
	off := new(big.Rat)
	for j, p := range pays {
		u := &c9AU{track: ti, seq: len(t.aus), pay: int(p), call: r.wIdx, j: j, ra: ra, pic: pic || ra || t.codec != "h264", bytes: units[j], segIdx: -1}
		u.tsec = new(big.Rat).Add(msec, off)
		u.psec = new(big.Rat).Add(psecAll, off)
		offNs, _ := new(big.Rat).Mul(off, ratOf(1000000000, 1)).Float64()
		u.ntpNs = ntpMs*1000000 + int64(offNs)
		switch t.codec {
		case "aac":
			off = new(big.Rat).Add(off, ratOf(1024, int64(t.sr)))
		case "opus":
			off = new(big.Rat).Add(off, ratOf(durs[j], 48000))
		}
		t.aus = append(t.aus, u)
		r.byPay[u.pay] = u
		recs = append(recs, u)
	}
	r.mu.Unlock()

	var err error
	switch t.codec {
	case "h264":
		err = r.m.WriteH264(t.track, ntp, pts, units[0])
	case "h265":
		err = r.m.WriteH265(t.track, ntp, pts, units[0])
	case "vp9":
		err = r.m.WriteVP9(t.track, ntp, pts, units[0][0])
	case "av1":
		err = r.m.WriteAV1(t.track, ntp, pts, units[0])
	case "aac":
		var aus [][]byte
		for _, u := range units {
			aus = append(aus, u[0])
		}
		err = r.m.WriteMPEG4Audio(t.track, ntp, pts, aus)
	case "opus":
		var pk [][]byte
		for _, u := range units {
			pk = append(pk, u[0])
		}
		err = r.m.WriteOpus(t.track, ntp, pts, pk)
	}
	r.mu.Lock()
	for _, u := range recs {
		u.ok = err == nil
	}
	r.mu.Unlock()
	r.wIdx++
	r.lastWrite = time.Now()
	if err != nil {
		return fmt.Sprintf("w err enc=%d", r.encErrs)
	}
	return fmt.Sprintf("w ok enc=%d", r.encErrs)
}

// ---------------------------------------------------------------------------------------------
// in-process transport

type c9Transport struct {
	r   *c9Runner
	run *c9ClientRun
}

func (t *c9Transport) RoundTrip(req *http.Request) (*http.Response, error) {
	rec := httptest.NewRecorder()
	done := make(chan struct{})
	go func() {
		defer close(done)
		defer func() { recover() }() //nolint:errcheck
		t.r.m.Handle(rec, req)
	}()
	select {
	case <-done:
	case <-req.Context().Done():
		return nil, req.Context().Err()
	}
	res := rec.Result()
	res.Request = req
	sv := c9Served{path: req.URL.Path, status: res.StatusCode}
	body := rec.Body.Bytes()
	if res.StatusCode == 200 && strings.HasSuffix(req.URL.Path, ".mp4") && !strings.Contains(req.URL.Path, "_init") {
		var ps fmp4.Parts
		if err := ps.Unmarshal(body); err == nil {
			n := 0
			for _, p := range ps {
				for _, pt := range p.Tracks {
					n += len(pt.Samples)
				}
			}
			sv.empty = n == 0 && len(body) > 0
		}
		sv.zero = len(body) == 0
	}
	if res.StatusCode == 200 && strings.HasSuffix(req.URL.Path, ".ts") {
		sv.empty = c9TSLacksTrack(body, len(t.r.tracks)) && len(body) > 0
		sv.zero = len(body) == 0
	}
	if res.StatusCode == 200 {
		sv.stream, sv.pays, sv.media = t.r.c9DecodeMedia(req.URL.Path, body)
	}
	t.run.mu.Lock()
	if strings.HasSuffix(req.URL.Path, "/index.m3u8") && res.StatusCode == 200 {
		t.run.mvText = string(body)
	}
	if len(t.run.served) < 4000 {
		t.run.served = append(t.run.served, sv)
	}
	t.run.mu.Unlock()
	return res, nil
}

// ---------------------------------------------------------------------------------------------
// the real client

func c9ErrClass(err error) string {
	if err == nil {
		return "nil"
	}
	if errors.Is(err, gohlslib.ErrClientEOS) {
		return "eos"
	}
	s := err.Error()
	switch {
	case strings.Contains(s, "next segment not found"):
		return "ran-out" // the writer stopped (or fell behind): the next segment is not listed
	case strings.Contains(s, "aren't enough segments"):
		return "too-early" // fewer than three segments listed when the client attached
	case strings.Contains(s, "playback is too late"):
		return "too-late"
	case strings.Contains(s, "bad status code: 404"):
		return "gone" // the segment left the window before the (slow) client fetched it
	case strings.Contains(s, "terminated"), strings.Contains(s, "context canceled"):
		return "closed"
	case strings.Contains(s, "TARGETDURATION not set"):
		return "err:targetduration0"
	case strings.Contains(s, "no variants with supported codecs"):
		return "err:no-supported-variant"
	case strings.Contains(s, "could not find data of leading track"):
		return "err:noleading"
	case strings.Contains(s, "astits: no more packets"):
		return "err:ts-init" // mediacommon's MPEG-TS reader could not initialise on the first downloaded segment
	case strings.Contains(s, "bad status code: 500"):
		// disk storage: the handler of a part/segment was looked up, then the segment left the window and its file
		// was removed before the handler opened it (slow client; the RAM storage answers 404 in the same situation)
		return "gone"
	}
	return "err:other:" + strings.ReplaceAll(s, " ", "_")
}

func (r *c9Runner) streamIDOf(k int) string {
	if r.variant == "ts" {
		return "main"
	}
	if k < 0 || k >= len(r.tracks) {
		return "nostream"
	}
	if isVideoCodec(r.tracks[k].codec) {
		return "video" + strconv.Itoa(k+1)
	}
	return "audio" + strconv.Itoa(k+1)
}

func c9Kind(c codecs.Codec) string {
	switch c.(type) {
	case *codecs.H264:
		return "h264"
	case *codecs.H265:
		return "h265"
	case *codecs.VP9:
		return "vp9"
	case *codecs.AV1:
		return "av1"
	case *codecs.MPEG4Audio:
		return "aac"
	case *codecs.Opus:
		return "opus"
	}
	return "?"
}

func (r *c9Runner) newClient(idx int, spec c9ClientSpec) *c9ClientRun {
	run := &c9ClientRun{spec: spec, idx: idx, ended: make(chan struct{}), last: time.Now()}
	uri := "http://verif.invalid/index.m3u8"
	if spec.pl != "mv" {
		uri = "http://verif.invalid/" + r.streamIDOf(int(atoi64(strings.TrimPrefix(spec.pl, "s")))) + "_stream.m3u8"
	}
	var cl *gohlslib.Client
	logf := func(i int, track *gohlslib.Track, kind string, data [][]byte, pts int64, dts *int64) {
		d := c9Delivery{pts: pts, dts: dts, same: true}
		if t, ok := cl.AbsoluteTime(track); ok {
			v := t.UnixNano()
			d.abs = &v
		}
		d.ids = c9IDsOf(kind, data)
		// byte identity with what the harness wrote
		r.mu.Lock()
		switch kind {
		case "aac", "opus":
			for k, id := range d.ids {
				u := r.byPay[id]
				if u == nil || !bytes.Equal(u.bytes[0], data[k]) {
					d.same = false
				}
			}
		default:
			if len(d.ids) != 1 {
				d.same = false
				d.detail = fmt.Sprintf("%d pictures in one unit", len(d.ids))
			} else if u := r.byPay[d.ids[0]]; u == nil || !c9SameAU(kind, u.bytes, data) {
				d.same = false
			}
		}
		r.mu.Unlock()
		if !d.same && d.detail == "" {
			d.detail = fmt.Sprintf("delivered %x", data)
			if len(d.detail) > 200 {
				d.detail = d.detail[:200] + "…"
			}
		}
		run.mu.Lock()
		run.logs[i] = append(run.logs[i], d)
		run.last = time.Now()
		run.mu.Unlock()
	}
	cl = &gohlslib.Client{
		URI:                       uri,
		HTTPClient:                &http.Client{Transport: &c9Transport{r: r, run: run}},
		OnDownloadPrimaryPlaylist: func(string) {},
		OnDownloadStreamPlaylist:  func(string) {},
		OnDownloadSegment:         func(string) {},
		OnDownloadPart:            func(string) {},
		OnDecodeError: func(err error) {
			run.mu.Lock()
			run.decErrs = append(run.decErrs, err.Error())
			run.mu.Unlock()
		},
		OnTracks: func(tracks []*gohlslib.Track) error {
			run.mu.Lock()
			run.called = true
			run.tracks = tracks
			run.logs = make([][]c9Delivery, len(tracks))
			run.last = time.Now()
			run.mu.Unlock()
			for i, t := range tracks {
				i, t := i, t
				kind := c9Kind(t.Codec)
				switch t.Codec.(type) {
				case *codecs.H264, *codecs.H265:
					cl.OnDataH26x(t, func(pts int64, dts int64, au [][]byte) { d := dts; logf(i, t, kind, au, pts, &d) })
				case *codecs.VP9:
					cl.OnDataVP9(t, func(pts int64, frame []byte) { logf(i, t, kind, [][]byte{frame}, pts, nil) })
				case *codecs.AV1:
					cl.OnDataAV1(t, func(pts int64, tu [][]byte) { logf(i, t, kind, tu, pts, nil) })
				case *codecs.MPEG4Audio:
					cl.OnDataMPEG4Audio(t, func(pts int64, aus [][]byte) { logf(i, t, kind, aus, pts, nil) })
				case *codecs.Opus:
					cl.OnDataOpus(t, func(pts int64, pk [][]byte) { logf(i, t, kind, pk, pts, nil) })
				}
			}
			return nil
		},
	}
	run.cl = cl
	if err := cl.Start(); err != nil {
		run.end = "start:" + err.Error()
		close(run.ended)
		return run
	}
	go func() {
		err := <-cl.Wait()
		run.mu.Lock()
		run.end = c9ErrClass(err)
		run.mu.Unlock()
		close(run.ended)
	}()
	return run
}

func (run *c9ClientRun) isEnded() bool {
	select {
	case <-run.ended:
		return true
	default:
		return false
	}
}

// finish: the writer is done. Wait until every client has ended by itself or its delivery log stopped growing,
// then Close the clients and the muxer (clients first: a request parked inside the muxer is abandoned through
// its context before the muxer is closed).
func (r *c9Runner) finish() {
	if r.closed {
		return
	}
	r.closed = true
	if r.started {
		// clients whose attach point lies at/after the last write
		for i, s := range r.specs {
			if !r.clientStarted(i) && s.at >= r.wIdx {
				r.runs = append(r.runs, r.newClient(i, s))
			}
		}
	}
	quiet := 120 * time.Millisecond
	if q := time.Duration(6 * r.segMin); q > quiet {
		quiet = q
	}
	if quiet > 400*time.Millisecond {
		quiet = 400 * time.Millisecond
	}
	start := time.Now()
	deadline := start.Add(4 * time.Second)
	for time.Now().Before(deadline) {
		all := true
		latest := r.lastWrite
		if latest.Before(start) {
			latest = start
		}
		for _, c := range r.runs {
			if !c.isEnded() {
				all = false
			}
			c.mu.Lock()
			if c.last.After(latest) {
				latest = c.last
			}
			c.mu.Unlock()
		}
		if all || time.Since(latest) > quiet {
			r.idle = true
			break
		}
		time.Sleep(4 * time.Millisecond)
	}
	for _, c := range r.runs {
		if c.cl == nil {
			continue
		}
		if !c.isEnded() {
			c.cl.Close()
			select {
			case <-c.ended:
				c.mu.Lock()
				if c.end == "closed" || strings.HasPrefix(c.end, "err:other:") {
					c.end = "closed"
				}
				c.mu.Unlock()
			case <-time.After(5 * time.Second):
				c.mu.Lock()
				c.end = "close-timeout"
				c.mu.Unlock()
			}
		} else {
			c.cl.Close()
		}
	}
	if r.m != nil && r.started {
		done := make(chan struct{})
		go func() { r.m.Close(); close(done) }()
		select {
		case <-done:
		case <-time.After(5 * time.Second):
			r.failf("harness: Muxer.Close did not return within 5 s")
		}
	}
	if r.dir != "" {
		os.RemoveAll(r.dir)
	}
}

func (r *c9Runner) Oracle() []string {
	if !r.evaluated {
		r.evaluated = true
		r.finish()
		if r.started {
			r.evaluate()
		}
	}
	out := r.fails
	if len(out) > 6 {
		out = out[:6]
	}
	return out
}

func (r *c9Runner) Close() { r.finish() }
