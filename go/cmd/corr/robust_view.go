package main

import (
	"bytes"
	"errors"
	"fmt"
	"net/url"
	"regexp"
	"strconv"
	"strings"

	"github.com/asticode/go-astits"

	"github.com/bluenviron/gohlslib/v2/pkg/playlist"
	"github.com/bluenviron/mediacommon/v2/pkg/formats/fmp4"
	"github.com/bluenviron/mediacommon/v2/pkg/formats/mpegts"
)

// Decoded views of served bytes: what mediacommon's own decoders and playlist.Unmarshal (property C15) make of
// them. No client logic here. A decoder that panics is an upstream finding: the view says `upanic`.

var errRbUpstream = errors.New("upstream panic")

func rbGuard(f func() error) (err error, trace string) {
	defer func() {
		if e := recover(); e != nil {
			err = errRbUpstream
			trace = fmt.Sprintf("%v", e)
		}
	}()
	return f(), ""
}

func rbKind(c any) string {
	s := fmt.Sprintf("%T", c)
	if i := strings.LastIndex(s, ".Codec"); i >= 0 {
		return s[i+len(".Codec"):]
	}
	return s
}

// rbViewInit: ok | err | upanic
func rbViewInit(b []byte) (string, []rbTrack) {
	var in fmp4.Init
	err, _ := rbGuard(func() error { return in.Unmarshal(bytes.NewReader(b)) })
	if err == errRbUpstream {
		return "upanic", nil
	}
	if err != nil {
		return "err", nil
	}
	var ts []rbTrack
	for _, t := range in.Tracks {
		k := "nil"
		if t.Codec != nil {
			k = rbKind(t.Codec)
		}
		ts = append(ts, rbTrack{id: int64(t.ID), rate: int64(t.TimeScale), kind: k})
	}
	return "ok", ts
}

func rbViewParts(b []byte) rbFile {
	var ps fmp4.Parts
	err, _ := rbGuard(func() error { return ps.Unmarshal(b) })
	if err == errRbUpstream {
		return rbFile{kind: "upanic"}
	}
	if err != nil {
		return rbFile{kind: "bad"}
	}
	f := rbFile{kind: "parts", nparts: len(ps)}
	for k, p := range ps {
		for _, pt := range p.Tracks {
			v := rbPT{part: k, id: int64(pt.ID), base: int64(pt.BaseTime)}
			for _, s := range pt.Samples {
				x := rbSample{dur: int64(s.Duration), off: int64(s.PTSOffset)}
				s := s
				for _, d := range []struct {
					name string
					f    func() error
				}{
					{"GetAV1", func() error { _, e := s.GetAV1(); return e }},
					{"GetH264", func() error { _, e := s.GetH264(); return e }},
					{"GetH265", func() error { _, e := s.GetH265(); return e }},
				} {
					if e, _ := rbGuard(d.f); e != nil {
						if e == errRbUpstream {
							return rbFile{kind: "upanic"}
						}
						x.bad = append(x.bad, d.name)
					}
				}
				v.smp = append(v.smp, x)
			}
			f.pts = append(f.pts, v)
		}
	}
	return f
}

// rbViewTS decodes the files of one MPEG-TS stream in download order with ONE reader (as the client does) and
// returns one view per file index; files outside `order` get kind=bad (they are never downloaded).
func rbViewTS(files map[int][]byte, nfiles int, order []int) []rbFile {
	out := make([]rbFile, nfiles)
	for i := range out {
		out[i] = rbFile{kind: "bad"}
	}
	if len(order) == 0 {
		return out
	}
	first := order[0]
	sw := &swReader{bytes.NewReader(files[first])}
	rd := &mpegts.Reader{R: sw}
	err, _ := rbGuard(func() error { return rd.Initialize() })
	if err == errRbUpstream {
		out[first] = rbFile{kind: "upanic"}
		return out
	}
	if err != nil {
		return out
	}
	cur := first
	rd.OnDecodeError(func(error) { out[cur].tis = append(out[cur].tis, rbTI{de: true}) })
	var kinds []string
	for ti, t := range rd.Tracks() {
		ti := ti
		kinds = append(kinds, rbKind(t.Codec))
		switch t.Codec.(type) {
		case *mpegts.CodecH264:
			rd.OnDataH264(t, func(pts, dts int64, _ [][]byte) error {
				out[cur].tis = append(out[cur].tis, rbTI{t: ti, pts: pts, dts: dts})
				return nil
			})
		case *mpegts.CodecMPEG4Audio:
			rd.OnDataMPEG4Audio(t, func(pts int64, _ [][]byte) error {
				out[cur].tis = append(out[cur].tis, rbTI{t: ti, pts: pts, dts: pts})
				return nil
			})
		}
	}
	for k, i := range order {
		if i < 0 || i >= nfiles {
			break
		}
		cur = i
		out[i] = rbFile{kind: "ts"}
		if k == 0 {
			out[i].kinds = kinds
		} else {
			sw.r = bytes.NewReader(files[i])
		}
		bad := false
		for {
			err, _ := rbGuard(func() error { return rd.Read() })
			if err == errRbUpstream {
				out[i] = rbFile{kind: "upanic"}
				return out
			}
			if err != nil {
				if !errors.Is(err, astits.ErrNoMorePackets) {
					bad = true
				}
				break
			}
		}
		if bad {
			// the client returns this error from processSegment: the segment is unusable as a whole
			out[i] = rbFile{kind: "bad", kinds: out[i].kinds}
			return out
		}
	}
	return out
}

var rbFileRe = regexp.MustCompile(`^/s(\d+)_f(\d+)\.[a-z0-9]+$`)

type rbResolver struct {
	stream int
	served map[string]bool
	base   *url.URL
	// set when a URI leads somewhere the view cannot express (another stream's file, a playlist, a byte range)
	inexpressible bool
}

func (r *rbResolver) file(uri string) int {
	u, err := url.Parse(uri)
	if err != nil {
		// the client fails in clientAbsoluteURL: same class as a failed request
		return -1
	}
	p := r.base.ResolveReference(u)
	if p.Host != r.base.Host || p.Scheme != r.base.Scheme {
		return -1
	}
	if !r.served[p.Path] {
		return -1
	}
	m := rbFileRe.FindStringSubmatch(p.Path)
	if m == nil {
		r.inexpressible = true
		return -1
	}
	s, _ := strconv.Atoi(m[1])
	i, _ := strconv.Atoi(m[2])
	if s != r.stream {
		r.inexpressible = true
		return -1
	}
	return i
}

// rbViewMediaPlaylist: view of one answer to a stream-playlist request; mapPath = where the Map URI leads ("" none).
func rbViewMediaPlaylist(b []byte, seq int, rs *rbResolver) (rbPl, string) {
	v := rbPl{seq: seq, r: "bad", mapv: "none", sc: "none", hint: "none"}
	var pl playlist.Playlist
	err, _ := rbGuard(func() error {
		var e error
		pl, e = playlist.Unmarshal(b)
		return e
	})
	if err == errRbUpstream {
		v.r = "upanic"
		return v, ""
	}
	if err != nil {
		return v, ""
	}
	m, ok := pl.(*playlist.Media)
	if !ok {
		v.r = "notmedia"
		return v, ""
	}
	v.r = "media"
	mapPath := ""
	if m.Map != nil {
		if m.Map.URI == "" {
			v.mapv = "empty"
		} else {
			v.mapv = "uri"
			if m.Map.ByteRangeLength != nil {
				rs.inexpressible = true
			}
			if u, err := url.Parse(m.Map.URI); err == nil {
				mapPath = rs.base.ResolveReference(u).Path
			} else {
				mapPath = "?"
			}
		}
	}
	v.vod = m.PlaylistType != nil && *m.PlaylistType == playlist.MediaPlaylistTypeVOD
	v.msn = int64(m.MediaSequence)
	v.end = m.Endlist
	if m.ServerControl != nil {
		v.sc = fmt.Sprintf("b%ds%d", b2i(m.ServerControl.CanBlockReload), b2i(m.ServerControl.CanSkipUntil != nil))
	}
	if m.PreloadHint != nil {
		if m.PreloadHint.ByteRangeLength != nil {
			rs.inexpressible = true
		}
		if i := rs.file(m.PreloadHint.URI); i >= 0 {
			v.hint = strconv.Itoa(i)
		} else {
			v.hint = "x"
		}
	}
	for _, sg := range m.Segments {
		ref := rbSegRef{file: rs.file(sg.URI)}
		if sg.ByteRangeLength != nil {
			rs.inexpressible = true
		}
		if sg.DateTime != nil {
			t := sg.DateTime.UnixNano()
			ref.pdt = &t
		}
		v.segs = append(v.segs, ref)
	}
	return v, mapPath
}

// rbPrimaryKind: bad | media | multi | upanic
func rbPrimaryKind(b []byte) string {
	var pl playlist.Playlist
	err, _ := rbGuard(func() error {
		var e error
		pl, e = playlist.Unmarshal(b)
		return e
	})
	if err == errRbUpstream {
		return "upanic"
	}
	if err != nil {
		return "bad"
	}
	if _, ok := pl.(*playlist.Media); ok {
		return "media"
	}
	return "multi"
}

func rbPlaylistPath(c *rbCase, s int) string {
	if c.prim != "multi" && s == 0 {
		return "/index.m3u8"
	}
	return fmt.Sprintf("/s%d.m3u8", s)
}

// rbDeriveViews fills c.streams[*] (init, tracks, pls, files) from c.hex; streams' `order` must be set already.
// Returns false when something served cannot be expressed as a view (the case must then be compared as `robust`).
func rbDeriveViews(c *rbCase) (expressible bool, upstream bool) {
	expressible = true
	served := map[string]bool{}
	bodies := map[string][][]byte{}
	for _, h := range c.hex {
		served[h.name] = true
		for len(bodies[h.name]) <= h.seq {
			bodies[h.name] = append(bodies[h.name], nil)
		}
		bodies[h.name][h.seq] = h.data
	}
	for s, st := range c.streams {
		st.init, st.tracks, st.pls, st.files = "none", nil, nil, nil
		path := rbPlaylistPath(c, s)
		base, _ := url.Parse("http://verif.invalid" + path)
		rs := &rbResolver{stream: s, served: served, base: base}
		mapPath := ""
		for k, b := range bodies[path] {
			v, mp := rbViewMediaPlaylist(b, k, rs)
			if v.r == "upanic" {
				upstream = true
			}
			if k == 0 {
				mapPath = mp
			}
			st.pls = append(st.pls, v)
		}
		if len(st.pls) == 0 {
			st.pls = append(st.pls, rbPl{seq: 0, r: "bad", mapv: "none", sc: "none", hint: "none"})
		}
		isFMP4 := st.pls[0].r == "media" && st.pls[0].mapv == "uri"
		if isFMP4 {
			switch {
			case mapPath == fmt.Sprintf("/s%d_init.mp4", s) && served[mapPath]:
				st.init, st.tracks = rbViewInit(bodies[mapPath][0])
				if st.init == "upanic" {
					upstream = true
				}
			case !served[mapPath]:
				st.init = "missing"
			default:
				st.init = "missing"
				expressible = false
			}
		}
		// files of the stream
		files := map[int][]byte{}
		n := 0
		for name, bs := range bodies {
			if m := rbFileRe.FindStringSubmatch(name); m != nil {
				si, _ := strconv.Atoi(m[1])
				i, _ := strconv.Atoi(m[2])
				if si == s {
					files[i] = bs[0]
					if i+1 > n {
						n = i + 1
					}
				}
			}
		}
		if isFMP4 {
			for i := 0; i < n; i++ {
				b, ok := files[i]
				if !ok {
					st.files = append(st.files, rbFile{kind: "bad"})
					continue
				}
				f := rbViewParts(b)
				if f.kind == "upanic" {
					upstream = true
				}
				st.files = append(st.files, f)
			}
		} else {
			st.files = rbViewTS(files, n, st.order)
			for _, f := range st.files {
				if f.kind == "upanic" {
					upstream = true
				}
			}
		}
		if rs.inexpressible {
			expressible = false
		}
	}
	return expressible, upstream
}
