package main

import (
	"fmt"
	"math/rand"
	"sort"
	"strconv"
	"strings"
)

// Generator of muxer cases: configuration + interleaved, well-formed write sequences
// (plus a low-weight malformed stream), with snapshots and LL requests in between.

type genTrack struct {
	codec   string
	rate    int
	sr      int
	frame   int64 // nominal ticks between units
	nextPTS int64
	gop     int // video: key-frame spacing (frames)
	count   int
	par     int
	started bool
	bf      bool    // H264 with frame reordering (muxer_bframes.go)
	bfPTS   []int64 // planned presentation / decode times of the pattern
	bfDTS   []int64
	// the generator's own estimate of where the open segment of a video track began (boundary mode)
	segStart int64
	segKnown bool
	auSince  int // audio-only MPEG-TS: access units written since the estimated segment start
}

func (muxerSlice) Corpus() [][]string {
	return nil
}

func (muxerSlice) Gen(r *rand.Rand, _ int, tier string) ([]string, []string) {
	var ops []string
	var tags []string
	variant := []string{"ts", "fmp4", "ll", "ll"}[r.Intn(4)]
	tags = append(tags, "v="+variant)

	// ---- tracks
	var tracks []*genTrack
	mkVideo := func() *genTrack {
		codec := "h264"
		if variant != "ts" {
			switch r.Intn(9) {
			case 0:
				codec = "vp9"
			case 1:
				codec = "av1"
			case 2:
				codec = "h265"
			}
		}
		fr := []int64{9000, 6000, 3600, 3000, 3003, 1800, 1500, 90000, 750}[r.Intn(9)]
		rate := 90000
		if variant == "ts" && r.Intn(5) == 0 {
			// MPEG-TS accepts any ClockRate (timestamps are converted to 90 kHz): a microsecond clock reaches durations
			// that no 90 kHz stream can (e.g. a few us below a whole second)
			rate = []int{1000000, 1000, 240000}[r.Intn(3)]
			fr = fr * int64(rate) / 90000
			if fr == 0 {
				fr = 1
			}
		}
		return &genTrack{codec: codec, rate: rate, frame: fr, gop: 1 + r.Intn(12), par: 1}
	}
	mkAudio := func() *genTrack {
		if variant != "ts" && r.Intn(3) == 0 {
			return &genTrack{codec: "opus", rate: 48000, sr: 0, frame: 960}
		}
		sr := []int{44100, 48000, 32000, 8000, 96000}[r.Intn(5)]
		return &genTrack{codec: "aac", rate: sr, sr: sr, frame: 1024}
	}
	malformedCfg := r.Intn(25) == 0
	switch {
	case malformedCfg:
		switch r.Intn(5) {
		case 0: // no tracks
		case 1:
			tracks = append(tracks, mkVideo(), mkVideo())
		case 2:
			tracks = append(tracks, mkAudio(), mkAudio(), mkVideo(), mkVideo())
		case 3:
			variant = "ts"
			tracks = append(tracks, mkAudio(), &genTrack{codec: "aac", rate: 44100, sr: 44100, frame: 1024})
		default:
			variant = "ts"
			tracks = append(tracks, &genTrack{codec: "opus", rate: 48000, frame: 960})
		}
		tags = append(tags, "cfg=malformed")
	case variant == "ts":
		switch r.Intn(4) {
		case 0:
			tracks = append(tracks, mkVideo())
		case 1:
			tracks = append(tracks, mkAudio())
		case 2:
			tracks = append(tracks, mkVideo(), mkAudio())
		default:
			tracks = append(tracks, mkAudio(), mkVideo())
		}
	default:
		nAudio := r.Intn(4)
		hasVideo := r.Intn(5) != 0
		if !hasVideo && nAudio == 0 {
			nAudio = 1
		}
		for i := 0; i < nAudio; i++ {
			tracks = append(tracks, mkAudio())
		}
		if hasVideo {
			pos := r.Intn(len(tracks) + 1)
			tracks = append(tracks[:pos], append([]*genTrack{mkVideo()}, tracks[pos:]...)...)
		}
	}
	for _, t := range tracks {
		if t.codec == "aac" && variant == "ts" {
			t.sr = t.rate
		}
	}
	segCount := 3 + r.Intn(4)
	if variant == "ll" {
		segCount = 7 + r.Intn(4)
	}
	if r.Intn(40) == 0 {
		segCount -= 1 + r.Intn(3) // may fall below the minimum
	}
	segMin := []int64{100, 200, 300, 500, 1000}[r.Intn(5)] * 1000000
	partMin := []int64{50, 80, 100, 200}[r.Intn(4)] * 1000000
	maxSize := int64(50 * 1024 * 1024)
	smallMax := r.Intn(10) == 0
	if smallMax {
		maxSize = int64(300 + r.Intn(3000))
		tags = append(tags, "small-maxsize")
	}
	if r.Intn(30) == 0 { // zero values select the documented defaults
		switch r.Intn(4) {
		case 0:
			segCount = 0
		case 1:
			segMin = 0
		case 2:
			partMin = 0
		default:
			maxSize = 0
		}
		tags = append(tags, "defaults")
	}
	dir := r.Intn(3) == 0
	if dir {
		tags = append(tags, "dir")
	}
	ops = append(ops, fmt.Sprintf("start v=%s segcount=%d segmin=%d partmin=%d maxsize=%d dir=%s", variant, segCount, segMin, partMin, maxSize, b01(dir)))
	for _, t := range tracks {
		line := fmt.Sprintf("track codec=%s rate=%d sr=%d", t.codec, t.rate, t.sr)
		if t.codec == "av1" && r.Intn(2) == 0 {
			line += " szf=1" // AV1 sequence headers in the low-overhead form (with obu_size)
			tags = append(tags, "av1-sized-seqhdr")
		}
		ops = append(ops, line)
	}
	ops = append(ops, "begin")
	tags = append(tags, fmt.Sprintf("tracks=%d", len(tracks)))
	if malformedCfg || len(tracks) == 0 {
		return ops, tags
	}
	codecsTag := []string{}
	for _, t := range tracks {
		codecsTag = append(codecsTag, t.codec)
	}
	sort.Strings(codecsTag)
	tags = append(tags, "codecs="+strings.Join(codecsTag, "+"))

	// ---- time base
	var baseSec float64
	switch r.Intn(6) {
	case 0:
		baseSec = -float64(r.Intn(10)) - r.Float64()*0.7 // negative start, down to -10 s (C01's quantifier)
		if r.Intn(6) == 0 {
			baseSec -= 2 // below -10 s: outside the quantifier, model = implementation only
		}
		tags = append(tags, "negative-start")
	case 1:
		baseSec = float64(r.Intn(1 << 20))
	case 2:
		baseSec = 95000 + float64(r.Intn(1000)) // around the 33-bit wrap at 90 kHz (95443 s)
	default:
		baseSec = float64(r.Intn(100))
	}
	exactMinus10 := r.Intn(12) == 0 // boundary of the fMP4 offset: the first unit at exactly -10 s (shifted DTS 0) must be kept
	if exactMinus10 {
		baseSec = -10
		tags = append(tags, "start-at-minus-10s")
	}
	for _, t := range tracks {
		t.nextPTS = int64(baseSec * float64(t.rate))
		if r.Intn(3) == 0 && !exactMinus10 {
			t.nextPTS += int64(r.Intn(t.rate/2+1)) - int64(t.rate/4) // tracks start at slightly different instants
		}
	}
	for i, t := range tracks {
		if (t.codec == "h264" || t.codec == "h265") && t.rate == 90000 && r.Intn(5) == 0 && !exactMinus10 {
			plan := bfPlan
			if t.codec == "h265" {
				plan = bf5Plan
			}
			if pts, dts, ok := plan(t.nextPTS, 2000); ok {
				t.bf, t.bfPTS, t.bfDTS = true, pts, dts
				t.frame = 3000
				tags = append(tags, t.codec+"-reordering")
				ops[1+i] += " bf=1" // ops[0] = start, ops[1..] = track lines
			}
		}
	}
	ntpBase := int64(1600000000000) + int64(r.Intn(1000000))
	// wall clock not an affine function of the media time: every write gets its own offset (clock adjustments,
	// capture jitter), so that "the wall-clock time supplied with the segment's first unit" cannot be confused with a
	// value extrapolated from another unit's
	ntpNoise := r.Intn(4) == 0
	if ntpNoise {
		tags = append(tags, "ntp-not-affine")
	}
	noise := func(v int64) int64 {
		if !ntpNoise {
			return v
		}
		v += int64(r.Intn(1500)) - 500
		if r.Intn(25) == 0 {
			v += int64(r.Intn(120000)) - 60000
		}
		if v < 0 {
			v = 0
		}
		return v
	}
	midGOP := r.Intn(4) == 0
	if midGOP {
		tags = append(tags, "mid-gop-start")
	}
	jitter := r.Intn(4) == 0
	dupDTS := r.Intn(12) == 0
	paramChanges := r.Intn(3) == 0
	if paramChanges {
		tags = append(tags, "param-changes")
	}
	// boundary mode: key frames placed exactly one tick before / at / one tick after the instant at which the
	// open segment reaches SegmentMinDuration (C02: "no shorter than SegmentMinDuration")
	boundary := r.Intn(4) == 0 && segMin > 0
	if boundary {
		tags = append(tags, "keyframe-at-segmin-boundary")
	}
	bigUnits := r.Intn(10) == 0 && !smallMax
	if bigUnits {
		tags = append(tags, "big-units")
	}
	malformedWrites := r.Intn(30) == 0
	if malformedWrites {
		tags = append(tags, "malformed-writes")
	}

	nWrites := 30 + r.Intn(120)
	if tier == "thorough" && r.Intn(8) == 0 {
		nWrites = 400 + r.Intn(1200)
		tags = append(tags, "long")
	}
	tsAudioOnly := variant == "ts" && len(tracks) == 1 && tracks[0].codec == "aac"
	if tsAudioOnly {
		nWrites = 130 + r.Intn(300) // audio-only MPEG-TS cuts only after 100 writes
		tags = append(tags, "ts-audio-only-long")
		if r.Intn(2) == 0 {
			// a SegmentMinDuration that 100 access units do not cover, so that the duration test decides the cut
			// (and, in boundary mode, an access unit arrives exactly when it is reached)
			old := fmt.Sprintf("segmin=%d ", segMin)
			segMin = []int64{2000, 4000, 8000}[r.Intn(3)] * 1000000
			ops[0] = strings.Replace(ops[0], old, fmt.Sprintf("segmin=%d ", segMin), 1)
			nWrites = 300 + r.Intn(500)
			boundary = boundary || r.Intn(2) == 0
			tags = append(tags, "ts-audio-only-duration-cut")
		}
	}
	pay := 0
	snapEvery := 1 + r.Intn(6)
	sawReq := false
	sawRel := false
	for w := 0; w < nWrites; w++ {
		// next track = the one whose next unit is earliest in media time
		best := 0
		bestT := 0.0
		for i, t := range tracks {
			tt := float64(t.nextPTS) / float64(t.rate)
			if i == 0 || tt < bestT {
				best, bestT = i, tt
			}
		}
		if r.Intn(10) == 0 {
			best = r.Intn(len(tracks)) // arbitrary cross-track interleaving
		}
		t := tracks[best]
		pts := t.nextPTS
		ntp := ntpBase + int64(float64(pts)/float64(t.rate)*1000) - int64(baseSec*1000)
		if ntp < 0 {
			ntp = 0
		}
		ntp = noise(ntp)
		fill := r.Intn(6)
		if r.Intn(12) == 0 {
			fill = 20 + r.Intn(400)
		}
		if smallMax && r.Intn(3) == 0 {
			fill = 100 + r.Intn(600)
		}
		if bigUnits && r.Intn(8) == 0 && isVideoCodec(t.codec) { // an AAC AU cannot exceed the 13-bit ADTS frame length
			fill = 30000 + r.Intn(110000) // parts / segments that a reader's 32 KiB buffer crosses several times
		}
		var op string
		if t.bf {
			// H264 with frame reordering: decode order and times come from the planned pattern
			i := t.count
			k := i % bfPatternLen(t.codec)
			ra := k == 0
			par := 0
			if ra {
				par = 1
				t.started = true
			}
			pay++
			pts = t.bfPTS[i]
			ntp = ntpBase + int64(float64(pts)/float64(t.rate)*1000) - int64(baseSec*1000)
			if ntp < 0 {
				ntp = 0
			}
			ntp = noise(ntp)
			size := mxH264Sizes(variant, bfBuildAUFor(t.codec, par, k, pay))
			op = fmt.Sprintf("w t=%d pts=%d dts=%d ntp=%d ra=%s pic=1 par=%d pays=%d sizes=%d fill=0 bf=%d", best, pts, t.bfDTS[i], ntp, b01(ra), par, pay, size, k)
			t.count++
			if t.count < len(t.bfDTS) {
				t.nextPTS = t.bfDTS[t.count]
			} else {
				t.nextPTS += int64(t.rate) * 1000000 // the plan is exhausted: this track stops
				t.bf = false
			}
		} else if isVideoCodec(t.codec) {
			ra := t.count%t.gop == 0
			if midGOP && t.count < 1+t.gop/2 && !t.started && !exactMinus10 {
				ra = false
			}
			if r.Intn(15) == 0 {
				ra = !ra // irregular key-frame placement
			}
			if boundary && t.segKnown {
				target := t.segStart + segMin*int64(t.rate)/1000000000
				if pts < target-1 && pts+t.frame > target-1 && r.Intn(4) != 0 {
					pts = target + int64(r.Intn(3)) - 1
					if t.rate >= 500000 && r.Intn(2) == 0 {
						// a cut 1-4 ticks (us) below a whole number of seconds after the segment start
						k := int64(1 + r.Intn(4))
						n := (segMin*int64(t.rate)/1000000000 + k + int64(t.rate) - 1) / int64(t.rate)
						pts = t.segStart + n*int64(t.rate) - k
					}
					t.nextPTS = pts
					ntp = ntpBase + int64(float64(pts)/float64(t.rate)*1000) - int64(baseSec*1000)
					if ntp < 0 {
						ntp = 0
					}
					ntp = noise(ntp)
					ra = true
				}
			}
			pic := true
			par := 0
			if ra {
				// the first accepted random-access unit must carry the parameter sets (DTS extractor)
				if !t.started || r.Intn(10) < 7 {
					par = t.par
				}
				if paramChanges && t.started && r.Intn(4) == 0 {
					t.par = 1 + (t.par % 5)
					par = t.par
				}
			} else if paramChanges && r.Intn(25) == 0 {
				t.par = 1 + (t.par % 5) // parameter sets changed on a non-IDR unit
				par = t.par
			} else if t.codec == "h264" && r.Intn(30) == 0 {
				pic = false // parameter-set / SEI only unit
				if r.Intn(2) == 0 {
					par = t.par
				}
			}
			if ra {
				if !t.started && par != 0 {
					t.segStart, t.segKnown = pts, true
				} else if t.segKnown && pts*1000000000/int64(t.rate)-t.segStart*1000000000/int64(t.rate) >= segMin {
					t.segStart = pts
				}
				t.started = true
			}
			pay++
			var size int
			switch t.codec {
			case "h264":
				size = mxH264Sizes(variant, mxBuildH264(par, ra, pic, pay, fill))
			default:
				// VP9 / AV1 / H265: parameters travel with every key frame / sequence header and only there
				pic = true
				// VP9: five parameter ids (three sizes in profile 0, then profile 2 at 10 and 12 bits)
				if t.codec == "vp9" && t.par > 5 {
					t.par = 1 + t.par%5
				}
				if t.codec != "vp9" && t.par > 2 {
					t.par = 1 + t.par%2
				}
				// H265: two parameter-set triples (both without VUI timing info: the DTS extractor returns DTS = PTS)
				if ra {
					par = t.par
				} else {
					par = 0
				}
				size = mxOtherSize(t.codec, ra, par, pay, fill)
			}
			op = fmt.Sprintf("w t=%d pts=%d dts=%d ntp=%d ra=%s pic=%s par=%d pays=%d sizes=%d fill=%d", best, pts, pts, ntp, b01(ra), b01(pic), par, pay, size, fill)
			t.count++
			step := t.frame
			if jitter {
				step += int64(r.Intn(int(t.frame/2)+1)) - t.frame/4
			}
			if dupDTS && r.Intn(6) == 0 {
				step = 0
			}
			if malformedWrites && r.Intn(5) == 0 && t.codec != "h265" {
				step = -t.frame
			}
			t.nextPTS += step
		} else {
			n := 1
			if r.Intn(4) == 0 {
				n = 1 + r.Intn(3)
			}
			if tsAudioOnly && boundary {
				au := 1024 * int64(t.rate) / int64(t.sr)
				if !t.segKnown {
					t.segStart, t.segKnown, t.auSince = pts, true, 0
				}
				target := t.segStart + segMin*int64(t.rate)/1000000000
				if t.auSince >= 100 && pts < target-1 && pts+au > target-1 && r.Intn(4) != 0 {
					// the access unit that arrives exactly one tick before / at / one tick after SegmentMinDuration
					pts = target + int64(r.Intn(3)) - 1
					t.nextPTS = pts
					ntp = noise(ntpBase + int64(float64(pts)/float64(t.rate)*1000) - int64(baseSec*1000))
					n = 1
				}
				if t.auSince >= 100 && pts*1000000000/int64(t.rate)-t.segStart*1000000000/int64(t.rate) >= segMin {
					t.segStart, t.auSince = pts, 0
				}
				t.auSince += n
			}
			var pays, sizes, durs, tocs []string
			total := int64(0)
			for i := 0; i < n; i++ {
				pay++
				pays = append(pays, strconv.Itoa(pay))
				if t.codec == "opus" {
					cfg := []int{15, 14, 13, 12, 31, 30, 19, 3}[r.Intn(8)] // 20,10,20,10,20,10,20 ms … 60 ms
					if r.Intn(3) != 0 {
						cfg = 15
					}
					toc := cfg << 3
					d := opusFrame(cfg)
					tocs = append(tocs, strconv.Itoa(toc))
					durs = append(durs, strconv.FormatInt(d, 10))
					sizes = append(sizes, strconv.Itoa(6+fill))
					total += d
				} else {
					sizes = append(sizes, strconv.Itoa(5+fill))
					total += 1024 * int64(t.rate) / int64(t.sr)
				}
			}
			op = fmt.Sprintf("w t=%d pts=%d dts=%d ntp=%d ra=1 pic=1 par=0 pays=%s sizes=%s fill=%d", best, pts, pts, ntp, strings.Join(pays, ","), strings.Join(sizes, ","), fill)
			if t.codec == "opus" {
				op += " durs=" + strings.Join(durs, ",") + " tocs=" + strings.Join(tocs, ",")
			}
			t.count++
			if dupDTS && n == 1 && r.Intn(10) == 0 {
				total = 0
			}
			if malformedWrites && r.Intn(5) == 0 {
				total = -total
			}
			t.nextPTS += total
		}
		ops = append(ops, op)
		if w%snapEvery == snapEvery-1 || r.Intn(12) == 0 {
			ops = append(ops, "snap")
		}
		if variant == "ll" && r.Intn(6) == 0 {
			sawReq = true
			ops = append(ops, genReq(r, len(tracks), segCount))
		}
		if variant == "ll" && r.Intn(15) == 0 {
			ops = append(ops, fmt.Sprintf("gethint s=%d", r.Intn(len(tracks))))
		}
		if variant == "ll" && ((w > nWrites/3 && r.Intn(4) == 0) || r.Intn(16) == 0) { // slice muxreq (C06): requests dense around the live edge, mostly once content exists
			sawRel = true
			ops = append(ops, genReqRel(r, len(tracks)))
		}
	}
	ops = append(ops, "snap")
	if r.Intn(3) == 0 {
		ops = append(ops, "close")
		tags = append(tags, "close")
	}
	if sawReq {
		tags = append(tags, "ll-requests")
	}
	if sawRel {
		tags = append(tags, "ll-requests-rel")
	}
	return ops, tags
}

func opusFrame(cfg int) int64 {
	sizes := [32]int64{480, 960, 1920, 2880, 480, 960, 1920, 2880, 480, 960, 1920, 2880, 480, 960, 480, 960,
		120, 240, 480, 960, 120, 240, 480, 960, 120, 240, 480, 960, 120, 240, 480, 960}
	return sizes[cfg]
}

// genReq: a blocking-reload style request relative to a plausible position; the model
// and the implementation both know the real position, the generator only guesses.
func genReq(r *rand.Rand, nStreams, segCount int) string {
	s := r.Intn(nStreams)
	msn, part, skip := "-", "-", "-"
	switch r.Intn(10) {
	case 0:
		msn = "abc"
	case 1:
		part = strconv.Itoa(r.Intn(4)) // part without msn
	case 2:
		msn = "18446744073709551615"
	default:
		msn = strconv.Itoa(r.Intn(40))
		if r.Intn(3) != 0 {
			part = strconv.Itoa(r.Intn(12))
		}
		if r.Intn(12) == 0 {
			part = "x1"
		}
	}
	switch r.Intn(6) {
	case 0:
		skip = "YES"
	case 1:
		skip = "v2"
	case 2:
		skip = "NO"
	}
	return fmt.Sprintf("req s=%d msn=%s part=%s skip=%s", s, msn, part, skip)
}
