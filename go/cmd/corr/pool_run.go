package main

import (
	"bufio"
	"bytes"
	"errors"
	"fmt"
	"net/http"
	"os"
	"os/exec"
	"regexp"
	"runtime"
	"sort"
	"strings"
	"sync"
	"sync/atomic"
	"time"

	"github.com/bluenviron/gohlslib/v2"
	"github.com/bluenviron/gohlslib/v2/pkg/codecs"
)

// pool slice (property C12), part 2: running ONE scenario against the real gohlslib.Client and
// observing: the class of the error Wait() yields, that a second receive blocks, callbacks after the
// error, goroutines with a gohlslib frame that are still alive after the error, and (where the
// scenario asks) whether Wait() was held back while OnTracks was blocked / whether the client
// terminated completely before anybody received from Wait().
//
// Every scenario runs in a CHILD process (hidden sub-command `pool-child`): a panic kills only the
// child, and goroutine dumps are never polluted by an earlier case.

var errPoolOnTracks = errors.New("pool: injected OnTracks error")

type poolObs struct {
	result  string
	msg     string
	once    int
	cbAfter int
	leaked  int
	leakTop []string
	held    string
	drained string
}

func (o *poolObs) line() string {
	return fmt.Sprintf("run result=%s once=%d cb_after=%d leaked=%d held=%s drained=%s", o.result, o.once, o.cbAfter, o.leaked, o.held, o.drained)
}

func poolB2i(b bool) int {
	if b {
		return 1
	}
	return 0
}

func poolErrClass(err error) string {
	switch {
	case err == nil:
		return "nil"
	case errors.Is(err, gohlslib.ErrClientEOS):
		return "eos"
	case err.Error() == "terminated":
		return "terminated"
	case errors.Is(err, errPoolOnTracks):
		return "callback"
	case errors.Is(err, errPoolTransport):
		return "io"
	}
	return "other"
}

var poolGoroutineHdr = regexp.MustCompile(`^goroutine \d+ \[([^\]]*)\]:`)
var poolFrame = regexp.MustCompile(`gohlslib/v2\.([^\s(]*(?:\([^)]*\))?[^\s(]*)`)

// poolLibGoroutines returns one canonical entry "<innermost gohlslib function>[state]" per goroutine
// whose stack contains a frame of the library.
func poolLibGoroutines() []string {
	buf := make([]byte, 1<<20)
	for {
		n := runtime.Stack(buf, true)
		if n < len(buf) {
			buf = buf[:n]
			break
		}
		buf = make([]byte, 2*len(buf))
	}
	var out []string
	for _, blk := range strings.Split(string(buf), "\n\n") {
		lines := strings.Split(blk, "\n")
		m := poolGoroutineHdr.FindStringSubmatch(lines[0])
		if m == nil {
			continue
		}
		top := ""
		for _, l := range lines[1:] {
			if strings.HasPrefix(l, "\t") || strings.HasPrefix(l, "created by") {
				continue
			}
			if f := poolFrame.FindStringSubmatch(l); f != nil {
				top = f[1]
				break
			}
		}
		if top != "" {
			state := strings.SplitN(m[1], ",", 2)[0]
			out = append(out, top+"["+state+"]")
		}
	}
	sort.Strings(out)
	return out
}

func poolWaitNoLib(max time.Duration) []string {
	deadline := time.Now().Add(max)
	for {
		g := poolLibGoroutines()
		if len(g) == 0 || time.Now().After(deadline) {
			return g
		}
		time.Sleep(3 * time.Millisecond)
	}
}

// poolRun executes one scenario in THIS process.
func poolRun(s *poolScn) *poolObs {
	obs := &poolObs{held: "-", drained: "-"}
	srv := newPoolServer(s)
	var resultSeen atomic.Bool
	var cbAfter atomic.Int64
	cb := func() {
		if resultSeen.Load() {
			cbAfter.Add(1)
		}
	}
	inTracks := make(chan struct{})
	release := make(chan struct{})
	firstData := make(chan struct{})
	var firstOnce sync.Once
	var cl *gohlslib.Client
	onData := func() {
		cb()
		firstOnce.Do(func() { close(firstData) })
	}
	cl = &gohlslib.Client{
		URI:                       "http://verif.invalid/index.m3u8",
		HTTPClient:                &http.Client{Transport: srv},
		OnRequest:                 func(*http.Request) { cb() },
		OnDownloadPrimaryPlaylist: func(string) { cb() },
		OnDownloadStreamPlaylist:  func(string) { cb() },
		OnDownloadSegment:         func(string) { cb() },
		OnDownloadPart:            func(string) { cb() },
		OnDecodeError:             func(error) { cb() },
		OnTracks: func(tracks []*gohlslib.Track) error {
			cb()
			for _, t := range tracks {
				switch t.Codec.(type) {
				case *codecs.H264, *codecs.H265:
					cl.OnDataH26x(t, func(int64, int64, [][]byte) { onData() })
				case *codecs.MPEG4Audio:
					cl.OnDataMPEG4Audio(t, func(int64, [][]byte) { onData() })
				case *codecs.Opus:
					cl.OnDataOpus(t, func(int64, [][]byte) { onData() })
				}
			}
			if s.closeAt == "ontracks" {
				close(inTracks)
				select {
				case <-release:
				case <-time.After(8 * time.Second):
				}
			}
			if s.fault == "ontracks" {
				return errPoolOnTracks
			}
			return nil
		},
	}
	closeN := func() {
		for i := 0; i < s.nclose; i++ {
			cl.Close()
		}
	}
	srv.closeFn = closeN
	if err := cl.Start(); err != nil {
		obs.result = "start-error"
		return obs
	}
	var got error
	have := false
	recv := func(max time.Duration) bool {
		select {
		case got = <-cl.Wait():
			have = true
			resultSeen.Store(true)
		case <-time.After(max):
		}
		return have
	}
	wait := func(ch chan struct{}, what string) bool {
		select {
		case <-ch:
			return true
		case <-time.After(4 * time.Second):
			obs.msg = "watchdog: " + what
			return false
		}
	}
	switch s.closeAt {
	case "start":
		closeN()
	case "ontracks":
		if wait(inTracks, "OnTracks never called") {
			closeN()
			// the error must not be yielded while a callback of the client is still running
			if recv(40 * time.Millisecond) {
				obs.held = "0"
			} else {
				obs.held = "1"
			}
			close(release)
		}
	case "pacing":
		if wait(firstData, "no sample delivered") {
			deadline := time.Now().Add(2 * time.Second)
			for time.Now().Before(deadline) {
				parked := false
				for _, g := range poolLibGoroutines() {
					if strings.Contains(g, "handleData[select]") {
						parked = true
					}
				}
				if parked {
					break
				}
				time.Sleep(2 * time.Millisecond)
			}
			closeN()
		}
	case "eos":
		recv(4 * time.Second)
		closeN()
	}
	// Close from the user's goroutine once the server holds a request (close=held) / has handed out the stalling
	// body (fault=stall: only Close ends that client). If the request index is never reached the client finishes
	// on its own first.
	var trigger chan struct{}
	switch {
	case s.closeAt == "held":
		trigger = srv.held
	case s.fault == "stall" && s.closeAt == "none":
		trigger = srv.stalled
	}
	if trigger != nil && !have {
		deadline := time.After(4 * time.Second)
	waitTrigger:
		for {
			select {
			case <-trigger:
				time.Sleep(3 * time.Millisecond)
				closeN()
				break waitTrigger
			case <-time.After(2 * time.Millisecond):
				if len(cl.Wait()) > 0 { // the client has finished on its own; nothing is received here
					break waitTrigger
				}
			case <-deadline:
				obs.msg = "watchdog: trigger request never made"
				break waitTrigger
			}
		}
	}
	if s.late && !have {
		// nobody receives from Wait(): the client must terminate completely all the same
		if len(poolWaitNoLib(3*time.Second)) == 0 {
			obs.drained = "1"
		} else {
			obs.drained = "0"
		}
	}
	if !have && !recv(4*time.Second) {
		obs.result = "hang"
		cl.Close()
		recv(1 * time.Second)
		obs.leakTop = poolLibGoroutines()
		obs.leaked = len(obs.leakTop)
		return obs
	}
	resultSeen.Store(true)
	obs.result = poolErrClass(got)
	if got != nil {
		obs.msg = got.Error()
	}
	// exactly one: a second receive must block
	select {
	case <-cl.Wait():
		obs.once = 0
	case <-time.After(30 * time.Millisecond):
		obs.once = 1
	}
	obs.leakTop = poolWaitNoLib(1500 * time.Millisecond)
	obs.leaked = len(obs.leakTop)
	// Close after the error has been yielded: any number of times, no effect
	cl.Close()
	cl.Close()
	time.Sleep(5 * time.Millisecond)
	if g := poolLibGoroutines(); len(g) > obs.leaked {
		obs.leakTop, obs.leaked = g, len(g)
	}
	select {
	case <-cl.Wait():
		obs.once = 0
	default:
	}
	obs.cbAfter = int(cbAfter.Load())
	return obs
}

// ---------------------------------------------------------------------------------------------
// child process

func init() {
	if len(os.Args) >= 2 && os.Args[1] == "pool-child" {
		sc := bufio.NewScanner(os.Stdin)
		var s *poolScn
		for sc.Scan() {
			if p, ok := poolParse(strings.TrimSpace(sc.Text())); ok {
				s = p
			}
		}
		if s == nil {
			fmt.Println("bad-case")
			os.Exit(0)
		}
		obs := poolRun(s)
		fmt.Println(obs.line())
		fmt.Println("msg " + strings.ReplaceAll(obs.msg, "\n", " "))
		fmt.Println("leaks " + strings.Join(obs.leakTop, " "))
		os.Exit(0)
	}
}

type poolChildResult struct {
	line  string
	msg   string
	leaks string
}

func poolRunInChild(s *poolScn) poolChildResult {
	if os.Getenv("VERIF_POOL_INPROC") == "1" {
		o := poolRun(s)
		return poolChildResult{o.line(), o.msg, strings.Join(o.leakTop, " ")}
	}
	exe, err := os.Executable()
	if err != nil {
		return poolChildResult{line: "run harness-error " + err.Error()}
	}
	cmd := exec.Command(exe, "pool-child")
	cmd.Stdin = strings.NewReader(s.line() + "\n")
	var stdout, stderr bytes.Buffer
	cmd.Stdout, cmd.Stderr = &stdout, &stderr
	if err := cmd.Start(); err != nil {
		return poolChildResult{line: "run harness-error " + err.Error()}
	}
	done := make(chan error, 1)
	go func() { done <- cmd.Wait() }()
	select {
	case err = <-done:
	case <-time.After(40 * time.Second):
		cmd.Process.Kill()
		<-done
		return poolChildResult{line: "run child-timeout"}
	}
	if err != nil {
		first := strings.SplitN(stderr.String(), "\n", 2)[0]
		return poolChildResult{line: "run panic", msg: first}
	}
	var r poolChildResult
	for _, l := range strings.Split(stdout.String(), "\n") {
		switch {
		case strings.HasPrefix(l, "run "):
			r.line = l
		case strings.HasPrefix(l, "msg "):
			r.msg = strings.TrimPrefix(l, "msg ")
		case strings.HasPrefix(l, "leaks "):
			r.leaks = strings.TrimPrefix(l, "leaks ")
		}
	}
	if r.line == "" {
		r.line = "run child-no-output"
	}
	return r
}
