package main

// m3u_grammar.go — an INDEPENDENT strict recogniser for M3U8 playlists written from
// RFC 8216 §4 (it shares no code with pkg/playlist and none with the Lean model; the Lean
// twin is lean/Hls/Playlist/Grammar.lean). It is the implementation-side grammar
// oracle of C15: every output of Marshal on a valid value must be accepted.
//
// Table driven so that further tags can be registered (m3uRegisterTag): a tag has a
// value form, for attribute lists a table attribute -> lexical classes / required, a
// playlist kind it may appear in, a multiplicity, and whether a URI line must follow.

import (
	"fmt"
	"strings"
)

type m3uClass int

const (
	m3uDecInt      m3uClass = iota // decimal-integer: 1*20 DIGIT
	m3uHexSeq                      // hexadecimal-sequence: 0x / 0X + 1*HEXDIG
	m3uFloat                       // decimal-floating-point: 1*DIGIT [ "." 1*DIGIT ]   (non-negative)
	m3uSignedFloat                 // signed-decimal-floating-point: [ "-" ] decimal-floating-point
	m3uQuoted                      // quoted-string: DQUOTE *(any byte except LF, CR, DQUOTE) DQUOTE
	m3uEnum                        // enumerated-string from a fixed set
	m3uResolution                  // decimal-resolution: decimal-integer "x" decimal-integer
)

type m3uKind int

const (
	m3uAny m3uKind = iota
	m3uMultivariant
	m3uKindMedia
)

type m3uForm int

const (
	m3uFormNone   m3uForm = iota // "#TAG" and nothing else
	m3uFormAttrs                 // "#TAG:" attribute-list
	m3uFormInt                   // "#TAG:" decimal-integer
	m3uFormCustom                // "#TAG:" value checked by `custom`
)

type m3uAttr struct {
	name     string
	classes  []m3uClass // any of these lexical classes is allowed
	enum     []string   // for m3uEnum
	required bool
}

type m3uTag struct {
	name       string // without the colon
	form       m3uForm
	attrs      []m3uAttr
	kind       m3uKind
	once       bool // at most once per playlist
	uriFollows bool // the next line must be a URI line (EXT-X-STREAM-INF, EXTINF)
	custom     func(value string) error
}

var m3uTags = map[string]*m3uTag{}

func m3uRegisterTag(t *m3uTag) { m3uTags[t.name] = t }

func init() {
	yesNo := []string{"YES", "NO"}
	// RFC 8216 §4.3.1.2
	m3uRegisterTag(&m3uTag{name: "#EXT-X-VERSION", form: m3uFormInt, kind: m3uAny, once: true})
	// §4.3.5.1, §4.3.5.2
	m3uRegisterTag(&m3uTag{name: "#EXT-X-INDEPENDENT-SEGMENTS", form: m3uFormNone, kind: m3uAny, once: true})
	m3uRegisterTag(&m3uTag{name: "#EXT-X-START", form: m3uFormAttrs, kind: m3uAny, once: true, attrs: []m3uAttr{
		{name: "TIME-OFFSET", classes: []m3uClass{m3uSignedFloat}, required: true},
		{name: "PRECISE", classes: []m3uClass{m3uEnum}, enum: yesNo},
	}})
	// §4.3.4.1
	m3uRegisterTag(&m3uTag{name: "#EXT-X-MEDIA", form: m3uFormAttrs, kind: m3uMultivariant, attrs: []m3uAttr{
		{name: "TYPE", classes: []m3uClass{m3uEnum}, enum: []string{"AUDIO", "VIDEO", "SUBTITLES", "CLOSED-CAPTIONS"}, required: true},
		{name: "URI", classes: []m3uClass{m3uQuoted}},
		{name: "GROUP-ID", classes: []m3uClass{m3uQuoted}, required: true},
		{name: "LANGUAGE", classes: []m3uClass{m3uQuoted}},
		{name: "ASSOC-LANGUAGE", classes: []m3uClass{m3uQuoted}},
		{name: "NAME", classes: []m3uClass{m3uQuoted}, required: true},
		{name: "DEFAULT", classes: []m3uClass{m3uEnum}, enum: yesNo},
		{name: "AUTOSELECT", classes: []m3uClass{m3uEnum}, enum: yesNo},
		{name: "FORCED", classes: []m3uClass{m3uEnum}, enum: yesNo},
		{name: "INSTREAM-ID", classes: []m3uClass{m3uQuoted}},
		{name: "CHARACTERISTICS", classes: []m3uClass{m3uQuoted}},
		{name: "CHANNELS", classes: []m3uClass{m3uQuoted}},
	}})
	// §4.3.4.2
	m3uRegisterTag(&m3uTag{name: "#EXT-X-STREAM-INF", form: m3uFormAttrs, kind: m3uMultivariant, uriFollows: true, attrs: []m3uAttr{
		{name: "BANDWIDTH", classes: []m3uClass{m3uDecInt}, required: true},
		{name: "AVERAGE-BANDWIDTH", classes: []m3uClass{m3uDecInt}},
		{name: "CODECS", classes: []m3uClass{m3uQuoted}},
		{name: "RESOLUTION", classes: []m3uClass{m3uResolution}},
		{name: "FRAME-RATE", classes: []m3uClass{m3uFloat}},
		{name: "HDCP-LEVEL", classes: []m3uClass{m3uEnum}, enum: []string{"TYPE-0", "NONE"}},
		{name: "AUDIO", classes: []m3uClass{m3uQuoted}},
		{name: "VIDEO", classes: []m3uClass{m3uQuoted}},
		{name: "SUBTITLES", classes: []m3uClass{m3uQuoted}},
		{name: "CLOSED-CAPTIONS", classes: []m3uClass{m3uQuoted, m3uEnum}, enum: []string{"NONE"}},
	}})
}

func m3uIsDigits(s string, min, max int) bool {
	if len(s) < min || len(s) > max {
		return false
	}
	for i := 0; i < len(s); i++ {
		if s[i] < '0' || s[i] > '9' {
			return false
		}
	}
	return true
}

func m3uIsFloat(s string) bool {
	parts := strings.Split(s, ".")
	switch len(parts) {
	case 1:
		return m3uIsDigits(parts[0], 1, 1<<30)
	case 2:
		return m3uIsDigits(parts[0], 1, 1<<30) && m3uIsDigits(parts[1], 1, 1<<30)
	}
	return false
}

func m3uValueHasClass(v string, quoted bool, c m3uClass, enum []string) bool {
	if quoted {
		return c == m3uQuoted // the lexer already excluded LF, CR and DQUOTE inside
	}
	switch c {
	case m3uDecInt:
		return m3uIsDigits(v, 1, 20)
	case m3uHexSeq:
		if len(v) < 3 || v[0] != '0' || (v[1] != 'x' && v[1] != 'X') {
			return false
		}
		for i := 2; i < len(v); i++ {
			ch := v[i]
			if !(ch >= '0' && ch <= '9' || ch >= 'a' && ch <= 'f' || ch >= 'A' && ch <= 'F') {
				return false
			}
		}
		return true
	case m3uFloat:
		return m3uIsFloat(v)
	case m3uSignedFloat:
		return m3uIsFloat(strings.TrimPrefix(v, "-"))
	case m3uEnum:
		for _, e := range enum {
			if v == e {
				return true
			}
		}
		return false
	case m3uResolution:
		p := strings.Split(v, "x")
		return len(p) == 2 && m3uIsDigits(p[0], 1, 20) && m3uIsDigits(p[1], 1, 20)
	}
	return false
}

type m3uPair struct {
	name, value string
	quoted      bool
}

// m3uLexAttrs: attribute-list = attribute *( "," attribute ); attribute = name "=" value;
// name = 1*( A-Z / 0-9 / "-" ); value = quoted-string / 1*( any byte except "," DQUOTE LF CR SP ).
func m3uLexAttrs(s string) ([]m3uPair, error) {
	var out []m3uPair
	i := 0
	for {
		st := i
		for i < len(s) && (s[i] >= 'A' && s[i] <= 'Z' || s[i] >= '0' && s[i] <= '9' || s[i] == '-') {
			i++
		}
		if i == st {
			return nil, fmt.Errorf("attribute name expected at offset %d", st)
		}
		name := s[st:i]
		if i >= len(s) || s[i] != '=' {
			return nil, fmt.Errorf("'=' expected after %s", name)
		}
		i++
		var p m3uPair
		p.name = name
		if i < len(s) && s[i] == '"' {
			i++
			st = i
			for i < len(s) && s[i] != '"' {
				if s[i] == '\n' || s[i] == '\r' {
					return nil, fmt.Errorf("line break inside quoted-string of %s", name)
				}
				i++
			}
			if i >= len(s) {
				return nil, fmt.Errorf("unterminated quoted-string of %s", name)
			}
			p.value, p.quoted = s[st:i], true
			i++
		} else {
			st = i
			for i < len(s) && s[i] != ',' {
				if s[i] == '"' || s[i] == ' ' || s[i] == '\t' || s[i] == '\n' || s[i] == '\r' {
					return nil, fmt.Errorf("illegal byte in unquoted value of %s", name)
				}
				i++
			}
			if i == st {
				return nil, fmt.Errorf("empty value of %s", name)
			}
			p.value = s[st:i]
		}
		out = append(out, p)
		if i == len(s) {
			return out, nil
		}
		if s[i] != ',' {
			return nil, fmt.Errorf("',' expected after value of %s", name)
		}
		i++
	}
}

func m3uCheckAttrs(t *m3uTag, value string) error {
	pairs, err := m3uLexAttrs(value)
	if err != nil {
		return err
	}
	seen := map[string]bool{}
	for _, p := range pairs {
		if seen[p.name] {
			return fmt.Errorf("attribute %s appears twice", p.name)
		}
		seen[p.name] = true
		var spec *m3uAttr
		for k := range t.attrs {
			if t.attrs[k].name == p.name {
				spec = &t.attrs[k]
			}
		}
		if spec == nil {
			return fmt.Errorf("attribute %s is not defined for %s", p.name, t.name)
		}
		ok := false
		for _, c := range spec.classes {
			if m3uValueHasClass(p.value, p.quoted, c, spec.enum) {
				ok = true
			}
		}
		if !ok {
			return fmt.Errorf("value of %s has the wrong lexical class", p.name)
		}
	}
	for _, a := range t.attrs {
		if a.required && !seen[a.name] {
			return fmt.Errorf("required attribute %s missing in %s", a.name, t.name)
		}
	}
	return nil
}

// m3uCheck accepts exactly the playlists of the given kind that follow the grammar.
func m3uCheck(text string, kind m3uKind) error {
	if text == "" {
		return fmt.Errorf("empty playlist")
	}
	lines := strings.Split(text, "\n")
	if lines[len(lines)-1] == "" {
		lines = lines[:len(lines)-1] // the terminator of the last line
	}
	for i := range lines {
		lines[i] = strings.TrimSuffix(lines[i], "\r")
		if strings.ContainsAny(lines[i], "\r") {
			return fmt.Errorf("line %d: stray CR", i+1)
		}
	}
	if len(lines) == 0 || lines[0] != "#EXTM3U" {
		return fmt.Errorf("#EXTM3U must be the first line")
	}
	seen := map[string]bool{}
	pendingURI := "" // tag that still waits for its URI line
	for n, line := range lines[1:] {
		ln := n + 2
		switch {
		case line == "":
			continue
		case !strings.HasPrefix(line, "#"):
			if pendingURI == "" {
				return fmt.Errorf("line %d: URI line without a preceding EXT-X-STREAM-INF / EXTINF", ln)
			}
			pendingURI = ""
		case !strings.HasPrefix(line, "#EXT"):
			continue // comment
		default:
			if pendingURI != "" && kind == m3uMultivariant {
				return fmt.Errorf("line %d: %s must be followed by its URI line", ln, pendingURI)
			}
			name, value, hasValue := strings.Cut(line, ":")
			t := m3uTags[name]
			if t == nil {
				return fmt.Errorf("line %d: unknown tag %s", ln, name)
			}
			if line == "#EXTM3U" {
				return fmt.Errorf("line %d: #EXTM3U repeated", ln)
			}
			if t.kind != m3uAny && t.kind != kind {
				return fmt.Errorf("line %d: %s is not allowed in this kind of playlist", ln, name)
			}
			if t.once && seen[name] {
				return fmt.Errorf("line %d: %s appears more than once", ln, name)
			}
			seen[name] = true
			switch t.form {
			case m3uFormNone:
				if hasValue {
					return fmt.Errorf("line %d: %s takes no value", ln, name)
				}
			case m3uFormInt:
				if !hasValue || !m3uIsDigits(value, 1, 20) {
					return fmt.Errorf("line %d: %s needs a decimal-integer", ln, name)
				}
			case m3uFormAttrs:
				if !hasValue {
					return fmt.Errorf("line %d: %s needs an attribute list", ln, name)
				}
				if err := m3uCheckAttrs(t, value); err != nil {
					return fmt.Errorf("line %d: %v", ln, err)
				}
			case m3uFormCustom:
				if !hasValue {
					return fmt.Errorf("line %d: %s needs a value", ln, name)
				}
				if err := t.custom(value); err != nil {
					return fmt.Errorf("line %d: %v", ln, err)
				}
			}
			if t.uriFollows {
				pendingURI = name
			}
		}
	}
	if pendingURI != "" {
		return fmt.Errorf("%s without its URI line", pendingURI)
	}
	return nil
}
