package main

import (
	"bytes"
	"encoding/hex"
	"fmt"
	"io"
	"math/rand"
	"os"
	"path/filepath"
	"strconv"
	"strings"

	"github.com/bluenviron/gohlslib/v2/pkg/storage"
)

// storage slice (C17, supports C05): drives pkg/storage through its public API,
// RAM and disk factories in lock-step.

type storageSlice struct{}

func init() { register(storageSlice{}) }

func (storageSlice) Name() string { return "storage" }

func (storageSlice) Corpus() [][]string {
	return [][]string{
		// F11: trailing seek past the end, no write afterwards
		{"newpart", "wr 0 010203", "seek 0 5 cur", "fin", "rdpart 0", "rdfile -", "size"},
		// dangling seek in a non-last part followed by empty parts
		{"newpart", "wr 0 0a", "seek 0 4 start", "newpart", "newpart", "fin", "rdpart 0", "rdpart 1", "rdfile 0,1,0", "size"},
		// rewrite of earlier bytes
		{"newpart", "wr 0 0102030405", "seek 0 1 start", "wr 0 ffee", "seek 0 2 cur", "wr 0 aabb", "newpart", "wr 1 99", "rdpart 0", "fin", "rdpart 0", "rdpart 1", "rdfile 3,0,2", "size"},
		// no parts at all
		{"fin", "rdfile 0", "rdfile 4", "size"},
		// read before finalize
		{"newpart", "wr 0 00", "rdfile 1", "rdpart 0", "size"},
		// negative seeks
		{"newpart", "seek 0 -1 start", "wr 0 0102", "seek 0 -3 cur", "seek 0 -2 cur", "wr 0 03", "fin", "rdfile 1"},
		// the non-vacuity example of Hls/Props/C17.lean (exOps) followed by Remove
		{"newpart", "wr 0 0102030405", "seek 0 1 start", "wr 0 0908", "seek 0 4 cur", "wr 0 07", "rdpart 0", "rdfile 1", "size",
			"newpart", "newpart", "wr 2 06", "seek 2 2 cur", "seek 2 -9 cur", "rdpart 1",
			"fin", "rdpart 0", "rdpart 1", "rdpart 2", "rdfile 0,3,0,2", "rdfile -", "size",
			"rm", "size", "rdfile 2", "rdpart 0"},
		// zero-length reads while empty parts remain; (n>0, EOF) in one call
		{"newpart", "newpart", "newpart", "wr 2 03", "fin", "rdfile 0,0,0,0,0", "rdfile 0,7", "rdfile 1,0,1"},
		// OUTSIDE the discipline (model = implementation only): an earlier part is written after a
		// later one was allocated -- the disk back end overwrites/loses data, RAM does not
		{"newpart", "wr 0 01", "newpart", "wr 0 0203", "rdpart 0", "rdpart 1", "fin", "rdpart 0", "rdpart 1", "rdfile -", "size"},
		{"newpart", "wr 0 0102", "newpart", "wr 1 0304", "seek 0 0 start", "wr 0 090807", "fin", "rdpart 0", "rdpart 1", "rdfile 2", "size"},
		// OUTSIDE the discipline: Remove before Finalize, writes after Finalize
		{"newpart", "wr 0 0102", "rm", "rdpart 0", "rdfile -", "wr 0 03", "fin", "rdpart 0", "rdfile -", "size"},
		{"newpart", "wr 0 0102", "fin", "wr 0 0304", "rdpart 0", "rdfile 1", "size", "rdpart 7"},
	}
}

func hexOrDash(b []byte) string {
	if len(b) == 0 {
		return "-"
	}
	return hex.EncodeToString(b)
}

func (storageSlice) Gen(r *rand.Rand, _ int, tier string) ([]string, []string) {
	var ops []string
	tags := []string{}
	nparts := 0
	maxOps := 4 + r.Intn(30)
	if tier == "thorough" && r.Intn(10) == 0 {
		maxOps = 100 + r.Intn(200)
	}
	bigWrites := r.Intn(8) == 0
	// low-weight stream outside the property's quantifier (only model = implementation is
	// compared, the direct oracle stops at the first undisciplined op): writes/seeks to
	// earlier parts, Remove before Finalize, writes after Finalize.
	undisc := r.Intn(12) == 0
	nh := 0            // reader handles opened so far
	var pending []int // handles still to be read
	target := func() int {
		if undisc && nparts > 1 && r.Intn(3) == 0 {
			return r.Intn(nparts)
		}
		return nparts - 1
	}
	sawEarlier, sawRmEarly := false, false
	randBytes := func() []byte {
		var n int
		switch r.Intn(6) {
		case 0:
			n = 0
		case 1:
			n = 1
		default:
			n = r.Intn(12)
		}
		if bigWrites && r.Intn(3) == 0 {
			n = 500 + r.Intn(1500) // crosses the model's drain size
		}
		b := make([]byte, n)
		for i := range b {
			if r.Intn(4) == 0 {
				b[i] = 0
			} else {
				b[i] = byte(r.Intn(256))
			}
		}
		return b
	}
	bufs := func() string {
		k := r.Intn(5)
		if k == 0 {
			return "-"
		}
		var s []string
		for i := 0; i < k; i++ {
			switch r.Intn(5) {
			case 0:
				s = append(s, "0")
			case 1:
				s = append(s, "1")
			case 2:
				s = append(s, strconv.Itoa(r.Intn(8)))
			case 3:
				s = append(s, strconv.Itoa(r.Intn(70)))
			default:
				s = append(s, strconv.Itoa(r.Intn(65536)))
			}
		}
		return strings.Join(s, ",")
	}
	if r.Intn(60) == 0 {
		// a file without parts
		ops = []string{"rdfile " + bufs(), "size", "fin", "rdfile " + bufs(), "rdfile " + bufs(), "size"}
		if r.Intn(2) == 0 {
			ops = append(ops, "rm", "exists", "rdfile "+bufs(), "size")
			tags = append(tags, "remove")
		}
		return ops, append(tags, "parts=0")
	}
	sawSeekPast, sawRewrite, sawEmptyPart := false, false, false
	curLen, curPos := 0, 0
	partHasData := false
	for len(ops) < maxOps {
		if undisc && nparts > 0 && r.Intn(40) == 0 {
			ops = append(ops, "rm", "exists")
			sawRmEarly = true
			continue
		}
		switch x := r.Intn(100); {
		case x < 18 || nparts == 0:
			if nparts > 0 && !partHasData {
				sawEmptyPart = true
			}
			// a reader of the part that is now complete, opened here and used much later
			// (after further parts, Finalize, Remove): "readers opened before/after Finalize and used after Remove"
			if nparts > 0 && !undisc && r.Intn(4) == 0 {
				nh++
				ops = append(ops, fmt.Sprintf("open %d p %d", nh, nparts-1))
				pending = append(pending, nh)
			}
			ops = append(ops, "newpart")
			nparts++
			curLen, curPos, partHasData = 0, 0, false
		case x < 60:
			b := randBytes()
			k := target()
			if k != nparts-1 {
				sawEarlier = true
			}
			ops = append(ops, fmt.Sprintf("wr %d %s", k, hexOrDash(b)))
			if curPos < curLen && len(b) > 0 {
				sawRewrite = true
			}
			curPos += len(b)
			if curPos > curLen {
				curLen = curPos
			}
			if len(b) > 0 {
				partHasData = true
			}
		case x < 85:
			var off int
			wh := "start"
			if r.Intn(2) == 0 {
				wh = "cur"
				off = r.Intn(2*curLen+4) - curLen - 1
				if r.Intn(4) == 0 {
					off = -curPos + r.Intn(3) - 1
				}
			} else {
				off = r.Intn(curLen+4) - 1
			}
			np := off
			if wh == "cur" {
				np = curPos + off
			}
			k := target()
			if k != nparts-1 {
				sawEarlier = true
			}
			ops = append(ops, fmt.Sprintf("seek %d %d %s", k, off, wh))
			if np >= 0 {
				curPos = np
				if np > curLen {
					curLen = np
					sawSeekPast = true
				}
			}
		case x < 95:
			ops = append(ops, fmt.Sprintf("rdpart %d", r.Intn(nparts)))
		case x < 98:
			ops = append(ops, "rdfile "+bufs()) // before finalize: error
		default:
			ops = append(ops, "size")
		}
	}
	if nparts > 0 && !undisc && r.Intn(3) == 0 {
		nh++
		ops = append(ops, fmt.Sprintf("open %d p %d", nh, nparts-1)) // the last part, right before Finalize
		pending = append(pending, nh)
	}
	ops = append(ops, "fin")
	if !undisc && r.Intn(2) == 0 {
		nh++
		ops = append(ops, fmt.Sprintf("open %d f", nh))
		pending = append(pending, nh)
		if nparts > 0 && r.Intn(2) == 0 {
			nh++
			ops = append(ops, fmt.Sprintf("open %d p %d", nh, r.Intn(nparts)))
			pending = append(pending, nh)
		}
	}
	if len(pending) > 0 {
		tags = append(tags, "held-readers")
		// some are used before Remove, the rest after it (see the end of the case)
		keep := pending[:0:0]
		for _, h := range pending {
			if r.Intn(3) == 0 {
				ops = append(ops, fmt.Sprintf("rdh %d %s", h, bufs()))
			} else {
				keep = append(keep, h)
			}
		}
		pending = keep
	}
	for i := 0; i < nparts; i++ {
		ops = append(ops, fmt.Sprintf("rdpart %d", i))
	}
	ops = append(ops, "rdfile "+bufs(), "rdfile "+bufs(), "size")
	if undisc && nparts > 0 && r.Intn(2) == 0 {
		// NON-EMPTY writes after Finalize: RAM accepts them, the disk back end's handle is
		// closed.  (Seeks and empty writes after Finalize are not generated: there the real
		// disk back end either succeeds on the orphaned mirror buffer or panics with a nil
		// dereference, depending on when Part.Writer() was called -- see notes/storage.md.)
		for i := r.Intn(4) + 1; i > 0; i-- {
			k := r.Intn(nparts)
			b := randBytes()
			if len(b) == 0 {
				b = []byte{byte(r.Intn(256))}
			}
			ops = append(ops, fmt.Sprintf("wr %d %s", k, hexOrDash(b)), fmt.Sprintf("rdpart %d", k))
		}
		ops = append(ops, fmt.Sprintf("rdpart %d", nparts+r.Intn(3)), "rdfile "+bufs(), "size")
		tags = append(tags, "write-after-fin")
	}
	if undisc {
		tags = append(tags, "undisciplined")
	}
	if sawEarlier {
		tags = append(tags, "write-earlier-part")
	}
	if sawRmEarly {
		tags = append(tags, "rm-before-fin")
	}
	if r.Intn(3) == 0 || len(pending) > 0 {
		ops = append(ops, "exists", "rm", "exists", "rdfile -", "size")
		if nparts > 0 {
			ops = append(ops, "rdpart 0")
		}
		tags = append(tags, "remove")
	}
	if len(pending) > 0 && r.Intn(2) == 0 {
		ops = append(ops, "noise")
	}
	for _, h := range pending {
		ops = append(ops, fmt.Sprintf("rdh %d %s", h, bufs())) // a reader opened earlier, used after Remove
	}
	if sawSeekPast {
		tags = append(tags, "seek-past-end")
	}
	if sawRewrite {
		tags = append(tags, "rewrite")
	}
	if sawEmptyPart {
		tags = append(tags, "empty-part")
	}
	if bigWrites {
		tags = append(tags, "big-writes")
	}
	tags = append(tags, fmt.Sprintf("parts=%d", min(nparts, 6)))
	return ops, tags
}

type backend struct {
	handles map[int]io.ReadCloser
	file    storage.File
	parts   []storage.Part
	writers []io.WriteSeeker
}

type storageRunner struct {
	dir     string
	ram     backend
	disk    backend
	ref     [][]byte // independent byte-slice reference (direct oracle)
	refPos  []int
	fin     bool
	removed bool
	noise    []storage.File
	noiseN   int
	snaps    map[int]string // reader handle -> reference content at open time
	rmCalled bool
	tainted bool // an op outside the property's quantifier was seen: the reference no longer applies
	fails   []string
}

func (storageSlice) NewRunner() Runner {
	dir, err := os.MkdirTemp("", "verif-storage-")
	if err != nil {
		panic(err)
	}
	r := &storageRunner{dir: dir}
	r.ram.file, _ = storage.NewFactoryRAM().NewFile("f.mp4")
	r.disk.file, err = storage.NewFactoryDisk(dir).NewFile("f.mp4")
	if err != nil {
		panic(err)
	}
	return r
}

func (r *storageRunner) Close() {
	for _, b := range []*backend{&r.ram, &r.disk} {
		for _, h := range b.handles {
			h.Close()
		}
	}
	for _, g := range r.noise {
		g.Finalize()
		g.Remove()
	}
	os.RemoveAll(r.dir)
}

func (r *storageRunner) Oracle() []string { return r.fails }

func readAll(rc io.ReadCloser, bufs []int) ([]byte, error) {
	defer rc.Close()
	var out []byte
	for _, b := range bufs {
		p := make([]byte, b)
		n, err := rc.Read(p)
		out = append(out, p[:n]...)
		if err == io.EOF {
			return out, nil
		}
		if err != nil {
			return out, err
		}
	}
	p := make([]byte, 512)
	for {
		n, err := rc.Read(p)
		out = append(out, p[:n]...)
		if err == io.EOF {
			return out, nil
		}
		if err != nil {
			return out, err
		}
	}
}

func (b *backend) writer(k int) io.WriteSeeker {
	for len(b.writers) <= k {
		b.writers = append(b.writers, nil)
	}
	if b.writers[k] == nil {
		b.writers[k] = b.parts[k].Writer()
	}
	return b.writers[k]
}

func (b *backend) step(ws []string) string {
	switch ws[0] {
	case "newpart":
		b.parts = append(b.parts, b.file.NewPart())
		return "u"
	case "wr":
		k, _ := strconv.Atoi(ws[1])
		if k >= len(b.parts) {
			return "e"
		}
		var data []byte
		if ws[2] != "-" {
			data, _ = hex.DecodeString(ws[2])
		}
		n, err := b.writer(k).Write(data)
		if err != nil {
			return "e"
		}
		return fmt.Sprintf("n%d", n)
	case "seek":
		k, _ := strconv.Atoi(ws[1])
		if k >= len(b.parts) {
			return "e"
		}
		off, _ := strconv.ParseInt(ws[2], 10, 64)
		wh := io.SeekStart
		if ws[3] == "cur" {
			wh = io.SeekCurrent
		}
		n, err := b.writer(k).Seek(off, wh)
		if err != nil {
			return "e"
		}
		return fmt.Sprintf("n%d", n)
	case "fin":
		b.file.Finalize()
		return "u"
	case "rm":
		b.file.Remove()
		return "u"
	case "rdpart":
		k, _ := strconv.Atoi(ws[1])
		if k >= len(b.parts) {
			return "e"
		}
		rc, err := b.parts[k].Reader()
		if err != nil {
			return "e"
		}
		data, err := readAll(rc, nil)
		if err != nil {
			return "e"
		}
		return "b" + hexOrDash(data)
	case "rdfile":
		var bufs []int
		if ws[1] != "-" {
			for _, s := range strings.Split(ws[1], ",") {
				v, _ := strconv.Atoi(s)
				bufs = append(bufs, v)
			}
		}
		rc, err := b.file.Reader()
		if err != nil {
			return "e"
		}
		data, err := readAll(rc, bufs)
		if err != nil {
			return "e"
		}
		return "b" + hexOrDash(data)
	case "size":
		return fmt.Sprintf("n%d", b.file.Size())
	case "open":
		// open <id> f | open <id> p <k>: keep the reader for a later `rdh`
		id, _ := strconv.Atoi(ws[1])
		var rc io.ReadCloser
		var err error
		if ws[2] == "f" {
			rc, err = b.file.Reader()
		} else {
			k, _ := strconv.Atoi(ws[3])
			if k >= len(b.parts) {
				return "e"
			}
			rc, err = b.parts[k].Reader()
		}
		if err != nil {
			return "e"
		}
		if b.handles == nil {
			b.handles = map[int]io.ReadCloser{}
		}
		b.handles[id] = rc
		return "h"
	case "rdh":
		id, _ := strconv.Atoi(ws[1])
		rc, ok := b.handles[id]
		if !ok {
			return "e"
		}
		delete(b.handles, id)
		var bufs []int
		if ws[2] != "-" {
			for _, s := range strings.Split(ws[2], ",") {
				v, _ := strconv.Atoi(s)
				bufs = append(bufs, v)
			}
		}
		data, err := readAll(rc, bufs)
		if err != nil {
			return "e"
		}
		return "b" + hexOrDash(data)
	}
	return "bad-op"
}

// refStep is the direct oracle: plain byte slices, written from the property text.
func (r *storageRunner) refStep(ws []string) string {
	switch ws[0] {
	case "newpart":
		r.ref = append(r.ref, nil)
		r.refPos = append(r.refPos, 0)
		return "u"
	case "wr":
		k, _ := strconv.Atoi(ws[1])
		var data []byte
		if ws[2] != "-" {
			data, _ = hex.DecodeString(ws[2])
		}
		for i, c := range data {
			p := r.refPos[k] + i
			if p < len(r.ref[k]) {
				r.ref[k][p] = c
			} else {
				r.ref[k] = append(r.ref[k], c)
			}
		}
		r.refPos[k] += len(data)
		return fmt.Sprintf("n%d", len(data))
	case "seek":
		k, _ := strconv.Atoi(ws[1])
		off, _ := strconv.Atoi(ws[2])
		np := off
		if ws[3] == "cur" {
			np += r.refPos[k]
		}
		if np < 0 {
			return "e"
		}
		r.refPos[k] = np
		for len(r.ref[k]) < np {
			r.ref[k] = append(r.ref[k], 0)
		}
		return fmt.Sprintf("n%d", np)
	case "fin":
		r.fin = true
		return "u"
	case "rm":
		r.removed = true
		return "u"
	case "rdpart":
		k, _ := strconv.Atoi(ws[1])
		return "b" + hexOrDash(r.ref[k])
	case "rdfile":
		if !r.fin {
			return "e"
		}
		var all []byte
		for _, p := range r.ref {
			all = append(all, p...)
		}
		return "b" + hexOrDash(all)
	case "size":
		if !r.fin {
			return "n0"
		}
		t := 0
		for _, p := range r.ref {
			t += len(p)
		}
		return fmt.Sprintf("n%d", t)
	}
	return "bad-op"
}

func (r *storageRunner) Step(line string) []string {
	ws := strings.Fields(line)
	if len(ws) == 0 {
		return nil
	}
	if ws[0] == "exists" {
		_, err := os.Stat(filepath.Join(r.dir, "f.mp4"))
		x := "x1"
		if err != nil {
			x = "x0"
		}
		// direct oracle: "Remove deletes the disk file" (and nothing else does)
		if r.rmCalled && x != "x0" {
			r.fails = append(r.fails, "disk file still exists after Remove")
		}
		if !r.rmCalled && x != "x1" {
			r.fails = append(r.fails, "disk file missing although Remove was not called")
		}
		return []string{"ram:- disk:" + x}
	}
	if ws[0] == "noise" {
		// an unrelated File of the same process is created and written: storage of one file must not be
		// affected by another one (shared pools / globals)
		r.noiseN++
		for _, f := range []storage.Factory{storage.NewFactoryRAM(), storage.NewFactoryDisk(r.dir)} {
			g, err := f.NewFile(fmt.Sprintf("noise%d.mp4", r.noiseN))
			if err == nil {
				for i := 0; i < 3; i++ {
					w := g.NewPart().Writer()
					w.Write(bytes.Repeat([]byte{0xEE}, 64+17*i)) //nolint:errcheck
				}
				r.noise = append(r.noise, g)
			}
		}
		return []string{"ram:u disk:u"}
	}
	if ws[0] == "rm" {
		r.rmCalled = true
	}
	if ws[0] == "open" || ws[0] == "rdh" {
		a := r.ram.step(ws)
		d := r.disk.step(ws)
		id, _ := strconv.Atoi(ws[1])
		if !r.tainted {
			if ws[0] == "open" {
				// the reference content at the moment the reader is opened
				var snap []byte
				okOpen := true
				if ws[2] == "f" {
					okOpen = r.fin
					for _, p := range r.ref {
						snap = append(snap, p...)
					}
				} else {
					k, _ := strconv.Atoi(ws[3])
					if k < len(r.ref) {
						snap = append(snap, r.ref[k]...)
					} else {
						okOpen = false
					}
				}
				if r.snaps == nil {
					r.snaps = map[int]string{}
				}
				if okOpen {
					r.snaps[id] = "b" + hexOrDash(snap)
				} else {
					r.snaps[id] = "e"
				}
				want := "h"
				if !okOpen {
					want = "e"
				}
				if a != want {
					r.fails = append(r.fails, fmt.Sprintf("ram %q: got %s want %s", line, a, want))
				}
				if !r.removed && d != want {
					r.fails = append(r.fails, fmt.Sprintf("disk %q: got %s want %s", line, d, want))
				}
				if r.removed {
					delete(r.snaps, id) // opened after Remove: outside "until Remove is called"
					r.snaps[-id-1] = "ram-only:" + want
				}
			} else if want, ok := r.snaps[id]; ok {
				// a reader returns what the part / file held when it was opened, whatever happened since
				// (later parts, Finalize, Remove)
				if a != want {
					r.fails = append(r.fails, fmt.Sprintf("ram reader opened earlier, %q: got %s want %s", line, trunc(a), trunc(want)))
				}
				if d != want {
					r.fails = append(r.fails, fmt.Sprintf("disk reader opened earlier, %q: got %s want %s", line, trunc(d), trunc(want)))
				}
			}
		}
		return []string{fmt.Sprintf("ram:%s disk:%s", a, d)}
	}
	a := r.ram.step(ws)
	d := r.disk.step(ws)
	// direct oracle, only inside the property's quantifier: disciplined ops
	// (writes to the last part, nothing written after Finalize).  The first write/seek
	// outside the discipline ends the oracle for this case (the byte-slice reference no
	// longer applies); model and implementation are still compared op by op.
	disciplined := true
	if ws[0] == "wr" || ws[0] == "seek" {
		k, _ := strconv.Atoi(ws[1])
		if k != len(r.ref)-1 || r.fin {
			disciplined = false
			r.tainted = true
		}
	}
	if ws[0] == "rdpart" {
		k, _ := strconv.Atoi(ws[1])
		if k >= len(r.ref) {
			disciplined = false
		}
	}
	if disciplined && !r.tainted {
		wasRemoved := r.removed
		want := r.refStep(ws)
		// RAM: Remove is a no-op, the reference keeps applying after it.
		if a != want {
			r.fails = append(r.fails, fmt.Sprintf("ram %q: got %s want %s", line, trunc(a), trunc(want)))
		}
		// disk: identical to the reference until Remove.
		if !wasRemoved && d != want {
			r.fails = append(r.fails, fmt.Sprintf("disk %q: got %s want %s", line, trunc(d), trunc(want)))
		}
	}
	// "Remove deletes the disk file": no file reader, and no reader of a finalized part.
	if r.removed && ws[0] == "rdfile" && d != "e" {
		r.fails = append(r.fails, fmt.Sprintf("disk file readable after Remove: %s", trunc(d)))
	}
	if r.removed && r.fin && !r.tainted && ws[0] == "rdpart" && d != "e" {
		r.fails = append(r.fails, fmt.Sprintf("disk part readable after Finalize+Remove: %q %s", line, trunc(d)))
	}
	return []string{fmt.Sprintf("ram:%s disk:%s", a, d)}
}

func trunc(s string) string {
	if len(s) > 80 {
		return s[:80] + "..."
	}
	return s
}
