package main

import (
	"fmt"
	"math/rand"
	"strings"
	"sync/atomic"
)

var poolHangs atomic.Int64

// pool slice (property C12: "Client always terminates cleanly: one error, no leaked goroutines").
//
// T2 / search: fault and cancellation enumeration on the REAL gohlslib.Client (pool_stream.go: scripted
// in-process server and synthesized streams; pool_run.go: one scenario per child process). One case is
//
//	cfg fmt=… layout=… nseg=… fault=… fidx=… close=… cidx=… n=… late=…
//	run
//
// and the observations are `cfg ok` and
//
//	run result=<eos|terminated|callback|io|other|hang|…> once=<0|1> cb_after=<n> leaked=<n> held=<0|1|-> drained=<0|1|->
//
// The Lean driver (Drv/Pool.lean) predicts the same line by running the life-cycle machine of
// Hls/Pool/Model.lean over the regenerated blocking graphs. The DIRECT ORACLE below evaluates the
// property text on the observation alone.

type poolSlice struct{}

func init() { register(poolSlice{}) }

func (poolSlice) Name() string { return "pool" }

type poolRunner struct {
	scn   *poolScn
	fails []string
}

func (poolSlice) NewRunner() Runner { return &poolRunner{} }
func (r *poolRunner) Close()        {}
func (r *poolRunner) Oracle() []string {
	return r.fails
}

func (r *poolRunner) Step(line string) []string {
	ws := strings.Fields(line)
	if len(ws) == 0 {
		return nil
	}
	switch ws[0] {
	case "cfg":
		s, ok := poolParse(line)
		if !ok {
			return []string{"bad-op"}
		}
		r.scn = s
		return []string{"cfg ok"}
	case "run":
		if r.scn == nil || len(ws) != 1 {
			return []string{"bad-op"}
		}
		// a change that wedges the client wedges EVERY scenario for the length of the watchdogs: after a few
		// hangs in this process the remaining scenarios are not run (the run is red already)
		if poolHangs.Load() >= 4 {
			return []string{"run skipped-after-hangs"}
		}
		res := poolRunInChild(r.scn)
		if strings.Contains(res.line, "result=hang") || strings.HasPrefix(res.line, "run child-timeout") {
			poolHangs.Add(1)
		}
		r.fails = append(r.fails, poolOracle(r.scn, res)...)
		return []string{res.line}
	}
	return []string{"bad-op"}
}

// poolOracle: the statement of C12 evaluated on one observation of the real client.
func poolOracle(s *poolScn, res poolChildResult) []string {
	var out []string
	fail := func(format string, a ...any) {
		out = append(out, "C12 "+fmt.Sprintf(format, a...)+" ["+s.line()+"]")
	}
	f := map[string]string{}
	ws := strings.Fields(res.line)
	for _, w := range ws[1:] {
		if kv := strings.SplitN(w, "=", 2); len(kv) == 2 {
			f[kv[0]] = kv[1]
		}
	}
	result, ok := f["result"]
	if !ok {
		// panic in the child, time-out, harness error
		fail("client did not terminate cleanly: %s %s", res.line, res.msg)
		return out
	}
	// "the channel returned by Wait yields exactly one error"
	if result == "hang" {
		fail("Wait() yielded no error: the client hangs (%s) goroutines: %s", res.msg, res.leaks)
		return out
	}
	if f["once"] != "1" {
		fail("Wait() yielded more than one error")
	}
	// "- the first fatal error, ErrClientEOS, or a termination error after Close -"; "An error returned by
	// OnTracks, and any HTTP failure, is surfaced as that error"
	inRange := s.fidx < s.nreq()
	allowed := map[string]bool{}
	closeBefore := s.closeAt == "start" || s.closeAt == "req" || s.closeAt == "held" || s.closeAt == "ontracks" || s.closeAt == "pacing" || s.fault == "stall"
	if closeBefore {
		allowed["terminated"] = true
	}
	switch {
	case s.fault == "ontracks":
		allowed["callback"] = true
	case s.fault == "status" && inRange:
		allowed["other"] = true
	case s.fault == "transport" && inRange:
		allowed["io"] = true
	case s.fault == "stall" && inRange:
	default:
		// also for a Low-Latency stream: the origin ends it with a playlist that carries ENDLIST and no preload
		// hint; the client (fix-F28) pushes the end-of-stream marker and yields ErrClientEOS
		allowed["eos"] = true
	}
	hintGone := s.format == "ll" && res.msg == "preload hint disappeared"
	if result == "other" && hintGone {
		// upstream behaviour, defect F28: the Low-Latency loop has no end-of-stream path
		fail("F28-ll-endlist-no-eos: the Low-Latency stream ended (ENDLIST, no preload hint) but Wait() yielded \"preload hint disappeared\" instead of ErrClientEOS")
	} else if !allowed[result] {
		fail("Wait() yielded %q (%s), which is neither the injected failure, nor end of stream, nor a termination after Close", result, res.msg)
	}
	if result == "other" && !hintGone {
		switch {
		case s.fault == "status" && inRange:
			if !strings.Contains(res.msg, "bad status code") {
				fail("HTTP failure surfaced as a different error: %s", res.msg)
			}
		default:
			fail("unexpected fatal error: %s", res.msg)
		}
	}
	// "Once that error has been yielded, no goroutine started by the client is still running … and no user
	// callback is invoked afterwards"
	if f["leaked"] != "0" {
		fail("leaked goroutines after the error was yielded: %s", res.leaks)
	}
	if f["cb_after"] != "0" {
		fail("user callbacks invoked after the error was yielded: %s", f["cb_after"])
	}
	if f["held"] == "0" {
		fail("the error was yielded while OnTracks was still running in a goroutine of the client")
	}
	return out
}

func (poolSlice) Corpus() [][]string {
	mk := func(s poolScn) []string { return []string{s.line(), "run"} }
	base := poolScn{format: "fmp4", layout: "single", nseg: 2, fault: "none", closeAt: "none", nclose: 1}
	var out [][]string
	for _, f := range []string{"fmp4", "ts"} {
		for _, l := range []string{"single", "rend"} {
			s := base
			s.format, s.layout = f, l
			out = append(out, mk(s)) // plain end of stream
			c := s
			c.closeAt, c.nclose = "ontracks", 3
			out = append(out, mk(c))
			c = s
			c.closeAt, c.nclose, c.late = "pacing", 2, true
			out = append(out, mk(c))
			c = s
			c.fault = "ontracks"
			out = append(out, mk(c))
			c = s
			c.closeAt, c.nclose = "eos", 3
			out = append(out, mk(c))
			c = s
			c.closeAt = "start"
			out = append(out, mk(c))
			// every request index: each fault kind, and Close (the full sweep for the single-playlist shapes;
			// the generator sweeps the indices of the multivariant ones)
			if l != "single" {
				continue
			}
			for i := 0; i <= s.nreq(); i++ {
				for _, k := range []string{"status", "transport", "stall"} {
					if k == "stall" && i%2 == 1 {
						continue
					}
					c = s
					c.fault, c.fidx = k, i
					out = append(out, mk(c))
				}
				c = s
				c.closeAt, c.cidx, c.nclose = "req", i, 1+i%3
				c.late = i%2 == 0
				out = append(out, mk(c))
			}
		}
	}
	// Low-Latency (fMP4, preload hints + playlist reloads): specials for both layouts, and for the single stream
	// every request index (init, each hint, each reload) with every fault kind and both ways of closing
	for _, l := range []string{"single", "rend"} {
		s := base
		s.format, s.layout, s.nseg = "ll", l, 3 // hints at request 2, 4, 6: fault statuses 404, 503 and 301
		s.skip = l == "rend"
		out = append(out, mk(s)) // runs until the origin stops advertising hints
		c := s
		c.closeAt, c.nclose = "ontracks", 2
		out = append(out, mk(c))
		c = s
		c.closeAt, c.nclose, c.late = "pacing", 3, true
		out = append(out, mk(c))
		c = s
		c.fault = "ontracks"
		out = append(out, mk(c))
		c = s
		c.closeAt, c.nclose = "eos", 2
		out = append(out, mk(c))
		c = s
		c.closeAt = "start"
		out = append(out, mk(c))
		if l != "single" {
			continue
		}
		for i := 0; i <= s.nreq(); i++ {
			for _, k := range []string{"status", "transport", "stall"} {
				c = s
				c.fault, c.fidx, c.skip = k, i, i%2 == 1
				out = append(out, mk(c))
			}
			c = s
			c.closeAt, c.cidx, c.nclose = "req", i, 1+i%3
			out = append(out, mk(c))
			c = s
			c.closeAt, c.cidx, c.nclose, c.late, c.skip = "held", i, 1+(i+1)%3, i%2 == 0, true
			out = append(out, mk(c))
		}
	}
	return out
}

func (poolSlice) Gen(r *rand.Rand, _ int, tier string) ([]string, []string) {
	s := poolScn{format: "fmp4", layout: "single", nseg: 1 + r.Intn(3), fault: "none", closeAt: "none", nclose: 1 + r.Intn(3)}
	if r.Intn(2) == 0 {
		s.format = "ts"
	}
	if r.Intn(3) == 0 {
		s.layout = "rend"
	}
	if r.Intn(10) < 3 {
		s.format, s.skip = "ll", r.Intn(2) == 0
	}
	idx := func() int {
		if s.format == "ll" && s.layout == "rend" {
			// two independent Low-Latency streams: only indices both streams are certain to be alive at
			return r.Intn(2*s.nseg + 2)
		}
		return r.Intn(s.nreq() + 2)
	}
	var tag string
	switch p := r.Intn(100); {
	case p < 22:
		tag = "fault-sweep"
		s.fault = []string{"status", "transport"}[r.Intn(2)]
		s.fidx = idx()
	case p < 44:
		tag = "close-at-request"
		s.closeAt, s.cidx = "req", idx()
		if r.Intn(2) == 0 {
			tag = "close-while-request-held"
			s.closeAt = "held"
		}
		s.late = r.Intn(4) == 0
	case p < 52:
		tag = "close-before-first-response"
		s.closeAt = "start"
		s.late = r.Intn(4) == 0
	case p < 62:
		tag = "close-in-ontracks"
		s.closeAt = "ontracks"
		if r.Intn(4) == 0 {
			s.fault = "ontracks"
		}
	case p < 70:
		tag = "close-while-pacing"
		s.closeAt = "pacing"
		s.late = r.Intn(4) == 0
	case p < 77:
		tag = "close-after-eos"
		s.closeAt = "eos"
	case p < 86:
		tag = "stalling-body"
		s.fault, s.fidx = "stall", idx()
		s.late = r.Intn(4) == 0
	case p < 91:
		tag = "ontracks-error"
		s.fault = "ontracks"
	case p < 93:
		tag = "plain"
	default:
		tag = "fault-and-close"
		s.layout = "single" // one downloader at a time: the request order is the index order
		s.fault = []string{"status", "transport"}[r.Intn(2)]
		s.fidx = idx()
		s.closeAt = "req"
		for s.cidx = idx(); s.cidx == s.fidx; s.cidx = idx() {
		}
	}
	if s.format == "ll" {
		tag = "ll-" + tag
	}
	tags := []string{tag, "fmt-" + s.format, "layout-" + s.layout, fmt.Sprintf("closes-%d", s.nclose)}
	if s.late {
		tags = append(tags, "late-wait")
	}
	return []string{s.line(), "run"}, tags
}
